//go:build verif

// Package verifw holds the helpers shared by the wildcard drivers (C13, C14, C15) of the
// packages plugin and config: construction and Gallina rendering of system.IP / system.Route /
// NDP options, and the bounded-exhaustive sequence generator.
package verifw

import (
	"fmt"
	"math/big"
	"net/netip"
	"strings"

	"github.com/mdlayher/corerad/internal/system"
	"github.com/mdlayher/corerad/internal/verifh"
	"github.com/mdlayher/ndp"
)

// IP builds a system.IP; flags is a string of letters: d(eprecated) m(anage temporary)
// s(table privacy) t(emporary) n(tentative) f(orever).
func IP(pfx string, flags string) system.IP {
	ip := system.IP{Address: netip.MustParsePrefix(pfx)}
	for _, c := range flags {
		switch c {
		case 'd':
			ip.Deprecated = true
		case 'm':
			ip.ManageTemporaryAddresses = true
		case 's':
			ip.StablePrivacy = true
		case 't':
			ip.Temporary = true
		case 'n':
			ip.Tentative = true
		case 'f':
			ip.ValidForever = true
		default:
			panic("bad flag " + string(c))
		}
	}
	return ip
}

func Flags(ip system.IP) string {
	var b strings.Builder
	for _, f := range []struct {
		on bool
		c  byte
	}{{ip.Deprecated, 'd'}, {ip.ManageTemporaryAddresses, 'm'}, {ip.StablePrivacy, 's'},
		{ip.Temporary, 't'}, {ip.Tentative, 'n'}, {ip.ValidForever, 'f'}} {
		if f.on {
			b.WriteByte(f.c)
		}
	}
	return b.String()
}

// IPCoq renders a system.IP as a Model.Types.sysip.
func IPCoq(ip system.IP) string {
	a := ip.Address.Addr()
	return verifh.App("mkIP", verifh.B(a.Is4()), AddrN(a), verifh.N(uint64(ip.Address.Bits())),
		verifh.B(ip.Deprecated), verifh.B(ip.ManageTemporaryAddresses), verifh.B(ip.StablePrivacy),
		verifh.B(ip.Temporary), verifh.B(ip.Tentative), verifh.B(ip.ValidForever))
}

// AddrN renders an address as a hexadecimal N literal (Coq parses these much faster than
// 39-digit decimal ones); IPv4 addresses as their 32-bit value.
func AddrN(a netip.Addr) string {
	if !a.IsValid() {
		return "0%N"
	}
	if a.Is4() {
		b := a.As4()
		return "0x" + new(big.Int).SetBytes(b[:]).Text(16) + "%N"
	}
	b := a.As16()
	return "0x" + new(big.Int).SetBytes(b[:]).Text(16) + "%N"
}

func IPsCoq(ips []system.IP) string {
	items := make([]string, 0, len(ips))
	for _, ip := range ips {
		items = append(items, IPCoq(ip))
	}
	return verifh.List(items)
}

func IPsJSON(ips []system.IP) []string {
	res := make([]string, 0, len(ips))
	for _, ip := range ips {
		s := ip.Address.String()
		if f := Flags(ip); f != "" {
			s += " " + f
		}
		res = append(res, s)
	}
	return res
}

func RouteCoq(r system.Route) string {
	a := r.Prefix.Addr()
	return verifh.App("mkRoute", verifh.B(a.Is4()), AddrN(a), verifh.N(uint64(r.Prefix.Bits())))
}

func Pref(p ndp.Preference) string {
	switch p {
	case ndp.Low:
		return "Low"
	case ndp.High:
		return "High"
	default:
		return "Medium"
	}
}

// OptsCoq renders the options of an RA as a list of Model.Types.opt.
func OptsCoq(opts []ndp.Option) (string, []string) {
	items := make([]string, 0, len(opts))
	js := make([]string, 0, len(opts))
	for _, o := range opts {
		switch o := o.(type) {
		case *ndp.PrefixInformation:
			items = append(items, verifh.App("OPrefix", verifh.N(uint64(o.PrefixLength)), verifh.B(o.OnLink),
				verifh.B(o.AutonomousAddressConfiguration), verifh.Z(int64(o.ValidLifetime)),
				verifh.Z(int64(o.PreferredLifetime)), AddrN(o.Prefix)))
			js = append(js, fmt.Sprintf("prefix %s/%d onlink=%v auto=%v valid=%d pref=%d", o.Prefix, o.PrefixLength,
				o.OnLink, o.AutonomousAddressConfiguration, int64(o.ValidLifetime), int64(o.PreferredLifetime)))
		case *ndp.RouteInformation:
			items = append(items, verifh.App("ORoute", verifh.N(uint64(o.PrefixLength)), Pref(o.Preference),
				verifh.Z(int64(o.RouteLifetime)), AddrN(o.Prefix)))
			js = append(js, fmt.Sprintf("route %s/%d pref=%s lifetime=%d", o.Prefix, o.PrefixLength, Pref(o.Preference), int64(o.RouteLifetime)))
		case *ndp.RecursiveDNSServer:
			ss := make([]string, 0, len(o.Servers))
			sj := make([]string, 0, len(o.Servers))
			for _, s := range o.Servers {
				ss = append(ss, AddrN(s))
				sj = append(sj, s.String())
			}
			items = append(items, verifh.App("ORDNSS", verifh.Z(int64(o.Lifetime)), verifh.List(ss)))
			js = append(js, fmt.Sprintf("rdnss lifetime=%d [%s]", int64(o.Lifetime), strings.Join(sj, " ")))
		default:
			items = append(items, "(OOther 0%N)")
			js = append(js, fmt.Sprintf("other %T", o))
		}
	}
	return verifh.List(items), js
}

// Result renders the outcome of Apply: Ok options, or Err 0.
func Result(ra *ndp.RouterAdvertisement, err error) (string, any) {
	if err != nil {
		return "(Err 0%N)", "error"
	}
	c, js := OptsCoq(ra.Options)
	return verifh.App("Ok", c), js
}

// Seqs calls fn with every sequence (with repetition) of indices < n of length 0..maxLen.
// The sequences with distinct elements are exactly the permutations of all subsets of size <= maxLen;
// the others repeat entries.
func Seqs(n, maxLen int, fn func(seq []int)) {
	var rec func(seq []int)
	rec = func(seq []int) {
		fn(seq)
		if len(seq) == maxLen {
			return
		}
		for i := 0; i < n; i++ {
			rec(append(seq, i))
		}
	}
	rec(make([]int, 0, maxLen))
}

func SeqID(seq []int) string {
	var b strings.Builder
	for k, i := range seq {
		if k > 0 {
			b.WriteByte('.')
		}
		fmt.Fprintf(&b, "%d", i)
	}
	if b.Len() == 0 {
		return "empty"
	}
	return b.String()
}

func Distinct(seq []int) bool {
	for i := range seq {
		for j := 0; j < i; j++ {
			if seq[i] == seq[j] {
				return false
			}
		}
	}
	return true
}

// Addr16 builds an IPv6 address from a 64-bit network part and a 64-bit host part.
func Addr16(hi, lo uint64) netip.Addr {
	var b [16]byte
	for i := 0; i < 8; i++ {
		b[i] = byte(hi >> (56 - 8*i))
		b[8+i] = byte(lo >> (56 - 8*i))
	}
	return netip.AddrFrom16(b)
}

// Lifetimes draws stanza lifetimes, an epoch and a clock reading.
func Lifetimes(r *verifh.Rand) (valid, pref int64, dep bool, epoch, now int64) {
	durs := []int64{1e9, 1800e9, 4 * 3600e9, 24 * 3600e9, 30 * 24 * 3600e9, 4294967295e9}
	valid = verifh.Pick(r, durs)
	pref = verifh.Pick(r, durs)
	if pref > valid {
		pref = valid
	}
	epoch = int64(1_700_000_000)*1e9 + r.Int63n(1e9)
	now = epoch
	if r.Chance(30) {
		dep = true
		if valid == 4294967295e9 {
			valid, pref = 24*3600e9, 4*3600e9
		}
		switch r.Intn(4) {
		case 0:
			now = epoch + r.Int63n(valid+1)
		case 1:
			now = epoch + pref
		case 2:
			now = epoch + valid + r.Int63n(1e12)
		default:
			now = epoch - r.Int63n(1e12)
		}
	}
	return
}
