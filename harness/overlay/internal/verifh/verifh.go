//go:build verif

// Package verifh is the helper shared by the verification drivers (zz_verif_*_test.go) that
// are overlaid on a staged copy of the repository: case output, a seeded PRNG, and rendering
// of Go values as Gallina terms.
package verifh

import (
	"bufio"
	"encoding/json"
	"fmt"
	"math/big"
	"net/netip"
	"os"
	"reflect"
	"strconv"
	"strings"
	"sync"
	"time"
)

// A Case is one correspondence case: Coq is a Gallina term of the property's `case` type
// holding the input and the implementation's observed output.
type Case struct {
	ID            string   `json:"id"`
	Coq           string   `json:"coq,omitempty"`
	Input         any      `json:"input,omitempty"`
	Observed      any      `json:"observed,omitempty"`
	Tags          []string `json:"tags,omitempty"`
	Desc          string   `json:"desc,omitempty"`
	ImplViolation string   `json:"impl_violation,omitempty"`
	Class         string   `json:"class,omitempty"`
	Corr          string   `json:"corr,omitempty"` // Coq module whose case type this term has (default: the driver's)
	Seed          uint64   `json:"seed"`
	Tier          string   `json:"tier"`
}

// Out writes cases as JSON lines to $VERIF_OUT.
type Out struct {
	mu   sync.Mutex
	f    *os.File
	w    *bufio.Writer
	only string
	n    int
}

func Open() *Out {
	p := os.Getenv("VERIF_OUT")
	if p == "" {
		p = os.DevNull
	}
	f, err := os.OpenFile(p, os.O_CREATE|os.O_WRONLY|os.O_APPEND, 0o644)
	if err != nil {
		panic(err)
	}
	return &Out{f: f, w: bufio.NewWriterSize(f, 1<<20), only: os.Getenv("VERIF_ONLY")}
}

// Wants reports whether the case with this id should be run (replay mode runs one case).
func (o *Out) Wants(id string) bool { return o.only == "" || o.only == id }

func (o *Out) Emit(c Case) {
	if !o.Wants(c.ID) {
		return
	}
	c.Seed, c.Tier = Seed(), Tier()
	b, err := json.Marshal(c)
	if err != nil {
		panic(err)
	}
	o.mu.Lock()
	defer o.mu.Unlock()
	o.w.Write(b)
	o.w.WriteByte('\n')
	o.w.Flush() // a driver that crashes later must not lose the cases it has already produced
	o.n++
}

func (o *Out) Count() int { return o.n }

func (o *Out) Close() {
	o.w.Flush()
	o.f.Close()
}

func Seed() uint64 {
	v, err := strconv.ParseUint(os.Getenv("VERIF_SEED"), 10, 64)
	if err != nil {
		return 20260930
	}
	return v
}

func Tier() string {
	if t := os.Getenv("VERIF_TIER"); t != "" {
		return t
	}
	return "quick"
}

func Thorough() bool { return Tier() == "thorough" }

// Rand is splitmix64: every random choice of a driver derives from one seed.
type Rand struct{ s uint64 }

func NewRand(seed uint64, stream string) *Rand {
	r := &Rand{s: seed}
	for _, c := range []byte(stream) {
		r.s = r.s*1099511628211 ^ uint64(c)
		r.Uint64()
	}
	return r
}

func (r *Rand) Uint64() uint64 {
	r.s += 0x9e3779b97f4a7c15
	z := r.s
	z = (z ^ (z >> 30)) * 0xbf58476d1ce4e5b9
	z = (z ^ (z >> 27)) * 0x94d049bb133111eb
	return z ^ (z >> 31)
}
func (r *Rand) Intn(n int) int {
	if n <= 0 {
		return 0
	}
	return int(r.Uint64() % uint64(n))
}
func (r *Rand) Int63n(n int64) int64 {
	if n <= 0 {
		return 0
	}
	return int64(r.Uint64() % uint64(n))
}
func (r *Rand) Bool() bool          { return r.Uint64()&1 == 1 }
func (r *Rand) Chance(p int) bool   { return r.Intn(100) < p } // p percent
func Pick[T any](r *Rand, xs []T) T { return xs[r.Intn(len(xs))] }
func Shuffle[T any](r *Rand, xs []T) {
	for i := len(xs) - 1; i > 0; i-- {
		j := r.Intn(i + 1)
		xs[i], xs[j] = xs[j], xs[i]
	}
}

// ---- Gallina rendering

func Z(v int64) string       { return fmt.Sprintf("(%d)%%Z", v) }
func ZBig(v *big.Int) string { return fmt.Sprintf("(%s)%%Z", v.String()) }
func N(v uint64) string      { return fmt.Sprintf("%d%%N", v) }
func Nat(v int) string       { return fmt.Sprintf("%d%%nat", v) }
func B(v bool) string {
	if v {
		return "true"
	}
	return "false"
}

// AddrN renders a 16-byte address as a 128-bit N (IPv4 addresses as their 32-bit value).
func AddrN(a netip.Addr) string {
	if !a.IsValid() {
		return "0%N"
	}
	if a.Is4() {
		b := a.As4()
		return new(big.Int).SetBytes(b[:]).String() + "%N"
	}
	b := a.As16()
	return new(big.Int).SetBytes(b[:]).String() + "%N"
}

func AddrBig(a netip.Addr) *big.Int {
	b := a.As16()
	return new(big.Int).SetBytes(b[:])
}

func List(items []string) string { return "[" + strings.Join(items, "; ") + "]" }
func Some(s string) string       { return "(Some " + s + ")" }
func None() string               { return "None" }
func Pair(a, b string) string    { return "(" + a + ", " + b + ")" }
func App(f string, args ...string) string {
	return "(" + f + " " + strings.Join(args, " ") + ")"
}

// Intern maps strings to small numbers (equality is all the models use).
type Intern struct {
	m map[string]uint64
}

func NewIntern() *Intern { return &Intern{m: map[string]uint64{}} }
func (i *Intern) ID(s string) uint64 {
	if v, ok := i.m[s]; ok {
		return v
	}
	v := uint64(len(i.m) + 1)
	i.m[s] = v
	return v
}
func (i *Intern) N(s string) string { return N(i.ID(s)) }

// ---------------------------------------------------------------- deep snapshots

// DeepDump renders a value deeply and canonically (pointers and interfaces followed, slices and arrays by
// content, functions as set / nil, netip and time values by their textual form), so that two dumps are equal
// iff nothing reachable changed.  Used for "X never alters the configuration" assertions on the implementation.
func DeepDump(v any) string {
	var b strings.Builder
	deepDump(reflect.ValueOf(v), &b, 0)
	return b.String()
}

// DeepDiff returns a short description of the first position at which two dumps differ ("" when equal).
func DeepDiff(before, after string) string {
	if before == after {
		return ""
	}
	i := 0
	for i < len(before) && i < len(after) && before[i] == after[i] {
		i++
	}
	lo := max(0, i-60)
	return fmt.Sprintf("at byte %d: before ...%s... after ...%s...", i, before[lo:min(len(before), i+60)], after[lo:min(len(after), i+60)])
}

var (
	tDumpAddr   = reflect.TypeOf(netip.Addr{})
	tDumpPrefix = reflect.TypeOf(netip.Prefix{})
	tDumpTime   = reflect.TypeOf(time.Time{})
)

func deepDump(v reflect.Value, b *strings.Builder, depth int) {
	if depth > 14 {
		b.WriteString("<deep>")
		return
	}
	if !v.IsValid() {
		b.WriteString("<invalid>")
		return
	}
	switch v.Type() {
	case tDumpAddr, tDumpPrefix:
		if v.CanInterface() {
			fmt.Fprint(b, v.Interface())
			return
		}
	case tDumpTime:
		if v.CanInterface() {
			fmt.Fprintf(b, "t%d", v.Interface().(time.Time).UnixNano())
			return
		}
	}
	switch v.Kind() {
	case reflect.Ptr, reflect.Interface:
		if v.IsNil() {
			b.WriteString("nil")
			return
		}
		fmt.Fprintf(b, "&%s", v.Elem().Type().String())
		deepDump(v.Elem(), b, depth+1)
	case reflect.Struct:
		b.WriteString("{")
		for i := 0; i < v.NumField(); i++ {
			f := v.Type().Field(i)
			if f.Type.Kind() == reflect.Struct && (f.Type.PkgPath() == "sync" || f.Type.PkgPath() == "sync/atomic") {
				continue // locks are not configuration
			}
			fmt.Fprintf(b, "%s:", f.Name)
			deepDump(v.Field(i), b, depth+1)
			b.WriteString(",")
		}
		b.WriteString("}")
	case reflect.Slice:
		if v.IsNil() {
			b.WriteString("nil[]")
			return
		}
		fallthrough
	case reflect.Array:
		fmt.Fprintf(b, "[%d:", v.Len())
		for i := 0; i < v.Len(); i++ {
			deepDump(v.Index(i), b, depth+1)
			b.WriteString(",")
		}
		b.WriteString("]")
	case reflect.Map:
		fmt.Fprintf(b, "map[%d]", v.Len())
	case reflect.Func, reflect.Chan:
		if v.IsNil() {
			b.WriteString(v.Kind().String() + ":nil")
		} else {
			b.WriteString(v.Kind().String() + ":set")
		}
	case reflect.String:
		fmt.Fprintf(b, "%q", v.String())
	case reflect.Bool:
		fmt.Fprint(b, v.Bool())
	case reflect.Int, reflect.Int8, reflect.Int16, reflect.Int32, reflect.Int64:
		fmt.Fprint(b, v.Int())
	case reflect.Uint, reflect.Uint8, reflect.Uint16, reflect.Uint32, reflect.Uint64:
		fmt.Fprint(b, v.Uint())
	default:
		fmt.Fprintf(b, "<%s>", v.Kind())
	}
}
