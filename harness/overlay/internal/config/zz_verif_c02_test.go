//go:build verif

package config_test

import (
	"context"
	"fmt"
	"math/big"
	"net"
	"net/netip"
	"sort"
	"strconv"
	"reflect"
	"strings"
	"testing"
	"time"

	"github.com/mdlayher/corerad/internal/config"
	"github.com/mdlayher/corerad/internal/plugin"
	"github.com/mdlayher/corerad/internal/verifh"
	"github.com/mdlayher/ndp"
)

// ---------------------------------------------------------------------------------------------
// A TOML document as a tree of tables; the generators build and mutate these, render them to
// TOML text for config.Parse, and lex them (with the stdlib functions the parser itself calls)
// into the Gallina term of Model.Config.raw_config.

const (
	kStr = iota
	kInt
	kBool
	kList
	kRaw // literal TOML (decode stream only: wrong types)
)

type c02val struct {
	kind int
	s    string
	i    int64
	b    bool
	l    []string
}

type c02table struct {
	order    []string
	v        map[string]c02val
	subOrder []string
	subs     map[string][]*c02table
}

func newTable() *c02table {
	return &c02table{v: map[string]c02val{}, subs: map[string][]*c02table{}}
}

func (t *c02table) set(k string, v c02val) *c02table {
	if _, ok := t.v[k]; !ok {
		t.order = append(t.order, k)
	}
	t.v[k] = v
	return t
}
func (t *c02table) setS(k, s string) *c02table          { return t.set(k, c02val{kind: kStr, s: s}) }
func (t *c02table) setI(k string, i int64) *c02table    { return t.set(k, c02val{kind: kInt, i: i}) }
func (t *c02table) setB(k string, b bool) *c02table     { return t.set(k, c02val{kind: kBool, b: b}) }
func (t *c02table) setL(k string, l []string) *c02table { return t.set(k, c02val{kind: kList, l: l}) }
func (t *c02table) setRaw(k, s string) *c02table        { return t.set(k, c02val{kind: kRaw, s: s}) }
func (t *c02table) del(k string) {
	if _, ok := t.v[k]; !ok {
		return
	}
	delete(t.v, k)
	for i, o := range t.order {
		if o == k {
			t.order = append(t.order[:i:i], t.order[i+1:]...)
			break
		}
	}
}
func (t *c02table) add(sub string, s *c02table) *c02table {
	if _, ok := t.subs[sub]; !ok {
		t.subOrder = append(t.subOrder, sub)
	}
	t.subs[sub] = append(t.subs[sub], s)
	return s
}
func (t *c02table) str(k string) (string, bool) {
	v, ok := t.v[k]
	return v.s, ok
}
func (t *c02table) boolv(k string) bool { return t.v[k].b }

// absent is the marker the vocabularies use for "key not in the document".
const absent = "\x00absent"

func (t *c02table) setOrDel(k, s string) {
	if s == absent {
		t.del(k)
	} else {
		t.setS(k, s)
	}
}

type c02doc struct {
	ifaces []*c02table
	debug  *c02table
	top    string // extra literal text in front (decode stream)
	sep    string // extra literal text between two interface stanzas (volume stream)
}

func tq(s string) string {
	var b strings.Builder
	b.WriteByte('"')
	for _, r := range s {
		switch {
		case r == '"' || r == '\\':
			b.WriteByte('\\')
			b.WriteRune(r)
		case r < 0x20 || r == 0x7f:
			fmt.Fprintf(&b, "\\u%04X", r)
		default:
			b.WriteRune(r)
		}
	}
	b.WriteByte('"')
	return b.String()
}

func (v c02val) lit() string {
	switch v.kind {
	case kStr:
		return tq(v.s)
	case kInt:
		return fmt.Sprint(v.i)
	case kBool:
		return fmt.Sprint(v.b)
	case kList:
		q := make([]string, len(v.l))
		for i, s := range v.l {
			q[i] = tq(s)
		}
		return "[" + strings.Join(q, ", ") + "]"
	default:
		return v.s
	}
}

func (t *c02table) render(b *strings.Builder, path, indent string) {
	for _, k := range t.order {
		fmt.Fprintf(b, "%s%s = %s\n", indent, k, t.v[k].lit())
	}
	for _, sub := range t.subOrder {
		for _, s := range t.subs[sub] {
			fmt.Fprintf(b, "\n%s  [[%s.%s]]\n", indent, path, sub)
			s.render(b, path+"."+sub, indent+"  ")
		}
	}
}

func (d *c02doc) render() string {
	var b strings.Builder
	b.WriteString(d.top)
	for k, ifi := range d.ifaces {
		if k > 0 {
			b.WriteString(d.sep)
		}
		b.WriteString("[[interfaces]]\n")
		ifi.render(&b, "interfaces", "")
		b.WriteString("\n")
	}
	if d.debug != nil {
		b.WriteString("[debug]\n")
		d.debug.render(&b, "debug", "")
	}
	return b.String()
}

// ---------------------------------------------------------------------------------------------
// Lexing into Gallina atoms.

type c02lex struct {
	in    *verifh.Intern
	zones map[string]uint64 // zone string -> rank (1-based, in string order)
}

func (x *c02lex) name(s string) string {
	if s == "" {
		return "0%N"
	}
	return x.in.N(s)
}

func lexDurS(s string, present bool) string {
	if !present {
		return "DAbsent"
	}
	switch s {
	case "":
		return "DEmpty"
	case "auto":
		return "DAuto"
	case "infinite":
		return "DInfinite"
	}
	d, err := time.ParseDuration(s)
	if err != nil {
		return "DJunk"
	}
	return verifh.App("DDur", verifh.Z(int64(d)))
}

func lexDur(t *c02table, k string) string {
	s, ok := t.str(k)
	return lexDurS(s, ok)
}

func lexCidr(t *c02table, k string) string {
	s, ok := t.str(k)
	if !ok {
		return "CAbsent"
	}
	if s == "" {
		return "CEmpty"
	}
	p, err := netip.ParsePrefix(s)
	if err != nil {
		return "CJunk"
	}
	return verifh.App("CPfx", verifh.B(p.Addr().Is4()), verifh.AddrN(p.Addr()), verifh.N(uint64(p.Bits())))
}

func lexPref(t *c02table, k string) string {
	s, _ := t.str(k)
	switch s {
	case "":
		return "PrEmpty"
	case "low":
		return "PrLow"
	case "medium":
		return "PrMedium"
	case "high":
		return "PrHigh"
	}
	return "PrJunk"
}

func (x *c02lex) addr(s string) string {
	a, err := netip.ParseAddr(s)
	if err != nil {
		return "AJunk"
	}
	return verifh.App("AAddr", verifh.B(a.Is4()), verifh.AddrN(a.WithZone("")), verifh.N(x.zones[a.Zone()]))
}

func (x *c02lex) captive(t *c02table) string {
	s, _ := t.str("captive_portal")
	if s == "" {
		return "UEmpty"
	}
	cp, err := ndp.NewCaptivePortal(s)
	if err != nil {
		return "UBad"
	}
	return verifh.App("UOk", x.name(cp.URI))
}

func optB(t *c02table, k string) string {
	v, ok := t.v[k]
	if !ok {
		return "None"
	}
	return verifh.Some(verifh.B(v.b))
}

func (x *c02lex) iface(t *c02table) string {
	name, _ := t.str("name")
	var names []string
	for _, n := range t.v["names"].l {
		names = append(names, x.name(n))
	}
	hop := "None"
	if v, ok := t.v["hop_limit"]; ok {
		hop = verifh.Some(verifh.Z(v.i))
	}
	var pfx, rts, rd, dn, p64 []string
	for _, p := range t.subs["prefix"] {
		pfx = append(pfx, verifh.App("mkRP", lexCidr(p, "prefix"), optB(p, "on_link"), optB(p, "autonomous"),
			lexDur(p, "valid_lifetime"), lexDur(p, "preferred_lifetime"), verifh.B(p.boolv("deprecated"))))
	}
	for _, r := range t.subs["route"] {
		rts = append(rts, verifh.App("mkRR", lexCidr(r, "prefix"), lexPref(r, "preference"),
			lexDur(r, "lifetime"), verifh.B(r.boolv("deprecated"))))
	}
	for _, r := range t.subs["rdnss"] {
		var srv []string
		for _, s := range r.v["servers"].l {
			srv = append(srv, x.addr(s))
		}
		rd = append(rd, verifh.App("mkRD", lexDur(r, "lifetime"), verifh.List(srv)))
	}
	for _, d := range t.subs["dnssl"] {
		var ns []string
		for _, s := range d.v["domain_names"].l {
			ns = append(ns, x.name(s))
		}
		dn = append(dn, verifh.App("mkRN", lexDur(d, "lifetime"), verifh.List(ns)))
	}
	for _, p := range t.subs["pref64"] {
		p64 = append(p64, verifh.App("mkR6", lexCidr(p, "prefix")))
	}
	return verifh.App("mkRI", x.name(name), verifh.List(names),
		verifh.B(t.boolv("monitor")), verifh.B(t.boolv("advertise")), verifh.B(t.boolv("verbose")),
		lexDur(t, "max_interval"), lexDur(t, "min_interval"), verifh.B(t.boolv("managed")), verifh.B(t.boolv("other_config")),
		lexDur(t, "reachable_time"), lexDur(t, "retransmit_timer"), hop, lexDur(t, "default_lifetime"),
		verifh.B(t.boolv("unicast_only")), lexPref(t, "preference"),
		verifh.List(pfx), verifh.List(rts), verifh.List(rd), verifh.List(dn), verifh.List(p64),
		verifh.Z(t.v["mtu"].i), optB(t, "source_lla"), x.captive(t))
}

func (x *c02lex) doc(d *c02doc) string {
	var ifs []string
	for _, t := range d.ifaces {
		ifs = append(ifs, x.iface(t))
	}
	dbg := d.debug
	if dbg == nil {
		dbg = newTable()
	}
	addr, _ := dbg.str("address")
	resolves := false
	if addr != "" {
		_, err := net.ResolveTCPAddr("tcp", addr)
		resolves = err == nil
	}
	return verifh.App("mkRC", verifh.List(ifs),
		verifh.App("mkRDbg", x.name(addr), verifh.B(resolves), verifh.B(dbg.boolv("prometheus")), verifh.B(dbg.boolv("pprof"))))
}

// zone ranks: every zone string written in the document, in string order.
func zoneRanks(d *c02doc) map[string]uint64 {
	set := map[string]bool{}
	for _, t := range d.ifaces {
		for _, r := range t.subs["rdnss"] {
			for _, s := range r.v["servers"].l {
				if a, err := netip.ParseAddr(s); err == nil && a.Zone() != "" {
					set[a.Zone()] = true
				}
			}
		}
	}
	var zs []string
	for z := range set {
		zs = append(zs, z)
	}
	sort.Strings(zs)
	m := map[string]uint64{"": 0}
	for i, z := range zs {
		m[z] = uint64(i + 1)
	}
	return m
}

// ---------------------------------------------------------------------------------------------
// Observing config.Parse.

func prefS(p ndp.Preference) string {
	switch p {
	case ndp.Low:
		return "Low"
	case ndp.Medium:
		return "Medium"
	case ndp.High:
		return "High"
	}
	return "(invalid_preference)"
}

var two128 = new(big.Int).Lsh(big.NewInt(1), 128)

func (x *c02lex) plugins(ps []plugin.Plugin, epoch time.Time, bad *[]string) string {
	var out []string
	for _, p := range ps {
		switch p := p.(type) {
		case *plugin.Prefix:
			if !p.Epoch.Equal(epoch) {
				*bad = append(*bad, "prefix plugin epoch differs from the epoch handed to Parse")
			}
			out = append(out, verifh.App("PPrefix", verifh.B(p.Auto), verifh.AddrN(p.Prefix.Addr()), verifh.N(uint64(p.Prefix.Bits())),
				verifh.B(p.OnLink), verifh.B(p.Autonomous), verifh.Z(int64(p.ValidLifetime)), verifh.Z(int64(p.PreferredLifetime)), verifh.B(p.Deprecated)))
		case *plugin.Route:
			if !p.Epoch.Equal(epoch) {
				*bad = append(*bad, "route plugin epoch differs from the epoch handed to Parse")
			}
			out = append(out, verifh.App("PRoute", verifh.B(p.Auto), verifh.AddrN(p.Prefix.Addr()), verifh.N(uint64(p.Prefix.Bits())),
				prefS(p.Preference), verifh.Z(int64(p.Lifetime)), verifh.B(p.Deprecated)))
		case *plugin.RDNSS:
			var srv []string
			for _, a := range p.Servers {
				v := verifh.AddrBig(a.WithZone(""))
				if a.Is4() {
					b := a.As4()
					v = new(big.Int).SetBytes(b[:])
				}
				z := new(big.Int).Mul(new(big.Int).SetUint64(x.zones[a.Zone()]), two128)
				srv = append(srv, v.Add(v, z).String()+"%N")
			}
			out = append(out, verifh.App("PRDNSS", verifh.B(p.Auto), verifh.Z(int64(p.Lifetime)), verifh.List(srv)))
		case *plugin.DNSSL:
			var ns []string
			for _, s := range p.DomainNames {
				ns = append(ns, x.name(s))
			}
			out = append(out, verifh.App("PDNSSL", verifh.Z(int64(p.Lifetime)), verifh.List(ns)))
		case *plugin.MTU:
			out = append(out, verifh.App("PMTU", verifh.Z(int64(*p))))
		case *plugin.LLA:
			out = append(out, "PLLA")
		case *plugin.CaptivePortal:
			out = append(out, verifh.App("PCaptive", x.name(p.Portal.URI)))
		case *plugin.PREF64:
			out = append(out, verifh.App("PPref64", verifh.B(p.Inner.Prefix.Addr().Is4()), verifh.AddrN(p.Inner.Prefix.Addr()),
				verifh.N(uint64(p.Inner.Prefix.Bits())), verifh.Z(int64(p.Inner.Lifetime))))
		default:
			*bad = append(*bad, fmt.Sprintf("unexpected plugin type %T", p))
		}
	}
	return verifh.List(out)
}

func (x *c02lex) config(c *config.Config, epoch time.Time, bad *[]string) string {
	var ifs []string
	for _, i := range c.Interfaces {
		ifs = append(ifs, verifh.App("mkIface", x.name(i.Name), verifh.B(i.Monitor), verifh.B(i.Advertise), verifh.B(i.Verbose),
			verifh.Z(int64(i.MinInterval)), verifh.Z(int64(i.MaxInterval)), verifh.B(i.Managed), verifh.B(i.OtherConfig),
			verifh.Z(int64(i.ReachableTime)), verifh.Z(int64(i.RetransmitTimer)), verifh.N(uint64(i.HopLimit)),
			verifh.Z(int64(i.DefaultLifetime)), verifh.B(i.UnicastOnly), prefS(i.Preference), x.plugins(i.Plugins, epoch, bad)))
	}
	return verifh.Pair(verifh.List(ifs),
		verifh.App("mkDbg", x.name(c.Debug.Address), verifh.B(c.Debug.Prometheus), verifh.B(c.Debug.PProf)))
}

var c02epoch = time.Unix(1_700_000_000, 123456789)

// safeParse runs the real parser; a panic is reported, never propagated.
func safeParse(text string) (c *config.Config, err error, panicked string) {
	defer func() {
		if r := recover(); r != nil {
			panicked = fmt.Sprint(r)
		}
	}()
	c, err = config.Parse(strings.NewReader(text), c02epoch)
	return c, err, ""
}

// emitDoc parses one in-model document with the real code and emits the case.
func emitDoc(out *verifh.Out, id string, d *c02doc, tags []string, desc string) {
	if !out.Wants(id) {
		return
	}
	text := d.render()
	x := &c02lex{in: verifh.NewIntern(), zones: zoneRanks(d)}
	raw := x.doc(d)
	c, err, pan := safeParse(text)
	cs := verifh.Case{ID: id, Desc: desc, Input: map[string]any{"toml": text}}
	var bad []string
	impl := verifh.None()
	switch {
	case pan != "":
		cs.ImplViolation = "config.Parse panicked: " + pan
		tags = append(tags, "result:panic")
	case err != nil:
		tags = append(tags, "result:reject")
		cs.Observed = map[string]any{"accepted": false}
	default:
		tags = append(tags, "result:accept")
		impl = verifh.Some(x.config(c, c02epoch, &bad))
		cs.Observed = map[string]any{"accepted": true, "interfaces": len(c.Interfaces)}
		// every interface has a configuration of its own, also those written as one `names` group: the plugins are
		// values that each interface's task prepares with ITS interface (hardware address, address source) -- two
		// interfaces holding the same plugin object is one of them advertising the other's state
		seen := map[uintptr]int{}
		for i, ifi := range c.Interfaces {
			for _, p := range ifi.Plugins {
				if v := reflect.ValueOf(p); v.Kind() == reflect.Pointer {
					if j, ok := seen[v.Pointer()]; ok && j != i {
						bad = append(bad, fmt.Sprintf("interfaces %q and %q share one %s plugin object", c.Interfaces[j].Name, ifi.Name, p.Name()))
					}
					seen[v.Pointer()] = i
				}
			}
		}
	}
	if len(bad) > 0 {
		cs.ImplViolation = strings.Join(bad, "; ")
	}
	if pan == "" {
		cs.Coq = verifh.App("mkCase", raw, impl)
	}
	cs.Tags = append(tags, fmt.Sprintf("ifaces:%d", min(len(d.ifaces), 4)))
	out.Emit(cs)
}

// ---------------------------------------------------------------------------------------------
// Vocabulary.

const (
	nsS  = int64(1e9)
	nsH  = 3600 * nsS
	nInf = 4294967295 * nsS
)

// durS renders ns in one of the spellings time.ParseDuration reads back exactly.
func durS(r *verifh.Rand, ns int64) string {
	switch r.Intn(4) {
	case 0:
		return fmt.Sprintf("%dns", ns)
	case 1:
		if ns%nsS == 0 {
			return fmt.Sprintf("%ds", ns/nsS)
		}
		return time.Duration(ns).String()
	case 2:
		neg := ""
		a := ns
		if a < 0 {
			neg, a = "-", -a
		}
		return fmt.Sprintf("%s%d.%09ds", neg, a/nsS, a%nsS)
	default:
		return time.Duration(ns).String()
	}
}

var durStatic = []string{
	absent, "", "auto", "infinite", "0", "0s", "-0s", "-1ns", "-1s", "-5m", "1.5s", "0.5h", "1h30m", "+10s", "1ns", "999999999ns",
	"100000h", "2000000h", "2562047h", "2562048h", "9223372036854775807ns", "9223372036854775808ns",
	"4294967295s", "4294967296s", "4294967295.000000001s", "4294967294.999999999s", "-4294967296s",
	"abc", "10", "5 s", "1d", "s", "1e3s", " 5s", "5S", "inf", "Infinite", "AUTO", "auto ", ".5s", "5.s", "1h-5m", "1µs", "1us1ns",
}

// boundary values around every limit of a key: limit-1s, limit-1ns, limit, limit+1ns, limit+1s.
func around(r *verifh.Rand, limits ...int64) []string {
	var out []string
	for _, l := range limits {
		for _, off := range []int64{-nsS, -1, 0, 1, nsS} {
			out = append(out, durS(r, l+off))
		}
	}
	return out
}

func upper075(max int64) int64 { return (3 * max / 4) / nsS * nsS }
func auto033(max int64) int64  { return (33 * max / 100) / nsS * nsS }

var prefVocab = []string{absent, "", "low", "medium", "high", "Low", "HIGH", "foo", "med", " low"}

var prefixVocab = []string{
	absent, "", "::/64", "::/0", "::/63", "::/65", "::/128", "::1/128", "::1/64", "0::/64", "::0/64", "0:0:0:0:0:0:0:0/64",
	"2001:db8::/64", "2001:db8::1/64", "2001:db8::/32", "2001:db8::/127", "2001:db8::/128", "2001:db8::", "2001:db8::/129",
	"2001:db8:0:1::/64", "2001:db8:0:1::/63", "2001:db8::/63", "2001:db8:8000::/33", "8000::/1", "::/1", "ffff:ffff:ffff:ffff::/64",
	"192.0.2.0/24", "10.0.0.1/24", "0.0.0.0/0", "::ffff:192.0.2.0/120", "::ffff:0:0/96", "::ffff:1.2.3.4/128", "::fffe:0:0/96",
	"fe80::/10", "fe80::/64", "fe80::%eth0/64", "2001:DB8::/64", "2001:db8:0:0::/64", "2001:0db8::/64",
	"foo", "/64", "2001:db8::/064", "2001:db8::/ 64", "::/-1", "2001:db8::/64 ", "1::/16", "2001:db8::/+64", "2001:db8::/6 4", "::/",
}

var routeVocab = append([]string{"2001:db8:ffff::/48", "2001:db8:ffff::/64", "2001:db8:ffff::1/128", "2000::/3", "::/8", "::2/127", "::2/128"}, prefixVocab...)

var pref64Vocab = []string{
	absent, "", "64:ff9b::/96", "64:ff9b::/64", "64:ff9b:1::/48", "2001:db8::/32", "2001:db8::/40", "2001:db8:100::/40", "2001:db8::/56",
	"2001:db8::/50", "2001:db8::/95", "2001:db8::/97", "2001:db8::/128", "2001:db8::/0", "::/96", "::/0", "::/32", "::/64",
	"2001:db8::/33", "2001:db8::/41", "2001:db8::/47", "2001:db8::/49", "2001:db8::/55", "2001:db8::/57", "2001:db8::/63", "2001:db8::/65",
	"2001:db8::/31", "2001:db8::/39",
	"192.0.2.0/24", "10.0.0.0/8", "10.0.0.0/32", "::ffff:0:0/96", "::ffff:10.0.0.0/104", "64:ff9b::1/96", "64:ff9b::1:0:0/64", "2001:db8:1::/32",
	"foo", "64:ff9b::", "64:ff9b::/096", "64:FF9B::/96",
}

// every prefix length 0..128 with the canonical address for that length: the accepted set must be
// exactly the six lengths the PREF64 option can carry
func init() {
	for bits := 0; bits <= 128; bits++ {
		pref64Vocab = append(pref64Vocab, vbPref64Len(bits))
	}
}

var serverVocab = []string{
	"::", "2001:db8::1", "2001:db8::2", "fe80::1", "fe80::1%eth0", "fe80::1%eth1", "fe80::1%a", "::%eth0", "::1", "0::0", "0:0:0:0:0:0:0:0",
	"2001:DB8::1", "2001:db8:0::1", "192.0.2.1", "0.0.0.0", "::ffff:192.0.2.1", "::ffff:0:0", "foo", "", "2001:db8::1/64", "fd00::53",
	"ffff:ffff:ffff:ffff:ffff:ffff:ffff:ffff", "2001:db8::", "fe80::2%eth0", "::2", "fec0::1",
}

var domainVocab = []string{"example.com", "foo.example.com", "lan", "", "EXAMPLE.com", "example.com.", "a.b.c.d", "home.arpa"}

var debugVocab = []string{
	absent, "", "localhost:9430", ":9430", "[::1]:9430", "127.0.0.1:80", "127.0.0.1", "foo", "127.0.0.1:99999", "[::1]", "localhost:0",
	":", "::1:80", "[::1]:-1", "127.0.0.1:65535", "127.0.0.1:65536", "[fe80::1%lo]:80", "127.0.0.1: 80",
}

var captiveVocab = []string{
	absent, "", "https://router.example/portal", "urn:ietf:params:capport:unrestricted", "http://192.0.2.1/", "192.0.2.1", "2001:db8::1",
	"https://example.com/a b", "%zz", "http://[::1]/x", "/192.0.2.1/x", "portal", "https://example.com/" + strings.Repeat("a", 250),
	"http://example.com/%41", "HTTP://EXAMPLE.com/", "#", "//", "?", "///", "#x", "//#", "https://example.com/" + strings.Repeat("a", 235), "https://example.com/" + strings.Repeat("a", 236),
	"https://example.com/" + strings.Repeat("a", 237), "https://example.com/2001:db8::1/x", "https://example.com/192.0.2.1", ":", "a:", " ",
}

var hopVocab = []int64{-1, 0, 1, 63, 64, 254, 255, 256, 257, 1000, -256, -9223372036854775808, 9223372036854775807, 4294967296, 4294967360}
var mtuVocab = []int64{-1, 0, 1, 1279, 1280, 1500, 9000, 65535, 65536, 65537, 131072, -65536, -9223372036854775808, 9223372036854775807, 4294967296}

// ---------------------------------------------------------------------------------------------
// Generators of valid values (the "mostly valid" part of every document).

type c02gen struct {
	r      *verifh.Rand
	nameID int
}

func (g *c02gen) freshName() string {
	g.nameID++
	return fmt.Sprintf("eth%d", g.nameID)
}

func (g *c02gen) validMax() (string, int64) {
	r := g.r
	switch r.Intn(6) {
	case 0:
		return absent, 600 * nsS
	case 1:
		v := int64(4+r.Intn(1797)) * nsS
		return durS(r, v), v
	case 2:
		v := 4*nsS + r.Int63n(1796*nsS+1)
		return durS(r, v), v
	case 3:
		v := verifh.Pick(r, []int64{4 * nsS, 4*nsS + 1, 9*nsS - 1, 9 * nsS, 9*nsS + 1, 1800*nsS - 1, 1800 * nsS, 600 * nsS, 100 * nsS, 100*nsS - 1, 100*nsS + 1})
		return durS(r, v), v
	case 4:
		return "", 600 * nsS
	default:
		v := int64(4+r.Intn(30)) * nsS
		return durS(r, v), v
	}
}

func (g *c02gen) validLifetime(def string, lo, hi int64, zeroOK, infOK bool) string {
	r := g.r
	switch r.Intn(7) {
	case 0:
		return absent
	case 1:
		return "auto"
	case 2:
		if infOK {
			return "infinite"
		}
		return absent
	case 3:
		if zeroOK {
			return verifh.Pick(r, []string{"", "0s", "0"})
		}
		return "auto"
	case 4:
		return durS(r, verifh.Pick(r, []int64{lo, hi, lo + 1, hi - 1}))
	default:
		return durS(r, lo+r.Int63n(hi-lo+1))
	}
}

// validIface builds an advertising interface stanza every key of which is valid.
func (g *c02gen) validIface(rich bool) *c02table {
	r := g.r
	t := newTable()
	switch r.Intn(8) {
	case 0:
		n := 1 + r.Intn(3)
		var ns []string
		for i := 0; i < n; i++ {
			ns = append(ns, g.freshName())
		}
		t.setL("names", ns)
	case 1:
		t.setS("name", g.freshName())
		t.setL("names", nil)
	default:
		t.setS("name", g.freshName())
	}
	if r.Chance(8) {
		t.setB("monitor", true)
		if r.Chance(50) {
			t.setB("verbose", true)
		}
		if !rich {
			return t
		}
	} else {
		if r.Chance(80) {
			t.setB("advertise", true)
		}
		if r.Chance(10) {
			t.setB("monitor", false)
		}
	}
	p := 35
	if rich {
		p = 70
	}
	for _, k := range []string{"verbose", "managed", "other_config", "unicast_only"} {
		if r.Chance(p / 2) {
			t.setB(k, r.Bool())
		}
	}
	max := int64(600 * nsS)
	if r.Chance(p) {
		s, v := g.validMax()
		t.setOrDel("max_interval", s)
		max = v
	}
	if r.Chance(p) {
		switch r.Intn(5) {
		case 0:
			t.setS("min_interval", "auto")
		case 1:
			t.setS("min_interval", "")
		case 2:
			t.setS("min_interval", durS(r, verifh.Pick(r, []int64{3 * nsS, upper075(max), 3*nsS + 1, upper075(max) - 1})))
		default:
			t.setS("min_interval", durS(r, 3*nsS+r.Int63n(upper075(max)-3*nsS+1)))
		}
	}
	for _, k := range []string{"reachable_time", "retransmit_timer"} {
		if r.Chance(p / 2) {
			switch r.Intn(4) {
			case 0:
				t.setS(k, "")
			case 1:
				t.setS(k, durS(r, verifh.Pick(r, []int64{0, 1, nsH, nsH - 1})))
			default:
				t.setS(k, durS(r, r.Int63n(nsH+1)))
			}
		}
	}
	if r.Chance(p / 2) {
		t.setI("hop_limit", int64(r.Intn(256)))
	}
	if r.Chance(p) {
		t.setOrDel("default_lifetime", g.validLifetime("auto", max, 9000*nsS, true, false))
	}
	if r.Chance(p / 2) {
		t.setOrDel("preference", verifh.Pick(r, []string{"", "low", "medium", "high"}))
	}
	if r.Chance(p / 2) {
		t.setI("mtu", verifh.Pick(r, []int64{0, 1, 1280, 1500, 9000, 65535, 65536, int64(r.Intn(65537))}))
	}
	if r.Chance(p / 2) {
		t.setB("source_lla", r.Bool())
	}
	if r.Chance(p / 3) {
		t.setOrDel("captive_portal", verifh.Pick(r, []string{"", "https://router.example/portal", "urn:ietf:params:capport:unrestricted", "portal"}))
	}
	// prefixes: pairwise disjoint, at most one wildcard
	np := r.Intn(3)
	if rich {
		np = r.Intn(4)
	}
	wild := false
	for i := 0; i < np; i++ {
		s := t.add("prefix", newTable())
		switch {
		case !wild && r.Chance(35):
			wild = true
			s.setOrDel("prefix", verifh.Pick(r, []string{absent, "", "::/64", "0::/64"}))
		case r.Chance(70):
			s.setS("prefix", fmt.Sprintf("2001:db8:%x:%x::/64", r.Intn(3), i))
		default:
			s.setS("prefix", fmt.Sprintf("fd%02x:%x::/%d", i, r.Intn(65536), 32+r.Intn(33)))
		}
		dep := r.Chance(25)
		if dep || r.Chance(10) {
			s.setB("deprecated", dep)
		}
		g.validPrefixLifetimes(s, dep)
		for _, k := range []string{"on_link", "autonomous"} {
			if r.Chance(30) {
				s.setB(k, r.Bool())
			}
		}
	}
	nr := r.Intn(3)
	for i := 0; i < nr; i++ {
		s := t.add("route", newTable())
		switch {
		case r.Chance(35):
			s.setOrDel("prefix", verifh.Pick(r, []string{absent, "", "::/0", "0::/0"}))
		case r.Chance(70):
			s.setS("prefix", fmt.Sprintf("2001:db8:ff%02x::/48", i))
		default:
			s.setS("prefix", fmt.Sprintf("2001:db8:%x::%x/128", 0xa0+i, 1+r.Intn(9)))
		}
		dep := r.Chance(25)
		if dep || r.Chance(10) {
			s.setB("deprecated", dep)
		}
		if r.Chance(50) {
			s.setOrDel("lifetime", g.validLifetime("auto", 1, nInf-1, false, !dep))
		}
		if r.Chance(40) {
			s.setOrDel("preference", verifh.Pick(r, []string{"", "low", "medium", "high"}))
		}
	}
	for i, n := 0, r.Intn(3); i < n; i++ {
		s := t.add("rdnss", newTable())
		if r.Chance(50) {
			s.setOrDel("lifetime", g.validLifetime("auto", 0, nInf, true, true))
		}
		switch r.Intn(5) {
		case 0:
		case 1:
			s.setL("servers", nil)
		case 2:
			s.setL("servers", []string{"::"})
		default:
			pool := []string{"2001:db8::1", "2001:db8::2", "fd00::53", "fe80::1", "::", "fe80::2", "2001:db8:0:1::53", "::1", "fec0::1"}
			verifh.Shuffle(r, pool)
			s.setL("servers", append([]string(nil), pool[:1+r.Intn(5)]...))
		}
	}
	for i, n := 0, r.Intn(3); i < n; i++ {
		s := t.add("dnssl", newTable())
		if r.Chance(50) {
			s.setOrDel("lifetime", g.validLifetime("auto", 0, nInf, true, true))
		}
		pool := append([]string(nil), domainVocab...)
		verifh.Shuffle(r, pool)
		s.setL("domain_names", pool[:1+r.Intn(4)])
	}
	for i, n := 0, verifh.Pick(r, []int{0, 0, 0, 1, 1, 2}); i < n; i++ {
		s := t.add("pref64", newTable())
		s.setOrDel("prefix", verifh.Pick(r, []string{absent, "", "64:ff9b::/96", "64:ff9b:1::/48", "2001:db8::/32", "2001:db8:100::/40", "2001:db8:0:100::/56", "2001:db8:1:2::/64"}))
	}
	return t
}

func (g *c02gen) validPrefixLifetimes(s *c02table, dep bool) {
	r := g.r
	switch r.Intn(6) {
	case 0: // both default
	case 1:
		s.setS("valid_lifetime", "auto")
		s.setS("preferred_lifetime", "auto")
	case 2:
		if !dep {
			s.setS("valid_lifetime", "infinite")
			if r.Bool() {
				s.setS("preferred_lifetime", "infinite")
			}
		}
	case 3: // valid given >= 4h default preferred
		s.setS("valid_lifetime", durS(r, 4*nsH+r.Int63n(100*nsH)))
	case 4: // preferred given <= 24h default valid
		s.setS("preferred_lifetime", durS(r, 1+r.Int63n(24*nsH)))
	default:
		v := 1 + r.Int63n(nInf-1)
		if r.Chance(50) {
			v = 1 + r.Int63n(48*nsH)
		}
		p := 1 + r.Int63n(v)
		if r.Chance(25) {
			p = v
		}
		s.setS("valid_lifetime", durS(r, v))
		s.setS("preferred_lifetime", durS(r, p))
	}
}

func (g *c02gen) validDoc(nIfaces int, rich bool) *c02doc {
	r := g.r
	d := &c02doc{}
	for i := 0; i < nIfaces; i++ {
		d.ifaces = append(d.ifaces, g.validIface(rich))
	}
	if r.Chance(40) {
		d.debug = newTable()
		if a := verifh.Pick(r, []string{absent, "", "localhost:9430", ":9430", "[::1]:9430", "127.0.0.1:80"}); a != absent {
			d.debug.setS("address", a)
		}
		if r.Chance(50) {
			d.debug.setB("prometheus", r.Bool())
		}
		if r.Chance(30) {
			d.debug.setB("pprof", r.Bool())
		}
	}
	return d
}

// maxOf returns the max_interval of a stanza in ns when it parses (600 s default otherwise).
func maxOf(t *c02table) int64 {
	s, ok := t.str("max_interval")
	if !ok || s == "" {
		return 600 * nsS
	}
	if d, err := time.ParseDuration(s); err == nil {
		return int64(d)
	}
	return 600 * nsS
}

func durOf(t *c02table, k string, def int64) int64 {
	s, ok := t.str(k)
	if !ok || s == "auto" {
		return def
	}
	if s == "infinite" {
		return nInf
	}
	if d, err := time.ParseDuration(s); err == nil {
		return int64(d)
	}
	return def
}

// ---------------------------------------------------------------------------------------------
// Mutations: one key of one stanza set to a boundary / invalid / special value.

type c02mut struct {
	key   string // tag
	apply func(g *c02gen, d *c02doc, pick func(n int) int) (class string)
}

// ensure returns a sub-table of the given kind in an advertising stanza, creating one if needed.
func ensureSub(g *c02gen, t *c02table, kind string) *c02table {
	if l := t.subs[kind]; len(l) > 0 {
		return l[g.r.Intn(len(l))]
	}
	s := t.add(kind, newTable())
	if kind == "dnssl" {
		s.setL("domain_names", []string{"example.com"})
	}
	return s
}

func advIface(g *c02gen, d *c02doc) *c02table {
	var c []*c02table
	for _, t := range d.ifaces {
		if !t.boolv("monitor") {
			c = append(c, t)
		}
	}
	if len(c) == 0 {
		t := d.ifaces[0]
		t.del("monitor")
		return t
	}
	return c[g.r.Intn(len(c))]
}

// vocabulary of a duration key: boundary values of its limits (which may depend on the stanza) + the static list.
func durKeyVocab(g *c02gen, key string, ifi, sub *c02table) []string {
	max := maxOf(ifi)
	var v []string
	switch key {
	case "max_interval":
		v = around(g.r, 4*nsS, 9*nsS, 600*nsS, 1800*nsS, 100*nsS)
	case "min_interval":
		v = around(g.r, 3*nsS, upper075(max), auto033(max), max, 3*max/4)
	case "reachable_time", "retransmit_timer":
		v = around(g.r, 0, nsH)
	case "default_lifetime":
		v = around(g.r, 0, max, 3*max, 9000*nsS)
	case "valid_lifetime":
		v = around(g.r, 0, durOf(sub, "preferred_lifetime", 4*nsH), 24*nsH, nInf)
	case "preferred_lifetime":
		v = around(g.r, 0, durOf(sub, "valid_lifetime", 24*nsH), 4*nsH, nInf)
	case "route.lifetime":
		v = around(g.r, 0, 24*nsH, nInf)
	default: // rdnss / dnssl lifetime
		v = around(g.r, 0, 3*max, nInf)
	}
	return append(v, durStatic...)
}

type durKey struct{ tag, sub, key string }

var durKeys = []durKey{
	{"max_interval", "", "max_interval"}, {"min_interval", "", "min_interval"}, {"reachable_time", "", "reachable_time"},
	{"retransmit_timer", "", "retransmit_timer"}, {"default_lifetime", "", "default_lifetime"},
	{"valid_lifetime", "prefix", "valid_lifetime"}, {"preferred_lifetime", "prefix", "preferred_lifetime"},
	{"route.lifetime", "route", "lifetime"}, {"rdnss.lifetime", "rdnss", "lifetime"}, {"dnssl.lifetime", "dnssl", "lifetime"},
}

func clip(s string) string {
	if s == absent {
		return "<absent>"
	}
	if len(s) > 40 {
		return s[:40] + "..."
	}
	return s
}

func c02muts() []c02mut {
	var ms []c02mut
	for _, dk := range durKeys {
		dk := dk
		ms = append(ms, c02mut{dk.tag, func(g *c02gen, d *c02doc, pick func(int) int) string {
			ifi := advIface(g, d)
			sub := ifi
			if dk.sub != "" {
				sub = ensureSub(g, ifi, dk.sub)
			}
			voc := durKeyVocab(g, dk.tag, ifi, sub)
			s := voc[pick(len(voc))]
			sub.setOrDel(dk.key, s)
			return clip(s)
		}})
	}
	strKey := func(tag, sub, key string, voc []string) {
		ms = append(ms, c02mut{tag, func(g *c02gen, d *c02doc, pick func(int) int) string {
			ifi := advIface(g, d)
			t := ifi
			if sub != "" {
				t = ensureSub(g, ifi, sub)
			}
			s := voc[pick(len(voc))]
			t.setOrDel(key, s)
			return clip(s)
		}})
	}
	strKey("preference", "", "preference", prefVocab)
	strKey("route.preference", "route", "preference", prefVocab)
	strKey("prefix.prefix", "prefix", "prefix", prefixVocab)
	strKey("route.prefix", "route", "prefix", routeVocab)
	strKey("pref64.prefix", "pref64", "prefix", pref64Vocab)
	strKey("captive_portal", "", "captive_portal", captiveVocab)
	intKey := func(key string, voc []int64) {
		ms = append(ms, c02mut{key, func(g *c02gen, d *c02doc, pick func(int) int) string {
			ifi := advIface(g, d)
			k := pick(len(voc) + 1)
			if k == len(voc) {
				ifi.del(key)
				return "<absent>"
			}
			ifi.setI(key, voc[k])
			return fmt.Sprint(voc[k])
		}})
	}
	intKey("hop_limit", hopVocab)
	intKey("mtu", mtuVocab)
	// deprecated + infinite interplay
	ms = append(ms, c02mut{"prefix.deprecated", func(g *c02gen, d *c02doc, pick func(int) int) string {
		s := ensureSub(g, advIface(g, d), "prefix")
		s.setB("deprecated", true)
		k := pick(4)
		switch k {
		case 0:
			s.setS("valid_lifetime", "infinite")
			s.del("preferred_lifetime")
		case 1:
			s.setS("valid_lifetime", "infinite")
			s.setS("preferred_lifetime", "infinite")
		case 2:
			s.setS("valid_lifetime", "4294967295s")
			s.setS("preferred_lifetime", "1h")
		default:
			s.setS("valid_lifetime", "4294967294s")
			s.setS("preferred_lifetime", "4294967294s")
		}
		return fmt.Sprint("deprecated-infinite-", k)
	}})
	ms = append(ms, c02mut{"route.deprecated", func(g *c02gen, d *c02doc, pick func(int) int) string {
		s := ensureSub(g, advIface(g, d), "route")
		s.setB("deprecated", true)
		k := pick(3)
		s.setS("lifetime", []string{"infinite", "4294967295s", "4294967294.999999999s"}[k])
		return fmt.Sprint("deprecated-infinite-", k)
	}})
	// a second prefix / route overlapping (or not) with an existing one
	overlap := func(kind string) {
		ms = append(ms, c02mut{kind + ".overlap", func(g *c02gen, d *c02doc, pick func(int) int) string {
			ifi := advIface(g, d)
			pairs := [][2]string{
				{"2001:db8::/64", "2001:db8::/64"}, {"2001:db8::/32", "2001:db8:1::/64"}, {"2001:db8:1::/64", "2001:db8::/32"},
				{"2001:db8::/64", "2001:db8:0:1::/64"}, {"2001:db8::/63", "2001:db8:0:1::/64"}, {"::/64", "::/64"}, {"", "::/64"}, {absent, ""},
				{"::/0", "::/0"}, {"", "2001:db8::/64"}, {"::/0", "2001:db8::/64"}, {"::/64", "0:0:0:1::/64"}, {"8000::/1", "ffff::/16"},
				{"2001:db8::/127", "2001:db8::1/128"}, {"2001:db8::/127", "2001:db8::2/127"}, {"::/64", "2001:db8::/64"}, {"::/8", "::2/128"},
				{"2001:db8::/64", "2001:DB8:0:0::/64"}, {"::/1", "8000::/1"}, {"::/1", "7fff::/16"},
			}
			k := pick(len(pairs) * 2)
			p := pairs[k/2]
			a, b := ifi.add(kind, newTable()), newTable()
			if k%2 == 1 && len(ifi.subs[kind]) > 1 { // put the second one first
				l := ifi.subs[kind]
				ifi.subs[kind] = append([]*c02table{b}, l...)
			} else {
				ifi.add(kind, b)
			}
			a.setOrDel("prefix", p[0])
			b.setOrDel("prefix", p[1])
			return clip(p[0]) + "~" + clip(p[1])
		}})
	}
	overlap("prefix")
	overlap("route")
	ms = append(ms, c02mut{"rdnss.servers", func(g *c02gen, d *c02doc, pick func(int) int) string {
		s := ensureSub(g, advIface(g, d), "rdnss")
		lists := [][]string{
			nil, {}, {"::"}, {"::", "::"}, {"::", "0::0"}, {"2001:db8::1", "2001:db8::1"}, {"2001:db8::1", "2001:DB8::1"}, {"2001:db8::1", "::", "2001:db8::1"},
			{"2001:db8::2", "2001:db8::1"}, {"192.0.2.1"}, {"2001:db8::1", "192.0.2.1"}, {"::ffff:192.0.2.1"}, {"foo"}, {""}, {"2001:db8::1", ""},
			{"fe80::1%eth0", "fe80::1%eth1", "fe80::1"}, {"fe80::1%eth0", "fe80::1%eth0"}, {"::%eth0", "::"}, {"::%eth0", "::%eth0"}, {"::", "::%eth0", "::%a"},
			{"fe80::2", "fe80::1%z", "fe80::1%b", "fe80::1"}, {"2001:db8::1/64"}, {"::", "2001:db8::1", "::"}, {"::1", "::", "::2"}, {"0.0.0.0"}, {"::ffff:0:0"},
			{"ffff:ffff:ffff:ffff:ffff:ffff:ffff:ffff", "::1", "8000::"},
		}
		k := pick(len(lists) + 4)
		if k == 0 {
			s.del("servers")
			return "<absent>"
		}
		if k >= len(lists) {
			n := 1 + g.r.Intn(6)
			var l []string
			for i := 0; i < n; i++ {
				l = append(l, verifh.Pick(g.r, serverVocab))
			}
			s.setL("servers", l)
			return "random-list"
		}
		s.setL("servers", lists[k])
		return strings.Join(lists[k], ",")
	}})
	ms = append(ms, c02mut{"dnssl.domain_names", func(g *c02gen, d *c02doc, pick func(int) int) string {
		s := ensureSub(g, advIface(g, d), "dnssl")
		lists := [][]string{
			nil, {}, {"example.com"}, {"example.com", "example.com"}, {"example.com", "EXAMPLE.com"}, {""}, {"", ""}, {"a", "b", "a"}, {"a", "b", "c", "d", "e"},
			{"example.com", "example.com."},
		}
		k := pick(len(lists) + 2)
		if k == 0 {
			s.del("domain_names")
			return "<absent>"
		}
		if k >= len(lists) {
			n := 1 + g.r.Intn(5)
			var l []string
			for i := 0; i < n; i++ {
				l = append(l, verifh.Pick(g.r, domainVocab))
			}
			s.setL("domain_names", l)
			return "random-list"
		}
		s.setL("domain_names", lists[k])
		return strings.Join(lists[k], ",")
	}})
	ms = append(ms, c02mut{"debug.address", func(g *c02gen, d *c02doc, pick func(int) int) string {
		if d.debug == nil {
			d.debug = newTable()
			d.debug.setB("prometheus", true)
		}
		s := debugVocab[pick(len(debugVocab))]
		d.debug.setOrDel("address", s)
		return clip(s)
	}})
	// identifiers, uniqueness across the expansion, modes
	ms = append(ms, c02mut{"names", func(g *c02gen, d *c02doc, pick func(int) int) string {
		t := d.ifaces[g.r.Intn(len(d.ifaces))]
		other := d.ifaces[g.r.Intn(len(d.ifaces))]
		oname := "eth1"
		if s, ok := other.str("name"); ok && s != "" {
			oname = s
		} else if l := other.v["names"].l; len(l) > 0 {
			oname = l[g.r.Intn(len(l))]
		}
		k := pick(14)
		switch k {
		case 0:
			t.del("name")
			t.del("names")
		case 1:
			t.setS("name", "")
			t.del("names")
		case 2:
			t.setS("name", "")
			t.setL("names", []string{})
		case 3:
			t.setS("name", "x0")
			t.setL("names", []string{"x1"})
		case 4:
			t.del("name")
			t.setL("names", []string{"x0", "x1", "x0"})
		case 5:
			t.del("name")
			t.setL("names", []string{"x0", oname})
		case 6:
			t.setS("name", oname)
			t.del("names")
		case 7:
			t.del("name")
			t.setL("names", []string{""})
		case 8:
			t.del("name")
			t.setL("names", []string{"", ""})
		case 9:
			t.del("name")
			t.setL("names", []string{"", "x0"})
		case 10:
			t.setS("name", "x0")
			t.setL("names", []string{})
		case 11:
			t.setS("name", "X0")
			d.ifaces = append(d.ifaces, newTable().setS("name", "x0").setB("monitor", true))
		case 12:
			d.ifaces = append(d.ifaces, newTable().setL("names", []string{"y0", oname}).setB("monitor", true))
		default:
			d.ifaces = append(d.ifaces, newTable().setS("name", oname).setB("advertise", true))
		}
		return fmt.Sprint("names-", k)
	}})
	ms = append(ms, c02mut{"mode", func(g *c02gen, d *c02doc, pick func(int) int) string {
		t := d.ifaces[g.r.Intn(len(d.ifaces))]
		k := pick(6)
		switch k {
		case 0:
			t.setB("monitor", true)
			t.setB("advertise", true)
		case 1:
			t.setB("monitor", true)
			t.setB("advertise", false)
		case 2:
			t.setB("monitor", false)
			t.setB("advertise", false)
		case 3:
			t.del("monitor")
			t.del("advertise")
		case 4: // monitor with junk advertising keys: exempt
			t.setB("monitor", true)
			t.del("advertise")
			t.setS("max_interval", "1s")
			t.setS("min_interval", "junk")
			t.setI("hop_limit", 999)
			t.setI("mtu", -5)
			t.setS("default_lifetime", "-1s")
			t.setS("preference", "bogus")
			t.add("prefix", newTable()).setS("prefix", "10.0.0.0/8")
			t.add("pref64", newTable()).setS("prefix", "2001:db8::/50")
			t.add("dnssl", newTable())
		default: // monitor + advertise with junk: still rejected
			t.setB("monitor", true)
			t.setB("advertise", true)
			t.setS("max_interval", "1s")
		}
		return fmt.Sprint("mode-", k)
	}})
	return ms
}

// ---------------------------------------------------------------------------------------------

func TestVerifC02(t *testing.T) {
	out := verifh.Open()
	defer out.Close()
	seed := verifh.Seed()
	muts := c02muts()
	scale := 1
	if verifh.Thorough() {
		scale = 12
	}

	// stream "minimal": the documents shipped with the code
	emitText := func(id, text string, tags []string) {
		if !out.Wants(id) {
			return
		}
		_, err, pan := safeParse(text)
		cs := verifh.Case{ID: id, Input: map[string]any{"toml": text}, Tags: tags}
		switch {
		case pan != "":
			cs.ImplViolation = "config.Parse panicked: " + pan
			cs.Tags = append(cs.Tags, "result:panic")
		case err != nil:
			cs.Tags = append(cs.Tags, "result:reject")
		default:
			cs.Tags = append(cs.Tags, "result:accept")
		}
		out.Emit(cs)
	}

	// stream "key": every key x every value of its vocabulary, on a small valid base document
	for mi, m := range muts {
		// number of vocabulary entries: probe with a counting pick
		n := 0
		{
			g := &c02gen{r: verifh.NewRand(seed, "probe")}
			m.apply(g, g.validDoc(2, false), func(k int) int { n = k; return 0 })
		}
		reps := 1
		if verifh.Thorough() {
			reps = 4
		}
		for k := 0; k < n; k++ {
			for rep := 0; rep < reps; rep++ {
				id := fmt.Sprintf("c02-key-%d-%d-%d", mi, k, rep)
				if !out.Wants(id) {
					continue
				}
				g := &c02gen{r: verifh.NewRand(seed, id)}
				d := g.validDoc(1+g.r.Intn(2), rep%2 == 1)
				class := m.apply(g, d, func(int) int { return k })
				emitDoc(out, id, d, []string{"stream:key", "key:" + m.key}, m.key+" = "+class)
			}
		}
	}

	// stream "interval": all 1797 whole-second max_interval values (and random ns values): the
	// computed min_interval, the largest accepted min_interval, default_lifetime = max_interval
	// and the derived RDNSS / PREF64 lifetimes; then the first rejected values on either side.
	intervalDoc := func(maxes []int64, r *verifh.Rand) *c02doc {
		d := &c02doc{}
		for i, mx := range maxes {
			a := newTable().setS("name", fmt.Sprintf("a%d", i)).setB("advertise", true).setS("max_interval", durS(r, mx))
			a.add("rdnss", newTable())
			a.add("pref64", newTable())
			b := newTable().setS("name", fmt.Sprintf("b%d", i)).setS("max_interval", durS(r, mx)).
				setS("min_interval", durS(r, upper075(mx))).setS("default_lifetime", durS(r, mx))
			d.ifaces = append(d.ifaces, a, b)
		}
		return d
	}
	for lo := int64(4); lo <= 1800; lo += 6 {
		id := fmt.Sprintf("c02-interval-sec-%d", lo)
		if !out.Wants(id) {
			continue
		}
		r := verifh.NewRand(seed, id)
		var maxes []int64
		for s := lo; s < lo+6 && s <= 1800; s++ {
			maxes = append(maxes, s*nsS)
		}
		emitDoc(out, id, intervalDoc(maxes, r), []string{"stream:interval", "interval:whole-second-sweep"}, fmt.Sprintf("max_interval %ds..", lo))
	}
	for i := 0; i < 60*scale; i++ {
		id := fmt.Sprintf("c02-interval-ns-%d", i)
		if !out.Wants(id) {
			continue
		}
		r := verifh.NewRand(seed, id)
		var maxes []int64
		for k := 0; k < 6; k++ {
			switch r.Intn(4) {
			case 0: // where 0.33 * max crosses a whole second: max = j * 100 s / 33 (+-)
				j := 1 + r.Int63n(594)
				maxes = append(maxes, max(4*nsS, min(1800*nsS, j*100*nsS/33+r.Int63n(5)-2)))
			case 1: // where 0.75 * max crosses a whole second
				j := 3 + r.Int63n(1348)
				maxes = append(maxes, max(4*nsS, min(1800*nsS, j*4*nsS/3+r.Int63n(5)-2)))
			default:
				maxes = append(maxes, 4*nsS+r.Int63n(1796*nsS+1))
			}
		}
		emitDoc(out, id, intervalDoc(maxes, r), []string{"stream:interval", "interval:random-ns"}, "")
	}
	step := int64(9)
	if verifh.Thorough() {
		step = 1
	}
	for s := int64(4); s <= 1800; s += step {
		for k, what := range []string{"min=upper+1ns", "min=3s-1ns", "lifetime=max-1ns", "min=upper+1ns,max+1ns", "max-1ns:min=upper(max)"} {
			id := fmt.Sprintf("c02-interval-edge-%d-%d", s, k)
			if !out.Wants(id) {
				continue
			}
			r := verifh.NewRand(seed, id)
			mx := s * nsS
			a := newTable().setS("name", "a").setB("advertise", true)
			switch k {
			case 0:
				a.setS("max_interval", durS(r, mx)).setS("min_interval", durS(r, upper075(mx)+1))
			case 1:
				a.setS("max_interval", durS(r, mx)).setS("min_interval", durS(r, 3*nsS-1))
			case 2:
				a.setS("max_interval", durS(r, mx)).setS("default_lifetime", durS(r, mx-1))
			case 3:
				if mx+1 > 1800*nsS {
					continue
				}
				a.setS("max_interval", durS(r, mx+1)).setS("min_interval", durS(r, upper075(mx)+1))
			default:
				if mx-1 < 4*nsS {
					continue
				}
				a.setS("max_interval", durS(r, mx-1)).setS("min_interval", durS(r, upper075(mx)))
			}
			emitDoc(out, id, &c02doc{ifaces: []*c02table{a}}, []string{"stream:interval", "interval:" + what}, what)
		}
	}

	// stream "random": mostly valid documents with 0..3 mutations (interactions)
	for i := 0; i < 2000*scale; i++ {
		id := fmt.Sprintf("c02-random-%d", i)
		if !out.Wants(id) {
			continue
		}
		g := &c02gen{r: verifh.NewRand(seed, id)}
		d := g.validDoc(1+g.r.Intn(4), g.r.Chance(40))
		nm := []int{0, 0, 1, 1, 1, 2, 2, 3}[g.r.Intn(8)]
		tags := []string{"stream:random", fmt.Sprintf("mutations:%d", nm)}
		var desc []string
		for k := 0; k < nm; k++ {
			m := muts[g.r.Intn(len(muts))]
			class := m.apply(g, d, func(n int) int { return g.r.Intn(n) })
			tags = append(tags, "key:"+m.key)
			desc = append(desc, m.key+" = "+class)
		}
		emitDoc(out, id, d, tags, strings.Join(desc, "; "))
	}
	// stream "volume": nothing in the documented constraints depends on how large the document or a list is.
	// (a) documents of more than 1 MiB (padding comments before the stanzas, between them, or before an invalid
	// last stanza); (b) 9..40 prefix / route stanzas on one interface, disjoint, or with one overlapping pair that
	// is far apart in the list and has unrelated entries sorting between its two members
	{
		pad := strings.Repeat("# "+strings.Repeat("padding ", 15)+"\n", 10000) // ~1.2 MiB
		mk := func(name string) *c02table {
			return newTable().setS("name", name).setB("advertise", true)
		}
		big := []struct {
			id   string
			d    *c02doc
			desc string
		}{
			{"c02-volume-pad-first", &c02doc{top: pad, ifaces: []*c02table{mk("eth0"), mk("eth1")}}, "1.2 MiB of comments, then two valid interfaces"},
			{"c02-volume-pad-dup", &c02doc{top: pad, ifaces: []*c02table{mk("eth0"), mk("eth0")}}, "1.2 MiB of comments, then a duplicate interface"},
			{"c02-volume-pad-badmax", &c02doc{top: pad, ifaces: []*c02table{mk("eth0").setS("max_interval", "1801s")}}, "1.2 MiB of comments, then max_interval out of range"},
		}
		for _, b := range big {
			emitDoc(out, b.id, b.d, []string{"stream:volume", "volume:large-document"}, b.desc)
		}
		// a valid interface, then padding, then a stanza that decides
		for k, tail := range []*c02table{mk("eth9"), mk("eth0"), mk("eth9").setB("monitor", true)} {
			first := mk("eth0")
			dd := &c02doc{ifaces: []*c02table{first, tail}, sep: pad}
			emitDoc(out, fmt.Sprintf("c02-volume-pad-middle-%d", k), dd, []string{"stream:volume", "volume:large-document"}, "valid interface, 1.2 MiB of comments, then a deciding stanza")
			if k == 1 && strconv.IntSize == 64 {
				dd18 := &c02doc{ifaces: []*c02table{mk("eth0"), mk("eth0")}, sep: strings.Repeat(pad, 15)}
				emitDoc(out, "c02-volume-pad18-middle", dd18, []string{"stream:volume", "volume:large-document"}, "valid interface, 18 MiB of comments, then the same interface again")
			}
		}
		for _, kind := range []string{"prefix", "route"} {
			for _, n := range []int{9, 10, 17, 40} {
				for _, overlap := range []bool{false, true} {
					a := mk("eth0")
					var cidrs []string
					for j := 0; j < n; j++ {
						cidrs = append(cidrs, fmt.Sprintf("2001:db8:%x::/64", 0x100+j*3))
					}
					if overlap {
						// a /48 and a /64 inside it, with entries of other /48s between them in every sort order by address
						cidrs[0] = "2001:db8:ffff::/48"
						cidrs[n-1] = "2001:db8:ffff:1::/64"
						cidrs[n/2] = "2001:db8:ffff::/64" // identical base address, different length
					}
					for _, c := range cidrs {
						a.add(kind, newTable().setS("prefix", c))
					}
					emitDoc(out, fmt.Sprintf("c02-volume-%s-%d-%v", kind, n, overlap), &c02doc{ifaces: []*c02table{a}},
						[]string{"stream:volume", "volume:many-" + kind}, fmt.Sprintf("%d %s stanzas, overlapping pair: %v", n, kind, overlap))
				}
			}
		}
	}
	// stream "resolver": whether a debug address is acceptable is decided by the document, not by the state of the
	// network at parse time: with a resolver whose every query times out, host names that cannot be resolved are
	// refused exactly like with a resolver that answers "no such host"
	if out.Wants("c02-resolver-timeout") {
		saved := net.DefaultResolver
		net.DefaultResolver = &net.Resolver{PreferGo: true, Dial: func(ctx context.Context, network, address string) (net.Conn, error) {
			return nil, &net.DNSError{Err: "i/o timeout", Name: address, IsTimeout: true, IsTemporary: true}
		}}
		var bad []string
		for _, addr := range []string{"metrics.corerad.invalid:9430", "locahlost:9430", "no-such-host.example.invalid:80"} {
			text := "[[interfaces]]\nname = \"eth0\"\nmonitor = true\n\n[debug]\naddress = \"" + addr + "\"\n"
			if _, err, pan := safeParse(text); err == nil && pan == "" {
				bad = append(bad, fmt.Sprintf("debug address %q accepted while the resolver times out", addr))
			}
		}
		net.DefaultResolver = saved
		out.Emit(verifh.Case{ID: "c02-resolver-timeout", Input: map[string]any{"kind": "resolver-timeout"}, Tags: []string{"stream:resolver"}, ImplViolation: strings.Join(bad, "; ")})
	}
	emitDoc(out, "c02-empty", &c02doc{}, []string{"stream:corpus"}, "no interfaces")
	emitDoc(out, "c02-empty-debug", &c02doc{debug: newTable().setS("address", ":9430")}, []string{"stream:corpus"}, "no interfaces, debug only")

	// stream "decode": unknown keys / wrong TOML types -- outside the model; the generator
	// supplies the expected result (reject).
	decode := []struct{ name, text string }{
		{"unknown-top", "bogus = 1\n[[interfaces]]\nname = \"eth0\"\n"},
		{"unknown-table", "[[interfaces]]\nname = \"eth0\"\n[bogus]\nx = 1\n"},
		{"unknown-iface-key", "[[interfaces]]\nname = \"eth0\"\nbogus = true\n"},
		{"unknown-iface-key-monitor", "[[interfaces]]\nname = \"eth0\"\nmonitor = true\nmax_intervall = \"5s\"\n"},
		{"unknown-prefix-key", "[[interfaces]]\nname = \"eth0\"\n  [[interfaces.prefix]]\n  prefixx = \"::/64\"\n"},
		{"unknown-route-key", "[[interfaces]]\nname = \"eth0\"\n  [[interfaces.route]]\n  valid_lifetime = \"1h\"\n"},
		{"unknown-rdnss-key", "[[interfaces]]\nname = \"eth0\"\n  [[interfaces.rdnss]]\n  server = [\"::\"]\n"},
		{"unknown-dnssl-key", "[[interfaces]]\nname = \"eth0\"\n  [[interfaces.dnssl]]\n  domain_names = [\"a\"]\n  names = [\"a\"]\n"},
		{"unknown-pref64-key", "[[interfaces]]\nname = \"eth0\"\n  [[interfaces.pref64]]\n  lifetime = \"1h\"\n"},
		{"unknown-debug-key", "[[interfaces]]\nname = \"eth0\"\n[debug]\naddress = \":9430\"\nbogus = true\n"},
		{"unknown-subtable", "[[interfaces]]\nname = \"eth0\"\n  [[interfaces.bogus]]\n  x = 1\n"},
		{"type-max-int", "[[interfaces]]\nname = \"eth0\"\nmax_interval = 600\n"},
		{"type-hop-string", "[[interfaces]]\nname = \"eth0\"\nhop_limit = \"64\"\n"},
		{"type-hop-float", "[[interfaces]]\nname = \"eth0\"\nhop_limit = 64.5\n"},
		{"type-hop-overflow", "[[interfaces]]\nname = \"eth0\"\nhop_limit = 9223372036854775808\n"},
		{"type-monitor-string", "[[interfaces]]\nname = \"eth0\"\nmonitor = \"true\"\n"},
		{"type-names-string", "[[interfaces]]\nnames = \"eth0\"\n"},
		{"type-names-ints", "[[interfaces]]\nnames = [1, 2]\n"},
		{"type-servers-string", "[[interfaces]]\nname = \"eth0\"\n  [[interfaces.rdnss]]\n  servers = \"::\"\n"},
		{"type-prefix-int", "[[interfaces]]\nname = \"eth0\"\n  [[interfaces.prefix]]\n  prefix = 64\n"},
		{"type-mtu-string", "[[interfaces]]\nname = \"eth0\"\nmtu = \"1500\"\n"},
		{"type-lifetime-int", "[[interfaces]]\nname = \"eth0\"\ndefault_lifetime = 0\n"},
		{"type-deprecated-string", "[[interfaces]]\nname = \"eth0\"\n  [[interfaces.prefix]]\n  deprecated = \"yes\"\n"},
		{"type-interfaces-scalar", "interfaces = 3\n"},
		{"type-interfaces-table", "[interfaces]\nname = \"eth0\"\n"},
		{"type-debug-array", "[[interfaces]]\nname = \"eth0\"\n[[debug]]\naddress = \":9430\"\n"},
		{"type-prefix-scalar", "[[interfaces]]\nname = \"eth0\"\nprefix = \"::/64\"\n"},
		{"dup-key", "[[interfaces]]\nname = \"eth0\"\nname = \"eth1\"\n"},
		{"syntax-unterminated", "[[interfaces]]\nname = \"eth0\n"},
		{"syntax-bare-value", "[[interfaces]]\nname = eth0\n"},
		{"syntax-bad-table", "[[interfaces]\nname = \"eth0\"\n"},
		{"empty-document", ""},
		{"only-comment", "# nothing\n"},
		{"only-debug", "[debug]\naddress = \":9430\"\n"},
	}
	// every key under other spellings (Title, UPPER, camel, dashed) and with values of every other TOML type: the key
	// grammar is exact, durations are strings, numbers are integers, flags are booleans
	type keyAt struct{ head, tail, key, val string }
	ifHead := "[[interfaces]]\nname = \"eth0\"\n"
	keys := []keyAt{
		{ifHead, "", "monitor", "false"}, {ifHead, "", "advertise", "true"}, {ifHead, "", "verbose", "true"},
		{ifHead, "", "max_interval", "\"600s\""}, {ifHead, "", "min_interval", "\"200s\""}, {ifHead, "", "managed", "true"},
		{ifHead, "", "other_config", "true"}, {ifHead, "", "reachable_time", "\"0s\""}, {ifHead, "", "retransmit_timer", "\"0s\""},
		{ifHead, "", "hop_limit", "64"}, {ifHead, "", "default_lifetime", "\"1800s\""}, {ifHead, "", "unicast_only", "true"},
		{ifHead, "", "mtu", "1500"}, {ifHead, "", "preference", "\"medium\""}, {ifHead, "", "source_lla", "true"},
		{ifHead, "", "captive_portal", "\"https://example.com/\""},
		{"[[interfaces]]\n", "", "name", "\"eth0\""}, {"[[interfaces]]\n", "", "names", "[\"eth0\"]"},
		{ifHead + "[[interfaces.prefix]]\n", "", "prefix", "\"2001:db8::/64\""},
		{ifHead + "[[interfaces.prefix]]\nprefix = \"2001:db8::/64\"\n", "", "on_link", "true"},
		{ifHead + "[[interfaces.prefix]]\nprefix = \"2001:db8::/64\"\n", "", "autonomous", "true"},
		{ifHead + "[[interfaces.prefix]]\nprefix = \"2001:db8::/64\"\n", "", "valid_lifetime", "\"48h\""},
		{ifHead + "[[interfaces.prefix]]\nprefix = \"2001:db8::/64\"\n", "", "preferred_lifetime", "\"1h\""},
		{ifHead + "[[interfaces.prefix]]\nprefix = \"2001:db8::/64\"\n", "", "deprecated", "false"},
		{ifHead + "[[interfaces.route]]\nprefix = \"2001:db8:f::/48\"\n", "", "lifetime", "\"1h\""},
		{ifHead + "[[interfaces.route]]\nprefix = \"2001:db8:f::/48\"\n", "", "preference", "\"high\""},
		{ifHead + "[[interfaces.route]]\nprefix = \"2001:db8:f::/48\"\n", "", "deprecated", "false"},
		{ifHead + "[[interfaces.rdnss]]\n", "", "servers", "[\"2001:db8::53\"]"},
		{ifHead + "[[interfaces.rdnss]]\nservers = [\"2001:db8::53\"]\n", "", "lifetime", "\"1h\""},
		{ifHead + "[[interfaces.dnssl]]\n", "", "domain_names", "[\"example.com\"]"},
		{ifHead + "[[interfaces.dnssl]]\ndomain_names = [\"example.com\"]\n", "", "lifetime", "\"1h\""},
		{ifHead + "[[interfaces.pref64]]\n", "", "prefix", "\"64:ff9b::/96\""},
		{ifHead + "[debug]\n", "", "address", "\"localhost:9430\""},
		{ifHead + "[debug]\naddress = \"localhost:9430\"\n", "", "prometheus", "true"},
		{ifHead + "[debug]\naddress = \"localhost:9430\"\n", "", "pprof", "true"},
	}
	spell := func(k string) []string {
		parts := strings.Split(k, "_")
		title, camel := "", ""
		for i, p := range parts {
			t := strings.ToUpper(p[:1]) + p[1:]
			title += t
			if i == 0 {
				camel += p
			} else {
				camel += t
			}
		}
		l := []string{strings.ToUpper(k), strings.ToUpper(k[:1]) + k[1:], title, strings.ReplaceAll(k, "_", "-"), strings.ReplaceAll(k, "_", ""), k + "s", " " + k}
		if camel != k {
			l = append(l, camel)
		}
		if k == "pprof" {
			l = append(l, "PProf", "pProf")
		}
		return l
	}
	for _, ka := range keys {
		// the document as it is must be accepted (otherwise the probes below prove nothing)
		decode = append(decode, struct{ name, text string }{fmt.Sprintf("ok!%s-%d", ka.key, len(ka.head)), ka.head + ka.key + " = " + ka.val + "\n" + ka.tail})
		for j, sp := range spell(ka.key) {
			if sp == ka.key || strings.HasPrefix(sp, " ") {
				continue
			}
			if j == 0 {
				// the all-capitals spelling: go-toml v1 matches a tagged field also under strings.ToUpper(tag), so the key is
				// known to the decoder.  What matters for "no unknown keys" is that nothing is silently ignored: such a document
				// is either rejected or means exactly what the documented spelling means
				id := fmt.Sprintf("c02-decode-alias-%s-%s", ka.key, strings.ReplaceAll(strings.Fields(ka.head)[len(strings.Fields(ka.head))-1], "\"", ""))
				if out.Wants(id) {
					lower, errL, _ := safeParse(ka.head + ka.key + " = " + ka.val + "\n" + ka.tail)
					upper, errU, panU := safeParse(ka.head + sp + " = " + ka.val + "\n" + ka.tail)
					cs := verifh.Case{ID: id, Input: map[string]any{"toml": ka.head + sp + " = " + ka.val + "\n" + ka.tail}, Tags: []string{"stream:decode"}}
					switch {
					case panU != "":
						cs.ImplViolation = "config.Parse panicked: " + panU
					case errU != nil:
						cs.Tags = append(cs.Tags, "result:reject")
					case errL != nil || verifh.DeepDiff(verifh.DeepDump(lower), verifh.DeepDump(upper)) != "":
						cs.ImplViolation = "the key " + sp + " is accepted but does not mean what " + ka.key + " means (ignored or misread)"
					default:
						cs.Tags = append(cs.Tags, "result:accept-as-alias")
					}
					out.Emit(cs)
				}
				continue
			}
			decode = append(decode, struct{ name, text string }{fmt.Sprintf("spelling-%s-%d-%d", ka.key, len(ka.head), j), ka.head + sp + " = " + ka.val + "\n" + ka.tail})
		}
		// values of other types; zero values in particular (a number 0 prints as "0", which parses as a duration)
		for j, v := range []string{"0", "-0", "0x0", "0.0", "1", "true", "false", "\"\"", "\"0\"", "[]", "[0]", "{}", "1979-05-27T07:32:00Z"} {
			isStr, isBool, isInt, isArr := strings.HasPrefix(ka.val, "\""), ka.val == "true" || ka.val == "false", ka.val[0] >= '0' && ka.val[0] <= '9', strings.HasPrefix(ka.val, "[")
			vStr, vBool, vInt, vArr := strings.HasPrefix(v, "\""), v == "true" || v == "false", v == "0" || v == "-0" || v == "0x0" || v == "1", v == "[]" || v == "[0]"
			if (isStr && vStr) || (isBool && vBool) || (isInt && vInt) || (isArr && vArr && v == "[]") {
				continue // same type: the value grammar is the model's business
			}
			decode = append(decode, struct{ name, text string }{fmt.Sprintf("type-%s-%d-%d", ka.key, len(ka.head), j), ka.head + ka.key + " = " + v + "\n" + ka.tail})
		}
	}
	for _, dc := range decode {
		id := "c02-decode-" + dc.name
		if strings.HasPrefix(dc.name, "ok!") {
			if !out.Wants(id) {
				continue
			}
			_, err, pan := safeParse(dc.text)
			cs := verifh.Case{ID: id, Input: map[string]any{"toml": dc.text}, Desc: dc.name, Tags: []string{"stream:decode", "result:accept"}}
			if err != nil || pan != "" {
				cs.ImplViolation = fmt.Sprintf("the base document of a key probe is not accepted: %v %s", err, pan)
			}
			out.Emit(cs)
			continue
		}
		if !out.Wants(id) {
			continue
		}
		_, err, pan := safeParse(dc.text)
		cs := verifh.Case{ID: id, Input: map[string]any{"toml": dc.text}, Desc: dc.name, Tags: []string{"stream:decode"}}
		switch {
		case pan != "":
			cs.ImplViolation = "config.Parse panicked: " + pan
		case err == nil:
			cs.ImplViolation = "a document with an unknown key / a wrongly typed value / bad syntax / no interface was accepted (" + dc.name + ")"
			cs.Tags = append(cs.Tags, "result:accept")
		default:
			cs.Tags = append(cs.Tags, "result:reject")
		}
		out.Emit(cs)
	}
	// tables that do not exist, left EMPTY (a misspelt stanza with nothing in it yet, `[[interfaces.prefixes]]`): go-toml's
	// strict mode reports undecoded VALUES only, so these pass -- known finding empty_unknown_table
	for k, kf := range []struct{ class, text string }{
		{"empty_unknown_table", "[[interfaces]]\nname = \"eth0\"\n[[interfaces.prefixes]]\n"},
		{"empty_unknown_table", "[[interfaces]]\nname = \"eth0\"\n[interfaces.bogus]\n"},
		{"empty_unknown_table", "[[interfaces]]\nname = \"eth0\"\n[bogus]\n"},
		{"empty_unknown_table", "[[interfaces]]\nname = \"eth0\"\n[debug]\naddress = \"localhost:9430\"\n[debug.bogus]\n"},
		{"empty_unknown_table", "bogus = {}\n[[interfaces]]\nname = \"eth0\"\n"},
	} {
		id := fmt.Sprintf("c02-known-%s-%d", kf.class, k)
		if !out.Wants(id) {
			continue
		}
		_, err, pan := safeParse(kf.text)
		cs := verifh.Case{ID: id, Input: map[string]any{"toml": kf.text}, Tags: []string{"stream:decode", "known:" + kf.class}, Class: kf.class}
		switch {
		case pan != "":
			cs.Class = ""
			cs.ImplViolation = "config.Parse panicked: " + pan
		case err == nil:
			cs.ImplViolation = "accepted: " + kf.class
		}
		out.Emit(cs)
	}
	emitText("c02-minimal", fmt.Sprintf(config.Minimal, "verif"), []string{"stream:corpus"})

	// stream "bytes": malformed byte strings (mutated valid documents and raw noise); only
	// "never panics" is asserted here (partial: tested, not proved).
	for i := 0; i < 1000*scale; i++ {
		id := fmt.Sprintf("c02-bytes-%d", i)
		if !out.Wants(id) {
			continue
		}
		g := &c02gen{r: verifh.NewRand(seed, id)}
		r := g.r
		b := []byte(g.validDoc(1+r.Intn(2), true).render())
		kind := r.Intn(6)
		switch kind {
		case 0: // raw noise
			b = make([]byte, r.Intn(200))
			for k := range b {
				b[k] = byte(r.Intn(256))
			}
		case 1: // truncation
			b = b[:r.Intn(len(b)+1)]
		default:
			for e := 1 + r.Intn(4); e > 0 && len(b) > 0; e-- {
				p := r.Intn(len(b))
				switch r.Intn(4) {
				case 0:
					b[p] = byte(r.Intn(256))
				case 1:
					b = append(b[:p:p], b[p+1:]...)
				case 2:
					ins := verifh.Pick(r, []string{"\"", "[", "]", "=", "\n", "#", "'", "\\", "{", "}", ",", ".", "\x00", "\xff", "[[", "]]", "\"\"\"", "-", "e", "_", "0x", "inf", "nan", "true", "1979-05-27T07:32:00Z"})
					b = append(b[:p:p], append([]byte(ins), b[p:]...)...)
				default:
					q := p + r.Intn(len(b)-p+1)
					b = append(b[:q:q], append(append([]byte(nil), b[p:q]...), b[q:]...)...)
				}
			}
		}
		emitText(id, string(b), []string{"stream:bytes", fmt.Sprintf("bytes:kind%d", kind)})
	}
	if out.Count() == 0 {
		t.Fatalf("no case emitted (VERIF_ONLY=%q unknown?)", "")
	}
}
