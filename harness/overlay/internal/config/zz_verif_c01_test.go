//go:build verif

package config_test

import (
	"fmt"
	"net"
	"net/netip"
	"os"
	"reflect"
	"strings"
	"testing"
	"time"

	"github.com/mdlayher/corerad/internal/config"
	"github.com/mdlayher/corerad/internal/system"
	"github.com/mdlayher/corerad/internal/verifh"
	"github.com/mdlayher/ndp"
)

// TestVerifC01 generates TOML configurations (every stanza kind 0..3 of each, static and wildcard,
// deprecated or not, header keys present / absent / at their limits, fractional max_interval), parses
// them with config.Parse, injects a generated system state into the plugins and calls
// Interface.RouterAdvertisement 1..3 times.  Emitted per case: the parsed configuration, the system
// state and the observed RA (or the failure).  Implementation-only assertions: the k RAs are deeply
// equal; a deep snapshot of the Interface (plugin fields and the contents of their slices included) taken
// before the first build equals the snapshot taken after the last one.
func TestVerifC01(t *testing.T) {
	out := verifh.Open()
	defer out.Close()
	n := 2000
	if verifh.Thorough() {
		n = 30000
	}
	if os.Getenv("VERIF_C01_SECTION") == "fixed" {
		n = 0 // C13 / C15 run the fixed wildcard-next-to-static scenarios only
	}
	for i := 0; i < n; i++ {
		vbC01Case(t, out, fmt.Sprintf("c01-%d", i), "", nil)
	}
	// static stanzas next to a wildcard whose expansion shares a base address with them at another length (the first
	// /64 of a delegated /56 that is also configured as an on-link aggregate; a static /56 route under the /48 anchored on
	// lo): different lengths are different prefixes, every one of them is in the RA
	type fixed struct {
		name, toml string
		addrs      []string
		routes     []string
	}
	head := "[[interfaces]]\nname = \"eth0\"\nadvertise = true\n"
	for _, f := range []fixed{
		{"agg-prefix-then-wildcard", head + "[[interfaces.prefix]]\nprefix = \"2001:db8:0:100::/56\"\nautonomous = false\n[[interfaces.prefix]]\nprefix = \"::/64\"\n",
			[]string{"2001:db8:0:100::1/64", "2001:db8:0:101::1/64"}, nil},
		{"wildcard-then-agg-prefix", head + "[[interfaces.prefix]]\nprefix = \"::/64\"\n[[interfaces.prefix]]\nprefix = \"2001:db8:0:100::/56\"\nautonomous = false\n",
			[]string{"2001:db8:0:100::1/64", "2001:db8:0:101::1/64"}, nil},
		{"static-route-then-wildcard", head + "[[interfaces.route]]\nprefix = \"2001:db8:10::/56\"\n[[interfaces.route]]\nprefix = \"::/0\"\n",
			nil, []string{"2001:db8:10::/48", "2001:db8:20::/48"}},
		{"wildcard-then-static-route", head + "[[interfaces.route]]\nprefix = \"::/0\"\n[[interfaces.route]]\nprefix = \"2001:db8:10::/56\"\n",
			nil, []string{"2001:db8:10::/48", "2001:db8:20::/48"}},
		{"prefix-and-route-same-base", head + "[[interfaces.prefix]]\nprefix = \"2001:db8:10::/64\"\n[[interfaces.route]]\nprefix = \"::/0\"\n[[interfaces.prefix]]\nprefix = \"::/64\"\n",
			[]string{"2001:db8:10::1/64", "2001:db8:10:1::1/64"}, []string{"2001:db8:10::/64", "2001:db8:10::/48"}},
		// a default route anchored on lo next to the route wildcard, on an interface that is not forwarding: the route
		// options keep the stanza's lifetime (only the ROUTER lifetime is zeroed)
		{"wildcard-route-default-on-lo", head + "[[interfaces.route]]\nprefix = \"::/0\"\npreference = \"high\"\nlifetime = \"10m\"\n",
			nil, []string{"::/0"}},
		{"wildcard-route-default-and-48", head + "[[interfaces.route]]\nprefix = \"::/0\"\nlifetime = \"10m\"\n[[interfaces.prefix]]\nprefix = \"::/64\"\n",
			[]string{"2001:db8:10::1/64"}, []string{"::/0", "2001:db8:10::/48"}},
		// one stanza for a group of interfaces: every member expands the wildcards over ITS addresses
		{"names-group-wildcards", "[[interfaces]]\nnames = [\"eth0\", \"eth1\", \"eth2\"]\nadvertise = true\n[[interfaces.prefix]]\nprefix = \"::/64\"\n[[interfaces.rdnss]]\nservers = [\"::\"]\n[[interfaces.route]]\nprefix = \"::/0\"\n",
			[]string{"2001:db8:a0::1/64", "2001:db8:a1::1/64"}, []string{"2001:db8:ee::/48"}},
	} {
		f := f
		calls := 0
		vbSysFix = func(s *vbSys) {
			calls++
			s.addrsFail, s.routesFail, s.fwd = false, false, !strings.Contains(f.name, "default")
			s.addrs, s.routes = nil, nil
			if calls > 1 {
				// the other members of a `names` group: other addresses, other routes, another hardware address
				s.addrs = append(s.addrs, system.IP{Address: netip.MustParsePrefix(fmt.Sprintf("2001:db8:b%d::1/64", calls)), ValidForever: true})
				s.routes = append(s.routes, system.Route{Prefix: netip.MustParsePrefix(fmt.Sprintf("2001:db8:c%d::/48", calls)), Index: 1, Preference: ndp.Medium})
				s.mac = net.HardwareAddr{2, 0, 0, 0, 0, byte(0xe0 + calls)}
				return
			}
			for _, a := range f.addrs {
				s.addrs = append(s.addrs, system.IP{Address: netip.MustParsePrefix(a), ValidForever: true})
			}
			for _, r := range f.routes {
				s.routes = append(s.routes, system.Route{Prefix: netip.MustParsePrefix(r), Index: 1, Preference: ndp.Medium})
			}
		}
		vbC01Case(t, out, "c01-fixed-"+f.name, f.toml, nil)
		vbSysFix = nil
	}
	if os.Getenv("VERIF_C01_SECTION") == "fixed" {
		return
	}
	// cross product: each stanza kind present / absent (2^8) x forwarding x MAC present / absent
	if verifh.Thorough() {
		for m := 0; m < 1<<10; m++ {
			vbC01Case(t, out, fmt.Sprintf("c01-x-%d", m), vbCrossToml(m), &m)
		}
	} else {
		r := verifh.NewRand(verifh.Seed(), "C01-cross")
		for k := 0; k < 64; k++ {
			m := r.Intn(1 << 10)
			vbC01Case(t, out, fmt.Sprintf("c01-x-%d", m), vbCrossToml(m), &m)
		}
	}
}

// vbCrossToml: stanza kind j present iff bit j of m (prefix, route, rdnss, dnssl, mtu, lla, captive, pref64).
func vbCrossToml(m int) string {
	var b strings.Builder
	b.WriteString("[[interfaces]]\nname = \"eth0\"\nadvertise = true\n")
	if m&16 != 0 {
		b.WriteString("mtu = 1500\n")
	}
	if m&32 == 0 {
		b.WriteString("source_lla = false\n")
	}
	if m&64 != 0 {
		b.WriteString("captive_portal = \"https://portal.example/\"\n")
	}
	if m&1 != 0 {
		b.WriteString("[[interfaces.prefix]]\nprefix = \"2001:db8:1::/64\"\n[[interfaces.prefix]]\n")
	}
	if m&2 != 0 {
		b.WriteString("[[interfaces.route]]\nprefix = \"2001:db8:ffff::/48\"\n[[interfaces.route]]\n")
	}
	if m&4 != 0 {
		b.WriteString("[[interfaces.rdnss]]\nservers = [\"2001:db8::53\", \"::\"]\n")
	}
	if m&8 != 0 {
		b.WriteString("[[interfaces.dnssl]]\ndomain_names = [\"example.com\"]\n")
	}
	if m&128 != 0 {
		b.WriteString("[[interfaces.pref64]]\n")
	}
	return b.String()
}

// vbSysFix, when set, rewrites the generated system state of the next case (fixed scenarios).
var vbSysFix func(*vbSys)

func vbC01Case(t *testing.T, out *verifh.Out, id, toml string, cross *int) {
	if !out.Wants(id) {
		return
	}
	g := &vbGen{r: verifh.NewRand(verifh.Seed(), id), tags: map[string]bool{}}
	if toml == "" {
		toml = g.toml()
		if g.r.Chance(15) {
			// the same stanza for a group of interfaces
			toml = strings.Replace(toml, "name = \"eth0\"\n", "names = [\"eth0\", \"eth1\", \"eth2\"]\n", 1)
		}
	} else {
		g.tag("stream:cross-product")
	}
	epoch := vbEpoch(g.r)
	s := g.sys(epoch)
	if vbSysFix != nil {
		vbSysFix(s)
	}
	if cross != nil {
		s.fwd = *cross&256 != 0
		if *cross&512 == 0 {
			s.mac = nil
		} else if len(s.mac) != 6 {
			s.mac = []byte{2, 0, 0x5e, 0, 0, 1}
		}
		s.addrsFail, s.routesFail = false, false
	}
	g.tag("fwd:" + verifh.B(s.fwd))

	cfg, err := config.Parse(strings.NewReader(toml), epoch)
	if err != nil {
		g.tag("parse:rejected")
		out.Emit(verifh.Case{ID: id, Input: map[string]any{"toml": toml}, Observed: "rejected", Tags: g.tagList()})
		return
	}
	g.tag("parse:accepted")
	ifi := cfg.Interfaces[0]
	vbInject(&ifi, s)
	if len(cfg.Interfaces) > 1 {
		// a `names` group: every interface of the group is prepared with ITS OWN system state (as Prepare
		// does per interface); preparing the others afterwards must not change what this one advertises
		g.tag("names-group")
		for k := 1; k < len(cfg.Interfaces); k++ {
			other := g.sys(epoch)
			other.fwd = !s.fwd
			if len(other.mac) == 6 {
				other.mac = append(net.HardwareAddr(nil), other.mac...)
				other.mac[5] ^= 0xff
			}
			vbInject(&cfg.Interfaces[k], other)
		}
	}
	st := &vbStr{}
	ifaceTerm := vbIface(ifi, st, epoch) // rendered before anything is built

	var viol []string
	before := vbDump(ifi)
	k := 1 + g.r.Intn(3)
	g.tag(fmt.Sprintf("builds:%d", k))
	var ras []*ndp.RouterAdvertisement
	var errs []error
	for j := 0; j < k; j++ {
		ra, ms, err := ifi.RouterAdvertisement(s.fwd)
		ras, errs = append(ras, ra), append(errs, err)
		if err == nil {
			if ra.MobileIPv6HomeAgent || ra.NeighborDiscoveryProxy {
				viol = append(viol, "RA carries a flag the configuration cannot ask for (home agent / proxy)")
			}
			wantMs := ifi.DefaultLifetime > 0 && !s.fwd
			if (len(ms) == 1 && ms[0] == config.InterfaceNotForwarding) != wantMs || len(ms) > 1 {
				viol = append(viol, fmt.Sprintf("misconfiguration report %v, forwarding=%v lifetime=%v", ms, s.fwd, ifi.DefaultLifetime))
			}
		}
	}
	for j := 1; j < k; j++ {
		if (errs[j] == nil) != (errs[0] == nil) || !reflect.DeepEqual(ras[j], ras[0]) {
			viol = append(viol, fmt.Sprintf("build %d differs from build 0", j))
		}
	}
	if after := vbDump(ifi); after != before {
		viol = append(viol, "building the RA altered the configuration")
	}
	obs := vbResultRA(ras[0], errs[0], st)
	var obsJ any = "error"
	if errs[0] == nil {
		obsJ = vbDump(ras[0])
		g.tag(fmt.Sprintf("options:%d", min(len(ras[0].Options), 10)))
	} else {
		g.tag("build:error")
	}

	c := verifh.Case{
		ID:  id,
		Coq: verifh.App("mkCase", ifaceTerm, vbSysTerm(s), obs),
		Input: map[string]any{"toml": toml, "forwarding": s.fwd, "now_minus_epoch_ns": int64(s.now.Sub(s.epoch)),
			"addrs": len(s.addrs), "routes": len(s.routes), "mac": s.mac.String(), "plugins": len(ifi.Plugins)},
		Observed: obsJ,
		Tags:     g.tagList(),
	}
	if len(viol) > 0 {
		c.ImplViolation = strings.Join(viol, "; ")
	}
	out.Emit(c)
	_ = time.Second
}
