//go:build verif

package config_test

import (
	"fmt"
	"net/netip"
	"slices"
	"strings"
	"testing"
	"time"

	"github.com/mdlayher/corerad/internal/config"
	"github.com/mdlayher/corerad/internal/plugin"
	"github.com/mdlayher/corerad/internal/system"
	"github.com/mdlayher/corerad/internal/verifh"
	"github.com/mdlayher/corerad/internal/verifw"
	"github.com/mdlayher/ndp"
)

// TestVerifC14Config feeds generated rdnss stanzas through config.Parse and applies the resulting
// plugin with an injected address source: the static servers must follow the wildcard server,
// sorted and without duplicates.
func TestVerifC14Config(t *testing.T) {
	out := verifh.Open()
	defer out.Close()

	// server strings: the wildcard (two spellings), addresses (with second spellings of the same
	// address), and strings the parser must refuse
	pool := []string{
		"::",               // 0 wildcard
		"2001:db8::2",      // 1
		"2001:db8::1",      // 2
		"fd00::53",         // 3
		"fe80::1",          // 4
		"2001:DB8:0::1",    // 5 = 2, spelled differently
		"::0",              // 6 wildcard, spelled differently
		"192.0.2.1",        // 7 IPv4
		"::ffff:192.0.2.1", // 8 IPv4-mapped
		"nonsense",         // 9
		"2001:db8::/64",    // 10 a prefix, not an address
		"ff02::fb",         // 11 sorts last
		"::1",              // 12 sorts first
		"fe80::1%eth0",     // 13 = 4 with a zone (accepting both puts fe80::1 into the option twice)
		"::%eth0",          // 14 the wildcard with a zone (was advertised as a literal :: server)
	}
	addrLists := [][]system.IP{
		{verifw.IP("fd00::53/64", "f"), verifw.IP("2001:db8::1/64", "")},
		{verifw.IP("2001:db8::9/64", ""), verifw.IP("fe80::1/64", "f")},
		{verifw.IP("2001:db8::1/64", "t"), verifw.IP("192.0.2.1/24", "")},
		{},
	}

	emit := func(id string, servers []string, omit bool, r *verifh.Rand, tags []string) {
		var raw, quoted []string
		for _, s := range servers {
			quoted = append(quoted, fmt.Sprintf("%q", s))
			ip, err := netip.ParseAddr(s)
			switch {
			case err != nil:
				raw = append(raw, "RSbad")
			case !ip.Is6() || ip.Is4In6():
				raw = append(raw, "RSnot6")
			case ip.Zone() != "":
				raw = append(raw, verifh.App("RSzone", verifw.AddrN(ip)))
			default:
				raw = append(raw, verifh.App("RS6", verifw.AddrN(ip)))
			}
		}
		line := "servers = [" + strings.Join(quoted, ", ") + "]\n"
		if omit {
			line = ""
		}
		lifetime := verifh.Pick(r, []string{"1h", "30m", "infinite", "auto"})
		toml := "[[interfaces]]\nname = \"eth0\"\nadvertise = true\n  [[interfaces.rdnss]]\n  " + line + "  lifetime = \"" + lifetime + "\"\n"

		c := verifh.Case{ID: id, Tags: append(tags, fmt.Sprintf("servers:%d", len(servers)))}
		input := map[string]any{"servers": servers, "omitted": omit, "lifetime": lifetime}
		cfg, err := config.Parse(strings.NewReader(toml), time.Unix(1_700_000_000, 0))
		if err != nil {
			c.Tags = append(c.Tags, "parse:rejected")
			c.Coq = verifh.App("mkCase", verifh.Some(verifh.List(raw)), "(Err 0%N)", verifh.Z(0), verifh.None(), "(Err 0%N)", "[]")
			c.Input, c.Observed = input, "rejected"
			out.Emit(c)
			return
		}
		var p *plugin.RDNSS
		for _, pl := range cfg.Interfaces[0].Plugins {
			if x, ok := pl.(*plugin.RDNSS); ok {
				if p != nil {
					t.Fatalf("%s: two rdnss plugins", id)
				}
				p = x
			}
		}
		if p == nil {
			t.Fatalf("%s: no rdnss plugin in %q", id, toml)
		}
		var ss, sj []string
		for _, s := range p.Servers {
			ss = append(ss, verifw.AddrN(s))
			sj = append(sj, s.String())
		}
		ips := verifh.Pick(r, addrLists)
		in := append([]system.IP(nil), ips...)
		p.Addrs = func() ([]system.IP, error) { return in, nil }
		ra := &ndp.RouterAdvertisement{}
		aerr := p.Apply(ra)
		obsCoq, obsJ := verifw.Result(ra, aerr)
		// The advertiser applies the SAME parser-produced plugin value for every RA it sends: apply it
		// 2..4 times in all. Every result is compared with the plugin as parsed (ss above was taken
		// before the first application) and with the model.
		applications := 2 + r.Intn(3)
		var againCoq []string
		againJ := []any{}
		for k := 1; k < applications; k++ {
			rak := &ndp.RouterAdvertisement{}
			errk := p.Apply(rak)
			ck, jk := verifw.Result(rak, errk)
			againCoq = append(againCoq, ck)
			againJ = append(againJ, jk)
		}
		var after []string
		for _, s := range p.Servers {
			after = append(after, s.String())
		}
		if !slices.Equal(after, sj) {
			c.ImplViolation = fmt.Sprintf("Apply modified the parsed static server list: %v -> %v", sj, after)
		}
		c.Tags = append(c.Tags, "parse:accepted", "auto:"+verifh.B(p.Auto), fmt.Sprintf("static:%d", len(p.Servers)),
			fmt.Sprintf("applications:%d", applications))
		c.Coq = verifh.App("mkCase", verifh.Some(verifh.List(raw)),
			verifh.App("Ok", verifh.Pair(verifh.B(p.Auto), verifh.List(ss))),
			verifh.Z(int64(p.Lifetime)), verifh.Some(verifw.IPsCoq(ips)), obsCoq, verifh.List(againCoq))
		input["addrs"] = verifw.IPsJSON(ips)
		input["applications"] = applications
		c.Input = input
		c.Observed = map[string]any{"auto": p.Auto, "static": sj, "apply": obsJ, "apply_again": againJ}
		out.Emit(c)
	}

	maxLen := 3
	if verifh.Thorough() {
		maxLen = 4
	}
	verifw.Seqs(len(pool), maxLen, func(seq []int) {
		id := "c14cfg-seq-" + verifw.SeqID(seq)
		if !out.Wants(id) {
			return
		}
		servers := make([]string, 0, len(seq))
		for _, i := range seq {
			servers = append(servers, pool[i])
		}
		tag := "stream:subset-permutation"
		if !verifw.Distinct(seq) {
			tag = "stream:with-duplicates"
		}
		emit(id, servers, false, verifh.NewRand(verifh.Seed(), id), []string{tag})
	})
	if id := "c14cfg-omitted"; out.Wants(id) {
		emit(id, nil, true, verifh.NewRand(verifh.Seed(), id), []string{"stream:omitted"})
	}

	// ---- random longer server lists (mostly valid, distinct)
	n := 200
	if verifh.Thorough() {
		n = 3000
	}
	for i := 0; i < n; i++ {
		id := fmt.Sprintf("c14cfg-rand-%d", i)
		if !out.Wants(id) {
			continue
		}
		r := verifh.NewRand(verifh.Seed(), id)
		k := 1 + r.Intn(12)
		var servers []string
		for j := 0; j < k; j++ {
			switch {
			case r.Chance(8):
				servers = append(servers, verifh.Pick(r, pool))
			case len(servers) > 0 && r.Chance(4):
				servers = append(servers, servers[r.Intn(len(servers))])
			default:
				hi := verifh.Pick(r, []uint64{0x20010db800000000, 0xfd00000000000000, 0xfe80000000000000, 0x20010db800000001})
				servers = append(servers, verifw.Addr16(hi, uint64(r.Intn(64))).String())
			}
		}
		emit(id, servers, false, r, []string{"stream:random"})
	}
}
