//go:build verif

package config_test

// Shared generator / renderer of the C01 and C03 drivers: TOML interface configurations with every
// stanza kind, system states, and the rendering of config.Interface, the system state and
// ndp.RouterAdvertisement as Gallina terms of Model/Types.v.

import (
	"fmt"
	"math/big"
	"net"
	"net/netip"
	"reflect"
	"sort"
	"strings"
	"time"

	"github.com/mdlayher/corerad/internal/config"
	"github.com/mdlayher/corerad/internal/plugin"
	"github.com/mdlayher/corerad/internal/system"
	"github.com/mdlayher/corerad/internal/verifh"
	"github.com/mdlayher/ndp"
)

// ---------------------------------------------------------------- system state

type vbSys struct {
	addrs      []system.IP
	addrsFail  bool
	routes     []system.Route
	routesFail bool
	mac        net.HardwareAddr
	epoch, now time.Time
	fwd        bool
}

var errVB = fmt.Errorf("verif: injected OS failure")

// vbInject sets the injectable sources of every plugin, as Prepare would from the OS.
func vbInject(ifi *config.Interface, s *vbSys) {
	clock := func() time.Time { return s.now }
	addrs := func() ([]system.IP, error) {
		if s.addrsFail {
			return nil, errVB
		}
		return s.addrs, nil
	}
	routes := func() ([]system.Route, error) {
		if s.routesFail {
			return nil, errVB
		}
		return s.routes, nil
	}
	for _, p := range ifi.Plugins {
		switch p := p.(type) {
		case *plugin.Prefix:
			p.TimeNow, p.Addrs = clock, addrs
		case *plugin.Route:
			p.TimeNow, p.Routes = clock, routes
		case *plugin.RDNSS:
			p.Addrs = addrs
		case *plugin.LLA:
			// through the real Prepare: an interface without a hardware address (tun, PPP, WireGuard) has a nil
			// HardwareAddr and must yield no source link-layer address option
			if err := p.Prepare(&net.Interface{Index: 1, Name: "verif0", HardwareAddr: s.mac}); err != nil {
				panic(err)
			}
		}
	}
}

// ---------------------------------------------------------------- generator

type vbGen struct {
	r    *verifh.Rand
	c03  bool // emphasise extreme durations / sizes
	tags map[string]bool
}

func (g *vbGen) tag(s string) { g.tags[s] = true }
func (g *vbGen) tagList() []string {
	var l []string
	for t := range g.tags {
		l = append(l, t)
	}
	sort.Strings(l)
	return l
}

const vbInf = int64(4294967295) * 1e9

// second-granular lifetime vocabulary (ns); the strings are rendered exactly ("<n>ns")
var vbLifeNs = []int64{
	1, 999_999_999, 1e9, 1_000_000_001, 1_500_000_000, 1800e9, 3600e9, 4 * 3600e9, 24 * 3600e9, 30 * 24 * 3600e9,
	16777215e9 + 999_999_999, 16777216e9, 16777216e9 + 999_999_998, 16777216e9 + 999_999_999, // 2^24 s
	2147483647e9 + 999_999_880, 2147483647e9 + 999_999_881, 2147483648e9 + 999_999_762,
	4294967294e9, 4294967294e9 + 999_999_761, 4294967294e9 + 999_999_762, 4294967294e9 + 999_999_999,
	vbInf - 1, vbInf,
}

func vbDurStr(ns int64) string { return fmt.Sprintf("%dns", ns) }

// vbLifeVal: the duration a generated lifetime string stands for (def when left out / auto).
func vbLifeVal(s string, def int64) int64 {
	switch s {
	case "", "auto":
		return def
	case "infinite":
		return vbInf
	}
	if d, err := time.ParseDuration(s); err == nil {
		return int64(d)
	}
	return 0
}

// lifetime returns a TOML value for a lifetime key ("" = leave the key out).
func (g *vbGen) lifetime(what string, deprecated bool) string {
	r := g.r
	x := r.Intn(100)
	big := 18
	if g.c03 {
		big = 40
	}
	switch {
	case x < 22:
		return ""
	case x < 30:
		g.tag(what + ":auto")
		return "auto"
	case x < 37 && !deprecated:
		g.tag(what + ":infinite")
		return "infinite"
	case x < 37+big:
		v := verifh.Pick(r, vbLifeNs)
		if v >= 16777216e9 {
			g.tag(what + ":>=2^24s")
		}
		if v%1e9 != 0 {
			g.tag(what + ":fractional")
		}
		return vbDurStr(v)
	case x < 80:
		return vbDurStr((1 + r.Int63n(100*24*3600)) * 1e9)
	case x < 90:
		g.tag(what + ":fractional")
		return vbDurStr(1 + r.Int63n(400*24*3600e9))
	case x < 97:
		return verifh.Pick(r, []string{"24h", "1h30m", "2.5s", "0.5s", "90m", "1193046h"})
	case x < 99:
		g.tag(what + ":out-of-range")
		return verifh.Pick(r, []string{"-1s", "-1ns", "4294967295.000000001s", "2000000h", "4294967296s"})
	default:
		g.tag(what + ":zero-or-junk")
		return verifh.Pick(r, []string{"0s", "", "junk", "1", "1.5"})
	}
}

func vbQ(s string) string { return "\"" + s + "\"" }

var vbBases = []string{"2001:db8", "2001:db9", "fd00:1", "fd12:3456", "2600:1f", "2a00:1450", "3fff:0"}

func (g *vbGen) randAddr(base string) netip.Addr {
	r := g.r
	a := netip.MustParseAddr(base + "::").As16()
	for i := 4; i < 16; i++ {
		switch r.Intn(4) {
		case 0:
			a[i] = byte(r.Intn(256))
		case 1:
			a[i] = byte(r.Intn(3))
		case 2:
			a[i] = 0xff
		}
	}
	return netip.AddrFrom16(a)
}

// staticPrefix returns a canonical prefix string under base number k (distinct k do not overlap).
func (g *vbGen) staticPrefix(k int, lens []int) string {
	a := g.randAddr(vbBases[k%len(vbBases)])
	bits := verifh.Pick(g.r, lens)
	p := netip.PrefixFrom(a, bits).Masked()
	return p.String()
}

// vbPref64Len returns the canonical (masked) prefix of the given length under a fixed address with
// no zero byte, so that every length 0..128 yields a distinct, host-bit-free CIDR.
func vbPref64Len(bits int) string {
	a := netip.MustParseAddr("2001:db8:1234:5678:9abc:def1:2345:6789")
	return netip.PrefixFrom(a, bits).Masked().String()
}

var vbNames = []string{"example.com", "lan", "corp.example.net", "a.b.c.d.e.f", "x-1.example.org", "home.arpa", "very-long-label-0123456789012345678901234567890123456789.example"}

// toml renders one advertising interface.
func (g *vbGen) toml() string {
	r := g.r
	var b strings.Builder
	b.WriteString("[[interfaces]]\nname = \"eth0\"\nadvertise = true\n")
	kv := func(k, v string) { fmt.Fprintf(&b, "%s = %s\n", k, v) }
	// --- header
	maxNs := int64(600e9)
	if r.Chance(70) {
		switch r.Intn(8) {
		case 0:
			maxNs = 4e9
		case 1:
			maxNs = 1800e9
		case 2:
			maxNs = 5_900_000_000
		case 3:
			maxNs = 4e9 + 1 + r.Int63n(1e9)
		case 4:
			maxNs = 1799e9 + r.Int63n(1e9)
			if r.Chance(10) {
				maxNs = 1800e9 + 1 // rejected
			}
		default:
			maxNs = 4e9 + r.Int63n(1796e9)
		}
		if maxNs%1e9 != 0 {
			g.tag("max_interval:fractional")
		}
		kv("max_interval", vbQ(vbDurStr(maxNs)))
	}
	if r.Chance(15) {
		kv("min_interval", vbQ(verifh.Pick(r, []string{"auto", "3s", ""})))
	}
	if r.Chance(50) {
		kv("managed", verifh.B(r.Bool()))
	}
	if r.Chance(50) {
		kv("other_config", verifh.B(r.Bool()))
	}
	timer := func(key string) {
		if !r.Chance(60) {
			return
		}
		var v string
		switch r.Intn(9) {
		case 0:
			v = "0s"
		case 1:
			v = "1h"
		case 2:
			v = "3599.9995s"
		case 3:
			v = "1ms"
		case 4:
			v = "999999ns"
		case 5:
			v = "1h"
			if r.Chance(15) {
				v = "1h0m0.000000001s"
				g.tag(key + ":over")
			}
		case 6:
			v = ""
		default:
			v = vbDurStr(r.Int63n(3600e9))
		}
		kv(key, vbQ(v))
	}
	timer("reachable_time")
	timer("retransmit_timer")
	if r.Chance(60) {
		kv("hop_limit", fmt.Sprint(verifh.Pick(r, []int{0, 1, 64, 254, 255, r.Intn(256), r.Intn(256)})))
	}
	if r.Chance(70) {
		var v string
		switch r.Intn(9) {
		case 0:
			v = "0s"
		case 1:
			v = "auto"
		case 2:
			v = "9000s"
		case 3:
			v = "8999.999999999s"
		case 4:
			v = vbDurStr(maxNs)
		case 5:
			v = ""
		case 6:
			v = "9000s"
			if r.Chance(15) {
				v = "9000.000000001s"
				g.tag("default_lifetime:over")
			}
		default:
			v = vbDurStr(maxNs + r.Int63n(9000e9-maxNs+1))
		}
		kv("default_lifetime", vbQ(v))
	}
	if r.Chance(50) {
		kv("preference", vbQ(verifh.Pick(r, []string{"low", "medium", "high", ""})))
	}
	if r.Chance(20) {
		kv("unicast_only", verifh.B(r.Bool()))
	}
	if r.Chance(50) {
		m := verifh.Pick(r, []int64{0, 1, 1280, 1500, 9000, 65535, 65536, int64(1 + r.Intn(65536)), int64(1 + r.Intn(65536)), int64(1 + r.Intn(65536))})
		if r.Chance(4) {
			m = verifh.Pick(r, []int64{65537, 4294968796, -1}) // over the documented limit / wraps in 32 bits
			g.tag("mtu:out-of-range")
		}
		kv("mtu", fmt.Sprint(m))
		g.tag(fmt.Sprintf("mtu:%v", m != 0))
	}
	if r.Chance(50) {
		v := r.Chance(65)
		kv("source_lla", verifh.B(v))
	}
	if r.Chance(40) {
		var u string
		switch r.Intn(12) {
		case 0:
			u = "urn:ietf:params:capport:unrestricted"
		case 1:
			u = "http://router.example/" + strings.Repeat("p", r.Intn(260))
			g.tag("captive:long")
		case 2:
			u = "http://router.example/" + strings.Repeat("p", 246-22+r.Intn(3)-1) // 245..247 bytes
			g.tag("captive:around-246")
		case 3:
			u = verifh.Pick(r, []string{"#", "//", "?", "x", "http://a/b c"})
			g.tag("captive:odd")
		default:
			u = fmt.Sprintf("https://portal%d.example.com/api/%d", r.Intn(5), r.Intn(100))
		}
		kv("captive_portal", vbQ(u))
	}
	// --- stanzas
	nk := func() int {
		switch x := r.Intn(10); {
		case x < 3:
			return 0
		case x < 7:
			return 1
		case x < 9:
			return 2
		default:
			return 3
		}
	}
	usedWildcard := false
	base := r.Intn(len(vbBases))
	for i, n := 0, nk(); i < n; i++ {
		b.WriteString("[[interfaces.prefix]]\n")
		dep := r.Chance(30)
		if r.Chance(35) && !usedWildcard {
			usedWildcard = true
			g.tag("prefix:wildcard")
			if r.Chance(50) {
				kv("prefix", vbQ("::/64"))
			} else if r.Chance(50) {
				kv("prefix", vbQ(""))
			}
		} else {
			g.tag("prefix:static")
			kv("prefix", vbQ(g.staticPrefix(base+i, []int{64, 64, 64, 48, 56, 60, 61, 96, 127, 32, 3})))
		}
		if r.Chance(50) {
			kv("on_link", verifh.B(r.Bool()))
		}
		if r.Chance(50) {
			kv("autonomous", verifh.B(r.Bool()))
		}
		v, p := g.lifetime("prefix_valid", dep), g.lifetime("prefix_preferred", dep)
		if r.Chance(85) { // mostly preferred <= valid
			vn := vbLifeVal(v, 24*3600e9)
			if pn := vbLifeVal(p, 4*3600e9); pn > vn {
				switch r.Intn(3) {
				case 0:
					p = v
					if v == "" {
						p = "24h"
					}
				case 1:
					p = vbDurStr(1 + r.Int63n(vn))
				default:
					p = vbDurStr(vn - r.Int63n(min(vn, 3)))
				}
			}
		}
		if v != "" {
			kv("valid_lifetime", vbQ(v))
		}
		if p != "" {
			kv("preferred_lifetime", vbQ(p))
		}
		if dep {
			kv("deprecated", "true")
			g.tag("prefix:deprecated")
		}
	}
	usedWildcard = false
	for i, n := 0, nk(); i < n; i++ {
		b.WriteString("[[interfaces.route]]\n")
		dep := r.Chance(30)
		if r.Chance(35) && !usedWildcard {
			usedWildcard = true
			g.tag("route:wildcard")
			if r.Chance(50) {
				kv("prefix", vbQ("::/0"))
			}
		} else {
			g.tag("route:static")
			lens := []int{3, 7, 8, 16, 32, 48, 60, 63, 64, 65, 72, 96, 100, 127, 128}
			s := g.staticPrefix(base+3+i, lens)
			if pp := netip.MustParsePrefix(s); pp.Bits()%8 != 0 {
				g.tag("route:len-not-multiple-of-8")
			}
			kv("prefix", vbQ(s))
		}
		if r.Chance(50) {
			kv("preference", vbQ(verifh.Pick(r, []string{"low", "medium", "high"})))
		}
		if v := g.lifetime("route_lifetime", dep); v != "" {
			kv("lifetime", vbQ(v))
		}
		if dep {
			kv("deprecated", "true")
			g.tag("route:deprecated")
		}
	}
	for i, n := 0, nk(); i < n; i++ {
		b.WriteString("[[interfaces.rdnss]]\n")
		if v := g.lifetime("rdnss_lifetime", false); v != "" {
			kv("lifetime", vbQ(v))
		}
		var servers []string
		ns := r.Intn(4)
		switch x := r.Intn(100); {
		case x < 6:
			ns = 14 + r.Intn(4) // 14..17: around the 15-server limit of ndp v1.1.0
			g.tag("rdnss:around-15-servers")
		case x < 8 && g.c03:
			ns = 126 + r.Intn(3)
			g.tag("rdnss:around-127-servers")
		}
		for j := 0; j < ns; j++ {
			servers = append(servers, vbQ(fmt.Sprintf("%s:%x::%x", vbBases[(i+j)%len(vbBases)], j, 1+r.Intn(4))))
		}
		if r.Chance(35) {
			servers = append(servers, vbQ("::"))
			verifh.Shuffle(r, servers)
			g.tag("rdnss:wildcard")
		}
		if len(servers) > 0 || r.Chance(50) {
			kv("servers", "["+strings.Join(servers, ", ")+"]")
		}
		if len(servers) == 0 {
			g.tag("rdnss:wildcard")
		}
		_ = i
	}
	for i, n := 0, nk(); i < n; i++ {
		b.WriteString("[[interfaces.dnssl]]\n")
		if v := g.lifetime("dnssl_lifetime", false); v != "" {
			kv("lifetime", vbQ(v))
		}
		var names []string
		cnt := 1 + r.Intn(3)
		if r.Chance(6) {
			cnt = 12 + r.Intn(6) // total size around 248 bytes
			g.tag("dnssl:large")
		}
		for j := 0; j < cnt; j++ {
			names = append(names, vbQ(fmt.Sprintf("d%d-%d.%s", i, j, verifh.Pick(r, vbNames))))
		}
		kv("domain_names", "["+strings.Join(names, ", ")+"]")
	}
	for i, n := 0, nk(); i < n; i++ {
		b.WriteString("[[interfaces.pref64]]\n")
		switch x := r.Intn(100); {
		case x < 25:
			g.tag("pref64:default")
		case x < 35:
			kv("prefix", vbQ("64:ff9b::/96"))
		case x < 80:
			kv("prefix", vbQ(g.staticPrefix(base+i, []int{96, 64, 56, 48, 40, 32})))
		case x < 92:
			// every prefix length 0..128, canonical address for that length (the encoder knows six)
			bits := r.Intn(129)
			kv("prefix", vbQ(g.staticPrefix(base+i, []int{bits})))
			g.tag("pref64:any-length")
			if bits%8 == 0 && bits >= 32 && bits <= 96 {
				g.tag("pref64:octet-length-32..96")
			}
		case x < 96:
			kv("prefix", vbQ(g.staticPrefix(base+i, []int{95, 97, 50, 128, 33, 31, 0, 8})))
			g.tag("pref64:bad-length")
		default:
			kv("prefix", vbQ(verifh.Pick(r, []string{"192.0.2.0/24", "10.0.0.0/32", "2001:db8::1/96", "64:ff9b::1/96", "::ffff:10.0.0.0/96", "junk", ""})))
			g.tag("pref64:odd")
		}
	}
	return b.String()
}

func (g *vbGen) sys(epoch time.Time) *vbSys {
	r := g.r
	s := &vbSys{epoch: epoch, fwd: r.Chance(70)}
	// clock: mostly after the epoch; boundaries are added by the drivers through nowOffsets
	switch x := r.Intn(100); {
	case x < 10:
		s.now = epoch
	case x < 15:
		s.now = epoch.Add(-time.Duration(1 + r.Int63n(2e9)))
		g.tag("clock:before-epoch")
	case x < 50:
		s.now = epoch.Add(time.Duration(r.Int63n(48 * 3600e9)))
	case x < 80:
		s.now = epoch.Add(time.Duration(verifh.Pick(r, vbLifeNs)) + time.Duration(r.Int63n(3)-1))
		g.tag("clock:at-a-deadline")
	default:
		s.now = epoch.Add(time.Duration(r.Int63n(1 << 61)))
	}
	if r.Chance(6) {
		s.addrsFail = true
		g.tag("sys:addrs-fail")
	}
	if r.Chance(6) {
		s.routesFail = true
		g.tag("sys:routes-fail")
	}
	na := r.Intn(7)
	for i := 0; i < na; i++ {
		var a netip.Addr
		bits := 64
		switch x := r.Intn(100); {
		case x < 45:
			a = g.randAddr(vbBases[r.Intn(3)])
			if r.Chance(60) { // few distinct /64s: exercise de-duplication
				b := a.As16()
				b[4], b[5], b[6], b[7] = 0, 0, 0, byte(r.Intn(3))
				a = netip.AddrFrom16(b)
			}
		case x < 60:
			a = g.randAddr("fe80:0")
			b := a.As16()
			b[2], b[3], b[4], b[5], b[6], b[7] = 0, 0, 0, 0, 0, 0
			a = netip.AddrFrom16(b)
		case x < 70:
			a = netip.AddrFrom4([4]byte{byte(verifh.Pick(r, []int{10, 169, 192})), byte(verifh.Pick(r, []int{254, 168, 0})), 0, byte(1 + r.Intn(5))})
			bits = 24
		case x < 76:
			a = netip.AddrFrom16(netip.AddrFrom4([4]byte{byte(verifh.Pick(r, []int{10, 169, 172, 192, 8, 127, 224})), byte(verifh.Pick(r, []int{254, 168, 16, 0})), 0, byte(r.Intn(3))}).As16())
			g.tag("sys:addr-4in6")
		case x < 80:
			a = verifh.Pick(r, []netip.Addr{netip.MustParseAddr("::1"), netip.MustParseAddr("ff02::1"), netip.MustParseAddr("fec0::1")})
		default:
			a = g.randAddr(vbBases[3+r.Intn(4)])
			if r.Chance(30) { // EUI-64 pattern
				b := a.As16()
				b[11], b[12] = 0xff, 0xfe
				a = netip.AddrFrom16(b)
			}
		}
		if a.Is6() && r.Chance(20) {
			bits = verifh.Pick(r, []int{48, 56, 63, 65, 128, 0})
		}
		s.addrs = append(s.addrs, system.IP{
			Address:    netip.PrefixFrom(a, bits),
			Deprecated: r.Chance(15), ManageTemporaryAddresses: r.Chance(20), StablePrivacy: r.Chance(20),
			Temporary: r.Chance(12), Tentative: r.Chance(12), ValidForever: r.Chance(30),
		})
	}
	if r.Chance(20) {
		verifh.Shuffle(r, s.addrs)
	}
	nr := r.Intn(6)
	for i := 0; i < nr; i++ {
		var p netip.Prefix
		switch x := r.Intn(100); {
		case x < 30:
			p = netip.PrefixFrom(g.randAddr(vbBases[r.Intn(2)]), verifh.Pick(r, []int{32, 48, 48, 56, 64})).Masked()
			if r.Chance(60) {
				b := p.Addr().As16()
				b[4], b[5] = 0, byte(r.Intn(2))
				p = netip.PrefixFrom(netip.AddrFrom16(b), p.Bits()).Masked()
			}
		case x < 45:
			p = netip.PrefixFrom(g.randAddr(vbBases[r.Intn(2)]), 128)
		case x < 55:
			p = netip.MustParsePrefix(verifh.Pick(r, []string{"10.0.0.0/8", "192.0.2.1/32", "0.0.0.0/0"}))
		case x < 60:
			p = netip.MustParsePrefix("::/0")
		case x < 75 && len(s.routes) > 0:
			p = s.routes[r.Intn(len(s.routes))].Prefix // duplicate
		case x < 85 && len(s.routes) > 0:
			q := s.routes[r.Intn(len(s.routes))].Prefix // a shorter / longer relative at the same base
			if q.Addr().Is6() {
				p = netip.PrefixFrom(q.Addr(), verifh.Pick(r, []int{16, 32, 40, 48, 64, 72, 127})).Masked()
			} else {
				p = q
			}
		default:
			p = netip.PrefixFrom(g.randAddr(vbBases[2+r.Intn(5)]), verifh.Pick(r, []int{8, 20, 33, 48, 60, 64, 100})).Masked()
		}
		s.routes = append(s.routes, system.Route{Prefix: p, Index: 1, Preference: ndp.Medium})
	}
	switch x := r.Intn(100); {
	case x < 20:
		s.mac = nil
		g.tag("mac:absent")
	case x < 23:
		s.mac = net.HardwareAddr{1, 2, 3, 4, 5, 6, 7, 8}
		g.tag("mac:8-bytes")
	default:
		s.mac = net.HardwareAddr{byte(r.Intn(256)) &^ 1, byte(r.Intn(256)), 0x5e, 0, byte(r.Intn(3)), 0xff}
		g.tag("mac:6-bytes")
	}
	return s
}

// ---------------------------------------------------------------- rendering as Gallina terms

type vbStr struct{ m map[string]uint64 }

// id: serial * 2^16 + length in bytes (Model/Wire.str_len reads the low 16 bits).
func (t *vbStr) N(s string) string {
	if t.m == nil {
		t.m = map[string]uint64{}
	}
	v, ok := t.m[s]
	if !ok {
		v = uint64(len(t.m)+1)<<16 | uint64(len(s)&0xffff)
		t.m[s] = v
	}
	return verifh.N(v)
}

func vbPref(p ndp.Preference) string {
	switch p {
	case ndp.Low:
		return "Low"
	case ndp.High:
		return "High"
	case ndp.Medium:
		return "Medium"
	}
	panic(fmt.Sprintf("verif: preference %d", p))
}

func vbAddrs(as []netip.Addr) string {
	var l []string
	for _, a := range as {
		l = append(l, verifh.AddrN(a))
	}
	return verifh.List(l)
}

func vbBytes(b []byte) string {
	var l []string
	for _, x := range b {
		l = append(l, verifh.N(uint64(x)))
	}
	return verifh.List(l)
}

func vbD(d time.Duration) string { return verifh.Z(int64(d)) }

func vbPlugin(p plugin.Plugin, st *vbStr, epoch time.Time) string {
	switch p := p.(type) {
	case *plugin.Prefix:
		if !p.Epoch.Equal(epoch) {
			panic("verif: prefix epoch differs from the Parse epoch")
		}
		return verifh.App("PPrefix", verifh.B(p.Auto), verifh.AddrN(p.Prefix.Addr()), verifh.N(uint64(p.Prefix.Bits())),
			verifh.B(p.OnLink), verifh.B(p.Autonomous), vbD(p.ValidLifetime), vbD(p.PreferredLifetime), verifh.B(p.Deprecated))
	case *plugin.Route:
		if !p.Epoch.Equal(epoch) {
			panic("verif: route epoch differs from the Parse epoch")
		}
		return verifh.App("PRoute", verifh.B(p.Auto), verifh.AddrN(p.Prefix.Addr()), verifh.N(uint64(p.Prefix.Bits())),
			vbPref(p.Preference), vbD(p.Lifetime), verifh.B(p.Deprecated))
	case *plugin.RDNSS:
		return verifh.App("PRDNSS", verifh.B(p.Auto), vbD(p.Lifetime), vbAddrs(p.Servers))
	case *plugin.DNSSL:
		var l []string
		for _, n := range p.DomainNames {
			l = append(l, st.N(n))
		}
		return verifh.App("PDNSSL", vbD(p.Lifetime), verifh.List(l))
	case *plugin.MTU:
		return verifh.App("PMTU", verifh.Z(int64(*p)))
	case *plugin.LLA:
		return "PLLA"
	case *plugin.CaptivePortal:
		return verifh.App("PCaptive", st.N(p.Portal.URI))
	case *plugin.PREF64:
		a := p.Inner.Prefix.Addr()
		return verifh.App("PPref64", verifh.B(a.Is4()), verifh.AddrN(a), verifh.N(uint64(p.Inner.Prefix.Bits())), vbD(p.Inner.Lifetime))
	}
	panic(fmt.Sprintf("verif: unknown plugin type %T", p))
}

func vbIface(ifi config.Interface, st *vbStr, epoch time.Time) string {
	var ps []string
	for _, p := range ifi.Plugins {
		ps = append(ps, vbPlugin(p, st, epoch))
	}
	return verifh.App("mkIface", st.N(ifi.Name), verifh.B(ifi.Monitor), verifh.B(ifi.Advertise), verifh.B(ifi.Verbose),
		vbD(ifi.MinInterval), vbD(ifi.MaxInterval), verifh.B(ifi.Managed), verifh.B(ifi.OtherConfig),
		vbD(ifi.ReachableTime), vbD(ifi.RetransmitTimer), verifh.N(uint64(ifi.HopLimit)), vbD(ifi.DefaultLifetime),
		verifh.B(ifi.UnicastOnly), vbPref(ifi.Preference), verifh.List(ps))
}

func vbSysTerm(s *vbSys) string {
	addrs, routes, mac := verifh.None(), verifh.None(), verifh.None()
	if !s.addrsFail {
		var l []string
		for _, a := range s.addrs {
			l = append(l, verifh.App("mkIP", verifh.B(a.Address.Addr().Is4()), verifh.AddrN(a.Address.Addr()), verifh.N(uint64(a.Address.Bits())),
				verifh.B(a.Deprecated), verifh.B(a.ManageTemporaryAddresses), verifh.B(a.StablePrivacy),
				verifh.B(a.Temporary), verifh.B(a.Tentative), verifh.B(a.ValidForever)))
		}
		addrs = verifh.Some(verifh.List(l))
	}
	if !s.routesFail {
		var l []string
		for _, rt := range s.routes {
			l = append(l, verifh.App("mkRoute", verifh.B(rt.Prefix.Addr().Is4()), verifh.AddrN(rt.Prefix.Addr()), verifh.N(uint64(rt.Prefix.Bits()))))
		}
		routes = verifh.Some(verifh.List(l))
	}
	if s.mac != nil {
		mac = verifh.Some(vbBytes(s.mac))
	}
	return verifh.App("mkSys", addrs, routes, mac, verifh.Z(s.now.UnixNano()), verifh.Z(s.epoch.UnixNano()), verifh.B(s.fwd))
}

func vbOpt(o ndp.Option, st *vbStr) string {
	switch o := o.(type) {
	case *ndp.PrefixInformation:
		return verifh.App("OPrefix", verifh.N(uint64(o.PrefixLength)), verifh.B(o.OnLink), verifh.B(o.AutonomousAddressConfiguration),
			vbD(o.ValidLifetime), vbD(o.PreferredLifetime), verifh.AddrN(o.Prefix))
	case *ndp.RouteInformation:
		return verifh.App("ORoute", verifh.N(uint64(o.PrefixLength)), vbPref(o.Preference), vbD(o.RouteLifetime), verifh.AddrN(o.Prefix))
	case *ndp.RecursiveDNSServer:
		return verifh.App("ORDNSS", vbD(o.Lifetime), vbAddrs(o.Servers))
	case *ndp.DNSSearchList:
		var l []string
		for _, n := range o.DomainNames {
			l = append(l, st.N(n))
		}
		return verifh.App("ODNSSL", vbD(o.Lifetime), verifh.List(l))
	case *ndp.MTU:
		return verifh.App("OMTU", verifh.N(uint64(o.MTU)))
	case *ndp.LinkLayerAddress:
		if o.Direction == ndp.Source {
			return verifh.App("OSLLA", vbBytes(o.Addr))
		}
	case *ndp.CaptivePortal:
		return verifh.App("OCaptive", st.N(o.URI))
	case *ndp.PREF64:
		a := o.Prefix.Addr()
		return verifh.App("OPref64", verifh.B(a.Is4()), verifh.AddrN(a), verifh.N(uint64(o.Prefix.Bits())), vbD(o.Lifetime))
	}
	return verifh.App("OOther", verifh.N(uint64(o.Code())))
}

func vbRA(ra *ndp.RouterAdvertisement, st *vbStr) string {
	var os []string
	for _, o := range ra.Options {
		os = append(os, vbOpt(o, st))
	}
	return verifh.App("mkRA", verifh.N(uint64(ra.CurrentHopLimit)), verifh.B(ra.ManagedConfiguration), verifh.B(ra.OtherConfiguration),
		vbPref(ra.RouterSelectionPreference), vbD(ra.RouterLifetime), vbD(ra.ReachableTime), vbD(ra.RetransmitTimer), verifh.List(os))
}

func vbResultRA(ra *ndp.RouterAdvertisement, err error, st *vbStr) string {
	if err != nil || ra == nil {
		return "(Err 0%N)"
	}
	return verifh.App("Ok", vbRA(ra, st))
}

// ---------------------------------------------------------------- deep snapshot

// vbDump renders a value deeply and canonically (pointers followed, functions as set / nil), so that two
// snapshots are equal iff nothing reachable changed.
func vbDump(v any) string {
	var b strings.Builder
	vbDumpV(reflect.ValueOf(v), &b, 0)
	return b.String()
}

var (
	tAddr   = reflect.TypeOf(netip.Addr{})
	tPrefix = reflect.TypeOf(netip.Prefix{})
	tTime   = reflect.TypeOf(time.Time{})
)

func vbDumpV(v reflect.Value, b *strings.Builder, depth int) {
	if depth > 12 {
		b.WriteString("<deep>")
		return
	}
	if !v.IsValid() {
		b.WriteString("<invalid>")
		return
	}
	switch v.Type() {
	case tAddr:
		b.WriteString(v.Interface().(netip.Addr).String())
		return
	case tPrefix:
		b.WriteString(v.Interface().(netip.Prefix).String())
		return
	case tTime:
		fmt.Fprintf(b, "t%d", v.Interface().(time.Time).UnixNano())
		return
	}
	switch v.Kind() {
	case reflect.Ptr, reflect.Interface:
		if v.IsNil() {
			b.WriteString("nil")
			return
		}
		fmt.Fprintf(b, "&%s", v.Elem().Type().String())
		vbDumpV(v.Elem(), b, depth+1)
	case reflect.Struct:
		b.WriteString("{")
		for i := 0; i < v.NumField(); i++ {
			fmt.Fprintf(b, "%s:", v.Type().Field(i).Name)
			vbDumpV(v.Field(i), b, depth+1)
			b.WriteString(",")
		}
		b.WriteString("}")
	case reflect.Slice:
		if v.IsNil() {
			b.WriteString("nil[]")
			return
		}
		fallthrough
	case reflect.Array:
		fmt.Fprintf(b, "[%d:", v.Len())
		for i := 0; i < v.Len(); i++ {
			vbDumpV(v.Index(i), b, depth+1)
			b.WriteString(",")
		}
		b.WriteString("]")
	case reflect.Func:
		if v.IsNil() {
			b.WriteString("func:nil")
		} else {
			b.WriteString("func:set")
		}
	case reflect.String:
		fmt.Fprintf(b, "%q", v.String())
	case reflect.Bool:
		fmt.Fprint(b, v.Bool())
	case reflect.Int, reflect.Int8, reflect.Int16, reflect.Int32, reflect.Int64:
		fmt.Fprint(b, v.Int())
	case reflect.Uint, reflect.Uint8, reflect.Uint16, reflect.Uint32, reflect.Uint64:
		fmt.Fprint(b, v.Uint())
	default:
		fmt.Fprintf(b, "<%s>", v.Kind())
	}
}

// vbWireRoutes extracts, from a marshalled ICMPv6 RA, the prefix bytes of every Route Information
// option (type 24), zero-extended to 128 bits.
func vbWireRoutes(b []byte) []string {
	var res []string
	const optsOff = 4 + 12
	for i := optsOff; i+2 <= len(b); {
		t, l := b[i], int(b[i+1])*8
		if l == 0 || i+l > len(b) {
			break
		}
		if t == 24 {
			var a [16]byte
			copy(a[:], b[i+8:i+l])
			res = append(res, new(big.Int).SetBytes(a[:]).String()+"%N")
		}
		i += l
	}
	return res
}

func vbEpoch(r *verifh.Rand) time.Time {
	return time.Unix(0, int64(1_600_000_000)*1e9+r.Int63n(200_000_000)*1e9+r.Int63n(1e9))
}
