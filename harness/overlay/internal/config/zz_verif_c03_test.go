//go:build verif

package config_test

import (
	"fmt"
	"strings"
	"testing"

	"github.com/mdlayher/corerad/internal/config"
	"github.com/mdlayher/corerad/internal/verifh"
	"github.com/mdlayher/ndp"
)

// vbC03Corpus: fixed configurations that run first: one witness per known-finding class, the
// repaired defects (fixed: lines of known_findings.txt), and boundary values of every field.
var vbC03Corpus = []struct{ name, toml string }{
	{"finding-roundup-infinity", "[[interfaces.prefix]]\nprefix = \"2001:db8::/64\"\nvalid_lifetime = \"4294967294.9999999s\"\npreferred_lifetime = \"1s\"\n"},
	{"finding-roundup-2^24", "[[interfaces.route]]\nprefix = \"2001:db8::/48\"\nlifetime = \"16777216.999999999s\"\n"},
	{"finding-16-servers", "[[interfaces.rdnss]]\nservers = [" + vbServers(16) + "]\n"},
	{"finding-uri-247", "captive_portal = \"http://router.example/" + strings.Repeat("p", 225) + "\"\n"},
	{"limit-15-servers", "[[interfaces.rdnss]]\nservers = [" + vbServers(15) + "]\n"},
	{"limit-uri-246", "captive_portal = \"http://router.example/" + strings.Repeat("p", 224) + "\"\n"},
	{"fixed-empty-uri", "captive_portal = \"#\"\n"},
	{"fixed-negative-lifetime", "[[interfaces.prefix]]\nprefix = \"2001:db8::/64\"\nvalid_lifetime = \"-1s\"\n"},
	{"fixed-pref64-50", "[[interfaces.pref64]]\nprefix = \"2001:db8::/50\"\n"},
	{"fixed-pref64-v4", "[[interfaces.pref64]]\nprefix = \"192.0.2.0/24\"\n"},
	{"limits-header", "max_interval = \"1800s\"\ndefault_lifetime = \"9000s\"\nreachable_time = \"1h\"\nretransmit_timer = \"1h\"\nhop_limit = 255\nmtu = 65536\n[[interfaces.pref64]]\n"},
	{"sub-unit-header", "max_interval = \"4.5s\"\ndefault_lifetime = \"8999.999999999s\"\nreachable_time = \"3599.9999995s\"\nretransmit_timer = \"999999ns\"\n[[interfaces.pref64]]\n"},
	{"infinite-everything", "[[interfaces.prefix]]\nprefix = \"2001:db8::/64\"\nvalid_lifetime = \"infinite\"\npreferred_lifetime = \"infinite\"\n[[interfaces.route]]\nprefix = \"2001:db8:1::/60\"\nlifetime = \"infinite\"\n[[interfaces.rdnss]]\nlifetime = \"infinite\"\nservers = [\"2001:db8::1\"]\n[[interfaces.dnssl]]\nlifetime = \"infinite\"\ndomain_names = [\"example.com\"]\n"},
}

func vbServers(n int) string {
	var s []string
	for i := 0; i < n; i++ {
		s = append(s, fmt.Sprintf("\"2001:db8::%x\"", i+1))
	}
	return strings.Join(s, ", ")
}

// TestVerifC03 builds the RA of every accepted generated configuration (extreme duration strings,
// arbitrary PREF64 CIDRs, option sizes around the encoder's limits), passes it through
// ndp.MarshalMessage / ndp.ParseMessage and emits what came back.
func TestVerifC03(t *testing.T) {
	out := verifh.Open()
	defer out.Close()
	for _, c := range vbC03Corpus {
		vbC03Case(t, out, "c03-corpus-"+c.name, "[[interfaces]]\nname = \"eth0\"\nadvertise = true\n"+c.toml)
	}
	// the binary64 round-up window of every binade 2^24 .. 2^31 s: last fraction that truncates, first that rounds up
	for k := 24; k <= 31; k++ {
		w := int64(1953125) >> (44 - k) // window width in ns
		for _, sec := range []int64{1 << k, 1<<(k+1) - 1} {
			if sec >= 4294967295 {
				sec = 4294967294
			}
			for _, d := range []int64{-1, 0} {
				ns := sec*1e9 + 1e9 - w + d
				vbC03Case(t, out, fmt.Sprintf("c03-window-%d-%d-%d", k, sec, d+1),
					fmt.Sprintf("[[interfaces]]\nname = \"eth0\"\nadvertise = true\n[[interfaces.rdnss]]\nlifetime = \"%dns\"\nservers = [\"2001:db8::1\"]\n", ns))
			}
		}
	}
	// every PREF64 prefix length 0..128 (canonical address for that length), alone and next to other
	// options: whatever config.Parse accepts must be a length the option can carry.
	for bits := 0; bits <= 128; bits++ {
		vbC03Case(t, out, fmt.Sprintf("c03-pref64-len-%d", bits),
			fmt.Sprintf("[[interfaces]]\nname = \"eth0\"\nadvertise = true\n[[interfaces.prefix]]\nprefix = \"::/64\"\n[[interfaces.pref64]]\nprefix = %q\n",
				vbPref64Len(bits)))
	}
	// keys a later version might accept (a lifetime where today there is none): all are rejected today; whatever
	// config.Parse accepts goes through the same build / encode / decode comparison as everything else
	stanzas := []struct{ kind, base string }{
		{"pref64", "prefix = \"64:ff9b::/96\"\n"},
		{"prefix", "prefix = \"2001:db8:1::/64\"\n"},
		{"route", "prefix = \"2001:db8:f::/48\"\n"},
		{"rdnss", "servers = [\"2001:db8::53\"]\n"},
		{"dnssl", "domain_names = [\"example.com\"]\n"},
	}
	has := map[string]string{"pref64": "", "prefix": "valid_lifetime preferred_lifetime", "route": "lifetime preference", "rdnss": "lifetime", "dnssl": "lifetime"}
	for _, st := range stanzas {
		for _, key := range []string{"lifetime", "valid_lifetime", "preferred_lifetime", "max_lifetime"} {
			if strings.Contains(" "+has[st.kind]+" ", " "+key+" ") {
				continue
			}
			for k, val := range []string{"30s", "4s", "100s", "5m", "18h12m7.5s", "65535s", "1ns", "auto"} {
				vbC03Case(t, out, fmt.Sprintf("c03-newkey-%s-%s-%d", st.kind, key, k),
					fmt.Sprintf("[[interfaces]]\nname = \"eth0\"\nadvertise = true\n[[interfaces.%s]]\n%s%s = %q\n", st.kind, st.base, key, val))
			}
		}
	}
	// duration spellings a later version might accept (days, weeks, years, bare numbers): rejected today; whatever is
	// accepted goes through the same comparison (50000 days do not fit 32 bits of seconds)
	for k, val := range []string{"30d", "49711d", "50000d", "106752d", "2w", "7102w", "1y", "137y", "1.5d", "86400", "4294967296", "1e10s", "0x10s", "1h30", "P1D", "1 day"} {
		for _, key := range []struct{ stanza, base, key string }{
			{"prefix", "prefix = \"2001:db8:1::/64\"\n", "valid_lifetime"},
			{"route", "prefix = \"2001:db8:f::/48\"\n", "lifetime"},
			{"rdnss", "servers = [\"2001:db8::53\"]\n", "lifetime"},
		} {
			vbC03Case(t, out, fmt.Sprintf("c03-newdur-%s-%d", key.stanza, k),
				fmt.Sprintf("[[interfaces]]\nname = \"eth0\"\nadvertise = true\n[[interfaces.%s]]\n%s%s = %q\n", key.stanza, key.base, key.key, val))
		}
	}
	n := 1500
	if verifh.Thorough() {
		n = 30000
	}
	for i := 0; i < n; i++ {
		vbC03Case(t, out, fmt.Sprintf("c03-%d", i), "")
	}
}

func vbC03Case(t *testing.T, out *verifh.Out, id, toml string) {
	if !out.Wants(id) {
		return
	}
	g := &vbGen{r: verifh.NewRand(verifh.Seed(), id), c03: true, tags: map[string]bool{}}
	corpus := toml != ""
	if corpus {
		g.tag("stream:corpus")
	} else {
		toml = g.toml()
	}
	epoch := vbEpoch(g.r)
	s := g.sys(epoch)
	if corpus {
		s.addrsFail, s.routesFail, s.now = false, false, epoch.Add(1e9)
		if len(s.mac) != 6 {
			s.mac = []byte{2, 0, 0x5e, 0, 0, 1}
		}
	}
	cfg, err := config.Parse(strings.NewReader(toml), epoch)
	if err != nil {
		g.tag("parse:rejected")
		out.Emit(verifh.Case{ID: id, Input: map[string]any{"toml": toml}, Observed: "rejected", Tags: g.tagList()})
		return
	}
	g.tag("parse:accepted")
	ifi := cfg.Interfaces[0]
	vbInject(&ifi, s)
	st := &vbStr{}
	ifaceTerm := vbIface(ifi, st, epoch)

	ra, _, berr := ifi.RouterAdvertisement(s.fwd)
	built := vbResultRA(ra, berr, st)
	marshalOK, decoded, wroutes := false, "(Err 0%N)", []string{}
	var obsJ any = "build error"
	if berr == nil {
		b, merr := ndp.MarshalMessage(ra)
		obsJ = "marshal error"
		if merr == nil {
			marshalOK = true
			wroutes = vbWireRoutes(b)
			m, perr := ndp.ParseMessage(b)
			obsJ = "parse error"
			if perr == nil {
				if dra, ok := m.(*ndp.RouterAdvertisement); ok {
					if dra.MobileIPv6HomeAgent || dra.NeighborDiscoveryProxy {
						t.Errorf("%s: decoded RA has home agent / proxy flag", id)
					}
					decoded = vbResultRA(dra, nil, st)
					obsJ = vbDump(dra)
				}
			} else {
				g.tag("decode:error")
			}
		} else {
			g.tag("encode:error")
		}
	} else {
		g.tag("build:error")
	}
	out.Emit(verifh.Case{
		ID:  id,
		Coq: verifh.App("mkCase", ifaceTerm, vbSysTerm(s), built, verifh.B(marshalOK), decoded, verifh.List(wroutes)),
		Input: map[string]any{"toml": toml, "forwarding": s.fwd, "now_minus_epoch_ns": int64(s.now.Sub(s.epoch)),
			"addrs": len(s.addrs), "routes": len(s.routes), "mac": s.mac.String(), "plugins": len(ifi.Plugins)},
		Observed: obsJ,
		Tags:     g.tagList(),
	})
}
