//go:build verif && linux

package netstate

// C19 against the real operating system (root + `ip` + veth only; otherwise tagged unavailable and
// nothing is asserted): the rtnetlink receive loop osWatch and process(), which the other streams
// replace by an injected hook, deliver a real link going down and up to the right subscriber, and
// Watch returns promptly on cancellation with every channel closed.

import (
	"context"
	"fmt"
	"os"
	"os/exec"
	"strings"
	"sync"
	"testing"
	"time"

	"github.com/jsimonetti/rtnetlink"
	"github.com/mdlayher/corerad/internal/verifh"
	"github.com/mdlayher/netlink"
	"golang.org/x/sys/unix"
)

func c19Sh(arg ...string) error {
	bin, err := exec.LookPath("ip")
	if err != nil {
		return err
	}
	out, err := exec.Command(bin, arg...).CombinedOutput()
	if err != nil {
		return fmt.Errorf("ip %v: %v: %s", arg, err, strings.TrimSpace(string(out)))
	}
	return nil
}

func TestVerifC19RealOS(t *testing.T) {
	out := verifh.Open()
	defer out.Close()
	if only := os.Getenv("VERIF_ONLY"); only != "" && !strings.HasPrefix(only, "c19real") {
		return
	}
	unavailable := func(why string) {
		out.Emit(verifh.Case{ID: "c19real", Input: map[string]any{"kind": "c19real"}, Observed: why, Tags: []string{"realos:unavailable"}})
	}
	if os.Geteuid() != 0 {
		unavailable("not root")
		return
	}
	n := os.Getpid() % 50000
	na, nb := fmt.Sprintf("verifw%d", n), fmt.Sprintf("verifx%d", n)
	_ = c19Sh("link", "del", na)
	if err := c19Sh("link", "add", na, "type", "veth", "peer", "name", nb); err != nil {
		unavailable(err.Error())
		return
	}
	defer func() { _ = c19Sh("link", "del", na) }()
	if err := c19Sh("link", "set", "up", na); err != nil {
		unavailable(err.Error())
		return
	}
	_ = c19Sh("link", "set", "up", nb)
	time.Sleep(300 * time.Millisecond)

	// the oracle: an independent rtnetlink socket in the same multicast group, opened before Watch's and read until
	// after it; every link message about the interface, in kernel order, through the operstate table alone
	var (
		omu    sync.Mutex
		oracle []Change
		all    []Change
	)
	oc, oerr := rtnetlink.Dial(&netlink.Config{Groups: unix.RTMGRP_LINK})
	if oerr != nil {
		unavailable("oracle socket: " + oerr.Error())
		return
	}
	defer oc.Close()
	go func() {
		for {
			msgs, _, err := oc.Receive()
			if err != nil {
				return
			}
			for _, m := range msgs {
				if lm, ok := m.(*rtnetlink.LinkMessage); ok && lm.Attributes != nil && lm.Attributes.Name == na {
					if c, ok := operStateChange(lm.Attributes.OperationalState); ok {
						omu.Lock()
						oracle = append(oracle, c)
						omu.Unlock()
					}
				}
			}
		}
	}()

	w := NewWatcher()
	allC := w.Subscribe(na, LinkAny) // drained at once, never full
	go func() {
		for v := range allC {
			omu.Lock()
			all = append(all, v)
			omu.Unlock()
		}
	}()
	downC := w.Subscribe(na, LinkDown)
	anyC := w.Subscribe(na, LinkAny)
	otherC := w.Subscribe("verif-nobody0", LinkAny)
	ctx, cancel := context.WithCancel(context.Background())
	done := make(chan error, 1)
	go func() { done <- w.Watch(ctx) }()
	time.Sleep(300 * time.Millisecond) // the netlink socket is subscribed
	select {
	case err := <-done:
		cancel()
		unavailable(fmt.Sprintf("Watch returned at once: %v", err))
		return
	default:
	}

	omu.Lock()
	baseO, baseA := len(oracle), len(all)
	omu.Unlock()
	var viol []string
	waitFor := func(c <-chan Change, want Change, d time.Duration) (bool, []Change) {
		var seen []Change
		deadline := time.After(d)
		for {
			select {
			case v, ok := <-c:
				if !ok {
					return false, seen
				}
				seen = append(seen, v)
				if v == want {
					return true, seen
				}
			case <-deadline:
				return false, seen
			}
		}
	}
	obs := map[string]any{}
	if err := c19Sh("link", "set", "down", na); err != nil {
		cancel()
		unavailable(err.Error())
		return
	}
	okDown, seenDown := waitFor(downC, LinkDown, 6*time.Second)
	obs["down_subscriber"] = fmt.Sprint(seenDown)
	if !okDown {
		viol = append(viol, fmt.Sprintf("the link went down but the LinkDown subscriber of that interface saw %v within 6 s", seenDown))
	}
	for _, v := range seenDown {
		if v&LinkDown == 0 {
			viol = append(viol, fmt.Sprintf("the LinkDown subscriber received %v, which it did not ask for", v))
		}
	}
	okAny, seenAny := waitFor(anyC, LinkDown, 6*time.Second)
	obs["any_subscriber"] = fmt.Sprint(seenAny)
	if !okAny {
		viol = append(viol, fmt.Sprintf("the LinkAny subscriber saw %v but no LinkDown", seenAny))
	}
	_ = c19Sh("link", "set", "up", na)
	okUp, seenUp := waitFor(anyC, LinkUp, 8*time.Second)
	obs["after_up"] = fmt.Sprint(seenUp)
	if !okUp {
		viol = append(viol, fmt.Sprintf("the link came up again but the LinkAny subscriber saw only %v within 8 s", seenUp))
	}
	select {
	case v, ok := <-otherC:
		viol = append(viol, fmt.Sprintf("the subscriber of another interface received %v (open=%v)", v, ok))
	default:
	}

	// the interface is removed while it is watched; then everything the kernel said about it, and nothing else, has
	// reached the subscriber, each message as the state the kernel reported in it
	_ = c19Sh("link", "del", na)
	time.Sleep(700 * time.Millisecond)
	omu.Lock()
	wantSeq, gotSeq := fmt.Sprint(oracle[baseO:]), fmt.Sprint(all[baseA:])
	omu.Unlock()
	obs["kernel_said"], obs["subscriber_got"] = wantSeq, gotSeq
	if wantSeq != gotSeq {
		viol = append(viol, fmt.Sprintf("link messages about %s (down, up, removal) carried the states %s; a LinkAny subscriber that kept up received %s", na, wantSeq, gotSeq))
	}

	cancel()
	select {
	case err := <-done:
		if err != nil {
			viol = append(viol, fmt.Sprintf("Watch returned %v after cancellation", err))
		}
	case <-time.After(3 * time.Second):
		viol = append(viol, "Watch did not return within 3 s of the cancellation")
	}
	for name, c := range map[string]<-chan Change{"down": downC, "any": anyC, "other": otherC} {
		closed := false
		timeout := time.After(time.Second)
	drain:
		for {
			select {
			case _, ok := <-c:
				if !ok {
					closed = true
					break drain
				}
			case <-timeout:
				break drain
			}
		}
		if !closed && len(viol) == 0 {
			viol = append(viol, "the channel of subscriber "+name+" is not closed after Watch returned")
		}
	}
	out.Emit(verifh.Case{ID: "c19real-watch", Input: map[string]any{"kind": "c19real", "iface": na}, Observed: obs, Tags: []string{"realos:watch"}, ImplViolation: strings.Join(viol, "; ")})
}
