//go:build verif && linux

package netstate

import (
	"context"
	"errors"
	"fmt"
	"runtime"
	"sort"
	"strings"
	"sync"
	"sync/atomic"
	"testing"
	"time"

	"github.com/jsimonetti/rtnetlink"
	"github.com/mdlayher/corerad/internal/verifh"
)

// One scripted operation on a real Watcher.
type c19Ev struct {
	Kind  string              `json:"k"`              // sub | watch | watchfail | notify | drain | end
	Fail  bool                `json:"fail,omitempty"` // end: the watch function returns an error instead of nil
	Iface uint64              `json:"iface,omitempty"`
	Mask  uint64              `json:"mask,omitempty"`
	Set   map[uint64][]uint64 `json:"set,omitempty"` // notify: interface -> changes in order
	I     int                 `json:"i,omitempty"`
	N     int                 `json:"n,omitempty"`
}

type c19Out struct {
	Kind   string   `json:"k"` // watch | drain | end
	Panic  bool     `json:"panic,omitempty"`
	Err    bool     `json:"err,omitempty"` // end: the running Watch call returned a non-nil error
	Vals   []uint64 `json:"vals,omitempty"`
	Closed bool     `json:"closed,omitempty"`
}

func c19Name(i uint64) string { return fmt.Sprintf("vif%d", i) }

const c19Patience = 5 * time.Second

// c19ErrHook is what the injected watch function returns when the script makes it fail (osWatch:
// rtnetlink.Dial failed, Receive failed with something else than the shutdown deadline, not Linux).
var c19ErrHook = errors.New("verif: watch function failed")

// c19Blocked counts runs in which the watcher got stuck; after a few of them the remaining
// scripts are not run (each would cost the full patience again; the verdict is already decided).
var c19Blocked int

// c19Run performs the script on a fresh real Watcher whose watch hook executes the notify
// commands, and returns what every Watch call and every receive burst observed.
func c19Run(evs []c19Ev) (outs []c19Out, trouble string) {
	w := NewWatcher()
	type cmd struct {
		cs  changeSet
		ack chan struct{}
	}
	cmdC := make(chan cmd)
	startedC := make(chan struct{}, 4)
	var failAtStart bool // written before the Watch goroutine starts
	var hookErr error    // written before cmdC is closed
	w.watch = func(_ context.Context, notify func(changeSet)) error {
		fail := failAtStart
		startedC <- struct{}{}
		if fail {
			return c19ErrHook // fails before any event
		}
		for c := range cmdC {
			notify(c.cs)
			close(c.ack)
		}
		return hookErr
	}
	type res struct {
		panicked bool
		err      error
	}
	callWatch := func() chan res {
		rc := make(chan res, 1)
		go func() {
			defer func() {
				if r := recover(); r != nil {
					rc <- res{panicked: true}
				}
			}()
			err := w.Watch(context.Background())
			rc <- res{err: err}
		}()
		return rc
	}
	var running chan res // result channel of the Watch call whose hook is active
	var chans []<-chan Change
	note := func(s string) {
		if trouble == "" {
			trouble = s
		}
	}
	ended := false
	// waitWatch waits for the running Watch call to return and records what it returned
	waitWatch := func(record bool) {
		select {
		case r := <-running:
			if r.panicked {
				note("Watch panicked while closing the subscriber channels")
			} else if r.err != nil && !errors.Is(r.err, c19ErrHook) {
				note("Watch returned an error the hook did not produce")
			} else if record {
				outs = append(outs, c19Out{Kind: "end", Err: r.err != nil})
			}
		case <-time.After(c19Patience):
			note("Watch did not return after the hook returned")
		}
	}
	endWatch := func(fail, record bool) {
		if running == nil || ended {
			return
		}
		ended = true
		if fail {
			hookErr = c19ErrHook
		}
		close(cmdC)
		if strings.Contains(trouble, "blocked") {
			c19Blocked++
			return // the hook goroutine is stuck inside notify: Watch cannot return
		}
		waitWatch(record)
	}
	defer endWatch(false, false)

	for _, e := range evs {
		switch e.Kind {
		case "sub":
			done := make(chan (<-chan Change), 1)
			go func() { done <- w.Subscribe(c19Name(e.Iface), Change(e.Mask)) }()
			select {
			case ch := <-done:
				chans = append(chans, ch)
			case <-time.After(c19Patience):
				note("Subscribe blocked")
				return outs, trouble
			}
		case "watch", "watchfail":
			failAtStart = e.Kind == "watchfail"
			rc := callWatch()
			select {
			case <-startedC:
				if running != nil {
					// a second hook is running: the single-use guard is gone
					outs = append(outs, c19Out{Kind: "watch", Panic: false})
					note("second Watch reached the hook")
					return outs, trouble
				}
				running = rc
				outs = append(outs, c19Out{Kind: "watch", Panic: false})
				if failAtStart {
					// the watch function has already returned its error: this is the end of the watch
					ended = true
					waitWatch(true)
				}
			case r := <-rc:
				outs = append(outs, c19Out{Kind: "watch", Panic: r.panicked})
				if !r.panicked {
					note("Watch returned without running the hook")
				}
			case <-time.After(c19Patience):
				note("Watch neither reached the hook nor returned")
				return outs, trouble
			}
		case "notify":
			cs := changeSet{}
			for k, v := range e.Set {
				for _, c := range v {
					cs[c19Name(k)] = append(cs[c19Name(k)], Change(c))
				}
			}
			c := cmd{cs: cs, ack: make(chan struct{})}
			select {
			case cmdC <- c:
			case <-time.After(c19Patience):
				note("hook not accepting commands")
				return outs, trouble
			}
			select {
			case <-c.ack:
			case <-time.After(c19Patience):
				note("notify blocked the watcher")
				return outs, trouble
			}
		case "drain":
			o := c19Out{Kind: "drain"}
		recv:
			for k := 0; k < e.N; k++ {
				select {
				case v, ok := <-chans[e.I]:
					if !ok {
						o.Closed = true
						break recv
					}
					o.Vals = append(o.Vals, uint64(v))
				default:
					break recv
				}
			}
			outs = append(outs, o)
		case "end":
			endWatch(e.Fail, true)
		}
	}
	return outs, trouble
}

func c19RenderSet(set map[uint64][]uint64, order []uint64) string {
	var items []string
	for _, k := range order {
		var cs []string
		for _, c := range set[k] {
			cs = append(cs, verifh.N(c))
		}
		items = append(items, verifh.Pair(verifh.N(k), verifh.List(cs)))
	}
	return verifh.List(items)
}

func c19Emit(out *verifh.Out, id string, evs []c19Ev, tags []string) {
	if !out.Wants(id) || c19Blocked >= 3 {
		return
	}
	outs, trouble := c19Run(evs)
	var ce []string
	for _, e := range evs {
		switch e.Kind {
		case "sub":
			ce = append(ce, verifh.App("Subscribe", verifh.N(e.Iface), verifh.N(e.Mask)))
		case "watch":
			ce = append(ce, "WatchStart")
		case "watchfail":
			ce = append(ce, "WatchStart", "(EndWatch true)")
		case "notify":
			var keys []uint64
			for k := range e.Set {
				keys = append(keys, k)
			}
			sort.Slice(keys, func(a, b int) bool { return keys[a] < keys[b] })
			ce = append(ce, verifh.App("Notify", c19RenderSet(e.Set, keys)))
		case "drain":
			ce = append(ce, verifh.App("Drain", verifh.Nat(e.I), verifh.Nat(e.N)))
		case "end":
			ce = append(ce, verifh.App("EndWatch", verifh.B(e.Fail)))
		}
	}
	var co []string
	for _, o := range outs {
		if o.Kind == "watch" {
			co = append(co, verifh.App("OWatch", verifh.B(o.Panic)))
		} else if o.Kind == "end" {
			co = append(co, verifh.App("OEnd", verifh.B(o.Err)))
		} else {
			var vs []string
			for _, v := range o.Vals {
				vs = append(vs, verifh.N(v))
			}
			co = append(co, verifh.App("ODrain", verifh.List(vs), verifh.B(o.Closed)))
		}
	}
	c := verifh.Case{
		ID:       id,
		Coq:      verifh.App("CTrace", verifh.List(ce), verifh.List(co), verifh.B(trouble != "")),
		Input:    evs,
		Observed: map[string]any{"outs": outs, "trouble": trouble},
		Tags:     tags,
	}
	out.Emit(c)
}

func c19FinalDrains(nsubs int) []c19Ev {
	var evs []c19Ev
	for i := 0; i < nsubs; i++ {
		evs = append(evs, c19Ev{Kind: "drain", I: i, N: 12})
	}
	return evs
}

var c19States = []uint64{1, 2, 4, 8, 16, 32, 64}

func TestVerifC19(t *testing.T) {
	out := verifh.Open()
	defer out.Close()

	// ---- (1) exhaustive single events: 127 masks x 7 states x interface match / mismatch,
	// each on its own Watcher
	for mask := uint64(1); mask <= 127; mask++ {
		for _, c := range c19States {
			for _, same := range []bool{true, false} {
				ifc := uint64(1)
				if !same {
					ifc = 2
				}
				// the watch ends with nil or with an error, alternating over the table
				fail := (mask+c)%2 == 1 != same
				evs := []c19Ev{
					{Kind: "sub", Iface: 1, Mask: mask}, {Kind: "watch"},
					{Kind: "notify", Set: map[uint64][]uint64{ifc: {c}}},
					{Kind: "drain", I: 0, N: 3}, {Kind: "end", Fail: fail}, {Kind: "drain", I: 0, N: 3},
				}
				hit := "miss"
				if same && mask&c != 0 {
					hit = "hit"
				}
				c19Emit(out, fmt.Sprintf("c19-single-%d-%d-%v", mask, c, same), evs,
					[]string{"stream:single-exhaustive", "single:" + hit, fmt.Sprintf("end-with-error:%v", fail)})
			}
		}
	}
	// all 127 masks subscribed at once (same bucket structure as the daemon: several channels per
	// mask, several masks per interface), one change
	for _, c := range c19States {
		var evs []c19Ev
		n := 0
		for mask := uint64(1); mask <= 127; mask++ {
			evs = append(evs, c19Ev{Kind: "sub", Iface: 1, Mask: mask}, c19Ev{Kind: "sub", Iface: 2, Mask: mask})
			n += 2
			if mask%16 == 0 {
				evs = append(evs, c19Ev{Kind: "sub", Iface: 1, Mask: mask})
				n++
			}
		}
		evs = append(evs, c19Ev{Kind: "watch"}, c19Ev{Kind: "notify", Set: map[uint64][]uint64{1: {c}}})
		evs = append(evs, c19FinalDrains(n)...)
		evs = append(evs, c19Ev{Kind: "end"})
		evs = append(evs, c19FinalDrains(n)...)
		c19Emit(out, fmt.Sprintf("c19-allmasks-%d", c), evs, []string{"stream:all-masks-one-watcher"})
	}

	// ---- (2) slow subscribers around the 8-slot boundary: k matching changes, never drained
	// until the end; delivered in one notify call, one per call, or split over interfaces
	for k := 0; k <= 30; k++ {
		for _, shape := range []string{"one-call", "one-per-call", "end-before-drain", "fail-before-drain"} {
			evs := []c19Ev{{Kind: "sub", Iface: 1, Mask: 127}, {Kind: "sub", Iface: 1, Mask: 2}, {Kind: "watch"}}
			var all []uint64
			for j := 0; j < k; j++ {
				all = append(all, c19States[j%7])
			}
			if shape == "one-call" {
				evs = append(evs, c19Ev{Kind: "notify", Set: map[uint64][]uint64{1: all, 2: {2, 2}}})
			} else {
				for _, c := range all {
					evs = append(evs, c19Ev{Kind: "notify", Set: map[uint64][]uint64{1: {c}}})
				}
			}
			if shape == "end-before-drain" {
				evs = append(evs, c19Ev{Kind: "end"})
			}
			if shape == "fail-before-drain" { // the watch function fails with changes still buffered
				evs = append(evs, c19Ev{Kind: "end", Fail: true})
			}
			evs = append(evs, c19Ev{Kind: "drain", I: 0, N: 5}, c19Ev{Kind: "drain", I: 0, N: 5}, c19Ev{Kind: "drain", I: 1, N: 12})
			evs = append(evs, c19Ev{Kind: "end"})
			evs = append(evs, c19FinalDrains(2)...)
			c19Emit(out, fmt.Sprintf("c19-slow-%d-%s", k, shape), evs,
				[]string{"stream:slow-subscriber", fmt.Sprintf("undrained:%d", k), "shape:" + shape})
		}
	}

	// ---- (3) scripted corner cases
	corner := map[string][]c19Ev{
		"watch-twice": {{Kind: "sub", Iface: 1, Mask: 2}, {Kind: "watch"}, {Kind: "watch"},
			{Kind: "notify", Set: map[uint64][]uint64{1: {2}}}, {Kind: "drain", I: 0, N: 2}, {Kind: "end"}, {Kind: "drain", I: 0, N: 2}},
		"watch-after-end": {{Kind: "sub", Iface: 1, Mask: 2}, {Kind: "watch"}, {Kind: "end"}, {Kind: "watch"}, {Kind: "drain", I: 0, N: 2}},
		"subscribe-after-end": {{Kind: "sub", Iface: 1, Mask: 127}, {Kind: "watch"}, {Kind: "end"},
			{Kind: "sub", Iface: 1, Mask: 127}, {Kind: "drain", I: 0, N: 1}, {Kind: "drain", I: 1, N: 1}},
		"never-watched": {{Kind: "sub", Iface: 1, Mask: 127}, {Kind: "drain", I: 0, N: 1}},
		// the watch function fails: before any event (at once: unsupported OS, dial failure; or later), after events
		"fail-at-once": {{Kind: "sub", Iface: 1, Mask: 127}, {Kind: "sub", Iface: 2, Mask: 2}, {Kind: "sub", Iface: 1, Mask: 127}, {Kind: "watchfail"},
			{Kind: "drain", I: 0, N: 2}, {Kind: "drain", I: 1, N: 2}, {Kind: "drain", I: 2, N: 2}},
		"fail-at-once-no-subs": {{Kind: "watchfail"}, {Kind: "sub", Iface: 1, Mask: 127}, {Kind: "drain", I: 0, N: 2}},
		"fail-before-any-event": {{Kind: "sub", Iface: 1, Mask: 127}, {Kind: "sub", Iface: 2, Mask: 2}, {Kind: "watch"}, {Kind: "drain", I: 0, N: 2},
			{Kind: "end", Fail: true}, {Kind: "drain", I: 0, N: 2}, {Kind: "drain", I: 1, N: 2}},
		"fail-after-events": {{Kind: "sub", Iface: 1, Mask: 127}, {Kind: "sub", Iface: 1, Mask: 2}, {Kind: "sub", Iface: 2, Mask: 127}, {Kind: "watch"},
			{Kind: "notify", Set: map[uint64][]uint64{1: {2, 1, 2}}}, {Kind: "drain", I: 0, N: 1}, {Kind: "end", Fail: true},
			{Kind: "drain", I: 0, N: 4}, {Kind: "drain", I: 1, N: 4}, {Kind: "drain", I: 2, N: 4}},
		"fail-then-watch-again": {{Kind: "sub", Iface: 1, Mask: 2}, {Kind: "watch"}, {Kind: "end", Fail: true}, {Kind: "watch"}, {Kind: "end"}, {Kind: "drain", I: 0, N: 2}},
		"fail-at-once-then-watch-again": {{Kind: "sub", Iface: 1, Mask: 2}, {Kind: "watchfail"}, {Kind: "watchfail"}, {Kind: "sub", Iface: 1, Mask: 2},
			{Kind: "drain", I: 0, N: 2}, {Kind: "drain", I: 1, N: 2}},
		"subscribe-after-failure": {{Kind: "sub", Iface: 1, Mask: 127}, {Kind: "watch"}, {Kind: "end", Fail: true},
			{Kind: "sub", Iface: 1, Mask: 127}, {Kind: "drain", I: 0, N: 1}, {Kind: "drain", I: 1, N: 1}},
		"end-no-subs":      {{Kind: "watch"}, {Kind: "notify", Set: map[uint64][]uint64{1: {1, 2}}}, {Kind: "end"}},
		"empty-notify":     {{Kind: "sub", Iface: 1, Mask: 127}, {Kind: "watch"}, {Kind: "notify", Set: map[uint64][]uint64{}}, {Kind: "notify", Set: map[uint64][]uint64{1: {}}}, {Kind: "drain", I: 0, N: 1}, {Kind: "end"}, {Kind: "drain", I: 0, N: 1}},
		"zero-mask":        {{Kind: "sub", Iface: 1, Mask: 0}, {Kind: "watch"}, {Kind: "notify", Set: map[uint64][]uint64{1: {1, 2, 127}}}, {Kind: "drain", I: 0, N: 4}, {Kind: "end"}, {Kind: "drain", I: 0, N: 4}},
		"zero-change":      {{Kind: "sub", Iface: 1, Mask: 127}, {Kind: "watch"}, {Kind: "notify", Set: map[uint64][]uint64{1: {0, 128, 3, 255}}}, {Kind: "drain", I: 0, N: 4}, {Kind: "end"}, {Kind: "drain", I: 0, N: 4}},
		"wide-mask":        {{Kind: "sub", Iface: 1, Mask: 1<<20 | 2}, {Kind: "watch"}, {Kind: "notify", Set: map[uint64][]uint64{1: {1 << 20, 1, 2}}}, {Kind: "drain", I: 0, N: 4}, {Kind: "end"}, {Kind: "drain", I: 0, N: 4}},
		"same-mask-twice":  {{Kind: "sub", Iface: 1, Mask: 2}, {Kind: "sub", Iface: 1, Mask: 2}, {Kind: "watch"}, {Kind: "notify", Set: map[uint64][]uint64{1: {2, 1, 2}}}, {Kind: "drain", I: 0, N: 4}, {Kind: "drain", I: 1, N: 1}, {Kind: "end"}, {Kind: "drain", I: 0, N: 4}, {Kind: "drain", I: 1, N: 4}},
		"partial-then-end": {{Kind: "sub", Iface: 1, Mask: 127}, {Kind: "watch"}, {Kind: "notify", Set: map[uint64][]uint64{1: {1, 2, 4, 8, 16, 32, 64, 1, 2, 4}}}, {Kind: "drain", I: 0, N: 3}, {Kind: "notify", Set: map[uint64][]uint64{1: {64, 32, 16, 8}}}, {Kind: "end"}, {Kind: "drain", I: 0, N: 8}, {Kind: "drain", I: 0, N: 1}},
	}
	var names []string
	for k := range corner {
		names = append(names, k)
	}
	sort.Strings(names)
	for _, k := range names {
		c19Emit(out, "c19-corner-"+k, corner[k], []string{"stream:corner", "corner:" + k})
	}

	// ---- (4) random histories
	r := verifh.NewRand(verifh.Seed(), "C19")
	n := 700
	if verifh.Thorough() {
		n = 12000
	}
	for i := 0; i < n; i++ {
		id := fmt.Sprintf("c19-rand-%d", i)
		sr := verifh.NewRand(r.Uint64(), id)
		if !out.Wants(id) {
			continue
		}
		evs, tags := c19Random(sr)
		c19Emit(out, id, evs, append(tags, "stream:random"))
	}

	// ---- (5) operStateChange / process
	for code := 0; code < 256; code++ {
		id := fmt.Sprintf("c19-oper-%d", code)
		if !out.Wants(id) {
			continue
		}
		c, ok := operStateChange(rtnetlink.OperationalState(code))
		obs := verifh.None()
		if ok {
			obs = verifh.Some(verifh.N(uint64(c)))
		}
		tag := "oper:unrecognised"
		if ok {
			tag = "oper:recognised"
		}
		out.Emit(verifh.Case{ID: id, Coq: verifh.App("COper", verifh.N(uint64(code)), obs),
			Input: map[string]any{"operstate": code}, Observed: map[string]any{"change": uint64(c), "ok": ok},
			Tags: []string{"stream:operstate", tag}})
	}
	np := 150
	if verifh.Thorough() {
		np = 3000
	}
	pr := verifh.NewRand(verifh.Seed(), "C19-process")
	for i := 0; i < np; i++ {
		id := fmt.Sprintf("c19-process-%d", i)
		sr := verifh.NewRand(pr.Uint64(), id)
		if !out.Wants(id) {
			continue
		}
		var msgs []rtnetlink.Message
		var cm []string
		var in []any
		for k := sr.Intn(12); k > 0; k-- {
			switch {
			case sr.Chance(10):
				msgs = append(msgs, &rtnetlink.AddressMessage{})
				cm = append(cm, verifh.None())
				in = append(in, "address-message")
			case sr.Chance(10):
				msgs = append(msgs, &rtnetlink.LinkMessage{})
				cm = append(cm, verifh.None())
				in = append(in, "nil-attributes")
			default:
				ifc := uint64(1 + sr.Intn(3))
				code := uint64(sr.Intn(8))
				if sr.Chance(8) {
					code = uint64(sr.Intn(256))
				}
				// the kernel's interface index is NOT what a change is attributed to: interfaces get renamed and
				// indices are reused, so the same index appears under different names (and vice versa)
				msgs = append(msgs, &rtnetlink.LinkMessage{Index: uint32(sr.Intn(3)), Attributes: &rtnetlink.LinkAttributes{
					Name: c19Name(ifc), OperationalState: rtnetlink.OperationalState(code)}})
				cm = append(cm, verifh.Some(verifh.Pair(verifh.N(ifc), verifh.N(code))))
				in = append(in, [2]uint64{ifc, code})
			}
		}
		got := process(msgs)
		var obs []string
		obsJ := map[string][]uint64{}
		for ifc := uint64(0); ifc <= 4; ifc++ {
			cs, ok := got[c19Name(ifc)]
			if !ok {
				continue
			}
			var vs []string
			for _, c := range cs {
				vs = append(vs, verifh.N(uint64(c)))
				obsJ[c19Name(ifc)] = append(obsJ[c19Name(ifc)], uint64(c))
			}
			obs = append(obs, verifh.Pair(verifh.N(ifc), verifh.List(vs)))
		}
		viol := ""
		if len(obs) != len(got) {
			viol = "process produced an interface that no message named"
		}
		out.Emit(verifh.Case{ID: id, Coq: verifh.App("CProcess", verifh.List(cm), verifh.List(obs)),
			Input: in, Observed: obsJ, Tags: []string{"stream:process"}, ImplViolation: viol})
	}

	// ---- (5b) Watch entered with a context that is already cancelled (a signal during start-up): every
	// subscriber channel is still closed, exactly once, and Watch returns
	if out.Wants("c19-precancelled") {
		w := NewWatcher()
		w.watch = func(ctx context.Context, notify func(changeSet)) error {
			<-ctx.Done()
			return nil
		}
		a, b := w.Subscribe("vif1", LinkAny), w.Subscribe("vif2", LinkDown)
		ctx, cancel := context.WithCancel(context.Background())
		cancel()
		done := make(chan error, 1)
		go func() { done <- w.Watch(ctx) }()
		viol := ""
		select {
		case err := <-done:
			if err != nil {
				viol = fmt.Sprintf("Watch with a cancelled context returned %v", err)
			}
		case <-time.After(5 * time.Second):
			viol = "Watch with a cancelled context did not return within 5 s"
		}
		if viol == "" {
			for name, c := range map[string]<-chan Change{"vif1": a, "vif2": b} {
				select {
				case _, ok := <-c:
					if ok {
						viol = "subscriber " + name + " received a change although nothing happened"
					}
				case <-time.After(2 * time.Second):
					viol = "the channel of subscriber " + name + " was not closed when watching ended (context cancelled before Watch was entered)"
				}
			}
		}
		out.Emit(verifh.Case{ID: "c19-precancelled", Input: map[string]any{"kind": "precancelled"}, Tags: []string{"stream:precancelled"}, ImplViolation: viol})
	}

	// ---- (6) Subscribe concurrent with a running notify (no race detector needed): LAST, so that every other
	// case has been written should the runtime abort the binary ("concurrent map writes")
	rounds := 2
	if verifh.Thorough() {
		rounds = 10
	}
	for k := 0; k < rounds; k++ {
		id := fmt.Sprintf("c19-stress-%d", k)
		if !out.Wants(id) {
			continue
		}
		viol, stats := c19Stress(verifh.NewRand(verifh.Seed(), id))
		out.Emit(verifh.Case{ID: id, Input: map[string]any{"round": k, "batch_interfaces": c19StressIfaces},
			Observed: stats, Tags: []string{"stream:subscribe-during-notify"}, ImplViolation: viol})
		if viol != "" {
			break // the goroutines of a blocked watcher stay behind; the verdict is decided
		}
	}
}

const c19StressIfaces = 256

// c19Stress: the watch hook delivers batches touching 256 interfaces back to back (so the watcher is inside notify
// practically all the time) while four goroutines call Subscribe: two in a tight loop on interface names that
// did not exist before (every call inserts into the watcher's maps), two at a slower pace on interfaces the
// batches touch.  "Notification never blocks the watcher; subscribing concurrently with notification is safe":
// every Subscribe returns, the hook keeps delivering, Watch ends and closes every channel, all within a watchdog
// of real time.  A Subscribe that arrives while notify holds the lock must simply wait for that notify call.
func c19Stress(r *verifh.Rand) (viol string, stats map[string]any) {
	w := NewWatcher()
	// subscribers of the touched interfaces from before the watch: their buffers fill up, the rest is dropped
	var pre []<-chan Change
	batch := changeSet{}
	for i := 0; i < c19StressIfaces; i++ {
		name := fmt.Sprintf("vs%d", i)
		batch[name] = []Change{Change(verifh.Pick(r, c19States))}
		if i%4 == 0 {
			pre = append(pre, w.Subscribe(name, Change(127)))
		}
	}
	var (
		subsDone            = make(chan struct{})
		hookDone            = make(chan struct{})
		watchDone           = make(chan struct{})
		roundsN, subscribed atomic.Int64
		wg                  sync.WaitGroup
		mu                  sync.Mutex
		during              []<-chan Change
	)
	w.watch = func(_ context.Context, notify func(changeSet)) error {
		defer close(hookDone)
		for i := 0; ; i++ {
			if i >= 50 {
				select {
				case <-subsDone:
					return nil
				default:
				}
			}
			notify(batch)
			roundsN.Add(1)
			runtime.Gosched()
		}
	}
	go func() {
		defer close(watchDone)
		_ = w.Watch(context.Background())
	}()
	for g := 0; g < 4; g++ {
		wg.Add(1)
		go func(g int) {
			defer wg.Done()
			n := 3000
			if g >= 2 {
				n = 150
			}
			for i := 0; i < n; i++ {
				if g < 2 {
					w.Subscribe(fmt.Sprintf("quiet%d-%d", g, i), Change(1+i%127))
					runtime.Gosched()
				} else {
					ch := w.Subscribe(fmt.Sprintf("vs%d", (i*7+g)%c19StressIfaces), Change(127))
					mu.Lock()
					during = append(during, ch)
					mu.Unlock()
					time.Sleep(10 * time.Microsecond)
				}
				subscribed.Add(1)
			}
		}(g)
	}
	go func() { wg.Wait(); close(subsDone) }()

	watchdog := time.After(c19Patience)
	stats = map[string]any{}
	fill := func() {
		stats["notify_rounds"], stats["subscribe_calls_returned"] = roundsN.Load(), subscribed.Load()
	}
	for _, step := range []struct {
		c    <-chan struct{}
		what string
	}{
		{subsDone, "Subscribe did not return while the watcher was delivering notifications (watcher and subscribers blocked)"},
		{hookDone, "notify did not return: the watcher is blocked"},
		{watchDone, "Watch did not return after the watch function ended"},
	} {
		select {
		case <-step.c:
		case <-watchdog:
			fill()
			return fmt.Sprintf("%s after %d notify rounds and %d Subscribe calls", step.what, roundsN.Load(), subscribed.Load()), stats
		}
	}
	fill()
	mu.Lock()
	all := append(append([]<-chan Change{}, pre...), during...)
	mu.Unlock()
	for _, ch := range all {
		n := 0
		for {
			var (
				v  Change
				ok bool
			)
			select {
			case v, ok = <-ch:
			case <-watchdog:
				return "a channel subscribed before the end of the watch was never closed", stats
			}
			if !ok {
				break
			}
			if n++; n > 8 {
				return "more than 8 buffered changes", stats
			}
			if v == 0 || v&(v-1) != 0 || v > 64 {
				return fmt.Sprintf("a subscriber received the value %d, which no batch contained", v), stats
			}
		}
	}
	return "", stats
}

// c19Random builds one random history: a few interfaces and subscribers (some subscribing in
// the middle or after the end), bursts of changes, receive bursts of random size, subscribers
// that never receive before the end.
func c19Random(r *verifh.Rand) ([]c19Ev, []string) {
	nif := uint64(1 + r.Intn(3))
	masks := []uint64{2, 127, 1, 4, 8, 16, 32, 64, 3, 66, 126, 0, 125}
	pickMask := func() uint64 {
		if r.Chance(50) {
			return verifh.Pick(r, masks)
		}
		return uint64(r.Intn(128))
	}
	var evs []c19Ev
	nsubs := 0
	sub := func() {
		evs = append(evs, c19Ev{Kind: "sub", Iface: 1 + uint64(r.Intn(int(nif))), Mask: pickMask()})
		nsubs++
	}
	for k := r.Intn(4); k > 0; k-- {
		sub()
	}
	evs = append(evs, c19Ev{Kind: "watch"})
	lazy := r.Chance(35) // nobody receives before the end
	steps := 1 + r.Intn(14)
	undrained := 0
	for s := 0; s < steps; s++ {
		switch x := r.Intn(100); {
		case x < 12 && nsubs < 7:
			sub()
		case x < 70:
			set := map[uint64][]uint64{}
			for k := 1 + r.Intn(int(nif)); k > 0; k-- {
				ifc := 1 + uint64(r.Intn(int(nif)+1)) // may name an interface nobody watches
				var cs []uint64
				for j := r.Intn(7); j > 0; j-- {
					if r.Chance(92) {
						cs = append(cs, verifh.Pick(r, c19States))
					} else {
						cs = append(cs, uint64(r.Intn(130)))
					}
				}
				set[ifc] = cs
				undrained += len(cs)
			}
			evs = append(evs, c19Ev{Kind: "notify", Set: set})
		case x < 97:
			if nsubs > 0 && !lazy {
				evs = append(evs, c19Ev{Kind: "drain", I: r.Intn(nsubs), N: r.Intn(11)})
			}
		default:
			evs = append(evs, c19Ev{Kind: "watch"})
		}
	}
	tags := []string{fmt.Sprintf("subs:%d", nsubs)}
	if lazy {
		tags = append(tags, "lazy-subscribers")
	}
	switch x := r.Intn(100); {
	case x < 70:
		// the watch function returns nil (context cancelled) or fails (40%)
		fail := x%5 < 2
		evs = append(evs, c19Ev{Kind: "end", Fail: fail})
		if r.Chance(30) {
			sub()
			tags = append(tags, "subscribe-after-end")
		}
		tags = append(tags, "ended", fmt.Sprintf("end-with-error:%v", fail))
	default:
		tags = append(tags, "not-ended")
	}
	evs = append(evs, c19FinalDrains(nsubs)...)
	if undrained > 30 {
		undrained = 30
	}
	tags = append(tags, fmt.Sprintf("changes:%d", undrained/5*5))
	return evs, tags
}

// TestVerifC19Race: Subscribe / notify / end of watch / receives from concurrent goroutines on
// the real Watcher; run with -race in the thorough tier.  Implementation-only: the assertions
// are "no panic, every pre-end channel is eventually closed, nothing blocks".
func TestVerifC19Race(t *testing.T) {
	out := verifh.Open()
	defer out.Close()
	rounds := 40
	if verifh.Thorough() {
		rounds = 400
	}
	r := verifh.NewRand(verifh.Seed(), "C19-race")
	for round := 0; round < rounds; round++ {
		id := fmt.Sprintf("c19-race-%d", round)
		if !out.Wants(id) {
			continue
		}
		viol := c19RaceRound(r.Uint64())
		out.Emit(verifh.Case{ID: id, Input: map[string]any{"round": round}, Tags: []string{"stream:race"}, ImplViolation: viol})
	}
}

func c19RaceRound(seed uint64) (viol string) {
	w := NewWatcher()
	stop := make(chan struct{})
	hookDone := make(chan struct{})
	w.watch = func(_ context.Context, notify func(changeSet)) error {
		defer close(hookDone)
		r := verifh.NewRand(seed, "hook")
		for i := 0; ; i++ {
			select {
			case <-stop:
				if seed%2 == 1 {
					return c19ErrHook // the channels must be closed all the same
				}
				return nil
			default:
			}
			notify(changeSet{c19Name(uint64(1 + r.Intn(2))): {Change(verifh.Pick(r, c19States)), LinkDown}})
		}
	}
	var mu sync.Mutex
	var pre []<-chan Change
	var wg sync.WaitGroup
	fail := func(s string) {
		mu.Lock()
		if viol == "" {
			viol = s
		}
		mu.Unlock()
	}
	watchDone := make(chan struct{})
	go func() {
		defer close(watchDone)
		defer func() {
			if r := recover(); r != nil {
				fail(fmt.Sprintf("Watch panicked: %v", r))
			}
		}()
		_ = w.Watch(context.Background())
	}()
	for g := 0; g < 4; g++ {
		wg.Add(1)
		go func(g int) {
			defer wg.Done()
			r := verifh.NewRand(seed, fmt.Sprintf("sub%d", g))
			for i := 0; i < 20; i++ {
				select {
				case <-stop:
					return
				default:
				}
				ch := w.Subscribe(c19Name(uint64(1+r.Intn(2))), Change(1+r.Intn(127)))
				mu.Lock()
				pre = append(pre, ch)
				mu.Unlock()
				if r.Chance(50) {
					select {
					case <-ch:
					default:
					}
				}
			}
		}(g)
	}
	time.Sleep(time.Duration(1+seed%3) * time.Millisecond)
	// subscribers finish first so that "subscribed before the end" is well defined
	wg.Wait()
	close(stop)
	select {
	case <-watchDone:
	case <-time.After(c19Patience):
		return "Watch did not return"
	}
	<-hookDone
	for _, ch := range pre {
		n := 0
		for {
			select {
			case _, ok := <-ch:
				if ok {
					n++
					if n > 8 {
						return "more than 8 buffered changes"
					}
					continue
				}
			case <-time.After(c19Patience):
				return "a channel subscribed before the end was never closed"
			}
			break
		}
	}
	return viol
}
