//go:build verif

package netstate

// Overlay-only seam (staged copy, never /repo): lets a driver of another package deliver one link
// change through the Watcher's real notify path, to check how the server wired its subscriptions.
func (w *Watcher) VerifNotify(iface string, c Change) { w.notify(changeSet{iface: {c}}) }
