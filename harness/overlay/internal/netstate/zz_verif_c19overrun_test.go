//go:build verif && linux

package netstate

// C19, the end of a watch that was not asked for: the watcher's own rtnetlink socket overruns (ENOBUFS: link events
// arrive faster than they are read -- the process was stopped or starved for a moment).  The receive loop cannot
// go on; Watch must return that error promptly and close every subscriber's channel (the tasks then fail and the
// supervisor restarts the daemon), not sit there deaf.  Real kernel, private veth pair (root only).

import (
	"context"
	"fmt"
	"os"
	"testing"
	"time"

	"github.com/jsimonetti/rtnetlink"
	"github.com/mdlayher/corerad/internal/verifh"
	"golang.org/x/sys/unix"
)

func TestVerifC19Overrun(t *testing.T) {
	out := verifh.Open()
	defer out.Close()
	if !out.Wants("c19real-overrun") {
		return
	}
	c := verifh.Case{ID: "c19real-overrun", Input: map[string]any{"kind": "c19real-overrun"}, Tags: []string{"realos:overrun"}}
	unavailable := func(why string) {
		c.Tags = []string{"realos:unavailable"}
		c.Observed = why
		out.Emit(c)
	}
	if os.Geteuid() != 0 {
		unavailable("not root")
		return
	}
	n := os.Getpid() % 50000
	na, nb := fmt.Sprintf("verifo%d", n), fmt.Sprintf("verifq%d", n)
	_ = c19Sh("link", "del", na)
	if err := c19Sh("link", "add", na, "type", "veth", "peer", "name", nb); err != nil {
		unavailable(err.Error())
		return
	}
	defer func() { _ = c19Sh("link", "del", na) }()
	_ = c19Sh("link", "set", "up", nb)
	rc, err := rtnetlink.Dial(nil)
	if err != nil {
		unavailable(err.Error())
		return
	}
	defer rc.Close()
	lm, err := func() (rtnetlink.LinkMessage, error) {
		links, err := rc.Link.List()
		for _, l := range links {
			if l.Attributes != nil && l.Attributes.Name == na {
				return l, nil
			}
		}
		return rtnetlink.LinkMessage{}, fmt.Errorf("link not found: %v", err)
	}()
	if err != nil {
		unavailable(err.Error())
		return
	}

	w := NewWatcher()
	ch := w.Subscribe(na, LinkAny)
	ctx, cancel := context.WithCancel(context.Background())
	defer cancel()
	done := make(chan error, 1)
	go func() { done <- w.Watch(ctx) }()
	time.Sleep(300 * time.Millisecond)

	// the watcher stalls (as if the process did not run): notify cannot take the lock
	w.mu.Lock()
	flaps := 0
	for i := 0; i < 2500; i++ {
		flags := uint32(0)
		if i%2 == 1 {
			flags = unix.IFF_UP
		}
		if err := rc.Link.Set(&rtnetlink.LinkMessage{Family: unix.AF_UNSPEC, Index: lm.Index, Flags: flags, Change: unix.IFF_UP}); err == nil {
			flaps++
		}
	}
	w.mu.Unlock()
	var werr error
	returned := false
	select {
	case werr = <-done:
		returned = true
	case <-time.After(6 * time.Second):
	}
	// drained and closed?
	closed := false
	deadline := time.After(2 * time.Second)
drain:
	for {
		select {
		case _, ok := <-ch:
			if !ok {
				closed = true
				break drain
			}
		case <-deadline:
			break drain
		}
	}
	c.Observed = map[string]any{"flaps": flaps, "watch_returned": returned, "watch_error": fmt.Sprint(werr), "channel_closed": closed}
	switch {
	case returned && werr == nil:
		// no overrun was provoked (large socket buffers): nothing to assert about the error path
		c.Tags = append(c.Tags, "overrun:not-provoked")
	case !returned:
		// either the socket never overran (the watcher is still healthy) or it overran and Watch hangs: tell them apart
		// by what a healthy watcher does -- it delivers the next change
		_ = rc.Link.Set(&rtnetlink.LinkMessage{Family: unix.AF_UNSPEC, Index: lm.Index, Flags: 0, Change: unix.IFF_UP})
		_ = rc.Link.Set(&rtnetlink.LinkMessage{Family: unix.AF_UNSPEC, Index: lm.Index, Flags: unix.IFF_UP, Change: unix.IFF_UP})
		select {
		case _, ok := <-ch:
			if ok {
				c.Tags = append(c.Tags, "overrun:not-provoked")
			}
		case <-time.After(3 * time.Second):
			c.ImplViolation = fmt.Sprintf("after %d link changes arrived while the watcher was stalled, Watch neither returned within 6 s nor delivers further changes: it sits on a dead socket with every subscriber's channel open", flaps)
		}
	case !closed:
		c.ImplViolation = fmt.Sprintf("Watch returned %v but the subscriber's channel is not closed", werr)
	default:
		c.Tags = append(c.Tags, "overrun:provoked")
	}
	out.Emit(c)
}
