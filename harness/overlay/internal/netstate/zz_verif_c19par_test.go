//go:build verif

package netstate

// C19 with the consumer really running beside notify (no virtual clock): only events that do not FIT are
// dropped.  notify never blocks and never yields, so a consumer can free a slot in the middle of one
// changeSet only when it runs on another processor; every scripted run delivers a changeSet at call
// granularity.  The oracle is exact: once the consumer has taken an event out of a full buffer, the
// buffer has room, and -- the batch going on for milliseconds more -- a later event of that batch must
// have been put into it.

import (
	"context"
	"fmt"
	"runtime"
	"sync"
	"sync/atomic"
	"testing"
	"time"

	"github.com/mdlayher/corerad/internal/verifh"
)

func TestVerifC19Parallel(t *testing.T) {
	out := verifh.Open()
	defer out.Close()
	if out.Wants("c19-parallel") {
		c19ParallelConsumer(out)
	}
	c19ParallelSubscribe(out)
}

func c19ParallelConsumer(out *verifh.Out) {
	c := verifh.Case{ID: "c19-parallel", Input: map[string]any{"kind": "parallel-consumer"}, Tags: []string{"stream:parallel-consumer"}}
	if runtime.GOMAXPROCS(0) < 2 {
		c.Tags = append(c.Tags, "parallel:unavailable")
		out.Emit(c)
		return
	}
	n := 1 << 21
	batch := make([]Change, n)
	for i := range batch {
		batch[i] = LinkDown
		if i%2 == 1 {
			batch[i] = LinkUp
		}
	}
	conclusive := 0
	var obs []string
	for attempt := 0; attempt < 12 && conclusive < 3 && c.ImplViolation == ""; attempt++ {
		w := NewWatcher()
		ch := w.Subscribe("v0", LinkAny)
		other := w.Subscribe("v0", LinkUp) // a second subscriber that never reads
		var got atomic.Int64
		var firstRecv atomic.Int64 // ns since start, of the first receive
		var ended atomic.Bool
		start := time.Now()
		done := make(chan struct{})
		go func() {
			defer close(done)
			for len(ch) < cap(ch) && !ended.Load() {
				runtime.Gosched()
			}
			for {
				select {
				case <-ch:
					if got.Add(1) == 1 {
						firstRecv.Store(int64(time.Since(start)))
					}
				default:
					if ended.Load() && len(ch) == 0 {
						return
					}
					runtime.Gosched()
				}
			}
		}()
		w.notify(changeSet{"v0": batch})
		end := int64(time.Since(start))
		ended.Store(true)
		<-done
		g, f := got.Load(), firstRecv.Load()
		obs = append(obs, fmt.Sprintf("delivered=%d first-receive=%.2fms batch-end=%.2fms", g, float64(f)/1e6, float64(end)/1e6))
		if len(other) != cap(other) {
			c.ImplViolation = fmt.Sprintf("a subscriber that never reads holds %d events after a batch of %d, want its full buffer of %d", len(other), n, cap(other))
		}
		// conclusive when the consumer's first receive completed at least 3 ms before the batch ended
		if g >= 1 && f > 0 && end-f > int64(3*time.Millisecond) {
			conclusive++
			if g <= int64(cap(ch)) {
				c.ImplViolation = fmt.Sprintf("the subscriber took an event out of its full buffer %.1f ms before the end of a batch of %d matching changes, yet nothing more was delivered to it: %d events in total (buffer %d); events that fit were dropped",
					float64(end-f)/1e6, n, g, cap(ch))
			}
		}
	}
	c.Observed = obs
	if conclusive == 0 && c.ImplViolation == "" {
		c.Tags = append(c.Tags, "parallel:inconclusive")
	} else {
		c.Tags = append(c.Tags, "parallel:conclusive")
	}
	out.Emit(c)
}

func c19ParallelSubscribe(out *verifh.Out) {
	// ---- first subscriptions for one and the same interface made at the same moment by several goroutines (tasks
	// starting side by side): every one of them receives the next change and sees its channel closed at the end
	if out.Wants("c19-parallel-subscribe") {
		var viol string
		rounds := 3000
		if verifh.Thorough() {
			rounds = 30000
		}
		for r := 0; r < rounds && viol == ""; r++ {
			w := NewWatcher()
			const k = 8
			chans := make([]<-chan Change, k)
			start := make(chan struct{})
			var wg sync.WaitGroup
			for i := 0; i < k; i++ {
				wg.Add(1)
				go func(i int) {
					defer wg.Done()
					<-start
					chans[i] = w.Subscribe("fresh0", LinkAny)
				}(i)
			}
			close(start)
			wg.Wait()
			w.notify(changeSet{"fresh0": []Change{LinkDown}})
			for i, ch := range chans {
				select {
				case v := <-ch:
					if v != LinkDown {
						viol = fmt.Sprintf("round %d: subscriber %d received %v, want link down", r, i, v)
					}
				default:
					viol = fmt.Sprintf("round %d: subscriber %d of %d that subscribed to a new interface at the same moment received nothing", r, i, k)
				}
			}
			ctx, cancel := context.WithCancel(context.Background())
			cancel()
			w.watch = func(ctx context.Context, _ func(changeSet)) error { <-ctx.Done(); return nil }
			_ = w.Watch(ctx)
			for i, ch := range chans {
				select {
				case _, ok := <-ch:
					if ok && viol == "" {
						viol = fmt.Sprintf("round %d: subscriber %d received a second value", r, i)
					}
				default:
					if viol == "" {
						viol = fmt.Sprintf("round %d: the channel of subscriber %d is not closed after the end of the watch", r, i)
					}
				}
			}
		}
		out.Emit(verifh.Case{ID: "c19-parallel-subscribe", Input: map[string]any{"kind": "parallel-subscribe", "rounds": rounds},
			Observed: "ok", Tags: []string{"stream:parallel-subscribe"}, ImplViolation: viol})
	}
}
