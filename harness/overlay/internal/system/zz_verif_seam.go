//go:build verif

package system

// Seam for the C11 verification driver.  props/C11.py (stage_hook) rewrites, in the STAGED copy
// of dialer.go only, the three call sites inside Dialer.dial -- lookupInterface(, checkInterface(,
// dialNDP( -- to the package variables below.  They default to the real functions, so the
// rewritten dial() behaves exactly like the original unless a driver replaces them.  /repo is
// never modified.

import (
	"net"
	"net/netip"
)

// verifNDPConn is what dial() needs from the value returned by dialNDP: the system.Conn methods
// handed to the caller plus LeaveGroup / Close used by the done closure.  *ndp.Conn satisfies it.
type verifNDPConn interface {
	Conn
	LeaveGroup(group netip.Addr) error
	Close() error
}

var (
	verifLookupInterface = lookupInterface
	verifCheckInterface  = checkInterface
	verifDialNDP         = func(ifi *net.Interface) (verifNDPConn, netip.Addr, error) {
		c, ip, err := dialNDP(ifi)
		if err != nil {
			return nil, netip.Addr{}, err
		}
		return c, ip, nil
	}
)
