//go:build verif && go1.25

package system

// Verification driver for the operating-system State (state.go, interface_linux.go) that C04 (the
// forwarding flag read at every RA generation) and C11 (the autoconf sysctl and the error classes
// Dialer.setAutoconf tolerates) take as an input elsewhere: the real NewState() on this host.

import (
	"errors"
	"fmt"
	"net"
	"os"
	"os/exec"
	"path/filepath"
	"runtime"
	"strings"
	"sync"
	"sync/atomic"
	"syscall"
	"testing"
	"time"

	"github.com/mdlayher/corerad/internal/verifh"
)

func TestVerifState(t *testing.T) {
	out := verifh.Open()
	defer out.Close()
	dir := t.TempDir()

	// concurrent readers of different files (the one State is shared by every advertiser, the metrics
	// scrape, the debug API and the dialers): no reader may see another file's value
	if out.Wants("state-sysctl-concurrent") {
		p0, p1 := filepath.Join(dir, "conc0"), filepath.Join(dir, "conc1")
		if err := os.WriteFile(p0, []byte("0\n"), 0o644); err != nil {
			t.Fatal(err)
		}
		if err := os.WriteFile(p1, []byte("1\n"), 0o644); err != nil {
			t.Fatal(err)
		}
		rounds := 4000
		if verifh.Thorough() {
			rounds = 40000
		}
		var wrong atomic.Int64
		var wg sync.WaitGroup
		for g := 0; g < 8; g++ {
			wg.Add(1)
			go func(g int) {
				defer wg.Done()
				p, want := p0, false
				if g%2 == 1 {
					p, want = p1, true
				}
				for i := 0; i < rounds; i++ {
					got, err := sysctlBool(p)
					if err != nil || got != want {
						wrong.Add(1)
					}
				}
			}(g)
		}
		wg.Wait()
		if n := wrong.Load(); n != 0 {
			out.Emit(verifh.Case{ID: "state-sysctl-concurrent", ImplViolation: fmt.Sprintf("%d of %d concurrent sysctlBool reads of two files returned the wrong value", n, 8*rounds),
				Input: map[string]any{"kind": "sysctl-concurrent"}, Tags: []string{"sysctl-concurrent"}})
		} else {
			out.Emit(verifh.Case{ID: "state-sysctl-concurrent", Input: map[string]any{"kind": "sysctl-concurrent", "reads": 8 * rounds}, Observed: "all correct", Tags: []string{"sysctl-concurrent"}})
		}
	}

	// ---- error classes of the real State for an interface that does not exist: Dialer.setAutoconf and
	// its restore closure recognise "vanished interface" / "permission denied" with errors.Is, so the
	// State must hand the operating system's error through with its class intact
	st := NewState()
	const ghost = "verif-nope0"
	type probe struct {
		name string
		err  error
	}
	_, e1 := st.IPv6Autoconf(ghost)
	_, e2 := st.IPv6Forwarding(ghost)
	probes := []probe{{"IPv6Autoconf", e1}, {"IPv6Forwarding", e2},
		{"SetIPv6Autoconf(false)", st.SetIPv6Autoconf(ghost, false)}, {"SetIPv6Autoconf(true)", st.SetIPv6Autoconf(ghost, true)}}
	for k, p := range probes {
		id := fmt.Sprintf("state-ghost-%d", k)
		if !out.Wants(id) {
			continue
		}
		c := verifh.Case{ID: id, Input: map[string]any{"kind": "state-ghost", "call": p.name, "iface": ghost}, Observed: fmt.Sprint(p.err), Tags: []string{"state-ghost"}}
		if !errors.Is(p.err, os.ErrNotExist) {
			c.ImplViolation = fmt.Sprintf("State.%s on an interface that does not exist: want an error matching os.ErrNotExist, got %v", p.name, p.err)
		}
		out.Emit(c)
	}

	// ---- per-interface semantics in a private network namespace (root only): the forwarding state of an
	// interface is ITS sysctl, whatever conf/all says, in both directions
	// ---- a read that starts after a flip sees the flip, also while an earlier read of the same file is still in
	// progress (RA builds of send workers, scrapes and API requests overlap in real time): the real State through
	// its public methods, the sysctl file replaced by a FIFO that plays a slow read of the old value
	for _, which := range []string{"forwarding", "autoconf"} {
		id := "state-linearizable-" + which
		if !out.Wants(id) {
			continue
		}
		c := verifh.Case{ID: id, Input: map[string]any{"kind": "sysctl-linearizable", "sysctl": which}, Tags: []string{"sysctl-linearizable"}}
		dir := t.TempDir()
		file := filepath.Join(dir, which)
		iface := "../../../../../../../.." + dir // sysctl() joins and cleans the path: the reads go to our directory
		read := func(st State) (bool, error) {
			if which == "forwarding" {
				return st.IPv6Forwarding(iface)
			}
			return st.IPv6Autoconf(iface)
		}
		st := NewState()
		if err := syscall.Mkfifo(file, 0o600); err != nil {
			c.Tags = append(c.Tags, "fifo:unavailable")
			out.Emit(c)
			continue
		}
		type res struct {
			v   bool
			err error
		}
		aC, bC := make(chan res, 1), make(chan res, 1)
		go func() { v, err := read(st); aC <- res{v, err} }()
		wf, err := os.OpenFile(file, os.O_WRONLY, 0) // returns once reader A has the FIFO open
		if err != nil {
			c.Tags = append(c.Tags, "fifo:unavailable")
			out.Emit(c)
			continue
		}
		_, _ = wf.Write([]byte("1\n")) // A has the old value but not yet the end of the file
		time.Sleep(20 * time.Millisecond)
		// the flip
		_ = os.WriteFile(file+".new", []byte("0\n"), 0o600)
		_ = os.Rename(file+".new", file)
		go func() { v, err := read(NewState()); bC <- res{v, err} }() // B starts after the flip
		select {
		case b := <-bC:
			if b.err != nil {
				c.Tags = append(c.Tags, "fifo:unavailable")
				c.Observed = b.err.Error()
			} else if b.v {
				c.ImplViolation = "a read of " + which + " that began after the value was switched to 0 returned 1"
			}
		case <-time.After(3 * time.Second):
			c.ImplViolation = "a read of " + which + " that began after the flip did not complete while an earlier read of the same file was still in progress"
		}
		wf.Close()
		select {
		case <-aC:
		case <-time.After(3 * time.Second):
		}
		if c.ImplViolation != "" {
			select {
			case b := <-bC:
				if b.v {
					c.ImplViolation += "; it was handed the earlier read's result: 1, although the value was 0 from before its start"
				}
			case <-time.After(time.Second):
			}
		}
		out.Emit(c)
	}

	if out.Wants("state-netns") {
		c := verifh.Case{ID: "state-netns", Input: map[string]any{"kind": "state-netns"}, Tags: []string{"state-netns"}}
		res := make(chan string, 1)
		go func() {
			// this thread moves into a new network namespace and is thrown away with the goroutine
			runtime.LockOSThread()
			if err := syscall.Unshare(syscall.CLONE_NEWNET); err != nil {
				res <- "unavailable: " + err.Error()
				return
			}
			w := func(ifn, v string) error {
				return os.WriteFile(filepath.Join("/proc/sys/net/ipv6/conf", ifn, "forwarding"), []byte(v), 0o644)
			}
			var bad []string
			for _, tc := range []struct{ all, lo string }{{"1", "0"}, {"0", "1"}, {"1", "1"}, {"0", "0"}} {
				// writing conf/all also rewrites every interface: set it first, then the interface
				if err := w("all", tc.all); err != nil {
					res <- "unavailable: " + err.Error()
					return
				}
				if err := w("lo", tc.lo); err != nil {
					res <- "unavailable: " + err.Error()
					return
				}
				got, err := NewState().IPv6Forwarding("lo")
				if err != nil {
					bad = append(bad, fmt.Sprintf("all=%s lo=%s: %v", tc.all, tc.lo, err))
				} else if got != (tc.lo == "1") {
					bad = append(bad, fmt.Sprintf("conf/all/forwarding=%s conf/lo/forwarding=%s: IPv6Forwarding(lo) = %v", tc.all, tc.lo, got))
				}
			}
			// only the interface's own `forwarding` / `autoconf` files decide: every other switch of the interface (and of
			// conf/all, conf/default) that reads 0 is set to 1 in turn while forwarding is 0 -- force_forwarding, proxy_ndp,
			// accept_ra ... -- and the answer stays "not forwarding"
			_ = w("all", "0")
			_ = w("lo", "0")
			for _, dir := range []string{"lo", "all", "default"} {
				ents, _ := os.ReadDir(filepath.Join("/proc/sys/net/ipv6/conf", dir))
				for _, e := range ents {
					if (e.Name() == "forwarding" && dir != "default") || e.Name() == "disable_ipv6" {
						continue // (conf/all/forwarding is covered above: writing it rewrites every interface)
					}
					f := filepath.Join("/proc/sys/net/ipv6/conf", dir, e.Name())
					old, err := os.ReadFile(f)
					if err != nil || string(old) != "0\n" || os.WriteFile(f, []byte("1"), 0o644) != nil {
						continue
					}
					if cur, _ := os.ReadFile(filepath.Join("/proc/sys/net/ipv6/conf/lo/forwarding")); string(cur) == "0\n" {
						if got, err := NewState().IPv6Forwarding("lo"); err != nil || got {
							bad = append(bad, fmt.Sprintf("conf/lo/forwarding=0 and conf/%s/%s=1: IPv6Forwarding(lo) = %v, %v", dir, e.Name(), got, err))
						}
					}
					_ = os.WriteFile(f, []byte("0"), 0o644)
				}
			}
			// a forwarding read that cannot be made (no file descriptor left) right after a flip is an error, never the
			// value read before the flip
			_ = w("lo", "1")
			stx := NewState()
			if on, err := stx.IPv6Forwarding("lo"); err == nil && on {
				_ = w("lo", "0")
				var lim syscall.Rlimit
				if syscall.Getrlimit(syscall.RLIMIT_NOFILE, &lim) == nil {
					zero := lim
					zero.Cur = 0
					if syscall.Setrlimit(syscall.RLIMIT_NOFILE, &zero) == nil {
						got, err := stx.IPv6Forwarding("lo")
						_ = syscall.Setrlimit(syscall.RLIMIT_NOFILE, &lim)
						if err == nil && got {
							bad = append(bad, "forwarding was switched off, the next read could not open the file (RLIMIT_NOFILE 0) and answered: forwarding")
						}
					}
				}
			}
			// an interface index is not an identity: the interface a State was asked about is deleted and another one
			// is created under the same index -- a write for the old NAME fails with "not exist" and touches nobody else
			ip := func(arg ...string) error {
				bin, err := exec.LookPath("ip")
				if err != nil {
					return err
				}
				_, err = exec.Command(bin, arg...).CombinedOutput()
				return err
			}
			if ip("link", "add", "verifsa", "index", "77", "type", "veth", "peer", "name", "verifsap") == nil {
				st := NewState()
				_, _ = st.IPv6Autoconf("verifsa")
				_, _ = st.IPv6Forwarding("verifsa")
				if ip("link", "del", "verifsa") == nil && ip("link", "add", "verifsb", "index", "77", "type", "veth", "peer", "name", "verifsbp") == nil {
					file := "/proc/sys/net/ipv6/conf/verifsb/autoconf"
					if os.WriteFile(file, []byte("0"), 0o644) == nil {
						err := st.SetIPv6Autoconf("verifsa", true)
						after, _ := os.ReadFile(file)
						if !errors.Is(err, os.ErrNotExist) {
							bad = append(bad, fmt.Sprintf("SetIPv6Autoconf for a deleted interface (its index now belongs to another one): want not-exist, got %v", err))
						}
						if string(after) != "0\n" {
							bad = append(bad, fmt.Sprintf("SetIPv6Autoconf for a deleted interface changed the sysctl of the interface that inherited its index: %q", after))
						}
					}
				}
			}
			// a listener that cannot be completed is closed: the socket ndp.Listen opened must not stay behind when the
			// filter, the control-message flags or the group membership cannot be set (here: no option memory for the
			// membership).  "Each connection CoreRAD opens is cleaned up exactly once" -- also the one it never hands out
			if ip("link", "add", "veriflk", "type", "veth", "peer", "name", "veriflp") == nil {
				for _, n := range []string{"veriflk", "veriflp"} {
					_ = os.WriteFile("/proc/sys/net/ipv6/conf/"+n+"/accept_dad", []byte("0"), 0o644)
					_ = ip("link", "set", "up", n)
				}
				var ifi *net.Interface
				for i := 0; i < 50 && ifi == nil; i++ {
					if x, err := net.InterfaceByName("veriflk"); err == nil {
						if c, _, err := dialNDP(x); err == nil {
							_ = c.Close()
							ifi = x
							break
						}
					}
					time.Sleep(100 * time.Millisecond)
				}
				sockets := func() int {
					n := 0
					ents, _ := os.ReadDir("/proc/self/fd")
					for _, e := range ents {
						if l, err := os.Readlink("/proc/self/fd/" + e.Name()); err == nil && strings.HasPrefix(l, "socket:") {
							n++
						}
					}
					return n
				}
				const optmem = "/proc/sys/net/core/optmem_max"
				if old, err := os.ReadFile(optmem); ifi != nil && err == nil && os.WriteFile(optmem, []byte("1"), 0o644) == nil {
					before, fails := sockets(), 0
					for i := 0; i < 8; i++ {
						c, _, err := dialNDP(ifi)
						if err == nil {
							_ = c.Close()
						} else {
							fails++
						}
					}
					after := sockets()
					_ = os.WriteFile(optmem, old, 0o644)
					if fails > 0 && after > before {
						bad = append(bad, fmt.Sprintf("%d dialNDP calls failed after the socket was opened (no option memory for the group membership) and left %d sockets open", fails, after-before))
					}
				}
			}
			// an interface is renamed while a State has been reading it: the old name is gone; asking for it is an error
			// (the caller re-dials), never the value it had when it was last seen
			if ip("link", "add", "verifrn", "type", "veth", "peer", "name", "verifrp") == nil {
				strn := NewState()
				_ = os.WriteFile("/proc/sys/net/ipv6/conf/verifrn/forwarding", []byte("1"), 0o644)
				if on, err := strn.IPv6Forwarding("verifrn"); err == nil && on {
					if ip("link", "set", "verifrn", "name", "verifrx") == nil {
						_ = os.WriteFile("/proc/sys/net/ipv6/conf/verifrx/forwarding", []byte("0"), 0o644)
						if got, err := strn.IPv6Forwarding("verifrn"); err == nil {
							bad = append(bad, fmt.Sprintf("the interface was renamed and its forwarding switched off; IPv6Forwarding under the old name answers %v without an error", got))
						}
						if got, err := strn.IPv6Autoconf("verifrn"); err == nil {
							bad = append(bad, fmt.Sprintf("the interface was renamed; IPv6Autoconf under the old name answers %v without an error", got))
						}
					}
				}
			}
			res <- strings.Join(bad, "; ")
		}()
		r := <-res
		if strings.HasPrefix(r, "unavailable") {
			c.Tags = append(c.Tags, "realos:unavailable")
			c.Observed = r
		} else {
			c.ImplViolation = r
		}
		out.Emit(c)
	}

	// ---- the real State agrees with the sysctl files of this host's interfaces
	if ents, err := os.ReadDir("/proc/sys/net/ipv6/conf"); err == nil {
		n := 0
		for _, e := range ents {
			if n >= 6 || e.Name() == "all" || e.Name() == "default" {
				continue
			}
			n++
			id := "state-host-" + e.Name()
			if !out.Wants(id) {
				continue
			}
			c := verifh.Case{ID: id, Input: map[string]any{"kind": "state-host", "iface": e.Name()}, Tags: []string{"state-host"}}
			for _, key := range []string{"forwarding", "autoconf"} {
				raw, rerr := os.ReadFile(filepath.Join("/proc/sys/net/ipv6/conf", e.Name(), key))
				var got bool
				var gerr error
				if key == "forwarding" {
					got, gerr = st.IPv6Forwarding(e.Name())
				} else {
					got, gerr = st.IPv6Autoconf(e.Name())
				}
				if rerr != nil || gerr != nil {
					continue // the interface went away between the two reads
				}
				if want := string(raw) == "1\n"; got != want {
					c.ImplViolation = fmt.Sprintf("State %s(%s) = %v but the sysctl file holds %q", key, e.Name(), got, raw)
				}
			}
			out.Emit(c)
		}
	}
}
