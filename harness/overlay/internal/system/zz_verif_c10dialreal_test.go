//go:build verif

package system

// C10, back-off in REAL time and under the runtime settings of the shipped binary.  The virtual-clock drivers
// need GODEBUG=asynctimerchan=0 (testing/synctest); the module says `go 1.22`, so the daemon itself runs with the
// old timer-channel semantics (a stale tick survives Reset / Stop).  This driver is built with the default
// toolchain and no GODEBUG override and measures the pauses between dial attempts on the wall clock.

import (
	"context"
	"fmt"
	"io"
	"log"
	"net"
	"net/netip"
	"strings"
	"testing"
	"time"

	"github.com/mdlayher/corerad/internal/verifh"
)

type dvNopConn struct{ Conn }

func TestVerifC10dialReal(t *testing.T) {
	out := verifh.Open()
	defer out.Close()
	if !out.Wants("c10dial-real-backoff") {
		return
	}
	var at []time.Time
	d := NewDialer("verif0", TestState{}, Monitor, log.New(io.Discard, "", 0))
	d.DialFunc = func() (*DialContext, error) {
		at = append(at, time.Now())
		time.Sleep(3 * time.Millisecond) // a real dial takes a moment (netlink lookups, socket set-up)
		if len(at) <= 4 {
			return nil, fmt.Errorf("not yet: %w", ErrLinkNotReady)
		}
		return &DialContext{Conn: dvNopConn{}, Interface: &net.Interface{Name: "verif0"}, IP: netip.MustParseAddr("fe80::1")}, nil
	}
	// the first dial fails -> init retries: waits 0, 250 ms, 500 ms, 750 ms before attempts 2..5
	err := d.Dial(context.Background(), func(ctx context.Context, dctx *DialContext) error { return nil })
	var gaps []time.Duration
	for i := 1; i < len(at); i++ {
		gaps = append(gaps, at[i].Sub(at[i-1]))
	}
	want := []time.Duration{0, 250 * time.Millisecond, 500 * time.Millisecond, 750 * time.Millisecond}
	var viol []string
	if err != nil {
		viol = append(viol, fmt.Sprintf("Dial returned %v", err))
	}
	if len(gaps) != len(want) {
		viol = append(viol, fmt.Sprintf("%d dial attempts, want 5", len(at)))
	} else {
		for i, w := range want {
			// never shorter than the documented pause (a little slack for timer granularity); a generous upper bound
			// because the machine may be busy
			if gaps[i] < w-w/10 || gaps[i] > w+3*time.Second {
				viol = append(viol, fmt.Sprintf("pause before attempt %d was %s, want %s", i+2, gaps[i].Round(time.Millisecond), w))
			}
		}
	}
	out.Emit(verifh.Case{ID: "c10dial-real-backoff", Input: map[string]any{"kind": "real-time-backoff"}, Observed: fmt.Sprint(gaps),
		Tags: []string{"stream:real-time-backoff"}, ImplViolation: strings.Join(viol, "; ")})
}
