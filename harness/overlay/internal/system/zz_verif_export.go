//go:build verif

package system

// Overlay-only seam (staged copy, never /repo): what interface and mode a Dialer was built for.
func (d *Dialer) VerifIfaceMode() (string, DialerMode) { return d.iface, d.mode }
