//go:build verif && go1.25

package system

// Verification driver for C11: the real Dialer.Dial + Dialer.dial (whose three OS entry points
// are package variables in the STAGED copy, see zz_verif_seam.go and props/C11.py) + the real
// setAutoconf and done closure, against a recording State and fake connections.  Observed: the
// call log of State (get/set with values), open/leave/close per connection id, dial attempts,
// task invocations, clean-up results, the final sysctl value and the class of the return value.

import (
	"fmt"
	"testing"
	"time"

	"github.com/mdlayher/corerad/internal/verifh"
)

// outcomes of one real dial(), the C11 alphabet
func dvRealDials(full bool) []dvSteps {
	mk := func(f func(*dvSteps)) dvSteps { s := dvAllOK; f(&s); return s }
	l := []dvSteps{
		dvAllOK,
		mk(func(s *dvSteps) { s.Set = dvSPerm }),
		mk(func(s *dvSteps) { s.Lookup = dvLinkNotReady }),
		mk(func(s *dvSteps) { s.Open = dvSyscall }),
		mk(func(s *dvSteps) { s.Get = dvSOther }),
		mk(func(s *dvSteps) { s.Set = dvSOther }),
		mk(func(s *dvSteps) { s.Set = dvSNotExist; s.Leave, s.Close = false, false }),
	}
	if full {
		l = append(l,
			mk(func(s *dvSteps) { s.Lookup = dvOpaque }),
			mk(func(s *dvSteps) { s.Check = dvLinkNotReady }),
			mk(func(s *dvSteps) { s.Check = dvSyscall }),
			mk(func(s *dvSteps) { s.Open = dvPerm }),
			mk(func(s *dvSteps) { s.Get = dvSPerm; s.Leave = false }),
			mk(func(s *dvSteps) { s.Get = dvSNotExist; s.Close = false }),
		)
	}
	return l
}

func TestVerifC11(t *testing.T) {
	out := verifh.Open()
	defer out.Close()

	// (1) bounded-exhaustive over initial autoconf x mode x per-step outcomes x task outcomes
	depth, full := 4, false
	if verifh.Thorough() {
		depth, full = 6, true
	}
	restoreAlpha := []int{dvSOk, dvSPerm, dvSNotExist, dvSOther}
	alpha := func(monitor bool) dvAlphabet {
		return dvAlphabet{
			maxDepth:   depth,
			maxCases:   80000,
			waitCancel: true,
			dials: func(cancelled bool, at int) []dvDial {
				var l []dvDial
				for i, st := range dvRealDials(full && at < 3) {
					if at >= 4 && i != 0 && i != 2 && i != 4 {
						continue // deep levels: all ok / lookup not ready / get error
					}
					if monitor && (st.Get != dvSOk || st.Set != dvSOk) {
						continue // a monitor never reaches the sysctl steps
					}
					l = append(l, dvDial{Real: true, Steps: st})
					if !cancelled && i < 3 {
						l = append(l, dvDial{Real: true, Steps: st, Cancel: true})
					}
				}
				return l
			},
			tasks: func(cancelled bool, at int) []dvTask {
				var l []dvTask
				for _, r := range []int{dvOK, dvLinkChange, dvSyscall, dvPerm, dvCanceled} {
					for _, rs := range restoreAlpha {
						if monitor && rs != dvSOk {
							continue
						}
						if !full && r == dvSyscall {
							continue // quick: link change stands for the recoverable class
						}
						if at >= 4 && ((r != dvOK && r != dvLinkChange) || (rs != dvSOk && rs != dvSOther && rs != dvSPerm)) {
							continue // deep levels: reduced alphabet
						}
						te := dvDefaultTask
						te.R, te.Restore = r, rs
						l = append(l, te)
						if rs == dvSOk && (r == dvLinkChange || (full && r == dvOK)) {
							bad := te
							bad.Leave, bad.Close = false, false
							l = append(l, bad)
						}
						if !cancelled && (r == dvCanceled || r == dvLinkChange) && (rs == dvSOk || rs == dvSPerm) {
							c1, c2 := te, te
							c1.Cancel = true
							c2.CancelDone = true
							l = append(l, c1, c2)
						}
					}
				}
				return l
			},
		}
	}
	for _, monitor := range []bool{false, true} {
		for _, a0 := range []bool{true, false} {
			base := dvScript{Monitor: monitor, Real: true, Autoconf0: a0}
			dvEnumerate(t, base, alpha(monitor), func(s dvScript, res *dvResult, k int) {
				id := fmt.Sprintf("%s#%d", dvID("x", s), k)
				if out.Wants(id) {
					dvEmit(out, id, s, res, true, "stream:exhaustive", dvModeTag(s), fmt.Sprintf("autoconf0:%v", s.Autoconf0))
				}
			})
		}
	}

	// (1b) long runs: 99, 100, 101 and 250 link changes in a row, each connection handed out and given back at
	// once (a link that never stops flapping), then a clean end: nothing in the property depends on how many
	for _, n := range []int{99, 100, 101, 250} {
		for _, a0 := range []bool{true, false} {
			s := dvScript{Real: true, Autoconf0: a0}
			for j := 0; j < n; j++ {
				s.Dials = append(s.Dials, dvDial{Real: true, Steps: dvAllOK})
				tk := dvDefaultTask
				tk.R = dvLinkChange
				s.Tasks = append(s.Tasks, tk)
			}
			s.Dials = append(s.Dials, dvDial{Real: true, Steps: dvAllOK})
			s.Tasks = append(s.Tasks, dvDefaultTask)
			id := fmt.Sprintf("flaps-%d-%v", n, a0)
			if !dvWants(out, id) {
				continue
			}
			for k, res := range dvExecAll(t, s) {
				dvEmit(out, fmt.Sprintf("%s#%d", id, k), s, res, true, "stream:long-flapping", dvModeTag(s), fmt.Sprintf("autoconf0:%v", s.Autoconf0))
			}
		}
	}

	// (1c) slow dials: the same scripts when every interface lookup takes 6 s, 45 s or 10 min (heavy interface churn)
	rs := verifh.NewRand(verifh.Seed(), "C11slow")
	ns := 40
	if verifh.Thorough() {
		ns = 400
	}
	for i := 0; i < ns; i++ {
		s := dvRandomScript(rs, true)
		s.Slow = []time.Duration{6 * time.Second, 45 * time.Second, 10 * time.Minute}[i%3]
		id := fmt.Sprintf("slow%d", i)
		if !dvWants(out, id) {
			continue
		}
		for k, res := range dvExecAll(t, s) {
			dvEmit(out, fmt.Sprintf("%s#%d", id, k), s, res, true, "stream:slow-dial", dvModeTag(s), fmt.Sprintf("autoconf0:%v", s.Autoconf0))
		}
	}

	// (2) random, deeper
	r := verifh.NewRand(verifh.Seed(), "C11")
	n := 400
	if verifh.Thorough() {
		n = 6000
	}
	for i := 0; i < n; i++ {
		id := fmt.Sprintf("r%d", i)
		s := dvRandomScript(r, true)
		if !dvWants(out, id) {
			continue
		}
		for k, res := range dvExecAll(t, s) {
			dvEmit(out, fmt.Sprintf("%s#%d", id, k), s, res, true, "stream:random", dvModeTag(s), fmt.Sprintf("autoconf0:%v", s.Autoconf0))
		}
	}
}

func dvModeTag(s dvScript) string {
	if s.Monitor {
		return "mode:monitor"
	}
	return "mode:advertise"
}
