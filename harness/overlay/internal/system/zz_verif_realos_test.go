//go:build verif && linux

package system

// Verification driver against the real operating system (only where this host allows it: root, the
// `ip` tool, veth support; otherwise every case is tagged unavailable and asserts nothing).
//
// Everything the other drivers take as an INPUT of the socket layer is observed here on a real veth
// pair: what dialNDP sets up (C09: the hop limit of every message must reach the listener through the
// control message; C10: only router solicitations and router advertisements reach it, the
// all-routers group is joined) and what the real Dialer.dial + setAutoconf + done closure do to the
// real autoconf sysctl (C11).

import (
	"context"
	"errors"
	"fmt"
	"io"
	"log"
	"net"
	"net/netip"
	"os"
	"os/exec"
	"path/filepath"
	"strings"
	"testing"
	"time"

	"github.com/mdlayher/corerad/internal/verifh"
	"github.com/mdlayher/ndp"
	"golang.org/x/net/ipv6"
)

type got struct {
	ok  bool
	hop int
	cm  bool
	src netip.Addr
}

func (g got) String() string {
	return fmt.Sprintf("delivered=%v control-message=%v hop-limit=%d source=%s", g.ok, g.cm, g.hop, g.src)
}

func roSh(name string, arg ...string) error {
	bin, err := exec.LookPath(name)
	if err != nil {
		return err
	}
	out, err := exec.Command(bin, arg...).CombinedOutput()
	if err != nil {
		return fmt.Errorf("%s %v: %v: %s", name, arg, err, strings.TrimSpace(string(out)))
	}
	return nil
}

func roSysctl(iface, key, val string) error {
	return os.WriteFile(filepath.Join("/proc/sys/net/ipv6/conf", iface, key), []byte(val), 0o644)
}

func roReadSysctl(iface, key string) string {
	b, _ := os.ReadFile(filepath.Join("/proc/sys/net/ipv6/conf", iface, key))
	return string(b)
}

// roSkipBind: do not test-bind sockets in roPair.  Go's net package caches the zone name -> interface index table
// for up to 60 s, so right after an interface was re-created under its name a bind to addr%name fails with ENODEV.
var roSkipBind bool

// roPair creates a veth pair that is up with usable IPv6 link-local addresses on both ends.
func roPair() (a, b *net.Interface, cleanup func(), err error) {
	n := os.Getpid() % 50000
	na, nb := fmt.Sprintf("verifr%d", n), fmt.Sprintf("verifp%d", n)
	_ = roSh("ip", "link", "del", na)
	if err = roSh("ip", "link", "add", na, "type", "veth", "peer", "name", nb); err != nil {
		return nil, nil, func() {}, err
	}
	cleanup = func() { _ = roSh("ip", "link", "del", na) }
	for _, n := range []string{na, nb} {
		if err = roSysctl(n, "accept_dad", "0"); err != nil {
			return nil, nil, cleanup, err
		}
		_ = roSysctl(n, "accept_ra", "0")
	}
	for _, n := range []string{na, nb} {
		if err = roSh("ip", "link", "set", "up", n); err != nil {
			return nil, nil, cleanup, err
		}
	}
	// wait for link-local addresses that can be bound
	deadline := time.Now().Add(8 * time.Second)
	for time.Now().Before(deadline) {
		ia, ea := net.InterfaceByName(na)
		ib, eb := net.InterfaceByName(nb)
		if ea == nil && eb == nil && checkInterface(ia, ia.Addrs) == nil && checkInterface(ib, ib.Addrs) == nil {
			if roSkipBind {
				return ia, ib, cleanup, nil
			}
			ca, _, e1 := ndp.Listen(ia, ndp.LinkLocal)
			if e1 == nil {
				ca.Close()
				cb, _, e2 := ndp.Listen(ib, ndp.LinkLocal)
				if e2 == nil {
					cb.Close()
					return ia, ib, cleanup, nil
				}
			}
		}
		time.Sleep(100 * time.Millisecond)
	}
	return nil, nil, cleanup, errors.New("veth pair did not become ready within 8 s")
}

func TestVerifRealOS(t *testing.T) {
	out := verifh.Open()
	defer out.Close()
	if only := os.Getenv("VERIF_ONLY"); only != "" && !strings.HasPrefix(only, "realos") {
		return
	}
	unavailable := func(why string) {
		out.Emit(verifh.Case{ID: "realos", Input: map[string]any{"kind": "realos"}, Observed: why, Tags: []string{"realos:unavailable"}})
	}
	if os.Geteuid() != 0 {
		unavailable("not root")
		return
	}
	ifa, ifb, cleanup, err := roPair()
	defer cleanup()
	if err != nil {
		unavailable(err.Error())
		return
	}

	// ---- dialNDP: what reaches the listener, and with which control message
	var viol []string
	obs := map[string]any{}
	conn, rip, err := dialNDP(ifa)
	if err != nil {
		unavailable("dialNDP on a ready veth failed: " + err.Error())
		return
	}
	client, cip, err := ndp.Listen(ifb, ndp.LinkLocal)
	if err != nil {
		conn.Close()
		unavailable("client socket: " + err.Error())
		return
	}
	rs := &ndp.RouterSolicitation{Options: []ndp.Option{&ndp.LinkLayerAddress{Direction: ndp.Source, Addr: ifb.HardwareAddr}}}
	// expect reads the next message of the wanted type within the deadline (other traffic of the kernel, e.g.
	// its own router solicitations, is skipped)
	expect := func(want ndp.Message, d time.Duration) got {
		deadline := time.Now().Add(d)
		for {
			_ = conn.SetReadDeadline(deadline)
			m, cm, src, err := conn.ReadFrom()
			if err != nil {
				return got{}
			}
			if m.Type() != want.Type() || src.WithZone("") != cip.WithZone("") {
				continue
			}
			g := got{ok: true, cm: cm != nil, src: src}
			if cm != nil {
				g.hop = cm.HopLimit
			}
			return g
		}
	}
	sendAndExpect := func(m ndp.Message, cm *ipv6.ControlMessage, dst netip.Addr) got {
		for try := 0; try < 3; try++ {
			if err := client.WriteTo(m, cm, dst); err != nil {
				continue
			}
			if g := expect(m, 2*time.Second); g.ok {
				return g
			}
		}
		return got{}
	}
	allRouters := netip.MustParseAddr("ff02::2")

	// (a) a solicitation to the all-routers group arrives, with hop limit 255 in the control message
	g := sendAndExpect(rs, nil, allRouters)
	obs["rs_to_all_routers"] = g.String()
	switch {
	case !g.ok:
		viol = append(viol, "a router solicitation sent to ff02::2 never reached the socket set up by dialNDP (all-routers group not joined, or filtered)")
	case !g.cm:
		viol = append(viol, "dialNDP's socket delivers messages without a control message: the listener cannot see the hop limit")
	case g.hop != 255:
		viol = append(viol, fmt.Sprintf("control message reports hop limit %d for a message sent with 255", g.hop))
	}
	// (b) a solicitation sent with hop limit 64 is reported with 64 (that is what the listener rejects)
	g = sendAndExpect(rs, &ipv6.ControlMessage{HopLimit: 64}, rip)
	obs["rs_hop_64"] = g.String()
	if g.ok && (!g.cm || g.hop != 64) {
		viol = append(viol, "a message sent with hop limit 64 is reported as "+g.String())
	}
	// (c) a router advertisement (unicast) arrives
	ra := &ndp.RouterAdvertisement{CurrentHopLimit: 64, RouterLifetime: 30 * time.Second}
	g = sendAndExpect(ra, nil, rip)
	obs["ra_unicast"] = g.String()
	if !g.ok {
		viol = append(viol, "a router advertisement sent to the router's address never reached the socket (filtered)")
	}
	// (d) other ICMPv6 / NDP types do not: a neighbor solicitation and a neighbor advertisement
	ns := &ndp.NeighborSolicitation{TargetAddress: rip.WithZone("")}
	na := &ndp.NeighborAdvertisement{TargetAddress: cip.WithZone(""), Solicited: false}
	for name, m := range map[string]ndp.Message{"neighbor solicitation": ns, "neighbor advertisement": na} {
		delivered := false
		for try := 0; try < 2 && !delivered; try++ {
			if err := client.WriteTo(m, nil, rip); err != nil {
				continue
			}
			if expect(m, 300*time.Millisecond).ok {
				delivered = true
			}
		}
		obs[name] = delivered
		if delivered {
			viol = append(viol, "a "+name+" passed the ICMPv6 filter of dialNDP's socket")
		}
	}
	client.Close()
	_ = conn.LeaveGroup(allRouters)
	conn.Close()
	out.Emit(verifh.Case{ID: "realos-dialndp", Input: map[string]any{"kind": "realos-dialndp", "router": ifa.Name, "client": ifb.Name}, Observed: obs,
		Tags: []string{"realos:dialndp"}, ImplViolation: strings.Join(viol, "; ")})

	// ---- the real Dialer.dial + setAutoconf + done closure against the real sysctl (both initial values)
	// (the kernel accepts any integer and treats non-zero as enabled; for 2 and -1 only "disabled while a connection is
	// held" is asserted: the State interface is boolean, the value itself cannot be put back)
	for _, initial := range []string{"1", "0", "2", "-1"} {
		id := "realos-autoconf-" + initial
		if err := roSysctl(ifa.Name, "autoconf", initial); err != nil {
			out.Emit(verifh.Case{ID: id, Observed: err.Error(), Tags: []string{"realos:unavailable"}})
			continue
		}
		before := roReadSysctl(ifa.Name, "autoconf")
		var during string
		d := NewDialer(ifa.Name, NewState(), Advertise, log.New(io.Discard, "", 0))
		calls := 0
		err := d.Dial(context.Background(), func(ctx context.Context, dctx *DialContext) error {
			calls++
			during = roReadSysctl(ifa.Name, "autoconf")
			return nil
		})
		after := roReadSysctl(ifa.Name, "autoconf")
		var v string
		switch {
		case err != nil:
			v = fmt.Sprintf("Dial on a ready veth returned %v", err)
		case calls != 1:
			v = fmt.Sprintf("the task ran %d times", calls)
		case during != "0\n":
			v = fmt.Sprintf("autoconf is %q while an advertising connection is held", during)
		case after != before && (initial == "0" || initial == "1"):
			v = fmt.Sprintf("autoconf was %q before and is %q after the connection was cleaned up", before, after)
		}
		out.Emit(verifh.Case{ID: id, Input: map[string]any{"kind": "realos-autoconf", "initial": initial},
			Observed: map[string]any{"before": before, "during": during, "after": after, "error": fmt.Sprint(err)}, Tags: []string{"realos:autoconf"}, ImplViolation: v})
	}

	// ---- a monitor never touches it
	{
		_ = roSysctl(ifa.Name, "autoconf", "1")
		var during string
		d := NewDialer(ifa.Name, NewState(), Monitor, log.New(io.Discard, "", 0))
		err := d.Dial(context.Background(), func(ctx context.Context, dctx *DialContext) error {
			during = roReadSysctl(ifa.Name, "autoconf")
			return nil
		})
		var v string
		if err != nil {
			v = fmt.Sprintf("monitor Dial on a ready veth returned %v", err)
		} else if during != "1\n" || roReadSysctl(ifa.Name, "autoconf") != "1\n" {
			v = "a monitoring dialer changed the autoconf sysctl"
		}
		out.Emit(verifh.Case{ID: "realos-autoconf-monitor", Input: map[string]any{"kind": "realos-autoconf", "mode": "monitor"}, Observed: during, Tags: []string{"realos:autoconf"}, ImplViolation: v})
	}

	// ---- link readiness on the real interface: down -> link not ready, up again -> ready
	{
		var v string
		if err := roSh("ip", "link", "set", "down", ifa.Name); err == nil {
			ifi, err := lookupInterface(ifa.Name)
			if err != nil {
				v = fmt.Sprintf("lookupInterface of an existing interface: %v", err)
			} else if err := checkInterface(ifi, ifi.Addrs); !errors.Is(err, ErrLinkNotReady) {
				v = fmt.Sprintf("checkInterface of a link that is down: want link not ready, got %v", err)
			}
			_ = roSh("ip", "link", "set", "up", ifa.Name)
		}
		if _, err := lookupInterface(ifa.Name + "x"); !errors.Is(err, ErrLinkNotReady) && v == "" {
			v = fmt.Sprintf("lookupInterface of a missing interface: want link not ready, got %v", err)
		}
		out.Emit(verifh.Case{ID: "realos-link", Input: map[string]any{"kind": "realos-link"}, Tags: []string{"realos:link"}, ImplViolation: v})
	}

	// ---- the interface is deleted and re-created under its name while a connection is held (new index, new
	// addresses): the task reports a link change, and the Dialer must come back on the NEW interface, because it looks
	// the interface up by name at every re-dial (Model/Dialer.v; dialer_looks_up_by_name in Properties/SeamLookup.v).
	// Thorough tier only: Go's net package caches zone name -> index for up to 60 s, so the real dial() fails with
	// "bind: no such device" until that cache is refreshed; the Dialer's budget (50 attempts, about 130 s) covers it.
	if verifh.Thorough() {

		ctx, cancel := context.WithCancel(context.Background())
		stop := time.AfterFunc(100*time.Second, cancel)
		d := NewDialer(ifa.Name, NewState(), Monitor, log.New(io.Discard, "", 0))
		var (
			calls, oldIndex, newIndex, seenIndex int
			setup                                string
		)
		err := d.Dial(ctx, func(ctx context.Context, dctx *DialContext) error {
			calls++
			if calls == 1 {
				oldIndex = dctx.Interface.Index
				roSkipBind = true
				na, _, _, err := roPair() // deletes the pair and creates it again under the same names
				roSkipBind = false
				if err != nil {
					setup = err.Error()
					return nil
				}
				newIndex = na.Index
				return ErrLinkChange
			}
			seenIndex = dctx.Interface.Index
			return nil
		})
		stop.Stop()
		cancel()
		var v string
		tags := []string{"realos:recreate"}
		switch {
		case setup != "" || newIndex == oldIndex:
			tags = []string{"realos:unavailable"}
		case err != nil:
			v = fmt.Sprintf("Dial returned %v after the interface was re-created under its name", err)
		case calls < 2:
			v = fmt.Sprintf("the interface was deleted and re-created under its name (index %d -> %d) and is ready, but the Dialer did not come back within 100 s", oldIndex, newIndex)
		case seenIndex != newIndex:
			v = fmt.Sprintf("after the re-dial the task runs on interface index %d, the interface now has index %d", seenIndex, newIndex)
		}
		out.Emit(verifh.Case{ID: "realos-recreate", Input: map[string]any{"kind": "realos-recreate"},
			Observed: map[string]any{"calls": calls, "old": oldIndex, "new": newIndex, "seen": seenIndex, "setup": setup, "error": fmt.Sprint(err)},
			Tags:     tags, ImplViolation: v})
	}
}
