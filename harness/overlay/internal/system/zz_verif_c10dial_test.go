//go:build verif && go1.25

package system

// Verification driver for the dialer clauses of C10 (and the engine shared with C11).
//
// The real Dialer.Dial / Dialer.init run unmodified inside a testing/synctest bubble (virtual
// clock).  A fault script decides what every DialFunc call, every task (fn) call and every
// clean-up returns and where the context is cancelled.  Observed: the virtual instant and the
// outcome of every dial attempt, task invocation, clean-up call, the cancellation, and the class
// of the value Dial returns (errors.Is / errors.As only, never error text).

import (
	"context"
	"errors"
	"fmt"
	"io/fs"
	"net"
	"net/netip"
	"os"
	"sort"
	"strings"
	"syscall"
	"testing"
	"testing/synctest"
	"time"

	"github.com/mdlayher/corerad/internal/verifh"
	"github.com/mdlayher/ndp"
	"golang.org/x/net/ipv6"
)

// error classes, same order as Model.Dialer.err; dvOK = no error
const (
	dvOK = iota - 1
	dvLinkNotReady
	dvLinkChange
	dvSyscall
	dvPerm
	dvRetries
	dvOther
	dvCanceled
	dvOpaque
)

var dvErrNames = []string{"ELinkNotReady", "ELinkChange", "ESyscall", "EPerm", "ERetries", "EOther", "ECanceled", "EOpaque"}

var (
	dvErrOther   = errors.New("other")
	dvErrRetries = errors.New("exhausted receive retries")
)

// dvMkErr builds an error value of the class; variant picks among equivalent constructions.
func dvMkErr(c int, variant int) error {
	switch c {
	case dvLinkNotReady:
		if variant%2 == 0 {
			return fmt.Errorf("interface %q does not exist: %w", "verif0", ErrLinkNotReady)
		}
		return ErrLinkNotReady
	case dvLinkChange:
		if variant%2 == 0 {
			return ErrLinkChange
		}
		return fmt.Errorf("failed to run advertiser: %w", ErrLinkChange)
	case dvSyscall:
		e := &os.SyscallError{Syscall: "recvmsg", Err: syscall.EINVAL}
		if variant%2 == 0 {
			return e
		}
		return fmt.Errorf("failed to run advertiser: %w", e)
	case dvPerm:
		switch variant % 3 {
		case 0:
			return &os.SyscallError{Syscall: "socket", Err: syscall.EPERM}
		case 1:
			return &os.SyscallError{Syscall: "socket", Err: os.ErrPermission}
		}
		return fmt.Errorf("listen: %w", &os.SyscallError{Syscall: "socket", Err: syscall.EACCES})
	case dvRetries:
		return dvErrRetries
	case dvOther:
		if variant%2 == 0 {
			return dvErrOther
		}
		return fmt.Errorf("wrapped: %w", dvErrOther)
	case dvCanceled:
		return context.Canceled
	case dvOpaque:
		return errors.New("opaque")
	}
	return nil
}

// dvClass classifies an error by what errors.Is / errors.As can see.
func dvClass(err error) int {
	var serr *os.SyscallError
	switch {
	case err == nil:
		return dvOK
	case errors.Is(err, context.Canceled):
		return dvCanceled
	case errors.As(err, &serr):
		if errors.Is(serr, os.ErrPermission) {
			return dvPerm
		}
		return dvSyscall
	case errors.Is(err, ErrLinkNotReady):
		return dvLinkNotReady
	case errors.Is(err, ErrLinkChange):
		return dvLinkChange
	case errors.Is(err, dvErrRetries):
		return dvRetries
	case errors.Is(err, dvErrOther):
		return dvOther
	}
	return dvOpaque
}

func dvOErr(c int) string {
	if c < 0 {
		return "None"
	}
	return "(Some " + dvErrNames[c] + ")"
}

// sysctl answers, same order as Model.Dialer.sysres
const (
	dvSOk = iota
	dvSPerm
	dvSNotExist
	dvSOther
)

var dvSysNames = []string{"SOk", "SPerm", "SNotExist", "SOther"}

func dvSysErr(r int, variant int) error {
	p := "/proc/sys/net/ipv6/conf/verif0/autoconf"
	switch r {
	case dvSPerm:
		if variant%2 == 0 {
			return &fs.PathError{Op: "open", Path: p, Err: syscall.EACCES}
		}
		return fmt.Errorf("sysctl: %w", os.ErrPermission)
	case dvSNotExist:
		if variant%2 == 0 {
			return &fs.PathError{Op: "open", Path: p, Err: syscall.ENOENT}
		}
		return os.ErrNotExist
	case dvSOther:
		return &fs.PathError{Op: "write", Path: p, Err: syscall.EIO}
	}
	return nil
}

type dvSteps struct {
	Lookup, Check, Open int // error class or dvOK
	Get, Set            int // sysres
	Leave, Close        bool
}

type dvDial struct {
	Real   bool
	R      int // scripted: error class or dvOK
	Steps  dvSteps
	Cancel bool
}

type dvTask struct {
	Cancel       bool
	R            int
	DoneOK       bool
	Leave, Close bool
	Restore      int
	CancelDone   bool
}

type dvScript struct {
	Monitor   bool
	Real      bool
	Autoconf0 bool
	Pre       bool
	Dials     []dvDial
	Tasks     []dvTask
	Waits     []bool
	// Slow is not part of the model's script: every interface lookup of a real dial takes this long (the RTNL lock is
	// held elsewhere).  A dial is not a scheduling point of the Dialer: however long it takes, the trace is the same.
	Slow time.Duration
}

func (s dvScript) clone() dvScript {
	c := s
	c.Dials = append([]dvDial(nil), s.Dials...)
	c.Tasks = append([]dvTask(nil), s.Tasks...)
	c.Waits = append([]bool(nil), s.Waits...)
	return c
}

var dvAllOK = dvSteps{dvOK, dvOK, dvOK, dvSOk, dvSOk, true, true}
var dvDefaultTask = dvTask{false, dvOK, true, true, true, dvSOk, false}

func (s dvSteps) coq() string {
	return verifh.App("mkSteps", dvOErr(s.Lookup), dvOErr(s.Check), dvOErr(s.Open), dvSysNames[s.Get], dvSysNames[s.Set],
		verifh.B(s.Leave), verifh.B(s.Close))
}
func (d dvDial) coq() string {
	if d.Real {
		return verifh.App("DReal", d.Steps.coq(), verifh.B(d.Cancel))
	}
	return verifh.App("DScripted", dvOErr(d.R), verifh.B(d.Cancel))
}
func (t dvTask) coq() string {
	return verifh.App("mkTask", verifh.B(t.Cancel), dvOErr(t.R), verifh.B(t.DoneOK), verifh.B(t.Leave), verifh.B(t.Close),
		dvSysNames[t.Restore], verifh.B(t.CancelDone))
}
func (s dvScript) coq() string {
	mode := "Advertise"
	if s.Monitor {
		mode = "Monitor"
	}
	var ds, ts, ws []string
	for _, d := range s.Dials {
		ds = append(ds, d.coq())
	}
	for _, t := range s.Tasks {
		ts = append(ts, t.coq())
	}
	for _, w := range s.Waits {
		ws = append(ws, verifh.B(w))
	}
	return verifh.App("mkScript", mode, verifh.B(s.Real), verifh.B(s.Autoconf0), verifh.B(s.Pre),
		verifh.List(ds), verifh.List(ts), verifh.List(ws), "[]")
}

// dvEvent is one observed event: virtual ns since the bubble started + a Model.Dialer.event term.
type dvEvent struct {
	T  int64
	Ev string
}

type dvResult struct {
	Events []dvEvent
	// first script list that ran out ("", "dial", "task", "wait") and whether the context was
	// already cancelled at that point: used by the bounded-exhaustive enumeration
	Exhausted          string
	CancelledAtExhaust bool
	FinalAutoconf      bool
	Overflow           bool
	Dials, Tasks       int // entries consumed
	// a select was entered with the context already cancelled: if its timer was 0 the Go runtime
	// chose between two ready cases at random
	Raced bool
}

// dvCtx observes when Dial looks at the context.
type dvCtx struct {
	context.Context
	r *dvRun
}

func (c dvCtx) Done() <-chan struct{} {
	if c.r.cancelled {
		c.r.res.Raced = true
	}
	return c.Context.Done()
}

func (res *dvResult) signature() string {
	var b strings.Builder
	for _, e := range res.Events {
		fmt.Fprintf(&b, "%d%s;", e.T, e.Ev)
	}
	return b.String()
}

// dvExecAll runs the script and, when a select race was possible, runs it again (64 times) so that all
// resolutions were (very probably) seen; results are ordered by their logs, so the k-th outcome
// of a script is the same in every run of the driver.
func dvExecAll(t *testing.T, s dvScript) []*dvResult {
	first := dvExec(t, s)
	if !first.Raced {
		return []*dvResult{first}
	}
	seen := map[string]*dvResult{first.signature(): first}
	for i := 0; i < 64; i++ {
		r := dvExec(t, s)
		if _, ok := seen[r.signature()]; !ok {
			seen[r.signature()] = r
		}
	}
	var keys []string
	for k := range seen {
		keys = append(keys, k)
	}
	sort.Strings(keys)
	var l []*dvResult
	for _, k := range keys {
		l = append(l, seen[k])
	}
	return l
}

// dvRun is the state of one run.
type dvRun struct {
	s         dvScript
	res       *dvResult
	start     time.Time
	cancel    context.CancelFunc
	cancelled bool
	next      uint64 // next connection id
	di, ti    int
	wi        int
	cur       dvDial // dial event being served (real mode)
	curTask   dvTask
	inCleanup bool // phase for the State / conn fakes: false = inside dial(), true = inside done()
	autoconf  bool
	ids       map[*DialContext]uint64
	stepC     chan struct{}
	variant   int
	inSlow    int // dials currently inside a slow interface lookup
	slept     time.Duration
}

const dvMaxEvents = 6000

func (r *dvRun) log(ev string) {
	r.res.Events = append(r.res.Events, dvEvent{int64(time.Since(r.start) - r.slept), ev})
	if len(r.res.Events) > dvMaxEvents {
		r.res.Overflow = true
	}
}

func (r *dvRun) doCancel() {
	if !r.cancelled {
		r.cancelled = true
		r.cancel()
		r.log("Cancel")
	}
}

func (r *dvRun) exhausted(kind string) {
	if r.res.Exhausted == "" {
		r.res.Exhausted = kind
		r.res.CancelledAtExhaust = r.cancelled
	}
}

func (r *dvRun) popDial() dvDial {
	r.variant++
	if r.res.Overflow {
		// runaway implementation: stop it
		r.doCancel()
		return dvDial{Real: r.s.Real, R: dvOther, Steps: dvSteps{dvOther, dvOK, dvOK, dvSOk, dvSOk, true, true}}
	}
	if r.di < len(r.s.Dials) {
		r.di++
		r.res.Dials = r.di
		return r.s.Dials[r.di-1]
	}
	r.exhausted("dial")
	return dvDial{Real: r.s.Real, R: dvOK, Steps: dvAllOK}
}

func (r *dvRun) popTask() dvTask {
	r.variant++
	if r.res.Overflow {
		r.doCancel()
		return dvDefaultTask
	}
	if r.ti < len(r.s.Tasks) {
		r.ti++
		r.res.Tasks = r.ti
		return r.s.Tasks[r.ti-1]
	}
	r.exhausted("task")
	return dvDefaultTask
}

func (r *dvRun) popWait() bool {
	if r.wi < len(r.s.Waits) {
		r.wi++
		return r.s.Waits[r.wi-1]
	}
	r.exhausted("wait")
	return false
}

// scripted DialFunc
func (r *dvRun) scriptedDial() (*DialContext, error) {
	select {
	case r.stepC <- struct{}{}:
	default:
	}
	de := r.popDial()
	if de.R != dvOK {
		r.log("(DialAttempt " + dvOErr(de.R) + ")")
		if de.Cancel {
			r.doCancel()
		}
		return nil, dvMkErr(de.R, r.variant)
	}
	k := r.next
	r.next++
	dctx := &DialContext{}
	dctx.done = func() error {
		ok := r.curTask.DoneOK
		r.log(fmt.Sprintf("(Cleanup %s %s)", verifh.N(k), verifh.B(ok)))
		if r.curTask.CancelDone {
			r.doCancel()
		}
		if !ok {
			return errors.New("scripted done failure")
		}
		return nil
	}
	r.ids[dctx] = k
	r.log("(DialAttempt None)")
	if de.Cancel {
		r.doCancel()
	}
	return dctx, nil
}

// realDial wraps the Dialer's own dial() (through the seam): observes its result and its done closure.
func (r *dvRun) realDial(orig func() (*DialContext, error)) func() (*DialContext, error) {
	return func() (*DialContext, error) {
		select {
		case r.stepC <- struct{}{}:
		default:
		}
		r.cur = r.popDial()
		r.inCleanup = false
		dctx, err := orig()
		if err == nil {
			fc := dctx.Conn.(*dvConn)
			r.ids[dctx] = fc.id
			od := dctx.done
			k := fc.id
			dctx.done = func() error {
				derr := od()
				r.log(fmt.Sprintf("(Cleanup %s %s)", verifh.N(k), verifh.B(derr == nil)))
				if r.curTask.CancelDone {
					r.doCancel()
				}
				return derr
			}
		}
		r.log("(DialAttempt " + dvOErr(dvClass(err)) + ")")
		if r.cur.Cancel {
			r.doCancel()
		}
		return dctx, err
	}
}

func (r *dvRun) task(ctx context.Context, dctx *DialContext) error {
	te := r.popTask()
	r.curTask = te
	r.inCleanup = true
	if te.Cancel {
		r.doCancel()
	}
	k, ok := r.ids[dctx]
	if !ok {
		k = 999999
	}
	r.log(fmt.Sprintf("(Task %s %s)", verifh.N(k), dvOErr(te.R)))
	return dvMkErr(te.R, r.variant)
}

// dvConn is the fake connection returned by the dialNDP seam.
type dvConn struct {
	r  *dvRun
	id uint64
}

func (c *dvConn) ReadFrom() (ndp.Message, *ipv6.ControlMessage, netip.Addr, error) {
	return nil, nil, netip.Addr{}, errors.New("dvConn: not readable")
}
func (c *dvConn) SetReadDeadline(time.Time) error { return nil }
func (c *dvConn) WriteTo(ndp.Message, *ipv6.ControlMessage, netip.Addr) error {
	return errors.New("dvConn: not writable")
}
func (c *dvConn) LeaveGroup(netip.Addr) error {
	ok := c.r.cur.Steps.Leave
	if c.r.inCleanup {
		ok = c.r.curTask.Leave
	}
	c.r.log(fmt.Sprintf("(Leave %s %s)", verifh.N(c.id), verifh.B(ok)))
	if !ok {
		return errors.New("leave group failed")
	}
	return nil
}
func (c *dvConn) Close() error {
	ok := c.r.cur.Steps.Close
	if c.r.inCleanup {
		ok = c.r.curTask.Close
	}
	c.r.log(fmt.Sprintf("(CloseConn %s %s)", verifh.N(c.id), verifh.B(ok)))
	if !ok {
		return errors.New("close failed")
	}
	return nil
}

// dvState is the recording system.State.
type dvState struct{ r *dvRun }

func (s dvState) IPv6Autoconf(string) (bool, error) {
	g := s.r.cur.Steps.Get
	if g != dvSOk {
		s.r.log("(GetAuto None)")
		return false, dvSysErr(g, s.r.variant)
	}
	s.r.log("(GetAuto (Some " + verifh.B(s.r.autoconf) + "))")
	return s.r.autoconf, nil
}
func (s dvState) IPv6Forwarding(string) (bool, error) { return true, nil }
func (s dvState) SetIPv6Autoconf(_ string, enable bool) error {
	res, name := s.r.cur.Steps.Set, "SetAuto"
	if s.r.inCleanup {
		res, name = s.r.curTask.Restore, "Restore"
	}
	s.r.log(fmt.Sprintf("(%s %s %s)", name, verifh.B(enable), dvSysNames[res]))
	if res == dvSOk {
		s.r.autoconf = enable
		return nil
	}
	return dvSysErr(res, s.r.variant)
}

// dvExec runs the real Dialer.Dial on the script inside a synctest bubble.
func dvExec(t *testing.T, s dvScript) *dvResult {
	res := &dvResult{}
	synctest.Test(t, func(t *testing.T) {
		ctx, cancel := context.WithCancel(context.Background())
		defer cancel()
		r := &dvRun{s: s, res: res, start: time.Now(), cancel: cancel, autoconf: s.Autoconf0,
			ids: map[*DialContext]uint64{}, stepC: make(chan struct{}, 1)}
		mode := Advertise
		if s.Monitor {
			mode = Monitor
		}
		d := NewDialer("verif0", dvState{r}, mode, nil)
		if s.Real {
			oldL, oldC, oldD := verifLookupInterface, verifCheckInterface, verifDialNDP
			defer func() { verifLookupInterface, verifCheckInterface, verifDialNDP = oldL, oldC, oldD }()
			verifLookupInterface = func(name string) (*net.Interface, error) {
				c := r.cur.Steps.Lookup
				if s.Slow > 0 {
					r.inSlow++
					time.Sleep(s.Slow)
					r.inSlow--
					r.slept += s.Slow // the trace is timed on a clock that stands still inside a dial
				}
				r.log("(Lookup " + dvOErr(c) + ")")
				if c != dvOK {
					return nil, dvMkErr(c, r.variant)
				}
				return &net.Interface{Index: 7, Name: name, Flags: net.FlagUp | net.FlagMulticast}, nil
			}
			verifCheckInterface = func(*net.Interface, func() ([]net.Addr, error)) error {
				c := r.cur.Steps.Check
				r.log("(CheckIf " + dvOErr(c) + ")")
				return dvMkErr(c, r.variant)
			}
			verifDialNDP = func(*net.Interface) (verifNDPConn, netip.Addr, error) {
				c := r.cur.Steps.Open
				if c != dvOK {
					r.log("(OpenFail " + dvErrNames[c] + ")")
					return nil, netip.Addr{}, dvMkErr(c, r.variant)
				}
				k := r.next
				r.next++
				r.log("(OpenConn " + verifh.N(k) + ")")
				return &dvConn{r: r, id: k}, netip.MustParseAddr("fe80::1"), nil
			}
			d.DialFunc = r.realDial(d.DialFunc)
		} else {
			d.DialFunc = r.scriptedDial
		}
		if s.Pre {
			r.doCancel()
		}
		resC := make(chan error, 1)
		go func() { resC <- d.Dial(dvCtx{ctx, r}, r.task) }()
		for {
			synctest.Wait()
			select {
			case err := <-resC:
				r.log("(Return " + dvRet(err) + ")")
				res.FinalAutoconf = r.autoconf
				return
			default:
			}
			if r.inSlow > 0 {
				time.Sleep(s.Slow) // blocked inside a slow dial, not in a back-off wait
				continue
			}
			// Dial is blocked in a back-off wait of positive length.
			if !r.cancelled && r.popWait() {
				time.Sleep(125 * time.Millisecond)
				r.doCancel()
				continue
			}
			select {
			case <-r.stepC:
			default:
			}
			select {
			case <-r.stepC:
			case err := <-resC:
				r.log("(Return " + dvRet(err) + ")")
				res.FinalAutoconf = r.autoconf
				return
			}
		}
	})
	return res
}

func dvRet(err error) string {
	if err == nil {
		return "RNil"
	}
	return "(RWrap " + dvErrNames[dvClass(err)] + ")"
}

func (res *dvResult) coqObs() string {
	var l []string
	for _, e := range res.Events {
		l = append(l, verifh.Pair(verifh.Z(e.T), e.Ev))
	}
	return verifh.List(l)
}

func (res *dvResult) tags(s dvScript) []string {
	tags := []string{}
	var nd, nt, nw, nc int
	last := ""
	for _, e := range res.Events {
		switch {
		case strings.HasPrefix(e.Ev, "(DialAttempt"):
			nd++
		case strings.HasPrefix(e.Ev, "(Task"):
			nt++
		case e.Ev == "Cancel":
			nc++
		case strings.HasPrefix(e.Ev, "(Return"):
			last = e.Ev
		}
	}
	for i := 1; i < len(res.Events); i++ {
		if res.Events[i].T > res.Events[i-1].T {
			nw++
		}
	}
	bucket := func(n int) string {
		switch {
		case n == 0:
			return "0"
		case n == 1:
			return "1"
		case n <= 4:
			return "2-4"
		case n <= 49:
			return "5-49"
		case n == 50:
			return "50"
		case n == 51:
			return "51"
		}
		return ">51"
	}
	tags = append(tags, "dials:"+bucket(nd), "tasks:"+bucket(nt), "positive-waits:"+bucket(nw), "return:"+last)
	if nc > 0 {
		tags = append(tags, "cancelled")
	}
	if s.Pre {
		tags = append(tags, "cancelled-before-dial")
	}
	if res.Raced {
		tags = append(tags, "select-entered-cancelled")
	}
	if len(res.Events) > 0 && res.Events[len(res.Events)-1].T >= 3e9 {
		tags = append(tags, "reached-3s-cap")
	}
	return tags
}

// ---- bounded-exhaustive enumeration (depth = scripted dial + task events)

type dvAlphabet struct {
	dials      func(cancelled bool, depth int) []dvDial
	tasks      func(cancelled bool, depth int) []dvTask
	maxDepth   int
	maxCases   int
	waitCancel bool
}

func dvEnumerate(t *testing.T, base dvScript, a dvAlphabet, visit func(s dvScript, res *dvResult, k int)) int {
	n := 0
	var rec func(s dvScript, emit bool)
	rec = func(s dvScript, emit bool) {
		if a.maxCases > 0 && n >= a.maxCases {
			return
		}
		depth := len(s.Dials) + len(s.Tasks)
		expanded := map[string]bool{} // outcomes of one script that run out at the same point share their children
		for k, res := range dvExecAll(t, s) {
			if emit {
				n++
				visit(s, res, k)
			}
			key := fmt.Sprintf("%s/%v", res.Exhausted, res.CancelledAtExhaust)
			if expanded[key] {
				continue
			}
			expanded[key] = true
			switch res.Exhausted {
			case "dial":
				if depth >= a.maxDepth {
					continue
				}
				for _, d := range a.dials(res.CancelledAtExhaust, depth) {
					c := s.clone()
					c.Dials = append(c.Dials, d)
					rec(c, true)
				}
			case "task":
				if depth >= a.maxDepth {
					continue
				}
				for _, te := range a.tasks(res.CancelledAtExhaust, depth) {
					c := s.clone()
					c.Tasks = append(c.Tasks, te)
					rec(c, true)
				}
			case "wait":
				// the run above took the default "no cancellation" for the wait that ran out: the
				// script with that choice written down behaves the same (not emitted again) but
				// exposes the next point where the script runs out; the other branch cancels here
				c := s.clone()
				c.Waits = append(c.Waits, false)
				rec(c, false)
				if a.waitCancel {
					c2 := s.clone()
					c2.Waits = append(c2.Waits, true)
					rec(c2, true)
				}
			}
		}
	}
	rec(base, true)
	return n
}

func dvID(prefix string, s dvScript) string {
	var b strings.Builder
	b.WriteString(prefix)
	if s.Monitor {
		b.WriteString("M")
	} else {
		b.WriteString("A")
	}
	b.WriteString(verifh.B(s.Autoconf0)[:1] + verifh.B(s.Pre)[:1])
	for _, d := range s.Dials {
		if d.Real {
			fmt.Fprintf(&b, "-d%d.%d.%d.%d.%d%s%s%s", d.Steps.Lookup+1, d.Steps.Check+1, d.Steps.Open+1, d.Steps.Get, d.Steps.Set,
				verifh.B(d.Steps.Leave)[:1], verifh.B(d.Steps.Close)[:1], verifh.B(d.Cancel)[:1])
		} else {
			fmt.Fprintf(&b, "-d%d%s", d.R+1, verifh.B(d.Cancel)[:1])
		}
	}
	for _, t := range s.Tasks {
		fmt.Fprintf(&b, "-t%d%s%s%s%s%d%s", t.R+1, verifh.B(t.Cancel)[:1], verifh.B(t.DoneOK)[:1], verifh.B(t.Leave)[:1],
			verifh.B(t.Close)[:1], t.Restore, verifh.B(t.CancelDone)[:1])
	}
	b.WriteString("-w")
	for _, w := range s.Waits {
		b.WriteString(verifh.B(w)[:1])
	}
	return b.String()
}

func dvEmit(out *verifh.Out, id string, s dvScript, res *dvResult, withFinal bool, extra ...string) {
	term := verifh.App("mkCase", s.coq(), res.coqObs())
	if withFinal {
		term = verifh.App("mkCase", s.coq(), res.coqObs(), verifh.B(res.FinalAutoconf))
	}
	c := verifh.Case{ID: id, Coq: term,
		Input:    map[string]any{"script": s},
		Observed: res.Events,
		Tags:     append(res.tags(s), extra...)}
	if res.Overflow {
		c.ImplViolation = fmt.Sprintf("Dial did not return within %d events", dvMaxEvents)
	}
	out.Emit(c)
}

// the C10 alphabets of the property text
var (
	dvDialAlpha = []int{dvOK, dvLinkNotReady, dvSyscall, dvPerm, dvOther}
	dvTaskAlpha = []int{dvOK, dvLinkChange, dvSyscall, dvPerm, dvRetries, dvOther, dvCanceled}
)

func TestVerifC10dial(t *testing.T) {
	out := verifh.Open()
	defer out.Close()

	// (1) bounded-exhaustive: every script over the property's outcome alphabets x cancellation
	// points, to depth 4 (quick) / 6 (thorough)
	depth := 4
	if verifh.Thorough() {
		depth = 6
	}
	alpha := dvAlphabet{
		maxDepth:   depth,
		waitCancel: true,
		dials: func(cancelled bool, _ int) []dvDial {
			var l []dvDial
			for _, r := range dvDialAlpha {
				l = append(l, dvDial{R: r})
				if !cancelled {
					l = append(l, dvDial{R: r, Cancel: true})
				}
			}
			return l
		},
		tasks: func(cancelled bool, _ int) []dvTask {
			var l []dvTask
			for _, r := range dvTaskAlpha {
				te := dvDefaultTask
				te.R = r
				l = append(l, te)
				if !cancelled {
					c1, c2 := te, te
					c1.Cancel = true
					c2.CancelDone = true
					l = append(l, c1, c2)
				}
				if depth <= 4 || r == dvOK || r == dvLinkChange || r == dvPerm {
					f := te
					f.DoneOK = false
					l = append(l, f)
				}
			}
			return l
		},
	}
	for _, pre := range []bool{false, true} {
		base := dvScript{Autoconf0: true, Pre: pre}
		dvEnumerate(t, base, alpha, func(s dvScript, res *dvResult, k int) {
			id := fmt.Sprintf("%s#%d", dvID("x", s), k)
			if out.Wants(id) {
				dvEmit(out, id, s, res, false, "stream:exhaustive")
			}
		})
	}

	// (2) random scripts to depth 60 and beyond the 50-attempt budget
	r := verifh.NewRand(verifh.Seed(), "C10dial")
	n := 400
	if verifh.Thorough() {
		n = 6000
	}
	for i := 0; i < n; i++ {
		id := fmt.Sprintf("r%d", i)
		s := dvRandomScript(r, false)
		if !dvWants(out, id) {
			continue
		}
		for k, res := range dvExecAll(t, s) {
			dvEmit(out, fmt.Sprintf("%s#%d", id, k), s, res, false, "stream:random")
		}
	}
}

// dvRandomScript draws a long script: runs of failing dials (boundary lengths around the
// 50-attempt budget), mostly-recoverable task results, rare cancellation.
func dvRandomScript(r *verifh.Rand, real bool) dvScript {
	s := dvScript{Real: real, Autoconf0: r.Bool(), Pre: r.Chance(3), Monitor: real && r.Chance(20)}
	rounds := 1 + r.Intn(5)
	cancelBudget := r.Chance(35)
	failClasses := []int{dvLinkNotReady, dvLinkChange, dvSyscall, dvPerm, dvRetries, dvOther, dvCanceled, dvOpaque}
	for k := 0; k < rounds; k++ {
		// number of failing dials before the successful one
		var fails int
		switch r.Intn(10) {
		case 0:
			fails = 0
		case 1, 2, 3:
			fails = r.Intn(4)
		case 4:
			fails = 48 + r.Intn(5) // 48..52 : around the budget (first init: 1 + 50)
		case 5:
			fails = 11 + r.Intn(4) // around the 3 s cap (12 steps of 250 ms)
		default:
			fails = r.Intn(20)
		}
		for j := 0; j < fails; j++ {
			d := dvDial{Real: real, R: verifh.Pick(r, failClasses), Steps: dvRandomFailSteps(r)}
			if k == 0 && j == 0 && r.Chance(85) {
				// keep the very first dial recoverable most of the time
				d.R = verifh.Pick(r, []int{dvLinkNotReady, dvSyscall, dvLinkChange})
				d.Steps = dvSteps{dvLinkNotReady, dvOK, dvOK, dvSOk, dvSOk, true, true}
			}
			if cancelBudget && r.Chance(2) {
				d.Cancel = true
			}
			s.Dials = append(s.Dials, d)
			if r.Chance(3) {
				for len(s.Waits) < j {
					s.Waits = append(s.Waits, false)
				}
				if cancelBudget {
					s.Waits = append(s.Waits, true)
				}
			}
		}
		ok := dvDial{Real: real, R: dvOK, Steps: dvAllOK}
		if real {
			ok.Steps.Set = verifh.Pick(r, []int{dvSOk, dvSOk, dvSOk, dvSPerm})
		}
		if cancelBudget && r.Chance(4) {
			ok.Cancel = true
		}
		s.Dials = append(s.Dials, ok)
		te := dvDefaultTask
		te.R = verifh.Pick(r, []int{dvLinkChange, dvLinkChange, dvSyscall, dvLinkNotReady, dvSyscall, dvLinkChange,
			dvOK, dvPerm, dvRetries, dvOther, dvCanceled, dvOpaque})
		if k < rounds-1 && r.Chance(70) {
			te.R = verifh.Pick(r, []int{dvLinkChange, dvSyscall, dvLinkNotReady})
		}
		te.DoneOK = !r.Chance(4)
		te.Leave, te.Close = !r.Chance(10), !r.Chance(10)
		te.Restore = verifh.Pick(r, []int{dvSOk, dvSOk, dvSOk, dvSOk, dvSPerm, dvSNotExist, dvSOther})
		if cancelBudget && r.Chance(10) {
			te.Cancel = true
			if r.Chance(70) {
				te.R = verifh.Pick(r, []int{dvOK, dvCanceled})
			}
		}
		if cancelBudget && r.Chance(5) {
			te.CancelDone = true
		}
		s.Tasks = append(s.Tasks, te)
	}
	return s
}

func dvRandomFailSteps(r *verifh.Rand) dvSteps {
	st := dvAllOK
	switch r.Intn(6) {
	case 0:
		st.Lookup = verifh.Pick(r, []int{dvLinkNotReady, dvOpaque})
	case 1:
		st.Check = verifh.Pick(r, []int{dvLinkNotReady, dvSyscall, dvOpaque})
	case 2:
		st.Open = verifh.Pick(r, []int{dvSyscall, dvPerm, dvOpaque})
	case 3:
		st.Get = verifh.Pick(r, []int{dvSPerm, dvSNotExist, dvSOther})
	default:
		st.Set = verifh.Pick(r, []int{dvSNotExist, dvSOther})
	}
	st.Leave, st.Close = !r.Chance(15), !r.Chance(15)
	return st
}

// dvWants: ids carry an outcome suffix "#k"; in replay mode run the script the wanted case belongs to.
func dvWants(out *verifh.Out, id string) bool {
	only := os.Getenv("VERIF_ONLY")
	return only == "" || strings.HasPrefix(only, id+"#")
}
