//go:build verif && go1.25

package system

// Verification driver for the "link not ready" decision of C10: the real checkInterface,
// isNoSuchInterface, lookupInterface (conn.go) and sysctlBool (interface_linux.go) are run on
// generated interface states; the class of what they return (errors.Is / errors.As only) is
// compared with Model/Link.v and with the specification checker of Corr/C10link.v.

import (
	"errors"
	"fmt"
	"math/big"
	"net"
	"os"
	"path/filepath"
	"testing"

	"github.com/mdlayher/corerad/internal/verifh"
)

type lkAddr struct {
	a     net.Addr
	ipnet bool
	ip    []byte
	tag   string
}

func lkBytesN(b []byte) string {
	return fmt.Sprintf("%s%%N", new(big.Int).SetBytes(b).String())
}

// lkGenAddr draws one net.Addr: mostly well-formed addresses of every class that matters to the
// decision, plus malformed slices.
func lkGenAddr(r *verifh.Rand) lkAddr {
	rnd := func(n int) []byte {
		b := make([]byte, n)
		for i := range b {
			b[i] = byte(r.Intn(256))
		}
		return b
	}
	v6 := func(hi0, hi1 byte) []byte {
		b := rnd(16)
		b[0], b[1] = hi0, hi1
		return b
	}
	var ip []byte
	var tag string
	switch r.Intn(16) {
	case 0:
		ip, tag = v6(0xfe, 0x80), "fe80"
	case 1:
		ip, tag = v6(0xfe, byte(0x80+r.Intn(0x40))), "fe80/10"
	case 2:
		ip, tag = v6(0xfe, 0xc0), "fec0"
	case 3:
		ip, tag = v6(0xfe, 0x7f), "fe7f"
	case 4:
		ip, tag = net.IPv4(169, 254, byte(r.Intn(256)), byte(r.Intn(256))), "v4ll-mapped"
	case 5:
		ip, tag = net.IPv4(169, 254, byte(r.Intn(256)), byte(r.Intn(256))).To4(), "v4ll-4"
	case 6:
		ip, tag = net.IPv4(10, byte(r.Intn(256)), 0, 1), "v4-mapped"
	case 7:
		ip, tag = net.IPv4(192, 168, byte(r.Intn(256)), 1).To4(), "v4-4"
	case 8:
		ip, tag = net.IPv6loopback, "loopback"
	case 9:
		ip, tag = v6(0x20, 0x01), "global"
	case 10:
		ip, tag = v6(0xfd, byte(r.Intn(256))), "ula"
	case 11:
		ip, tag = v6(0xff, 0x02), "multicast"
	case 12:
		ip, tag = rnd(16), "random16"
	case 13:
		ip, tag = nil, "nil"
	case 14:
		// a slice of the wrong length that starts like a link-local address
		n := verifh.Pick(r, []int{1, 5, 15, 17, 32})
		ip, tag = append([]byte{0xfe, 0x80}, rnd(n)...)[:n], "badlen"
	default:
		// IPv4-mapped prefix with arbitrary low bits
		b := make([]byte, 16)
		b[10], b[11] = 0xff, 0xff
		copy(b[12:], rnd(4))
		if r.Chance(50) {
			b[12], b[13] = 169, 254
		}
		ip, tag = b, "mapped"
	}
	switch r.Intn(10) {
	case 0:
		return lkAddr{a: &net.IPAddr{IP: ip}, ipnet: false, ip: ip, tag: tag + "/IPAddr"}
	case 1:
		return lkAddr{a: &net.TCPAddr{IP: ip}, ipnet: false, ip: ip, tag: tag + "/TCPAddr"}
	}
	return lkAddr{a: &net.IPNet{IP: ip, Mask: net.CIDRMask(64, 128)}, ipnet: true, ip: ip, tag: tag}
}

func TestVerifC10link(t *testing.T) {
	out := verifh.Open()
	defer out.Close()
	r := verifh.NewRand(verifh.Seed(), "C10link")

	n := 3000
	if verifh.Thorough() {
		n = 40000
	}

	// ---- checkInterface
	for i := 0; i < n; i++ {
		id := fmt.Sprintf("c10link-check-%d", i)
		up := r.Chance(80)
		flags := net.Flags(0)
		if up {
			flags |= net.FlagUp
		}
		for _, f := range []net.Flags{net.FlagBroadcast, net.FlagLoopback, net.FlagPointToPoint, net.FlagMulticast, net.FlagRunning} {
			if r.Chance(40) {
				flags |= f
			}
		}
		errClass := dvOK
		if r.Chance(12) {
			errClass = verifh.Pick(r, []int{dvLinkNotReady, dvLinkChange, dvSyscall, dvPerm, dvOther, dvCanceled, dvOpaque})
		}
		variant := r.Intn(6)
		var addrs []lkAddr
		k := r.Intn(6)
		if r.Chance(10) {
			k = 0
		}
		for j := 0; j < k; j++ {
			addrs = append(addrs, lkGenAddr(r))
		}
		if !out.Wants(id) {
			continue
		}

		called := false
		addrFunc := func() ([]net.Addr, error) {
			called = true
			if errClass != dvOK {
				return nil, dvMkErr(errClass, variant)
			}
			as := make([]net.Addr, len(addrs))
			for j, a := range addrs {
				as[j] = a.a
			}
			return as, nil
		}
		ifi := &net.Interface{Index: 1 + r.Intn(8), Name: "verif0", Flags: flags, MTU: 1500}
		err := checkInterface(ifi, addrFunc)
		obs := dvClass(err)

		var res string
		tags := []string{"check"}
		if errClass != dvOK {
			res = "(AErr " + dvErrNames[errClass] + ")"
			tags = append(tags, "addr-error")
		} else {
			var items []string
			for _, a := range addrs {
				items = append(items, fmt.Sprintf("(mkLA %s %s %s)", verifh.B(a.ipnet), verifh.N(uint64(len(a.ip))), lkBytesN(a.ip)))
				tags = append(tags, "addr:"+a.tag)
			}
			res = "(AList " + verifh.List(items) + ")"
		}
		if !up {
			tags = append(tags, "down")
		}
		tags = append(tags, "result:"+map[bool]string{true: "ready", false: "error"}[err == nil])
		var in []string
		for _, a := range addrs {
			in = append(in, fmt.Sprintf("%s %x", a.tag, a.ip))
		}
		out.Emit(verifh.Case{
			ID:       id,
			Coq:      fmt.Sprintf("CCheck %s %s %s %s", verifh.B(up), res, dvOErr(obs), verifh.B(called)),
			Input:    map[string]any{"kind": "check", "flags": flags.String(), "addrs": in, "addr_error": errClass},
			Observed: map[string]any{"class": obs, "addrs_called": called, "error": fmt.Sprint(err)},
			Tags:     tags,
		})
	}

	// ---- isNoSuchInterface: every combination of what it inspects, bare and wrapped
	idx := 0
	for _, isOp := range []bool{true, false} {
		for _, op := range []string{"route", "dial"} {
			for _, nw := range []string{"ip+net", "ip6"} {
				for _, text := range []string{"no such network interface", "invalid network interface name", "no such network interface "} {
					for _, wrap := range []bool{false, true} {
						id := fmt.Sprintf("c10link-nosuch-%d", idx)
						idx++
						if !out.Wants(id) {
							continue
						}
						var err error
						if isOp {
							err = &net.OpError{Op: op, Net: nw, Err: errors.New(text)}
						} else {
							err = errors.New("route ip+net: " + text)
						}
						if wrap {
							err = fmt.Errorf("wrapped: %w", err)
						}
						obs := isNoSuchInterface(err)
						out.Emit(verifh.Case{
							ID: id,
							Coq: fmt.Sprintf("CNoSuch (mkLE %s %s %s %s) %s", verifh.B(isOp), verifh.B(op == "route"), verifh.B(nw == "ip+net"),
								verifh.B(text == "no such network interface"), verifh.B(obs)),
							Input:    map[string]any{"kind": "nosuch", "operr": isOp, "op": op, "net": nw, "text": text, "wrapped": wrap},
							Observed: obs,
							Tags:     []string{"nosuch"},
						})
					}
				}
			}
		}
	}

	// ---- lookupInterface against the host: names that exist, names that do not, the empty name
	present := map[string]bool{}
	if ifis, err := net.Interfaces(); err == nil {
		for _, ifi := range ifis {
			present[ifi.Name] = true
		}
		names := []string{"", "verif-nope0", "lo", "x", "verif0.100"}
		for name := range present {
			names = append(names, name)
		}
		for k, name := range names {
			id := fmt.Sprintf("c10link-lookup-%d", k)
			if !out.Wants(id) {
				continue
			}
			ifi, err := lookupInterface(name)
			if err == nil && (ifi == nil || ifi.Name != name) {
				out.Emit(verifh.Case{ID: id + "-impl", ImplViolation: fmt.Sprintf("lookupInterface(%q) returned %+v without an error", name, ifi)})
			}
			out.Emit(verifh.Case{
				ID:       id,
				Coq:      fmt.Sprintf("CLookup %s %s %s", verifh.B(present[name]), verifh.B(name == ""), dvOErr(dvClass(err))),
				Input:    map[string]any{"kind": "lookup", "name": name, "present": present[name]},
				Observed: fmt.Sprint(err),
				Tags:     []string{"lookup", map[bool]string{true: "lookup:present", false: "lookup:absent"}[present[name]]},
			})
		}
	}

	// ---- sysctlBool on files
	dir := t.TempDir()
	contents := [][]byte{[]byte("1\n"), []byte("0\n"), []byte("1"), []byte("0"), []byte("2\n"), []byte(""), []byte("1\n\n"), []byte(" 1\n"), []byte("1\r\n"), []byte("11\n"), []byte("\n1")}
	for k := 0; k < 40; k++ {
		b := make([]byte, r.Intn(4))
		for i := range b {
			b[i] = verifh.Pick(r, []byte{'0', '1', '2', '\n', ' '})
		}
		contents = append(contents, b)
	}
	for k, c := range contents {
		id := fmt.Sprintf("c10link-sysctl-%d", k)
		if !out.Wants(id) {
			continue
		}
		p := filepath.Join(dir, fmt.Sprintf("f%d", k))
		if err := os.WriteFile(p, c, 0o644); err != nil {
			t.Fatal(err)
		}
		got, err := sysctlBool(p)
		if err != nil {
			t.Fatal(err)
		}
		var items []string
		for _, x := range c {
			items = append(items, verifh.N(uint64(x)))
		}
		out.Emit(verifh.Case{
			ID:       id,
			Coq:      fmt.Sprintf("CSysctl %s %s", verifh.List(items), verifh.B(got)),
			Input:    map[string]any{"kind": "sysctl", "content": string(c)},
			Observed: got,
			Tags:     []string{"sysctl"},
		})
	}
	// a missing file is an error, never "false"
	if _, err := sysctlBool(filepath.Join(dir, "missing")); !errors.Is(err, os.ErrNotExist) {
		out.Emit(verifh.Case{ID: "c10link-sysctl-missing", ImplViolation: fmt.Sprintf("sysctlBool on a missing file: %v", err)})
	}
	if got := sysctl("eth0", "forwarding"); got != "/proc/sys/net/ipv6/conf/eth0/forwarding" {
		out.Emit(verifh.Case{ID: "c10link-sysctl-path", ImplViolation: "sysctl path: " + got})
	}
}
