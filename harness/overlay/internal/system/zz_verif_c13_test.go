//go:build verif && linux

package system

// Verification driver for C13, second case type (Corr.C13sys): the rtnetlink layer which a prepared
// ::/64 wildcard prefix (and the :: RDNSS wildcard, and the ::/0 route wildcard) reads in production --
// the real (*addresser).AddressesByIndex / routesByIndex / LoopbackRoutes with a scripted `execute`
// (the same seam internal/system/addresser_linux_test.go uses).
//
// A scripted answer is a list of well-formed AF_INET6 messages and an error or nil:
//   - the request fails (ENODEV: interface gone between the link notification and the dump; ENOBUFS on
//     the dump; EMFILE when dialing the socket; an opaque error), with nil messages as rtnetlink returns
//     them or with a partial dump: the addresser must return an error ("a failure to list addresses fails
//     RA generation rather than silently advertising nothing");
//   - the request succeeds with 0..n messages: exactly these addresses come back, in order, with their
//     prefix length and the decoded flags (IFA_F_TEMPORARY / DEPRECATED / TENTATIVE / MANAGETEMPADDR /
//     STABLE_PRIVACY, valid-forever = cacheinfo valid 0xffffffff).
//
// Malformed messages (other families, nil attributes, IPv4 / IPv4-mapped addresses) make the addresser
// panic on purpose ("rtnetlink package invariant checks") and are outside the model.

import (
	"encoding/binary"
	"errors"
	"fmt"
	"math"
	"net"
	"net/netip"
	"os/exec"
	"reflect"
	"runtime"
	"strings"
	"sync"
	"syscall"
	"testing"
	"time"

	"github.com/jsimonetti/rtnetlink"
	"github.com/mdlayher/corerad/internal/verifh"
	"github.com/mdlayher/netlink"
	"golang.org/x/sys/unix"
)

type c13Fail struct {
	name string
	err  error
}

var c13Failures = []c13Fail{
	{"none", nil},
	{"ENODEV", &netlink.OpError{Op: "receive", Err: unix.ENODEV}},
	{"ENOBUFS", &netlink.OpError{Op: "receive", Err: unix.ENOBUFS}},
	{"EMFILE", fmt.Errorf("failed to dial rtnetlink: %w", unix.EMFILE)},
	{"EINTR", unix.EINTR},
	{"opaque", errors.New("boom")},
}

// flag words: every single documented bit, bits the addresser must ignore (IFA_F_PERMANENT 0x80,
// IFA_F_NODAD 0x02, IFA_F_OPTIMISTIC 0x04, IFA_F_DADFAILED 0x08, IFA_F_HOMEADDRESS 0x10,
// IFA_F_NOPREFIXROUTE 0x200, IFA_F_MCAUTOJOIN 0x400), neighbours of the documented bits, combinations
var c13FlagWords = []uint32{0, unix.IFA_F_TEMPORARY, unix.IFA_F_DEPRECATED, unix.IFA_F_TENTATIVE, unix.IFA_F_MANAGETEMPADDR,
	unix.IFA_F_STABLE_PRIVACY, unix.IFA_F_PERMANENT, 0x02, 0x04, 0x08, 0x10, 0x200, 0x400, 0x1000, 0x80000000,
	unix.IFA_F_PERMANENT | unix.IFA_F_MANAGETEMPADDR, unix.IFA_F_TEMPORARY | unix.IFA_F_DEPRECATED,
	unix.IFA_F_TENTATIVE | unix.IFA_F_STABLE_PRIVACY | unix.IFA_F_PERMANENT, 0xfff, 0xffffffff, 0xffffffff &^ unix.IFA_F_DEPRECATED}

var c13Valids = []uint32{math.MaxUint32, math.MaxUint32 - 1, 0, 1, 3600, 86400, 1 << 31}

var c13Addrs = []string{"2001:db8::1", "2001:db8:0:1::2", "fd00::1", "fe80::1", "fe80::2a0:ff:fe00:1", "::1", "ff02::1",
	"2001:db8:ffff:ffff:ffff:ffff:ffff:ffff", "fdff:ffff:ffff:ffff::", "2001:db8::1"}

type c13AM struct {
	Addr  string `json:"addr"`
	Plen  uint8  `json:"plen"`
	Flags uint32 `json:"flags"`
	Valid uint32 `json:"valid"`
}

func c13Big(a netip.Addr) string { return verifh.AddrN(a) }

// c13Prefered derives a preferred lifetime from the message deterministically: forever while valid is
// finite, finite while valid is forever, equal, or smaller.
func c13Prefered(am c13AM) uint32 {
	switch (uint32(am.Plen) + am.Flags + am.Valid%7 + uint32(len(am.Addr))) % 4 {
	case 0:
		return math.MaxUint32
	case 1:
		return 1800
	case 2:
		return am.Valid
	}
	return am.Valid / 2
}

func c13IPCoq(ip IP) string {
	a := ip.Address.Addr()
	return verifh.App("mkIP", verifh.B(a.Is4()), c13Big(a), verifh.N(uint64(ip.Address.Bits())),
		verifh.B(ip.Deprecated), verifh.B(ip.ManageTemporaryAddresses), verifh.B(ip.StablePrivacy),
		verifh.B(ip.Temporary), verifh.B(ip.Tentative), verifh.B(ip.ValidForever))
}

// c13Addresses runs AddressesByIndex against one scripted answer.
func c13Addresses(out *verifh.Out, id string, ams []c13AM, f c13Fail, withMsgs bool, tags []string) {
	if !out.Wants(id) {
		return
	}
	const index = 7
	var msgs []rtnetlink.Message
	var cm []string
	for _, am := range ams {
		a := netip.MustParseAddr(am.Addr)
		msgs = append(msgs, &rtnetlink.AddressMessage{Family: unix.AF_INET6, PrefixLength: am.Plen, Index: index,
			Attributes: &rtnetlink.AddressAttributes{Address: net.IP(a.AsSlice()), Flags: am.Flags,
				// preferred lifetime: independent of the valid lifetime (forever / finite in all four combinations);
				// only `valid forever` marks an address as static
				CacheInfo: rtnetlink.CacheInfo{Valid: am.Valid, Prefered: c13Prefered(am)}}})
		cm = append(cm, verifh.App("mkAM", c13Big(a), verifh.N(uint64(am.Plen)), verifh.N(uint64(am.Flags)), verifh.N(uint64(am.Valid))))
	}
	calls, badReq := 0, ""
	a := &addresser{execute: func(m rtnetlink.Message, family uint16, flags netlink.HeaderFlags) ([]rtnetlink.Message, error) {
		calls++
		am, ok := m.(*rtnetlink.AddressMessage)
		if !ok || am.Family != unix.AF_INET6 || am.Index != index || family != unix.RTM_GETADDR || flags != netlink.Request|netlink.Dump {
			badReq = fmt.Sprintf("unexpected request %#v family=%d flags=%v", m, family, flags)
		}
		if f.err != nil && !withMsgs {
			return nil, f.err // what rtnetlink.Conn.Execute / Dial return on failure
		}
		return msgs, f.err
	}}
	var (
		ips      []IP
		err      error
		panicked any
	)
	func() {
		defer func() { panicked = recover() }()
		ips, err = a.AddressesByIndex(index)
	}()
	c := verifh.Case{ID: id, Tags: append(tags, "call:AddressesByIndex", "failure:"+f.name, fmt.Sprintf("msgs:%d", min(len(ams), 5)))}
	obs, obsJ := "(Err 0%N)", any("error")
	if err == nil {
		var items []string
		js := []string{} // "no addresses, no error"
		for _, ip := range ips {
			items = append(items, c13IPCoq(ip))
			js = append(js, fmt.Sprintf("%s dep=%v mng=%v stable=%v temp=%v tent=%v forever=%v", ip.Address, ip.Deprecated,
				ip.ManageTemporaryAddresses, ip.StablePrivacy, ip.Temporary, ip.Tentative, ip.ValidForever))
		}
		obs, obsJ = verifh.App("Ok", verifh.List(items)), js
	}
	switch {
	case panicked != nil:
		c.ImplViolation = fmt.Sprintf("AddressesByIndex panicked on well-formed messages: %v", panicked)
	case badReq != "":
		c.ImplViolation = badReq
	case calls != 1:
		c.ImplViolation = fmt.Sprintf("%d netlink requests for one listing", calls)
	case err != nil && f.err != nil && !errors.Is(err, f.err):
		c.ImplViolation = "AddressesByIndex returned another error than the request's"
	}
	c.Coq = verifh.App("CAddrs", verifh.List(cm), verifh.B(f.err != nil), obs)
	c.Input = map[string]any{"messages": ams, "failure": f.name, "messages_returned_with_error": withMsgs && f.err != nil}
	c.Observed = obsJ
	out.Emit(c)
}

type c13RM struct {
	Dst  string `json:"dst"`
	Len  uint8  `json:"len"`
	Oif  uint32 `json:"oif"`
	Pref int    `json:"pref"` // -1: attribute absent
}

func c13Routes(out *verifh.Out, id string, rms []c13RM, f c13Fail, withMsgs bool, tags []string) {
	if !out.Wants(id) {
		return
	}
	const index = 1
	var msgs []rtnetlink.Message
	var cm []string
	for _, rm := range rms {
		a := netip.MustParseAddr(rm.Dst)
		attrs := rtnetlink.RouteAttributes{Dst: net.IP(a.AsSlice()), OutIface: rm.Oif, Table: unix.RT_TABLE_MAIN}
		// (a default route arrives from the kernel WITHOUT a destination attribute; the real transport rtnlExecute makes it
		// explicit -- the netns case below goes through it; a scripted message with a nil destination is, by the
		// repository's own test, an invariant violation that panics)
		pref := verifh.None()
		if rm.Pref >= 0 {
			p := uint8(rm.Pref)
			attrs.Pref = &p
			pref = verifh.Some(verifh.N(uint64(p)))
		}
		// the route type, table, protocol and scope fields are not looked at: an aggregate is typically anchored on lo as
		// an unreachable / blackhole / prohibit route and is advertised like any other
		k := len(msgs) + int(rm.Len)
		msgs = append(msgs, &rtnetlink.RouteMessage{Family: unix.AF_INET6, DstLength: rm.Len, Attributes: attrs,
			Type:     []uint8{unix.RTN_UNICAST, unix.RTN_UNREACHABLE, unix.RTN_BLACKHOLE, unix.RTN_PROHIBIT, 0}[k%5],
			Protocol: []uint8{unix.RTPROT_BOOT, unix.RTPROT_KERNEL, unix.RTPROT_STATIC, unix.RTPROT_RA, 0}[(k/5)%5],
			Scope:    []uint8{unix.RT_SCOPE_UNIVERSE, unix.RT_SCOPE_LINK, unix.RT_SCOPE_HOST}[(k/3)%3]})
		cm = append(cm, verifh.App("mkRM", c13Big(a), verifh.N(uint64(rm.Len)), verifh.N(uint64(rm.Oif)), pref))
	}
	calls, badReq := 0, ""
	a := &addresser{execute: func(m rtnetlink.Message, family uint16, flags netlink.HeaderFlags) ([]rtnetlink.Message, error) {
		calls++
		rm, ok := m.(*rtnetlink.RouteMessage)
		if !ok || rm.Family != unix.AF_INET6 || rm.Attributes.OutIface != index || family != unix.RTM_GETROUTE || flags != netlink.Request|netlink.Dump {
			badReq = fmt.Sprintf("unexpected request %#v family=%d flags=%v", m, family, flags)
		}
		if f.err != nil && !withMsgs {
			return nil, f.err
		}
		return msgs, f.err
	}}
	var (
		rs       []Route
		err      error
		panicked any
	)
	func() {
		defer func() { panicked = recover() }()
		rs, err = a.routesByIndex(index)
	}()
	c := verifh.Case{ID: id, Tags: append(tags, "call:routesByIndex", "failure:"+f.name, fmt.Sprintf("msgs:%d", min(len(rms), 5)))}
	obs, obsJ := "(Err 0%N)", any("error")
	if err == nil {
		var items []string
		js := []string{}
		for _, r := range rs {
			items = append(items, verifh.App("mkOR", c13Big(r.Prefix.Addr()), verifh.N(uint64(r.Prefix.Bits())), verifh.N(uint64(r.Index)),
				verifh.N(uint64(r.Preference))))
			js = append(js, fmt.Sprintf("%s index=%d pref=%d", r.Prefix, r.Index, int(r.Preference)))
		}
		obs, obsJ = verifh.App("Ok", verifh.List(items)), js
	}
	switch {
	case panicked != nil:
		c.ImplViolation = fmt.Sprintf("routesByIndex panicked on well-formed messages: %v", panicked)
	case badReq != "":
		c.ImplViolation = badReq
	case calls != 1:
		c.ImplViolation = fmt.Sprintf("%d netlink requests for one listing", calls)
	case err != nil && f.err != nil && !errors.Is(err, f.err):
		c.ImplViolation = "routesByIndex returned another error than the request's"
	}
	c.Coq = verifh.App("CRoutes", verifh.List(cm), verifh.B(f.err != nil), obs)
	c.Input = map[string]any{"messages": rms, "failure": f.name, "messages_returned_with_error": withMsgs && f.err != nil}
	c.Observed = obsJ
	out.Emit(c)
}

func TestVerifC13Addresser(t *testing.T) {
	out := verifh.Open()
	defer out.Close()

	// ---- (1) every failure class x {nil messages, partial dump} x 0..3 messages
	base := []c13AM{{"2001:db8::1", 64, unix.IFA_F_PERMANENT, math.MaxUint32}, {"fd00::1", 64, unix.IFA_F_TEMPORARY, 3600},
		{"fe80::1", 64, unix.IFA_F_PERMANENT, math.MaxUint32}}
	rbase := []c13RM{{"2001:db8::", 48, 1, -1}, {"fd00::", 8, 1, 1}, {"::", 0, 1, 3}}
	for _, f := range c13Failures {
		for n := 0; n <= len(base); n++ {
			for _, with := range []bool{false, true} {
				if f.err == nil && with {
					continue
				}
				tag := "answer:nil-messages"
				if with && n > 0 {
					tag = "answer:partial-dump-with-error"
				}
				if f.err == nil {
					tag = "answer:ok"
				}
				c13Addresses(out, fmt.Sprintf("c13sys-fail-%s-%d-%v", f.name, n, with), base[:n], f, with, []string{"stream:failure-classes", tag})
				c13Routes(out, fmt.Sprintf("c13sys-rfail-%s-%d-%v", f.name, n, with), rbase[:n], f, with, []string{"stream:failure-classes", tag})
			}
		}
	}

	// ---- (2) flag decoding table: every flag word x every valid-lifetime class, one message each
	for i, fw := range c13FlagWords {
		for j, v := range c13Valids {
			c13Addresses(out, fmt.Sprintf("c13sys-flags-%d-%d", i, j), []c13AM{{c13Addrs[(i+j)%len(c13Addrs)], 64, fw, v}}, c13Failures[0], false,
				[]string{"stream:flag-table"})
		}
	}
	// every prefix length
	for plen := 0; plen <= 128; plen++ {
		c13Addresses(out, fmt.Sprintf("c13sys-plen-%d", plen), []c13AM{{"2001:db8:1:2:3:4:5:6", uint8(plen), unix.IFA_F_PERMANENT, math.MaxUint32}},
			c13Failures[0], false, []string{"stream:prefix-lengths"})
	}
	// route preferences: absent and every 2-bit value, a few raw values beyond
	for _, p := range []int{-1, 0, 1, 2, 3, 4, 255} {
		c13Routes(out, fmt.Sprintf("c13sys-rpref-%d", p), []c13RM{{"2001:db8:aa::", 48, 1, p}, {"fd00:1::", 32, 1, -1}}, c13Failures[0], false,
			[]string{"stream:route-preference"})
	}

	// ---- (3) random dumps (mostly succeeding), random flag words with the documented bits biased
	n := 300
	if verifh.Thorough() {
		n = 6000
	}
	for i := 0; i < n; i++ {
		id := fmt.Sprintf("c13sys-rand-%d", i)
		if !out.Wants(id) && !out.Wants(id+"-r") {
			continue
		}
		r := verifh.NewRand(verifh.Seed(), id)
		var ams []c13AM
		for k := r.Intn(7); k > 0; k-- {
			fw := uint32(0)
			for _, b := range []uint32{unix.IFA_F_TEMPORARY, unix.IFA_F_DEPRECATED, unix.IFA_F_TENTATIVE, unix.IFA_F_MANAGETEMPADDR,
				unix.IFA_F_STABLE_PRIVACY, unix.IFA_F_PERMANENT, 0x02, 0x200} {
				if r.Chance(25) {
					fw |= b
				}
			}
			if r.Chance(10) {
				fw = uint32(r.Uint64())
			}
			ams = append(ams, c13AM{verifh.Pick(r, c13Addrs), verifh.Pick(r, []uint8{64, 64, 64, 128, 48, 56, 0, 127}), fw, verifh.Pick(r, c13Valids)})
		}
		f := c13Failures[0]
		if r.Chance(25) {
			f = c13Failures[1+r.Intn(len(c13Failures)-1)]
		}
		c13Addresses(out, id, ams, f, r.Chance(30), []string{"stream:random"})
		var rms []c13RM
		for k := r.Intn(5); k > 0; k-- {
			rms = append(rms, c13RM{verifh.Pick(r, []string{"2001:db8::", "fd00::", "::", "2001:db8:ffff::", "64:ff9b::"}),
				verifh.Pick(r, []uint8{0, 32, 48, 64, 96, 128}), 1, verifh.Pick(r, []int{-1, -1, 0, 1, 3})})
		}
		c13Routes(out, id+"-r", rms, f, r.Chance(30), []string{"stream:random"})
	}

	// ---- (4) LoopbackRoutes on this machine's interfaces: when the route request fails for a loopback
	// interface, the listing as a whole must fail (assertion on the implementation only: which interfaces
	// exist is not an input of the model)
	for _, f := range c13Failures[1:] {
		id := "c13sys-loopback-" + f.name
		if !out.Wants(id) {
			continue
		}
		calls := 0
		a := &addresser{execute: func(rtnetlink.Message, uint16, netlink.HeaderFlags) ([]rtnetlink.Message, error) {
			calls++
			return nil, f.err
		}}
		rs, err := a.LoopbackRoutes()
		c := verifh.Case{ID: id, Tags: []string{"stream:loopback-routes", "failure:" + f.name, fmt.Sprintf("requests:%d", min(calls, 2))},
			Input: map[string]any{"failure": f.name}, Observed: map[string]any{"requests": calls, "error": err != nil, "routes": len(rs)}}
		if calls > 0 && err == nil {
			c.ImplViolation = fmt.Sprintf("LoopbackRoutes made %d route requests, all failed (%s), and returned %d routes without an error", calls, f.name, len(rs))
		}
		out.Emit(c)
	}

	// ---- (6) loopback routes follow the system, not the first look at it (private network namespace, root only):
	// a new namespace starts with `lo` down and without routes; the same Addresser must report a route added to
	// `lo` after it was brought up
	if out.Wants("c13sys-netns-loopback") {
		c := verifh.Case{ID: "c13sys-netns-loopback", Tags: []string{"stream:netns-loopback"}, Input: map[string]any{"kind": "netns-loopback"}}
		res := make(chan string, 1)
		go func() {
			runtime.LockOSThread() // this thread moves into the new namespace and dies with the goroutine
			if err := syscall.Unshare(syscall.CLONE_NEWNET); err != nil {
				res <- "unavailable: " + err.Error()
				return
			}
			ip := func(arg ...string) error {
				bin, err := exec.LookPath("ip")
				if err != nil {
					return err
				}
				if out, err := exec.Command(bin, arg...).CombinedOutput(); err != nil {
					return fmt.Errorf("ip %v: %v: %s", arg, err, out)
				}
				return nil
			}
			a := NewAddresser()
			first, err := a.LoopbackRoutes()
			if err != nil {
				res <- "unavailable: " + err.Error()
				return
			}
			if err := ip("link", "set", "lo", "up"); err != nil {
				res <- "unavailable: " + err.Error()
				return
			}
			if err := ip("-6", "route", "add", "2001:db8:77::/48", "dev", "lo"); err != nil {
				res <- "unavailable: " + err.Error()
				return
			}
			has := func(rs []Route) bool {
				for _, r := range rs {
					if r.Prefix == netip.MustParsePrefix("2001:db8:77::/48") {
						return true
					}
				}
				return false
			}
			// a default route anchored on lo (a common fallback: `unreachable default metric 4096`) is a loopback route
			// like any other; its dump message has no destination attribute
			if ip("-6", "route", "add", "unreachable", "default", "metric", "4096") == nil {
				var rs []Route
				var derr error
				var pan any
				func() {
					defer func() { pan = recover() }()
					rs, derr = NewAddresser().LoopbackRoutes()
				}()
				hasDefault := false
				for _, r := range rs {
					if r.Prefix == netip.MustParsePrefix("::/0") {
						hasDefault = true
					}
				}
				if pan != nil || derr != nil || !hasDefault {
					res <- fmt.Sprintf("with `unreachable default` in the main table (the kernel anchors it on lo) LoopbackRoutes gives %v (error %v, panic %v), want the routes including ::/0", rs, derr, pan)
					return
				}
				_ = ip("-6", "route", "del", "unreachable", "default", "metric", "4096")
			}
			// the IPv4-mapped range rejected on lo (RHEL-style network scripts install `unreachable ::ffff:0.0.0.0/96`):
			// not a route anybody can advertise, and no reason to stop advertising the others
			if ip("-6", "route", "add", "unreachable", "::ffff:0.0.0.0/96", "dev", "lo") == nil {
				var rs []Route
				var derr error
				var pan any
				func() {
					defer func() { pan = recover() }()
					rs, derr = NewAddresser().LoopbackRoutes()
				}()
				if pan != nil || derr != nil || !has(rs) {
					res <- fmt.Sprintf("with `unreachable ::ffff:0.0.0.0/96 dev lo` LoopbackRoutes gives %v (error %v, panic %v), want the other routes of lo", rs, derr, pan)
					return
				}
				_ = ip("-6", "route", "del", "unreachable", "::ffff:0.0.0.0/96", "dev", "lo")
			}
			later, err1 := a.LoopbackRoutes()
			fresh, err2 := NewAddresser().LoopbackRoutes()
			switch {
			case err2 != nil || !has(fresh):
				res <- fmt.Sprintf("unavailable: a fresh Addresser does not see the route either (%v, %v)", fresh, err2)
			case has(first):
				res <- "the route was reported before it existed"
			case err1 != nil || !has(later):
				res <- fmt.Sprintf("an Addresser first used while lo was down never reports the route added later: %v (error %v); a fresh one reports %v", later, err1, fresh)
			default:
				res <- ""
			}
		}()
		if r := <-res; strings.HasPrefix(r, "unavailable") {
			c.Tags = append(c.Tags, "real-netlink:unavailable")
			c.Observed = r
		} else {
			c.ImplViolation = r
		}
		out.Emit(c)
	}

	// ---- (9) the real transport, two interfaces, dumps really at the same time (several threads inside one private
	// network namespace): every caller gets the addresses of ITS interface
	if out.Wants("c13sys-netns-concurrent") {
		c := verifh.Case{ID: "c13sys-netns-concurrent", Tags: []string{"stream:netns-concurrent"}, Input: map[string]any{"kind": "netns-concurrent"}}
		res := make(chan string, 1)
		go func() {
			runtime.LockOSThread()
			if err := syscall.Unshare(syscall.CLONE_NEWNET); err != nil {
				res <- "unavailable: " + err.Error()
				return
			}
			ip := func(arg ...string) error {
				bin, err := exec.LookPath("ip")
				if err != nil {
					return err
				}
				if out, err := exec.Command(bin, arg...).CombinedOutput(); err != nil {
					return fmt.Errorf("ip %v: %v: %s", arg, err, out)
				}
				return nil
			}
			for _, a := range [][]string{{"link", "set", "lo", "up"}, {"link", "add", "vca", "type", "veth", "peer", "name", "vcb"}, {"link", "set", "vca", "up"}, {"link", "set", "vcb", "up"},
				{"-6", "addr", "add", "2001:db8:ca::1/64", "dev", "vca", "nodad"}, {"-6", "addr", "add", "2001:db8:cb::1/64", "dev", "vcb", "nodad"}} {
				if err := ip(a...); err != nil {
					res <- "unavailable: " + err.Error()
					return
				}
			}
			ia, e1 := net.InterfaceByName("vca")
			ib, e2 := net.InterfaceByName("vcb")
			nsfd, e3 := syscall.Open(fmt.Sprintf("/proc/self/task/%d/ns/net", syscall.Gettid()), syscall.O_RDONLY|syscall.O_CLOEXEC, 0)
			if e1 != nil || e2 != nil || e3 != nil {
				res <- fmt.Sprintf("unavailable: %v %v %v", e1, e2, e3)
				return
			}
			defer syscall.Close(nsfd)
			var mu sync.Mutex
			var viol string
			var wg sync.WaitGroup
			for g := 0; g < 8; g++ {
				wg.Add(1)
				go func(g int) {
					defer wg.Done()
					runtime.LockOSThread() // joins the namespace; the thread is thrown away with the goroutine
					if err := unix.Setns(nsfd, unix.CLONE_NEWNET); err != nil {
						return
					}
					ifi, want := ia, "2001:db8:ca::1/64"
					if g%2 == 1 {
						ifi, want = ib, "2001:db8:cb::1/64"
					}
					a := NewAddresser()
					for r := 0; r < 400; r++ {
						ips, err := a.AddressesByIndex(ifi.Index)
						ok := err == nil
						if ok {
							ok = false
							for _, x := range ips {
								if x.Address.String() == want {
									ok = true
								}
								if x.Address.String() == "2001:db8:ca::1/64" && want != x.Address.String() || x.Address.String() == "2001:db8:cb::1/64" && want != x.Address.String() {
									ok = false
									break
								}
							}
						}
						if !ok {
							mu.Lock()
							if viol == "" {
								viol = fmt.Sprintf("AddressesByIndex(%s), called while dumps for the other interface run on other threads, returned %v (error %v), want %s and not the other interface's address", ifi.Name, ips, err, want)
							}
							mu.Unlock()
							return
						}
					}
				}(g)
			}
			wg.Wait()
			res <- viol
		}()
		if r := <-res; strings.HasPrefix(r, "unavailable") {
			c.Tags = append(c.Tags, "real-netlink:unavailable")
			c.Observed = r
		} else {
			c.ImplViolation = r
		}
		out.Emit(c)
	}

	// ---- (7) dumps for several interfaces at once (one Addresser, as when one were shared): every caller gets the
	// addresses of ITS interface, whatever the index -- long-running hosts with container churn reach indices far
	// above 65535 -- and a slow dump of one interface never answers another
	if out.Wants("c13sys-concurrent-indices") {
		var mu sync.Mutex
		var viol []string
		a := &addresser{execute: func(m rtnetlink.Message, family uint16, flags netlink.HeaderFlags) ([]rtnetlink.Message, error) {
			am, ok := m.(*rtnetlink.AddressMessage)
			if !ok {
				return nil, errors.New("not an address request")
			}
			time.Sleep(300 * time.Microsecond) // the dump takes a while
			var b [16]byte
			b[0], b[1] = 0x20, 0x01
			binary.BigEndian.PutUint32(b[12:], am.Index)
			return []rtnetlink.Message{&rtnetlink.AddressMessage{Family: unix.AF_INET6, PrefixLength: 64, Index: am.Index,
				Attributes: &rtnetlink.AddressAttributes{Address: net.IP(b[:]), CacheInfo: rtnetlink.CacheInfo{Valid: math.MaxUint32, Prefered: math.MaxUint32}}}}, nil
		}}
		indices := []int{1, 2, 7, 255, 256, 0xd7ff, 0xd800, 0xd801, 0xdfff, 0xe000, 0xffff, 0x10000, 0x10001, 0x10ffff, 0x110000, 0x110001, 0x7ffffff0, 0x7fffffff}
		var wg sync.WaitGroup
		for _, idx := range indices {
			wg.Add(1)
			go func(idx int) {
				defer wg.Done()
				for r := 0; r < 40; r++ {
					ips, err := a.AddressesByIndex(idx)
					var b [16]byte
					b[0], b[1] = 0x20, 0x01
					binary.BigEndian.PutUint32(b[12:], uint32(idx))
					if want := netip.PrefixFrom(netip.AddrFrom16(b), 64); err != nil || len(ips) != 1 || ips[0].Address != want {
						mu.Lock()
						if len(viol) < 3 {
							viol = append(viol, fmt.Sprintf("AddressesByIndex(%d), called while dumps for other interfaces run, returned %v (error %v), want [%s]", idx, ips, err, want))
						}
						mu.Unlock()
						return
					}
				}
			}(idx)
		}
		wg.Wait()
		out.Emit(verifh.Case{ID: "c13sys-concurrent-indices", Tags: []string{"stream:concurrent-indices"}, Input: map[string]any{"kind": "concurrent-indices", "indices": indices},
			ImplViolation: strings.Join(viol, "; ")})
	}

	// ---- (8) what NewAddresser hands out does not depend on the moment it is called: constructed while the
	// process has no file descriptor left (Prepare runs at every re-dial, also under pressure) and used after
	// the pressure is gone, it answers as an Addresser constructed at leisure does -- the same addresses with
	// the same flags -- or fails; it never degrades silently to answers without address flags
	if out.Wants("c13sys-fd-pressure") {
		c := verifh.Case{ID: "c13sys-fd-pressure", Tags: []string{"stream:fd-pressure"}, Input: map[string]any{"kind": "fd-pressure"}}
		lo, lerr := net.InterfaceByName("lo")
		var ref []IP
		var rerr error
		if lerr == nil {
			ref, rerr = NewAddresser().AddressesByIndex(lo.Index)
		}
		var lim syscall.Rlimit
		if lerr != nil || rerr != nil || len(ref) == 0 || syscall.Getrlimit(syscall.RLIMIT_NOFILE, &lim) != nil {
			c.Tags = append(c.Tags, "real-netlink:unavailable")
		} else {
			low := lim
			low.Cur = 256
			if low.Cur > lim.Cur {
				low.Cur = lim.Cur
			}
			var held []int
			if err := syscall.Setrlimit(syscall.RLIMIT_NOFILE, &low); err == nil {
				for {
					fd, err := syscall.Open("/dev/null", syscall.O_RDONLY|syscall.O_CLOEXEC, 0)
					if err != nil {
						break
					}
					held = append(held, fd)
				}
			}
			a := NewAddresser() // no descriptor is available right now
			for _, fd := range held {
				syscall.Close(fd)
			}
			_ = syscall.Setrlimit(syscall.RLIMIT_NOFILE, &lim)
			got, err := a.AddressesByIndex(lo.Index)
			again, err2 := NewAddresser().AddressesByIndex(lo.Index)
			c.Observed = map[string]any{"held": len(held), "reference": fmt.Sprint(ref), "got": fmt.Sprint(got), "error": fmt.Sprint(err)}
			if len(held) == 0 || err2 != nil || !reflect.DeepEqual(again, ref) {
				c.Tags = append(c.Tags, "real-netlink:unavailable") // the loopback addresses moved meanwhile, or no pressure could be built
			} else if err == nil && !reflect.DeepEqual(got, ref) {
				c.ImplViolation = fmt.Sprintf("an Addresser constructed while no file descriptor was available answers %v for lo; one constructed at leisure answers %v", got, ref)
			}
		}
		out.Emit(c)
	}

	// ---- (5) the real rtnetlink transport (rtnlExecute), when this host lets an unprivileged socket dump
	// addresses: the loopback interface has ::1/128; an interface index that does not exist is an ERROR,
	// never an empty list ("a failure to list addresses fails RA generation": an interface that vanished
	// or was re-created under a new index must not silently advertise nothing)
	if out.Wants("c13sys-real-netlink") {
		real := NewAddresser()
		c := verifh.Case{ID: "c13sys-real-netlink", Tags: []string{"stream:real-netlink"}, Input: map[string]any{"kind": "real-netlink"}}
		lo, lerr := net.InterfaceByName("lo")
		if lerr != nil {
			c.Tags = append(c.Tags, "real-netlink:no-loopback")
		} else if ips, err := real.AddressesByIndex(lo.Index); err != nil {
			c.Tags = append(c.Tags, "real-netlink:unavailable")
			c.Observed = fmt.Sprint(err)
		} else {
			c.Tags = append(c.Tags, "real-netlink:available")
			for _, ip := range ips {
				if ip.Address.Addr().Is4() || ip.Address.Addr().Is4In6() {
					c.ImplViolation = fmt.Sprintf("AddressesByIndex(lo) returned a non-IPv6 address %s", ip.Address)
				}
			}
			unused := 0
			if ifis, err := net.Interfaces(); err == nil {
				for _, ifi := range ifis {
					unused = max(unused, ifi.Index)
				}
				unused += 100000
			}
			ips2, err2 := real.AddressesByIndex(unused)
			c.Observed = map[string]any{"lo": len(ips), "unused_index": unused, "unused_error": fmt.Sprint(err2), "unused_addrs": len(ips2)}
			if err2 == nil && c.ImplViolation == "" {
				c.ImplViolation = fmt.Sprintf("AddressesByIndex(%d) for an interface index that does not exist returned %d addresses and no error", unused, len(ips2))
			}
		}
		out.Emit(c)
	}
}
