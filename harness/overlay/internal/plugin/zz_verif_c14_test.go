//go:build verif

package plugin_test

import (
	"errors"
	"fmt"
	"net/netip"
	"slices"
	"testing"
	"time"

	"github.com/mdlayher/corerad/internal/plugin"
	"github.com/mdlayher/corerad/internal/system"
	"github.com/mdlayher/corerad/internal/verifh"
	"github.com/mdlayher/corerad/internal/verifw"
	"github.com/mdlayher/ndp"
)

// c14Pool covers class (ULA, GUA, link-local, other) x stability source (valid-forever,
// manage-temporary, stable-privacy, EUI-64 pattern, none) x exclusion flag (deprecated,
// temporary, tentative, IPv4), and one address listed with two different flag sets.
func c14Pool() []system.IP {
	return []system.IP{
		verifw.IP("fd00::1/64", ""),                      // 0 ULA, not stable
		verifw.IP("fd00::2/64", "f"),                     // 1 ULA, valid forever
		verifw.IP("2001:db8::1/64", ""),                  // 2 GUA, not stable
		verifw.IP("2001:db8::2/64", "m"),                 // 3 GUA, manage temporary addresses
		verifw.IP("2001:db8::211:22ff:fe33:4455/64", ""), // 4 GUA, EUI-64 pattern
		verifw.IP("fe80::1/64", "s"),                     // 5 link-local, stable privacy
		verifw.IP("fe80::2/64", ""),                      // 6 link-local, not stable
		verifw.IP("fd00::/64", "fd"),                     // 7 best rank but deprecated
		verifw.IP("fd00::3/64", "ft"),                    // 8 temporary
		verifw.IP("2001:db8::/64", "fn"),                 // 9 tentative
		verifw.IP("::1/128", ""),                         // 10 loopback: none of the classes
		verifw.IP("192.0.2.1/24", "f"),                   // 11 IPv4
		verifw.IP("fd00::1/64", "f"),                     // 12 the address of 0 with another flag set
		verifw.IP("2001:db8::3/128", "s"),                // 13 GUA, stable privacy, host length
		verifw.IP("ff02::1/128", ""),                     // 14 multicast: none of the classes, above ::1
	}
}

// TestVerifC14 runs RDNSS.Apply with the :: wildcard on injected address lists.
func TestVerifC14(t *testing.T) {
	out := verifh.Open()
	defer out.Close()

	statics := []netip.Addr{netip.MustParseAddr("2001:db8::53"), netip.MustParseAddr("fd00::1"),
		netip.MustParseAddr("fd00::53"), netip.MustParseAddr("2001:db8::1"), netip.MustParseAddr("fe80::53")}

	emit := func(id string, ips []system.IP, mode string, r *verifh.Rand, tags []string) {
		auto := !r.Chance(5)
		lifetime := verifh.Pick(r, []int64{0, 1e9, 1800e9, 3600e9, 4294967295e9})
		var servers []netip.Addr
		for _, s := range statics {
			if r.Chance(25) {
				servers = append(servers, s)
			}
		}
		slices.SortFunc(servers, func(a, b netip.Addr) int { return a.Compare(b) }) // as the parser leaves them
		p := &plugin.RDNSS{Auto: auto, Lifetime: time.Duration(lifetime), Servers: slices.Clone(servers)}
		addrsCoq := verifh.Some(verifw.IPsCoq(ips))
		switch mode {
		case "ok":
			in := append([]system.IP(nil), ips...)
			p.Addrs = func() ([]system.IP, error) { return in, nil }
		case "error":
			p.Addrs = func() ([]system.IP, error) { return nil, errors.New("netlink: boom") }
			addrsCoq = verifh.None()
		case "unprepared":
			addrsCoq = verifh.None()
		}
		ra := &ndp.RouterAdvertisement{}
		err := p.Apply(ra)
		c := verifh.Case{ID: id, Tags: append(tags, "source:"+mode, fmt.Sprintf("n:%d", min(len(ips), 8)),
			"auto:"+verifh.B(auto), fmt.Sprintf("static:%d", len(servers)))}
		if err != nil && len(ra.Options) != 0 {
			c.ImplViolation = "Apply returned an error but left options in the RA"
		}
		if !slices.Equal(p.Servers, servers) {
			c.ImplViolation = "Apply modified the plugin's static server list"
		}
		if err == nil {
			c.Tags = append(c.Tags, "result:server")
		} else {
			c.Tags = append(c.Tags, "result:error")
		}
		var ss, sj []string
		for _, s := range servers {
			ss = append(ss, verifw.AddrN(s))
			sj = append(sj, s.String())
		}
		obsCoq, obsJ := verifw.Result(ra, err)
		// the same plugin value builds every RA of the advertiser's life: apply it once more
		ra2 := &ndp.RouterAdvertisement{}
		err2 := p.Apply(ra2)
		obs2Coq, _ := verifw.Result(ra2, err2)
		if !slices.Equal(p.Servers, servers) {
			c.ImplViolation = "Apply modified the plugin's static server list"
		}
		c.Coq = verifh.App("mkCase", verifh.None(),
			verifh.App("Ok", verifh.Pair(verifh.B(auto), verifh.List(ss))),
			verifh.Z(lifetime), addrsCoq, obsCoq, verifh.List([]string{obs2Coq}))
		c.Input = map[string]any{"addrs": verifw.IPsJSON(ips), "source": mode, "auto": auto, "static": sj, "lifetime_ns": lifetime}
		c.Observed = obsJ
		out.Emit(c)
	}

	// ---- bounded-exhaustive: every sequence of pool entries of length <= 3 (quick) / 4 (thorough)
	pool := c14Pool()
	maxLen := 3
	if verifh.Thorough() {
		maxLen = 4
	}
	verifw.Seqs(len(pool), maxLen, func(seq []int) {
		id := "c14-seq-" + verifw.SeqID(seq)
		if !out.Wants(id) {
			return
		}
		ips := make([]system.IP, 0, len(seq))
		for _, i := range seq {
			ips = append(ips, pool[i])
		}
		tag := "stream:subset-permutation"
		if !verifw.Distinct(seq) {
			tag = "stream:with-duplicates"
		}
		emit(id, ips, "ok", verifh.NewRand(verifh.Seed(), id), []string{tag})
	})

	// ---- listing failure / not prepared
	for i, mode := range []string{"error", "unprepared"} {
		id := fmt.Sprintf("c14-fail-%d", i)
		if out.Wants(id) {
			emit(id, pool[:3], mode, verifh.NewRand(verifh.Seed(), id), []string{"stream:failure"})
		}
	}

	// ---- random lists up to length 40: random class x host part x flags
	n := 500
	if verifh.Thorough() {
		n = 8000
	}
	his := []uint64{0xfd00000000000000, 0xfc00000000000000, 0xfdffffffffffffff, 0xfbffffffffffffff, 0xfe00000000000000,
		0x20010db800000000, 0x2a00000000000001, 0xfe80000000000000, 0xfebfffffffffffff, 0xfec0000000000000, 0xfe7fffffffffffff,
		0x0, 0xff02000000000000, 0xff00000000000000, 0xfeffffffffffffff}
	los := []uint64{0, 1, 2, 0x021122fffe334455, 0x000000fffe000000, 0x000000fffd000000, 0x000000fefe000000, 0x0000ffff0a000001, 0xffffffffffffffff}
	for i := 0; i < n; i++ {
		id := fmt.Sprintf("c14-rand-%d", i)
		if !out.Wants(id) {
			continue
		}
		r := verifh.NewRand(verifh.Seed(), id)
		k := r.Intn(41)
		if r.Chance(50) {
			k = r.Intn(8)
		}
		ips := make([]system.IP, 0, k)
		for j := 0; j < k; j++ {
			var ip system.IP
			switch {
			case r.Chance(6):
				ip.Address = netip.PrefixFrom(netip.AddrFrom4([4]byte{byte(r.Intn(256)), byte(r.Intn(256)), 0, byte(r.Intn(4))}), r.Intn(33))
			case r.Chance(6):
				// IPv4-mapped IPv6: classified by the embedded IPv4 address
				v4 := verifh.Pick(r, [][4]byte{{169, 254, 1, 1}, {10, 0, 0, 1}, {172, 16, 0, 1}, {172, 32, 0, 1}, {192, 168, 1, 1},
					{8, 8, 8, 8}, {127, 0, 0, 1}, {224, 0, 0, 1}, {0, 0, 0, 0}, {255, 255, 255, 255}, {254, 1, 1, 1}})
				ip.Address = netip.PrefixFrom(netip.AddrFrom16(netip.AddrFrom4(v4).As16()), verifh.Pick(r, []int{64, 96, 128}))
			case len(ips) > 0 && r.Chance(10):
				ip = ips[r.Intn(len(ips))] // exact duplicate
			case len(ips) > 0 && r.Chance(10):
				ip.Address = ips[r.Intn(len(ips))].Address // same address, other flags
			default:
				lo := verifh.Pick(r, los)
				if r.Chance(30) {
					lo = r.Uint64()
				}
				ip.Address = netip.PrefixFrom(verifw.Addr16(verifh.Pick(r, his), lo), verifh.Pick(r, []int{64, 64, 64, 48, 128}))
			}
			if r.Chance(60) {
				ip.Deprecated, ip.Temporary, ip.Tentative = r.Chance(15), r.Chance(15), r.Chance(15)
				ip.ManageTemporaryAddresses, ip.StablePrivacy, ip.ValidForever = r.Chance(20), r.Chance(20), r.Chance(20)
			}
			ips = append(ips, ip)
		}
		emit(id, ips, "ok", r, []string{"stream:random"})
	}

	// ---- Prepare itself: rebinding the address source (implementation-only, real rtnetlink dumps)
	c14PrepareStream(out)
}
