//go:build verif

package plugin_test

import (
	"errors"
	"fmt"
	"net/netip"
	"testing"
	"time"

	"github.com/mdlayher/corerad/internal/plugin"
	"github.com/mdlayher/corerad/internal/system"
	"github.com/mdlayher/corerad/internal/verifh"
	"github.com/mdlayher/corerad/internal/verifw"
	"github.com/mdlayher/ndp"
)

// c13Pool mixes ULA / GUA / link-local / IPv4, lengths 48/64/128, every flag, exact duplicates
// (by repetition in the sequences), several hosts in one /64 and the edges of fe80::/10.
func c13Pool() []system.IP {
	return []system.IP{
		verifw.IP("fd00:1::1/64", ""),                        // 0 ULA
		verifw.IP("fd00:1::2/64", "f"),                       // 1 second host in the same /64
		verifw.IP("2001:db8:1::1/64", "m"),                   // 2 GUA
		verifw.IP("2001:db8:1::5/64", "t"),                   // 3 temporary host in the /64 of 2
		verifw.IP("2001:db8:2::1/64", "n"),                   // 4 tentative
		verifw.IP("2001:db8:2:0:ffff:ffff:ffff:ffff/64", ""), // 5 eligible host in the /64 of 4, all host bits set
		verifw.IP("2001:db8:3::1/48", ""),                    // 6 other length
		verifw.IP("2001:db8:4::1/128", "s"),                  // 7 host address
		verifw.IP("fe80::1/64", "f"),                         // 8 link-local
		verifw.IP("febf:ffff::1/64", ""),                     // 9 last link-local /64s
		verifw.IP("fec0::1/64", ""),                          // 10 first address above fe80::/10 (eligible)
		verifw.IP("192.0.2.1/24", ""),                        // 11 IPv4
		verifw.IP("2001:db8::/64", "d"),                      // 12 deprecated (still advertised), already masked, sorts first among GUA
		verifw.IP("fd00:0:ffff:ffff::1/64", "sd"),            // 13 sorts before fd00:1::
	}
}

// TestVerifC13 runs Prefix.Apply with the ::/64 wildcard on injected address lists.
func TestVerifC13(t *testing.T) {
	out := verifh.Open()
	defer out.Close()

	emit := func(id string, bits int, ips []system.IP, mode string, r *verifh.Rand, tags []string) {
		valid, pref, dep, epoch, now := verifw.Lifetimes(r)
		onlink, auto := r.Bool(), r.Bool()
		// The clock either stands still during one Apply or advances on every reading: every option expanded
		// from the stanza carries the lifetimes at ONE instant (the first reading, c_now).
		tick, reads := int64(0), int64(0)
		if r.Chance(50) {
			tick = verifh.Pick(r, []int64{1, 1e6, 1e9, 7e9, pref / 2})
		}
		p := &plugin.Prefix{
			Auto: true, Prefix: netip.PrefixFrom(netip.IPv6Unspecified(), bits),
			OnLink: onlink, Autonomous: auto,
			ValidLifetime: time.Duration(valid), PreferredLifetime: time.Duration(pref),
			Deprecated: dep, Epoch: time.Unix(0, epoch),
			TimeNow: func() time.Time { reads++; return time.Unix(0, now+(reads-1)*tick) },
		}
		addrsCoq := verifh.Some(verifw.IPsCoq(ips))
		switch mode {
		case "ok":
			in := append([]system.IP(nil), ips...)
			p.Addrs = func() ([]system.IP, error) { return in, nil }
		case "error":
			p.Addrs = func() ([]system.IP, error) { return nil, errors.New("netlink: boom") }
			addrsCoq = verifh.None()
		case "unprepared":
			addrsCoq = verifh.None()
		}
		ra := &ndp.RouterAdvertisement{}
		err := p.Apply(ra)
		c := verifh.Case{ID: id, Tags: append(tags, "source:"+mode, fmt.Sprintf("n:%d", min(len(ips), 8)), fmt.Sprintf("bits:%d", bits), "deprecated:"+verifh.B(dep),
			fmt.Sprintf("clock-ticks-within-apply:%v", tick > 0))}
		if dep && tick > 0 && len(ra.Options) >= 2 {
			c.Tags = append(c.Tags, "deprecated+ticking-clock+several-prefixes")
		}
		if err != nil && len(ra.Options) != 0 {
			c.ImplViolation = "Apply returned an error but left options in the RA"
		}
		obsCoq, obsJ := verifw.Result(ra, err)
		c.Coq = verifh.App("mkCase", verifh.N(uint64(bits)), verifh.B(onlink), verifh.B(auto), verifh.Z(valid), verifh.Z(pref),
			verifh.B(dep), verifh.Z(epoch), verifh.Z(now), addrsCoq, obsCoq)
		c.Input = map[string]any{"bits": bits, "addrs": verifw.IPsJSON(ips), "source": mode, "onlink": onlink, "autonomous": auto,
			"valid_ns": valid, "preferred_ns": pref, "deprecated": dep, "epoch_ns": epoch, "now_ns": now, "clock_tick_per_reading_ns": tick}
		c.Observed = obsJ
		out.Emit(c)
	}

	// ---- bounded-exhaustive: every sequence of pool entries of length <= 3 (quick) / 4 (thorough)
	pool := c13Pool()
	maxLen := 3
	if verifh.Thorough() {
		maxLen = 4
	}
	verifw.Seqs(len(pool), maxLen, func(seq []int) {
		id := "c13-seq-" + verifw.SeqID(seq)
		if !out.Wants(id) {
			return
		}
		ips := make([]system.IP, 0, len(seq))
		for _, i := range seq {
			ips = append(ips, pool[i])
		}
		tag := "stream:subset-permutation"
		if !verifw.Distinct(seq) {
			tag = "stream:with-duplicates"
		}
		emit(id, 64, ips, "ok", verifh.NewRand(verifh.Seed(), id), []string{tag})
	})

	// ---- listing failure / not prepared
	for i, mode := range []string{"error", "unprepared"} {
		id := fmt.Sprintf("c13-fail-%d", i)
		if out.Wants(id) {
			emit(id, 64, pool[:3], mode, verifh.NewRand(verifh.Seed(), id), []string{"stream:failure"})
		}
	}

	// ---- random lists up to length 40
	n := 500
	if verifh.Thorough() {
		n = 8000
	}
	nets := []uint64{0xfd00000100000000, 0xfd00000100000001, 0x20010db800010000, 0x20010db800010001, 0x20010db8ffffffff,
		0xfe80000000000000, 0xfebfffffffffffff, 0xfec0000000000000, 0xfe7fffffffffffff, 0x0, 0xff02000000000000, 0x2a00000000000000}
	lens := []int{64, 64, 64, 64, 64, 48, 56, 63, 65, 128, 0}
	for i := 0; i < n; i++ {
		id := fmt.Sprintf("c13-rand-%d", i)
		if !out.Wants(id) {
			continue
		}
		r := verifh.NewRand(verifh.Seed(), id)
		bits := 64
		if r.Chance(10) {
			bits = verifh.Pick(r, []int{48, 56, 63, 65, 128, 0})
		}
		k := r.Intn(41)
		if r.Chance(50) {
			k = r.Intn(8)
		}
		ips := make([]system.IP, 0, k)
		for j := 0; j < k; j++ {
			var ip system.IP
			switch {
			case r.Chance(6):
				ip.Address = netip.PrefixFrom(netip.AddrFrom4([4]byte{byte(r.Intn(256)), byte(r.Intn(256)), 0, byte(r.Intn(4))}), r.Intn(33))
			case r.Chance(4):
				// IPv4-mapped IPv6, incl. ::ffff:169.254.x.y which netip classifies as link-local
				v4 := verifh.Pick(r, [][4]byte{{169, 254, 1, 1}, {169, 253, 255, 255}, {169, 255, 0, 0}, {10, 0, 0, 1}})
				ip.Address = netip.PrefixFrom(netip.AddrFrom16(netip.AddrFrom4(v4).As16()), verifh.Pick(r, []int{64, bits, 128}))
			case len(ips) > 0 && r.Chance(15):
				ip = ips[r.Intn(len(ips))] // exact duplicate
			default:
				lo := uint64(r.Intn(4))
				if r.Chance(30) {
					lo = r.Uint64()
				}
				l := verifh.Pick(r, lens)
				if r.Chance(60) {
					l = bits
				}
				ip.Address = netip.PrefixFrom(verifw.Addr16(verifh.Pick(r, nets), lo), l)
			}
			if r.Chance(40) {
				ip.Deprecated, ip.ManageTemporaryAddresses, ip.StablePrivacy = r.Chance(20), r.Chance(20), r.Chance(20)
				ip.Temporary, ip.Tentative, ip.ValidForever = r.Chance(25), r.Chance(25), r.Chance(20)
			}
			ips = append(ips, ip)
		}
		emit(id, bits, ips, "ok", r, []string{"stream:random"})
	}
}
