//go:build verif

package plugin_test

// C14 (and C13: the same source function) -- Prepare itself.  The wildcard's address source is bound by
// Prepare(ifi); the advertiser calls Prepare again, with a fresh *net.Interface, every time the interface is
// reinitialised (link flap, interface removed and created again: new index).  "An IPv6 address currently on the
// interface" therefore means the interface of the LAST Prepare.  Implementation-only stream (the rtnetlink dump
// is read-only and needs no privileges): every sequence of 2..3 Prepare calls over {lo, an index that does not
// exist, up to two other permanent interfaces of the host} on ONE RDNSS / Prefix value, Apply after every Prepare:
//   - the outcome must equal that of a fresh plugin value prepared for that interface only;
//   - after a Prepare for the nonexistent index Apply must fail, whatever was prepared before;
//   - a chosen server / advertised prefix must belong to an address which package net lists for that interface.

import (
	"fmt"
	"net"
	"net/netip"
	"slices"
	"strings"

	"github.com/mdlayher/corerad/internal/plugin"
	"github.com/mdlayher/corerad/internal/verifh"
	"github.com/mdlayher/corerad/internal/verifw"
	"github.com/mdlayher/ndp"
)

type c14Ifi struct {
	name  string
	index int
	addrs []netip.Prefix // as package net lists them (nil for the nonexistent index)
}

const c14NoSuchIndex = 0x7ffffff0

func c14Ifis() []c14Ifi {
	res := []c14Ifi{{name: "nonexistent", index: c14NoSuchIndex}}
	ifs, err := net.Interfaces()
	if err != nil {
		return res
	}
	var lo, withAddrs, bare []c14Ifi
	for _, ifi := range ifs {
		// interfaces which other test processes create and remove concurrently are not a stable reference
		isLo := ifi.Flags&net.FlagLoopback != 0
		if !isLo && (strings.HasPrefix(ifi.Name, "cradveth") || strings.HasPrefix(ifi.Name, "veth") ||
			strings.HasPrefix(ifi.Name, "lsprobe") || strings.HasPrefix(ifi.Name, "verif")) {
			continue
		}
		x := c14Ifi{name: ifi.Name, index: ifi.Index}
		as, err := ifi.Addrs()
		if err != nil {
			continue
		}
		for _, a := range as {
			if n, ok := a.(*net.IPNet); ok {
				if ip, ok := netip.AddrFromSlice(n.IP); ok && ip.Is6() && !ip.Is4In6() {
					ones, _ := n.Mask.Size()
					x.addrs = append(x.addrs, netip.PrefixFrom(ip, ones))
				}
			}
		}
		switch {
		case isLo:
			lo = append(lo, x)
		case len(x.addrs) > 0:
			withAddrs = append(withAddrs, x)
		default:
			bare = append(bare, x)
		}
	}
	// lo, then up to two other permanent interfaces: one with IPv6 addresses and one without, if the host has them
	res = append(res, lo...)
	if len(withAddrs) > 0 {
		res = append(res, withAddrs[0])
	}
	if len(bare) > 0 {
		res = append(res, bare[0])
	} else if len(withAddrs) > 1 {
		res = append(res, withAddrs[1])
	}
	return res
}

// c14Outcome projects one Apply: ok, and the servers / prefixes of the options.
type c14Outcome struct {
	OK    bool     `json:"ok"`
	Items []string `json:"items,omitempty"`
}

func c14Apply(p plugin.Plugin) c14Outcome {
	ra := &ndp.RouterAdvertisement{}
	if err := p.Apply(ra); err != nil {
		return c14Outcome{}
	}
	o := c14Outcome{OK: true}
	for _, op := range ra.Options {
		switch op := op.(type) {
		case *ndp.RecursiveDNSServer:
			for _, s := range op.Servers {
				o.Items = append(o.Items, s.String())
			}
		case *ndp.PrefixInformation:
			o.Items = append(o.Items, netip.PrefixFrom(op.Prefix, int(op.PrefixLength)).String())
		}
	}
	return o
}

func c14Fresh(kind string) plugin.Plugin {
	if kind == "rdnss" {
		return &plugin.RDNSS{Auto: true, Lifetime: 3600e9, Servers: []netip.Addr{netip.MustParseAddr("2001:db8::53")}}
	}
	return &plugin.Prefix{Auto: true, Prefix: netip.MustParsePrefix("::/64"), OnLink: true, Autonomous: true,
		ValidLifetime: 86400e9, PreferredLifetime: 14400e9}
}

func c14PrepareStream(out *verifh.Out) {
	ifis := c14Ifis()
	maxLen := 3
	for _, kind := range []string{"rdnss", "prefix"} {
		verifw.Seqs(len(ifis), maxLen, func(seq []int) {
			if len(seq) < 2 {
				return
			}
			id := fmt.Sprintf("c14-prepare-%s-%s", kind, verifw.SeqID(seq))
			if !out.Wants(id) {
				return
			}
			var (
				names []string
				obs   []c14Outcome
				viol  string
				tags  = []string{"stream:prepare-rebind", "plugin:" + kind}
			)
			p := c14Fresh(kind)
			for step, k := range seq {
				x := ifis[k]
				names = append(names, x.name)
				// reference: a fresh value prepared for this interface only, evaluated before and after
				ref := c14Fresh(kind)
				_ = ref.Prepare(&net.Interface{Name: x.name, Index: x.index})
				before := c14Apply(ref)
				if err := p.Prepare(&net.Interface{Name: x.name, Index: x.index}); err != nil {
					viol = fmt.Sprintf("Prepare #%d (%s) failed: %v", step+1, x.name, err)
					break
				}
				got := c14Apply(p)
				after := c14Apply(ref)
				obs = append(obs, got)
				if before.OK != after.OK || !slices.Equal(before.Items, after.Items) {
					tags = append(tags, "reference-unstable")
					continue // the interface changed under us: no verdict for this step
				}
				switch {
				case x.index == c14NoSuchIndex && got.OK:
					viol = fmt.Sprintf("after Prepare #%d for an interface index that does not exist Apply still succeeds with %v (earlier: %v)",
						step+1, got.Items, names[:step])
				case got.OK != before.OK || !slices.Equal(got.Items, before.Items):
					viol = fmt.Sprintf("after Prepare #%d for %s (earlier: %v) Apply yields %+v, a value prepared for %s only yields %+v",
						step+1, x.name, names[:step], got, x.name, before)
				case got.OK && len(got.Items) > 0:
					// independent of rtnetlink: what package net lists for the interface
					for i, it := range got.Items {
						if kind == "rdnss" && i > 0 {
							break // static servers
						}
						found := false
						for _, a := range x.addrs {
							if kind == "rdnss" && a.Addr().String() == it {
								found = true
							}
							if kind == "prefix" && a.Masked().String() == it {
								found = true
							}
						}
						if !found {
							viol = fmt.Sprintf("after Prepare #%d for %s Apply yields %s, which is not on that interface (%v)", step+1, x.name, it, x.addrs)
						}
					}
				}
				if viol != "" {
					break
				}
			}
			last := ifis[seq[len(seq)-1]]
			switch {
			case last.index == c14NoSuchIndex:
				tags = append(tags, "last:nonexistent")
			default:
				tags = append(tags, "last:existing")
			}
			if slices.Contains(seq[:len(seq)-1], 0) {
				tags = append(tags, "earlier:nonexistent")
			}
			out.Emit(verifh.Case{ID: id, Tags: tags, ImplViolation: viol,
				Input:    map[string]any{"plugin": kind, "prepare_sequence": names, "source": "prepare"},
				Observed: obs})
		})
	}
}
