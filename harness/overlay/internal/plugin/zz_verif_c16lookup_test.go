//go:build verif

package plugin_test

// C16 with a slow lookup: the address / route dump behind a wildcard takes its time (seconds, when rtnetlink is busy).
// The lifetimes of a deprecated wildcard stanza describe an instant that is not earlier than the END of the lookup --
// the RA leaves after it: a lookup that spans the deadline yields zero, and of two builds the one that is written later
// never carries the larger lifetime.

import (
	"fmt"
	"net/netip"
	"strings"
	"testing"
	"time"

	"github.com/mdlayher/corerad/internal/plugin"
	"github.com/mdlayher/corerad/internal/system"
	"github.com/mdlayher/corerad/internal/verifh"
	"github.com/mdlayher/ndp"
)

func TestVerifC16SlowLookup(t *testing.T) {
	out := verifh.Open()
	defer out.Close()
	if !out.Wants("c16-slow-lookup") {
		return
	}
	epoch := time.Unix(1_700_000_000, 0)
	var viol []string
	n := 0
	for _, lookup := range []time.Duration{0, time.Second, 5 * time.Second, 30 * time.Second} {
		for _, before := range []time.Duration{time.Minute, 3 * time.Second, time.Second, 0} { // time left at the START of the lookup
			const valid, pref, rlt = 10 * time.Minute, 5 * time.Minute, 10 * time.Minute
			now := epoch.Add(valid - before)
			clock := func() time.Time { return now }
			slow := func() { now = now.Add(lookup) }
			pf := &plugin.Prefix{Auto: true, Prefix: netip.MustParsePrefix("::/64"), OnLink: true, Autonomous: true, ValidLifetime: valid, PreferredLifetime: pref,
				Deprecated: true, Epoch: epoch, TimeNow: clock,
				Addrs: func() ([]system.IP, error) {
					slow()
					return []system.IP{{Address: netip.MustParsePrefix("2001:db8:1::1/64"), ValidForever: true}}, nil
				}}
			rt := &plugin.Route{Auto: true, Prefix: netip.MustParsePrefix("::/0"), Preference: ndp.Medium, Lifetime: rlt, Deprecated: true, Epoch: epoch, TimeNow: clock,
				Routes: func() ([]system.Route, error) {
					slow()
					return []system.Route{{Prefix: netip.MustParsePrefix("2001:db8:f::/48")}}, nil
				}}
			for _, p := range []plugin.Plugin{pf, rt} {
				now = epoch.Add(valid - before)
				ra := &ndp.RouterAdvertisement{}
				if err := p.Apply(ra); err != nil || len(ra.Options) != 1 {
					viol = append(viol, fmt.Sprintf("%s: Apply failed: %v", p.Name(), err))
					continue
				}
				n++
				end := now // the clock at the end of the lookup
				want := epoch.Add(valid).Sub(end)
				if want < 0 {
					want = 0
				}
				var got time.Duration
				switch o := ra.Options[0].(type) {
				case *ndp.PrefixInformation:
					got = o.ValidLifetime
				case *ndp.RouteInformation:
					got = o.RouteLifetime
				}
				if got > want {
					viol = append(viol, fmt.Sprintf("%s wildcard, deprecated, %v left when a lookup of %v began: the RA built after the lookup carries %v, more than the %v left at its end", p.Name(), before, lookup, got, want))
				}
			}
		}
	}
	if len(viol) > 3 {
		viol = viol[:3]
	}
	out.Emit(verifh.Case{ID: "c16-slow-lookup", Input: map[string]any{"kind": "slow-lookup", "deprecated": true, "builds": n}, Observed: "ok",
		Tags: []string{"stream:slow-lookup"}, ImplViolation: strings.Join(viol, "; ")})
}
