//go:build verif

package plugin_test

import (
	"fmt"
	"net"
	"net/netip"
	"strings"
	"testing"
	"time"

	"github.com/mdlayher/corerad/internal/config"
	"github.com/mdlayher/corerad/internal/plugin"
	"github.com/mdlayher/corerad/internal/system"
	"github.com/mdlayher/corerad/internal/verifh"
	"github.com/mdlayher/ndp"
)

// TestVerifC16 evaluates the same Prefix / Route plugin value along sequences of clock
// readings (deadline-1ns, deadline, deadline+1ns, before the epoch, far future, random) and
// emits the observed lifetimes for comparison with Model.Lifetimes and the C16 spec checker.
func TestVerifC16(t *testing.T) {
	out := verifh.Open()
	defer out.Close()
	r := verifh.NewRand(verifh.Seed(), "C16")

	n := 1500
	if verifh.Thorough() {
		n = 30000
	}
	durs := []int64{1, 999_999_999, 1e9, 1_000_000_001, 1500e6, 4 * 3600e9, 24 * 3600e9, 30 * 24 * 3600e9, 4294967294e9}
	for i := 0; i < n; i++ {
		id := fmt.Sprintf("c16-%d", i)
		route := r.Chance(35)
		dep := r.Chance(80)
		epoch := int64(1_600_000_000)*1e9 + r.Int63n(200_000_000)*1e9 + r.Int63n(1e9)
		if r.Chance(10) {
			epoch = r.Int63n(1e9) + 1 // close to the UNIX epoch (must be non-zero: zero epoch panics)
		}
		var valid, pref int64
		if r.Chance(50) {
			valid = verifh.Pick(r, durs)
		} else {
			valid = 1 + r.Int63n(48*3600e9)
		}
		switch {
		case r.Chance(35):
			pref = valid
		case r.Chance(50):
			pref = 1 + r.Int63n(valid)
		default:
			pref = verifh.Pick(r, durs)
			if pref > valid {
				pref = valid
			}
		}
		if !dep && r.Chance(20) {
			valid, pref = int64(ndp.Infinity), int64(ndp.Infinity)
		}
		if !out.Wants(id) {
			continue
		}

		// clock readings: boundaries of both deadlines, then sorted or shuffled
		var nows []int64
		for _, d := range []int64{valid, pref} {
			for _, off := range []int64{-1e9, -1, 0, 1, 1e9} {
				if r.Chance(70) {
					nows = append(nows, epoch+d+off)
				}
			}
		}
		nows = append(nows, epoch, epoch-1, epoch-r.Int63n(3600e9), epoch+r.Int63n(valid+1), epoch+valid+r.Int63n(1e15))
		for k := r.Intn(4); k > 0; k-- {
			nows = append(nows, epoch+r.Int63n(min(2*valid+2, int64(1)<<61)))
		}
		sorted := r.Chance(70)
		if sorted {
			for a := 1; a < len(nows); a++ {
				for b := a; b > 0 && nows[b-1] > nows[b]; b-- {
					nows[b-1], nows[b] = nows[b], nows[b-1]
				}
			}
		} else {
			verifh.Shuffle(r, nows)
		}

		// The clock either stands still during one Apply or advances by `tick` on every reading: all lifetimes of
		// one RA must describe a single instant (the first reading).
		var now time.Time
		var reads int64
		tick := int64(0)
		if r.Chance(35) {
			tick = verifh.Pick(r, []int64{1, 1e6, 1e9, 7e9})
		}
		clock := func() time.Time { reads++; return now.Add(time.Duration((reads - 1) * tick)) }
		wildcard := r.Chance(30) // the ::/64 / ::/0 wildcard forms take the same countdown
		// 30%: the plugin value comes out of config.Parse (given the same epoch, sub-second part included);
		// 40%: the plugin is Prepared once or twice, as Advertiser.Run does at every (re)initialisation, before use
		parsed := r.Chance(30) && valid != int64(ndp.Infinity) && pref >= 1
		prepares := 0
		if r.Chance(40) {
			prepares = 1 + r.Intn(2)
		}
		var apply func() (int64, int64)
		uneven := ""
		if route {
			p := &plugin.Route{
				Prefix: netip.MustParsePrefix("2001:db8::/32"), Preference: ndp.Medium,
				Lifetime: time.Duration(valid), Deprecated: dep, Epoch: time.Unix(0, epoch), TimeNow: clock,
			}
			if parsed {
				// the value the parser builds from the same parameters, given the same (sub-second) epoch
				q, ok := c16Parse(t, epoch, fmt.Sprintf("  [[interfaces.route]]\n  prefix = \"2001:db8::/32\"\n  lifetime = \"%dns\"\n  deprecated = %v\n", valid, dep)).(*plugin.Route)
				if !ok {
					continue
				}
				p = q
			}
			for k := 0; k < prepares; k++ {
				// Prepare at (re)initialisation must not move the deadline: it only installs the sources
				if err := p.Prepare(&net.Interface{Index: 1, Name: "lo"}); err != nil {
					t.Fatal(err)
				}
			}
			p.TimeNow = clock
			if wildcard {
				p.Auto, p.Prefix = true, netip.MustParsePrefix("::/0")
				p.Routes = func() ([]system.Route, error) {
					return []system.Route{{Prefix: netip.MustParsePrefix("2001:db8:7::/48")}, {Prefix: netip.MustParsePrefix("2001:db8:9::/48")},
						{Prefix: netip.MustParsePrefix("fd00:1::/32")}}, nil
				}
			}
			apply = func() (int64, int64) {
				ra := &ndp.RouterAdvertisement{}
				if err := p.Apply(ra); err != nil || len(ra.Options) == 0 {
					t.Fatalf("route apply: %v %d", err, len(ra.Options))
				}
				first := ra.Options[0].(*ndp.RouteInformation).RouteLifetime
				for _, o := range ra.Options[1:] {
					// all options expanded from one stanza carry the same lifetime (one instant)
					if lt := o.(*ndp.RouteInformation).RouteLifetime; lt != first {
						uneven = fmt.Sprintf("route options of one RA carry different lifetimes: %s vs %s", first, lt)
					}
				}
				return int64(first), 0
			}
		} else {
			p := &plugin.Prefix{
				Prefix: netip.MustParsePrefix("2001:db8::/64"), OnLink: true, Autonomous: true,
				ValidLifetime: time.Duration(valid), PreferredLifetime: time.Duration(pref),
				Deprecated: dep, Epoch: time.Unix(0, epoch), TimeNow: clock,
			}
			if parsed {
				q, ok := c16Parse(t, epoch, fmt.Sprintf("  [[interfaces.prefix]]\n  prefix = \"2001:db8::/64\"\n  valid_lifetime = \"%dns\"\n  preferred_lifetime = \"%dns\"\n  deprecated = %v\n", valid, pref, dep)).(*plugin.Prefix)
				if !ok {
					continue
				}
				p = q
			}
			for k := 0; k < prepares; k++ {
				if err := p.Prepare(&net.Interface{Index: 1, Name: "lo"}); err != nil {
					t.Fatal(err)
				}
			}
			p.TimeNow = clock
			if wildcard {
				p.Auto, p.Prefix = true, netip.MustParsePrefix("::/64")
				p.Addrs = func() ([]system.IP, error) {
					return []system.IP{{Address: netip.MustParsePrefix("2001:db8:7::1/64")}, {Address: netip.MustParsePrefix("2001:db8:9::1/64")},
						{Address: netip.MustParsePrefix("fd00:1::1/64")}}, nil
				}
			}
			apply = func() (int64, int64) {
				ra := &ndp.RouterAdvertisement{}
				if err := p.Apply(ra); err != nil || len(ra.Options) == 0 {
					t.Fatalf("prefix apply: %v %d", err, len(ra.Options))
				}
				pi := ra.Options[0].(*ndp.PrefixInformation)
				for _, o := range ra.Options[1:] {
					q := o.(*ndp.PrefixInformation)
					if q.ValidLifetime != pi.ValidLifetime || q.PreferredLifetime != pi.PreferredLifetime {
						uneven = fmt.Sprintf("prefix options of one RA carry different lifetimes: %s/%s vs %s/%s",
							pi.ValidLifetime, pi.PreferredLifetime, q.ValidLifetime, q.PreferredLifetime)
					}
				}
				return int64(pi.ValidLifetime), int64(pi.PreferredLifetime)
			}
		}

		var obs []string
		var obsJ [][3]int64
		for _, tn := range nows {
			now, reads = time.Unix(0, tn), 0
			v, p := apply()
			obs = append(obs, verifh.Pair(verifh.Z(tn), verifh.Pair(verifh.Z(v), verifh.Z(p))))
			obsJ = append(obsJ, [3]int64{tn, v, p})
		}
		tags := []string{"kind:prefix", "deprecated:" + verifh.B(dep)}
		if route {
			tags[0] = "kind:route"
		}
		tags = append(tags, fmt.Sprintf("wildcard:%v", wildcard), fmt.Sprintf("clock-ticks-within-apply:%v", tick > 0),
			fmt.Sprintf("from-parser:%v", parsed), fmt.Sprintf("prepared:%d", prepares))
		if sorted {
			tags = append(tags, "clock:nondecreasing")
		} else {
			tags = append(tags, "clock:shuffled")
		}
		out.Emit(verifh.Case{
			ID: id,
			Coq: verifh.App("mkCase", verifh.B(route), verifh.B(dep), verifh.Z(epoch), verifh.Z(valid), verifh.Z(pref),
				verifh.List(obs)),
			Input:         map[string]any{"route": route, "deprecated": dep, "epoch_ns": epoch, "valid_ns": valid, "preferred_ns": pref, "clock_ns": nows},
			Observed:      obsJ,
			Tags:          tags,
			ImplViolation: uneven,
		})
	}
}

// TestVerifC16Epoch: the countdown runs from the instant handed to config.Parse, and on the SAME clock: the
// daemon passes time.Now(), whose monotonic reading makes "epoch + lifetime - now" immune to steps of the
// wall clock (NTP corrections, a board without RTC getting its date).  The parsed plugin values must hold that
// very instant -- wall time, sub-second part and monotonic reading.
func TestVerifC16Epoch(t *testing.T) {
	out := verifh.Open()
	defer out.Close()
	if !out.Wants("c16-epoch-identity") {
		return
	}
	epoch := time.Now()
	var viol []string
	doc := "[[interfaces]]\nname = \"eth0\"\nadvertise = true\n  [[interfaces.prefix]]\n  prefix = \"2001:db8::/64\"\n  deprecated = true\n" +
		"  [[interfaces.route]]\n  prefix = \"2001:db8::/32\"\n  deprecated = true\n"
	cfg, err := config.Parse(strings.NewReader(doc), epoch)
	if err != nil {
		t.Fatal(err)
	}
	for _, pl := range cfg.Interfaces[0].Plugins {
		var got time.Time
		switch p := pl.(type) {
		case *plugin.Prefix:
			got = p.Epoch
		case *plugin.Route:
			got = p.Epoch
		default:
			continue
		}
		// == on time.Time compares the wall and the monotonic readings (and the location pointer)
		if got != epoch {
			viol = append(viol, fmt.Sprintf("%s: the epoch handed to Parse was %v, the plugin holds %v", pl.Name(), epoch, got))
		}
		if strings.Contains(epoch.String(), " m=") && !strings.Contains(got.String(), " m=") {
			viol = append(viol, pl.Name()+": the plugin's epoch lost the monotonic clock reading: a step of the wall clock would move the deadline")
		}
	}
	out.Emit(verifh.Case{ID: "c16-epoch-identity", Input: map[string]any{"kind": "epoch-identity"}, Observed: epoch.String(),
		Tags: []string{"stream:epoch-identity"}, ImplViolation: strings.Join(viol, "; ")})
}

// c16Parse runs config.Parse on a one-interface document with the given plugin stanza and epoch and
// returns the single non-LLA plugin it produced (nil when the parser refuses the document).
func c16Parse(t *testing.T, epoch int64, stanza string) plugin.Plugin {
	doc := "[[interfaces]]\nname = \"eth0\"\nadvertise = true\nsource_lla = false\n" + stanza
	cfg, err := config.Parse(strings.NewReader(doc), time.Unix(0, epoch))
	if err != nil {
		return nil
	}
	for _, p := range cfg.Interfaces[0].Plugins {
		switch p.(type) {
		case *plugin.Prefix, *plugin.Route:
			return p
		}
	}
	t.Fatalf("parsed configuration has no prefix / route plugin: %s", doc)
	return nil
}
