//go:build verif

package plugin_test

// Real parallelism for the wildcard expansions: RAs of several interfaces are built at the same time (timers of
// different advertisers, a metrics scrape, a debug request), each from its own plugin value and its own system
// state.  Every result must be exactly what the same call yields alone.  A shared scratch buffer, pool or cache
// shows only here.

import (
	"fmt"
	"net/netip"
	"reflect"
	"runtime"
	"strings"
	"sync"
	"sync/atomic"
	"testing"
	"time"

	"github.com/mdlayher/corerad/internal/plugin"
	"github.com/mdlayher/corerad/internal/system"
	"github.com/mdlayher/corerad/internal/verifh"
	"github.com/mdlayher/ndp"
)

func TestVerifParallelApply(t *testing.T) {
	out := verifh.Open()
	defer out.Close()
	if !out.Wants("par-apply") {
		return
	}
	const g = 16
	type job struct {
		p    plugin.Plugin
		want []ndp.Option
	}
	mk := func(k int) []job {
		var addrs []system.IP
		var routes []system.Route
		for j := 0; j < 24+k%7; j++ {
			// unsorted on purpose: the expansion sorts its own copy
			addrs = append(addrs, system.IP{Address: netip.MustParsePrefix(fmt.Sprintf("2001:db8:%x:%x::1/64", k, (7*j+3)%41)), ValidForever: true})
			routes = append(routes, system.Route{Prefix: netip.MustParsePrefix(fmt.Sprintf("fd%02x:%x::/48", k, (5*j+2)%37))})
		}
		clock := func() time.Time { return time.Unix(1_700_000_000+int64(k), 0) }
		pf := &plugin.Prefix{Auto: true, Prefix: netip.MustParsePrefix("::/64"), OnLink: true, Autonomous: true, ValidLifetime: time.Hour,
			PreferredLifetime: time.Minute, Deprecated: k%2 == 0, Epoch: time.Unix(1_700_000_000, 0), TimeNow: clock,
			Addrs: func() ([]system.IP, error) { return addrs, nil }}
		rt := &plugin.Route{Auto: true, Prefix: netip.MustParsePrefix("::/0"), Preference: ndp.Medium, Lifetime: time.Hour,
			Deprecated: k%2 == 1, Epoch: time.Unix(1_700_000_000, 0), TimeNow: clock,
			Routes: func() ([]system.Route, error) { return routes, nil }}
		rd := &plugin.RDNSS{Auto: true, Lifetime: time.Hour, Servers: []netip.Addr{netip.MustParseAddr("2001:db8::53")},
			Addrs: func() ([]system.IP, error) { return addrs, nil }}
		var js []job
		for _, p := range []plugin.Plugin{pf, rt, rd} {
			ra := &ndp.RouterAdvertisement{}
			if err := p.Apply(ra); err != nil {
				t.Fatal(err)
			}
			js = append(js, job{p, ra.Options})
		}
		return js
	}
	var jobs [][]job
	for k := 0; k < g; k++ {
		jobs = append(jobs, mk(k)) // reference results, computed alone
	}
	var mu sync.Mutex
	var viol []string
	rounds := 0
	// two phases: many goroutines on two processors (they interrupt each other in the middle of an expansion), then
	// on all processors (they run truly at the same time); each for a fixed time, not a fixed number of rounds
	for phase, procs := range []int{2, runtime.GOMAXPROCS(0)} {
		budget := 1200 * time.Millisecond
		if verifh.Thorough() {
			budget = 8 * time.Second
		}
		prev := runtime.GOMAXPROCS(procs)
		deadline := time.Now().Add(budget)
		var wg sync.WaitGroup
		var n atomic.Int64
		for k := 0; k < g; k++ {
			wg.Add(1)
			go func(k int) {
				defer wg.Done()
				for r := 0; r < 200 || time.Now().Before(deadline); r++ {
					n.Add(1)
					for _, j := range jobs[k] {
						ra := &ndp.RouterAdvertisement{}
						err := j.p.Apply(ra)
						if err != nil || !reflect.DeepEqual(ra.Options, j.want) {
							mu.Lock()
							if len(viol) < 3 {
								viol = append(viol, fmt.Sprintf("%s of interface %d, built while the others build theirs (phase %d, %d processors), differs from the same call alone (error %v)", j.p.Name(), k, phase, procs, err))
							}
							mu.Unlock()
							return
						}
					}
				}
			}(k)
		}
		wg.Wait()
		runtime.GOMAXPROCS(prev)
		rounds += int(n.Load())
	}
	out.Emit(verifh.Case{ID: "par-apply", Input: map[string]any{"kind": "parallel-apply", "goroutines": g, "rounds": rounds},
		Tags: []string{"parallel:apply"}, ImplViolation: strings.Join(viol, "; ")})
}
