//go:build verif

package plugin_test

import (
	"errors"
	"fmt"
	"net/netip"
	"strings"
	"testing"
	"time"

	"github.com/mdlayher/corerad/internal/config"
	"github.com/mdlayher/corerad/internal/plugin"
	"github.com/mdlayher/corerad/internal/system"
	"github.com/mdlayher/corerad/internal/verifh"
	"github.com/mdlayher/corerad/internal/verifw"
	"github.com/mdlayher/ndp"
)

func wRoute(s string) system.Route { return system.Route{Prefix: netip.MustParsePrefix(s)} }

// c15Pool: nested prefixes at equal and different base addresses, /128s, ::/0, IPv4 (incl. the
// IPv4 default route, which is shorter than everything but of the other family), one non-canonical entry.
func c15Pool() []system.Route {
	return []system.Route{
		wRoute("2001:db8::/32"),      // 0
		wRoute("2001:db8::/48"),      // 1 inside 0, same base
		wRoute("2001:db8::/64"),      // 2 inside 0 and 1, same base
		wRoute("2001:db8:0:1::/64"),  // 3 inside 0 and 1, other base
		wRoute("2001:db8:1::/48"),    // 4 inside 0, other base
		wRoute("2001:db8::/128"),     // 5 host route at the base of 0,1,2
		wRoute("2001:db9::1/128"),    // 6 host route inside 10
		wRoute("::/0"),               // 7 covers every IPv6 route
		wRoute("fd00::/8"),           // 8
		wRoute("fd00:1::/64"),        // 9 inside 8
		wRoute("2001:db9::/64"),      // 10 independent
		wRoute("10.0.0.0/8"),         // 11 IPv4
		wRoute("0.0.0.0/0"),          // 12 IPv4 default route
		wRoute("2001:db8:0:1::1/64"), // 13 non-canonical spelling of the network of 3
	}
}

func pick15(os []ndp.Option) []*ndp.RouteInformation {
	var res []*ndp.RouteInformation
	for _, o := range os {
		if ri, ok := o.(*ndp.RouteInformation); ok {
			res = append(res, ri)
		}
	}
	return res
}

func wRoutesCoq(rs []system.Route) string {
	items := make([]string, 0, len(rs))
	for _, r := range rs {
		items = append(items, verifw.RouteCoq(r))
	}
	return verifh.List(items)
}

func wRoutesJSON(rs []system.Route) []string {
	res := make([]string, 0, len(rs))
	for _, r := range rs {
		res = append(res, r.Prefix.String())
	}
	return res
}

// TestVerifC15 runs Route.Apply with the ::/0 wildcard on injected loopback route dumps.
func TestVerifC15(t *testing.T) {
	out := verifh.Open()
	defer out.Close()

	emit := func(id string, rs []system.Route, mode string, r *verifh.Rand, tags []string) {
		lt, _, dep, epoch, now := verifw.Lifetimes(r)
		prf := verifh.Pick(r, []ndp.Preference{ndp.Low, ndp.Medium, ndp.High})
		// The clock either stands still during one Apply or advances by `tick` on every reading: "all with the
		// stanza's lifetime" means every option expanded from the stanza carries the lifetime at ONE instant
		// (the first reading, c_now), also when a seconds boundary or the expiry falls between two readings.
		tick, reads := int64(0), int64(0)
		if r.Chance(50) {
			tick = verifh.Pick(r, []int64{1, 1e6, 1e9, 7e9, lt / 2})
		}
		p := &plugin.Route{
			Auto: true, Prefix: netip.PrefixFrom(netip.IPv6Unspecified(), 0),
			Preference: prf, Lifetime: time.Duration(lt),
			Deprecated: dep, Epoch: time.Unix(0, epoch),
			TimeNow: func() time.Time { reads++; return time.Unix(0, now+(reads-1)*tick) },
		}
		// a quarter of the cases take the plugin value from config.Parse, with the wildcard spelled "::/0", ""
		// or by omitting the key (documented as equivalent): the stanza's preference, lifetime and deprecation
		// must reach every expanded route whichever way it is spelled
		spelling := "literal"
		if r.Chance(25) {
			spelling = verifh.Pick(r, []string{"::/0", "empty", "omitted"})
			var b strings.Builder
			b.WriteString("[[interfaces]]\nname = \"eth0\"\nadvertise = true\nsource_lla = false\n  [[interfaces.route]]\n")
			switch spelling {
			case "::/0":
				b.WriteString("  prefix = \"::/0\"\n")
			case "empty":
				b.WriteString("  prefix = \"\"\n")
			}
			fmt.Fprintf(&b, "  preference = %q\n  lifetime = \"%dns\"\n  deprecated = %v\n", strings.ToLower(prf.String()), lt, dep)
			cfg, err := config.Parse(strings.NewReader(b.String()), time.Unix(0, epoch))
			if err != nil {
				t.Fatalf("wildcard route stanza refused: %v\n%s", err, b.String())
			}
			var q *plugin.Route
			for _, pl := range cfg.Interfaces[0].Plugins {
				if rp, ok := pl.(*plugin.Route); ok {
					q = rp
				}
			}
			if q == nil {
				t.Fatalf("no route plugin parsed from\n%s", b.String())
			}
			q.TimeNow = p.TimeNow
			p = q
		}
		routesCoq := verifh.Some(wRoutesCoq(rs))
		canonical := true
		for _, rt := range rs {
			if rt.Prefix.Masked() != rt.Prefix {
				canonical = false
			}
		}
		switch mode {
		case "ok":
			in := append([]system.Route(nil), rs...)
			p.Routes = func() ([]system.Route, error) { return in, nil }
		case "error":
			p.Routes = func() ([]system.Route, error) { return nil, errors.New("netlink: boom") }
			routesCoq = verifh.None()
		case "unprepared":
			routesCoq = verifh.None()
		}
		ra := &ndp.RouterAdvertisement{}
		err := p.Apply(ra)
		c := verifh.Case{ID: id, Tags: append(tags, "source:"+mode, fmt.Sprintf("n:%d", min(len(rs), 8)),
			"canonical:"+verifh.B(canonical), "deprecated:"+verifh.B(dep), fmt.Sprintf("clock-ticks-within-apply:%v", tick > 0), "wildcard-spelling:"+spelling)}
		if nr := len(pick15(ra.Options)); dep && tick > 0 && nr >= 2 {
			c.Tags = append(c.Tags, "deprecated+ticking-clock+several-routes")
			if rem := epoch + lt - now; rem > 0 && rem <= int64(nr)*tick {
				c.Tags = append(c.Tags, "expiry-falls-within-apply")
			}
		}
		if err != nil && len(ra.Options) != 0 {
			c.ImplViolation = "Apply returned an error but left options in the RA"
		}
		obsCoq, obsJ := verifw.Result(ra, err)
		c.Coq = verifh.App("mkCase", verifw.Pref(prf), verifh.Z(lt), verifh.B(dep), verifh.Z(epoch), verifh.Z(now), routesCoq, obsCoq)
		c.Input = map[string]any{"routes": wRoutesJSON(rs), "source": mode, "preference": verifw.Pref(prf),
			"lifetime_ns": lt, "deprecated": dep, "epoch_ns": epoch, "now_ns": now, "clock_tick_per_reading_ns": tick}
		c.Observed = obsJ
		out.Emit(c)
	}

	// ---- bounded-exhaustive: every sequence of pool entries of length <= 3 (quick) / 4 (thorough)
	pool := c15Pool()
	maxLen := 3
	if verifh.Thorough() {
		maxLen = 4
	}
	verifw.Seqs(len(pool), maxLen, func(seq []int) {
		id := "c15-seq-" + verifw.SeqID(seq)
		if !out.Wants(id) {
			return
		}
		rs := make([]system.Route, 0, len(seq))
		for k, i := range seq {
			rt := pool[i]
			rt.Index, rt.Preference = 1+k%2, []ndp.Preference{ndp.Medium, ndp.High, ndp.Low}[k%3] // never inspected
			rs = append(rs, rt)
		}
		tag := "stream:subset-permutation"
		if !verifw.Distinct(seq) {
			tag = "stream:with-duplicates"
		}
		emit(id, rs, "ok", verifh.NewRand(verifh.Seed(), id), []string{tag})
	})

	// ---- dump failure / not prepared
	for i, mode := range []string{"error", "unprepared"} {
		id := fmt.Sprintf("c15-fail-%d", i)
		if out.Wants(id) {
			emit(id, pool[:3], mode, verifh.NewRand(verifh.Seed(), id), []string{"stream:failure"})
		}
	}

	// ---- random dumps up to length 40: chains of nested prefixes below a few bases
	n := 500
	if verifh.Thorough() {
		n = 5000
	}
	his := []uint64{0x20010db800000000, 0x20010db800000001, 0x20010db800010000, 0x20010db8ffffffff, 0xfd00000000000000,
		0xfd00000100000000, 0x0, 0x8000000000000000, 0xffffffffffffffff, 0x20010db900000000}
	lens := []int{0, 1, 8, 16, 32, 47, 48, 49, 56, 63, 64, 64, 64, 65, 96, 127, 128}
	for i := 0; i < n; i++ {
		id := fmt.Sprintf("c15-rand-%d", i)
		if !out.Wants(id) {
			continue
		}
		r := verifh.NewRand(verifh.Seed(), id)
		k := r.Intn(41)
		if r.Chance(50) {
			k = r.Intn(8)
		}
		noncanon := r.Chance(25)
		rs := make([]system.Route, 0, k)
		for j := 0; j < k; j++ {
			var rt system.Route
			switch {
			case r.Chance(8):
				rt.Prefix = netip.PrefixFrom(netip.AddrFrom4([4]byte{byte(r.Intn(3) * 10), 0, 0, 0}), verifh.Pick(r, []int{0, 8, 8, 24, 32}))
			case len(rs) > 0 && r.Chance(15):
				rt = rs[r.Intn(len(rs))] // exact duplicate
			case len(rs) > 0 && r.Chance(30):
				// same base address as an earlier entry, another length
				base, l := rs[r.Intn(len(rs))].Prefix.Addr(), verifh.Pick(r, lens)
				if base.Is4() {
					l %= 33
				}
				rt.Prefix = netip.PrefixFrom(base, l)
			default:
				lo := uint64(0)
				if r.Chance(30) {
					lo = r.Uint64()
				} else if r.Chance(30) {
					lo = uint64(r.Intn(3))
				}
				rt.Prefix = netip.PrefixFrom(verifw.Addr16(verifh.Pick(r, his), lo), verifh.Pick(r, lens))
			}
			if !(noncanon && r.Chance(40)) {
				rt.Prefix = rt.Prefix.Masked()
			}
			rt.Index = 1 + r.Intn(3)
			rs = append(rs, rt)
		}
		emit(id, rs, "ok", r, []string{"stream:random"})
	}
}
