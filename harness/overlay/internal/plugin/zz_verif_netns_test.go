//go:build verif && linux

package plugin_test

// The wildcards as they run in production: the real Prepare, the real rtnetlink Addresser, a real interface
// whose addresses change (private network namespace, root only; tagged unavailable otherwise and nothing
// is asserted).  "For any system state, each RA carries exactly the options the configuration calls for":
// also the RA built right after a storm of RA builds, in the moment after an address was replaced.

import (
	"fmt"
	"net"
	"net/netip"
	"os/exec"
	"runtime"
	"strings"
	"syscall"
	"testing"
	"time"

	"github.com/mdlayher/corerad/internal/plugin"
	"github.com/mdlayher/corerad/internal/verifh"
	"github.com/mdlayher/ndp"
)

func TestVerifNetnsWildcards(t *testing.T) {
	out := verifh.Open()
	defer out.Close()
	if !out.Wants("netns-wildcards") {
		return
	}
	c := verifh.Case{ID: "netns-wildcards", Tags: []string{"stream:netns-wildcards"}, Input: map[string]any{"kind": "netns-wildcards"}}
	res := make(chan string, 1)
	var obs []string
	peerFinding, peerChecked := "", false
	go func() {
		runtime.LockOSThread() // this thread moves into the new namespace and dies with the goroutine
		if err := syscall.Unshare(syscall.CLONE_NEWNET); err != nil {
			res <- "unavailable: " + err.Error()
			return
		}
		ip := func(arg ...string) error {
			bin, err := exec.LookPath("ip")
			if err != nil {
				return err
			}
			if out, err := exec.Command(bin, arg...).CombinedOutput(); err != nil {
				return fmt.Errorf("ip %v: %v: %s", arg, err, out)
			}
			return nil
		}
		if err := ip("link", "set", "lo", "up"); err != nil {
			res <- "unavailable: " + err.Error()
			return
		}
		ifi, err := net.InterfaceByName("lo")
		if err != nil {
			res <- "unavailable: " + err.Error()
			return
		}
		pf := &plugin.Prefix{Auto: true, Prefix: netip.MustParsePrefix("::/64"), OnLink: true, Autonomous: true, ValidLifetime: time.Hour, PreferredLifetime: time.Minute}
		rd := &plugin.RDNSS{Auto: true, Lifetime: time.Hour}
		if err := pf.Prepare(ifi); err != nil {
			res <- "unavailable: Prepare: " + err.Error()
			return
		}
		if err := rd.Prepare(ifi); err != nil {
			res <- "unavailable: Prepare: " + err.Error()
			return
		}
		// what one RA says: "prefixes | servers"
		build := func() (string, error) {
			ra := &ndp.RouterAdvertisement{}
			if err := pf.Apply(ra); err != nil {
				return "", err
			}
			if err := rd.Apply(ra); err != nil {
				return "", err
			}
			var ps, ss []string
			for _, o := range ra.Options {
				switch o := o.(type) {
				case *ndp.PrefixInformation:
					ps = append(ps, netip.PrefixFrom(o.Prefix, int(o.PrefixLength)).String())
				case *ndp.RecursiveDNSServer:
					for _, s := range o.Servers {
						ss = append(ss, s.String())
					}
				}
			}
			return strings.Join(ps, ",") + " | " + strings.Join(ss, ","), nil
		}
		cur := ""
		for round := 0; round < 6; round++ {
			next := fmt.Sprintf("2001:db8:%x::1", round+1)
			if err := ip("-6", "addr", "add", next+"/64", "dev", "lo", "nodad"); err != nil {
				res <- "unavailable: " + err.Error()
				return
			}
			if cur != "" {
				if err := ip("-6", "addr", "del", cur+"/64", "dev", "lo"); err != nil {
					res <- "unavailable: " + err.Error()
					return
				}
			}
			cur = next
			want := fmt.Sprintf("2001:db8:%x::/64 | %s", round+1, cur)
			got, err := build()
			obs = append(obs, got)
			if err != nil {
				res <- "unavailable: RA build in the namespace: " + err.Error()
				return
			}
			if got != want {
				res <- fmt.Sprintf("lo carries only %s/64 (the previous address was replaced just now, after %d RA builds within the last moments), but the RA says [%s], want [%s]", cur, round*40, got, want)
				return
			}
			// a storm of solicitations / scrapes: many RA builds in a row, every one the same
			for k := 0; k < 40; k++ {
				if g, err := build(); err != nil || g != want {
					res <- fmt.Sprintf("RA build %d of a burst says [%s] (error %v), want [%s]", k, g, err, want)
					return
				}
			}
		}
		// an address configured with a peer (point-to-point style): the interface's address is the LOCAL one
		if cur != "" {
			_ = ip("-6", "addr", "del", cur+"/64", "dev", "lo")
		}
		if err := ip("-6", "addr", "add", "2001:db8:aa::1", "peer", "2001:db8:bb::2/64", "dev", "lo", "nodad"); err == nil {
			got, err := build()
			obs = append(obs, "peer: "+got)
			if err != nil {
				obs = append(obs, "peer error: "+err.Error())
			} else if strings.Contains(got, "2001:db8:bb::2") {
				peerFinding = fmt.Sprintf("lo has the address 2001:db8:aa::1 with peer 2001:db8:bb::2/64; the RA says [%s]: the PEER's address is advertised as the DNS server of this router", got)
			} else {
				peerChecked = true
			}
		}
		res <- ""
	}()
	r := <-res
	c.Observed = obs
	if strings.HasPrefix(r, "unavailable") {
		c.Tags = append(c.Tags, "netns:unavailable")
		c.Observed = r
	} else {
		c.Tags = append(c.Tags, "netns:available")
		c.ImplViolation = r
	}
	out.Emit(c)
	// reported apart, under its own class: a known finding (known_findings.txt), see DESIGN 10.3
	if peerFinding != "" || peerChecked {
		out.Emit(verifh.Case{ID: "netns-wildcards-peer", Tags: []string{"stream:netns-wildcards", "netns:peer-address"}, Input: map[string]any{"kind": "netns-wildcards-peer"},
			Observed: "checked", ImplViolation: peerFinding, Class: "rdnss_peer_address"})
	}
}
