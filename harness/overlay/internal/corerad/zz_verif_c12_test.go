//go:build verif

package corerad

// C12 driver: pairs (own RA, received RA).  The received RA always goes through the real codec
// (ndp.MarshalMessage -> ndp.ParseMessage) before it reaches verifyRAs / Advertiser.handle, so
// what is compared is what comes out of the wire decoder.  Streams:
//   exh  per aspect (every header field / option kind) all pairs of a small value domain
//        (absent / equal / different / several, sub-unit durations, unit boundaries) on both
//        sides, random background for the other aspects; both argument orders
//   rnd  random larger RAs (repeated prefixes and routes, several RDNSS / DNSSL, unknown options)
//   cfg  own RA built by config.Parse from generated TOML (sub-unit durations), received RA =
//        its own wire image, delivered through Advertiser.handle with the parsed plugins
//   dyn  ONE Advertiser (wildcard ::/64 prefix, :: RDNSS, ::/0 route, deprecated prefix / route) receives
//        2-4 RAs while its own RA changes in between (injected addresses / routes / clock, forwarding
//        flip); each reception is compared with the own RA of that moment
// Every own RA that the codec accepts is also sent to itself (self = 1|2).

import (
	"bytes"
	"fmt"
	"log"
	"net"
	"net/netip"
	"os"
	"reflect"
	"regexp"
	"sort"
	"strings"
	"testing"
	"time"

	"github.com/mdlayher/corerad/internal/config"
	"github.com/mdlayher/corerad/internal/plugin"
	"github.com/mdlayher/corerad/internal/system"
	"github.com/mdlayher/corerad/internal/verifh"
	"github.com/mdlayher/metricslite"
	"github.com/mdlayher/ndp"
	"golang.org/x/net/ipv6"
)

// v12Conn swallows what is written to it.
type v12Conn struct{}

func (v12Conn) ReadFrom() (ndp.Message, *ipv6.ControlMessage, netip.Addr, error) {
	return nil, nil, netip.Addr{}, os.ErrDeadlineExceeded
}
func (v12Conn) SetReadDeadline(time.Time) error                             { return nil }
func (v12Conn) WriteTo(ndp.Message, *ipv6.ControlMessage, netip.Addr) error { return nil }

// v12RawPlugin makes an arbitrary option list CoreRAD's "own" configuration.
type v12RawPlugin struct{ opts []ndp.Option }

func (*v12RawPlugin) Name() string                 { return "verif-raw" }
func (*v12RawPlugin) String() string               { return "verif-raw" }
func (*v12RawPlugin) Prepare(*net.Interface) error { return nil }
func (p *v12RawPlugin) Apply(ra *ndp.RouterAdvertisement) error {
	ra.Options = append(ra.Options, p.opts...)
	return nil
}

var v12Fields = map[string]string{
	"hop_limit": "FHopLimit", "managed_configuration": "FManaged", "other_configuration": "FOther",
	"reachable_time": "FReachable", "retransmit_timer": "FRetrans", "mtu": "FMTU",
	"prefix_information_preferred_lifetime": "FPrefixPreferred", "prefix_information_valid_lifetime": "FPrefixValid",
	"route_information_lifetime": "FRouteLifetime",
	"rdnss_count":                "FRdnssCount", "rdnss_lifetime": "FRdnssLifetime", "rdnss_servers": "FRdnssServers",
	"dnssl_count": "FDnsslCount", "dnssl_lifetime": "FDnsslLifetime", "dnssl_domain_names": "FDnsslNames",
	"captive_portal": "FCaptive",
}

type v12Problem struct{ Field, Details string }

func v12RenderProblem(rd *v12Render, p v12Problem) string {
	f, ok := v12Fields[p.Field]
	if !ok {
		f = "FUnknown"
	}
	d := verifh.None()
	if p.Details != "" {
		if pfx, err := netip.ParsePrefix(p.Details); err == nil {
			d = verifh.Some(verifh.Pair(rd.addr(pfx.Addr()), verifh.N(uint64(pfx.Bits()))))
		} else {
			d = verifh.Some(verifh.Pair(verifh.N(0), verifh.N(999)))
		}
	}
	return verifh.Pair(f, d)
}

func v12RenderProblems(rd *v12Render, ps []v12Problem) string {
	ss := make([]string, 0, len(ps))
	for _, p := range ps {
		ss = append(ss, v12RenderProblem(rd, p))
	}
	return verifh.List(ss)
}

// ---- value domains

func v12A(s string) netip.Addr { return netip.MustParseAddr(s) }

func v12S(sec float64) time.Duration { return time.Duration(sec * float64(time.Second)) }

func v12PI(p string, valid, pref time.Duration) *ndp.PrefixInformation {
	pp := netip.MustParsePrefix(p)
	return &ndp.PrefixInformation{PrefixLength: uint8(pp.Bits()), OnLink: true, AutonomousAddressConfiguration: true,
		ValidLifetime: valid, PreferredLifetime: pref, Prefix: pp.Addr()}
}

func v12RI(p string, prf ndp.Preference, lt time.Duration) *ndp.RouteInformation {
	pp := netip.MustParsePrefix(p)
	return &ndp.RouteInformation{PrefixLength: uint8(pp.Bits()), Preference: prf, RouteLifetime: lt, Prefix: pp.Addr()}
}

func v12DNS(lt time.Duration, servers ...string) *ndp.RecursiveDNSServer {
	as := make([]netip.Addr, 0, len(servers))
	for _, s := range servers {
		as = append(as, v12A(s))
	}
	return &ndp.RecursiveDNSServer{Lifetime: lt, Servers: as}
}

func v12SL(lt time.Duration, names ...string) *ndp.DNSSearchList {
	return &ndp.DNSSearchList{Lifetime: lt, DomainNames: names}
}

const (
	v12PA, v12PB, v12PA48, v12P0 = "2001:db8:1::/64", "2001:db8:2::/64", "2001:db8:1::/48", "::/0"
	v12RR, v12RS, v12RR64, v12RD = "2001:db8:ffff::/48", "2001:db8:fffe::/48", "2001:db8:ffff::/64", "::/0"
	v12RU, v12RH                 = "2001:db8:ffff:8::/61", "fd00:1:2:3:4:5:6:7/128"
	v12S1, v12S2, v12S3          = "2001:db8::53", "2001:db8::54", "fe80::53"
	v12N1, v12N2, v12N3          = "example.com", "lan.example.org", "corp.test"
	v12U1, v12U2                 = "https://portal.example.com/api?next=%2Fhome%20page&s=%d", "urn:ietf:params:capport:unrestricted"
	v12Inf                       = ndp.Infinity
)

type v12Value func() []ndp.Option

type v12Aspect struct {
	name string
	n    int
	set  func(ra *ndp.RouterAdvertisement, i int) // header aspects
	opts func(i int) []ndp.Option                 // option aspects
}

func v12Timers() []time.Duration {
	return []time.Duration{0, 500 * time.Microsecond, time.Millisecond, time.Second, time.Second + 500*time.Microsecond,
		1001 * time.Millisecond, 1001*time.Millisecond - 1, time.Hour}
}

func v12Aspects() []v12Aspect {
	hops := []uint8{0, 64, 255}
	timers := v12Timers()
	ns := time.Duration(1)
	mtus := [][]uint32{nil, {1500}, {1280}, {1500, 1280}, {1280, 1500}}
	prefixes := []func() []ndp.Option{
		func() []ndp.Option { return nil },
		func() []ndp.Option { return []ndp.Option{v12PI(v12PA, v12S(100), v12S(50))} },
		func() []ndp.Option { return []ndp.Option{v12PI(v12PA, v12S(100), v12S(60))} },
		func() []ndp.Option { return []ndp.Option{v12PI(v12PA, v12S(200), v12S(50))} },
		func() []ndp.Option { return []ndp.Option{v12PI(v12PA, v12S(100.5), v12S(50.9))} },
		func() []ndp.Option { return []ndp.Option{v12PI(v12PA, v12S(101)-ns, v12S(51)-ns)} },
		func() []ndp.Option { return []ndp.Option{v12PI(v12PA, v12S(101), v12S(51))} },
		func() []ndp.Option { return []ndp.Option{v12PI(v12PB, v12S(100), v12S(50))} },
		func() []ndp.Option { return []ndp.Option{v12PI(v12PA48, v12S(100), v12S(50))} },
		func() []ndp.Option {
			return []ndp.Option{v12PI(v12PA, v12S(100), v12S(50)), v12PI(v12PB, v12S(100), v12S(50))}
		},
		func() []ndp.Option {
			return []ndp.Option{v12PI(v12PA, v12S(100), v12S(50)), v12PI(v12PA, v12S(200), v12S(60))}
		},
		func() []ndp.Option {
			return []ndp.Option{v12PI(v12PB, v12S(300), v12S(300)), v12PI(v12PA, v12S(100), v12S(50))}
		},
		func() []ndp.Option { return []ndp.Option{v12PI(v12PA, v12Inf, v12Inf)} },
		func() []ndp.Option { return []ndp.Option{v12PI(v12PA, 0, 0)} },
		func() []ndp.Option { return []ndp.Option{v12PI(v12P0, v12S(100), v12S(50))} },
	}
	routes := []func() []ndp.Option{
		func() []ndp.Option { return nil },
		func() []ndp.Option { return []ndp.Option{v12RI(v12RR, ndp.Medium, v12S(100))} },
		func() []ndp.Option { return []ndp.Option{v12RI(v12RR, ndp.Medium, v12S(200))} },
		func() []ndp.Option { return []ndp.Option{v12RI(v12RR, ndp.High, v12S(200))} },
		func() []ndp.Option { return []ndp.Option{v12RI(v12RR, ndp.Low, v12S(100))} },
		func() []ndp.Option { return []ndp.Option{v12RI(v12RR, ndp.Medium, v12S(100.5))} },
		func() []ndp.Option { return []ndp.Option{v12RI(v12RR, ndp.Medium, v12S(101)-ns)} },
		func() []ndp.Option { return []ndp.Option{v12RI(v12RS, ndp.Medium, v12S(100))} },
		func() []ndp.Option { return []ndp.Option{v12RI(v12RR64, ndp.Medium, v12S(100))} },
		func() []ndp.Option {
			return []ndp.Option{v12RI(v12RR, ndp.Medium, v12S(100)), v12RI(v12RS, ndp.Medium, v12S(100))}
		},
		func() []ndp.Option {
			return []ndp.Option{v12RI(v12RR, ndp.Medium, v12S(100)), v12RI(v12RR, ndp.Medium, v12S(200))}
		},
		func() []ndp.Option {
			return []ndp.Option{v12RI(v12RR, ndp.Medium, v12S(100)), v12RI(v12RR, ndp.High, v12S(200))}
		},
		func() []ndp.Option { return []ndp.Option{v12RI(v12RD, ndp.Medium, v12S(100))} },
		func() []ndp.Option { return []ndp.Option{v12RI(v12RD, ndp.Medium, v12Inf)} },
		func() []ndp.Option { return []ndp.Option{v12RI(v12RU, ndp.Medium, v12S(100))} },
		func() []ndp.Option { return []ndp.Option{v12RI(v12RH, ndp.Low, 0)} },
	}
	rdnss := []func() []ndp.Option{
		func() []ndp.Option { return nil },
		func() []ndp.Option { return []ndp.Option{v12DNS(v12S(10), v12S1)} },
		func() []ndp.Option { return []ndp.Option{v12DNS(v12S(20), v12S1)} },
		func() []ndp.Option { return []ndp.Option{v12DNS(v12S(10), v12S2)} },
		func() []ndp.Option { return []ndp.Option{v12DNS(v12S(10), v12S1, v12S2)} },
		func() []ndp.Option { return []ndp.Option{v12DNS(v12S(10), v12S2, v12S1)} },
		func() []ndp.Option { return []ndp.Option{v12DNS(v12S(10.5), v12S1)} },
		func() []ndp.Option { return []ndp.Option{v12DNS(v12S(11)-ns, v12S1)} },
		func() []ndp.Option { return []ndp.Option{v12DNS(v12S(10), v12S1), v12DNS(v12S(10), v12S2)} },
		func() []ndp.Option { return []ndp.Option{v12DNS(v12S(10), v12S2), v12DNS(v12S(10), v12S1)} },
		func() []ndp.Option { return []ndp.Option{v12DNS(v12S(10), v12S1), v12DNS(v12S(20), v12S2)} },
		func() []ndp.Option {
			return []ndp.Option{v12DNS(v12S(10), v12S1), v12DNS(v12S(10), v12S2), v12DNS(v12Inf, v12S3)}
		},
		// the same address with and without a zone (the wire carries none)
		func() []ndp.Option { return []ndp.Option{v12DNS(v12S(10), v12S3)} },
		func() []ndp.Option { return []ndp.Option{v12DNS(v12S(10), v12S3+"%eth0")} },
		func() []ndp.Option { return []ndp.Option{v12DNS(v12S(10), v12S3+"%wlan1", v12S1)} },
	}
	dnssl := []func() []ndp.Option{
		func() []ndp.Option { return nil },
		// the same name in another case: other bytes on the wire, a different search list
		func() []ndp.Option { return []ndp.Option{v12SL(v12S(10), strings.ToUpper(v12N1[:3])+v12N1[3:])} },
		func() []ndp.Option { return []ndp.Option{v12SL(v12S(10), v12N1)} },
		func() []ndp.Option { return []ndp.Option{v12SL(v12S(20), v12N1)} },
		func() []ndp.Option { return []ndp.Option{v12SL(v12S(10), v12N2)} },
		func() []ndp.Option { return []ndp.Option{v12SL(v12S(10), v12N1, v12N2)} },
		func() []ndp.Option { return []ndp.Option{v12SL(v12S(10), v12N2, v12N1)} },
		func() []ndp.Option { return []ndp.Option{v12SL(v12S(10.5), v12N1)} },
		func() []ndp.Option { return []ndp.Option{v12SL(v12S(11)-ns, v12N1)} },
		func() []ndp.Option { return []ndp.Option{v12SL(v12S(10), v12N1), v12SL(v12S(10), v12N2)} },
		func() []ndp.Option { return []ndp.Option{v12SL(v12S(10), v12N2), v12SL(v12S(10), v12N1)} },
		func() []ndp.Option { return []ndp.Option{v12SL(v12S(10), v12N1), v12SL(v12S(20), v12N2)} },
		func() []ndp.Option {
			return []ndp.Option{v12SL(v12S(10), v12N1), v12SL(v12S(10), v12N2), v12SL(0, v12N3)}
		},
	}
	// also URIs that differ only in ways a URL normaliser removes (scheme case, an empty fragment): the option carries a
	// string, and strings that differ are inconsistent
	u3, u4 := "HTTPS"+v12U1[len("https"):], v12U1+"#"
	captive := [][]string{nil, {v12U1}, {v12U2}, {v12U1, v12U2}, {v12U2, v12U1}, {u3}, {u4}}
	return []v12Aspect{
		{name: "hop_limit", n: len(hops), set: func(ra *ndp.RouterAdvertisement, i int) { ra.CurrentHopLimit = hops[i] }},
		{name: "managed", n: 2, set: func(ra *ndp.RouterAdvertisement, i int) { ra.ManagedConfiguration = i == 1 }},
		{name: "other", n: 2, set: func(ra *ndp.RouterAdvertisement, i int) { ra.OtherConfiguration = i == 1 }},
		{name: "reachable", n: len(timers), set: func(ra *ndp.RouterAdvertisement, i int) { ra.ReachableTime = timers[i] }},
		{name: "retransmit", n: len(timers), set: func(ra *ndp.RouterAdvertisement, i int) { ra.RetransmitTimer = timers[i] }},
		{name: "mtu", n: len(mtus), opts: func(i int) []ndp.Option {
			var os []ndp.Option
			for _, m := range mtus[i] {
				os = append(os, ndp.NewMTU(m))
			}
			return os
		}},
		{name: "prefix", n: len(prefixes), opts: func(i int) []ndp.Option { return prefixes[i]() }},
		{name: "route", n: len(routes), opts: func(i int) []ndp.Option { return routes[i]() }},
		{name: "rdnss", n: len(rdnss), opts: func(i int) []ndp.Option { return rdnss[i]() }},
		{name: "dnssl", n: len(dnssl), opts: func(i int) []ndp.Option { return dnssl[i]() }},
		{name: "captive", n: len(captive), opts: func(i int) []ndp.Option {
			var os []ndp.Option
			for _, u := range captive[i] {
				os = append(os, &ndp.CaptivePortal{URI: u})
			}
			return os
		}},
	}
}

// v12Build assembles an RA from one domain index per aspect (+ extra options).
func v12Build(r *verifh.Rand, as []v12Aspect, idx []int, extra []ndp.Option, shuffle bool, others int) *ndp.RouterAdvertisement {
	ra := &ndp.RouterAdvertisement{RouterSelectionPreference: verifh.Pick(r, []ndp.Preference{ndp.Low, ndp.Medium, ndp.High}),
		RouterLifetime: time.Duration(r.Intn(9001)) * time.Second}
	for k, a := range as {
		if a.set != nil {
			a.set(ra, idx[k])
		} else {
			ra.Options = append(ra.Options, a.opts(idx[k])...)
		}
	}
	ra.Options = append(ra.Options, extra...)
	for ; others > 0; others-- {
		ra.Options = append(ra.Options, v12Other(r))
	}
	if shuffle {
		verifh.Shuffle(r, ra.Options)
	}
	return ra
}

// ---- random extra options (rnd stream)

func v12RandLifetime(r *verifh.Rand) time.Duration {
	base := verifh.Pick(r, []time.Duration{0, time.Second, 100 * time.Second, 101 * time.Second, 4 * time.Hour, v12Inf})
	if base == v12Inf {
		return base
	}
	return base + verifh.Pick(r, []time.Duration{0, 0, 1, 500 * time.Millisecond, time.Second - 1})
}

func v12RandExtra(r *verifh.Rand) []ndp.Option {
	var os []ndp.Option
	for k := r.Intn(4); k > 0; k-- {
		os = append(os, v12PI(verifh.Pick(r, []string{v12PA, v12PB, v12PA48, v12P0}), v12RandLifetime(r), v12RandLifetime(r)))
	}
	for k := r.Intn(4); k > 0; k-- {
		os = append(os, v12RI(verifh.Pick(r, []string{v12RR, v12RS, v12RR64, v12RD, v12RU, v12RH}),
			verifh.Pick(r, []ndp.Preference{ndp.Low, ndp.Medium, ndp.High}), v12RandLifetime(r)))
	}
	servers := []string{v12S1, v12S2, v12S3}
	for k := r.Intn(3); k > 0; k-- {
		verifh.Shuffle(r, servers)
		os = append(os, v12DNS(v12RandLifetime(r), servers[:1+r.Intn(3)]...))
	}
	names := []string{v12N1, v12N2, v12N3}
	for k := r.Intn(3); k > 0; k-- {
		verifh.Shuffle(r, names)
		os = append(os, v12SL(v12RandLifetime(r), append([]string(nil), names[:1+r.Intn(3)]...)...))
	}
	return os
}

// v12Mutate derives the peer's extras from ours: keep / change a lifetime / drop / duplicate.
func v12Mutate(r *verifh.Rand, os []ndp.Option) []ndp.Option {
	var out []ndp.Option
	for _, o := range os {
		c := r.Intn(100)
		switch {
		case c < 55:
			out = append(out, v12Clone(o, false, r))
		case c < 75:
			out = append(out, v12Clone(o, true, r))
		case c < 87:
		default:
			out = append(out, v12Clone(o, false, r), v12Clone(o, r.Bool(), r))
		}
	}
	if r.Chance(30) {
		verifh.Shuffle(r, out)
	}
	return out
}

func v12Clone(o ndp.Option, change bool, r *verifh.Rand) ndp.Option {
	switch o := o.(type) {
	case *ndp.PrefixInformation:
		c := *o
		if change {
			if r.Bool() {
				c.ValidLifetime = v12RandLifetime(r)
			} else {
				c.PreferredLifetime = v12RandLifetime(r)
			}
		}
		return &c
	case *ndp.RouteInformation:
		c := *o
		if change {
			if r.Chance(70) {
				c.RouteLifetime = v12RandLifetime(r)
			} else {
				c.Preference = verifh.Pick(r, []ndp.Preference{ndp.Low, ndp.Medium, ndp.High})
			}
		}
		return &c
	case *ndp.RecursiveDNSServer:
		c := &ndp.RecursiveDNSServer{Lifetime: o.Lifetime, Servers: append([]netip.Addr(nil), o.Servers...)}
		if change {
			if r.Bool() {
				c.Lifetime = v12RandLifetime(r)
			} else {
				c.Servers[r.Intn(len(c.Servers))] = v12A(verifh.Pick(r, []string{v12S1, v12S2, v12S3}))
			}
		}
		return c
	case *ndp.DNSSearchList:
		c := &ndp.DNSSearchList{Lifetime: o.Lifetime, DomainNames: append([]string(nil), o.DomainNames...)}
		if change {
			if r.Bool() {
				c.Lifetime = v12RandLifetime(r)
			} else {
				c.DomainNames[r.Intn(len(c.DomainNames))] = verifh.Pick(r, []string{v12N1, v12N2, v12N3})
			}
		}
		return c
	}
	return o
}

// ---- running the real code

type v12Obs struct {
	reported []v12Problem
	hook     int
	logged   int
	labelsOK bool
	mutated  string // verifyRAs changed one of its arguments (the case is rendered AFTER the call: it would hide it)
}

func v12Direct(a, b *ndp.RouterAdvertisement) v12Obs {
	var o v12Obs
	da, db := verifh.DeepDump(a), verifh.DeepDump(b)
	for _, p := range verifyRAs(a, b) {
		o.reported = append(o.reported, v12Problem{p.Field, p.Details})
	}
	if d := verifh.DeepDiff(da, verifh.DeepDump(a)); d != "" {
		o.mutated = "verifyRAs altered its first argument (the own RA, which may share memory with the configuration): " + d
	} else if d := verifh.DeepDiff(db, verifh.DeepDump(b)); d != "" {
		o.mutated = "verifyRAs altered its second argument: " + d
	}
	o.labelsOK = true
	return o
}

func v12Samples(mem *metricslite.Memory) map[string]float64 {
	s, ok := mem.Series()[advInconsistencies]
	if !ok {
		return nil
	}
	return s.Samples
}

// v12ViaHandle delivers theirs to the real Advertiser.handle whose own RA is built from cfg and
// observes counter deltas, hook invocations and log lines.
func v12ViaHandle(cfg config.Interface, theirs *ndp.RouterAdvertisement, times int) (v12Obs, *ndp.RouterAdvertisement, error) {
	var (
		o    v12Obs
		buf  bytes.Buffer
		ours *ndp.RouterAdvertisement
	)
	state := system.TestState{Forwarding: true}
	mem := metricslite.NewMemory()
	mm := NewMetrics(mem, "verif", time.Time{}, state, nil)
	cctx := NewContext(log.New(&buf, "", 0), mm, state)
	v12HarnessSeq++
	cfg.Verbose = v12HarnessSeq%2 == 0 // every other advertiser is verbose: more is logged, the same is reported
	a := NewAdvertiser(cctx, cfg, nil, nil, func() bool { return true })
	hooks := 0
	a.OnInconsistentRA = func(o, _ *ndp.RouterAdvertisement) { hooks++; ours = o }
	host := netip.MustParseAddr("fe80::2")
	// the advertiser has transmitted before, at a time when the state behind its own RA was different (an address
	// behind a wildcard has come or gone since, a deprecated prefix has counted down): a report is about the own RA as
	// of the reception, not as of the last transmission
	for _, p := range cfg.Plugins {
		if rp, ok := p.(*v12RawPlugin); ok {
			now := rp.opts
			rp.opts = theirs.Options
			err := a.send(v12Conn{}, netip.IPv6LinkLocalAllNodes(), a.cfg)
			rp.opts = now
			if err != nil {
				return o, nil, err
			}
		}
	}
	// deliveries before the observed one: the observation is a delta, every reception counts anew
	for i := 1; i < times; i++ {
		if _, err := a.handle(theirs, host); err != nil {
			return o, nil, err
		}
	}
	// log lines of the consistency check only (the summary line and one per problem): in verbose mode the advertiser
	// also logs every message it receives
	countLines := func() int { return bytes.Count(buf.Bytes(), []byte("inconsisten")) }
	before, lines0, hooks0 := v12Samples(mem), countLines(), hooks
	off0 := buf.Len()
	snapshot := verifh.DeepDump(cfg) // the own RA may share memory with the configuration's plugins
	dst, err := a.handle(theirs, host)
	if err != nil {
		return o, nil, err
	}
	if d := verifh.DeepDiff(snapshot, verifh.DeepDump(cfg)); d != "" {
		return o, nil, fmt.Errorf("the consistency check altered the configuration: %s", d)
	}
	if dst.IsValid() {
		return o, nil, fmt.Errorf("handle answered an RA with destination %s", dst)
	}
	after := v12Samples(mem)
	o.hook = hooks - hooks0
	o.logged = countLines() - lines0
	o.labelsOK = true
	keys := make([]string, 0, len(after))
	for k := range after {
		keys = append(keys, k)
	}
	sort.Strings(keys)
	for _, k := range keys {
		d := after[k] - before[k]
		if d == 0 {
			continue
		}
		var p v12Problem
		seen := 0
		for _, kv := range strings.Split(k, ",") {
			name, val, _ := strings.Cut(kv, "=")
			switch name {
			case "interface":
				seen++
				if val != cfg.Name {
					o.labelsOK = false
				}
			case "details":
				seen++
				p.Details = val
			case "field":
				seen++
				p.Field = val
			default:
				o.labelsOK = false
			}
		}
		if seen != 3 || d < 0 || d != float64(int(d)) {
			o.labelsOK = false
			continue
		}
		for n := int(d); n > 0; n-- {
			o.reported = append(o.reported, p)
		}
	}
	if !v12LogOK(buf.String()[off0:], o.reported) {
		o.labelsOK = false
	}
	if ours == nil {
		ours, _ = a.buildRA(cfg)
	}
	return o, ours, nil
}

func v12RawConfig(ours *ndp.RouterAdvertisement) config.Interface {
	return config.Interface{Name: "eth7", Advertise: true, HopLimit: ours.CurrentHopLimit, Managed: ours.ManagedConfiguration,
		OtherConfig: ours.OtherConfiguration, ReachableTime: ours.ReachableTime, RetransmitTimer: ours.RetransmitTimer,
		DefaultLifetime: ours.RouterLifetime, Preference: ours.RouterSelectionPreference,
		Plugins: []plugin.Plugin{&v12RawPlugin{opts: ours.Options}}}
}

// v12WireExact: the codec model of Model/Verify.v (truncation of durations, everything else
// unchanged) is exact unless a route prefix is not byte aligned (the ndp v1.1.0 decoder drops
// the partial byte; DESIGN section 7 #15, outside CoreRAD).
func v12WireExact(ra *ndp.RouterAdvertisement) bool {
	for _, o := range ra.Options {
		if ri, ok := o.(*ndp.RouteInformation); ok && ri.PrefixLength%8 != 0 {
			return false
		}
	}
	return true
}

type v12Emitter struct {
	t   *testing.T
	out *verifh.Out
}

func (e *v12Emitter) emit(id string, mode int, ours, theirs *ndp.RouterAdvertisement, self int, o v12Obs, tags []string) {
	rd := newV12Render()
	both := 0
	kinds := func(ra *ndp.RouterAdvertisement) map[byte]bool {
		m := map[byte]bool{}
		for _, op := range ra.Options {
			m[op.Code()] = true
		}
		return m
	}
	ko, kt := kinds(ours), kinds(theirs)
	for k := range ko {
		if kt[k] {
			both++
		}
	}
	tags = append(tags, fmt.Sprintf("mode:%d", mode), fmt.Sprintf("self:%d", self), fmt.Sprintf("reported:%d", min(len(o.reported), 6)))
	seen := map[string]bool{}
	for _, p := range o.reported {
		if !seen[p.Field] {
			seen[p.Field] = true
			tags = append(tags, "field:"+p.Field)
		}
	}
	e.out.Emit(verifh.Case{
		ID: id,
		Coq: verifh.App("mkCase", verifh.N(uint64(mode)), rd.ra(ours), rd.ra(theirs), verifh.N(uint64(self)),
			v12RenderProblems(rd, o.reported), verifh.N(uint64(o.hook)), verifh.N(uint64(o.logged)), verifh.B(o.labelsOK)),
		Input: map[string]any{"mode": mode, "self": self, "ours": v12Summary(ours), "theirs_decoded": v12Summary(theirs),
			"kinds_on_both_sides": both},
		Observed:      map[string]any{"reported": o.reported, "hook": o.hook, "logged": o.logged},
		Tags:          tags,
		ImplViolation: o.mutated,
	})
}

// pair runs one (ours, raw peer RA) pair in all the ways the property names.
func (e *v12Emitter) pair(id string, r *verifh.Rand, ours, peer *ndp.RouterAdvertisement, tags []string, viaHandle bool) {
	if !e.out.Wants(id+"-ab") && !e.out.Wants(id+"-ba") && !e.out.Wants(id+"-self") && !e.out.Wants(id+"-h") && !e.out.Wants(id+"-hself") {
		return
	}
	theirs, err := v12WireRA(peer)
	if err != nil {
		e.t.Fatalf("%s: peer RA does not encode: %v (%s)", id, err, v12Summary(peer))
	}
	e.emit(id+"-ab", 0, ours, theirs, 0, v12Direct(ours, theirs), append([]string{"order:ours-theirs"}, tags...))
	e.emit(id+"-ba", 0, theirs, ours, 0, v12Direct(theirs, ours), append([]string{"order:theirs-ours"}, tags...))
	self := 1
	if v12WireExact(ours) {
		self = 2
	}
	image, err := v12WireRA(ours)
	if err != nil {
		e.t.Fatalf("%s: own RA does not encode: %v (%s)", id, err, v12Summary(ours))
	}
	e.emit(id+"-self", 0, ours, image, self, v12Direct(ours, image), append([]string{"order:ours-image"}, tags...))
	if viaHandle {
		times := 1 + r.Intn(2)
		if r.Chance(4) {
			// the same RA from the same router for the 101st, 150th, 1000th time in a row: every reception is
			// reported in full (log lines, counters, hook), however often it was seen before
			times = verifh.Pick(r, []int{101, 150, 1000})
		}
		o, built, err := v12ViaHandle(v12RawConfig(ours), theirs, times)
		if err != nil {
			e.out.Emit(verifh.Case{ID: id + "-h", ImplViolation: "Advertiser.handle failed on a router advertisement: " + err.Error(),
				Input: map[string]any{"ours": v12Summary(ours), "theirs_decoded": v12Summary(theirs)}})
		} else {
			e.emit(id+"-h", 1, built, theirs, 0, o, append([]string{"order:handle", fmt.Sprintf("delivery:%d", times)}, tags...))
		}
		o, built, err = v12ViaHandle(v12RawConfig(ours), image, 1)
		if err != nil {
			e.out.Emit(verifh.Case{ID: id + "-hself", ImplViolation: "Advertiser.handle failed on its own router advertisement: " + err.Error(),
				Input: map[string]any{"ours": v12Summary(ours)}})
		} else {
			e.emit(id+"-hself", 1, built, image, self, o, append([]string{"order:handle-image"}, tags...))
		}
	}
}

func TestVerifC12(t *testing.T) {
	out := verifh.Open()
	defer out.Close()
	e := &v12Emitter{t: t, out: out}
	as := v12Aspects()

	// ---- exh: per aspect, all pairs of its domain; other aspects: equal or random
	rounds := 1
	if verifh.Thorough() {
		rounds = 12
	}
	for round := 0; round < rounds; round++ {
		for k, a := range as {
			for i := 0; i < a.n; i++ {
				for j := 0; j < a.n; j++ {
					id := fmt.Sprintf("c12-exh%d-%s-%d-%d", round, a.name, i, j)
					r := verifh.NewRand(verifh.Seed(), id)
					io, it := make([]int, len(as)), make([]int, len(as))
					quiet := r.Chance(35) // nothing but this aspect differs
					for m, b := range as {
						io[m] = r.Intn(b.n)
						if quiet || r.Chance(55) {
							it[m] = io[m]
						} else {
							it[m] = r.Intn(b.n)
						}
					}
					io[k], it[k] = i, j
					shuffle := r.Chance(40)
					ours := v12Build(r, as, io, nil, shuffle, r.Intn(3))
					peer := v12Build(r, as, it, nil, r.Chance(40), r.Intn(3))
					e.pair(id, r, ours, peer, []string{"stream:exh", "aspect:" + a.name}, (i+j+round)%3 == 0)
				}
			}
		}
	}

	// ---- rnd: larger RAs
	n := 500
	if verifh.Thorough() {
		n = 12000
	}
	for c := 0; c < n; c++ {
		id := fmt.Sprintf("c12-rnd-%d", c)
		r := verifh.NewRand(verifh.Seed(), id)
		io, it := make([]int, len(as)), make([]int, len(as))
		for m, b := range as {
			io[m] = r.Intn(b.n)
			if r.Chance(60) {
				it[m] = io[m]
			} else {
				it[m] = r.Intn(b.n)
			}
		}
		extra := v12RandExtra(r)
		var pextra []ndp.Option
		if r.Chance(75) {
			pextra = v12Mutate(r, extra)
		} else {
			pextra = v12RandExtra(r)
		}
		ours := v12Build(r, as, io, extra, r.Chance(50), r.Intn(4))
		peer := v12Build(r, as, it, pextra, r.Chance(50), r.Intn(4))
		e.pair(id, r, ours, peer, []string{"stream:rnd"}, c%4 == 0)
	}
	// big RAs (14 options in no particular order, two RDNSS and two DNSSL options with different contents) against
	// themselves and against a copy with one lifetime changed: whatever a verbose advertiser does with a received
	// message before it compares it, the comparison sees the options in the order they were sent
	for c := 0; c < 6; c++ {
		id := fmt.Sprintf("c12-big-%d", c)
		r := verifh.NewRand(verifh.Seed(), id)
		mk := func() *ndp.RouterAdvertisement {
			ra := &ndp.RouterAdvertisement{CurrentHopLimit: 64, RouterLifetime: 1800 * time.Second}
			for k := 0; k < 6; k++ {
				ra.Options = append(ra.Options, &ndp.PrefixInformation{PrefixLength: 64, Prefix: netip.MustParseAddr(fmt.Sprintf("2001:db8:%x::", 0x10+k)),
					OnLink: true, AutonomousAddressConfiguration: true, ValidLifetime: v12S(100), PreferredLifetime: v12S(50)})
			}
			ra.Options = append(ra.Options,
				v12DNS(v12S(10), v12S3), v12SL(v12S(10), v12N1),
				&ndp.RouteInformation{PrefixLength: 48, Prefix: netip.MustParseAddr("2001:db8:f1::"), RouteLifetime: v12S(100)},
				v12DNS(v12S(20), v12S1), ndp.NewMTU(1500),
				&ndp.RouteInformation{PrefixLength: 48, Prefix: netip.MustParseAddr("2001:db8:f2::"), RouteLifetime: v12S(100)},
				v12SL(v12S(20), v12N2), &ndp.CaptivePortal{URI: v12U2})
			// rotate: different arrival orders
			ra.Options = append(ra.Options[c*2:], ra.Options[:c*2]...)
			return ra
		}
		ours, peer := mk(), mk()
		if c%2 == 1 {
			peer.Options[0], peer.Options[1] = peer.Options[1], peer.Options[0]
		}
		e.pair(id, r, ours, peer, []string{"stream:big"}, true)
	}

	// ---- cfg: CoreRAD's own RA from a parsed configuration, against its own wire image
	n = 150
	if verifh.Thorough() {
		n = 3000
	}
	for c := 0; c < n; c++ {
		id := fmt.Sprintf("c12-cfg-%d", c)
		if !out.Wants(id) && !out.Wants(id+"-h") {
			continue
		}
		r := verifh.NewRand(verifh.Seed(), id)
		toml, tags := v12Config(r)
		cfg, err := config.Parse(strings.NewReader(toml), time.Unix(1700000000, 0))
		if err != nil {
			t.Fatalf("%s: generated configuration rejected: %v\n%s", id, err, toml)
		}
		ifi := cfg.Interfaces[0]
		for _, p := range ifi.Plugins {
			if err := p.Prepare(&net.Interface{Name: ifi.Name, HardwareAddr: net.HardwareAddr{2, 0, 0, 0, 0, 1}}); err != nil {
				t.Fatalf("%s: prepare: %v", id, err)
			}
		}
		// the own RA may share memory with the parsed configuration (DNSSL names, RDNSS servers): a deep dump
		// taken before anything is compared must still hold after verifyRAs and after handle
		snapshot := verifh.DeepDump(ifi)
		ours, _, err := ifi.RouterAdvertisement(true)
		if err != nil {
			t.Fatalf("%s: own RA: %v", id, err)
		}
		image, err := v12WireRA(ours)
		if err != nil {
			t.Fatalf("%s: own RA does not encode: %v\n%s", id, err, toml)
		}
		self := 1
		if v12WireExact(ours) {
			self = 2
		}
		tags = append(tags, "stream:cfg")
		direct := v12Direct(ours, image)
		if d := verifh.DeepDiff(snapshot, verifh.DeepDump(ifi)); d != "" {
			out.Emit(verifh.Case{ID: id + "-cfg", ImplViolation: "verifyRAs altered the configuration behind the own RA: " + d,
				Input: map[string]any{"config": toml}})
			continue
		}
		e.emit(id, 0, ours, image, self, direct, append([]string{"order:ours-image"}, tags...))
		o, built, err := v12ViaHandle(ifi, image, 1)
		if err != nil {
			out.Emit(verifh.Case{ID: id + "-h", ImplViolation: "Advertiser.handle failed on its own router advertisement: " + err.Error(),
				Input: map[string]any{"config": toml}})
			continue
		}
		e.emit(id+"-h", 1, built, image, self, o, append([]string{"order:handle-image"}, tags...))
	}

	v12Dynamic(t, e)

	v12CodecUnstable(t, out)
}

// ---- dyn: one Advertiser, several received RAs, the own RA changing in between

// v12Env is the live system state the plugins of a parsed configuration read each time the own RA is built.
type v12Env struct {
	addrs  []system.IP
	routes []system.Route
	now    time.Time
	state  system.TestState // Interfaces map: forwarding of the interface, mutable in place
}

// v12Harness is a real Advertiser (metrics, log, hook) whose handle receives a sequence of RAs.
type v12Harness struct {
	a        *Advertiser
	cfg      config.Interface
	mem      *metricslite.Memory
	buf      bytes.Buffer
	hooks    int
	hookOurs *ndp.RouterAdvertisement
}

var v12HarnessSeq int

func newV12Harness(cfg config.Interface, state system.State) *v12Harness {
	// every other harness runs the interface in verbose mode: what is logged besides the report is nobody's business,
	// what is reported is the same
	v12HarnessSeq++
	cfg.Verbose = v12HarnessSeq%2 == 0
	h := &v12Harness{cfg: cfg, mem: metricslite.NewMemory()}
	mm := NewMetrics(h.mem, "verif", time.Time{}, state, nil)
	cctx := NewContext(log.New(&h.buf, "", 0), mm, state)
	h.a = NewAdvertiser(cctx, cfg, nil, nil, func() bool { return true })
	h.a.OnInconsistentRA = func(o, _ *ndp.RouterAdvertisement) { h.hooks++; h.hookOurs = o }
	return h
}

// deliver hands theirs to handle and returns the deltas of counters, hook invocations and log lines, and the own
// RA the hook was given (nil when it did not fire).
func (h *v12Harness) deliver(theirs *ndp.RouterAdvertisement) (v12Obs, *ndp.RouterAdvertisement, error) {
	var o v12Obs
	// log lines of the consistency check (the summary line and one per problem); building the own RA may log
	// its own line when the interface is not forwarding (C04), which is not one of them
	lines := func() int { return bytes.Count(h.buf.Bytes(), []byte("inconsisten")) }
	before, lines0, hooks0 := v12Samples(h.mem), lines(), h.hooks
	off0 := h.buf.Len()
	h.hookOurs = nil
	snapshot := verifh.DeepDump(h.cfg) // the own RA may share memory with the configuration's plugins
	dst, err := h.a.handle(theirs, netip.MustParseAddr("fe80::2"))
	if err != nil {
		return o, nil, err
	}
	if d := verifh.DeepDiff(snapshot, verifh.DeepDump(h.cfg)); d != "" {
		return o, nil, fmt.Errorf("the consistency check altered the configuration: %s", d)
	}
	if dst.IsValid() {
		return o, nil, fmt.Errorf("handle answered an RA with destination %s", dst)
	}
	after := v12Samples(h.mem)
	o.hook = h.hooks - hooks0
	o.logged = lines() - lines0
	o.labelsOK = true
	keys := make([]string, 0, len(after))
	for k := range after {
		keys = append(keys, k)
	}
	sort.Strings(keys)
	for _, k := range keys {
		d := after[k] - before[k]
		if d == 0 {
			continue
		}
		var p v12Problem
		seen := 0
		for _, kv := range strings.Split(k, ",") {
			name, val, _ := strings.Cut(kv, "=")
			switch name {
			case "interface":
				seen++
				if val != h.cfg.Name {
					o.labelsOK = false
				}
			case "details":
				seen++
				p.Details = val
			case "field":
				seen++
				p.Field = val
			default:
				o.labelsOK = false
			}
		}
		if seen != 3 || d < 0 || d != float64(int(d)) {
			o.labelsOK = false
			continue
		}
		for n := int(d); n > 0; n-- {
			o.reported = append(o.reported, p)
		}
	}
	if !v12LogOK(h.buf.String()[off0:], o.reported) {
		o.labelsOK = false
	}
	return o, h.hookOurs, nil
}

// v12LogOK: "each inconsistency is logged ... under its field/details labels" -- every counted problem has its own log
// line `inconsistency N: "field": (details) message` carrying the field and the details verbatim (whatever characters
// they contain), and no line is a formatting accident.
var v12LineRE = regexp.MustCompile(`inconsistency [0-9]+: (.*)$`)

func v12LogOK(text string, reported []v12Problem) bool {
	var lines []string
	for _, l := range strings.Split(text, "\n") {
		if strings.Contains(l, "%!") {
			return false
		}
		if m := v12LineRE.FindStringSubmatch(l); m != nil {
			lines = append(lines, m[1])
		}
	}
	if len(lines) != len(reported) {
		return false
	}
	used := make([]bool, len(lines))
next:
	for _, p := range reported {
		want := fmt.Sprintf("%q: ", p.Field)
		if p.Details != "" {
			want += "(" + p.Details + ") "
		}
		for i, rest := range lines {
			if !used[i] && strings.HasPrefix(rest, want) {
				used[i] = true
				continue next
			}
		}
		return false
	}
	return true
}

var v12DynAddrs = []string{"2001:db8:1::1/64", "2001:db8:2::1/64", "2001:db8:3::1/64", "fd00:4::1/64", "fd00:5::53/64", "2001:db8:1::2/64", "fe80::1/64"}

var v12DynRoutes = []string{"2001:db8:aa00::/40", "fd00:bb::/32", "2001:db8:cc::/48"}

// v12DynConfig: a configuration whose RA depends on live state: wildcard prefix / RDNSS / route stanzas, a
// deprecated prefix and route (lifetimes count down with the clock), and a few static stanzas.
func v12DynConfig(r *verifh.Rand) (string, []string) {
	var sb strings.Builder
	var tags []string
	fmt.Fprintf(&sb, "[[interfaces]]\nname = \"eth3\"\nadvertise = true\nmax_interval = \"%ds\"\n", 4+r.Intn(600))
	if r.Chance(50) {
		fmt.Fprintf(&sb, "default_lifetime = \"%ds\"\n", 1800+r.Intn(7000))
	}
	life := func() (string, string) {
		v := 600 + r.Intn(100000)
		return fmt.Sprintf("%ds", v), fmt.Sprintf("%ds", 1+r.Intn(v))
	}
	dynamic := false
	if r.Chance(75) {
		v, p := life()
		fmt.Fprintf(&sb, "  [[interfaces.prefix]]\n  prefix = \"::/64\"\n  valid_lifetime = %q\n  preferred_lifetime = %q\n", v, p)
		tags = append(tags, "dyn:wildcard-prefix")
		dynamic = true
	}
	if r.Chance(50) {
		v, p := life()
		fmt.Fprintf(&sb, "  [[interfaces.prefix]]\n  prefix = \"2001:db8:d::/64\"\n  valid_lifetime = %q\n  preferred_lifetime = %q\n  deprecated = true\n", v, p)
		tags = append(tags, "dyn:deprecated-prefix")
		dynamic = true
	}
	if r.Chance(40) {
		v, p := life()
		fmt.Fprintf(&sb, "  [[interfaces.prefix]]\n  prefix = \"2001:db8:e::/64\"\n  valid_lifetime = %q\n  preferred_lifetime = %q\n", v, p)
	}
	if r.Chance(40) {
		fmt.Fprintf(&sb, "  [[interfaces.route]]\n  prefix = \"::/0\"\n  lifetime = \"%ds\"\n", 100+r.Intn(5000))
		tags = append(tags, "dyn:wildcard-route")
		dynamic = true
	}
	if r.Chance(35) {
		fmt.Fprintf(&sb, "  [[interfaces.route]]\n  prefix = \"2001:db8:dd00::/40\"\n  lifetime = \"%ds\"\n  deprecated = true\n", 600+r.Intn(5000))
		tags = append(tags, "dyn:deprecated-route")
		dynamic = true
	}
	if r.Chance(45) || !dynamic {
		fmt.Fprintf(&sb, "  [[interfaces.rdnss]]\n  servers = [\"::\", \"2001:db8::53\"]\n  lifetime = \"%ds\"\n", 100+r.Intn(5000))
		tags = append(tags, "dyn:wildcard-rdnss")
	}
	return sb.String(), tags
}

// v12Dynamic: the own RA changes BETWEEN received RAs -- the injected address list of a wildcard ::/64 prefix (and
// of a wildcard RDNSS server), the loopback routes of a wildcard route, the forwarding flag, the clock under a
// deprecated prefix / route -- and every received RA must be compared with the own RA as it is at that moment
// (computed here by config.Interface.RouterAdvertisement on the current state, independently of handle).
func v12Dynamic(t *testing.T, e *v12Emitter) {
	n := 120
	if verifh.Thorough() {
		n = 2500
	}
	epoch := time.Unix(1700000000, 0)
	for c := 0; c < n; c++ {
		id := fmt.Sprintf("c12-dyn-%d", c)
		wanted := false
		for k := 0; k < 5; k++ {
			wanted = wanted || e.out.Wants(fmt.Sprintf("%s-%d", id, k))
		}
		if !wanted {
			continue
		}
		r := verifh.NewRand(verifh.Seed(), id)
		toml, tags := v12DynConfig(r)
		cfg, err := config.Parse(strings.NewReader(toml), epoch)
		if err != nil {
			t.Fatalf("%s: generated configuration rejected: %v\n%s", id, err, toml)
		}
		ifi := cfg.Interfaces[0]
		env := &v12Env{now: epoch.Add(time.Duration(r.Intn(300)) * time.Second),
			state: system.TestState{Interfaces: map[string]system.TestStateInterface{ifi.Name: {Forwarding: r.Chance(70)}}}}
		pick := func(pool []string, k int) []string {
			p := append([]string(nil), pool...)
			verifh.Shuffle(r, p)
			return p[:k]
		}
		setAddrs := func() {
			env.addrs = nil
			for _, s := range pick(v12DynAddrs, 1+r.Intn(4)) {
				env.addrs = append(env.addrs, system.IP{Address: netip.MustParsePrefix(s), ValidForever: r.Chance(30)})
			}
		}
		setRoutes := func() {
			env.routes = nil
			for _, s := range pick(v12DynRoutes, r.Intn(3)) {
				env.routes = append(env.routes, system.Route{Prefix: netip.MustParsePrefix(s), Index: 1})
			}
		}
		setAddrs()
		setRoutes()
		for _, p := range ifi.Plugins {
			switch p := p.(type) {
			case *plugin.Prefix:
				p.Addrs = func() ([]system.IP, error) { return append([]system.IP(nil), env.addrs...), nil }
				p.TimeNow = func() time.Time { return env.now }
			case *plugin.Route:
				p.Routes = func() ([]system.Route, error) { return append([]system.Route(nil), env.routes...), nil }
				p.TimeNow = func() time.Time { return env.now }
			case *plugin.RDNSS:
				p.Addrs = func() ([]system.IP, error) { return append([]system.IP(nil), env.addrs...), nil }
			}
		}
		current := func() (*ndp.RouterAdvertisement, error) {
			ra, _, err := ifi.RouterAdvertisement(env.state.Interfaces[ifi.Name].Forwarding)
			return ra, err
		}
		h := newV12Harness(ifi, env.state)
		var prevImage *ndp.RouterAdvertisement
		steps := 2 + r.Intn(3)
		for k := 0; k < steps; k++ {
			kid := fmt.Sprintf("%s-%d", id, k)
			change := "none"
			if k > 0 {
				// the own RA changes without the advertiser being reinitialised
				switch change = verifh.Pick(r, []string{"addrs", "addrs", "clock", "forwarding", "routes", "none"}); change {
				case "addrs":
					setAddrs()
				case "routes":
					setRoutes()
				case "clock":
					env.now = env.now.Add(verifh.Pick(r, []time.Duration{time.Second, 37 * time.Second, time.Hour, 1500 * time.Millisecond}))
				case "forwarding":
					env.state.Interfaces[ifi.Name] = system.TestStateInterface{Forwarding: !env.state.Interfaces[ifi.Name].Forwarding}
				}
			}
			ours, err := current()
			if err != nil {
				// e.g. no eligible address for the wildcard RDNSS: handle fails too; not a C12 case
				e.out.Emit(verifh.Case{ID: kid, Tags: append([]string{"stream:dyn", "own-ra:does-not-build"}, tags...),
					Input: map[string]any{"config": toml, "step": k, "change": change}, Observed: map[string]any{"own_ra_error": true}})
				continue
			}
			image, err := v12WireRA(ours)
			if err != nil {
				t.Fatalf("%s: own RA does not encode: %v\n%s", kid, err, toml)
			}
			// what the other router sends: the image of the current own RA, the image of the own RA as it was at the
			// previous reception, or the current image with some lifetimes / options changed
			theirs, self, kind := image, 1, "image-of-current"
			if v12WireExact(ours) {
				self = 2
			}
			switch x := r.Intn(100); {
			case x < 35:
			case x < 55 && prevImage != nil:
				theirs, self, kind = prevImage, 0, "image-of-previous"
			default:
				peer := &ndp.RouterAdvertisement{}
				*peer = *image
				peer.Options = v12Mutate(r, image.Options)
				w, err := v12WireRA(peer)
				if err != nil {
					t.Fatalf("%s: peer RA does not encode: %v", kid, err)
				}
				theirs, self, kind = w, 0, "mutated-current"
			}
			prevImage = image
			o, hookOurs, err := h.deliver(theirs)
			if err != nil {
				e.out.Emit(verifh.Case{ID: kid, ImplViolation: "Advertiser.handle failed on a router advertisement: " + err.Error(),
					Input: map[string]any{"config": toml, "step": k, "change": change}})
				continue
			}
			if hookOurs != nil && !reflect.DeepEqual(hookOurs, ours) {
				e.out.Emit(verifh.Case{ID: kid + "-hook", ImplViolation: "OnInconsistentRA was given an own RA that is not the one CoreRAD advertises now: " +
					v12Summary(hookOurs) + " vs " + v12Summary(ours),
					Input: map[string]any{"config": toml, "step": k, "change": change}})
			}
			e.emit(kid, 1, ours, theirs, self, o, append([]string{"stream:dyn", "order:handle", fmt.Sprintf("step:%d", k),
				"change:" + change, "peer:" + kind}, tags...))
		}
	}
}

// v12CodecUnstable records (without a verdict: domain names are opaque tokens in the model) what
// happens when the ndp codec rewrites a configured DNSSL domain name -- punycode is decoded to
// Unicode, a trailing dot is dropped -- so that the own RA differs from its own wire image.
func v12CodecUnstable(t *testing.T, out *verifh.Out) {
	for k, name := range []string{"xn--bcher-kva.example", "example.com."} {
		id := fmt.Sprintf("c12-codec-%d", k)
		if !out.Wants(id) {
			continue
		}
		toml := fmt.Sprintf("[[interfaces]]\nname = \"eth3\"\nadvertise = true\n  [[interfaces.dnssl]]\n  domain_names = [%q]\n", name)
		cfg, err := config.Parse(strings.NewReader(toml), time.Unix(1700000000, 0))
		if err != nil {
			continue // rejected by the parser: nothing to observe
		}
		ours, _, err := cfg.Interfaces[0].RouterAdvertisement(true)
		if err != nil {
			continue
		}
		image, err := v12WireRA(ours)
		if err != nil {
			continue
		}
		o := v12Direct(ours, image)
		// "an RA equal to CoreRAD's own after a wire round trip produces no report": it does here -- known finding
		// dnssl_codec_rewrite (DNS names are opaque tokens in the model, so the verdict is this assertion)
		c := verifh.Case{ID: id, Tags: []string{"stream:codec-unstable-name", fmt.Sprintf("candidate-reported:%d", len(o.reported))},
			Desc:     "own RA vs its own wire image for a DNSSL name the codec rewrites",
			Input:    map[string]any{"config": toml, "ours": v12Summary(ours), "theirs_decoded": v12Summary(image)},
			Observed: map[string]any{"reported": o.reported}, Class: "dnssl_codec_rewrite"}
		if len(o.reported) > 0 {
			c.ImplViolation = fmt.Sprintf("the own RA with DNSSL name %q, after a wire round trip (a twin router with the same configuration), is reported as inconsistent: %v", name, o.reported)
		}
		out.Emit(c)
	}
}

// v12Config generates an accepted interface configuration whose durations are mostly not whole
// wire units.
func v12Config(r *verifh.Rand) (string, []string) {
	var sb strings.Builder
	sub := false
	whole := r.Chance(20) // a configuration in whole wire units only
	frac := func(unit time.Duration) time.Duration {
		if whole || r.Chance(35) {
			return 0
		}
		sub = true
		return verifh.Pick(r, []time.Duration{1, unit / 2, unit - 1, time.Duration(r.Int63n(int64(unit)))})
	}
	secs := func(lo, hi int) string {
		return (time.Duration(lo+r.Intn(hi-lo+1))*time.Second + frac(time.Second)).String()
	}
	fmt.Fprintf(&sb, "[[interfaces]]\nname = \"eth3\"\nadvertise = true\n")
	fmt.Fprintf(&sb, "max_interval = \"%s\"\n", (time.Duration(4+r.Intn(1796))*time.Second + frac(time.Second)).String())
	if r.Chance(80) {
		fmt.Fprintf(&sb, "reachable_time = \"%s\"\n", (time.Duration(r.Intn(3600000))*time.Millisecond + frac(time.Millisecond)).String())
	}
	if r.Chance(80) {
		fmt.Fprintf(&sb, "retransmit_timer = \"%s\"\n", (time.Duration(r.Intn(3600000))*time.Millisecond + frac(time.Millisecond)).String())
	}
	fmt.Fprintf(&sb, "managed = %t\nother_config = %t\nhop_limit = %d\n", r.Bool(), r.Bool(), r.Intn(256))
	if r.Chance(50) {
		fmt.Fprintf(&sb, "source_lla = true\n")
	}
	if r.Chance(40) {
		fmt.Fprintf(&sb, "mtu = %d\n", 1280+r.Intn(7000))
	}
	if r.Chance(30) {
		fmt.Fprintf(&sb, "captive_portal = \"%s\"\n", v12U1)
	}
	for k, p := range []string{"2001:db8:10::/64", "2001:db8:20::/64", "fd00:30::/48"} {
		if r.Chance(60) {
			valid := time.Duration(100+r.Intn(100000))*time.Second + frac(time.Second)
			pref := valid
			if r.Chance(70) {
				pref = time.Duration(1+r.Intn(100))*time.Second + frac(time.Second)
			}
			fmt.Fprintf(&sb, "  [[interfaces.prefix]]\n  prefix = \"%s\"\n  valid_lifetime = \"%s\"\n  preferred_lifetime = \"%s\"\n", p, valid, pref)
			if k == 0 && r.Chance(20) {
				fmt.Fprintf(&sb, "  deprecated = true\n")
			}
		}
	}
	for _, p := range []string{"2001:db8:ffff::/48", "fd00:ffff::/32", "2001:db8:ee00::/40"} {
		if r.Chance(50) {
			fmt.Fprintf(&sb, "  [[interfaces.route]]\n  prefix = \"%s\"\n  preference = \"%s\"\n  lifetime = \"%s\"\n", p,
				verifh.Pick(r, []string{"low", "medium", "high"}), secs(1, 100000))
		}
	}
	for k := r.Intn(3); k > 0; k-- {
		// zoned servers are rejected by the parser since /repo f20e750; the value-level streams
		// still compare zoned and zone-less addresses
		zone := ""
		_ = r.Chance(30)
		// several servers / names per stanza, NOT in ascending order (an in-place sort by the check would show)
		fmt.Fprintf(&sb, "  [[interfaces.rdnss]]\n  servers = [\"fe80::1:%d%s\", \"2001:db8::%d\", \"fd00::53\"]\n", k, zone, 50+k)
		if r.Chance(70) {
			fmt.Fprintf(&sb, "  lifetime = \"%s\"\n", secs(1, 100000))
		} else {
			fmt.Fprintf(&sb, "  lifetime = \"auto\"\n")
		}
	}
	for k := r.Intn(3); k > 0; k-- {
		fmt.Fprintf(&sb, "  [[interfaces.dnssl]]\n  domain_names = [\"lan%d.example.org\", \"d%d.example.com\", \"Mid.Example.NET\"]\n", k, k)
		if r.Chance(70) {
			fmt.Fprintf(&sb, "  lifetime = \"%s\"\n", secs(1, 100000))
		} else {
			fmt.Fprintf(&sb, "  lifetime = \"auto\"\n")
		}
	}
	tags := []string{"subunit:" + verifh.B(sub)}
	return sb.String(), tags
}
