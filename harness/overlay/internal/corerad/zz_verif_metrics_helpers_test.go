//go:build verif && go1.25

package corerad

// Helpers shared by the C17 (metrics + debug API) and C04 (non-forwarding interface) drivers: a recording,
// failure-injecting system.State, the production wiring of cmd/corerad/main.go, rendering of RAs / samples / JSON
// bodies as Gallina terms of Model/Types.v, Model/Metrics.v and Model/Api.v.

import (
	"encoding/json"
	"fmt"
	"io"
	"log"
	"math"
	"net"
	"net/http"
	"net/http/httptest"
	"net/netip"
	"sort"
	"strings"
	"sync"
	"sync/atomic"
	"time"

	"github.com/mdlayher/corerad/internal/config"
	"github.com/mdlayher/corerad/internal/crhttp"
	"github.com/mdlayher/corerad/internal/plugin"
	"github.com/mdlayher/corerad/internal/system"
	"github.com/mdlayher/corerad/internal/verifh"
	"github.com/mdlayher/metricslite"
	"github.com/mdlayher/ndp"
	"github.com/prometheus/client_golang/prometheus"
	"github.com/prometheus/client_golang/prometheus/promhttp"
	dto "github.com/prometheus/client_model/go"
)

// ---------------------------------------------------------------- State

// mState is a mutable system.State which records reads per interface and fails on request.
type mState struct {
	mu       sync.Mutex
	fwd      map[string]bool
	auto     map[string]bool
	failFwd  map[string]bool
	failAuto map[string]bool
	fwdReads map[string]int
}

func newMState() *mState {
	return &mState{fwd: map[string]bool{}, auto: map[string]bool{}, failFwd: map[string]bool{},
		failAuto: map[string]bool{}, fwdReads: map[string]int{}}
}

func (s *mState) IPv6Autoconf(iface string) (bool, error) {
	s.mu.Lock()
	defer s.mu.Unlock()
	if s.failAuto[iface] {
		return false, errInjectedM
	}
	return s.auto[iface], nil
}

func (s *mState) IPv6Forwarding(iface string) (bool, error) {
	s.mu.Lock()
	defer s.mu.Unlock()
	s.fwdReads[iface]++
	if s.failFwd[iface] {
		return false, errInjectedM
	}
	return s.fwd[iface], nil
}

func (s *mState) SetIPv6Autoconf(iface string, v bool) error {
	s.mu.Lock()
	defer s.mu.Unlock()
	s.auto[iface] = v
	return nil
}

func (s *mState) setFwd(iface string, v bool) {
	s.mu.Lock()
	defer s.mu.Unlock()
	s.fwd[iface] = v
}

// setFail / clearFails / snapshot: the driver's own accesses are locked too (the advertisers read concurrently).
func (s *mState) setFail(iface string, fwd, auto bool) {
	s.mu.Lock()
	defer s.mu.Unlock()
	if fwd {
		s.failFwd[iface] = true
	}
	if auto {
		s.failAuto[iface] = true
	}
}

func (s *mState) clearFails() {
	s.mu.Lock()
	defer s.mu.Unlock()
	s.failFwd, s.failAuto = map[string]bool{}, map[string]bool{}
}

// get returns (forwarding, autoconf, forwarding read fails, autoconf read fails) without counting a read.
func (s *mState) get(iface string) (fwd, auto, failFwd, failAuto bool) {
	s.mu.Lock()
	defer s.mu.Unlock()
	return s.fwd[iface], s.auto[iface], s.failFwd[iface], s.failAuto[iface]
}

func (s *mState) reads(iface string) int {
	s.mu.Lock()
	defer s.mu.Unlock()
	return s.fwdReads[iface]
}

var errInjectedM = fmt.Errorf("verif: injected state failure")

// ---------------------------------------------------------------- production wiring

// mWiring is what cmd/corerad/main.go builds: one pedantic registry, one Metrics on it, the debug handler around
// promhttp, a Server whose tasks share the configuration's plugin values.
type mWiring struct {
	cfg   *config.Config
	state *mState
	reg   *prometheus.Registry
	mm    *Metrics
	cctx  *Context
	h     *crhttp.Handler
	srv   *Server
	logs  *mLog
}

// mLog counts, per interface, the "not configured for IPv6 forwarding" lines of the shared logger.
type mLog struct {
	mu     sync.Mutex
	notFwd map[string]int
}

func (l *mLog) Write(p []byte) (int, error) {
	l.mu.Lock()
	defer l.mu.Unlock()
	for _, line := range strings.Split(string(p), "\n") {
		if !strings.Contains(line, "IPv6 forwarding") {
			continue
		}
		if i := strings.Index(line, ": "); i > 0 {
			l.notFwd[line[:i]]++
		}
	}
	return len(p), nil
}

func (l *mLog) count(iface string) int {
	l.mu.Lock()
	defer l.mu.Unlock()
	return l.notFwd[iface]
}

func newMWiring(cfg *config.Config, st *mState) *mWiring {
	w := &mWiring{cfg: cfg, state: st, logs: &mLog{notFwd: map[string]int{}}}
	ll := log.New(w.logs, "", 0)
	w.reg = prometheus.NewPedanticRegistry()
	w.mm = NewMetrics(metricslite.NewPrometheus(w.reg), "verif", time.Time{}, st, cfg.Interfaces)
	w.cctx = NewContext(ll, w.mm, st)
	w.h = crhttp.NewHandler(ll, st, *cfg, promhttp.HandlerFor(w.reg, promhttp.HandlerOpts{}))
	w.srv = NewServer(w.cctx)
	return w
}

// memorySeries scrapes the same interfaces through the Memory back end (fresh: Memory never forgets a sample).
func (w *mWiring) memorySeries() (series map[string]metricslite.Series, panicked any) {
	defer func() {
		if r := recover(); r != nil {
			panicked = r
		}
	}()
	mm := NewMetrics(metricslite.NewMemory(), "verif", time.Time{}, w.state, w.cfg.Interfaces)
	s, _ := mm.Series()
	return s, nil
}

var mReqs atomic.Int64

var mClientHeaders = [][]string{
	nil,
	{"If-None-Match", "*"},
	nil,
	{"Range", "bytes=0-9"},
	{"If-Modified-Since", "Fri, 01 Jan 2100 00:00:00 GMT"},
	{"If-Modified-Since", "Fri, 01 Jan 2100 00:00:00 GMT", "If-None-Match", `"x"`, "Cache-Control", "max-age=0"},
	{"If-Range", "Fri, 01 Jan 2100 00:00:00 GMT", "Range", "bytes=5-"},
}

// get issues one request against the debug handler; a panic inside the handler is returned.
func (w *mWiring) get(path string) (status int, body []byte, panicked any) {
	defer func() {
		if r := recover(); r != nil {
			panicked = r
		}
	}()
	rec := httptest.NewRecorder()
	req := httptest.NewRequest(http.MethodGet, path, nil)
	// requests come from browsers reloading, curl -z, caching proxies in front of the debug port: what is reported
	// is the state of that moment whatever validators or ranges the client sends along
	hs := mClientHeaders[int(mReqs.Add(1))%len(mClientHeaders)]
	for i := 0; i+1 < len(hs); i += 2 {
		req.Header.Set(hs[i], hs[i+1])
	}
	w.h.ServeHTTP(rec, req)
	res := rec.Result()
	b, _ := io.ReadAll(res.Body)
	return res.StatusCode, b, nil
}

// ---------------------------------------------------------------- plugins: Prepare with fake sources

// mSources are the fakes which a prepared plugin reads.
type mSources struct {
	mu        sync.Mutex
	addrs     []system.IP
	routes    []system.Route
	failAddrs bool
	failRoute bool
	now       func() time.Time
}

func (s *mSources) Addrs() ([]system.IP, error) {
	s.mu.Lock()
	defer s.mu.Unlock()
	if s.failAddrs {
		return nil, errInjectedM
	}
	return append([]system.IP(nil), s.addrs...), nil
}

func (s *mSources) setFail(addrs, routes bool) {
	s.mu.Lock()
	defer s.mu.Unlock()
	s.failAddrs, s.failRoute = addrs, routes
}

func (s *mSources) failing() bool {
	s.mu.Lock()
	defer s.mu.Unlock()
	return s.failAddrs || s.failRoute
}

func (s *mSources) Routes() ([]system.Route, error) {
	s.mu.Lock()
	defer s.mu.Unlock()
	if s.failRoute {
		return nil, errInjectedM
	}
	return append([]system.Route(nil), s.routes...), nil
}

// mPlugin wraps a parsed plugin so that Prepare installs the fake sources instead of rtnetlink / the wall clock;
// everything else (Apply, in particular) is the real plugin.
type mPlugin struct {
	plugin.Plugin
	src *mSources
}

func (p *mPlugin) Prepare(ifi *net.Interface) error {
	switch in := p.Plugin.(type) {
	case *plugin.Prefix:
		in.TimeNow, in.Addrs = p.src.now, p.src.Addrs
	case *plugin.Route:
		in.TimeNow, in.Routes = p.src.now, p.src.Routes
	case *plugin.RDNSS:
		in.Addrs = p.src.Addrs
	default:
		return p.Plugin.Prepare(ifi)
	}
	return nil
}

// wrapPlugins replaces, in place, every plugin of every interface: the slices are shared by everything which was
// or will be built from cfg.
func wrapPlugins(cfg *config.Config, src map[string]*mSources) {
	for i := range cfg.Interfaces {
		ifi := &cfg.Interfaces[i]
		for j, p := range ifi.Plugins {
			ifi.Plugins[j] = &mPlugin{Plugin: p, src: src[ifi.Name]}
		}
	}
}

// needsSource reports whether an interface has a plugin which cannot be applied before Prepare.
func needsSource(ifi config.Interface) bool {
	for _, p := range ifi.Plugins {
		if w, ok := p.(*mPlugin); ok {
			p = w.Plugin
		}
		switch in := p.(type) {
		case *plugin.Prefix:
			if in.Auto {
				return true
			}
		case *plugin.Route:
			if in.Auto {
				return true
			}
		case *plugin.RDNSS:
			if in.Auto {
				return true
			}
		}
	}
	return false
}

// ---------------------------------------------------------------- Gallina rendering

// hZ / hAddr render numbers as hexadecimal literals (Coq converts them several times faster than decimal ones,
// and the case files of C17 / C04 consist mostly of 128-bit addresses and nanosecond durations).
func hZ(v int64) string {
	if v > -65536 && v < 65536 {
		return verifh.Z(v)
	}
	if v < 0 {
		return fmt.Sprintf("(-0x%x)%%Z", -v)
	}
	return fmt.Sprintf("(0x%x)%%Z", v)
}

func hAddr(a netip.Addr) string {
	if !a.IsValid() {
		return "0%N"
	}
	if a.Is4() {
		b := a.As4()
		return fmt.Sprintf("0x%x%%N", uint32(b[0])<<24|uint32(b[1])<<16|uint32(b[2])<<8|uint32(b[3]))
	}
	return fmt.Sprintf("0x%x%%N", verifh.AddrBig(a))
}

func coqStr(s string) string {
	return "\"" + strings.ReplaceAll(s, "\"", "\"\"") + "\"%string"
}

// coqName renders a metric or label name: the documented names are constants of Corr/C17.v (s_<name>), which Coq
// elaborates much faster than string literals; anything else is a literal.
func coqName(s string) string {
	if _, ok := constNames[s]; ok {
		return "s_" + s
	}
	switch s {
	case "interface", "details", "domains", "prefix", "route", "servers":
		return "s_" + s
	}
	return coqStr(s)
}

func coqPref(p ndp.Preference) string {
	switch p {
	case ndp.Low:
		return "Low"
	case ndp.High:
		return "High"
	default:
		return "Medium"
	}
}

func coqAddrs(as []netip.Addr) string {
	l := make([]string, len(as))
	for i, a := range as {
		l[i] = hAddr(a)
	}
	return verifh.List(l)
}

func coqOpt(o ndp.Option, in *verifh.Intern) string {
	switch o := o.(type) {
	case *ndp.PrefixInformation:
		return verifh.App("OPrefix", verifh.N(uint64(o.PrefixLength)), verifh.B(o.OnLink), verifh.B(o.AutonomousAddressConfiguration),
			hZ(int64(o.ValidLifetime)), hZ(int64(o.PreferredLifetime)), hAddr(o.Prefix))
	case *ndp.RouteInformation:
		return verifh.App("ORoute", verifh.N(uint64(o.PrefixLength)), coqPref(o.Preference), hZ(int64(o.RouteLifetime)), hAddr(o.Prefix))
	case *ndp.RecursiveDNSServer:
		return verifh.App("ORDNSS", hZ(int64(o.Lifetime)), coqAddrs(o.Servers))
	case *ndp.DNSSearchList:
		l := make([]string, len(o.DomainNames))
		for i, d := range o.DomainNames {
			l[i] = in.N("dom:" + d)
		}
		return verifh.App("ODNSSL", hZ(int64(o.Lifetime)), verifh.List(l))
	case *ndp.MTU:
		return verifh.App("OMTU", verifh.N(uint64(o.MTU)))
	case *ndp.LinkLayerAddress:
		l := make([]string, len(o.Addr))
		for i, b := range o.Addr {
			l[i] = verifh.N(uint64(b))
		}
		return verifh.App("OSLLA", verifh.List(l))
	case *ndp.CaptivePortal:
		return verifh.App("OCaptive", in.N("uri:"+o.URI))
	case *ndp.PREF64:
		return verifh.App("OPref64", verifh.B(o.Prefix.Addr().Is4()), hAddr(o.Prefix.Addr()), verifh.N(uint64(o.Prefix.Bits())), hZ(int64(o.Lifetime)))
	default:
		return verifh.App("OOther", verifh.N(uint64(o.Code())))
	}
}

func coqRA(ra *ndp.RouterAdvertisement, in *verifh.Intern) string {
	opts := make([]string, len(ra.Options))
	for i, o := range ra.Options {
		opts[i] = coqOpt(o, in)
	}
	return verifh.App("mkRA", verifh.N(uint64(ra.CurrentHopLimit)), verifh.B(ra.ManagedConfiguration), verifh.B(ra.OtherConfiguration),
		coqPref(ra.RouterSelectionPreference), hZ(int64(ra.RouterLifetime)), hZ(int64(ra.ReachableTime)),
		hZ(int64(ra.RetransmitTimer)), verifh.List(opts))
}

// nano converts a float64 sample value to nano-units. time.Duration.Seconds() is not injective; the candidates are
// tried from the coarsest granularity, and the first one whose own Seconds() is the observed float is taken.
func nano(f float64) int64 {
	if math.IsNaN(f) || math.IsInf(f, 0) || math.Abs(f) > 9e9 {
		return math.MinInt64 + 1
	}
	for _, unit := range []float64{1e9, 1e6, 1e3, 1} { // whole s, ms, us, ns
		n := int64(math.Round(f*(1e9/unit))) * int64(unit)
		if time.Duration(n).Seconds() == f {
			return n
		}
	}
	return int64(math.Round(f * 1e9))
}

// labelTerm parses a label value back into a model value, by label name.
func labelTerm(name, v string, in *verifh.Intern) string {
	switch name {
	case "interface":
		return verifh.App("LId", in.N("if:"+v))
	case "prefix", "route":
		if p, err := netip.ParsePrefix(v); err == nil {
			return verifh.App("LCidr", hAddr(p.Addr()), verifh.N(uint64(p.Bits())))
		}
	case "servers":
		var as []netip.Addr
		ok := true
		if v != "" {
			for _, s := range strings.Split(v, ", ") {
				a, err := netip.ParseAddr(s)
				if err != nil {
					ok = false
					break
				}
				as = append(as, a)
			}
		}
		if ok {
			return verifh.App("LAddrs", coqAddrs(as))
		}
	case "domains":
		var l []string
		if v != "" {
			for _, s := range strings.Split(v, ", ") {
				l = append(l, in.N("dom:"+s))
			}
		}
		return verifh.App("LIds", verifh.List(l))
	}
	return verifh.App("LStr", coqStr(v))
}

type mSample struct {
	Name   string
	Labels [][2]string
	Value  float64
}

func (s mSample) term(in *verifh.Intern) string {
	ls := make([]string, len(s.Labels))
	for i, l := range s.Labels {
		ls[i] = verifh.App("L", coqName(l[0]), labelTerm(l[0], l[1], in))
	}
	return verifh.App("S", coqName(s.Name), verifh.List(ls), hZ(nano(s.Value)))
}

func sampleTerms(ss []mSample, in *verifh.Intern) string {
	sort.SliceStable(ss, func(i, j int) bool {
		if ss[i].Name != ss[j].Name {
			return ss[i].Name < ss[j].Name
		}
		return fmt.Sprint(ss[i].Labels) < fmt.Sprint(ss[j].Labels)
	})
	l := make([]string, len(ss))
	for i, s := range ss {
		l[i] = s.term(in)
	}
	return verifh.List(l)
}

// constNames are the const metrics (everything which is derived from the interface and RA state at scrape time).
var constNames = map[string][]string{
	ifiAdvertising: {"interface"}, ifiMonitoring: {"interface"}, ifiAutoconfiguration: {"interface"}, ifiForwarding: {"interface"},
	advMisconfiguration: {"interface", "details"}, advDNSSLLifetime: {"interface", "domains"},
	advPrefixAutonomous: {"interface", "prefix"}, advPrefixOnLink: {"interface", "prefix"},
	advPrefixValid: {"interface", "prefix"}, advPrefixPreferred: {"interface", "prefix"},
	advRDNSSLifetime: {"interface", "servers"}, advRouteLifetime: {"interface", "route"},
}

// isStateMetric: samples which are a function of the scrape-time state, as opposed to event counters. A const metric
// which the driver does not know (added by a change) is included as well: names starting with corerad_interface_ /
// corerad_advertiser_ which are not direct instrumentation.
func isStateMetric(name string) bool {
	if _, ok := constNames[name]; ok {
		return true
	}
	switch name {
	case "corerad_advertiser_last_multicast_timestamp_seconds", "corerad_advertiser_messages_received_total",
		advInconsistencies, "corerad_advertiser_router_advertisements_total", "corerad_advertiser_errors_total":
		return false
	}
	return strings.HasPrefix(name, "corerad_interface_") || strings.HasPrefix(name, "corerad_advertiser_")
}

// gatherSamples projects the result of Registry.Gather onto the state metrics.
func gatherSamples(mfs []*dto.MetricFamily) []mSample {
	var out []mSample
	for _, mf := range mfs {
		if !isStateMetric(mf.GetName()) {
			continue
		}
		for _, m := range mf.GetMetric() {
			s := mSample{Name: mf.GetName()}
			for _, lp := range m.GetLabel() {
				s.Labels = append(s.Labels, [2]string{lp.GetName(), lp.GetValue()})
			}
			switch {
			case m.Gauge != nil:
				s.Value = m.GetGauge().GetValue()
			case m.Counter != nil:
				s.Value = m.GetCounter().GetValue()
			default:
				s.Value = math.NaN()
			}
			out = append(out, s)
		}
	}
	return out
}

// memorySamples projects Memory series onto the state metrics. A key is "name=value,name=value" in registration
// order; values may contain ", " (never ",<label>="), so the key is cut at the label names. failed reports the
// ScrapeError marker (sample "" = -1 of the forwarding metric).
func memorySamples(series map[string]metricslite.Series) (out []mSample, failed bool) {
	for name, s := range series {
		if !isStateMetric(name) {
			continue
		}
		names, known := constNames[name]
		for k, v := range s.Samples {
			if k == "" && v == -1 {
				failed = true
				continue
			}
			smp := mSample{Name: name, Value: v}
			if !known {
				smp.Labels = [][2]string{{"?", k}}
				out = append(out, smp)
				continue
			}
			rest := k
			for i, ln := range names {
				rest = strings.TrimPrefix(rest, ln+"=")
				val := rest
				if i+1 < len(names) {
					if j := strings.Index(rest, ","+names[i+1]+"="); j >= 0 {
						val, rest = rest[:j], rest[j+1:]
					}
				}
				smp.Labels = append(smp.Labels, [2]string{ln, val})
			}
			out = append(out, smp)
		}
	}
	return out, failed
}

// ---- JSON body of /_/api/interfaces

type jBody struct {
	Interfaces []struct {
		Interface     string `json:"interface"`
		Advertise     bool   `json:"advertise"`
		Advertisement *struct {
			CurrentHopLimit             int64  `json:"current_hop_limit"`
			ManagedConfiguration        bool   `json:"managed_configuration"`
			OtherConfiguration          bool   `json:"other_configuration"`
			RouterSelectionPreference   string `json:"router_selection_preference"`
			RouterLifetimeSeconds       int64  `json:"router_lifetime_seconds"`
			ReachableTimeMilliseconds   int64  `json:"reachable_time_milliseconds"`
			RetransmitTimerMilliseconds int64  `json:"retransmit_timer_milliseconds"`
			Options                     struct {
				DNSSL []struct {
					LifetimeSeconds int64    `json:"lifetime_seconds"`
					DomainNames     []string `json:"domain_names"`
				} `json:"dnssl"`
				MTU      int64 `json:"mtu"`
				Prefixes []struct {
					Prefix     string `json:"prefix"`
					OnLink     bool   `json:"on_link"`
					Autonomous bool   `json:"autonomous_address_autoconfiguration"`
					Valid      int64  `json:"valid_lifetime_seconds"`
					Preferred  int64  `json:"preferred_lifetime_seconds"`
				} `json:"prefixes"`
				RDNSS []struct {
					LifetimeSeconds int64    `json:"lifetime_seconds"`
					Servers         []string `json:"servers"`
				} `json:"rdnss"`
				Routes []struct {
					Prefix     string `json:"prefix"`
					Preference string `json:"preference"`
					Lifetime   int64  `json:"route_lifetime_seconds"`
				} `json:"routes"`
				SLLA    string `json:"source_link_layer_address"`
				Captive string `json:"captive_portal"`
				PREF64  []struct {
					Prefix          string `json:"prefix"`
					LifetimeSeconds int64  `json:"lifetime_seconds"`
				} `json:"pref64"`
			} `json:"options"`
		} `json:"advertisement"`
	} `json:"interfaces"`
}

func prefStr(s string) string {
	switch s {
	case "low":
		return "Low"
	case "high":
		return "High"
	default:
		return "Medium"
	}
}

func cidrParts(s string) (addr, bits string, v4 bool) {
	p, err := netip.ParsePrefix(s)
	if err != nil {
		return "0%N", "999%N", false
	}
	return hAddr(p.Addr()), verifh.N(uint64(p.Bits())), p.Addr().Is4()
}

// bodyTerm renders a decoded body as `list jiface`.
func bodyTerm(b *jBody, in *verifh.Intern) string {
	var ifs []string
	for _, i := range b.Interfaces {
		adv := verifh.None()
		if a := i.Advertisement; a != nil {
			o := a.Options
			var dnssl, prefixes, rdnss, routes, pref64 []string
			for _, d := range o.DNSSL {
				var names []string
				for _, n := range d.DomainNames {
					names = append(names, in.N("dom:"+n))
				}
				dnssl = append(dnssl, verifh.App("mkJDnssl", hZ(d.LifetimeSeconds), verifh.List(names)))
			}
			for _, p := range o.Prefixes {
				a, bits, _ := cidrParts(p.Prefix)
				prefixes = append(prefixes, verifh.App("mkJPrefix", a, bits, verifh.B(p.OnLink), verifh.B(p.Autonomous), hZ(p.Valid), hZ(p.Preferred)))
			}
			for _, r := range o.RDNSS {
				var as []netip.Addr
				for _, s := range r.Servers {
					a, _ := netip.ParseAddr(s)
					as = append(as, a)
				}
				rdnss = append(rdnss, verifh.App("mkJRdnss", hZ(r.LifetimeSeconds), coqAddrs(as)))
			}
			for _, r := range o.Routes {
				a, bits, _ := cidrParts(r.Prefix)
				routes = append(routes, verifh.App("mkJRoute", a, bits, prefStr(r.Preference), hZ(r.Lifetime)))
			}
			for _, p := range o.PREF64 {
				a, bits, v4 := cidrParts(p.Prefix)
				pref64 = append(pref64, verifh.App("mkJPref64", verifh.B(v4), a, bits, hZ(p.LifetimeSeconds)))
			}
			slla := verifh.None()
			if o.SLLA != "" {
				if mac, err := net.ParseMAC(o.SLLA); err == nil {
					var bs []string
					for _, x := range mac {
						bs = append(bs, verifh.N(uint64(x)))
					}
					slla = verifh.Some(verifh.List(bs))
				} else {
					slla = verifh.Some("[999%N]")
				}
			}
			captive := verifh.None()
			if o.Captive != "" {
				captive = verifh.Some(in.N("uri:" + o.Captive))
			}
			opts := verifh.App("mkJOpts", verifh.List(dnssl), hZ(o.MTU), verifh.List(prefixes), verifh.List(rdnss),
				verifh.List(routes), slla, captive, verifh.List(pref64))
			adv = verifh.Some(verifh.App("mkJRA", hZ(a.CurrentHopLimit), verifh.B(a.ManagedConfiguration), verifh.B(a.OtherConfiguration),
				prefStr(a.RouterSelectionPreference), hZ(a.RouterLifetimeSeconds), hZ(a.ReachableTimeMilliseconds),
				hZ(a.RetransmitTimerMilliseconds), opts))
		}
		ifs = append(ifs, verifh.App("mkJIface", in.N("if:"+i.Interface), verifh.B(i.Advertise), adv))
	}
	return verifh.List(ifs)
}

// jRequired: the keys every object of the body carries, whatever the values ("mirrors the current RA": a router
// lifetime of 0 is stated as 0, not left out; a consumer using jq sees null otherwise).
var jRequired = map[string][]string{
	"interface":     {"interface", "advertise", "advertisement"},
	"advertisement": {"current_hop_limit", "managed_configuration", "other_configuration", "router_selection_preference", "router_lifetime_seconds", "reachable_time_milliseconds", "retransmit_timer_milliseconds", "options"},
	"options":       {"dnssl", "mtu", "prefixes", "rdnss", "routes", "source_link_layer_address", "captive_portal", "pref64"},
	"prefixes":      {"prefix", "on_link", "autonomous_address_autoconfiguration", "valid_lifetime_seconds", "preferred_lifetime_seconds"},
	"routes":        {"prefix", "preference", "route_lifetime_seconds"},
	"rdnss":         {"lifetime_seconds", "servers"},
	"dnssl":         {"lifetime_seconds", "domain_names"},
	"pref64":        {"prefix", "lifetime_seconds"},
}

func jMissing(kind string, v any, path string, missing *[]string) {
	m, ok := v.(map[string]any)
	if !ok {
		return
	}
	for _, k := range jRequired[kind] {
		if _, ok := m[k]; !ok {
			*missing = append(*missing, path+"."+k)
		}
	}
}

func decodeBody(b []byte) (*jBody, error) {
	var body jBody
	dec := json.NewDecoder(strings.NewReader(string(b)))
	if err := dec.Decode(&body); err != nil {
		return nil, err
	}
	// key set: decoding into a struct cannot tell an absent key from a zero value
	var raw map[string]any
	var missing []string
	if err := json.Unmarshal(b, &raw); err != nil {
		return nil, err
	}
	ifs, _ := raw["interfaces"].([]any)
	for i, x := range ifs {
		p := fmt.Sprintf("interfaces[%d]", i)
		jMissing("interface", x, p, &missing)
		adv, _ := x.(map[string]any)["advertisement"].(map[string]any)
		if adv == nil {
			continue
		}
		jMissing("advertisement", adv, p+".advertisement", &missing)
		opts, _ := adv["options"].(map[string]any)
		jMissing("options", opts, p+".advertisement.options", &missing)
		for _, kind := range []string{"prefixes", "routes", "rdnss", "dnssl", "pref64"} {
			l, _ := opts[kind].([]any)
			for j, e := range l {
				jMissing(kind, e, fmt.Sprintf("%s.advertisement.options.%s[%d]", p, kind, j), &missing)
			}
		}
	}
	if len(missing) > 0 {
		return nil, fmt.Errorf("the body lacks keys: %s", strings.Join(missing, ", "))
	}
	return &body, nil
}
