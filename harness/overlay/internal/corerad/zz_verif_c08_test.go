//go:build verif && go1.25

package corerad

import (
	"context"
	"fmt"
	"math/rand"
	"net/netip"
	"reflect"
	"runtime"
	"sync"
	"testing"
	"testing/synctest"
	"time"

	"github.com/mdlayher/corerad/internal/config"
	"github.com/mdlayher/corerad/internal/netstate"
	"github.com/mdlayher/corerad/internal/plugin"
	"github.com/mdlayher/corerad/internal/verifh"
	"github.com/mdlayher/ndp"
)

type stopScenario struct {
	ID                     string
	Terminate, UnicastOnly bool
	Events                 []advEvent
	CancelAt               int64 // ns after t0; -1: exactly when the first unicast answer is due
	GateUnicast, GateMulti bool  // block these WriteTo calls ...
	GateFinal              bool
	Release                []int64 // ... until cancel + Release[k] (k-th gated write, cyclic); negative = before the cancel
	OneP                   bool    // run on a single P: the solicitation and the cancel reach the scheduler's select together
	CancelInRead           bool    // the cancel happens inside the listener's next ReadFrom, right behind the last delivered solicitation
	FailGated              bool    // the gated (in-flight) transmissions fail when released
	CloseWatch             int     // 1: the link-state subscription is closed just before the cancel, 2: just after (as netstate.Watcher does at shutdown)
	Tags                   []string
}

func runStopScenario(t *testing.T, sc stopScenario) verifh.Case {
	var (
		log         []vEvent
		writes      []vWrite
		lastRelease int64
		finalOK     = true
		runErr      error
		cancelAt    int64
	)
	if sc.OneP {
		defer runtime.GOMAXPROCS(runtime.GOMAXPROCS(1))
	}
	defer func() {
		// goroutines left blocked when the bubble ends make synctest panic: the trace collected so far (without
		// a return event) is the observation
		_ = recover()
	}()
	bubble := func(t *testing.T) {
		time.Sleep(time.Duration(7919 * int64(len(sc.ID))))
		cfg := config.Interface{Name: "v0", Advertise: true, UnicastOnly: sc.UnicastOnly,
			MinInterval: 4 * time.Second, MaxInterval: 4 * time.Second, HopLimit: 64, Managed: true,
			DefaultLifetime: 1800 * time.Second, ReachableTime: 5 * time.Second,
			Plugins: []plugin.Plugin{
				&plugin.Prefix{Prefix: netip.MustParsePrefix("2001:db8::/64"), OnLink: true, ValidLifetime: time.Hour, PreferredLifetime: time.Minute},
				&plugin.LLA{}}}
		var watchC chan netstate.Change
		if sc.CloseWatch != 0 {
			watchC = make(chan netstate.Change, 8)
		}
		var v *vAdvertiser
		if watchC != nil {
			v = newVAdvertiserW(cfg, func() bool { return sc.Terminate }, watchC)
		} else {
			v = newVAdvertiser(cfg, func() bool { return sc.Terminate })
		}
		seed := time.Now().UnixNano()
		start := time.Now()
		cancelAt = sc.CancelAt
		if cancelAt < 0 {
			// the first unicast answer is due at its arrival + the scheduler's first draw
			r0 := rand.New(rand.NewSource(seed)).Int63n(maxRADelay.Nanoseconds())
			for _, e := range sc.Events {
				if e.Src != "::" {
					cancelAt = e.At + r0
					break
				}
			}
		}
		cancelT := start.Add(time.Duration(cancelAt))

		var mu sync.Mutex
		gated := 0
		v.conn.onWrite = func(w *vWrite) error {
			final := w.RA != nil && w.RA.RouterLifetime == 0
			multi := w.Dst.IsMulticast()
			gate := (final && sc.GateFinal) || (!final && multi && w.Seq > 0 && sc.GateMulti) || (!multi && sc.GateUnicast)
			if !gate || len(sc.Release) == 0 {
				return nil
			}
			mu.Lock()
			d := sc.Release[gated%len(sc.Release)]
			gated++
			mu.Unlock()
			at := cancelT.Add(time.Duration(d))
			if final {
				at = time.Now().Add(time.Duration(abs64(d)))
			}
			if wait := time.Until(at); wait > 0 {
				time.Sleep(wait)
			}
			mu.Lock()
			if n := vNow(); n > lastRelease {
				lastRelease = n
			}
			mu.Unlock()
			if sc.FailGated && !final {
				return errInjected
			}
			return nil
		}

		ctx, cancel := context.WithCancel(context.Background())
		if sc.CancelInRead {
			// the (len(Events)+1)-th read is the one that follows the hand-over of the last solicitation
			var once sync.Once
			v.conn.onRead = func(n int) {
				if n == len(sc.Events)+1 {
					once.Do(func() { v.conn.logEvent("cancel", 0); cancel() })
				}
			}
		}
		done := make(chan struct{})
		go func() {
			defer close(done)
			runErr = v.ad.Run(ctx)
			v.conn.logEvent("return", 0)
		}()
		for _, e := range sc.Events {
			if e.At > cancelAt {
				break
			}
			time.Sleep(time.Until(start.Add(time.Duration(e.At))))
			v.conn.readC <- rs(e.Src)
			if e.At < cancelAt {
				synctest.Wait()
			}
		}
		waitDone := func() {
			// Run must return promptly; if it does not, the trace simply has no return event
			bound := 120 * time.Second
			for _, d := range sc.Release {
				if time.Duration(d)+60*time.Second > bound {
					bound = time.Duration(d) + 60*time.Second // the scripted transmissions themselves take that long
				}
			}
			select {
			case <-done:
			case <-time.After(bound):
			}
		}
		if sc.CancelInRead {
			waitDone()
		} else {
			time.Sleep(time.Until(cancelT))
			if sc.CloseWatch == 1 {
				close(watchC)
			}
			v.conn.logEvent("cancel", 0)
			cancel()
			if sc.CloseWatch == 2 {
				close(watchC)
			}
			waitDone()
		}
		// anything the advertiser still does after Run returned shows up after "return"
		time.Sleep(30 * time.Second)
		synctest.Wait()
		log = v.conn.eventLog()
		writes = v.conn.snapshot()
		// the final RA must equal an ordinary RA except for the router lifetime
		for _, w := range writes {
			if w.RA != nil && w.RA.RouterLifetime == 0 {
				cp := *w.RA
				cp.RouterLifetime = writes[0].RA.RouterLifetime
				if !reflect.DeepEqual(&cp, writes[0].RA) || w.Dst != netip.IPv6LinkLocalAllNodes() {
					finalOK = false
				}
			}
		}
	}
	func() {
		defer func() { _ = recover() }()
		synctest.Test(t, bubble)
	}()
	t0 := int64(0)
	if len(log) > 0 {
		t0 = log[0].T
	}
	var tr []string
	var trJ []string
	for _, e := range log {
		var l string
		switch e.Kind {
		case "wbegin":
			w := writes[e.Seq]
			final := w.RA != nil && w.RA.RouterLifetime == 0 && w.Dst.IsMulticast()
			l = verifh.App("LBegin", verifh.N(uint64(e.Seq)), verifh.B(final))
		case "wend":
			l = verifh.App("LEnd", verifh.N(uint64(e.Seq)))
		case "cancel":
			l = "LCancel"
		case "return":
			l = verifh.App("LReturn", verifh.B(runErr == nil))
		}
		tr = append(tr, verifh.Pair(verifh.Z(e.T), l))
		trJ = append(trJ, fmt.Sprintf("%.6f %s %d", float64(e.T-t0)/1e9, e.Kind, e.Seq))
	}
	if lastRelease == 0 {
		lastRelease = t0 + cancelAt
	}
	return verifh.Case{
		ID:       sc.ID,
		Coq:      verifh.App("mkStop", verifh.B(sc.Terminate), verifh.B(sc.UnicastOnly), verifh.List(tr), verifh.Z(lastRelease), verifh.B(finalOK)),
		Input:    sc,
		Observed: trJ,
		Tags:     append(sc.Tags, fmt.Sprintf("terminate:%v", sc.Terminate)),
	}
}

func abs64(x int64) int64 {
	if x < 0 {
		return -x
	}
	return x
}

var _ = ndp.HopLimit

// TestVerifC08 places the stop at chosen instants relative to pending / in-flight transmissions.
func TestVerifC08(t *testing.T) {
	out := verifh.Open()
	defer out.Close()
	r := verifh.NewRand(verifh.Seed(), "C08")
	n := 0
	emit := func(sc stopScenario) {
		n++
		sc.ID = fmt.Sprintf("%s-%d", sc.ID, n)
		if out.Wants(sc.ID) {
			out.Emit(runStopScenario(t, sc))
		}
	}
	const T = int64(10e9)
	one := []advEvent{{At: T, Src: "fe80::2"}}
	three := []advEvent{{At: T, Src: "fe80::2"}, {At: T + 1, Src: "fe80::3"}, {At: T + 2, Src: "2001:db8::5"}}
	for _, term := range []bool{true, false} {
		for _, uo := range []bool{false, true} {
			tag := func(s string) []string { return []string{"instant:" + s, fmt.Sprintf("unicast_only:%v", uo)} }
			// idle
			emit(stopScenario{ID: "idle", Terminate: term, UnicastOnly: uo, CancelAt: T, Tags: tag("idle")})
			// answer pending in its random delay
			emit(stopScenario{ID: "pending-uni", Terminate: term, UnicastOnly: uo, Events: one, CancelAt: T + 1, Tags: tag("unicast-pending")})
			// multicast pending in its 3 s delay
			emit(stopScenario{ID: "pending-multi", Terminate: term, UnicastOnly: uo, Events: []advEvent{{At: 4e9 + 1, Src: "::"}}, CancelAt: 5e9, Tags: tag("multicast-pending")})
			// exactly when the answer is due / solicitation in the same instant as the cancel
			emit(stopScenario{ID: "due-now", Terminate: term, UnicastOnly: uo, Events: one, CancelAt: -1, Tags: tag("due-at-cancel")})
			emit(stopScenario{ID: "rs-now", Terminate: term, UnicastOnly: uo, Events: one, CancelAt: T, Tags: tag("rs-at-cancel")})
			// the same on one P, repeated: the scheduler's select sees the request and the cancellation together and
			// picks either; both orders must end in a clean stop
			for rep := 0; rep < 4; rep++ {
				emit(stopScenario{ID: "rs-now-1p", Terminate: term, UnicastOnly: uo, Events: three, CancelAt: T + 2, OneP: true, Tags: tag("rs-at-cancel-one-P")})
			}
			// the cancel lands right behind a solicitation that was just handed to the scheduler (one P: the scheduler
			// has the request but has not run yet)
			for rep := 0; rep < 3; rep++ {
				emit(stopScenario{ID: "cancel-in-read", Terminate: term, UnicastOnly: uo, Events: three[:1+rep], CancelAt: T + 2, OneP: true,
					CancelInRead: true, Tags: tag("cancel-behind-handover")})
			}
			// in flight (blocked in WriteTo) at the cancel, released after / at / before it
			// (virtual time is free: also transmissions that stay in flight for 15 s, 1 min, 10 min after the stop -- Run waits for
			// them however long they take, there is no point after which the final RA may overtake them)
			for _, rel := range [][]int64{{1e6}, {2e9}, {0}, {-1e6}, {5e9, 1e6, 2e9}, {1e6, 1e6, 1e6}, {3e9, 2e9, 1e9}, {15e9}, {60e9, 1e9, 30e9}, {600e9}} {
				emit(stopScenario{ID: "inflight", Terminate: term, UnicastOnly: uo, Events: three, CancelAt: T + 600e6,
					GateUnicast: true, Release: rel, Tags: tag("in-flight")})
			}
			// scheduled multicast in flight
			emit(stopScenario{ID: "inflight-multi", Terminate: term, UnicastOnly: uo, Events: []advEvent{{At: 4e9 + 1, Src: "::"}}, CancelAt: 7e9 + 5,
				GateMulti: true, Release: []int64{1e9}, Tags: tag("multicast-in-flight")})
			// an in-flight transmission fails when it is released after the stop
			for _, rel := range [][]int64{{1e6}, {2e9, 1e6, 1e9}} {
				emit(stopScenario{ID: "inflight-fails", Terminate: term, UnicastOnly: uo, Events: three, CancelAt: T + 600e6,
					GateUnicast: true, FailGated: true, Release: rel, Tags: tag("in-flight-fails")})
			}
			// the watcher closes the link-state subscription when the daemon stops: never a link change
			for rep := 0; rep < 3; rep++ {
				for _, cw := range []int{1, 2} {
					emit(stopScenario{ID: "watch-closed", Terminate: term, UnicastOnly: uo, Events: one[:rep%2], CancelAt: T + 700e6, CloseWatch: cw,
						OneP: rep > 0, Tags: tag("watch-closed-at-stop")})
				}
			}
			// the final RA itself is slow
			emit(stopScenario{ID: "slow-final", Terminate: term, UnicastOnly: uo, Events: one, CancelAt: T + 600e6,
				GateUnicast: true, GateFinal: true, Release: []int64{1e9, 2e9}, Tags: tag("final-slow")})
		}
	}
	nr := 60
	if verifh.Thorough() {
		nr = 1500
	}
	for k := 0; k < nr; k++ {
		var evs []advEvent
		at := int64(3e9)
		for j := r.Intn(8); j > 0; j-- {
			at += r.Int63n(2e9) + 1
			evs = append(evs, advEvent{At: at, Src: verifh.Pick(r, advSources)})
		}
		var rel []int64
		for j := 1 + r.Intn(4); j > 0; j-- {
			rel = append(rel, r.Int63n(4e9)-1e9)
		}
		emit(stopScenario{ID: "rand", Terminate: r.Chance(60), UnicastOnly: r.Chance(15), Events: evs,
			CancelAt: at + r.Int63n(1500e6), GateUnicast: r.Chance(60), GateMulti: r.Chance(40), GateFinal: r.Chance(30),
			Release: rel, Tags: []string{"instant:random"}})
	}
}
