//go:build verif && go1.25

package corerad

// C09 at volume, on the real Advertiser (real clock): "sheer numbers of invalid messages can never disrupt service".
// 70000 (thorough: 140000) invalid messages in a row -- more than 2^16 -- then one valid solicitation: still the
// same connection (one dial, one initial multicast RA), exactly one answer, every invalid message counted.  Then
// 300000 more from as many distinct (spoofable) sources: the process does not retain memory per source.

import (
	"fmt"
	"net/netip"
	"runtime"
	"strings"
	"testing"
	"time"

	"github.com/mdlayher/corerad/internal/config"
	"github.com/mdlayher/corerad/internal/plugin"
	"github.com/mdlayher/corerad/internal/verifh"
	"github.com/mdlayher/ndp"
)

func TestVerifC09Flood(t *testing.T) {
	out := verifh.Open()
	defer out.Close()
	if !out.Wants("c09-flood-volume") {
		return
	}
	n := 70000
	if verifh.Thorough() {
		n = 140000
	}
	cfg := config.Interface{Name: "v0", Advertise: true, MinInterval: 200 * time.Second, MaxInterval: 600 * time.Second,
		HopLimit: 64, DefaultLifetime: 1800 * time.Second, Plugins: []plugin.Plugin{&plugin.LLA{}}}
	v := newVAdvertiser(cfg, func() bool { return false })
	cancel, done := v.run()
	select {
	case <-v.ad.Ready():
	case <-time.After(5 * time.Second):
	}
	invalid := func() float64 {
		return metricVal(v.mm, "corerad_messages_received_invalid_total", "interface=v0,message=router solicitation")
	}
	stalled := 0
	feed := func(k, base int) {
		for j := 0; j < k; j++ {
			x := base + j
			from := netip.AddrFrom16([16]byte{0xfe, 0x80, 8: 9, 12: byte(x >> 24), 13: byte(x >> 16), 14: byte(x >> 8), 15: byte(x)}).WithZone("v0")
			select {
			case v.cur().readC <- vRead{msg: &ndp.RouterSolicitation{}, hop: 64, from: from}:
			case <-time.After(3 * time.Second):
				// nobody reads this connection any more: the rest goes to whatever connection is current then
				stalled++
				if stalled > 3 {
					return
				}
			}
		}
	}
	var viol []string
	inv0 := invalid()
	feed(n, 0)
	v.cur().readC <- rs("fe80::77")
	deadline := time.Now().Add(5 * time.Second)
	answers := 0
	for time.Now().Before(deadline) && answers == 0 {
		time.Sleep(20 * time.Millisecond)
		answers = 0
		for _, w := range v.cur().snapshot() {
			if !w.Dst.IsMulticast() {
				answers++
			}
		}
	}
	v.mu.Lock()
	dials := len(v.conns)
	v.mu.Unlock()
	multicasts := 0
	for _, w := range v.cur().snapshot() {
		if w.Dst.IsMulticast() {
			multicasts++
		}
	}
	if stalled > 0 {
		viol = append(viol, fmt.Sprintf("the listener stopped reading its connection during a flood of invalid messages (%d sends timed out)", stalled))
	}
	if dials != 1 {
		viol = append(viol, fmt.Sprintf("%d invalid messages in a row made the advertiser dial %d times (want the one connection it had)", n, dials))
	}
	if answers != 1 || multicasts != 1 {
		viol = append(viol, fmt.Sprintf("after %d invalid messages and one valid solicitation: %d unicast answers, %d multicast RAs on the current connection, want 1 and 1", n, answers, multicasts))
	}
	if got := invalid() - inv0; got != float64(n) {
		viol = append(viol, fmt.Sprintf("%v invalid messages counted, %d received", got, n))
	}
	// memory per distinct source
	var m0, m1 runtime.MemStats
	runtime.GC()
	runtime.ReadMemStats(&m0)
	const hosts = 300000
	feed(hosts, 1<<20)
	for i := 0; i < 500 && invalid()-inv0 < float64(n+hosts); i++ {
		time.Sleep(10 * time.Millisecond)
	}
	runtime.GC()
	runtime.ReadMemStats(&m1)
	grown := int64(m1.HeapAlloc) - int64(m0.HeapAlloc)
	if grown > 6<<20 {
		viol = append(viol, fmt.Sprintf("%d invalid messages from as many distinct sources left %d KiB of live heap behind (%.0f bytes per source)", hosts, grown>>10, float64(grown)/hosts))
	}
	cancel()
	<-done
	out.Emit(verifh.Case{ID: "c09-flood-volume", Input: map[string]any{"kind": "flood-volume", "invalid_in_a_row": n, "distinct_sources": hosts},
		Observed: map[string]any{"dials": dials, "answers": answers, "heap_growth_kib": grown >> 10}, Tags: []string{"stream:flood-volume"},
		ImplViolation: strings.Join(viol, "; ")})
}
