//go:build verif && go1.25

package corerad

import (
	"context"
	"errors"
	"fmt"
	"io"
	"io/fs"
	"log"
	"net"
	"net/http"
	"os"
	"reflect"
	"sort"
	"strconv"
	"strings"
	"sync"
	"syscall"
	"testing"
	"testing/synctest"
	"time"
	"unsafe"

	"github.com/mdlayher/corerad/internal/config"
	"github.com/mdlayher/corerad/internal/netstate"
	"github.com/mdlayher/corerad/internal/system"
	"github.com/mdlayher/corerad/internal/verifh"
	"github.com/mdlayher/sdnotify"
)

// ---------------------------------------------------------------- observation log

type c20Ev struct {
	K    string `json:"k"` // start ready see ret sig print stopping started notifyready serve
	I    int    `json:"i,omitempty"`
	B    bool   `json:"b,omitempty"`    // see: terminate() read; print: terminate() at the log line
	R    int64  `json:"r,omitempty"`    // ret / serve: 0 = nil, else error code
	Done bool   `json:"done,omitempty"` // ret / print: ctx.Err() != nil
	S    string `json:"s,omitempty"`    // sig
	T    int64  `json:"t"`              // virtual ns
}

type c20Log struct {
	mu   sync.Mutex
	t0   time.Time
	evs  []c20Ev
	srv  *Server
	ctx  context.Context // the context Serve hands to tasks (captured by the first Run)
	stop bool
	sigs int // signals delivered so far
}

func (l *c20Log) add(e c20Ev, under func(e *c20Ev)) {
	l.mu.Lock()
	defer l.mu.Unlock()
	if l.stop {
		return
	}
	e.T = int64(time.Since(l.t0))
	if under != nil {
		under(&e)
	}
	l.evs = append(l.evs, e)
}

// c20Writer receives the server's log lines and the sdnotify datagrams.  The notification socket is
// best-effort: with fail = "from-signal" every datagram written from the moment the first signal has been
// delivered is recorded and then fails (the supervisor's socket is gone), with "always" every datagram fails.
type c20Writer struct {
	l      *c20Log
	notify bool
	fail   string
}

var errC20Notify = errors.New("write unixgram @->/run/systemd/notify: write: connection refused")

func (w *c20Writer) failing() bool {
	if !w.notify || w.fail == "" {
		return false
	}
	w.l.mu.Lock()
	defer w.l.mu.Unlock()
	return w.fail == "always" || w.l.sigs > 0
}

func (w *c20Writer) Close() error { return nil }
func (w *c20Writer) Write(p []byte) (int, error) {
	s := string(p)
	switch {
	case !w.notify && strings.Contains(s, "shutting down"):
		w.l.add(c20Ev{K: "print"}, func(e *c20Ev) {
			e.B = w.l.srv.t.terminate()
			e.Done = w.l.ctx != nil && w.l.ctx.Err() != nil
		})
	case w.notify && strings.Contains(s, sdnotify.Stopping):
		w.l.add(c20Ev{K: "stopping"}, nil)
	case w.notify && strings.Contains(s, sdnotify.Ready):
		w.l.add(c20Ev{K: "notifyready"}, nil)
	case w.notify && strings.Contains(s, "STATUS=started "):
		w.l.add(c20Ev{K: "started"}, nil)
	}
	if w.failing() {
		return 0, errC20Notify
	}
	return len(p), nil
}

// c20Notifier builds an sdnotify.Notifier whose (only, unexported) field is our recording
// writer, so that notifications are logged in order with everything else.
func c20Notifier(w io.WriteCloser) *sdnotify.Notifier {
	n := new(sdnotify.Notifier)
	rt := reflect.TypeOf(*n)
	if rt.NumField() != 1 || rt.Field(0).Type != reflect.TypeOf((*io.WriteCloser)(nil)).Elem() {
		panic("verif: sdnotify.Notifier layout changed")
	}
	*(*io.WriteCloser)(unsafe.Pointer(n)) = w
	return n
}

// ---------------------------------------------------------------- scripted tasks

type c20Script struct {
	Class     string `json:"class"`
	ReadyAt   int64  `json:"ready_at"`   // ns from start; -1 = never ready
	EndAt     int64  `json:"end_at"`     // ns; -1 = runs until cancelled
	EndErr    int64  `json:"end_err"`    // 0 = returns nil at EndAt, else fails with this code
	StopDelay int64  `json:"stop_delay"` // ns between observing ctx.Done() and returning
	StopErr   int64  `json:"stop_err"`   // error returned after cancellation (0 = nil)
}

type c20Task struct {
	id     int
	sc     c20Script
	l      *c20Log
	readyC chan struct{}
	once   sync.Once
	abort  chan struct{}
	// terminate is bound when the task is built, before Serve runs, exactly as BuildTasks hands
	// s.t.terminate to every Advertiser: what the signal task records must be visible through it
	terminate func() bool
}

type c20Err struct{ code int64 }

func (e c20Err) Error() string { return "verr#" + strconv.FormatInt(e.code, 10) }

// c20Shaped is a scripted failure that has the identity of an error a real task can return (the chains of the real tasks
// keep their %w links up to Serve): which error it is must not matter, "a fatal error in any task cancels all the others
// and serving returns that error".
type c20Shaped struct {
	c20Err
	prefix string
	id     error
}

func (e c20Shaped) Error() string        { return e.prefix + e.id.Error() + ": " + e.c20Err.Error() }
func (e c20Shaped) Is(target error) bool { return errors.Is(e.id, target) }
func (e c20Shaped) Unwrap() error        { return e.id }
func (e c20Shaped) Timeout() bool {
	var t interface{ Timeout() bool }
	return errors.As(e.id, &t) && t.Timeout()
}

var c20Identities = []struct {
	prefix string
	id     error
}{
	{"failed to get IPv6 forwarding state: ", &fs.PathError{Op: "open", Path: "/proc/sys/net/ipv6/conf/ppp0/forwarding", Err: syscall.ENOENT}},
	{"", os.ErrNotExist},
	{"failed to run advertiser: ", context.Canceled},
	{"read: ", os.ErrDeadlineExceeded},
	{"", context.DeadlineExceeded},
	{"http: ", http.ErrServerClosed},
	{"", system.ErrLinkNotReady},
	{"use of closed connection: ", net.ErrClosed},
	{"", io.EOF},
	{"write: ", &net.OpError{Op: "write", Err: os.NewSyscallError("sendmsg", syscall.ENOBUFS)}},
	{"", os.ErrPermission},
}

func c20ErrOf(code int64) error {
	if code == 0 {
		return nil
	}
	// two of three scripted failures carry such an identity, chosen by the code
	if k := int(code % int64(3*len(c20Identities))); k < 2*len(c20Identities) {
		sh := c20Identities[k%len(c20Identities)]
		return c20Shaped{c20Err{code}, sh.prefix, sh.id}
	}
	return c20Err{code}
}

func (t *c20Task) String() string         { return fmt.Sprintf("vtask %d", t.id) }
func (t *c20Task) Ready() <-chan struct{} { return t.readyC }
func (t *c20Task) Run(ctx context.Context) error {
	t.l.add(c20Ev{K: "start", I: t.id}, func(*c20Ev) {
		if t.l.ctx == nil {
			t.l.ctx = ctx
		}
	})
	var readyT, endT <-chan time.Time
	if t.sc.ReadyAt >= 0 {
		readyT = time.After(time.Duration(t.sc.ReadyAt))
	}
	if t.sc.EndAt >= 0 {
		endT = time.After(time.Duration(t.sc.EndAt))
	}
	for {
		select {
		case <-readyT:
			readyT = nil
			t.l.add(c20Ev{K: "ready", I: t.id}, nil)
			t.once.Do(func() { close(t.readyC) })
		case <-endT:
			t.l.add(c20Ev{K: "ret", I: t.id, R: t.sc.EndErr}, func(e *c20Ev) { e.Done = ctx.Err() != nil })
			return c20ErrOf(t.sc.EndErr)
		case <-ctx.Done():
			t.l.add(c20Ev{K: "see", I: t.id}, func(e *c20Ev) { e.B = t.terminate() })
			if t.sc.StopDelay > 0 {
				select {
				case <-time.After(time.Duration(t.sc.StopDelay)):
				case <-t.abort:
					return nil
				}
			}
			t.l.add(c20Ev{K: "ret", I: t.id, R: t.sc.StopErr}, func(e *c20Ev) { e.Done = ctx.Err() != nil })
			return c20ErrOf(t.sc.StopErr)
		case <-t.abort:
			return nil
		}
	}
}

type c20Sig struct {
	At  int64  `json:"at"`
	Sig string `json:"sig"` // INT TERM HUP
}

func c20Signal(s string) os.Signal {
	switch s {
	case "INT":
		return os.Interrupt
	case "TERM":
		return syscall.SIGTERM
	}
	return syscall.SIGHUP
}

var c20SigCoq = map[string]string{"INT": "SIGINT", "TERM": "SIGTERM", "HUP": "SIGHUP"}

// c20Serve runs the real Server.Serve in a bubble with the scripted tasks and signals.
func c20Serve(t *testing.T, scripts []c20Script, sigs []c20Sig, notifyFail string) (evs []c20Ev, stuck bool) {
	synctest.Test(t, func(t *testing.T) {
		l := &c20Log{t0: time.Now()}
		srv := NewServer(NewContext(log.New(&c20Writer{l: l}, "", 0), nil, nil))
		l.srv = srv
		abort := make(chan struct{})
		var tasks []Task
		var vts []*c20Task
		for i, sc := range scripts {
			vt := &c20Task{id: i, sc: sc, l: l, readyC: make(chan struct{}), abort: abort, terminate: srv.t.terminate}
			vts = append(vts, vt)
			tasks = append(tasks, vt)
		}
		sigC := make(chan os.Signal, 1)
		done := make(chan struct{})
		go func() {
			defer close(done)
			err := srv.Serve(sigC, c20Notifier(&c20Writer{l: l, notify: true, fail: notifyFail}), tasks)
			var code int64
			if err != nil {
				code = -1 // an error we did not script
				if k := strings.LastIndex(err.Error(), "verr#"); k >= 0 {
					if v, perr := strconv.ParseInt(err.Error()[k+5:], 10, 64); perr == nil {
						code = v
					}
				}
			}
			l.add(c20Ev{K: "serve", R: code}, nil)
		}()
		for _, s := range sigs {
			time.Sleep(time.Until(l.t0.Add(time.Duration(s.At))))
			l.add(c20Ev{K: "sig", S: s.Sig}, func(*c20Ev) {
				l.sigs++
				select {
				case sigC <- c20Signal(s.Sig):
				default:
				}
			})
		}
		time.Sleep(time.Hour)
		synctest.Wait()
		select {
		case <-done:
		default:
			stuck = true
		}
		l.mu.Lock()
		l.stop = true
		evs = append(evs, l.evs...)
		l.mu.Unlock()
		if stuck {
			close(abort)
			select {
			case sigC <- os.Interrupt:
			default:
			}
			<-done
		}
		// Serve's per-task readiness waiters never end for a task that never got ready; release
		// them so that the bubble can be left (the log is closed: nothing of this is observed)
		for _, vt := range vts {
			vt.once.Do(func() { close(vt.readyC) })
		}
		synctest.Wait()
	})
	return evs, stuck
}

func c20RenderErr(code int64) string {
	if code == 0 {
		return verifh.None()
	}
	if code < 0 {
		return verifh.Some(verifh.N(999999))
	}
	return verifh.Some(verifh.N(uint64(code)))
}

func c20EmitServe(t *testing.T, out *verifh.Out, id string, scripts []c20Script, sigs []c20Sig, notifyFail string, tags []string) {
	if !out.Wants(id) {
		return
	}
	if notifyFail == "" {
		tags = append(tags, "notifier:healthy")
	} else {
		tags = append(tags, "notifier:fails-"+notifyFail)
	}
	evs, stuck := c20Serve(t, scripts, sigs, notifyFail)
	var obs []string
	for _, e := range evs {
		switch e.K {
		case "start":
			obs = append(obs, verifh.App("OStart", verifh.Nat(e.I)))
		case "ready":
			obs = append(obs, verifh.App("OReady", verifh.Nat(e.I)))
		case "see":
			obs = append(obs, verifh.App("OSee", verifh.Nat(e.I), verifh.B(e.B)))
		case "ret":
			obs = append(obs, verifh.App("ORet", verifh.Nat(e.I), c20RenderErr(e.R), verifh.B(e.Done)))
		case "sig":
			obs = append(obs, verifh.App("OSig", c20SigCoq[e.S]))
		case "print":
			obs = append(obs, verifh.App("OPrint", verifh.B(e.B), verifh.B(e.Done)))
		case "stopping":
			obs = append(obs, "OStopping")
		case "started":
			obs = append(obs, "OStarted")
		case "notifyready":
			obs = append(obs, "ONotifyReady")
		case "serve":
			obs = append(obs, verifh.App("OServe", c20RenderErr(e.R)))
		}
	}
	out.Emit(verifh.Case{
		ID:       id,
		Coq:      verifh.App("CServe", verifh.Nat(len(scripts)), verifh.List(obs), verifh.B(stuck)),
		Input:    map[string]any{"tasks": scripts, "signals": sigs, "notify_socket_fails": notifyFail},
		Observed: map[string]any{"log": evs, "stuck": stuck},
		Tags:     tags,
	})
}

const c20ms = int64(time.Millisecond)

// c20MkScript instantiates a behaviour class with the given instants (ns).
func c20MkScript(class string, a, b int64, code int64) c20Script {
	switch class {
	case "until-cancelled":
		return c20Script{Class: class, ReadyAt: a, EndAt: -1}
	case "ready-at-once":
		return c20Script{Class: class, ReadyAt: 0, EndAt: -1}
	case "fails":
		return c20Script{Class: class, ReadyAt: a, EndAt: b, EndErr: code}
	case "fails-before-ready":
		return c20Script{Class: class, ReadyAt: b, EndAt: a, EndErr: code}
	case "returns-early":
		return c20Script{Class: class, ReadyAt: a, EndAt: b}
	case "slow-to-stop":
		return c20Script{Class: class, ReadyAt: a, EndAt: -1, StopDelay: b}
	case "fails-while-stopping":
		return c20Script{Class: class, ReadyAt: a, EndAt: -1, StopDelay: b, StopErr: code}
	case "never-ready":
		return c20Script{Class: class, ReadyAt: -1, EndAt: -1}
	}
	panic(class)
}

var c20Classes = []string{"until-cancelled", "ready-at-once", "fails", "fails-before-ready", "returns-early",
	"slow-to-stop", "fails-while-stopping", "never-ready"}

func TestVerifC20(t *testing.T) {
	out := verifh.Open()
	defer out.Close()

	// ---- BuildTasks: every flag combination for up to 3 interfaces x debug on/off, then random
	emitBuild := func(id string, ifs [][3]uint64, debug bool, tags []string) {
		if !out.Wants(id) {
			return
		}
		cfg := config.Config{}
		var cifs []string
		for _, f := range ifs {
			cfg.Interfaces = append(cfg.Interfaces, config.Interface{Name: fmt.Sprintf("vif%d", f[0]), Advertise: f[1] == 1, Monitor: f[2] == 1})
			cifs = append(cifs, verifh.App("mkIf", verifh.N(f[0]), verifh.B(f[1] == 1), verifh.B(f[2] == 1)))
		}
		if debug {
			cfg.Debug.Address = "localhost:0"
		}
		srv := NewServer(NewContext(nil, nil, nil))
		var obs []string
		var obsJ []string
		wired := true
		nameID := func(s string) uint64 {
			v, _ := strconv.ParseUint(strings.TrimPrefix(s, "vif"), 10, 64)
			return v
		}
		built := srv.BuildTasks(cfg, http.NotFoundHandler())
		// end-to-end wiring of every interface task: a link-down event on ITS interface -- and only that --
		// reaches its watch channel through the watcher's real notify path; its dialer is for that
		// interface in the mode of the task
		drain := func(c <-chan netstate.Change) (got []netstate.Change) {
			for {
				select {
				case v, ok := <-c:
					if !ok {
						return got
					}
					got = append(got, v)
				default:
					return got
				}
			}
		}
		type wtask struct {
			name  string
			watch <-chan netstate.Change
		}
		var wts []wtask
		for _, task := range built {
			switch tk := task.(type) {
			case *Advertiser:
				wts = append(wts, wtask{tk.cfg.Name, tk.watchC})
				if n, m := tk.dialer.VerifIfaceMode(); n != tk.cfg.Name || m != system.Advertise {
					wired = false
				}
			case *Monitor:
				wts = append(wts, wtask{tk.iface, tk.watchC})
				if n, m := tk.dialer.VerifIfaceMode(); n != tk.iface || m != system.Monitor {
					wired = false
				}
			}
		}
		names := map[string]bool{"vif-other": true}
		for _, w := range wts {
			names[w.name] = true
		}
		for target := range names {
			srv.w.VerifNotify(target, netstate.LinkDown)
			for _, w := range wts {
				if w.watch == nil {
					wired = false
					continue
				}
				got := drain(w.watch)
				// interfaces may repeat in a configuration: every task of the target interface hears it once
				if w.name == target && (len(got) != 1 || got[0] != netstate.LinkDown) {
					wired = false
				}
				if w.name != target && len(got) != 0 {
					wired = false
				}
			}
		}
		for _, task := range built {
			obsJ = append(obsJ, task.String())
			switch tk := task.(type) {
			case *Advertiser:
				obs = append(obs, verifh.App("TAdvertiser", verifh.N(nameID(tk.cfg.Name))))
				srv.t.set(syscall.SIGTERM)
				a := tk.terminate != nil && tk.terminate()
				srv.t.set(syscall.SIGHUP)
				b := tk.terminate != nil && !tk.terminate()
				wired = wired && tk.watchC != nil && a && b
			case *Monitor:
				obs = append(obs, verifh.App("TMonitor", verifh.N(nameID(tk.iface))))
				wired = wired && tk.watchC != nil
			case *httpTask:
				obs = append(obs, "THTTP")
				wired = wired && tk.addr == cfg.Debug.Address
			case *watcherTask:
				obs = append(obs, "TWatcher")
				wired = wired && tk.watch != nil
			default:
				obs = append(obs, verifh.App("TMonitor", verifh.N(424242)))
			}
		}
		out.Emit(verifh.Case{ID: id,
			Coq:      verifh.App("CBuild", verifh.App("mkCfg", verifh.List(cifs), verifh.B(debug)), verifh.List(obs), verifh.B(wired)),
			Input:    map[string]any{"interfaces": ifs, "debug": debug},
			Observed: map[string]any{"tasks": obsJ, "wired": wired}, Tags: tags})
	}
	for k := 0; k <= 3; k++ {
		for combo := 0; combo < 1<<(2*k); combo++ {
			for _, debug := range []bool{false, true} {
				var ifs [][3]uint64
				for j := 0; j < k; j++ {
					ifs = append(ifs, [3]uint64{uint64(j + 1), uint64(combo >> (2 * j) & 1), uint64(combo >> (2*j + 1) & 1)})
				}
				emitBuild(fmt.Sprintf("c20-build-%d-%d-%v", k, combo, debug), ifs, debug, []string{"stream:build-exhaustive", fmt.Sprintf("ifaces:%d", k)})
			}
		}
	}
	rb := verifh.NewRand(verifh.Seed(), "C20-build")
	nb := 200
	if verifh.Thorough() {
		nb = 3000
	}
	for i := 0; i < nb; i++ {
		var ifs [][3]uint64
		for k := rb.Intn(9); k > 0; k-- {
			ifs = append(ifs, [3]uint64{uint64(1 + rb.Intn(5)), uint64(rb.Intn(2)), uint64(rb.Intn(2))}) // names may repeat
		}
		emitBuild(fmt.Sprintf("c20-build-rand-%d", i), ifs, rb.Bool(), []string{"stream:build-random", fmt.Sprintf("ifaces:%d", len(ifs))})
	}

	if os.Getenv("VERIF_C20_SECTION") == "build" {
		return // C10 runs the BuildTasks wiring only (every interface task, monitors included, is subscribed to its link)
	}
	// ---- Serve: two tasks of every pair of classes x signal kind x signal placement
	places := []string{"before-all", "between", "after", "same-instant-as-first-end"}
	for ai, a := range c20Classes {
		for bi, b := range c20Classes {
			for _, sg := range []string{"INT", "TERM", "HUP"} {
				for pi, place := range places {
					if !verifh.Thorough() && (ai*7+bi*3+pi)%3 != 0 && sg != "HUP" {
						continue // quick tier: a third of the INT/TERM grid, all of HUP
					}
					s0 := c20MkScript(a, 10*c20ms, 40*c20ms, 7)
					s1 := c20MkScript(b, 20*c20ms, 60*c20ms, 9)
					var at int64
					switch place {
					case "before-all":
						at = 5 * c20ms
					case "between":
						at = 50 * c20ms
					case "after":
						at = 90 * c20ms
					default:
						at = 40 * c20ms
					}
					sigs := []c20Sig{{At: at, Sig: sg}, {At: 3600 * 1000 * c20ms / 2, Sig: "TERM"}}
					c20EmitServe(t, out, fmt.Sprintf("c20-pair-%s-%s-%s-%s", a, b, sg, place), []c20Script{s0, s1}, sigs, "",
						[]string{"stream:serve-pairs", "sig:" + sg, "place:" + place, "class:" + a, "class:" + b})
					// the same run with a notification socket that dies when the signal is delivered (every later
					// datagram fails) or never worked: notifications are best-effort, nothing else may change
					if verifh.Thorough() || (ai+bi+pi)%2 == 0 {
						nf := []string{"from-signal", "from-signal", "always"}[(ai+bi+pi/2)%3]
						c20EmitServe(t, out, fmt.Sprintf("c20-pair-%s-%s-%s-%s-notify-%s", a, b, sg, place, nf), []c20Script{s0, s1}, sigs, nf,
							[]string{"stream:serve-pairs", "sig:" + sg, "place:" + place, "class:" + a, "class:" + b})
					}
				}
			}
		}
	}

	// ---- Serve with many tasks (one per interface of a large router): nothing in the property depends on how
	// many there are -- all are started, all are cancelled together, readiness waits for every one
	for _, n := range []int{64, 70, 130} {
		for _, sg := range []string{"TERM", "HUP"} {
			var scripts []c20Script
			for j := 0; j < n; j++ {
				scripts = append(scripts, c20MkScript("until-cancelled", int64(1+j%7)*c20ms, 0, 0))
			}
			sigs := []c20Sig{{At: 200 * c20ms, Sig: sg}}
			c20EmitServe(t, out, fmt.Sprintf("c20-many-%d-%s", n, sg), scripts, sigs, "", []string{"stream:serve-many", "sig:" + sg, fmt.Sprintf("tasks:%d", n)})
		}
		// the last of them fails
		var scripts []c20Script
		for j := 0; j < n-1; j++ {
			scripts = append(scripts, c20MkScript("until-cancelled", int64(1+j%7)*c20ms, 0, 0))
		}
		scripts = append(scripts, c20MkScript("fails", 5*c20ms, 90*c20ms, 11))
		c20EmitServe(t, out, fmt.Sprintf("c20-many-%d-fails", n), scripts, []c20Sig{{At: 3600 * 1000 * c20ms / 2, Sig: "TERM"}}, "",
			[]string{"stream:serve-many", fmt.Sprintf("tasks:%d", n)})
	}

	// ---- Serve: random task sets and signal schedules
	r := verifh.NewRand(verifh.Seed(), "C20-serve")
	n := 500
	if verifh.Thorough() {
		n = 8000
	}
	for i := 0; i < n; i++ {
		id := fmt.Sprintf("c20-serve-%d", i)
		sr := verifh.NewRand(r.Uint64(), id)
		if !out.Wants(id) {
			continue
		}
		// distinct instants (ms) so that the order of scripted events is the order of their instants
		// ... on a time scale of milliseconds, seconds or minutes (a task that takes 40 min to stop is waited for)
		scale := verifh.Pick(sr, []int64{1, 1, 1000, 60000})
		pool := make([]int64, 60)
		for k := range pool {
			pool[k] = int64(k+1) * c20ms * scale
		}
		verifh.Shuffle(sr, pool)
		next := func() int64 { v := pool[0]; pool = pool[1:]; return v }
		nt := sr.Intn(5)
		var scripts []c20Script
		tags := []string{"stream:serve-random", fmt.Sprintf("tasks:%d", nt)}
		var failAt []int64
		for k := 0; k < nt; k++ {
			class := verifh.Pick(sr, c20Classes)
			sc := c20MkScript(class, next(), next(), int64(100+k))
			if class == "fails" || class == "fails-before-ready" {
				failAt = append(failAt, sc.EndAt)
			}
			scripts = append(scripts, sc)
			tags = append(tags, "class:"+class)
		}
		var sigs []c20Sig
		for k := sr.Intn(3); k > 0; k-- {
			at := next()
			if len(failAt) > 0 && sr.Chance(25) {
				at = verifh.Pick(sr, failAt) // a signal racing a failure at the same instant
				tags = append(tags, "signal-races-failure")
			}
			sg := verifh.Pick(sr, []string{"INT", "TERM", "HUP"})
			sigs = append(sigs, c20Sig{At: at, Sig: sg})
			tags = append(tags, "sig:"+sg)
		}
		sort.Slice(sigs, func(a, b int) bool { return sigs[a].At < sigs[b].At })
		// every run ends: a last signal long after everything else
		sigs = append(sigs, c20Sig{At: 1800 * 1000 * c20ms * scale, Sig: verifh.Pick(sr, []string{"INT", "TERM", "HUP"})})
		tags = append(tags, fmt.Sprintf("scale:%dms", scale))
		c20EmitServe(t, out, id, scripts, sigs, verifh.Pick(sr, []string{"", "", "", "from-signal", "from-signal", "always"}), tags)
	}

	// ---- serve(): the HTTP listener retry loop with a scripted listener function
	rh := verifh.NewRand(verifh.Seed(), "C20-http")
	nh := 150
	if verifh.Thorough() {
		nh = 3000
	}
	for i := 0; i < nh; i++ {
		id := fmt.Sprintf("c20-http-%d", i)
		sr := verifh.NewRand(rh.Uint64(), id)
		if !out.Wants(id) {
			continue
		}
		c20EmitHTTP(t, out, id, sr)
	}
}

func c20EmitHTTP(t *testing.T, out *verifh.Out, id string, r *verifh.Rand) {
	delay := int64(3 * time.Second)
	if r.Chance(30) {
		delay = int64(1+r.Intn(5000)) * c20ms
	}
	type step struct {
		Res string `json:"res"`
		Dur int64  `json:"dur"`
		Err int64  `json:"err,omitempty"`
	}
	var oracle []step
	nfail := verifh.Pick(r, []int{0, 1, 2, 5, 38, 39, 40, 41, 45})
	if r.Chance(50) {
		nfail = r.Intn(44)
	}
	for k := 0; k < nfail; k++ {
		d := int64(0)
		if r.Chance(30) {
			d = int64(r.Intn(2000)) * c20ms
		}
		oracle = append(oracle, step{Res: "net", Dur: d})
	}
	switch x := r.Intn(100); {
	case x < 35:
		oracle = append(oracle, step{Res: "closed", Dur: int64(r.Intn(100000)) * c20ms})
	case x < 55:
		oracle = append(oracle, step{Res: "other", Err: int64(1 + r.Intn(50)), Dur: int64(r.Intn(10)) * c20ms})
	case x < 60:
		oracle = append(oracle, step{Res: "nil"})
	}
	cancelAt := int64(-1)
	if r.Chance(45) {
		// never exactly on a timer: odd microsecond offset
		cancelAt = int64(r.Intn(130000))*c20ms + 1000
		if r.Chance(20) {
			cancelAt = 0
		}
	}
	var calls []int64
	res := ""
	var errCode int64
	synctest.Test(t, func(t *testing.T) {
		t0 := time.Now()
		ctx, cancel := context.WithCancel(context.Background())
		defer cancel()
		if cancelAt == 0 {
			cancel()
		} else if cancelAt > 0 {
			time.AfterFunc(time.Duration(cancelAt), cancel)
		}
		k := 0
		fn := func() error {
			calls = append(calls, int64(time.Since(t0)))
			st := step{Res: "net"}
			if k < len(oracle) {
				st = oracle[k]
			}
			k++
			time.Sleep(time.Duration(st.Dur))
			switch st.Res {
			case "closed":
				return fmt.Errorf("wrapped: %w", http.ErrServerClosed)
			case "net":
				return fmt.Errorf("listen: %w", &net.OpError{Op: "listen", Err: errors.New("address in use")})
			case "nil":
				return nil
			}
			return c20Err{st.Err}
		}
		func() {
			defer func() {
				if p := recover(); p != nil {
					res = "panic"
				}
			}()
			err := serve(ctx, nil, time.Duration(delay), fn)
			var ce c20Err
			switch {
			case err == nil:
				res = "nil"
			case errors.As(err, &ce):
				res, errCode = "err", ce.code
			default:
				res = "timeout"
			}
		}()
	})
	var co []string
	for _, s := range oracle {
		var rr string
		switch s.Res {
		case "closed":
			rr = "FClosed"
		case "net":
			rr = "FNet"
		case "nil":
			rr = "FNil"
		default:
			rr = verifh.App("FOther", verifh.N(uint64(s.Err)))
		}
		co = append(co, verifh.Pair(rr, verifh.Z(s.Dur)))
	}
	var cc []string
	for _, c := range calls {
		cc = append(cc, verifh.Z(c))
	}
	cres := map[string]string{"nil": "SRNil", "timeout": "SRTimeout", "panic": "SRPanic"}[res]
	if res == "err" {
		cres = verifh.App("SRErr", verifh.N(uint64(errCode)))
	}
	ca := verifh.None()
	if cancelAt >= 0 {
		ca = verifh.Some(verifh.Z(cancelAt))
	}
	tags := []string{"stream:http-serve", "result:" + res, fmt.Sprintf("calls:%d", len(calls)/10*10)}
	if cancelAt >= 0 {
		tags = append(tags, "cancelled")
	}
	out.Emit(verifh.Case{ID: id,
		Coq:      verifh.App("CHTTP", verifh.Z(delay), ca, verifh.List(co), cres, verifh.List(cc)),
		Input:    map[string]any{"delay": delay, "cancel_at": cancelAt, "oracle": oracle},
		Observed: map[string]any{"result": res, "err": errCode, "calls": calls}, Tags: tags})
}
