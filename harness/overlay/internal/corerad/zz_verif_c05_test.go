//go:build verif && go1.25

package corerad

import (
	"context"
	"fmt"
	"math/rand"
	"net/netip"
	"strings"
	"testing"
	"testing/synctest"
	"time"

	"github.com/mdlayher/corerad/internal/config"
	"github.com/mdlayher/corerad/internal/verifh"
)

// fixedSrc is a rand.Source whose every draw is v: Int63n(n) then yields v % n.
type fixedSrc struct{ v int64 }

func (s fixedSrc) Int63() int64 { return s.v }
func (fixedSrc) Seed(int64)     {}

// parseIntervals runs the real parser on the two interval keys.
func parseIntervals(maxS, minS string) (min, max time.Duration, ok bool) {
	var b strings.Builder
	b.WriteString("[[interfaces]]\nname = \"eth0\"\nadvertise = true\n")
	if maxS != "" {
		fmt.Fprintf(&b, "max_interval = %q\n", maxS)
	}
	if minS != "" {
		fmt.Fprintf(&b, "min_interval = %q\n", minS)
	}
	cfg, err := config.Parse(strings.NewReader(b.String()), time.Unix(1, 0))
	if err != nil {
		return 0, 0, false
	}
	return cfg.Interfaces[0].MinInterval, cfg.Interfaces[0].MaxInterval, true
}

func optZ(ok bool, v int64) string {
	if !ok {
		return "None"
	}
	return verifh.Some(verifh.Z(v))
}

// TestVerifC05 (i) calls multicastDelay with injected draws on (min,max) pairs produced by the real
// parser, (ii) runs the real multicast loop under virtual time and records the request instants.
func TestVerifC05(t *testing.T) {
	out := verifh.Open()
	defer out.Close()
	r := verifh.NewRand(verifh.Seed(), "C05")
	thorough := verifh.Thorough()

	emitDelay := func(id string, maxNs int64, minS string, i int, pick string, tags ...string) {
		if !out.Wants(id) {
			return
		}
		maxS := time.Duration(maxNs).String()
		min, max, ok := parseIntervals(maxS, minS)
		if maxNs < int64(4*time.Second) || maxNs > int64(1800*time.Second) {
			return // rejected for max itself: C02's business
		}
		var explicit string
		if minS == "" || minS == "auto" {
			explicit = "None"
		} else {
			d, err := time.ParseDuration(minS)
			if err != nil {
				return
			}
			explicit = verifh.Some(verifh.Z(int64(d)))
		}
		var draw, obs int64
		if ok {
			if int64(max) != maxNs {
				t.Fatalf("max mismatch %v %v", max, maxNs)
			}
			rng := int64(max - min)
			switch pick {
			case "0":
				draw = 0
			case "1":
				draw = 1
			case "mid":
				draw = rng / 2
			case "half":
				draw = rng/2/1e9*1e9 + 5e8 - int64(min)%1e9 // lands min+draw on a .5 s boundary when possible
				if draw < 0 || draw >= rng {
					draw = rng / 3
				}
			case "last":
				draw = rng - 1
			default:
				draw = r.Int63n(rng)
			}
			if rng <= 0 {
				draw = 0
			}
			// multicastDelay draws only when min != max; Int63n(rng) with Int63() = draw yields draw.
			func() {
				defer func() {
					if p := recover(); p != nil {
						obs = -1 // choosing the wait failed (e.g. Int63n with a non-positive argument)
						tags = append(tags, "panic")
					}
				}()
				obs = int64(multicastDelay(rand.New(fixedSrc{draw}), i, min, max))
			}()
			tags = append(tags, "accepted")
		} else {
			tags = append(tags, "rejected")
		}
		out.Emit(verifh.Case{
			ID:       id,
			Coq:      verifh.App("CDelay", explicit, verifh.Z(maxNs), optZ(ok, int64(min)), verifh.Z(int64(i)), verifh.Z(draw), verifh.Z(obs)),
			Input:    map[string]any{"max_interval": maxS, "min_interval": minS, "i": i, "draw": draw},
			Observed: map[string]any{"accepted": ok, "min_ns": int64(min), "delay_ns": obs},
			Tags:     append(tags, fmt.Sprintf("i:%d", i), "draw:"+pick),
		})
	}

	// (a) every whole-second max with the default min
	step := int64(1)
	for s := int64(4); s <= 1800; s += step {
		for _, i := range []int{2, 3} {
			for _, pick := range []string{"0", "last", "half"} {
				if !thorough && pick == "half" && s%7 != 0 {
					continue
				}
				emitDelay(fmt.Sprintf("d-def-%d-%d-%s", s, i, pick), s*1e9, "", i, pick, "min:default")
			}
		}
	}
	// (b) explicit mins at the parser's boundaries, for a sample (quick) / all (thorough) max values
	for s := int64(4); s <= 1800; s++ {
		if !thorough && !(s <= 16 || s%37 == 0 || s >= 1795) {
			continue
		}
		upper := s * 3 / 4 // whole seconds
		for _, m := range []int64{0, 1, 1e9, 2e9, 3e9 - 1, 3e9, 3e9 + 1, upper * 1e9, upper*1e9 + 1, upper*1e9 - 1e9, (upper + 1) * 1e9, s * 1e9} {
			for _, i := range []int{0, 2, 3, 7} {
				if !thorough && (i == 0 || i == 7) && s%2 == 0 {
					continue
				}
				pick := verifh.Pick(r, []string{"0", "1", "mid", "half", "last", "rand"})
				if m < 3e9 {
					pick = verifh.Pick(r, []string{"0", "1"}) // a too-small min shows as a non-positive wait at the low draws
				}
				emitDelay(fmt.Sprintf("d-exp-%d-%d-%d", s, m, i), s*1e9, time.Duration(m).String(), i, pick, "min:explicit")
			}
		}
	}
	// (c) fractional max / min values
	nf := 1500
	if thorough {
		nf = 40000
	}
	for k := 0; k < nf; k++ {
		maxNs := int64(4e9) + r.Int63n(1796e9+1)
		if r.Chance(30) {
			maxNs = int64(4e9) + r.Int63n(20e9) // small maxima: the 9 s corner, 16 s cap
		}
		minS := ""
		if r.Chance(60) {
			up := maxNs * 3 / 4
			m := int64(3e9) + r.Int63n(up-3e9+2e9) - 1e9
			if m < 1 {
				m = 1
			}
			minS = time.Duration(m).String()
		} else if r.Chance(20) {
			minS = "auto"
		}
		emitDelay(fmt.Sprintf("d-frac-%d", k), maxNs, minS, r.Intn(6), verifh.Pick(r, []string{"0", "1", "mid", "half", "last", "rand"}), "max:fractional")
	}

	// (ii) the real loop under virtual time
	nl := 40
	if thorough {
		nl = 400
	}
	for k := 0; k < nl; k++ {
		id := fmt.Sprintf("loop-%d", k)
		maxNs := int64(4e9) + r.Int63n(60e9)
		if r.Chance(20) {
			maxNs = int64(4e9) + r.Int63n(1796e9)
		}
		minS := ""
		if r.Chance(50) {
			m := int64(3e9) + r.Int63n(maxNs*3/4-3e9+1)
			minS = time.Duration(m).String()
		}
		nreq := 8 + r.Intn(40)
		offset := r.Int63n(3600e9) // the loop starts at an arbitrary virtual instant (hence PRNG seed)
		if !out.Wants(id) {
			continue
		}
		min, max, ok := parseIntervals(time.Duration(maxNs).String(), minS)
		if !ok {
			continue
		}
		var obs []int64
		var draws []int64
		var t0 int64
		synctest.Test(t, func(t *testing.T) {
			time.Sleep(time.Duration(offset))
			cfg := config.Interface{Name: "v0", Advertise: true, MinInterval: min, MaxInterval: max}
			v := newVAdvertiser(cfg, func() bool { return false })
			ctx, cancel := context.WithCancel(context.Background())
			ipC := make(chan netip.Addr) // unbuffered: every request is observed at the instant it is made
			seed := time.Now().UnixNano()
			t0 = vNow()
			done := make(chan struct{})
			go func() { defer close(done); v.ad.multicast(ctx, ipC) }()
			deadline := time.After(time.Duration(nreq+2) * (max + time.Second))
		loop:
			for len(obs) < nreq {
				select {
				case ip := <-ipC:
					if ip != netip.IPv6LinkLocalAllNodes() {
						t.Errorf("unexpected destination %s", ip)
					}
					obs = append(obs, vNow())
				case <-deadline:
					break loop
				}
			}
			cancel()
			<-done
			// reproduce the draws of the loop's PRNG
			prng := rand.New(rand.NewSource(seed))
			for j := 0; j < nreq-1; j++ {
				if min == max {
					draws = append(draws, 0)
				} else {
					draws = append(draws, prng.Int63n(max.Nanoseconds()-min.Nanoseconds()))
				}
			}
		})
		zs := func(xs []int64) string {
			ss := make([]string, len(xs))
			for i, x := range xs {
				ss[i] = verifh.Z(x)
			}
			return verifh.List(ss)
		}
		_ = 0
		out.Emit(verifh.Case{
			ID:       id,
			Coq:      verifh.App("CLoop", verifh.Z(int64(min)), verifh.Z(int64(max)), verifh.Z(t0), zs(draws), zs(obs), verifh.Nat(nreq)),
			Input:    map[string]any{"min_ns": int64(min), "max_ns": int64(max), "start_ns": t0, "requests": nreq},
			Observed: obs,
			Tags:     []string{"loop", fmt.Sprintf("static:%v", min == max)},
		})
	}
}

// TestVerifC05Stall: the consumer of the request channel is slow (a stalled scheduler, a frozen process):
// after the stall the loop must still wait a full interval before every further request.
func TestVerifC05Stall(t *testing.T) {
	out := verifh.Open()
	defer out.Close()
	r := verifh.NewRand(verifh.Seed(), "C05stall")
	n := 30
	if verifh.Thorough() {
		n = 400
	}
	for k := 0; k < n; k++ {
		id := fmt.Sprintf("stall-%d", k)
		maxNs := int64(4e9) + r.Int63n(30e9)
		minS := ""
		if r.Chance(50) {
			minS = time.Duration(int64(3e9) + r.Int63n(maxNs*3/4-3e9+1)).String()
		}
		nreq := 6 + r.Intn(14)
		var gaps []int64
		for j := 0; j < nreq; j++ {
			g := int64(0)
			if j > 0 && r.Chance(30) {
				g = r.Int63n(4*maxNs) + 1 // up to four intervals of stall
			}
			gaps = append(gaps, g)
		}
		if !out.Wants(id) {
			continue
		}
		min, max, ok := parseIntervals(time.Duration(maxNs).String(), minS)
		if !ok {
			continue
		}
		var obs, draws []int64
		var t0 int64
		synctest.Test(t, func(t *testing.T) {
			time.Sleep(time.Duration(r.Int63n(3600e9)))
			cfg := config.Interface{Name: "v0", Advertise: true, MinInterval: min, MaxInterval: max}
			v := newVAdvertiser(cfg, func() bool { return false })
			ctx, cancel := context.WithCancel(context.Background())
			ipC := make(chan netip.Addr)
			seed := time.Now().UnixNano()
			t0 = vNow()
			done := make(chan struct{})
			go func() { defer close(done); v.ad.multicast(ctx, ipC) }()
			deadline := time.After(time.Duration(nreq+2)*(max+time.Second) + time.Duration(5*int64(nreq)*maxNs))
		loop:
			for j := 0; j < nreq; j++ {
				time.Sleep(time.Duration(gaps[j]))
				select {
				case <-ipC:
					obs = append(obs, vNow())
				case <-deadline:
					break loop
				}
			}
			cancel()
			<-done
			p := rand.New(rand.NewSource(seed))
			for j := 0; j < nreq-1; j++ {
				if min == max {
					draws = append(draws, 0)
				} else {
					draws = append(draws, p.Int63n(max.Nanoseconds()-min.Nanoseconds()))
				}
			}
		})
		zs := func(xs []int64) string {
			ss := make([]string, len(xs))
			for i, x := range xs {
				ss[i] = verifh.Z(x)
			}
			return verifh.List(ss)
		}
		out.Emit(verifh.Case{
			ID:       id,
			Coq:      verifh.App("CStall", verifh.Z(int64(min)), verifh.Z(int64(max)), verifh.Z(t0), zs(draws), zs(gaps), zs(obs), verifh.Nat(nreq)),
			Input:    map[string]any{"min_ns": int64(min), "max_ns": int64(max), "gaps_ns": gaps},
			Observed: obs,
			Tags:     []string{"loop", "stalled-consumer"},
		})
	}
}
