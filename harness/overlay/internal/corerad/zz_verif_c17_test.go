//go:build verif && go1.25

package corerad

// TestVerifC17: for generated accepted configurations the production wiring of cmd/corerad/main.go is built (the
// same config.Interface values -- shared plugin pointers -- go to NewMetrics on a pedantic Prometheus registry, to
// crhttp.NewHandler and to Server.BuildTasks) and, at the lifecycle points
//
//	never      nothing dialled yet, plugins not prepared
//	dialing    advertisers started, the dial keeps failing (still not prepared)
//	up         dialled, plugins prepared, initial RA sent
//	up+fail    as up, with failures of State reads / address and route sources injected
//	redial     the socket failed, the advertiser is re-initialising (dial failing)
//	stopped    after the advertisers were cancelled
//
// a scrape (Registry.Gather + GET /metrics, Metrics.Series on the Memory back end), GET /_/api/interfaces and a
// set of routes are observed and emitted as cases of Corr/C17.v.  The RA "as built" which the model takes as input
// is what Interface.RouterAdvertisement(true) returns at that instant (RA construction is property C01).

import (
	"context"
	"fmt"
	"net"
	"net/netip"
	"os"
	"strings"
	"sync"
	"syscall"
	"testing"
	"testing/synctest"
	"time"

	"github.com/mdlayher/corerad/internal/config"
	"github.com/mdlayher/corerad/internal/system"
	"github.com/mdlayher/corerad/internal/verifh"
	"github.com/mdlayher/ndp"
)

type c17Gen struct {
	toml      string
	names     []string
	promFlag  bool
	pprofFlag bool
	kinds     map[string]bool
}

var (
	c17Durs      = []string{"1s", "2s", "1500ms", "5s", "30s", "600s", "1h", "4h", "24h", "720h", "1193046h", "4294967294s", "auto"}
	c17ShortDurs = []string{"1s", "1500ms", "2s", "5s", "30s", "4h"} // ascending
	c17Prefixes  = []string{"2001:db8:1::/64", "2001:db8:2::/64", "fd00:1::/64", "2001:db8:30::/60", "fd00:2:3::/48"}
	c17Routes    = []string{"2001:db8:ffff::/64", "fd00:ffff::/48", "2001:db8:aaaa::/56", "2001:db8:bbbb:1::1/128"}
	// (full-length addresses and long names: label values of well over 128 bytes are ordinary)
	c17Servers = []string{"2001:db8::1", "2001:db8::2", "fd00::53", "2001:4860:4860::8888",
		"2001:db8:1111:2222:3333:4444:5555:6666", "2001:db8:1111:2222:3333:4444:5555:7777", "fd00:aaaa:bbbb:cccc:dddd:eeee:ffff:1234"}
	c17Domains = []string{"example.com", "foo.example.com", "lan", "corp.example.net",
		"a-rather-long-department-name.building-seventeen.campus-north.corp.example.net",
		"a-rather-long-department-name.building-seventeen.campus-south.corp.example.net"}
	c17Pref64    = []string{"64:ff9b::/96", "2001:db8:64::/64", "2001:db8:6400::/56", "2001:db8::/32", ""}
)

func c17Dur(r *verifh.Rand, infinite bool) string {
	if infinite && r.Chance(10) {
		return "infinite"
	}
	return verifh.Pick(r, c17Durs)
}

// c17Config generates one mostly-valid configuration. dup asks for stanzas with equal label values.
func c17Config(r *verifh.Rand) c17Gen {
	g := c17Gen{kinds: map[string]bool{}}
	var b strings.Builder
	hasAddr := r.Chance(90)
	g.promFlag, g.pprofFlag = r.Bool(), r.Bool()
	if hasAddr {
		fmt.Fprintf(&b, "[debug]\naddress = \"localhost:9430\"\nprometheus = %v\npprof = %v\n\n", g.promFlag, g.pprofFlag)
	} else {
		// without an address the [debug] section is ignored as a whole
		fmt.Fprintf(&b, "[debug]\nprometheus = %v\npprof = %v\n\n", g.promFlag, g.pprofFlag)
		g.promFlag, g.pprofFlag = false, false
	}
	stanzas := 1 + r.Intn(3)
	next := 0
	for s := 0; s < stanzas; s++ {
		b.WriteString("[[interfaces]]\n")
		if r.Chance(25) {
			k := 2
			var ns []string
			for j := 0; j < k; j++ {
				ns = append(ns, fmt.Sprintf("v%d", next))
				next++
			}
			g.names = append(g.names, ns...)
			fmt.Fprintf(&b, "names = [\"%s\"]\n", strings.Join(ns, "\", \""))
		} else {
			n := fmt.Sprintf("v%d", next)
			next++
			g.names = append(g.names, n)
			fmt.Fprintf(&b, "name = %q\n", n)
		}
		mode := r.Intn(100)
		switch {
		case mode < 12:
			b.WriteString("monitor = true\n\n")
			g.kinds["monitor"] = true
			continue
		case mode < 22:
			g.kinds["idle"] = true
		default:
			b.WriteString("advertise = true\n")
		}
		maxI := verifh.Pick(r, []int{4, 5, 9, 10, 30, 600, 1800})
		if r.Chance(60) {
			fmt.Fprintf(&b, "max_interval = \"%ds\"\n", maxI)
		} else {
			maxI = 600
		}
		switch r.Intn(5) {
		case 0:
		case 1:
			b.WriteString("default_lifetime = \"auto\"\n")
		case 2:
			b.WriteString("default_lifetime = \"0s\"\n")
		case 3:
			fmt.Fprintf(&b, "default_lifetime = \"%ds\"\n", maxI+r.Intn(9000-maxI+1))
		case 4:
			fmt.Fprintf(&b, "default_lifetime = \"%s\"\n", verifh.Pick(r, []string{"9000s", "2h30m", "1800s", fmt.Sprintf("%dms", maxI*1000+500), fmt.Sprintf("%ds", maxI)}))
		}
		if r.Bool() {
			fmt.Fprintf(&b, "managed = %v\nother_config = %v\n", r.Bool(), r.Bool())
		}
		if r.Bool() {
			fmt.Fprintf(&b, "hop_limit = %d\n", verifh.Pick(r, []int{0, 1, 64, 255}))
		}
		if r.Bool() {
			fmt.Fprintf(&b, "reachable_time = %q\nretransmit_timer = %q\n", verifh.Pick(r, []string{"0s", "1500ms", "30s", "1h", "999ms"}),
				verifh.Pick(r, []string{"0s", "1s", "2500ms", "1h", "1ms"}))
		}
		if r.Chance(40) {
			fmt.Fprintf(&b, "preference = %q\n", verifh.Pick(r, []string{"low", "medium", "high"}))
		}
		if r.Chance(40) {
			fmt.Fprintf(&b, "mtu = %d\n", verifh.Pick(r, []int{1280, 1500, 9000, 65536}))
			g.kinds["mtu"] = true
		}
		if r.Chance(30) {
			b.WriteString("source_lla = false\n")
		} else {
			g.kinds["lla"] = true
		}
		if r.Chance(30) {
			fmt.Fprintf(&b, "captive_portal = %q\n", verifh.Pick(r, []string{"https://portal.example.com/api", "urn:ietf:params:capport:unrestricted"}))
			g.kinds["captive"] = true
		}
		if r.Chance(15) {
			b.WriteString("unicast_only = true\n")
		}

		// prefixes: disjoint pool + the ::/64 wildcard
		pool := append([]string(nil), c17Prefixes...)
		verifh.Shuffle(r, pool)
		np := r.Intn(4)
		wild := false
		for j := 0; j < np; j++ {
			b.WriteString("  [[interfaces.prefix]]\n")
			p := pool[j]
			if !wild && r.Chance(22) {
				wild = true
				g.kinds["prefix-wildcard"] = true
				if r.Bool() {
					p = "::/64"
				} else {
					p = ""
				}
			} else {
				g.kinds["prefix"] = true
			}
			if p != "" {
				fmt.Fprintf(&b, "  prefix = %q\n", p)
			}
			if r.Bool() {
				fmt.Fprintf(&b, "  on_link = %v\n  autonomous = %v\n", r.Bool(), r.Bool())
			}
			dep := r.Chance(35)
			if dep {
				g.kinds["prefix-deprecated"] = true
				// preferred <= valid, both finite
				v := r.Intn(len(c17ShortDurs))
				pr := r.Intn(v + 1)
				fmt.Fprintf(&b, "  valid_lifetime = %q\n  preferred_lifetime = %q\n  deprecated = true\n", c17ShortDurs[v], c17ShortDurs[pr])
			} else if r.Bool() {
				switch r.Intn(3) {
				case 0:
					fmt.Fprintf(&b, "  valid_lifetime = \"infinite\"\n  preferred_lifetime = %q\n", c17Dur(r, true))
				case 1:
					fmt.Fprintf(&b, "  valid_lifetime = \"720h\"\n  preferred_lifetime = %q\n", verifh.Pick(r, []string{"1s", "1500ms", "4h", "720h", "auto"}))
				case 2:
					fmt.Fprintf(&b, "  valid_lifetime = \"2s\"\n  preferred_lifetime = %q\n", verifh.Pick(r, []string{"1s", "1500ms", "2s"}))
				}
			}
		}
		// routes: ::/0 wildcard may appear twice (accepted by the parser)
		rpool := append([]string(nil), c17Routes...)
		verifh.Shuffle(r, rpool)
		nr := r.Intn(4)
		rwild := false
		for j := 0; j < nr; j++ {
			b.WriteString("  [[interfaces.route]]\n")
			p := rpool[j]
			if !rwild && r.Chance(30) || rwild && r.Chance(8) {
				p = "::/0"
				rwild = true
				g.kinds["route-wildcard"] = true
			} else {
				g.kinds["route"] = true
			}
			fmt.Fprintf(&b, "  prefix = %q\n", p)
			if r.Bool() {
				fmt.Fprintf(&b, "  preference = %q\n", verifh.Pick(r, []string{"low", "medium", "high"}))
			}
			if r.Chance(35) {
				g.kinds["route-deprecated"] = true
				fmt.Fprintf(&b, "  lifetime = %q\n  deprecated = true\n", verifh.Pick(r, c17ShortDurs))
			} else if r.Bool() {
				fmt.Fprintf(&b, "  lifetime = %q\n", c17Dur(r, true))
			}
		}
		// rdnss
		nd := r.Intn(3)
		var prevServers string
		for j := 0; j < nd; j++ {
			b.WriteString("  [[interfaces.rdnss]]\n")
			var servers string
			switch {
			case j > 0 && r.Chance(10):
				servers = prevServers // same label values as the previous stanza
			case r.Chance(12):
				servers = "" // key absent: the :: wildcard
			default:
				sp := append([]string(nil), c17Servers...)
				verifh.Shuffle(r, sp)
				sp = sp[:1+r.Intn(5)]
				if r.Chance(15) {
					sp = append(sp, "::")
					verifh.Shuffle(r, sp)
				}
				servers = "\"" + strings.Join(sp, "\", \"") + "\""
			}
			prevServers = servers
			if servers != "" {
				fmt.Fprintf(&b, "  servers = [%s]\n", servers)
			}
			if servers == "" || strings.Contains(servers, "\"::\"") {
				g.kinds["rdnss-wildcard"] = true
			} else {
				g.kinds["rdnss"] = true
			}
			if r.Bool() {
				fmt.Fprintf(&b, "  lifetime = %q\n", c17Dur(r, true))
			}
		}
		// dnssl
		nl := r.Intn(3)
		var prevDomains string
		for j := 0; j < nl; j++ {
			b.WriteString("  [[interfaces.dnssl]]\n")
			var doms string
			if j > 0 && r.Chance(10) {
				doms = prevDomains
			} else {
				dp := append([]string(nil), c17Domains...)
				verifh.Shuffle(r, dp)
				doms = "\"" + strings.Join(dp[:1+r.Intn(4)], "\", \"") + "\""
			}
			prevDomains = doms
			fmt.Fprintf(&b, "  domain_names = [%s]\n", doms)
			if r.Bool() {
				fmt.Fprintf(&b, "  lifetime = %q\n", c17Dur(r, true))
			}
			g.kinds["dnssl"] = true
		}
		// pref64
		n6 := 0
		if r.Chance(35) {
			n6 = 1 + r.Intn(2)
		}
		for j := 0; j < n6; j++ {
			b.WriteString("  [[interfaces.pref64]]\n")
			if p := verifh.Pick(r, c17Pref64); p != "" {
				fmt.Fprintf(&b, "  prefix = %q\n", p)
			}
			g.kinds["pref64"] = true
		}
		b.WriteString("\n")
	}
	g.toml = b.String()
	return g
}

// c17Sources builds the fake address / route sources of one interface. Some addresses fall into the static prefix
// pool (a wildcard then expands to a prefix which is also configured statically).
func c17Sources(r *verifh.Rand) *mSources {
	s := &mSources{now: time.Now}
	mk := func(a string, bits int) system.IP {
		return system.IP{Address: netip.PrefixFrom(netip.MustParseAddr(a), bits), ValidForever: r.Bool(), StablePrivacy: r.Chance(20),
			Temporary: r.Chance(10), Tentative: r.Chance(10), Deprecated: r.Chance(10)}
	}
	s.addrs = append(s.addrs, system.IP{Address: netip.MustParsePrefix("fe80::1/64")},
		system.IP{Address: netip.MustParsePrefix("192.0.2.1/24")},
		system.IP{Address: netip.MustParsePrefix("2001:db8:77::1/64"), ValidForever: true})
	if r.Chance(15) {
		s.addrs = append(s.addrs, mk("2001:db8:1::5", 64)) // inside a pool prefix
	}
	if r.Chance(10) {
		s.addrs = append(s.addrs, mk("fd00:1::53", 64)) // inside a pool prefix
	}
	if r.Chance(40) {
		s.addrs = append(s.addrs, mk("2001:db8:77::2", 64), mk("2001:db8:78::1", 56))
	}
	if r.Chance(10) {
		s.addrs = append(s.addrs, mk("2001:db8::1", 64)) // a pool RDNSS server
	}
	verifh.Shuffle(r, s.addrs)
	rt := func(p string) system.Route { return system.Route{Prefix: netip.MustParsePrefix(p), Index: 1} }
	if r.Chance(70) {
		s.routes = append(s.routes, rt("2001:db8:100::/48"))
	}
	if r.Chance(40) {
		s.routes = append(s.routes, rt("2001:db8:100:1::/64"), rt("::1/128"), rt("10.0.0.0/8"))
	}
	if r.Chance(12) {
		s.routes = append(s.routes, rt("2001:db8:ffff::/64")) // also in the static route pool
	}
	if r.Chance(30) {
		s.routes = append(s.routes, rt("fd00:200::/40"))
	}
	verifh.Shuffle(r, s.routes)
	return s
}

func TestVerifC17(t *testing.T) {
	out := verifh.Open()
	defer out.Close()
	n := 70
	if verifh.Thorough() {
		n = 1200
	}
	race := os.Getenv("VERIF_C17_RACE") != ""
	if race {
		n = 500
	}
	only := os.Getenv("VERIF_ONLY")
	rejected := 0
	for i := 0; i < n; i++ {
		prefix := fmt.Sprintf("c17-%d-", i)
		if race {
			prefix = fmt.Sprintf("c17r-%d-", i)
		}
		if only != "" && !strings.HasPrefix(only, prefix) {
			continue
		}
		r := verifh.NewRand(verifh.Seed(), fmt.Sprintf("C17/%d", i))
		g := c17Config(r)
		if race && (g.kinds["prefix-wildcard"] || g.kinds["route-wildcard"] || g.kinds["rdnss-wildcard"]) {
			// the race run uses the real Prepare methods (real synchronisation); wildcard stanzas would then read
			// rtnetlink, so they are left to the model-checked run above
			continue
		}
		// parsed outside the bubble (the debug address is resolved); the bubble's clock starts at vEpoch
		cfg, err := config.Parse(strings.NewReader(g.toml), vEpoch)
		if err != nil {
			t.Logf("rejected: %v\n%s", err, g.toml)
			rejected++
			continue
		}
		synctest.Test(t, func(t *testing.T) {
			c17Run(t, out, r, g, cfg, prefix, race)
		})
	}
	if rejected*5 > n {
		t.Fatalf("%d of %d generated configurations were rejected by config.Parse", rejected, n)
	}
	// scrapes and API requests while six long debug requests (delta profiles of 2 s) are being served: they are
	// answered at once, not queued behind them
	if id := "c17-busy-debug"; only == "" || only == id {
		c17BusyDebug(out, id)
	}
	// LAST (a blocked prepareMu would block every later case): Apply concurrent with another interface's Prepare,
	// in real time outside the bubbles
	if id := "c17-stress-0"; only == "" || only == id {
		iters := 1500
		if race {
			iters = 100 // the race detector slows every lock operation down; the watchdog is in real time
		}
		c17Stress(out, id, iters)
	}
}

type c17Env struct {
	t        *testing.T
	out      *verifh.Out
	g        c17Gen
	prefix   string
	w        *mWiring
	src      map[string]*mSources
	prepared map[string]bool
	in       *verifh.Intern
}

func c17Run(t *testing.T, out *verifh.Out, r *verifh.Rand, g c17Gen, cfg *config.Config, prefix string, race bool) {
	st := newMState()
	e := &c17Env{t: t, out: out, g: g, prefix: prefix, src: map[string]*mSources{}, prepared: map[string]bool{}, in: verifh.NewIntern()}
	for _, ifi := range cfg.Interfaces {
		e.src[ifi.Name] = c17Sources(r)
		st.fwd[ifi.Name] = r.Chance(60)
		st.auto[ifi.Name] = r.Bool()
	}
	if !race {
		wrapPlugins(cfg, e.src)
	}
	e.w = newMWiring(cfg, st)

	// Server.BuildTasks: the advertisers get the same plugin values; only the dial is faked.
	var (
		mu      sync.Mutex
		failing = map[string]int{}
		conns   = map[string]*vConn{}
		firstRA = map[string]*ndp.RouterAdvertisement{}
	)
	type running struct {
		name string
		done chan error
	}
	var advs []*Advertiser
	for _, task := range e.w.srv.BuildTasks(*cfg, e.w.h) {
		a, ok := task.(*Advertiser)
		if !ok {
			continue
		}
		name := a.cfg.Name
		a.dialer.DialFunc = func() (*system.DialContext, error) {
			mu.Lock()
			defer mu.Unlock()
			if failing[name] > 0 {
				failing[name]--
				return nil, system.ErrLinkNotReady
			}
			c := newVConn()
			conns[name] = c
			return &system.DialContext{Conn: c, Interface: &net.Interface{Name: name, Index: 7, HardwareAddr: vMAC}, IP: netip.MustParseAddr("fe80::1")}, nil
		}
		advs = append(advs, a)
	}

	e.observe("never", r, false, true)

	// start: the first three dial attempts fail (t = 0, 0, 250ms), the fourth succeeds at 750ms
	ctx, cancel := context.WithCancel(context.Background())
	var runs []running
	for _, a := range advs {
		mu.Lock()
		failing[a.cfg.Name] = 3
		mu.Unlock()
		done := make(chan error, 1)
		runs = append(runs, running{a.cfg.Name, done})
		go func() { done <- a.Run(ctx) }()
	}
	stopScraper := make(chan struct{})
	var scraperDone sync.WaitGroup
	if race {
		// implementation-only: scrapes and API requests race with Prepare and the initial send
		scraperDone.Add(1)
		go func() {
			defer scraperDone.Done()
			for {
				select {
				case <-stopScraper:
					return
				default:
				}
				if _, p := e.w.memorySeries(); p != nil {
					e.impl("race-series", fmt.Sprintf("Series panicked while initialising: %v", p))
					return
				}
				_, _ = e.w.reg.Gather()
				if _, _, p := e.w.get("/_/api/interfaces"); p != nil {
					e.impl("race-api", fmt.Sprintf("API panicked while initialising: %v", p))
					return
				}
				time.Sleep(10 * time.Millisecond)
			}
		}()
	}
	time.Sleep(100 * time.Millisecond)
	synctest.Wait()
	if !race {
		e.observe("dialing", r, false, false)
	}

	time.Sleep(900 * time.Millisecond)
	close(stopScraper)
	scraperDone.Wait()
	synctest.Wait()
	mu.Lock()
	for _, a := range advs {
		if c := conns[a.cfg.Name]; c != nil {
			e.prepared[a.cfg.Name] = true
			if ws := c.snapshot(); len(ws) > 0 {
				firstRA[a.cfg.Name] = ws[0].RA
			}
		}
	}
	mu.Unlock()
	// what was sent is what RouterAdvertisement yields now (no virtual time has passed since 750ms for static
	// plugins; deprecated ones are compared at the scrape below through the model instead)
	for _, a := range advs {
		if a.cfg.UnicastOnly || !e.prepared[a.cfg.Name] {
			continue
		}
		sent := firstRA[a.cfg.Name]
		if sent == nil {
			e.impl("initial-"+a.cfg.Name, "no initial RA was written by an initialised advertiser")
		}
	}
	e.observe("up", r, false, true)
	e.observe("up+fail", r, true, false)

	// time passes: deprecated lifetimes count down
	time.Sleep(time.Duration(500+r.Intn(3000)) * time.Millisecond)
	synctest.Wait()
	e.observe("up-later", r, r.Chance(30), false)

	// the socket fails: re-initialisation with a failing dial
	mu.Lock()
	for _, a := range advs {
		failing[a.cfg.Name] = 3
		if c := conns[a.cfg.Name]; c != nil {
			c.readC <- vRead{err: os.NewSyscallError("recvmsg", syscall.ENETDOWN)}
		}
	}
	mu.Unlock()
	time.Sleep(100 * time.Millisecond)
	synctest.Wait()
	e.observe("redial", r, r.Chance(30), false)

	time.Sleep(2 * time.Second)
	synctest.Wait()
	cancel()
	for _, rn := range runs {
		select {
		case <-rn.done:
		case <-time.After(time.Minute):
			e.impl("stop-"+rn.name, "advertiser did not stop within a virtual minute after cancellation")
		}
	}
	synctest.Wait()
	e.observe("stopped", r, r.Chance(30), false)
}

var errC17Panic = fmt.Errorf("verif: RouterAdvertisement panicked")

// c17Build evaluates the RA as built now; a panic of the real code (to be observed by the scrape / request below,
// where it is the violation) must not take the driver down.
func c17Build(ifi config.Interface) (ra *ndp.RouterAdvertisement, err error) {
	defer func() {
		if r := recover(); r != nil {
			ra, err = nil, errC17Panic
		}
	}()
	ra, _, err = ifi.RouterAdvertisement(true)
	return ra, err
}

func (e *c17Env) impl(id, msg string) {
	e.out.Emit(verifh.Case{ID: e.prefix + id, ImplViolation: msg, Input: map[string]any{"toml": e.g.toml}, Tags: []string{"impl"}})
}

var c17Routes404 = []struct{ path, route string }{
	{"/", "RRoot"}, {"/_/api/interfaces", "RInterfaces"}, {"/metrics", "RMetrics"},
	{"/debug/pprof/", "RPprof"}, {"/debug/pprof", "RPprof"}, {"/debug/pprof/cmdline", "RPprof"}, {"/debug/pprof/symbol", "RPprof"},
	{"/debug/pprof/heap?debug=1", "RPprof"},
	{"/nope", "RUnknown"}, {"/metrics/", "RUnknown"}, {"/_/api/", "RUnknown"}, {"/debug/", "RUnknown"}, {"/_/api/interfaces/x", "RUnknown"},
}

// observe emits the scrape, API and (optionally) route cases of one lifecycle point.
func (e *c17Env) observe(point string, r *verifh.Rand, inject, routes bool) {
	st := e.w.state
	cfg := e.w.cfg
	// ---- failure injection for this observation
	var injected []string
	if inject {
		// one failure (sometimes two), anywhere
		for k := 0; k < 1+r.Intn(100)/70; k++ {
			ifi := cfg.Interfaces[r.Intn(len(cfg.Interfaces))]
			switch r.Intn(4) {
			case 0:
				st.setFail(ifi.Name, true, false)
				injected = append(injected, "fwd:"+ifi.Name)
			case 1:
				st.setFail(ifi.Name, false, true)
				injected = append(injected, "auto:"+ifi.Name)
			case 2:
				e.src[ifi.Name].setFail(true, false)
				injected = append(injected, "addrs:"+ifi.Name)
			case 3:
				e.src[ifi.Name].setFail(false, true)
				injected = append(injected, "routes:"+ifi.Name)
			}
		}
	}
	defer func() {
		st.clearFails()
		for _, ifi := range cfg.Interfaces {
			e.src[ifi.Name].setFail(false, false)
		}
	}()

	// ---- model input: flags, State answers, the RA as built now
	var ifins []string
	options, advertising := 0, 0
	for _, ifi := range cfg.Interfaces {
		optB := func(fail bool, v bool) string {
			if fail {
				return verifh.None()
			}
			return verifh.Some(verifh.B(v))
		}
		build := "(Err 0%N)"
		if ifi.Advertise {
			advertising++
			ra, err := c17Build(ifi)
			switch {
			case err == errC17Panic:
				build = "(Err 4%N)"
			case err == nil:
				build = verifh.App("Ok", coqRA(ra, e.in))
				options += len(ra.Options)
			case !e.prepared[ifi.Name] && needsSource(ifi):
				build = "(Err 1%N)"
			case e.src[ifi.Name].failing():
				build = "(Err 2%N)"
			default:
				build = "(Err 3%N)"
			}
		}
		fwd, auto, failFwd, failAuto := st.get(ifi.Name)
		ifins = append(ifins, verifh.App("mkIf", e.in.N("if:"+ifi.Name), verifh.B(ifi.Advertise), verifh.B(ifi.Monitor),
			optB(failAuto, auto), optB(failFwd, fwd), build))
	}
	ifs := verifh.List(ifins)
	tags := []string{"point:" + point}
	for k := range e.g.kinds {
		tags = append(tags, "has:"+k)
	}
	if len(injected) > 0 {
		tags = append(tags, "failures-injected")
	}
	input := map[string]any{"toml": e.g.toml, "point": point, "injected": injected, "options": options,
		"advertising": advertising, "virtual_ns": vNow()}

	// ---- scrape: Memory first (a panic there is recoverable; inside Gather it would kill the process)
	series, panicked := e.w.memorySeries()
	var gTerm, mTerm string
	obs := map[string]any{}
	if panicked != nil {
		gTerm, mTerm = "GPanic", "MPanic"
		obs["series_panic"] = fmt.Sprint(panicked)
	} else {
		ms, failed := memorySamples(series)
		if failed {
			mTerm = verifh.App("MErr", sampleTerms(ms, e.in))
		} else {
			mTerm = verifh.App("MOk", sampleTerms(ms, e.in))
		}
		obs["series_failed"], obs["series_samples"] = failed, len(ms)
		mfs, gerr := e.w.reg.Gather()
		status := 0
		if e.g.promFlag {
			status, _, _ = e.w.get("/metrics")
			if (status == 200) != (gerr == nil) {
				e.impl(point+"-metrics-status", fmt.Sprintf("/metrics answered %d although Gather returned %v", status, gerr))
			}
		}
		obs["metrics_status"] = status
		if gerr != nil {
			gTerm = "GErr"
			obs["gather_error"] = true
		} else {
			gs := gatherSamples(mfs)
			gTerm = verifh.App("GOk", sampleTerms(gs, e.in))
			obs["gather_samples"] = len(gs)
		}
	}
	e.out.Emit(verifh.Case{ID: e.prefix + point + "-scrape", Coq: verifh.App("CScrape", ifs, gTerm, mTerm),
		Input: input, Observed: obs, Tags: append([]string{"kind:scrape", "gather:" + strings.SplitN(strings.Trim(gTerm, "("), " ", 2)[0]}, tags...)})

	// ---- API
	status, body, panicked := e.w.get("/_/api/interfaces")
	var aTerm string
	aobs := map[string]any{"status": status}
	switch {
	case panicked != nil:
		aTerm = "APanic"
		aobs["panic"] = fmt.Sprint(panicked)
	case status == 200:
		b, err := decodeBody(body)
		if err != nil {
			aTerm = "APanic"
			aobs["undecodable"] = err.Error()
		} else {
			aTerm = verifh.App("ABody", bodyTerm(b, e.in))
		}
	default:
		aTerm = "AError"
	}
	e.out.Emit(verifh.Case{ID: e.prefix + point + "-api", Coq: verifh.App("CApi", ifs, aTerm),
		Input: input, Observed: aobs, Tags: append([]string{"kind:api", "api:" + strings.SplitN(strings.Trim(aTerm, "("), " ", 2)[0]}, tags...)})

	// ---- routes
	if routes {
		var ro []string
		robs := map[string]int{}
		for _, rt := range c17Routes404 {
			if rt.route == "RMetrics" && panicked != nil {
				continue
			}
			if rt.path == "/metrics" && gTerm == "GPanic" {
				continue
			}
			status, _, _ := e.w.get(rt.path)
			robs[rt.path] = status
			ro = append(ro, verifh.Pair(rt.route, verifh.B(status != 404)))
		}
		e.out.Emit(verifh.Case{ID: e.prefix + point + "-routes",
			Coq:      verifh.App("CRoutes", verifh.B(e.g.promFlag), verifh.B(e.g.pprofFlag), verifh.List(ro)),
			Input:    map[string]any{"toml": e.g.toml, "point": point, "prometheus": e.g.promFlag, "pprof": e.g.pprofFlag, "options": options},
			Observed: robs, Tags: append([]string{"kind:routes", fmt.Sprintf("prometheus:%v", e.g.promFlag), fmt.Sprintf("pprof:%v", e.g.pprofFlag)}, tags...)})
	}
}
