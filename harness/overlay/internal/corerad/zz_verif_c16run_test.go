//go:build verif && go1.25

package corerad

// C16 on the wire: the real Advertiser.Run (virtual clock) with deprecated prefixes and routes.  "The lifetimes
// advertised at time t" are those of the instant at which the RA is handed to the socket -- not of the instant
// at which it was requested, scheduled or built: every RA that leaves, solicited (delayed by 0..500 ms),
// rate-limited multicast (delayed by up to 3 s), periodic or final, carries max(0, epoch + lifetime - t_write),
// and along the writes of one run no lifetime ever increases.

import (
	"fmt"
	"net/netip"
	"strings"
	"testing"
	"testing/synctest"
	"time"

	"github.com/mdlayher/corerad/internal/config"
	"github.com/mdlayher/corerad/internal/plugin"
	"github.com/mdlayher/corerad/internal/verifh"
	"github.com/mdlayher/ndp"
)

func TestVerifC16Run(t *testing.T) {
	out := verifh.Open()
	defer out.Close()
	r := verifh.NewRand(verifh.Seed(), "C16run")
	n := 30
	if verifh.Thorough() {
		n = 400
	}
	for i := 0; i < n; i++ {
		id := fmt.Sprintf("c16run-%d", i)
		valid := time.Duration(2+r.Intn(20))*time.Second + time.Duration(r.Intn(1000))*time.Millisecond
		pref := time.Duration(r.Intn(int(valid/time.Millisecond)+1)) * time.Millisecond
		rlt := time.Duration(1+r.Intn(20))*time.Second + time.Duration(r.Intn(1000))*time.Millisecond
		offset := time.Duration(r.Intn(5000)) * time.Millisecond // the daemon started this long before the interface came up
		var at []time.Duration
		for k := 0; k < 3+r.Intn(10); k++ {
			at = append(at, time.Duration(r.Intn(26000))*time.Millisecond)
		}
		// solicitations just before each deadline: their answers leave after it
		at = append(at, valid-offset-time.Duration(1+r.Intn(400))*time.Millisecond, pref-offset-time.Duration(1+r.Intn(400))*time.Millisecond,
			rlt-offset-time.Duration(1+r.Intn(400))*time.Millisecond)
		if !out.Wants(id) {
			continue
		}
		var viol []string
		writes := 0
		synctest.Test(t, func(t *testing.T) {
			epoch := time.Now()
			time.Sleep(offset)
			cfg := config.Interface{Name: "v0", Advertise: true, MinInterval: 4 * time.Second, MaxInterval: 6 * time.Second,
				HopLimit: 64, DefaultLifetime: 1800 * time.Second,
				Plugins: []plugin.Plugin{
					&plugin.Prefix{Prefix: netip.MustParsePrefix("2001:db8:1::/64"), OnLink: true, Autonomous: true,
						ValidLifetime: valid, PreferredLifetime: pref, Deprecated: true, Epoch: epoch, TimeNow: time.Now},
					&plugin.Route{Prefix: netip.MustParsePrefix("2001:db8:f::/48"), Preference: ndp.Medium, Lifetime: rlt,
						Deprecated: true, Epoch: epoch, TimeNow: time.Now},
					&plugin.Prefix{Prefix: netip.MustParsePrefix("2001:db8:2::/64"), OnLink: true, Autonomous: true,
						ValidLifetime: valid, PreferredLifetime: pref},
				}}
			v := newVAdvertiser(cfg, func() bool { return true })
			cancel, done := v.run()
			start := time.Now()
			// sorted delivery
			for a := 0; a < len(at); a++ {
				for b := a + 1; b < len(at); b++ {
					if at[b] < at[a] {
						at[a], at[b] = at[b], at[a]
					}
				}
			}
			for k, a := range at {
				if a < 0 {
					continue
				}
				time.Sleep(time.Until(start.Add(a)))
				src := fmt.Sprintf("fe80::%x", 0x100+k)
				if k%4 == 3 {
					src = "::" // answered by multicast, subject to the rate limit
				}
				v.cur().readC <- rs(src)
				synctest.Wait()
			}
			time.Sleep(time.Until(start.Add(28 * time.Second)))
			synctest.Wait()
			cancel()
			<-done
			clamp := func(d time.Duration) time.Duration {
				if d < 0 {
					return 0
				}
				return d
			}
			var lastV, lastP, lastR time.Duration = -1, -1, -1
			for _, w := range v.cur().snapshot() {
				if w.RA == nil {
					continue
				}
				writes++
				tw := vEpoch.Add(time.Duration(w.Begin)) // instant of the write
				for _, o := range w.RA.Options {
					switch o := o.(type) {
					case *ndp.PrefixInformation:
						if o.Prefix == netip.MustParseAddr("2001:db8:2::") {
							if o.ValidLifetime != valid || o.PreferredLifetime != pref {
								viol = append(viol, fmt.Sprintf("RA written at +%v: the non-deprecated prefix carries %v/%v, configured %v/%v", tw.Sub(epoch), o.ValidLifetime, o.PreferredLifetime, valid, pref))
							}
							continue
						}
						wv, wp := clamp(epoch.Add(valid).Sub(tw)), clamp(epoch.Add(pref).Sub(tw))
						if o.ValidLifetime != wv || o.PreferredLifetime != wp {
							viol = append(viol, fmt.Sprintf("RA written to %s at epoch+%v: deprecated prefix (valid %v, preferred %v) carries %v/%v, remaining at that instant %v/%v",
								w.Dst, tw.Sub(epoch), valid, pref, o.ValidLifetime, o.PreferredLifetime, wv, wp))
						}
						if (lastV >= 0 && o.ValidLifetime > lastV) || (lastP >= 0 && o.PreferredLifetime > lastP) {
							viol = append(viol, fmt.Sprintf("RA written at epoch+%v: lifetimes %v/%v after %v/%v in the previous RA", tw.Sub(epoch), o.ValidLifetime, o.PreferredLifetime, lastV, lastP))
						}
						lastV, lastP = o.ValidLifetime, o.PreferredLifetime
					case *ndp.RouteInformation:
						wr := clamp(epoch.Add(rlt).Sub(tw))
						if o.RouteLifetime != wr {
							viol = append(viol, fmt.Sprintf("RA written to %s at epoch+%v: deprecated route (lifetime %v) carries %v, remaining at that instant %v", w.Dst, tw.Sub(epoch), rlt, o.RouteLifetime, wr))
						}
						if lastR >= 0 && o.RouteLifetime > lastR {
							viol = append(viol, fmt.Sprintf("RA written at epoch+%v: route lifetime %v after %v in the previous RA", tw.Sub(epoch), o.RouteLifetime, lastR))
						}
						lastR = o.RouteLifetime
					}
				}
			}
		})
		if len(viol) > 3 {
			viol = viol[:3]
		}
		c := verifh.Case{ID: id, Input: map[string]any{"kind": "advertiser-run", "deprecated": true, "valid": valid.String(), "preferred": pref.String(),
			"route": rlt.String(), "offset": offset.String(), "solicitations": fmt.Sprint(at)},
			Observed: map[string]any{"writes": writes}, Tags: []string{"stream:advertiser-run", fmt.Sprintf("writes:%d", min(writes/5*5, 30))},
			ImplViolation: strings.Join(viol, "; ")}
		if writes < 3 {
			c.ImplViolation = fmt.Sprintf("only %d RAs were written in 28 s", writes)
		}
		out.Emit(c)
	}
}
