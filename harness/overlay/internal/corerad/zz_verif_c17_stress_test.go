//go:build verif && go1.25

package corerad

// C17: "forall interleavings of scrapes / API requests with advertiser initialisation ... without crashing or
// blocking the daemon" -- the interleavings the virtual-time runs cannot place: a scrape, an API request or an RA
// build which is INSIDE plugin.Apply (holding the package-wide prepareMu read lock) while the advertiser of another
// interface enters Prepare (write lock).  sync.RWMutex gives a waiting writer preference over new readers, so any
// second acquisition of the read lock below Apply deadlocks against such a Prepare; neither GOMAXPROCS(1) nor the
// bubble's scheduler can place the writer between the two acquisitions, hence a stress in real time: one goroutine
// runs the plugin initialisation loop of Advertiser.Run for a static interface back to back (the writer is
// re-announced as soon as it has been served) while three goroutines scrape the production registry, request
// /_/api/interfaces and build the RA of an interface carrying every wildcard stanza.  Everything must finish within
// a watchdog; on the clean tree it takes a fraction of a second.

import (
	"fmt"
	"net"
	"net/netip"
	"strings"
	"sync"
	"sync/atomic"
	"time"

	"github.com/mdlayher/corerad/internal/config"
	"github.com/mdlayher/corerad/internal/plugin"
	"github.com/mdlayher/corerad/internal/system"
	"github.com/mdlayher/corerad/internal/verifh"
)

const c17StressConfig = `
[[interfaces]]
name = "lan0"
advertise = true
  [[interfaces.prefix]]
  prefix = "::/64"
  [[interfaces.prefix]]
  prefix = "2001:db8:5::/64"
  [[interfaces.route]]
  prefix = "::/0"
  [[interfaces.rdnss]]
  servers = ["::", "2001:db8::53"]
  [[interfaces.dnssl]]
  domain_names = ["lan.example.com"]

[[interfaces]]
name = "lan1"
advertise = true
  [[interfaces.prefix]]
  prefix = "2001:db8:1::/64"
  [[interfaces.route]]
  prefix = "2001:db8:ffff::/48"
  [[interfaces.rdnss]]
  servers = ["2001:db8::53"]

[[interfaces]]
name = "lan2"
monitor = true
`

const c17StressWatchdog = 3 * time.Second

func c17Stress(out *verifh.Out, id string, n int) {
	cfg, err := config.Parse(strings.NewReader(c17StressConfig), time.Unix(1700000000, 0))
	if err != nil {
		out.Emit(verifh.Case{ID: id, ImplViolation: "the stress configuration was rejected: " + err.Error()})
		return
	}
	// lan0 is initialised: what Prepare installs, with canned system lookups instead of rtnetlink
	addrs := func() ([]system.IP, error) {
		return []system.IP{{Address: netip.MustParsePrefix("2001:db8::1/64"), ValidForever: true}, {Address: netip.MustParsePrefix("fe80::1/64")}}, nil
	}
	routes := func() ([]system.Route, error) {
		return []system.Route{{Prefix: netip.MustParsePrefix("2001:db8:ffff::/48")}}, nil
	}
	for _, p := range cfg.Interfaces[0].Plugins {
		switch p := p.(type) {
		case *plugin.Prefix:
			p.TimeNow, p.Addrs = time.Now, addrs
		case *plugin.Route:
			p.TimeNow, p.Routes = time.Now, routes
		case *plugin.RDNSS:
			p.Addrs = addrs
		}
	}
	st := newMState()
	for _, ifi := range cfg.Interfaces {
		st.fwd[ifi.Name] = true
	}
	w := newMWiring(cfg, st)

	var (
		wg                             sync.WaitGroup
		scrapes, requests, builds, ini atomic.Int64
		mu                             sync.Mutex
		trouble                        string
		stop                           atomic.Bool
	)
	fail := func(format string, a ...any) {
		mu.Lock()
		if trouble == "" {
			trouble = fmt.Sprintf(format, a...)
		}
		mu.Unlock()
		stop.Store(true)
	}
	readers := []func(){
		func() { // the Prometheus scraper
			for i := 0; i < n && !stop.Load(); i++ {
				mfs, err := w.reg.Gather()
				if err != nil {
					fail("scrape %d failed: %v", i, err)
					return
				}
				found := false
				for _, s := range gatherSamples(mfs) {
					if s.Name == advPrefixValid {
						for _, l := range s.Labels {
							if l[0] == "prefix" && l[1] == "2001:db8::/64" {
								found = true
							}
						}
					}
				}
				if !found {
					fail("scrape %d: the wildcard prefix of lan0 is missing", i)
					return
				}
				scrapes.Add(1)
			}
		},
		func() { // the debug API
			for i := 0; i < n && !stop.Load(); i++ {
				status, _, p := w.get("/_/api/interfaces")
				if p != nil || status != 200 {
					fail("API request %d: status %d, panic %v", i, status, p)
					return
				}
				requests.Add(1)
			}
		},
		func() { // lan0's advertiser building RAs
			for i := 0; i < 4*n && !stop.Load(); i++ {
				if _, _, err := cfg.Interfaces[0].RouterAdvertisement(true); err != nil {
					fail("RA build %d failed: %v", i, err)
					return
				}
				builds.Add(1)
			}
		},
	}
	for _, f := range readers {
		wg.Add(1)
		go func() { defer wg.Done(); f() }()
	}
	readersDone := make(chan struct{})
	go func() { wg.Wait(); close(readersDone) }()
	// lan1's advertiser, whose link keeps flapping: the plugin initialisation loop at the top of Advertiser.Run
	initDone := make(chan struct{})
	go func() {
		defer close(initDone)
		ifi := &net.Interface{Index: 2, Name: "lan1", HardwareAddr: net.HardwareAddr{0xde, 0xad, 0xbe, 0xef, 0xde, 0xad}}
		for {
			select {
			case <-readersDone:
				return
			default:
			}
			for _, p := range cfg.Interfaces[1].Plugins {
				if err := p.Prepare(ifi); err != nil {
					fail("Prepare of a static plugin failed: %v", err)
					return
				}
			}
			ini.Add(1)
		}
	}()

	t0 := time.Now()
	viol := ""
	select {
	case <-initDone:
		<-readersDone
		mu.Lock()
		viol = trouble
		mu.Unlock()
	case <-time.After(c17StressWatchdog):
		viol = fmt.Sprintf("the daemon is blocked: after %s scrapes (%d), API requests (%d), RA builds (%d) and the initialisation of another interface (%d rounds) "+
			"stopped making progress", c17StressWatchdog, scrapes.Load(), requests.Load(), builds.Load(), ini.Load())
		stop.Store(true)
	}
	out.Emit(verifh.Case{ID: id, Tags: []string{"stream:apply-concurrent-with-prepare"}, ImplViolation: viol,
		Input: map[string]any{"config": c17StressConfig, "iterations": n},
		Observed: map[string]any{"scrapes": scrapes.Load(), "api_requests": requests.Load(), "ra_builds": builds.Load(),
			"initialisation_rounds": ini.Load(), "wall_ms": time.Since(t0).Milliseconds()}})
}

func c17BusyDebug(out *verifh.Out, id string) {
	cfg, err := config.Parse(strings.NewReader(c17StressConfig+"\n[debug]\naddress = \"localhost:9430\"\nprometheus = true\npprof = true\n"), time.Unix(1700000000, 0))
	if err != nil {
		out.Emit(verifh.Case{ID: id, ImplViolation: "the configuration was rejected: " + err.Error()})
		return
	}
	st := newMState()
	for _, ifi := range cfg.Interfaces {
		st.fwd[ifi.Name] = true
	}
	w := newMWiring(cfg, st)
	var wg sync.WaitGroup
	var slowOK atomic.Int64
	for i := 0; i < 6; i++ {
		wg.Add(1)
		go func() {
			defer wg.Done()
			if status, _, _ := w.get("/debug/pprof/allocs?seconds=2"); status == 200 {
				slowOK.Add(1)
			}
		}()
	}
	time.Sleep(300 * time.Millisecond)
	var viol []string
	for _, path := range []string{"/metrics", "/_/api/interfaces", "/metrics", "/_/api/interfaces"} {
		doneC := make(chan int, 1)
		go func() { status, _, _ := w.get(path); doneC <- status }()
		select {
		case <-doneC:
		case <-time.After(1200 * time.Millisecond):
			viol = append(viol, fmt.Sprintf("%s was not answered within 1.2 s while six long debug requests were in flight", path))
		}
		if len(viol) > 0 {
			break
		}
	}
	wg.Wait()
	c := verifh.Case{ID: id, Input: map[string]any{"kind": "busy-debug", "long_requests": 6}, Observed: map[string]any{"long_requests_served": slowOK.Load()},
		Tags: []string{"stream:busy-debug"}, ImplViolation: strings.Join(viol, "; ")}
	if slowOK.Load() == 0 {
		c.Tags = append(c.Tags, "busy-debug:long-requests-not-served") // (delta profiles unavailable: nothing was in flight)
	}
	out.Emit(c)
}
