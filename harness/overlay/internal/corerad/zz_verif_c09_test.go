//go:build verif && go1.25

package corerad

import (
	"context"
	"errors"
	"fmt"
	"io"
	"log"
	"math/rand"
	"net"
	"net/netip"
	"runtime"
	"sort"
	"strings"
	"testing"
	"testing/synctest"
	"time"

	"github.com/mdlayher/corerad/internal/config"
	"github.com/mdlayher/corerad/internal/plugin"
	"github.com/mdlayher/corerad/internal/system"
	"github.com/mdlayher/corerad/internal/verifh"
	"github.com/mdlayher/metricslite"
	"github.com/mdlayher/ndp"
)

// A scriptRead is one scripted ReadFrom outcome: Kind "msg" | "timeout" | "err".
type scriptRead struct {
	Kind string
	Typ  int // 133..136
	Hop  int
	Src  int // 0 = ::, k>0 = fe80::1000+k
}

func srcAddr(k int) netip.Addr {
	if k == 0 {
		return netip.IPv6Unspecified()
	}
	b := netip.MustParseAddr("fe80::1000").As16()
	b[14], b[15] = byte(k>>8), byte(k)
	b[13] = 0x10
	return netip.AddrFrom16(b)
}

func (s scriptRead) toRead() vRead {
	switch s.Kind {
	case "timeout":
		return vRead{err: &net.OpError{Op: "read", Net: "ip6:ipv6-icmp", Err: vTimeout{}}}
	case "err":
		return vRead{err: errors.New("verif: read failure")}
	}
	var m ndp.Message
	switch s.Typ {
	case 133:
		m = &ndp.RouterSolicitation{}
	case 134:
		m = &ndp.RouterAdvertisement{CurrentHopLimit: 64, RouterLifetime: 30 * time.Second}
	case 135:
		m = &ndp.NeighborSolicitation{TargetAddress: netip.MustParseAddr("fe80::9")}
	default:
		m = &ndp.NeighborAdvertisement{TargetAddress: netip.MustParseAddr("fe80::9")}
	}
	return vRead{msg: m, hop: s.Hop, from: srcAddr(s.Src).WithZone("v0")}
}

func (s scriptRead) coq() string {
	switch s.Kind {
	case "timeout":
		return "RdTimeout"
	case "err":
		return "RdErr"
	}
	return verifh.App("RdMsg", verifh.N(uint64(s.Typ)), verifh.N(uint64(s.Hop)), verifh.AddrN(srcAddr(s.Src)))
}

var msgTypeNum = map[string]int{"router solicitation": 133, "router advertisement": 134, "neighbor solicitation": 135, "neighbor advertisement": 136}

// tallyMetric sums a counter's samples by their message= label.
func tallyMetric(mm *Metrics, name string) string {
	series, _ := mm.Series()
	sums := map[int]int64{}
	for kv, v := range series[name].Samples {
		for _, part := range strings.Split(kv, ",") {
			if strings.HasPrefix(part, "message=") {
				sums[msgTypeNum[strings.TrimPrefix(part, "message=")]] += int64(v)
			}
		}
	}
	var keys []int
	for k := range sums {
		keys = append(keys, k)
	}
	sort.Ints(keys)
	var out []string
	for _, k := range keys {
		if sums[k] != 0 {
			out = append(out, verifh.Pair(verifh.N(uint64(k)), verifh.Z(sums[k])))
		}
	}
	return verifh.List(out)
}

func runListenScenario(t *testing.T, id string, monitor bool, script []scriptRead, tags []string) []verifh.Case {
	var (
		answers           []string
		invalid, received string
		running           bool
		answersJ          []string
		t0, seed, hz      int64
		allWrites         []vWrite
		cntUni, cntMulti  float64
		maxDepth, depth0  int
	)
	synctest.Test(t, func(t *testing.T) {
		conn := newVConn()
		state := newVState()
		state.forwarding["v0"] = true
		v09Seq++
		cfg := config.Interface{Name: "v0", Advertise: !monitor, Monitor: monitor, Verbose: v09Seq%2 == 0, MinInterval: 200 * time.Second, MaxInterval: 600 * time.Second,
			HopLimit: 64, DefaultLifetime: 1800 * time.Second, Plugins: []plugin.Plugin{&plugin.LLA{}}}
		mm := NewMetrics(metricslite.NewMemory(), "test", time.Time{}, state, []config.Interface{cfg})
		cctx := NewContext(log.New(io.Discard, "", 0), mm, state)
		d := &system.Dialer{DialFunc: func() (*system.DialContext, error) {
			return &system.DialContext{Conn: conn, Interface: &net.Interface{Name: "v0", HardwareAddr: vMAC}, IP: netip.MustParseAddr("fe80::1")}, nil
		}}
		var task Task
		if monitor {
			task = NewMonitor(cctx, "v0", d, nil, false)
		} else {
			task = NewAdvertiser(cctx, cfg, d, nil, func() bool { return false })
		}
		// the listener's stack must not grow with the number of messages it has skipped
		conn.onRead = func(n int) {
			var pcs [512]uintptr
			d := runtime.Callers(0, pcs[:])
			if n == 1 {
				depth0 = d
			}
			if d > maxDepth {
				maxDepth = d
			}
		}
		ctx, cancel := context.WithCancel(context.Background())
		done := make(chan error, 1)
		seed, t0 = time.Now().UnixNano(), vNow()
		go func() { done <- task.Run(ctx) }()
		synctest.Wait()
		// one read at a time, 600 ms apart: an answer (random delay < 500 ms) is on the wire before the
		// next outcome is read, so a later failure cannot swallow an earlier answer
		for _, s := range script {
			conn.readC <- s.toRead()
			time.Sleep(600 * time.Millisecond)
		}
		time.Sleep(10 * time.Second)
		synctest.Wait()
		select {
		case <-done:
			running = false
		default:
			running = true
		}
		for _, w := range conn.snapshot() {
			if !w.Dst.IsMulticast() {
				answers = append(answers, verifh.AddrN(w.Dst))
				answersJ = append(answersJ, w.Dst.String())
			}
		}
		hz = vNow()
		allWrites = conn.snapshot()
		cntUni = metricVal(mm, "corerad_advertiser_router_advertisements_total", "interface=v0,type=unicast")
		cntMulti = metricVal(mm, "corerad_advertiser_router_advertisements_total", "interface=v0,type=multicast")
		invalid = tallyMetric(mm, "corerad_messages_received_invalid_total")
		if monitor {
			received = tallyMetric(mm, "corerad_monitor_messages_received_total")
		} else {
			received = tallyMetric(mm, "corerad_advertiser_messages_received_total")
		}
		cancel()
		if running {
			<-done
		}
	})
	// sort answers numerically (same order as the model's nsort): by string length then lexicographic of the decimal rendering
	sort.Slice(answers, func(i, j int) bool {
		if len(answers[i]) != len(answers[j]) {
			return len(answers[i]) < len(answers[j])
		}
		return answers[i] < answers[j]
	})
	var sc []string
	for _, s := range script {
		sc = append(sc, s.coq())
	}
	c1 := verifh.Case{
		ID:       id,
		Coq:      verifh.App("mkL9", verifh.B(monitor), verifh.List(sc), verifh.List(answers), invalid, received, verifh.B(running)),
		Input:    map[string]any{"monitor": monitor, "script": script},
		Observed: map[string]any{"answers": answersJ, "invalid": invalid, "received": received, "running": running},
		Tags:     tags,
	}
	if maxDepth > depth0+8 {
		c1.ImplViolation = fmt.Sprintf("the listener's stack grew from %d to %d frames while reading the script", depth0, maxDepth)
	}
	cases := []verifh.Case{c1}
	if !monitor && running {
		// the same run as a scheduler case (Corr.C06): every transmission, multicast ones included, must be
		// explained by the periodic loop and the VALID solicitations alone
		p := rand.New(rand.NewSource(seed))
		var loopDraws, evs []string
		for i := 0; i < 8; i++ {
			loopDraws = append(loopDraws, verifh.Z(p.Int63n(int64(600*time.Second-200*time.Second))))
		}
		p = rand.New(rand.NewSource(seed))
		for k, s := range script {
			if s.Kind != "msg" || s.Typ != 133 || s.Hop != 255 {
				continue
			}
			at := t0 + int64(k)*int64(600*time.Millisecond)
			if s.Src == 0 {
				evs = append(evs, verifh.Pair(verifh.Z(at), "ReqMulti"))
			} else {
				evs = append(evs, verifh.Pair(verifh.Z(at), verifh.App("ReqUni", verifh.AddrN(srcAddr(s.Src)), verifh.Z(p.Int63n(maxRADelay.Nanoseconds())))))
			}
		}
		sort.SliceStable(allWrites, func(i, j int) bool { return allWrites[i].Begin < allWrites[j].Begin })
		var os []string
		for _, w := range allWrites {
			os = append(os, verifh.Pair(verifh.Z(w.Begin), verifh.AddrN(w.Dst)))
		}
		cases = append(cases, verifh.Case{
			ID:   id + "#run",
			Corr: "Corr.C06",
			Coq: verifh.App("mkRun", "false", verifh.Z(int64(200*time.Second)), verifh.Z(int64(600*time.Second)), verifh.Z(t0),
				verifh.List(loopDraws), verifh.List(evs), verifh.Z(hz+1), verifh.List(os),
				verifh.Z(int64(cntUni)), verifh.Z(int64(cntMulti)), verifh.Z(int64(len(evs)))),
			Input: map[string]any{"monitor": monitor, "script": script, "view": "all transmissions"},
			Tags:  append(append([]string(nil), tags...), "view:scheduler"),
		})
	}
	return cases
}

// TestVerifC09 feeds scripted read sequences (every hop limit, every message type, runs of invalid
// messages beyond the retry budget, timeouts, failures) to a real advertiser and a real monitor.
// every other run is in verbose mode (more is logged; what is ignored, counted and answered is the same)
var v09Seq int

func TestVerifC09(t *testing.T) {
	out := verifh.Open()
	defer out.Close()
	r := verifh.NewRand(verifh.Seed(), "C09")
	n := 0
	emit := func(name string, monitor bool, script []scriptRead, tags ...string) {
		n++
		id := fmt.Sprintf("%s-%d", name, n)
		if out.Wants(id) || out.Wants(id+"#run") {
			for _, c := range runListenScenario(t, id, monitor, script, append(tags, fmt.Sprintf("monitor:%v", monitor))) {
				out.Emit(c)
			}
		}
	}
	msg := func(typ, hop, src int) scriptRead { return scriptRead{Kind: "msg", Typ: typ, Hop: hop, Src: src} }
	to := scriptRead{Kind: "timeout"}
	for _, mon := range []bool{false, true} {
		// every hop limit 0..255 for a router solicitation, each followed by a valid one
		var all []scriptRead
		for h := 0; h <= 255; h++ {
			all = append(all, msg(133, h, 1+h))
		}
		emit("hops", mon, all, "stream:all-hop-limits")
		// runs of k consecutive invalid messages (k beyond the retry budget), then a valid RS
		for k := 1; k <= 12; k++ {
			for _, typ := range []int{133, 134, 135, 136} {
				var s []scriptRead
				for j := 0; j < k; j++ {
					s = append(s, msg(typ, verifh.Pick(r, []int{0, 1, 64, 254}), 50+j))
				}
				s = append(s, msg(133, 255, 7), msg(typ, 255, 8))
				emit("run", mon, s, "stream:invalid-runs", fmt.Sprintf("k:%d", k))
			}
		}
		// long floods of invalid messages (far beyond any retry budget or internal bound), then a valid RS:
		// "can never disrupt service" has no limit on how many are ignored
		for _, k := range []int{100, 1025, 3000} {
			var s []scriptRead
			for j := 0; j < k; j++ {
				s = append(s, msg(verifh.Pick(r, []int{133, 134}), verifh.Pick(r, []int{0, 1, 64, 254}), 50+j)) // every message from another host
			}
			s = append(s, msg(133, 255, 7))
			emit("flood", mon, s, "stream:invalid-floods", fmt.Sprintf("k:%d", k))
		}
		// timeouts: 1..6 consecutive, with and without a message in between
		for k := 1; k <= 6; k++ {
			var s []scriptRead
			for j := 0; j < k; j++ {
				s = append(s, to)
			}
			emit("timeouts", mon, append(append([]scriptRead{msg(133, 255, 3)}, s...), msg(133, 255, 4)), "stream:timeouts")
			// 4 timeouts, an invalid message (resets), k more
			s2 := []scriptRead{to, to, to, to, msg(135, 1, 9)}
			s2 = append(s2, s...)
			emit("timeouts-reset", mon, append(s2, msg(133, 255, 5)), "stream:timeouts")
		}
		emit("fatal", mon, []scriptRead{msg(133, 255, 3), {Kind: "err"}, msg(133, 255, 4)}, "stream:fatal")
	}
	nr := 120
	if verifh.Thorough() {
		nr = 3000
	}
	for k := 0; k < nr; k++ {
		var s []scriptRead
		for j := r.Intn(40); j > 0; j-- {
			switch {
			case r.Chance(12):
				s = append(s, to)
			case r.Chance(2):
				s = append(s, scriptRead{Kind: "err"})
			default:
				hop := 255
				if r.Chance(45) {
					hop = verifh.Pick(r, []int{0, 1, 64, 128, 254, r.Intn(256)})
				}
				s = append(s, msg(133+r.Intn(4), hop, r.Intn(6)*r.Intn(2)+len(s)*0))
			}
		}
		// distinct sources for valid solicitations keep the expected answers a set
		for i := range s {
			if s[i].Kind == "msg" && s[i].Src != 0 {
				s[i].Src = 100 + i
			}
		}
		emit("rand", r.Chance(40), s, "stream:random")
	}
}
