//go:build verif && go1.25

package corerad

// C01 across re-initialisations: "what the configuration and the CURRENT system state call for".  A
// running Advertiser is re-dialled (link event) onto an interface that changed in between -- other
// hardware address, other index, as when an interface is re-created under its name -- and the RAs of the
// new incarnation must describe the new interface.  Real Advertiser.Run under virtual time.

import (
	"bytes"
	"fmt"
	"io"
	"log"
	"net"
	"net/netip"
	"strings"
	"testing"
	"testing/synctest"
	"time"

	"github.com/mdlayher/corerad/internal/config"
	"github.com/mdlayher/corerad/internal/netstate"
	"github.com/mdlayher/corerad/internal/system"
	"github.com/mdlayher/corerad/internal/verifh"
	"github.com/mdlayher/metricslite"
	"github.com/mdlayher/ndp"
)

func TestVerifC01Redial(t *testing.T) {
	out := verifh.Open()
	defer out.Close()
	macs := []net.HardwareAddr{{2, 0, 0, 0, 0, 0x0a}, {2, 0, 0, 0, 0, 0x0b}, nil, {2, 0, 0, 0, 0, 0x0d}}
	for _, names := range []bool{false, true} {
		id := fmt.Sprintf("c01redial-%v", names)
		if !out.Wants(id) {
			continue
		}
		var viol []string
		obs := map[string]any{}
		synctest.Test(t, func(t *testing.T) {
			doc := "[[interfaces]]\nname = \"v0\"\nadvertise = true\nmtu = 1500\n  [[interfaces.prefix]]\n  prefix = \"2001:db8:1::/64\"\n"
			if names {
				doc = strings.Replace(doc, "name = \"v0\"", "names = [\"v0\", \"v1\"]", 1)
			}
			cfg, err := config.Parse(strings.NewReader(doc), time.Unix(1_700_000_000, 5))
			if err != nil {
				viol = append(viol, "configuration refused: "+err.Error())
				return
			}
			st := newVState()
			st.forwarding["v0"] = true
			mm := NewMetrics(metricslite.NewMemory(), "test", time.Time{}, st, cfg.Interfaces)
			cctx := NewContext(log.New(io.Discard, "", 0), mm, st)
			var conns []*vConn
			d := system.NewDialer("v0", st, system.Advertise, nil)
			d.DialFunc = func() (*system.DialContext, error) {
				k := len(conns)
				c := newVConn()
				conns = append(conns, c)
				return &system.DialContext{Conn: c, Interface: &net.Interface{Name: "v0", Index: 3 + k, HardwareAddr: macs[k%len(macs)]},
					IP: netip.MustParseAddr("fe80::1")}, nil
			}
			watchC := make(chan netstate.Change, 8)
			a := NewAdvertiser(cctx, cfg.Interfaces[0], d, watchC, func() bool { return false })
			cancel, done := (&vAdvertiser{ad: a}).run()
			for k := 0; k < len(macs); k++ {
				time.Sleep(5 * time.Second)
				synctest.Wait()
				if len(conns) != k+1 {
					viol = append(viol, fmt.Sprintf("after %d link events there are %d connections", k, len(conns)))
					break
				}
				// a solicitation on the current connection, then look at every RA written on it
				conns[k].readC <- rs("fe80::77")
				time.Sleep(time.Second)
				synctest.Wait()
				ws := conns[k].snapshot()
				if len(ws) == 0 {
					viol = append(viol, fmt.Sprintf("incarnation %d sent nothing", k))
				}
				var seen []string
				for _, w := range ws {
					var lla []byte
					hasLLA := false
					for _, o := range w.RA.Options {
						if l, ok := o.(*ndp.LinkLayerAddress); ok {
							hasLLA, lla = true, l.Addr
						}
					}
					seen = append(seen, fmt.Sprintf("%v/%x", hasLLA, lla))
					if _, merr := ndp.MarshalMessage(w.RA); merr != nil {
						viol = append(viol, fmt.Sprintf("incarnation %d hands the socket an RA that cannot be encoded: %v", k, merr))
					}
					want := macs[k%len(macs)]
					switch {
					case want == nil && hasLLA:
						viol = append(viol, fmt.Sprintf("incarnation %d (interface without a hardware address) advertises source link-layer address %x", k, lla))
					case want != nil && (!hasLLA || !bytes.Equal(lla, want)):
						viol = append(viol, fmt.Sprintf("incarnation %d runs on an interface with hardware address %s but advertises %v/%x", k, want, hasLLA, lla))
					}
				}
				obs[fmt.Sprintf("incarnation-%d", k)] = seen
				if k+1 < len(macs) {
					watchC <- netstate.LinkDown
				}
			}
			cancel()
			<-done
		})
		out.Emit(verifh.Case{ID: id, Input: map[string]any{"kind": "redial", "names_group": names}, Observed: obs, Tags: []string{"stream:redial"}, ImplViolation: strings.Join(viol, "; ")})
	}
}
