//go:build verif

package corerad

// Rendering shared by the C12 and C18 drivers: ndp router advertisements as Gallina terms of
// Model.Types.ra, and small helpers to build them.

import (
	"fmt"
	"net/netip"
	"strings"
	"time"

	"github.com/mdlayher/corerad/internal/verifh"
	"github.com/mdlayher/ndp"
)

// v12Render renders NDP values; strings whose content the code never inspects are interned.
type v12Render struct{ in *verifh.Intern }

func newV12Render() *v12Render { return &v12Render{in: verifh.NewIntern()} }

func v12Pref(p ndp.Preference) string {
	switch p {
	case ndp.Low:
		return "Low"
	case ndp.High:
		return "High"
	default:
		return "Medium"
	}
}

// addr interns the 128-bit address (the zone is not part of a model address; where it matters
// -- the sender of a message -- it is rendered separately): the models only ever compare
// addresses for equality, and 128-bit literals are what makes Coq slow at reading a cases file.
func (v *v12Render) addr(a netip.Addr) string { return v.in.N("ip:" + a.WithZone("").String()) }

// dur renders a duration in ns as (dz seconds nanoseconds) -- two small literals.
func (v *v12Render) dur(d time.Duration) string {
	return fmt.Sprintf("(dz (%d) (%d))", int64(d)/1e9, int64(d)%1e9)
}

func (v *v12Render) addrs(as []netip.Addr) string {
	ss := make([]string, 0, len(as))
	for _, a := range as {
		ss = append(ss, v.addr(a))
	}
	return verifh.List(ss)
}

func (v *v12Render) opt(o ndp.Option) string {
	switch o := o.(type) {
	case *ndp.PrefixInformation:
		return verifh.App("OPrefix", verifh.N(uint64(o.PrefixLength)), verifh.B(o.OnLink),
			verifh.B(o.AutonomousAddressConfiguration), v.dur(o.ValidLifetime),
			v.dur(o.PreferredLifetime), v.addr(o.Prefix))
	case *ndp.RouteInformation:
		return verifh.App("ORoute", verifh.N(uint64(o.PrefixLength)), v12Pref(o.Preference),
			v.dur(o.RouteLifetime), v.addr(o.Prefix))
	case *ndp.RecursiveDNSServer:
		return verifh.App("ORDNSS", v.dur(o.Lifetime), v.addrs(o.Servers))
	case *ndp.DNSSearchList:
		ns := make([]string, 0, len(o.DomainNames))
		for _, n := range o.DomainNames {
			ns = append(ns, v.in.N("dn:"+n))
		}
		return verifh.App("ODNSSL", v.dur(o.Lifetime), verifh.List(ns))
	case *ndp.MTU:
		return verifh.App("OMTU", verifh.N(uint64(o.MTU)))
	case *ndp.LinkLayerAddress:
		if o.Direction != ndp.Source {
			return verifh.App("OOther", verifh.N(uint64(o.Code())))
		}
		bs := make([]string, 0, len(o.Addr))
		for _, b := range o.Addr {
			bs = append(bs, verifh.N(uint64(b)))
		}
		return verifh.App("OSLLA", verifh.List(bs))
	case *ndp.CaptivePortal:
		return verifh.App("OCaptive", v.in.N("uri:"+o.URI))
	case *ndp.PREF64:
		return verifh.App("OPref64", "false", v.addr(o.Prefix.Addr()), verifh.N(uint64(o.Prefix.Bits())),
			v.dur(o.Lifetime))
	default:
		return verifh.App("OOther", verifh.N(uint64(o.Code())))
	}
}

func (v *v12Render) ra(ra *ndp.RouterAdvertisement) string {
	os := make([]string, 0, len(ra.Options))
	for _, o := range ra.Options {
		os = append(os, v.opt(o))
	}
	return verifh.App("mkRA", verifh.N(uint64(ra.CurrentHopLimit)), verifh.B(ra.ManagedConfiguration),
		verifh.B(ra.OtherConfiguration), v12Pref(ra.RouterSelectionPreference),
		v.dur(ra.RouterLifetime), v.dur(ra.ReachableTime), v.dur(ra.RetransmitTimer),
		verifh.List(os))
}

// v12Summary is a short human-readable form of an RA for the evidence / replay files.
func v12Summary(ra *ndp.RouterAdvertisement) string {
	var sb strings.Builder
	fmt.Fprintf(&sb, "hop=%d M=%t O=%t prf=%s rlt=%s reach=%s retrans=%s", ra.CurrentHopLimit, ra.ManagedConfiguration,
		ra.OtherConfiguration, v12Pref(ra.RouterSelectionPreference), ra.RouterLifetime, ra.ReachableTime, ra.RetransmitTimer)
	for _, o := range ra.Options {
		switch o := o.(type) {
		case *ndp.PrefixInformation:
			fmt.Fprintf(&sb, " | prefix %s/%d L=%t A=%t valid=%s pref=%s", o.Prefix, o.PrefixLength, o.OnLink,
				o.AutonomousAddressConfiguration, o.ValidLifetime, o.PreferredLifetime)
		case *ndp.RouteInformation:
			fmt.Fprintf(&sb, " | route %s/%d %s lt=%s", o.Prefix, o.PrefixLength, v12Pref(o.Preference), o.RouteLifetime)
		case *ndp.RecursiveDNSServer:
			fmt.Fprintf(&sb, " | rdnss lt=%s %v", o.Lifetime, o.Servers)
		case *ndp.DNSSearchList:
			fmt.Fprintf(&sb, " | dnssl lt=%s %v", o.Lifetime, o.DomainNames)
		case *ndp.MTU:
			fmt.Fprintf(&sb, " | mtu %d", o.MTU)
		case *ndp.CaptivePortal:
			fmt.Fprintf(&sb, " | captive %s", o.URI)
		default:
			fmt.Fprintf(&sb, " | opt%d", o.Code())
		}
	}
	return sb.String()
}

// v12Wire passes a message through the real codec: what a peer's message looks like once it
// has been received.
func v12Wire(m ndp.Message) (ndp.Message, error) {
	b, err := ndp.MarshalMessage(m)
	if err != nil {
		return nil, err
	}
	return ndp.ParseMessage(b)
}

func v12WireRA(ra *ndp.RouterAdvertisement) (*ndp.RouterAdvertisement, error) {
	m, err := v12Wire(ra)
	if err != nil {
		return nil, err
	}
	out, ok := m.(*ndp.RouterAdvertisement)
	if !ok {
		return nil, fmt.Errorf("decoded %T", m)
	}
	return out, nil
}

// v12Other produces options CoreRAD does not inspect when verifying / monitoring.
func v12Other(r *verifh.Rand) ndp.Option {
	switch r.Intn(5) {
	case 0:
		return &ndp.RawOption{Type: uint8(200 + r.Intn(50)), Length: 1, Value: make([]byte, 6)}
	case 1:
		return &ndp.LinkLayerAddress{Direction: ndp.Source, Addr: []byte{0xde, 0xad, 0xbe, 0xef, 0xde, byte(r.Intn(256))}}
	case 2:
		return &ndp.PREF64{Lifetime: time.Duration(8*r.Intn(100)) * time.Second, Prefix: netip.MustParsePrefix("64:ff9b::/96")}
	case 3:
		return &ndp.RAFlagsExtension{Flags: ndp.RAFlags{0x80, 0, 0, 0, 0, 0}}
	default:
		return &ndp.LinkLayerAddress{Direction: ndp.Target, Addr: []byte{2, 0, 0, 0, 0, byte(r.Intn(256))}}
	}
}
