//go:build verif && go1.25

package corerad

import (
	"testing"
	"testing/synctest"
	"time"

	"github.com/mdlayher/corerad/internal/config"
	"github.com/mdlayher/corerad/internal/plugin"
)

func TestVerifProbe(t *testing.T) {
	synctest.Test(t, func(t *testing.T) {
		cfg := config.Interface{Name: "v0", Advertise: true, MinInterval: 1800 * time.Second, MaxInterval: 1800 * time.Second,
			HopLimit: 64, DefaultLifetime: 12 * time.Second, Plugins: []plugin.Plugin{&plugin.LLA{}}}
		v := newVAdvertiser(cfg, func() bool { return true })
		cancel, done := v.run()
		time.Sleep(3 * time.Second)
		v.conn.readC <- rs("::")
		time.Sleep(30 * time.Second)
		cancel()
		err := <-done
		synctest.Wait()
		for _, w := range v.conn.snapshot() {
			t.Logf("%8.3f-%8.3f %s rlt=%s", float64(w.Begin)/1e9, float64(w.End)/1e9, w.Dst, w.RA.RouterLifetime)
		}
		t.Logf("run returned %v at %.3f", err, float64(vNow())/1e9)
	})
}
