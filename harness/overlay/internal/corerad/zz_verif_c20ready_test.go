//go:build verif && go1.25

package corerad

// C20, readiness of the real tasks: "Overall readiness is announced only after every task has
// reported ready" is only worth something if a task reports ready when it is -- an Advertiser after
// its first complete initialisation (plugins prepared, initial multicast RA on the wire), never before
// and never for an initialisation that failed.  The supervision itself (Serve) is the scripted driver
// TestVerifC20; here the real Advertiser is run on a fake connection under virtual time.

import (
	"fmt"
	"os"
	"syscall"
	"testing"
	"testing/synctest"
	"time"

	"github.com/mdlayher/corerad/internal/config"
	"github.com/mdlayher/corerad/internal/verifh"
)

func c20IsReady(a *Advertiser) bool {
	select {
	case <-a.Ready():
		return true
	default:
		return false
	}
}

func TestVerifC20Ready(t *testing.T) {
	out := verifh.Open()
	defer out.Close()

	type scenario struct {
		name      string
		firstFail error // result of the initial multicast RA's WriteTo
	}
	scenarios := []scenario{
		{"ok", nil},
		{"initial-send-eperm", &os.SyscallError{Syscall: "sendmsg", Err: syscall.EPERM}},
		{"initial-send-other", errInjected},
	}
	for _, sc := range scenarios {
		id := "c20ready-" + sc.name
		if !out.Wants(id) {
			continue
		}
		var viol string
		var obs map[string]any
		func() {
			defer func() {
				if r := recover(); r != nil && viol == "" {
					viol = fmt.Sprintf("panic: %v", r)
				}
			}()
			synctest.Test(t, func(t *testing.T) {
				cfg := config.Interface{Name: "v0", Advertise: true, MinInterval: 4 * time.Second, MaxInterval: 8 * time.Second,
					HopLimit: 64, DefaultLifetime: 1800 * time.Second}
				v := newVAdvertiser(cfg, func() bool { return false })
				readyAtFirstWrite, writes := false, 0
				v.conn.onWrite = func(w *vWrite) error {
					writes++
					if writes == 1 {
						// the initial RA is being written: the task must not have reported ready yet
						readyAtFirstWrite = c20IsReady(v.ad)
						time.Sleep(time.Millisecond) // the write takes a moment
						if c20IsReady(v.ad) {
							readyAtFirstWrite = true
						}
						return sc.firstFail
					}
					return nil
				}
				readyBeforeRun := c20IsReady(v.ad)
				cancel, done := v.run()
				time.Sleep(2 * time.Second)
				synctest.Wait()
				readyAfter := c20IsReady(v.ad)
				var runErr error
				returned := false
				select {
				case runErr = <-done:
					returned = true
				default:
				}
				cancel()
				if !returned {
					runErr = <-done
				}
				obs = map[string]any{"ready_before_run": readyBeforeRun, "ready_during_initial_write": readyAtFirstWrite,
					"ready_after_2s": readyAfter, "returned_by_itself": returned, "error": fmt.Sprint(runErr), "writes": writes}
				switch {
				case readyBeforeRun:
					viol = "the advertiser reports ready before Run was called"
				case readyAtFirstWrite:
					viol = "the advertiser reports ready while its initial router advertisement is still being written"
				case sc.firstFail == nil && !readyAfter:
					viol = "the advertiser never reported ready although its initialisation completed"
				case sc.firstFail != nil && readyAfter && returned:
					viol = fmt.Sprintf("the advertiser reported ready although its only initialisation failed (Run returned %v)", runErr)
				}
			})
		}()
		out.Emit(verifh.Case{ID: id, Input: map[string]any{"scenario": sc.name}, Observed: obs, Tags: []string{"ready:" + sc.name}, ImplViolation: viol})
	}
}
