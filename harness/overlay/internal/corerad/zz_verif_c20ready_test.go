//go:build verif && go1.25

package corerad

// C20, readiness of the real tasks: "Overall readiness is announced only after every task has
// reported ready" is only worth something if a task reports ready when it is -- an Advertiser after
// its first complete initialisation (plugins prepared, initial multicast RA on the wire), never before
// and never for an initialisation that failed.  The supervision itself (Serve) is the scripted driver
// TestVerifC20; here the real Advertiser is run on a fake connection under virtual time.

import (
	"context"
	"errors"
	"fmt"
	"io"
	"log"
	"net"
	"net/http"
	"net/netip"
	"os"
	"strings"
	"syscall"
	"testing"
	"testing/synctest"
	"time"

	"github.com/mdlayher/corerad/internal/config"
	"github.com/mdlayher/corerad/internal/plugin"
	"github.com/mdlayher/corerad/internal/system"
	"github.com/mdlayher/corerad/internal/verifh"
	"github.com/mdlayher/metricslite"
	"github.com/mdlayher/ndp"
)

// c20FailPlugin is a plugin whose Prepare fails (e.g. the interface vanished between dial and Prepare).
type c20FailPlugin struct{ plugin.MTU }

func (*c20FailPlugin) Prepare(*net.Interface) error         { return errors.New("verif: prepare failed") }
func (*c20FailPlugin) Apply(*ndp.RouterAdvertisement) error { return nil }

func c20IsReady(a *Advertiser) bool {
	select {
	case <-a.Ready():
		return true
	default:
		return false
	}
}

func TestVerifC20Ready(t *testing.T) {
	out := verifh.Open()
	defer out.Close()

	type scenario struct {
		name        string
		firstFail   error // result of the initial multicast RA's WriteTo
		prepareFail bool  // a plugin's Prepare fails
	}
	scenarios := []scenario{
		{"ok", nil, false},
		{"initial-send-eperm", &os.SyscallError{Syscall: "sendmsg", Err: syscall.EPERM}, false},
		{"initial-send-other", errInjected, false},
		{"prepare-fails", nil, true},
	}
	for _, sc := range scenarios {
		id := "c20ready-" + sc.name
		if !out.Wants(id) {
			continue
		}
		var viol string
		var obs map[string]any
		func() {
			defer func() {
				if r := recover(); r != nil && viol == "" {
					viol = fmt.Sprintf("panic: %v", r)
				}
			}()
			synctest.Test(t, func(t *testing.T) {
				cfg := config.Interface{Name: "v0", Advertise: true, MinInterval: 4 * time.Second, MaxInterval: 8 * time.Second,
					HopLimit: 64, DefaultLifetime: 1800 * time.Second}
				if sc.prepareFail {
					cfg.Plugins = []plugin.Plugin{&c20FailPlugin{}}
				}
				v := newVAdvertiser(cfg, func() bool { return false })
				readyAtFirstWrite, writes := false, 0
				v.conn.onWrite = func(w *vWrite) error {
					writes++
					if writes == 1 {
						// the initial RA is being written: the task must not have reported ready yet
						readyAtFirstWrite = c20IsReady(v.ad)
						time.Sleep(time.Millisecond) // the write takes a moment
						if c20IsReady(v.ad) {
							readyAtFirstWrite = true
						}
						return sc.firstFail
					}
					return nil
				}
				readyBeforeRun := c20IsReady(v.ad)
				cancel, done := v.run()
				time.Sleep(2 * time.Second)
				synctest.Wait()
				readyAfter := c20IsReady(v.ad)
				var runErr error
				returned := false
				select {
				case runErr = <-done:
					returned = true
				default:
				}
				cancel()
				if !returned {
					runErr = <-done
				}
				obs = map[string]any{"ready_before_run": readyBeforeRun, "ready_during_initial_write": readyAtFirstWrite,
					"ready_after_2s": readyAfter, "returned_by_itself": returned, "error": fmt.Sprint(runErr), "writes": writes}
				switch {
				case readyBeforeRun:
					viol = "the advertiser reports ready before Run was called"
				case readyAtFirstWrite:
					viol = "the advertiser reports ready while its initial router advertisement is still being written"
				case sc.prepareFail && (readyAfter || writes != 0 || !returned || runErr == nil):
					viol = fmt.Sprintf("a plugin's Prepare failed: the advertiser must not become ready nor transmit and Run must return the error (ready=%v writes=%d returned=%v err=%v)", readyAfter, writes, returned, runErr)
				case sc.prepareFail:
				case sc.firstFail == nil && !readyAfter:
					viol = "the advertiser never reported ready although its initialisation completed"
				case sc.firstFail != nil && readyAfter && returned:
					viol = fmt.Sprintf("the advertiser reported ready although its only initialisation failed (Run returned %v)", runErr)
				}
			})
		}()
		out.Emit(verifh.Case{ID: id, Input: map[string]any{"scenario": sc.name}, Observed: obs, Tags: []string{"ready:" + sc.name}, ImplViolation: viol})
	}

	// ---- the real Monitor: ready as soon as its first connection exists, not before Run
	if out.Wants("c20ready-monitor") {
		var viol string
		var obs map[string]any
		synctest.Test(t, func(t *testing.T) {
			st := newVState()
			mm := NewMetrics(metricslite.NewMemory(), "test", time.Time{}, st, nil)
			cctx := NewContext(log.New(io.Discard, "", 0), mm, st)
			conn := newVConn()
			dials := 0
			d := system.NewDialer("v0", st, system.Monitor, nil)
			d.DialFunc = func() (*system.DialContext, error) {
				dials++
				if dials <= 2 {
					// the retry right after the first failure has no delay; the next one waits 250 ms
					return nil, fmt.Errorf("not yet: %w", system.ErrLinkNotReady)
				}
				return &system.DialContext{Conn: conn, Interface: &net.Interface{Name: "v0", HardwareAddr: vMAC}, IP: netip.MustParseAddr("fe80::1")}, nil
			}
			m := NewMonitor(cctx, "v0", d, nil, false)
			isReady := func() bool {
				select {
				case <-m.Ready():
					return true
				default:
					return false
				}
			}
			before := isReady()
			ctx, cancel := context.WithCancel(context.Background())
			done := make(chan error, 1)
			go func() { done <- m.Run(ctx) }()
			synctest.Wait()
			afterFailedDial := isReady() // two dials failed (link not ready): waiting in the back-off
			time.Sleep(2 * time.Second)
			synctest.Wait()
			after := isReady()
			cancel()
			err := <-done
			obs = map[string]any{"before_run": before, "after_failed_dial": afterFailedDial, "after_redial": after, "dials": dials, "error": fmt.Sprint(err)}
			switch {
			case before || afterFailedDial:
				viol = "the monitor reports ready before it has a connection"
			case !after:
				viol = "the monitor never reported ready although its third dial succeeded"
			case err != nil:
				viol = fmt.Sprintf("cancelled monitor returned %v", err)
			}
		})
		out.Emit(verifh.Case{ID: "c20ready-monitor", Input: map[string]any{"scenario": "monitor"}, Observed: obs, Tags: []string{"ready:monitor"}, ImplViolation: viol})
	}

	// ---- the real debug HTTP task and link watcher task as BuildTasks creates them (real time, real TCP)
	if out.Wants("c20ready-http") {
		srv := NewServer(NewContext(log.New(io.Discard, "", 0), nil, nil))
		cfg := config.Config{}
		cfg.Debug.Address = c20FreeAddr()
		var ht *httpTask
		entered := make(chan struct{}, 1)
		release := make(chan struct{})
		slow := http.HandlerFunc(func(w http.ResponseWriter, r *http.Request) {
			// a request that is still being handled when the server is told to stop (a long pprof trace, a
			// stalled scraper): it must not keep the task -- and with it Serve -- from returning
			select {
			case entered <- struct{}{}:
			default:
			}
			<-release
		})
		for _, task := range srv.BuildTasks(cfg, slow) {
			if x, ok := task.(*httpTask); ok {
				ht = x
			}
		}
		var viol string
		obs := map[string]any{}
		if ht == nil {
			viol = "BuildTasks created no debug HTTP task for a configured address"
		} else {
			readyBefore := false
			select {
			case <-ht.Ready():
				readyBefore = true
			default:
			}
			ctx, cancel := context.WithCancel(context.Background())
			done := make(chan error, 1)
			go func() { done <- ht.Run(ctx) }()
			becameReady := false
			select {
			case <-ht.Ready():
				becameReady = true
			case <-time.After(5 * time.Second):
			}
			inFlight := false
			if becameReady {
				// the task listens on an ephemeral port we cannot learn from outside: find it through the process's
				// own listening sockets is overkill -- listen on a fixed free port instead when this one is unknown
				if addr := c20ListenAddr(); addr != "" {
					go func() {
						resp, err := http.Get("http://" + addr + "/slow")
						if err == nil {
							resp.Body.Close()
						}
					}()
					select {
					case <-entered:
						inFlight = true
					case <-time.After(3 * time.Second):
					}
				}
			}
			obs["request_in_flight_at_cancel"] = inFlight
			cancel()
			var err error
			returned := false
			select {
			case err = <-done:
				returned = true
			case <-time.After(5 * time.Second):
			}
			close(release)
			obs["ready_before_run"], obs["became_ready"], obs["returned"], obs["error"] = readyBefore, becameReady, returned, fmt.Sprint(err)
			switch {
			case readyBefore:
				viol = "the debug HTTP task reports ready before it listens"
			case !becameReady:
				viol = "the debug HTTP task never reported ready on a free local port"
			case !returned:
				viol = "the debug HTTP task did not return within 5 s of the cancellation"
			case err != nil:
				viol = fmt.Sprintf("the cancelled debug HTTP task returned %v", err)
			}
		}
		out.Emit(verifh.Case{ID: "c20ready-http", Input: map[string]any{"scenario": "http"}, Observed: obs, Tags: []string{"ready:http"}, ImplViolation: viol})
	}
	// ---- a request that takes its time (sysctl reads and netlink dumps of many interfaces, a stalled /proc): the answer is
	// delivered when it is ready, the connection is not cut under it
	if out.Wants("c20ready-http-slow-handler") {
		var viol string
		obs := map[string]any{}
		srv := NewServer(NewContext(log.New(io.Discard, "", 0), nil, nil))
		cfg := config.Config{}
		cfg.Debug.Address = c20FreeAddr()
		var ht *httpTask
		slow := http.HandlerFunc(func(w http.ResponseWriter, r *http.Request) {
			time.Sleep(6200 * time.Millisecond)
			_, _ = io.WriteString(w, "the answer, computed slowly\n")
		})
		for _, task := range srv.BuildTasks(cfg, slow) {
			if x, ok := task.(*httpTask); ok {
				ht = x
			}
		}
		if ht != nil && c20ListenAddr() != "" {
			ctx, cancel := context.WithCancel(context.Background())
			done := make(chan error, 1)
			go func() { done <- ht.Run(ctx) }()
			select {
			case <-ht.Ready():
				resC := make(chan string, 1)
				go func() {
					cl := &http.Client{Timeout: 12 * time.Second}
					resp, err := cl.Get("http://" + c20ListenAddr() + "/metrics")
					if err != nil {
						resC <- "error: " + err.Error()
						return
					}
					b, _ := io.ReadAll(resp.Body)
					resp.Body.Close()
					resC <- fmt.Sprintf("%d %s", resp.StatusCode, strings.TrimSpace(string(b)))
				}()
				got := <-resC
				obs["slow_request"] = got
				if got != "200 the answer, computed slowly" {
					viol = "a debug request whose handler took 6.2 s was answered with [" + got + "], want the complete answer"
				}
			case <-time.After(5 * time.Second):
				obs["unavailable"] = "the debug task did not become ready"
			}
			cancel()
			select {
			case <-done:
			case <-time.After(5 * time.Second):
			}
		}
		out.Emit(verifh.Case{ID: "c20ready-http-slow-handler", Input: map[string]any{"scenario": "http-slow-handler"}, Observed: obs, Tags: []string{"ready:http-slow"}, ImplViolation: viol})
	}

	// ---- the debug address is still held by someone else when the task starts (the previous instance during a restart
	// overlap -- what the retry loop exists for): not ready while it cannot listen, ready once it does
	if out.Wants("c20ready-http-busy") {
		var viol string
		obs := map[string]any{}
		holder, herr := net.Listen("tcp", "127.0.0.1:0")
		if herr != nil {
			obs["unavailable"] = herr.Error()
		} else {
			srv := NewServer(NewContext(log.New(io.Discard, "", 0), nil, nil))
			cfg := config.Config{}
			cfg.Debug.Address = holder.Addr().String()
			var ht *httpTask
			for _, task := range srv.BuildTasks(cfg, http.NotFoundHandler()) {
				if x, ok := task.(*httpTask); ok {
					ht = x
				}
			}
			if ht == nil {
				viol = "BuildTasks created no debug HTTP task for a configured address"
			} else {
				ctx, cancel := context.WithCancel(context.Background())
				done := make(chan error, 1)
				go func() { done <- ht.Run(ctx) }()
				early := false
				select {
				case <-ht.Ready():
					early = true
				case err := <-done:
					viol = fmt.Sprintf("the debug HTTP task gave up at the first failed attempt: %v", err)
				case <-time.After(1500 * time.Millisecond):
				}
				holder.Close()
				late := false
				if viol == "" {
					select {
					case <-ht.Ready():
						late = true
					case <-time.After(8 * time.Second): // the next attempt is due 3 s after the first
					}
				}
				cancel()
				returned := false
				if viol == "" {
					select {
					case <-done:
						returned = true
					case <-time.After(5 * time.Second):
					}
				}
				obs["ready_while_address_in_use"], obs["ready_after_release"], obs["returned"] = early, late, returned
				switch {
				case viol != "":
				case early:
					viol = "the debug HTTP task reports ready while its address is in use by another socket (it is not listening)"
				case !late:
					viol = "the debug HTTP task never reported ready after its address became free"
				case !returned:
					viol = "the debug HTTP task did not return within 5 s of the cancellation"
				}
			}
			holder.Close()
		}
		out.Emit(verifh.Case{ID: "c20ready-http-busy", Input: map[string]any{"scenario": "http-address-in-use"}, Observed: obs, Tags: []string{"ready:http-busy"}, ImplViolation: viol})
	}
	for k, werr := range []error{nil, fmt.Errorf("netstate: not supported: %w", os.ErrNotExist), errors.New("netlink: boom")} {
		id := fmt.Sprintf("c20ready-watcher-%d", k)
		if !out.Wants(id) {
			continue
		}
		wt := &watcherTask{watch: func(ctx context.Context) error {
			if werr != nil {
				return werr
			}
			<-ctx.Done()
			return nil
		}, ll: log.New(io.Discard, "", 0)}
		ctx, cancel := context.WithCancel(context.Background())
		done := make(chan error, 1)
		go func() { done <- wt.Run(ctx) }()
		ready := false
		select {
		case <-wt.Ready():
			ready = true
		case <-time.After(time.Second):
		}
		if werr == nil {
			cancel()
		}
		err := <-done
		cancel()
		var viol string
		switch {
		case !ready:
			viol = "the link watcher task does not report ready"
		case k <= 1 && err != nil:
			viol = fmt.Sprintf("watcher task: a clean end / an unsupported platform must not be an error, got %v", err)
		case k == 2 && err == nil:
			viol = "watcher task: a failing watch must be reported"
		}
		out.Emit(verifh.Case{ID: id, Input: map[string]any{"scenario": "watcher", "watch_error": fmt.Sprint(werr)}, Observed: fmt.Sprint(err), Tags: []string{"ready:watcher"}, ImplViolation: viol})
	}
}

var c20Addr string

// c20FreeAddr reserves a free loopback TCP port (listen, read the port, close) for the debug server.
func c20FreeAddr() string {
	l, err := net.Listen("tcp", "127.0.0.1:0")
	if err != nil {
		c20Addr = ""
		return "127.0.0.1:0"
	}
	c20Addr = l.Addr().String()
	l.Close()
	return c20Addr
}

func c20ListenAddr() string { return c20Addr }
