//go:build verif

package corerad

// TestVerifC01Handle -- C01's last clause on the path the package config cannot reach: "building the RA again
// yields an identical RA and never alters the configuration", where the rebuild is the one Advertiser.handle makes
// for the RFC 4861 6.2.7 consistency check when ANOTHER router's advertisement is received.  The options of the own
// RA may share memory with the configuration (DNSSL names, RDNSS servers ...): whatever the check does with the
// two RAs, the parsed configuration and every later RA must stay what they were.
//
// Implementation-only stream: one real Advertiser on a parsed configuration (static stanzas with multi-valued
// lists that are NOT in lexical / numeric order; 30% interface groups `names = [...]`, whose members share the
// decoded slices) receives 1..4 peer RAs derived from the wire image of its own RA -- identical, lists permuted
// (same option and element counts, so element-wise comparisons are reached), one element replaced, lifetimes
// changed, options shuffled / dropped / duplicated, an unrelated RA.  A deep, by-content dump of ALL interfaces of
// the configuration is taken before the first reception and compared after every reception; the own RA is rebuilt
// after every reception and compared with the first one.

import (
	"fmt"
	"net"
	"net/netip"
	"reflect"
	"sort"
	"strings"
	"testing"
	"time"

	"github.com/mdlayher/corerad/internal/config"
	"github.com/mdlayher/corerad/internal/system"
	"github.com/mdlayher/corerad/internal/verifh"
	"github.com/mdlayher/ndp"
)

var (
	c01hNames = []string{"zeta.example.net", "alpha.example.com", "mid.example.org", "lan.example.com", "beta.example.net",
		"corp.example.org", "a.example", "z.example", "MiXed.Example.ORG", "Zulu.example.net"}
	c01hServers = []string{"2001:db8::ffff", "2001:db8::1", "fd00::53", "2001:db8:0:1::53", "fe80::53", "2001:4860:4860::8888", "2001:db8::a"}
)

// c01hList draws k distinct elements in an order that is not ascending (for k >= 2).
func c01hList(r *verifh.Rand, pool []string, k int) []string {
	xs := append([]string(nil), pool...)
	verifh.Shuffle(r, xs)
	xs = xs[:k]
	if k >= 2 && sort.StringsAreSorted(xs) {
		xs[0], xs[k-1] = xs[k-1], xs[0]
	}
	return xs
}

func c01hQuote(xs []string) string {
	qs := make([]string, len(xs))
	for i, x := range xs {
		qs[i] = fmt.Sprintf("%q", x)
	}
	return "[" + strings.Join(qs, ", ") + "]"
}

func c01hConfig(r *verifh.Rand) (string, []string) {
	var sb strings.Builder
	var tags []string
	if r.Chance(30) {
		sb.WriteString("[[interfaces]]\nnames = [\"eth3\", \"eth4\", \"eth5\"]\nadvertise = true\n")
		tags = append(tags, "interfaces:group-of-3")
	} else {
		sb.WriteString("[[interfaces]]\nname = \"eth3\"\nadvertise = true\n")
		tags = append(tags, "interfaces:1")
	}
	fmt.Fprintf(&sb, "max_interval = \"%ds\"\nmanaged = %t\nother_config = %t\nhop_limit = %d\n", 4+r.Intn(1796), r.Bool(), r.Bool(), r.Intn(256))
	if r.Chance(50) {
		fmt.Fprintf(&sb, "reachable_time = \"%dms\"\nretransmit_timer = \"%dms\"\n", r.Intn(3600000), r.Intn(3600000))
	}
	if r.Chance(50) {
		sb.WriteString("source_lla = true\n")
	}
	if r.Chance(40) {
		fmt.Fprintf(&sb, "mtu = %d\n", 1280+r.Intn(7000))
	}
	if r.Chance(30) {
		sb.WriteString("captive_portal = \"https://portal.example.com/api\"\n")
	}
	// stanzas in an order that is not ascending by prefix either
	for _, p := range c01hList(r, []string{"2001:db8:30::/64", "2001:db8:10::/64", "fd00:20::/64", "2001:db8:5::/64"}, r.Intn(4)) {
		valid := 100 + r.Intn(100000)
		fmt.Fprintf(&sb, "  [[interfaces.prefix]]\n  prefix = %q\n  valid_lifetime = \"%ds\"\n  preferred_lifetime = \"%ds\"\n", p, valid, 1+r.Intn(valid))
	}
	for _, p := range c01hList(r, []string{"fd00:ffff::/32", "2001:db8:ffff::/48", "2001:db8:ee00::/40"}, r.Intn(4)) {
		fmt.Fprintf(&sb, "  [[interfaces.route]]\n  prefix = %q\n  preference = %q\n  lifetime = \"%ds\"\n", p,
			verifh.Pick(r, []string{"low", "medium", "high"}), 1+r.Intn(100000))
	}
	nr, nd := r.Intn(3), 1+r.Intn(2)
	if r.Chance(15) {
		nd = 0
	}
	for k := 0; k < nr; k++ {
		fmt.Fprintf(&sb, "  [[interfaces.rdnss]]\n  servers = %s\n  lifetime = \"%ds\"\n", c01hQuote(c01hList(r, c01hServers, 2+r.Intn(3))), 1+r.Intn(100000))
	}
	for k := 0; k < nd; k++ {
		fmt.Fprintf(&sb, "  [[interfaces.dnssl]]\n  domain_names = %s\n  lifetime = \"%ds\"\n", c01hQuote(c01hList(r, c01hNames, 2+r.Intn(4))), 1+r.Intn(100000))
	}
	if r.Chance(30) {
		sb.WriteString("  [[interfaces.pref64]]\n")
	}
	tags = append(tags, fmt.Sprintf("rdnss:%d", nr), fmt.Sprintf("dnssl:%d", nd))
	return sb.String(), tags
}

// c01hPeer derives another router's RA from the wire image of the own RA (a fresh decode: no memory shared
// with the own RA or the configuration).
func c01hPeer(r *verifh.Rand, ours *ndp.RouterAdvertisement) (*ndp.RouterAdvertisement, string, error) {
	peer, err := v12WireRA(ours)
	if err != nil {
		return nil, "", err
	}
	kind := verifh.Pick(r, []string{"identical", "lists-permuted", "lists-permuted", "lists-permuted", "element-replaced", "lifetimes-changed",
		"options-shuffled", "option-dropped", "option-duplicated", "unrelated"})
	switch kind {
	case "lists-permuted":
		// same option counts, same element counts, same SET of elements, another order
		for _, o := range peer.Options {
			switch o := o.(type) {
			case *ndp.DNSSearchList:
				if r.Chance(50) {
					sort.Strings(o.DomainNames) // lexical order, which the configured order is not
				} else {
					verifh.Shuffle(r, o.DomainNames)
				}
			case *ndp.RecursiveDNSServer:
				if r.Chance(50) {
					sort.Slice(o.Servers, func(i, j int) bool { return o.Servers[i].Less(o.Servers[j]) })
				} else {
					verifh.Shuffle(r, o.Servers)
				}
			}
		}
	case "element-replaced":
		for _, o := range peer.Options {
			switch o := o.(type) {
			case *ndp.DNSSearchList:
				o.DomainNames[r.Intn(len(o.DomainNames))] = "aaa.other.example"
			case *ndp.RecursiveDNSServer:
				o.Servers[r.Intn(len(o.Servers))] = netip.MustParseAddr("2001:db8::2")
			}
		}
	case "lifetimes-changed":
		for _, o := range peer.Options {
			switch o := o.(type) {
			case *ndp.DNSSearchList:
				o.Lifetime += time.Second
			case *ndp.RecursiveDNSServer:
				o.Lifetime += time.Second
			case *ndp.PrefixInformation:
				o.ValidLifetime += time.Second
			case *ndp.RouteInformation:
				o.RouteLifetime += time.Second
			}
		}
		peer.ManagedConfiguration = !peer.ManagedConfiguration
	case "options-shuffled":
		verifh.Shuffle(r, peer.Options)
	case "option-dropped":
		if n := len(peer.Options); n > 0 {
			i := r.Intn(n)
			peer.Options = append(peer.Options[:i:i], peer.Options[i+1:]...)
		}
	case "option-duplicated":
		if n := len(peer.Options); n > 0 {
			peer.Options = append(peer.Options, peer.Options[r.Intn(n)])
		}
	case "unrelated":
		peer = &ndp.RouterAdvertisement{CurrentHopLimit: 64, RouterLifetime: 30 * time.Minute, Options: []ndp.Option{
			&ndp.DNSSearchList{Lifetime: time.Hour, DomainNames: []string{"z.example", "a.example"}},
			&ndp.RecursiveDNSServer{Lifetime: time.Hour, Servers: []netip.Addr{netip.MustParseAddr("2001:db8::9"), netip.MustParseAddr("2001:db8::1")}},
		}}
	}
	// what is received is what the codec decodes
	peer, err = v12WireRA(peer)
	return peer, kind, err
}

func TestVerifC01Handle(t *testing.T) {
	out := verifh.Open()
	defer out.Close()
	n := 400
	if verifh.Thorough() {
		n = 8000
	}
	for c := 0; c < n; c++ {
		id := fmt.Sprintf("c01-handle-%d", c)
		if !out.Wants(id) {
			continue
		}
		r := verifh.NewRand(verifh.Seed(), id)
		toml, tags := c01hConfig(r)
		cfg, err := config.Parse(strings.NewReader(toml), time.Unix(1700000000, 0))
		if err != nil {
			t.Fatalf("%s: generated configuration rejected: %v\n%s", id, err, toml)
		}
		for _, ifi := range cfg.Interfaces {
			for _, p := range ifi.Plugins {
				if err := p.Prepare(&net.Interface{Name: ifi.Name, HardwareAddr: net.HardwareAddr{2, 0, 0, 0, 0, 1}}); err != nil {
					t.Fatalf("%s: prepare: %v", id, err)
				}
			}
		}
		ifi := cfg.Interfaces[r.Intn(len(cfg.Interfaces))]
		snapshot := verifh.DeepDump(cfg.Interfaces)
		first := make([]*ndp.RouterAdvertisement, len(cfg.Interfaces))
		for k, x := range cfg.Interfaces {
			if first[k], _, err = x.RouterAdvertisement(true); err != nil {
				t.Fatalf("%s: own RA: %v", id, err)
			}
		}
		// the reference copy of every own RA shares nothing with the configuration
		ref := make([]string, len(first))
		for k, ra := range first {
			ref[k] = verifh.DeepDump(ra)
		}
		if d := verifh.DeepDiff(snapshot, verifh.DeepDump(cfg.Interfaces)); d != "" {
			out.Emit(verifh.Case{ID: id, Tags: tags, Input: map[string]any{"config": toml},
				ImplViolation: "building the RA altered the configuration: " + d})
			continue
		}

		h := newV12Harness(ifi, system.TestState{Forwarding: true})
		var (
			peers     []string
			violation string
			reported  []int
		)
		for k := 1 + r.Intn(4); k > 0 && violation == ""; k-- {
			ours, _, err := ifi.RouterAdvertisement(true)
			if err != nil {
				t.Fatalf("%s: own RA: %v", id, err)
			}
			peer, kind, err := c01hPeer(r, ours)
			if err != nil {
				t.Fatalf("%s: peer RA: %v", id, err)
			}
			peers = append(peers, kind+": "+v12Summary(peer))
			tags = append(tags, "peer:"+kind)
			o, _, err := h.deliver(peer)
			if err != nil {
				violation = fmt.Sprintf("Advertiser.handle failed on a %s peer RA: %v", kind, err)
				break
			}
			reported = append(reported, len(o.reported))
			if d := verifh.DeepDiff(snapshot, verifh.DeepDump(cfg.Interfaces)); d != "" {
				violation = fmt.Sprintf("receiving a peer RA (%s) altered the configuration: %s", kind, d)
				break
			}
			for j, x := range cfg.Interfaces {
				again, _, err := x.RouterAdvertisement(true)
				if err != nil {
					violation = fmt.Sprintf("after a peer RA (%s) the RA of %s no longer builds: %v", kind, x.Name, err)
				} else if !reflect.DeepEqual(again, first[j]) || verifh.DeepDump(again) != ref[j] {
					violation = fmt.Sprintf("after a peer RA (%s) the RA of %s differs from the one built before: %s", kind, x.Name,
						verifh.DeepDiff(ref[j], verifh.DeepDump(again)))
				}
			}
		}
		sort.Strings(tags)
		out.Emit(verifh.Case{ID: id, Tags: tags, ImplViolation: violation,
			Input:    map[string]any{"config": toml, "receiving": ifi.Name, "peers": peers, "plugins": len(ifi.Plugins)},
			Observed: map[string]any{"problems_reported_per_reception": reported, "configuration_unchanged": violation == ""}})
	}
}
