//go:build verif && go1.25

package corerad

// Shared fakes for the verification drivers that run the real Advertiser / Monitor / listener
// inside testing/synctest bubbles (virtual time).

import (
	"context"
	"errors"
	"io"
	"log"
	"net"
	"net/netip"
	"sync"
	"sync/atomic"
	"time"

	"github.com/mdlayher/corerad/internal/config"
	"github.com/mdlayher/corerad/internal/netstate"
	"github.com/mdlayher/corerad/internal/system"
	"github.com/mdlayher/metricslite"
	"github.com/mdlayher/ndp"
	"golang.org/x/net/ipv6"
)

// vEpoch is the instant at which every synctest bubble's clock starts.
var vEpoch = time.Date(2000, 1, 1, 0, 0, 0, 0, time.UTC)

// vNow is the virtual time in ns since the start of the bubble.
func vNow() int64 { return int64(time.Since(vEpoch)) }

type vTimeout struct{}

func (vTimeout) Error() string   { return "i/o timeout" }
func (vTimeout) Timeout() bool   { return true }
func (vTimeout) Temporary() bool { return true }

// A vRead is one scripted outcome of Conn.ReadFrom.
type vRead struct {
	msg  ndp.Message
	hop  int
	from netip.Addr
	err  error
}

// A vWrite records one Conn.WriteTo call.
type vWrite struct {
	Begin, End int64 // virtual ns
	Dst        netip.Addr
	RA         *ndp.RouterAdvertisement
	Err        error
	Seq        int
}

// vConn is a scripted system.Conn. Reads block until the script delivers something or the read
// deadline is set to the past (then they time out, like a real socket). Writes are recorded; an
// optional gate decides per write whether it blocks, fails or succeeds.
type vConn struct {
	mu        sync.Mutex
	readC     chan vRead
	deadlineC chan struct{}
	deadSet   bool
	writes    []*vWrite
	// onWrite, if set, is called (outside the lock) at the start of every WriteTo; it may block
	// and its result is the result of the write.
	onWrite func(w *vWrite) error
	// event log shared with the driver
	events                            []vEvent
	closed                            bool
	readsAfterClose, writesAfterClose int
	// readDelay makes every successful read take this long (virtual): a slow listener
	readDelay time.Duration
	readTimes []int64 // virtual instants of the ReadFrom calls
	// onRead, if set, is called (outside the lock) at the start of the n-th ReadFrom call (n from 1)
	onRead func(n int)
}

type vEvent struct {
	T    int64
	Kind string
	Seq  int
}

func newVConn() *vConn {
	return &vConn{readC: make(chan vRead, 4096), deadlineC: make(chan struct{})}
}

func (c *vConn) ev(kind string, seq int) {
	c.events = append(c.events, vEvent{T: vNow(), Kind: kind, Seq: seq})
}

func (c *vConn) ReadFrom() (ndp.Message, *ipv6.ControlMessage, netip.Addr, error) {
	c.mu.Lock()
	if c.closed {
		c.readsAfterClose++
	}
	dc := c.deadlineC
	rd := c.readDelay
	c.readTimes = append(c.readTimes, vNow())
	nread, onRead := len(c.readTimes), c.onRead
	c.mu.Unlock()
	if onRead != nil {
		onRead(nread)
	}
	if rd > 0 {
		time.Sleep(rd)
	}
	// A pending datagram wins over an expired deadline only if it is already there; a real
	// socket reports the timeout when nothing is queued.
	select {
	case r := <-c.readC:
		if r.err != nil {
			return nil, nil, netip.Addr{}, r.err
		}
		return r.msg, &ipv6.ControlMessage{HopLimit: r.hop}, r.from, nil
	default:
	}
	select {
	case r := <-c.readC:
		if r.err != nil {
			return nil, nil, netip.Addr{}, r.err
		}
		return r.msg, &ipv6.ControlMessage{HopLimit: r.hop}, r.from, nil
	case <-dc:
		return nil, nil, netip.Addr{}, &net.OpError{Op: "read", Net: "ip6:ipv6-icmp", Err: vTimeout{}}
	}
}

func (c *vConn) SetReadDeadline(t time.Time) error {
	c.mu.Lock()
	defer c.mu.Unlock()
	if !t.IsZero() && !t.After(time.Now()) && !c.deadSet {
		c.deadSet = true
		close(c.deadlineC)
	}
	return nil
}

func (c *vConn) WriteTo(m ndp.Message, _ *ipv6.ControlMessage, dst netip.Addr) error {
	ra, _ := m.(*ndp.RouterAdvertisement)
	c.mu.Lock()
	if c.closed {
		c.writesAfterClose++
	}
	w := &vWrite{Begin: vNow(), Dst: dst, RA: ra, Seq: len(c.writes)}
	c.writes = append(c.writes, w)
	c.ev("wbegin", w.Seq)
	hook := c.onWrite
	c.mu.Unlock()
	var err error
	if hook != nil {
		err = hook(w)
	}
	c.mu.Lock()
	w.End, w.Err = vNow(), err
	c.ev("wend", w.Seq)
	c.mu.Unlock()
	return err
}

func (c *vConn) snapshot() []vWrite {
	c.mu.Lock()
	defer c.mu.Unlock()
	out := make([]vWrite, len(c.writes))
	for i, w := range c.writes {
		out[i] = *w
	}
	return out
}

// vState is a mutable, recording system.State.
type vState struct {
	mu         sync.Mutex
	forwarding map[string]bool
	autoconf   map[string]bool
	fwdReads   int
	err        error
}

func newVState() *vState { return &vState{forwarding: map[string]bool{}, autoconf: map[string]bool{}} }

func (s *vState) IPv6Autoconf(iface string) (bool, error) {
	s.mu.Lock()
	defer s.mu.Unlock()
	return s.autoconf[iface], s.err
}
func (s *vState) IPv6Forwarding(iface string) (bool, error) {
	s.mu.Lock()
	defer s.mu.Unlock()
	s.fwdReads++
	return s.forwarding[iface], s.err
}
func (s *vState) SetIPv6Autoconf(iface string, v bool) error {
	s.mu.Lock()
	defer s.mu.Unlock()
	s.autoconf[iface] = v
	return s.err
}
func (s *vState) setForwarding(iface string, v bool) {
	s.mu.Lock()
	defer s.mu.Unlock()
	s.forwarding[iface] = v
}

type vLinkKind struct {
	mtu   int
	flags net.Flags
}

var vLinkKinds = []vLinkKind{
	{1500, net.FlagUp | net.FlagBroadcast | net.FlagMulticast | net.FlagRunning},
	{1420, net.FlagUp | net.FlagPointToPoint | net.FlagMulticast | net.FlagRunning},
	{9000, net.FlagUp | net.FlagBroadcast | net.FlagMulticast},
	{1492, net.FlagUp | net.FlagPointToPoint | net.FlagRunning},
	{0, 0},
}

var vLinkSeq atomic.Int64

// vLogSink is where the daemon's log goes (a driver may install a sink that takes its time).
var vLogSink io.Writer = io.Discard

var vMAC = net.HardwareAddr{0xde, 0xad, 0xbe, 0xef, 0xde, 0xad}

// vAdvertiser wires a real Advertiser to a vConn through a Dialer with a scripted DialFunc.
type vAdvertiser struct {
	ad    *Advertiser
	conn  *vConn
	state *vState
	mm    *Metrics
	conns []*vConn // one per (re)dial
	term  bool
	mu    sync.Mutex
	link  vLinkKind
}

func newVAdvertiser(cfg config.Interface, terminate func() bool) *vAdvertiser {
	return newVAdvertiserW(cfg, terminate, nil)
}

// newVAdvertiserW is newVAdvertiser with a link-state watcher channel (a value sent on it makes the
// advertiser reinitialize: every DialFunc call hands out a fresh vConn).
func newVAdvertiserW(cfg config.Interface, terminate func() bool, watchC <-chan netstate.Change) *vAdvertiser {
	v := &vAdvertiser{state: newVState()}
	v.state.forwarding[cfg.Name] = true
	v.mm = NewMetrics(metricslite.NewMemory(), "test", time.Time{}, v.state, []config.Interface{cfg})
	cctx := NewContext(log.New(vLogSink, "", 0), v.mm, v.state)
	v.conn = newVConn()
	d := system.NewDialer(cfg.Name, v.state, system.Advertise, nil)
	d.DialFunc = func() (*system.DialContext, error) {
		v.mu.Lock()
		defer v.mu.Unlock()
		c := v.conn
		if len(v.conns) > 0 {
			c = newVConn()
			c.onWrite = v.conn.onWrite
			v.conn = c
		}
		v.conns = append(v.conns, c)
		// what kind of link it is must not matter to anything the drivers check: Ethernet, a point-to-point tunnel
		// with a small MTU, a jumbo-frame link -- chosen per advertiser, the same at every re-dial
		k := vLinkKinds[int(vLinkSeq.Add(0))%len(vLinkKinds)]
		if len(v.conns) == 1 {
			k = vLinkKinds[int(vLinkSeq.Add(1))%len(vLinkKinds)]
			v.link = k
		} else {
			k = v.link
		}
		return &system.DialContext{
			Conn:      c,
			Interface: &net.Interface{Index: 7, Name: cfg.Name, HardwareAddr: vMAC, MTU: k.mtu, Flags: k.flags},
			IP:        netip.MustParseAddr("fe80::1"),
		}, nil
	}
	v.ad = NewAdvertiser(cctx, cfg, d, watchC, terminate)
	return v
}

// cur returns the connection of the current incarnation.
func (v *vAdvertiser) cur() *vConn {
	v.mu.Lock()
	defer v.mu.Unlock()
	return v.conn
}

// run starts Run in a goroutine and returns a channel with its result and the cancel func.
func (v *vAdvertiser) run() (cancel func(), done chan error) {
	ctx, cancel := context.WithCancel(context.Background())
	done = make(chan error, 1)
	go func() { done <- v.ad.Run(ctx) }()
	return cancel, done
}

var errInjected = errors.New("verif: injected error")

// rs is a valid router solicitation; like a real ndp.Conn the fake attaches the interface zone to the
// source address (the listener is the one that must strip it).
func rs(from string) vRead {
	return vRead{msg: &ndp.RouterSolicitation{}, hop: ndp.HopLimit, from: netip.MustParseAddr(from).WithZone("v0")}
}

// metricVal reads one sample of a Memory-backed Metrics ("k=v,k=v" label key); 0 when absent.
func metricVal(mm *Metrics, name, kvs string) float64 {
	series, ok := mm.Series()
	if !ok {
		return -1
	}
	s, ok := series[name]
	if !ok {
		return 0
	}
	return s.Samples[kvs]
}

// logEvent appends a driver-side event (cancel, return, ...) to the connection's event log.
func (c *vConn) logEvent(kind string, seq int) {
	c.mu.Lock()
	defer c.mu.Unlock()
	c.ev(kind, seq)
}

func (c *vConn) eventLog() []vEvent {
	c.mu.Lock()
	defer c.mu.Unlock()
	return append([]vEvent(nil), c.events...)
}
