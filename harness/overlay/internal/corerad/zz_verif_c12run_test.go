//go:build verif && go1.25

package corerad

// C12 through the real Advertiser.Run (virtual clock) on links of every kind (Ethernet, point-to-point with a small
// MTU, jumbo frames, no MTU known): "nothing for a field or option absent on either side" -- what the INTERFACE looks
// like is not a side.  Another router's RA with an MTU / with options CoreRAD does not advertise is received through
// the listener; exactly the differing header fields are reported.

import (
	"fmt"
	"net/netip"
	"strings"
	"testing"
	"testing/synctest"
	"time"

	"github.com/mdlayher/corerad/internal/config"
	"github.com/mdlayher/corerad/internal/plugin"
	"github.com/mdlayher/corerad/internal/verifh"
	"github.com/mdlayher/ndp"
)

func TestVerifC12Run(t *testing.T) {
	out := verifh.Open()
	defer out.Close()
	for k := 0; k < 2*len(vLinkKinds); k++ {
		id := fmt.Sprintf("c12run-%d", k)
		if !out.Wants(id) {
			continue
		}
		var viol []string
		var link vLinkKind
		synctest.Test(t, func(t *testing.T) {
			cfg := config.Interface{Name: "v0", Advertise: true, MinInterval: 200 * time.Second, MaxInterval: 600 * time.Second,
				HopLimit: 64, DefaultLifetime: 1800 * time.Second,
				Plugins: []plugin.Plugin{&plugin.Prefix{Prefix: netip.MustParsePrefix("2001:db8:1::/64"), OnLink: true, Autonomous: true,
					ValidLifetime: time.Hour, PreferredLifetime: time.Minute}}}
			v := newVAdvertiser(cfg, func() bool { return false })
			hooks := 0
			v.ad.OnInconsistentRA = func(_, _ *ndp.RouterAdvertisement) { hooks++ }
			cancel, done := v.run()
			time.Sleep(time.Second)
			link = v.link
			count := func() float64 {
				total := 0.0
				series, _ := v.mm.Series()
				for name, s := range series {
					if name == advInconsistencies {
						for _, x := range s.Samples {
							total += x
						}
					}
				}
				return total
			}
			deliver := func(ra *ndp.RouterAdvertisement) (float64, int) {
				c0, h0 := count(), hooks
				v.cur().readC <- vRead{msg: ra, hop: ndp.HopLimit, from: netip.MustParseAddr("fe80::2%v0")}
				time.Sleep(time.Second)
				synctest.Wait()
				return count() - c0, hooks - h0
			}
			pfx := &ndp.PrefixInformation{PrefixLength: 64, Prefix: netip.MustParseAddr("2001:db8:1::"), OnLink: true, AutonomousAddressConfiguration: true,
				ValidLifetime: time.Hour, PreferredLifetime: time.Minute}
			same := func(extra ...ndp.Option) *ndp.RouterAdvertisement {
				return &ndp.RouterAdvertisement{CurrentHopLimit: 64, RouterLifetime: 1800 * time.Second, Options: append([]ndp.Option{pfx}, extra...)}
			}
			for _, mtu := range []uint32{1280, 1420, 1492, 1500, 9000, 65535} {
				if d, h := deliver(same(ndp.NewMTU(mtu))); d != 0 || h != 0 {
					viol = append(viol, fmt.Sprintf("link with MTU %d, flags %v: an RA that differs from ours only by carrying an MTU option (%d), which we do not advertise, was reported (%v problems, hook fired %d times)", link.mtu, link.flags, mtu, d, h))
				}
			}
			extra := []ndp.Option{&ndp.RecursiveDNSServer{Lifetime: time.Hour, Servers: []netip.Addr{netip.MustParseAddr("2001:db8::53")}},
				&ndp.DNSSearchList{Lifetime: time.Hour, DomainNames: []string{"example.com"}}, &ndp.CaptivePortal{URI: "https://example.com/"},
				&ndp.RouteInformation{PrefixLength: 48, Prefix: netip.MustParseAddr("2001:db8:f::"), RouteLifetime: time.Hour}}
			if d, h := deliver(same(extra...)); d != 0 || h != 0 {
				viol = append(viol, fmt.Sprintf("options we do not advertise were reported (%v problems, hook %d)", d, h))
			}
			other := same()
			other.CurrentHopLimit = 32
			if d, h := deliver(other); d != 1 || h != 1 {
				viol = append(viol, fmt.Sprintf("a differing hop limit was reported %v times (hook %d), want once", d, h))
			}
			cancel()
			<-done
		})
		if len(viol) > 3 {
			viol = viol[:3]
		}
		out.Emit(verifh.Case{ID: id, Input: map[string]any{"kind": "run", "link_mtu": link.mtu, "link_flags": link.flags.String()},
			Observed: map[string]any{"reported": []string{"hop_limit"}}, Tags: []string{"stream:run", fmt.Sprintf("link-mtu:%d", link.mtu)}, ImplViolation: strings.Join(viol, "; ")})
	}
}
