//go:build verif

package corerad

// C18 driver: histories of NDP messages delivered to one real Monitor on a metricslite.Memory,
// either through Monitor.monitor + listener.Listen with a scripted connection (senders with and
// without zones; the zone is stripped by the listener) or by calling Monitor.handle directly
// (hand-built messages: unmasked prefixes, sub-second router lifetimes).  After every message the
// corerad_monitor_* samples are read back; the case carries, per message, the samples that are
// new or changed (label strings parsed back into (address, length) pairs, hosts, type numbers).

import (
	"context"
	"fmt"
	"net"
	"net/netip"
	"sort"
	"strings"
	"sync"
	"testing"
	"time"

	"github.com/mdlayher/corerad/internal/verifh"
	"github.com/mdlayher/metricslite"
	"github.com/mdlayher/ndp"
	"golang.org/x/net/ipv6"
)

type v18Read struct {
	msg  ndp.Message
	from netip.Addr
}

type v18Timeout struct{}

func (v18Timeout) Error() string   { return "i/o timeout" }
func (v18Timeout) Timeout() bool   { return true }
func (v18Timeout) Temporary() bool { return true }

// v18Conn is a scripted system.Conn: reads block until a message is scripted or the read
// deadline is moved into the past.
type v18Conn struct {
	readC chan v18Read
	deadC chan struct{}
	once  sync.Once
}

func newV18Conn() *v18Conn { return &v18Conn{readC: make(chan v18Read), deadC: make(chan struct{})} }

func (c *v18Conn) ReadFrom() (ndp.Message, *ipv6.ControlMessage, netip.Addr, error) {
	select {
	case r := <-c.readC:
		return r.msg, &ipv6.ControlMessage{HopLimit: ndp.HopLimit}, r.from, nil
	case <-c.deadC:
		return nil, nil, netip.Addr{}, &net.OpError{Op: "read", Net: "ip6:ipv6-icmp", Err: v18Timeout{}}
	}
}

func (c *v18Conn) SetReadDeadline(t time.Time) error {
	if !t.IsZero() && t.Before(time.Now()) {
		c.once.Do(func() { close(c.deadC) })
	}
	return nil
}

func (c *v18Conn) WriteTo(ndp.Message, *ipv6.ControlMessage, netip.Addr) error { return nil }

var v18Names = map[string]string{
	monReceived: "MReceived", monFlagManaged: "MFlagManaged", monFlagOther: "MFlagOther", monDefaultRoute: "MDefaultRoute",
	monPrefixAutonomous: "MPrefixAutonomous", monPrefixOnLink: "MPrefixOnLink", monPrefixPreferred: "MPrefixPreferred",
	monPrefixValid: "MPrefixValid",
}

var v18Types = func() map[string]int {
	m := map[string]int{}
	for i := 0; i < 256; i++ {
		m[ipv6.ICMPType(i).String()] = i
	}
	return m
}()

// v18Snapshot reads every corerad_monitor_* sample: "name|label=value,..." -> value.
func v18Snapshot(mem *metricslite.Memory) map[string]float64 {
	out := map[string]float64{}
	for name, s := range mem.Series() {
		if !strings.HasPrefix(name, "corerad_monitor_") {
			continue
		}
		for k, v := range s.Samples {
			out[name+"|"+k] = v
		}
	}
	return out
}

type v18R struct {
	rd    *v12Render
	iface string
}

// host renders a sender as two arguments: interned address (without zone) and zone (0 = none).
func (v *v18R) host(a netip.Addr) string {
	z := verifh.N(0)
	if a.Zone() != "" {
		z = v.rd.in.N("zone:" + a.Zone())
	}
	return v.rd.addr(a.WithZone("")) + " " + z
}

// sample renders one observed sample with the compact constructors s0..s3 of Corr/C18.v;
// ok = false when the label set is not one the metric definition allows.
func (v *v18R) sample(k string, val float64) (string, bool) {
	name, kvs, _ := strings.Cut(k, "|")
	mt, ok := v18Names[name]
	if !ok || val != float64(int64(val)) {
		return "", false
	}
	var (
		iface, host, msg string
		pfx              []string
		invalid          bool
		labels           []string
	)
	for _, kv := range strings.Split(kvs, ",") {
		n, val, _ := strings.Cut(kv, "=")
		labels = append(labels, n)
		switch n {
		case "interface":
			iface = v.rd.in.N("if:" + val)
		case "host", "router":
			a, err := netip.ParseAddr(val)
			if err != nil {
				return "", false
			}
			host = v.host(a)
		case "prefix":
			switch p, err := netip.ParsePrefix(val); {
			case val == "invalid Prefix":
				invalid = true
			case err == nil:
				pfx = []string{v.rd.addr(p.Addr()), verifh.N(uint64(p.Bits()))}
			default:
				pfx = []string{verifh.N(0), verifh.N(999)}
			}
		case "message":
			t, ok := v18Types[val]
			if !ok {
				return "", false
			}
			msg = verifh.N(uint64(t))
		default:
			return "", false
		}
	}
	value := verifh.Z(int64(val))
	switch {
	case mt == "MReceived":
		if strings.Join(labels, " ") != "interface host message" {
			return "", false
		}
		return verifh.App("s3", iface, host, msg, value), true
	case strings.HasPrefix(mt, "MPrefix"):
		if strings.Join(labels, " ") != "interface prefix router" {
			return "", false
		}
		if invalid {
			return verifh.App("s2", mt, iface, host, value), true
		}
		return verifh.App("s1", mt, iface, host, pfx[0], pfx[1], value), true
	default:
		if strings.Join(labels, " ") != "interface router" {
			return "", false
		}
		return verifh.App("s0", mt, iface, host, value), true
	}
}

func (v *v18R) msg(m ndp.Message) string {
	if ra, ok := m.(*ndp.RouterAdvertisement); ok {
		return verifh.App("MsgRA", v.rd.ra(ra))
	}
	return verifh.App("MsgOther", verifh.N(uint64(m.Type())))
}

// ---- generators

var (
	// senders: link-local, global, and IPv4-mapped IPv6 addresses (::ffff:a.b.c.d is a 128-bit IPv6
	// source like any other: the label must be that address, never its unmapped IPv4 form; labels
	// are interned by their textual form, so "192.0.2.1" and "::ffff:192.0.2.1" are different hosts),
	// the unspecified address (DAD probes) and the loopback.
	v18Hosts = []string{"fe80::1", "fe80::2", "fe80::dead:beef", "2001:db8::1", "::ffff:192.0.2.1", "::ffff:192.0.2.254",
		"::ffff:10.0.0.1", "::", "::1"}
	v18Zones    = []string{"", "", "eth0", "wlan0", "7"}
	v18Prefixes = []string{"2001:db8:1::/64", "2001:db8:2::/64", "::/0", "2001:db8:1::/48", "fd00::1/128", "2001:db8:1::/127",
		"2001:db8:1:0:8000::/65", "fd00::/8", "fc00::/7", "8000::/1",
		// prefixes a sane router would not advertise but a monitor must still describe exactly
		"fe80::/64", "fe80::/10", "fe80:0:0:1::/64", "ff02::/16", "::1/128"}
)

func v18Lifetime(r *verifh.Rand) time.Duration {
	switch r.Intn(8) {
	case 0:
		return 0
	case 1:
		return ndp.Infinity
	case 2:
		return time.Second
	case 3:
		return 2 * time.Hour
	case 4:
		return time.Duration(r.Int63n(1<<32)) * time.Second
	default:
		return time.Duration(r.Int63n(100000)) * time.Second
	}
}

// v18Now picks a receipt time (sec, nsec): around the UNIX epoch (also before it), around
// second boundaries, 2^31 s, today, far future.
func v18Now(r *verifh.Rand) time.Time {
	nsec := verifh.Pick(r, []int64{0, 1, 499_999_999, 500_000_000, 999_999_999, r.Int63n(1e9)})
	today := 1_700_000_000 + r.Int63n(200_000_000)
	sec := verifh.Pick(r, []int64{0, -1, -2, 1, 1<<31 - 1, 1 << 31, 4_102_444_800, -86400 * 365 * 20, today, today, today, today, today, today, today, today})
	return time.Unix(sec, nsec)
}

// v18RA builds a router advertisement; wire = it will cross the codec (must be encodable).
func v18RA(r *verifh.Rand, wire bool) *ndp.RouterAdvertisement {
	ra := &ndp.RouterAdvertisement{
		CurrentHopLimit: uint8(r.Intn(256)), ManagedConfiguration: r.Bool(), OtherConfiguration: r.Bool(),
		MobileIPv6HomeAgent: r.Chance(10), NeighborDiscoveryProxy: r.Chance(10),
		RouterSelectionPreference: verifh.Pick(r, []ndp.Preference{ndp.Low, ndp.Medium, ndp.High}),
		ReachableTime:             time.Duration(r.Intn(3600000)) * time.Millisecond, RetransmitTimer: time.Duration(r.Intn(3600000)) * time.Millisecond,
	}
	switch r.Intn(6) {
	case 0, 1:
		ra.RouterLifetime = 0
	case 2:
		ra.RouterLifetime = time.Second
	case 3:
		ra.RouterLifetime = 65535 * time.Second
	case 4:
		ra.RouterLifetime = time.Duration(1+r.Intn(9000)) * time.Second
	default:
		if wire {
			ra.RouterLifetime = 1800 * time.Second
		} else {
			ra.RouterLifetime = verifh.Pick(r, []time.Duration{1, 500 * time.Millisecond, time.Second - 1, 1500 * time.Millisecond, 18 * time.Hour})
		}
	}
	for k := r.Intn(7); k > 0; k-- {
		var pi *ndp.PrefixInformation
		switch {
		case r.Chance(60):
			p := netip.MustParsePrefix(verifh.Pick(r, v18Prefixes))
			pi = &ndp.PrefixInformation{PrefixLength: uint8(p.Bits()), Prefix: p.Addr()}
		default:
			// any length 0..128 under a random address
			var b [16]byte
			for i := range b {
				b[i] = byte(r.Intn(256))
			}
			bits := r.Intn(129)
			a := netip.AddrFrom16(b)
			if wire || r.Chance(50) {
				a = netip.PrefixFrom(a, bits).Masked().Addr()
			}
			pi = &ndp.PrefixInformation{PrefixLength: uint8(bits), Prefix: a}
		}
		if !wire && r.Chance(25) {
			// unmasked: host bits set
			b := pi.Prefix.As16()
			b[15] |= 1
			b[8] |= 0x40
			pi.Prefix = netip.AddrFrom16(b)
		}
		pi.OnLink, pi.AutonomousAddressConfiguration = r.Bool(), r.Bool()
		pi.ValidLifetime, pi.PreferredLifetime = v18Lifetime(r), v18Lifetime(r)
		if !wire && r.Chance(15) {
			pi.ValidLifetime += time.Duration(r.Int63n(1e9))
			pi.PreferredLifetime += time.Duration(r.Int63n(1e9))
		}
		ra.Options = append(ra.Options, pi)
		if r.Chance(35) {
			ra.Options = append(ra.Options, v18NonPrefix(r))
		}
	}
	if r.Chance(40) {
		ra.Options = append(ra.Options, v18NonPrefix(r))
	}
	if r.Chance(30) {
		verifh.Shuffle(r, ra.Options)
	}
	return ra
}

func v18NonPrefix(r *verifh.Rand) ndp.Option {
	switch r.Intn(6) {
	case 0:
		return ndp.NewMTU(uint32(1280 + r.Intn(8000)))
	case 1:
		// route information, also for ::/0 (RFC 4191): the monitor describes the ROUTER's lifetime, whatever routes it offers
		return v12RI(verifh.Pick(r, []string{"2001:db8:ffff::/48", "::/0", "::/0", "2000::/3"}), ndp.High, verifh.Pick(r, []time.Duration{0, v18Lifetime(r), 600 * time.Second}))
	case 2:
		return v12DNS(v18Lifetime(r), "2001:db8::53")
	case 3:
		return v12SL(v18Lifetime(r), "example.com")
	default:
		return v12Other(r)
	}
}

// v18Patch rewrites the prefix length byte of the first prefix information option of an encoded
// router advertisement (lengths above 128 cannot be produced by the encoder).
func v18Patch(b []byte, plen byte) bool {
	for i := 16; i+2 <= len(b); {
		l := int(b[i+1]) * 8
		if l == 0 || i+l > len(b) {
			return false
		}
		if b[i] == 3 {
			b[i+2] = plen
			return true
		}
		i += l
	}
	return false
}

func v18Message(r *verifh.Rand, wire bool) (ndp.Message, []string, error) {
	var m ndp.Message
	tags := []string{}
	switch c := r.Intn(100); {
	case c < 72:
		m = v18RA(r, wire)
	case c < 82:
		m = &ndp.RouterSolicitation{Options: []ndp.Option{&ndp.LinkLayerAddress{Direction: ndp.Source, Addr: []byte{2, 0, 0, 0, 0, 9}}}}
	case c < 91:
		m = &ndp.NeighborSolicitation{TargetAddress: netip.MustParseAddr("fe80::99")}
	default:
		m = &ndp.NeighborAdvertisement{Router: r.Bool(), Solicited: r.Bool(), TargetAddress: netip.MustParseAddr("fe80::99")}
	}
	if wire {
		b, err := ndp.MarshalMessage(m)
		if err != nil {
			return nil, nil, fmt.Errorf("marshal %T: %v", m, err)
		}
		if _, ok := m.(*ndp.RouterAdvertisement); ok && r.Chance(8) {
			if v18Patch(b, byte(129+r.Intn(127))) {
				tags = append(tags, "prefix-length:>128")
			}
		}
		m, err = ndp.ParseMessage(b)
		if err != nil {
			return nil, nil, fmt.Errorf("parse: %v", err)
		}
	}
	return m, tags, nil
}

func TestVerifC18(t *testing.T) {
	out := verifh.Open()
	defer out.Close()
	n := 2000
	if verifh.Thorough() {
		n = 40000
	}
	for c := 0; c < n; c++ {
		id := fmt.Sprintf("c18-%d", c)
		if !out.Wants(id) {
			continue
		}
		r := verifh.NewRand(verifh.Seed(), id)
		v18Case(t, out, id, r)
	}
	v18Volume(out)
}

// v18Volume: thousands of distinct senders, routers and prefixes through one Monitor (a large wireless network, or
// randomised addresses over weeks): every message is counted and every router / prefix described, the 5000th
// like the first.  Assertion on the final metrics only (per-message deltas are the business of v18Case).
func v18Volume(out *verifh.Out) {
	if !out.Wants("c18-volume") {
		return
	}
	// more senders than any power-of-two table, cap or label budget one would pick: 2^15 < 40000 < 2^16, 2^18 < 300000
	n := 40000
	if verifh.Thorough() {
		n = 300000
	}
	mem := metricslite.NewMemory()
	mm := NewMetrics(mem, "verif", time.Time{}, nil, nil)
	mon := NewMonitor(NewContext(nil, mm, nil), "eth0", nil, nil, false)
	t0 := time.Unix(1_700_000_000, 0)
	mon.now = func() time.Time { return t0 }
	for j := 0; j < n; j++ {
		host := netip.AddrFrom16([16]byte{0xfe, 0x80, 8: 2, 13: byte(j >> 16), 14: byte(j >> 8), 15: byte(j)})
		if j%2 == 0 {
			mon.handle(&ndp.RouterSolicitation{}, host.String())
			continue
		}
		pfx := netip.AddrFrom16([16]byte{0x20, 0x01, 0x0d, 0xb8, 4: byte(j >> 8), 5: byte(j)})
		mon.handle(&ndp.RouterAdvertisement{RouterLifetime: 1800 * time.Second, Options: []ndp.Option{
			&ndp.PrefixInformation{PrefixLength: 64, Prefix: pfx, ValidLifetime: time.Hour, PreferredLifetime: time.Minute}}}, host.String())
	}
	snap := v18Snapshot(mem)
	counts := map[string]int{}
	for k := range snap {
		counts[k[:strings.IndexAny(k+"|", "|")]]++
	}
	var viol []string
	want := map[string]int{"corerad_monitor_messages_received_total": n, "corerad_monitor_default_route_expiration_timestamp_seconds": n / 2,
		"corerad_monitor_prefix_valid_expiration_timestamp_seconds": n / 2}
	for name, w := range want {
		if counts[name] != w {
			viol = append(viol, fmt.Sprintf("%s has %d label sets after %d messages from distinct senders, want %d", name, counts[name], n, w))
		}
	}
	out.Emit(verifh.Case{ID: "c18-volume", Input: map[string]any{"kind": "volume", "senders": n}, Observed: counts,
		Tags: []string{"stream:volume"}, ImplViolation: strings.Join(viol, "; ")})
}

func v18Case(t *testing.T, out *verifh.Out, id string, r *verifh.Rand) {
	listener := r.Chance(60)
	iface := verifh.Pick(r, []string{"eth0", "wlan0", "br-lan.10"})
	vr := &v18R{rd: newV12Render(), iface: iface}

	mem := metricslite.NewMemory()
	mm := NewMetrics(mem, "verif", time.Time{}, nil, nil)
	mon := NewMonitor(NewContext(nil, mm, nil), iface, nil, nil, r.Chance(20))
	var now time.Time
	mon.now = func() time.Time { return now }

	var (
		conn   *v18Conn
		doneC  = make(chan struct{}, 1)
		errC   = make(chan error, 1)
		cancel context.CancelFunc
	)
	if listener {
		var ctx context.Context
		ctx, cancel = context.WithCancel(context.Background())
		conn = newV18Conn()
		mon.OnMessage = func(ndp.Message) { doneC <- struct{}{} }
		go func() { errC <- mon.monitor(ctx, conn) }()
	}

	tags := map[string]bool{"listener:" + verifh.B(listener): true}
	// a small pool of senders so that senders repeat within a history
	senders := make([]netip.Addr, 1+r.Intn(3))
	for i := range senders {
		senders[i] = netip.MustParseAddr(verifh.Pick(r, v18Hosts)).WithZone(verifh.Pick(r, v18Zones))
	}
	var (
		events  []string
		inputs  []map[string]any
		obs     []map[string]float64
		prev    = v18Snapshot(mem)
		failure string
		repeat  ndp.Message
	)
	steps := 1 + r.Intn(3)
	if r.Chance(30) {
		steps = 4 + r.Intn(5)
	}
	for s := 0; s < steps && failure == ""; s++ {
		from := verifh.Pick(r, senders)
		if from.Zone() != "" {
			tags["sender:zone"] = true
		} else {
			tags["sender:no-zone"] = true
		}
		if from.Is4In6() {
			tags["sender:ipv4-mapped"] = true
			if from.Zone() != "" {
				tags["sender:ipv4-mapped+zone"] = true
			}
		}
		wire := listener || r.Chance(40)
		msg, mtags, err := v18Message(r, wire)
		if err != nil {
			t.Fatalf("%s: %v", id, err)
		}
		if repeat != nil && r.Chance(20) {
			msg, mtags = repeat, []string{"repeated-message"} // the same RA again, later (gauges move with the clock)
		}
		for _, tg := range mtags {
			tags[tg] = true
		}
		if ra, ok := msg.(*ndp.RouterAdvertisement); ok {
			repeat = msg
			np := len(pick[*ndp.PrefixInformation](ra.Options))
			tags[fmt.Sprintf("prefixes:%d", np)] = true
			if ra.RouterLifetime == 0 {
				tags["router-lifetime:zero"] = true
			} else {
				tags["router-lifetime:non-zero"] = true
			}
		}
		tags["type:"+msg.Type().String()] = true
		now = v18Now(r)
		if now.Unix() < 0 {
			tags["now:before-1970"] = true
		}

		if listener {
			conn.readC <- v18Read{msg: msg, from: from}
			select {
			case <-doneC:
			case err := <-errC:
				failure = fmt.Sprintf("the monitor stopped while handling %s from %s: %v", msg.Type(), from, err)
			case <-time.After(20 * time.Second):
				failure = fmt.Sprintf("the monitor did not handle %s from %s", msg.Type(), from)
			}
		} else {
			func() {
				defer func() {
					if p := recover(); p != nil {
						failure = fmt.Sprintf("Monitor.handle panicked on %s from %s: %v", msg.Type(), from, p)
					}
				}()
				mon.handle(msg, from.String())
			}()
		}
		if failure != "" {
			break
		}
		cur := v18Snapshot(mem)
		for k := range prev {
			if _, ok := cur[k]; !ok {
				failure = "a sample disappeared: " + k
			}
		}
		keys := make([]string, 0, len(cur))
		for k, v := range cur {
			if old, ok := prev[k]; !ok || old != v {
				keys = append(keys, k)
			}
		}
		sort.Strings(keys)
		delta := make([]string, 0, len(keys))
		od := map[string]float64{}
		for _, k := range keys {
			sm, ok := vr.sample(k, cur[k])
			if !ok {
				failure = fmt.Sprintf("unexpected sample %s = %v", k, cur[k])
				break
			}
			delta = append(delta, sm)
			od[k] = cur[k]
		}
		prev = cur
		events = append(events, verifh.App("ev", vr.host(from), vr.rd.dur(time.Duration(now.UnixNano())), vr.msg(msg), verifh.List(delta)))
		in := map[string]any{"from": from.String(), "now_unix_ns": now.UnixNano(), "type": msg.Type().String()}
		if ra, ok := msg.(*ndp.RouterAdvertisement); ok {
			in["ra"] = v12Summary(ra)
		}
		inputs = append(inputs, in)
		obs = append(obs, od)
	}
	if listener {
		cancel()
		select {
		case <-errC:
		case <-time.After(20 * time.Second):
			if failure == "" {
				failure = "the monitor did not stop after cancellation"
			}
		}
	}
	var tl []string
	for k := range tags {
		tl = append(tl, k)
	}
	sort.Strings(tl)
	c := verifh.Case{ID: id, Tags: tl,
		Input:    map[string]any{"interface": iface, "listener": listener, "messages": inputs},
		Observed: obs}
	if failure != "" {
		c.ImplViolation = failure
	} else {
		c.Coq = verifh.App("mkCase", vr.rd.in.N("if:"+iface), verifh.B(listener), verifh.List(events))
	}
	out.Emit(c)
}
