//go:build verif && go1.25

package corerad

import (
	"context"
	"errors"
	"fmt"
	"io"
	"log"
	"net"
	"net/netip"
	"os"
	"strings"
	"sync"
	"syscall"
	"testing"
	"testing/synctest"
	"time"

	"github.com/mdlayher/corerad/internal/config"
	"github.com/mdlayher/corerad/internal/netstate"
	"github.com/mdlayher/corerad/internal/plugin"
	"github.com/mdlayher/corerad/internal/system"
	"github.com/mdlayher/corerad/internal/verifh"
	"github.com/mdlayher/metricslite"
	"github.com/mdlayher/ndp"
)

// faultVariant selects among errors of one class (set per run from the flood size): the reaction depends on
// the class only -- a full device queue (ENOBUFS) or a write that timed out is as fatal to the connection as
// any other transmit error.
var faultVariant int

func faultErr(kind string) error {
	if strings.HasSuffix(kind, "Syscall") {
		kind = "Syscall"
	}
	switch kind {
	case "Syscall":
		errno := []syscall.Errno{syscall.ENETDOWN, syscall.ENOBUFS, syscall.EINVAL, syscall.EHOSTUNREACH}[faultVariant%4]
		if faultVariant%2 == 0 {
			return fmt.Errorf("wrapped: %w", &os.SyscallError{Syscall: "sendmsg", Err: errno})
		}
		return &net.OpError{Op: "write", Net: "ip6:ipv6-icmp", Err: &os.SyscallError{Syscall: "sendmsg", Err: errno}}
	case "Perm":
		return &os.SyscallError{Syscall: "sendmsg", Err: syscall.EPERM}
	default:
		switch faultVariant % 3 {
		case 1:
			// a timeout that is not a system call error
			return &net.OpError{Op: "write", Net: "ip6:ipv6-icmp", Err: vTimeout{}}
		case 2:
			return context.DeadlineExceeded
		}
		return errors.New("verif: plain failure")
	}
}

// tdFailPlugin is a plugin whose Apply fails while *fail is set (the address dump behind a wildcard
// failing at the moment an RA is generated); it records the virtual instant of the failure.
type tdFailPlugin struct {
	plugin.MTU
	mu     *sync.Mutex
	fail   *bool
	failAt *int64
}

func (p *tdFailPlugin) Prepare(*net.Interface) error { return nil }
func (p *tdFailPlugin) Apply(*ndp.RouterAdvertisement) error {
	p.mu.Lock()
	defer p.mu.Unlock()
	if *p.fail {
		*p.fail = false
		*p.failAt = vNow()
		return errors.New("verif: failed to list addresses")
	}
	return nil
}

type tdResult struct {
	outcome string
	delay   int64
	ioAfter int
	canary  bool
	leak    bool
}

// runTeardown injects one fault into a running advertiser / monitor at virtual instant T.
func runTeardown(t *testing.T, monitor bool, fault string, flood int, busy time.Duration) (res tdResult) {
	faultVariant = flood
	defer func() {
		if p := recover(); p != nil {
			// synctest panics when goroutines of the bubble are left blocked forever
			res.leak = true
			if res.outcome == "" {
				res.outcome = "OHang"
			}
		}
	}()
	synctest.Test(t, func(t *testing.T) {
		var (
			mu      sync.Mutex
			conns   []*vConn
			dialAt  []int64
			failing bool
			failAt  int64
		)
		state := newVState()
		state.forwarding["v0"] = true
		cfg := config.Interface{Name: "v0", Advertise: !monitor, Monitor: monitor, MinInterval: 200 * time.Second, MaxInterval: 600 * time.Second,
			HopLimit: 64, DefaultLifetime: 1800 * time.Second, Plugins: []plugin.Plugin{&plugin.LLA{}}}
		var buildFail bool
		if fault == "FBuildFail" {
			cfg.Plugins = append(cfg.Plugins, &tdFailPlugin{mu: &mu, fail: &buildFail, failAt: &failAt})
		}
		mm := NewMetrics(metricslite.NewMemory(), "test", time.Time{}, state, []config.Interface{cfg})
		cctx := NewContext(log.New(io.Discard, "", 0), mm, state)
		var both sync.WaitGroup
		both.Add(2)
		onWrite := func(w *vWrite) error {
			if fault == "FWrite2Syscall" && !w.Dst.IsMulticast() && w.Dst != netip.MustParseAddr("fe80::77") {
				// two transmissions in flight at once, both fail
				both.Done()
				both.Wait()
				mu.Lock()
				failAt = vNow()
				failing = false
				mu.Unlock()
				return faultErr("Syscall")
			}
			if busy > 0 && w.Dst == netip.MustParseAddr("fe80::b") {
				// another transmission is in flight (slow) while the failing one reports its error
				time.Sleep(busy)
				return nil
			}
			mu.Lock()
			defer mu.Unlock()
			if failing && !w.Dst.IsMulticast() {
				failing = false
				failAt = vNow()
				// the burst arrives while the scheduler is going down: nobody drains the request channel
				c := conns[len(conns)-1]
				go func() {
					time.Sleep(time.Millisecond)
					for j := 0; j < flood; j++ {
						c.readC <- rs(fmt.Sprintf("fe80::%x", 0x100+j))
					}
				}()
				return faultErr(fault[len("FWrite"):])
			}
			return nil
		}
		mode := system.Advertise
		if monitor {
			mode = system.Monitor
		}
		d := system.NewDialer("v0", state, mode, nil)
		d.DialFunc = func() (*system.DialContext, error) {
			mu.Lock()
			defer mu.Unlock()
			for _, c := range conns {
				c.mu.Lock()
				c.closed = true
				c.mu.Unlock()
			}
			c := newVConn()
			c.onWrite = onWrite

			conns = append(conns, c)
			dialAt = append(dialAt, vNow())
			return &system.DialContext{Conn: c, Interface: &net.Interface{Name: "v0", HardwareAddr: vMAC}, IP: netip.MustParseAddr("fe80::1")}, nil
		}
		watchC := make(chan netstate.Change, 8)
		var task Task
		if monitor {
			task = NewMonitor(cctx, "v0", d, watchC, false)
		} else {
			task = NewAdvertiser(cctx, cfg, d, watchC, func() bool { return false })
		}
		ctx, cancel := context.WithCancel(context.Background())
		done := make(chan error, 1)
		var retAt int64
		go func() { err := task.Run(ctx); retAt = vNow(); done <- err }()
		time.Sleep(10 * time.Second)
		synctest.Wait()
		old := conns[0]

		// a burst of solicitations at the fault instant (more than the request channel holds)
		if len(fault) < 6 || fault[:6] != "FWrite" {
			for j := 0; j < flood; j++ {
				old.readC <- rs(fmt.Sprintf("fe80::%x", 0x100+j))
			}
		}
		var faultAt int64
		switch fault {
		case "FReadSyscall", "FReadPerm", "FReadOther":
			// (a read that times out is not an error but the retry path of C10's clause (b): plain error values only)
			v := faultVariant
			faultVariant -= faultVariant % 3
			old.readC <- vRead{err: faultErr(fault[len("FRead"):])}
			faultVariant = v
			faultAt = vNow()
		case "FTimeouts5":
			for j := 0; j < 5; j++ {
				old.readC <- vRead{err: &net.OpError{Op: "read", Err: vTimeout{}}}
				faultAt = vNow()
				if j < 4 {
					time.Sleep(time.Duration(j)*50*time.Millisecond + time.Millisecond)
				}
			}
		case "FWritePendSyscall":
			// a dozen answers are pending in their random delays when the first of them fails to transmit:
			// the others must never be transmitted on the old connection
			mu.Lock()
			failing = true
			mu.Unlock()
			for j := 0; j < 12; j++ {
				old.readC <- rs(fmt.Sprintf("fe80::%x", 0x200+j))
			}
			for i := 0; i < 600; i++ {
				time.Sleep(time.Millisecond)
				mu.Lock()
				f := failing
				mu.Unlock()
				if !f {
					break
				}
			}
			mu.Lock()
			faultAt = failAt
			mu.Unlock()
		case "FWrite2Syscall":
			mu.Lock()
			failing = true
			mu.Unlock()
			old.readC <- rs("fe80::2")
			old.readC <- rs("fe80::3")
			for i := 0; i < 600; i++ {
				time.Sleep(time.Millisecond)
				mu.Lock()
				f := failing
				mu.Unlock()
				if !f {
					break
				}
			}
			mu.Lock()
			faultAt = failAt
			mu.Unlock()
		case "FWriteSyscall", "FWritePerm", "FWriteOther":
			if busy > 0 {
				old.readC <- rs("fe80::b")
				time.Sleep(600 * time.Millisecond) // its WriteTo has begun and blocks for `busy`
			}
			mu.Lock()
			failing = true
			mu.Unlock()
			old.readC <- rs("fe80::2")
			// the failing write happens after the answer's random delay
			for i := 0; i < 600; i++ {
				time.Sleep(time.Millisecond)
				mu.Lock()
				f := failing
				mu.Unlock()
				if !f {
					break
				}
			}
			mu.Lock()
			faultAt = failAt
			mu.Unlock()
		case "FBuildFail":
			mu.Lock()
			buildFail = true
			mu.Unlock()
			old.readC <- rs("fe80::2")
			// the RA is generated (and fails to) when the answer's random delay has elapsed
			for i := 0; i < 600; i++ {
				time.Sleep(time.Millisecond)
				mu.Lock()
				f := buildFail
				mu.Unlock()
				if !f {
					break
				}
			}
			mu.Lock()
			faultAt = failAt
			mu.Unlock()
		case "FLink":
			watchC <- netstate.LinkDown
			faultAt = vNow()
		case "FLinkClosed":
			// a link event is still buffered when the watcher shuts its channels (link down racing with the end of
			// watching): the event counts, the closed channel is harmless
			watchC <- netstate.LinkDown
			close(watchC)
			faultAt = vNow()
		case "FWatchClosed":
			close(watchC)
			faultAt = vNow()
		}
		// wait (virtual) for the reaction
		select {
		case err := <-done:
			if err != nil {
				res.outcome = "OReturnErr"
			} else {
				res.outcome = "OReturnNil"
			}
			res.delay = retAt - faultAt
			mu.Lock()
			for _, c := range conns {
				c.mu.Lock()
				c.closed = true
				c.mu.Unlock()
			}
			mu.Unlock()
		case <-time.After(60 * time.Second):
			mu.Lock()
			nd := len(conns)
			mu.Unlock()
			if nd > 1 {
				res.outcome = "ORedial"
				res.delay = dialAt[1] - faultAt
			} else {
				res.outcome = "OContinue"
			}
		}
		time.Sleep(30 * time.Second)
		synctest.Wait()
		old.mu.Lock()
		res.ioAfter = old.readsAfterClose + old.writesAfterClose
		old.mu.Unlock()

		// canary: a re-dialled / continuing task still serves; a returned task is silent
		mu.Lock()
		cur := conns[len(conns)-1]
		mu.Unlock()
		before := len(cur.snapshot())
		switch res.outcome {
		case "ORedial", "OContinue":
			if monitor {
				cur.readC <- rs("fe80::77")
				time.Sleep(time.Second)
				synctest.Wait()
				res.canary = metricVal(mm, "corerad_monitor_messages_received_total", "interface=v0,host=fe80::77,message=router solicitation") == 1
			} else {
				cur.readC <- rs("fe80::77")
				time.Sleep(time.Second)
				synctest.Wait()
				ws := cur.snapshot()
				res.canary = len(ws) == before+1 && ws[len(ws)-1].Dst == netip.MustParseAddr("fe80::77")
				if res.outcome == "ORedial" {
					// the new connection must also have carried the initial RA
					res.canary = res.canary && len(ws) >= 2 && ws[0].Dst.IsMulticast()
				}
			}
			cancel()
			select {
			case <-done:
			case <-time.After(60 * time.Second):
				res.outcome = "OHang"
			}
		default:
			res.canary = len(cur.snapshot()) == before
			cancel()
		}
	})
	return res
}

// TestVerifC10TD injects every fault class into a running advertiser and monitor, with and without a
// burst of solicitations filling the request channel at the same instant.
func TestVerifC10TD(t *testing.T) {
	out := verifh.Open()
	defer out.Close()
	floods := []int{0, 5, 17, 40}
	if verifh.Thorough() {
		floods = []int{0, 1, 5, 15, 16, 17, 18, 40, 100}
	}
	faults := []string{"FReadSyscall", "FReadPerm", "FReadOther", "FTimeouts5", "FWriteSyscall", "FWrite2Syscall", "FWritePendSyscall", "FWritePerm", "FWriteOther", "FBuildFail", "FLink", "FLinkClosed", "FWatchClosed"}
	for _, mon := range []bool{false, true} {
		for _, f := range faults {
			if mon && (f == "FBuildFail" || len(f) > 6 && f[:6] == "FWrite") {
				continue // a monitor never transmits
			}
			for _, fl := range floods {
				if mon && fl > 0 && fl != 17 {
					continue
				}
				id := fmt.Sprintf("td-%v-%s-%d", mon, f, fl)
				if !out.Wants(id) {
					continue
				}
				busy := time.Duration(0)
				if len(f) > 6 && f[:6] == "FWrite" && fl >= 17 {
					busy = 3 * time.Second // the scheduler waits for this one before returning the error
				}
				res := runTeardown(t, mon, f, fl, busy)
				slack := int64(busy)
				out.Emit(verifh.Case{
					ID: id,
					Coq: "(CTd " + verifh.App("mkTd", verifh.B(mon), strings.Replace(strings.Replace(strings.Replace(f, "FWrite2", "FWrite", 1), "FWritePend", "FWrite", 1), "FLinkClosed", "FLink", 1), verifh.Z(int64(fl)), res.outcome, verifh.Z(res.delay), verifh.Z(slack),
						verifh.Z(int64(res.ioAfter)), verifh.B(res.canary), verifh.B(res.leak)) + ")",
					Input:    map[string]any{"monitor": mon, "fault": f, "flood": fl},
					Observed: map[string]any{"outcome": res.outcome, "delay_ns": res.delay, "io_after": res.ioAfter, "canary": res.canary, "leak": res.leak},
					Tags:     []string{"fault:" + f, fmt.Sprintf("monitor:%v", mon), fmt.Sprintf("flood:%d", fl)},
				})
			}
		}
	}
}

// TestVerifC10RX: receive retry timing. A monitor reads a script of timeouts / messages; the instants
// of its ReadFrom calls give the back-off waits.
func TestVerifC10RX(t *testing.T) {
	out := verifh.Open()
	defer out.Close()
	r := verifh.NewRand(verifh.Seed(), "C10RX")
	n := 80
	if verifh.Thorough() {
		n = 2000
	}
	var scripts [][]scriptRead
	to := scriptRead{Kind: "timeout"}
	for k := 1; k <= 7; k++ {
		var s []scriptRead
		for j := 0; j < k; j++ {
			s = append(s, to)
		}
		scripts = append(scripts, s, append(append([]scriptRead{to, to, to, to, {Kind: "msg", Typ: 134, Hop: 255, Src: 2}}, s...), scriptRead{Kind: "msg", Typ: 133, Hop: 7, Src: 3}))
	}
	for k := 0; k < n; k++ {
		var s []scriptRead
		for j := r.Intn(30); j > 0; j-- {
			switch {
			case r.Chance(55):
				s = append(s, to)
			case r.Chance(3):
				s = append(s, scriptRead{Kind: "err"})
			default:
				s = append(s, scriptRead{Kind: "msg", Typ: 133 + r.Intn(4), Hop: verifh.Pick(r, []int{255, 255, 64}), Src: 1 + r.Intn(5)})
			}
		}
		scripts = append(scripts, s)
	}
	for i, script := range scripts {
		id := fmt.Sprintf("rx-%d", i)
		if !out.Wants(id) {
			continue
		}
		var gaps []string
		var gapsJ []int64
		running := false
		synctest.Test(t, func(t *testing.T) {
			conn := newVConn()
			state := newVState()
			mm := NewMetrics(metricslite.NewMemory(), "test", time.Time{}, state, nil)
			cctx := NewContext(log.New(io.Discard, "", 0), mm, state)
			d := system.NewDialer("v0", state, system.Monitor, nil)
			d.DialFunc = func() (*system.DialContext, error) {
				return &system.DialContext{Conn: conn, Interface: &net.Interface{Name: "v0"}, IP: netip.MustParseAddr("fe80::1")}, nil
			}
			m := NewMonitor(cctx, "v0", d, nil, false)
			for _, s := range script {
				conn.readC <- s.toRead()
			}
			ctx, cancel := context.WithCancel(context.Background())
			done := make(chan error, 1)
			go func() { done <- m.Run(ctx) }()
			time.Sleep(30 * time.Second)
			synctest.Wait()
			select {
			case <-done:
			default:
				running = true
			}
			conn.mu.Lock()
			rt := append([]int64(nil), conn.readTimes...)
			conn.mu.Unlock()
			for j := 1; j < len(rt); j++ {
				gaps = append(gaps, verifh.Z(rt[j]-rt[j-1]))
				gapsJ = append(gapsJ, rt[j]-rt[j-1])
			}
			cancel()
			if running {
				<-done
			}
		})
		var sc []string
		for _, s := range script {
			sc = append(sc, s.coq())
		}
		out.Emit(verifh.Case{ID: id, Coq: verifh.App("CRx", verifh.List(sc), verifh.List(gaps), verifh.B(running)),
			Input: map[string]any{"script": script}, Observed: map[string]any{"gaps_ns": gapsJ, "running": running},
			Tags: []string{"stream:rx-retry"}})
	}
}
