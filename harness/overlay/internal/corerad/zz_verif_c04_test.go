//go:build verif && go1.25

package corerad

// TestVerifC04: random histories of forwarding flips interleaved with events which force every RA-generating path,
// on 1-3 interfaces whose real Advertisers (from Server.BuildTasks; only the dial is faked) share one mutable,
// recording State, one Metrics on the pedantic Prometheus registry and one debug handler. Virtual time (synctest).
//
//	start(i)    -> Initial    first RA written after the dial
//	advance(d)  -> Periodic   multicast RAs written while virtual time passes
//	rs(i)       -> Solicited  RS from a unicast source, answered by a unicast RA within 500ms
//	peer(i)     -> Verify     an inconsistent RA from another router: the `ours` argument of OnInconsistentRA
//	stop(i)     -> Final      cancellation with terminate() = true: last RA
//	scrape      -> Scrape     Registry.Gather: forwarding gauge and misconfiguration gauge of every interface
//	            -> ScrapeIdle the same scrape visiting a monitoring / unused interface (0-2 of them, anywhere in the
//	                          interface list, their forwarding flags flipped like the others): its own forwarding
//	                          gauge, no misconfiguration series
//	api         -> Api        GET /_/api/interfaces: router_lifetime_seconds of every interface
//	fault(i,e)  -> GenFail    while State.IPv6Forwarding(i) fails with e (os.ErrPermission bare, EACCES in an
//	                          *os.SyscallError, EPERM in an *fs.PathError, a plain error) one of the above is forced
//	                          for i, flag on or off: nothing may be generated (no RA written / compared, no gauge,
//	                          no API lifetime); one GenFail event per failing read, carrying whatever came out
//
// Per generation the driver records the RA, whether the misconfiguration was surfaced (log line / gauge sample) and
// how many times State.IPv6Forwarding was called for the interface.

import (
	"context"
	"errors"
	"fmt"
	"io/fs"
	"log"
	"net"
	"net/netip"
	"os"
	"sort"
	"strings"
	"sync"
	"syscall"
	"testing"
	"testing/synctest"
	"time"

	"github.com/mdlayher/corerad/internal/config"
	"github.com/mdlayher/corerad/internal/crhttp"
	"github.com/mdlayher/corerad/internal/system"
	"github.com/mdlayher/corerad/internal/verifh"
	"github.com/mdlayher/metricslite"
	"github.com/mdlayher/ndp"
	"github.com/prometheus/client_golang/prometheus"
	"github.com/prometheus/client_golang/prometheus/promhttp"
)

func c04Config(r *verifh.Rand) (toml string, n int, lifetimes []string) {
	var stanzas []string
	n = 1 + r.Intn(3)
	for i := 0; i < n; i++ {
		var b strings.Builder
		fmt.Fprintf(&b, "[[interfaces]]\nname = \"v%d\"\nadvertise = true\nsource_lla = false\n", i)
		maxI := verifh.Pick(r, []int{4, 4, 8, 10, 600})
		fmt.Fprintf(&b, "max_interval = \"%ds\"\n", maxI)
		var lt string
		switch r.Intn(6) {
		case 0:
			lt = "absent"
		case 1:
			lt = "auto"
			b.WriteString("default_lifetime = \"auto\"\n")
		case 2:
			lt = "0s"
			b.WriteString("default_lifetime = \"0s\"\n")
		case 3:
			lt = fmt.Sprintf("%ds", maxI) // lower bound
			fmt.Fprintf(&b, "default_lifetime = %q\n", lt)
		case 4:
			lt = verifh.Pick(r, []string{"9000s", "1800s", "2h30m"})
			fmt.Fprintf(&b, "default_lifetime = %q\n", lt)
		case 5:
			lt = fmt.Sprintf("%dms", maxI*1000+r.Intn(5000)) // fractional seconds: the API truncates
			fmt.Fprintf(&b, "default_lifetime = %q\n", lt)
		}
		lifetimes = append(lifetimes, lt)
		if r.Bool() {
			fmt.Fprintf(&b, "managed = %v\nother_config = %v\nhop_limit = %d\n", r.Bool(), r.Bool(), verifh.Pick(r, []int{0, 64, 255}))
		}
		if r.Bool() {
			fmt.Fprintf(&b, "preference = %q\nreachable_time = %q\nretransmit_timer = %q\n", verifh.Pick(r, []string{"low", "medium", "high"}),
				verifh.Pick(r, []string{"0s", "30s"}), verifh.Pick(r, []string{"0s", "1500ms"}))
		}
		if r.Bool() {
			fmt.Fprintf(&b, "mtu = %d\n", verifh.Pick(r, []int{1280, 1500}))
		}
		if r.Chance(30) {
			b.WriteString("captive_portal = \"https://portal.example.com/api\"\n")
		}
		if r.Chance(60) {
			fmt.Fprintf(&b, "  [[interfaces.prefix]]\n  prefix = \"2001:db8:%d::/64\"\n", i+1)
		}
		if r.Chance(40) {
			b.WriteString("  [[interfaces.route]]\n  prefix = \"2001:db8:ffff::/48\"\n  lifetime = \"600s\"\n")
		}
		if r.Chance(40) {
			b.WriteString("  [[interfaces.rdnss]]\n  servers = [\"2001:db8::53\"]\n")
		}
		if r.Chance(30) {
			b.WriteString("  [[interfaces.dnssl]]\n  domain_names = [\"example.com\"]\n")
		}
		if r.Chance(30) {
			b.WriteString("  [[interfaces.pref64]]\n")
		}
		b.WriteString("\n")
		stanzas = append(stanzas, b.String())
	}
	// interfaces that do not advertise: monitoring (m*) or unused (u*; an unused stanza may carry a full
	// advertising configuration), inserted anywhere -- in particular AFTER an advertising interface
	idle := verifh.Pick(r, []int{0, 1, 1, 2})
	for k := 0; k < idle; k++ {
		var s string
		switch r.Intn(3) {
		case 0:
			s = fmt.Sprintf("[[interfaces]]\nname = \"m%d\"\nmonitor = true\n\n", k)
		case 1:
			s = fmt.Sprintf("[[interfaces]]\nname = \"u%d\"\n\n", k)
		default:
			s = fmt.Sprintf("[[interfaces]]\nname = \"u%d\"\nadvertise = false\ndefault_lifetime = \"1800s\"\n  [[interfaces.prefix]]\n  prefix = \"2001:db8:%d::/64\"\n\n", k, 100+k)
		}
		pos := len(stanzas) // after every advertising interface
		if r.Chance(50) {
			pos = r.Intn(len(stanzas) + 1)
		}
		stanzas = append(stanzas[:pos], append([]string{s}, stanzas[pos:]...)...)
	}
	return strings.Join(stanzas, ""), n, lifetimes
}

// c04State is the shared recording State with an injectable failure of the forwarding read: the read is counted,
// then fails with the scripted error (the flag itself stays what it is).
type c04State struct {
	*mState
	fmu  sync.Mutex
	fail map[string]error
}

func (s *c04State) IPv6Forwarding(iface string) (bool, error) {
	v, err := s.mState.IPv6Forwarding(iface)
	s.fmu.Lock()
	ferr := s.fail[iface]
	s.fmu.Unlock()
	if ferr != nil {
		return false, ferr
	}
	return v, err
}

func (s *c04State) setFailErr(iface string, err error) {
	s.fmu.Lock()
	defer s.fmu.Unlock()
	if err == nil {
		delete(s.fail, iface)
	} else {
		s.fail[iface] = err
	}
}

// c04Faults: the errors a read of /proc/sys/net/ipv6/conf/<if>/forwarding can produce.
func c04Faults(name string) []struct {
	kind string
	err  error
} {
	path := "/proc/sys/net/ipv6/conf/" + name + "/forwarding"
	return []struct {
		kind string
		err  error
	}{
		{"ErrPermission", os.ErrPermission},
		{"SyscallError-EACCES", &os.SyscallError{Syscall: "open", Err: syscall.EACCES}},
		{"PathError-EPERM", &fs.PathError{Op: "open", Path: path, Err: syscall.EPERM}},
		{"wrapped-ErrPermission", fmt.Errorf("read %s: %w", path, os.ErrPermission)},
		{"PathError-ENOENT", &fs.PathError{Op: "open", Path: path, Err: syscall.ENOENT}},
		{"plain", errors.New("verif: forwarding state unavailable")},
	}
}

// newC04Wiring is newMWiring with the failure-injecting State in front of the recording one.
func newC04Wiring(cfg *config.Config, st *c04State) *mWiring {
	w := &mWiring{cfg: cfg, state: st.mState, logs: &mLog{notFwd: map[string]int{}}}
	ll := log.New(w.logs, "", 0)
	w.reg = prometheus.NewPedanticRegistry()
	w.mm = NewMetrics(metricslite.NewPrometheus(w.reg), "verif", time.Time{}, st, cfg.Interfaces)
	w.cctx = NewContext(ll, w.mm, st)
	w.h = crhttp.NewHandler(ll, st, *cfg, promhttp.HandlerFor(w.reg, promhttp.HandlerOpts{}))
	w.srv = NewServer(w.cctx)
	return w
}

type c04Iface struct {
	name     string
	adv      *Advertiser
	conn     *vConn
	cancel   context.CancelFunc
	done     chan error
	started  bool
	stopped  bool
	seen     int // writes consumed
	logs     int // log lines consumed
	reads    int // forwarding reads consumed
	oursMu   sync.Mutex
	ours     []*ndp.RouterAdvertisement
	oursSeen int
}

func TestVerifC04(t *testing.T) {
	out := verifh.Open()
	defer out.Close()
	n := 150
	if verifh.Thorough() {
		n = 4000
	}
	for i := 0; i < n; i++ {
		id := fmt.Sprintf("c04-%d", i)
		if !out.Wants(id) {
			continue
		}
		r := verifh.NewRand(verifh.Seed(), fmt.Sprintf("C04/%d", i))
		toml, _, lifetimes := c04Config(r)
		cfg, err := config.Parse(strings.NewReader(toml), vEpoch)
		if err != nil {
			t.Fatalf("generated configuration rejected: %v\n%s", err, toml)
		}
		synctest.Test(t, func(t *testing.T) { c04Run(t, out, r, id, toml, lifetimes, cfg) })
	}
}

func c04Run(t *testing.T, out *verifh.Out, r *verifh.Rand, id, toml string, lifetimes []string, cfg *config.Config) {
	st := &c04State{mState: newMState(), fail: map[string]error{}}
	w := newC04Wiring(cfg, st)
	in := verifh.NewIntern()

	var ifs []*c04Iface
	var cfgTerms, fwd0Terms []string
	// interfaces that do not advertise: no advertiser, only the shared State / Metrics know them
	var idle []*c04Iface
	idleAfterAdv := false
	for k, ifi := range cfg.Interfaces {
		if ifi.Advertise {
			continue
		}
		x := &c04Iface{name: ifi.Name}
		idle = append(idle, x)
		f := r.Chance(60)
		st.fwd[x.name] = f
		fwd0Terms = append(fwd0Terms, verifh.Pair(in.N("if:"+x.name), verifh.B(f)))
		// what the stanza WOULD advertise (nothing for a monitoring interface): the scrape must not look at it
		if base, _, err := ifi.RouterAdvertisement(true); err == nil {
			cfgTerms = append(cfgTerms, verifh.Pair(in.N("if:"+x.name), coqRA(base, in)))
		}
		if k > 0 && cfg.Interfaces[k-1].Advertise {
			idleAfterAdv = true
		}
	}
	for _, task := range w.srv.BuildTasks(*cfg, w.h) {
		a, ok := task.(*Advertiser)
		if !ok {
			continue
		}
		x := &c04Iface{name: a.cfg.Name, adv: a}
		a.terminate = func() bool { return true }
		a.dialer.DialFunc = func() (*system.DialContext, error) {
			x.conn = newVConn()
			return &system.DialContext{Conn: x.conn, Interface: &net.Interface{Name: x.name, Index: 3, HardwareAddr: vMAC}, IP: netip.MustParseAddr("fe80::1")}, nil
		}
		a.OnInconsistentRA = func(ours, _ *ndp.RouterAdvertisement) {
			x.oursMu.Lock()
			x.ours = append(x.ours, ours)
			x.oursMu.Unlock()
		}
		ifs = append(ifs, x)
		f := r.Chance(60)
		st.fwd[x.name] = f
		fwd0Terms = append(fwd0Terms, verifh.Pair(in.N("if:"+x.name), verifh.B(f)))
		base, _, err := a.cfg.RouterAdvertisement(true)
		if err != nil {
			t.Fatalf("static configuration does not build: %v", err)
		}
		cfgTerms = append(cfgTerms, verifh.Pair(in.N("if:"+x.name), coqRA(base, in)))
	}

	var events, obs []string
	var trace []map[string]any
	pathCount := map[string]int{}
	flips := 0

	genCtor, faultKind := "Gen", "" // "GenFail" while the forwarding read of the interface is made to fail
	faultTags := map[string]bool{}
	emitGen := func(x *c04Iface, path string, ra *ndp.RouterAdvertisement, lifeS *int64, surfaced *bool, fwdGauge *bool, reads int) {
		events = append(events, verifh.App(genCtor, in.N("if:"+x.name), path))
		oRA, oL, oS, oF := verifh.None(), verifh.None(), verifh.None(), verifh.None()
		rec := map[string]any{"iface": x.name, "path": path, "reads": reads, "forwarding": st.fwd[x.name]}
		if genCtor == "GenFail" {
			rec["state_read_error"] = faultKind
			faultTags["fault:"+faultKind], faultTags["fault-path:"+path] = true, true
			faultTags["fault-while-forwarding:"+verifh.B(st.fwd[x.name])] = true
		}
		if ra != nil {
			oRA = verifh.Some(coqRA(ra, in))
			rec["router_lifetime_ns"] = int64(ra.RouterLifetime)
		}
		if lifeS != nil {
			oL = verifh.Some(hZ(*lifeS))
			rec["router_lifetime_seconds"] = *lifeS
		}
		if surfaced != nil {
			oS = verifh.Some(verifh.B(*surfaced))
			rec["misconfiguration_surfaced"] = *surfaced
		}
		if fwdGauge != nil {
			oF = verifh.Some(verifh.B(*fwdGauge))
			rec["forwarding_gauge"] = *fwdGauge
		}
		obs = append(obs, verifh.Some(verifh.App("mkObs", oRA, oL, oS, oF, verifh.N(uint64(reads)))))
		trace = append(trace, rec)
		pathCount[path]++
	}

	// window collects what the advertiser of x produced since the last call: RAs written (classified by classify)
	// and `ours` RAs of consistency checks; log lines and State reads are attributed in order.
	window := func(x *c04Iface, classify func(k, total int, wr vWrite) string) {
		type g struct {
			path string
			ra   *ndp.RouterAdvertisement
		}
		var gens []g
		if x.conn != nil {
			ws := x.conn.snapshot()
			fresh := ws[x.seen:]
			for k, wr := range fresh {
				gens = append(gens, g{classify(k, len(fresh), wr), wr.RA})
			}
			x.seen = len(ws)
		}
		x.oursMu.Lock()
		for _, o := range x.ours[x.oursSeen:] {
			gens = append(gens, g{"Verify", o})
		}
		x.oursSeen = len(x.ours)
		x.oursMu.Unlock()
		logs, reads := w.logs.count(x.name)-x.logs, st.reads(x.name)-x.reads
		x.logs, x.reads = w.logs.count(x.name), st.reads(x.name)
		for k, gg := range gens {
			// lines / reads are attributed in order: one each while they last (within one window the flag of an
			// interface is constant and only the final RA, which is last, has a different configured lifetime);
			// surplus reads go to the last generation
			logged := false
			if logs > 0 {
				logged = true
				logs--
			}
			rd := 0
			if reads > 0 {
				rd = 1
				reads--
			}
			if k == len(gens)-1 {
				rd += reads
				reads = 0
			}
			emitGen(x, gg.path, gg.ra, nil, &logged, nil, rd)
		}
		if logs != 0 || reads != 0 {
			out.Emit(verifh.Case{ID: id + "-stray", ImplViolation: fmt.Sprintf("%s: %d log lines / %d forwarding reads without an RA being generated", x.name, logs, reads),
				Input: map[string]any{"toml": toml}})
		}
	}
	byDst := func(_, _ int, wr vWrite) string {
		if wr.Dst.IsMulticast() {
			return "Periodic"
		}
		return "Solicited"
	}
	allWindows := func() {
		for _, x := range ifs {
			window(x, byDst)
		}
	}

	// faultWindow: what the advertiser of x produced while its forwarding read failed: one GenFail per failing
	// read (and per RA that came out regardless), each carrying the RA that was written / compared, if any.
	faultWindow := func(x *c04Iface, path string) {
		var ras []*ndp.RouterAdvertisement
		if x.conn != nil {
			ws := x.conn.snapshot()
			for _, wr := range ws[x.seen:] {
				ras = append(ras, wr.RA)
			}
			x.seen = len(ws)
		}
		x.oursMu.Lock()
		ras = append(ras, x.ours[x.oursSeen:]...)
		x.oursSeen = len(x.ours)
		x.oursMu.Unlock()
		reads := st.reads(x.name) - x.reads
		x.reads, x.logs = st.reads(x.name), w.logs.count(x.name)
		for k := 0; k < max(reads, len(ras)); k++ {
			var ra *ndp.RouterAdvertisement
			if k < len(ras) {
				ra = ras[k]
			}
			rd := 0
			if k < reads {
				rd = 1
			}
			emitGen(x, path, ra, nil, nil, nil, rd)
		}
		if x.done != nil && !x.stopped {
			select {
			case <-x.done: // Run returned: the advertiser is gone for the rest of the history
				x.stopped = true
			default:
			}
		}
	}
	// fault forces one generation on interface x while its forwarding read fails.
	fault := func(x *c04Iface, script *[]string) {
		f := verifh.Pick(r, c04Faults(x.name))
		var trigs []string
		switch {
		case x.adv == nil:
			trigs = []string{"scrape"}
		case !x.started:
			trigs = []string{"start", "start", "scrape", "api"}
		case !x.stopped:
			trigs = []string{"rs", "rs", "peer", "peer", "advance", "stop", "scrape", "api"}
		default:
			trigs = []string{"scrape", "api"}
		}
		trig := verifh.Pick(r, trigs)
		st.setFailErr(x.name, f.err)
		genCtor, faultKind = "GenFail", f.kind
		defer func() {
			st.setFailErr(x.name, nil)
			genCtor, faultKind = "Gen", ""
		}()
		*script = append(*script, fmt.Sprintf("fault(%s,%s,%s)", x.name, f.kind, trig))
		others := func() {
			genCtor = "Gen"
			for _, y := range ifs {
				if y != x {
					window(y, byDst)
				}
			}
			genCtor = "GenFail"
		}
		resync := func() { // a failed scrape / request: the other interfaces are not observed
			for _, y := range append(append([]*c04Iface{}, ifs...), idle...) {
				y.reads, y.logs = st.reads(y.name), w.logs.count(y.name)
			}
		}
		switch trig {
		case "start":
			x.started = true
			ctx, cancel := context.WithCancel(context.Background())
			x.cancel, x.done = cancel, make(chan error, 1)
			go func() { x.done <- x.adv.Run(ctx) }()
			synctest.Wait()
			faultWindow(x, "Initial")
			others()
		case "rs":
			x.conn.readC <- rs(fmt.Sprintf("fe80::%x", 2+r.Intn(100)))
			time.Sleep(600 * time.Millisecond)
			synctest.Wait()
			faultWindow(x, "Solicited")
			others()
		case "peer":
			x.conn.readC <- vRead{msg: &ndp.RouterAdvertisement{ManagedConfiguration: !x.adv.cfg.Managed, RouterLifetime: 30 * time.Minute},
				hop: ndp.HopLimit, from: netip.MustParseAddr("fe80::ffff")}
			synctest.Wait()
			faultWindow(x, "Verify")
			others()
		case "advance":
			time.Sleep(verifh.Pick(r, []time.Duration{5 * time.Second, 17 * time.Second, 40 * time.Second}))
			synctest.Wait()
			faultWindow(x, "Periodic")
			others()
		case "stop":
			x.cancel()
			select {
			case <-x.done:
				x.stopped = true
			case <-time.After(time.Minute):
				out.Emit(verifh.Case{ID: id + "-stuck", ImplViolation: "advertiser did not stop", Input: map[string]any{"toml": toml}})
			}
			synctest.Wait()
			faultWindow(x, "Final")
			others()
		case "scrape":
			mfs, _ := w.reg.Gather() // expected to fail; whatever was gathered for x is what the scrape exported
			fwdG, mis := c04ScrapeOf(gatherSamples(mfs), x.name)
			rd := st.reads(x.name) - x.reads
			path := "Scrape"
			if x.adv == nil {
				path = "ScrapeIdle"
			}
			emitGen(x, path, nil, nil, &mis, fwdG, rd)
			resync()
		case "api":
			status, body, p := w.get("/_/api/interfaces")
			if p != nil {
				out.Emit(verifh.Case{ID: id + "-api", ImplViolation: fmt.Sprintf("API panicked on a failing state read: %v", p), Input: map[string]any{"toml": toml}})
				resync()
				return
			}
			var ls *int64
			if jb, err := decodeBody(body); status == 200 && err == nil {
				for _, ji := range jb.Interfaces {
					if ji.Interface == x.name && ji.Advertisement != nil {
						v := ji.Advertisement.RouterLifetimeSeconds
						ls = &v
					}
				}
			}
			emitGen(x, "Api", nil, ls, nil, nil, st.reads(x.name)-x.reads)
			resync()
		}
	}

	steps := 10 + r.Intn(18)
	if verifh.Thorough() && r.Chance(10) {
		steps = 60
	}
	var script []string
	for s := 0; s < steps; s++ {
		x := ifs[r.Intn(len(ifs))]
		if r.Chance(8) {
			if len(idle) > 0 && r.Chance(15) {
				x = idle[r.Intn(len(idle))]
			}
			fault(x, &script)
			continue
		}
		op := r.Intn(100)
		if op < 22 && len(idle) > 0 && r.Chance(30) {
			x = idle[r.Intn(len(idle))] // the only thing that happens to an idle interface: its flag flips
		}
		switch {
		case op < 22: // flip
			v := !st.fwd[x.name]
			if r.Chance(15) {
				v = st.fwd[x.name] // a write of the same value
			}
			st.setFwd(x.name, v)
			events = append(events, verifh.App("SetFwd", in.N("if:"+x.name), verifh.B(v)))
			obs = append(obs, verifh.None())
			trace = append(trace, map[string]any{"iface": x.name, "set_forwarding": v})
			script = append(script, fmt.Sprintf("flip(%s,%v)", x.name, v))
			flips++
		case op < 36: // start
			if x.started {
				continue
			}
			x.started = true
			ctx, cancel := context.WithCancel(context.Background())
			x.cancel, x.done = cancel, make(chan error, 1)
			go func() { x.done <- x.adv.Run(ctx) }()
			synctest.Wait()
			script = append(script, "start("+x.name+")")
			window(x, func(k, _ int, wr vWrite) string {
				if k == 0 {
					return "Initial"
				}
				return byDst(0, 0, wr)
			})
		case op < 52: // advance
			d := verifh.Pick(r, []time.Duration{time.Second, 3 * time.Second, 5 * time.Second, 17 * time.Second, 40 * time.Second})
			time.Sleep(d)
			synctest.Wait()
			script = append(script, fmt.Sprintf("advance(%s)", d))
			allWindows()
		case op < 64: // solicited
			if !x.started || x.stopped {
				continue
			}
			x.conn.readC <- rs(fmt.Sprintf("fe80::%x", 2+r.Intn(100)))
			time.Sleep(600 * time.Millisecond)
			synctest.Wait()
			script = append(script, "rs("+x.name+")")
			allWindows()
		case op < 74: // consistency check
			if !x.started || x.stopped {
				continue
			}
			x.conn.readC <- vRead{msg: &ndp.RouterAdvertisement{ManagedConfiguration: !x.adv.cfg.Managed, RouterLifetime: 30 * time.Minute},
				hop: ndp.HopLimit, from: netip.MustParseAddr("fe80::ffff")}
			synctest.Wait()
			script = append(script, "peer("+x.name+")")
			allWindows()
		case op < 80: // stop
			if !x.started || x.stopped {
				continue
			}
			x.stopped = true
			x.cancel()
			select {
			case <-x.done:
			case <-time.After(time.Minute):
				out.Emit(verifh.Case{ID: id + "-stuck", ImplViolation: "advertiser did not stop", Input: map[string]any{"toml": toml}})
			}
			synctest.Wait()
			script = append(script, "stop("+x.name+")")
			window(x, func(k, total int, wr vWrite) string {
				if k == total-1 {
					return "Final"
				}
				return byDst(0, 0, wr)
			})
		case op < 90: // scrape
			mfs, err := w.reg.Gather()
			script = append(script, "scrape")
			if err != nil {
				out.Emit(verifh.Case{ID: id + "-gather", ImplViolation: "Gather failed for a static configuration: " + err.Error(), Input: map[string]any{"toml": toml}})
				continue
			}
			ss := gatherSamples(mfs)
			for _, x := range ifs {
				var fwdG *bool
				mis := false
				for _, smp := range ss {
					if len(smp.Labels) == 0 {
						continue
					}
					isX := false
					for _, l := range smp.Labels {
						if l[0] == "interface" && l[1] == x.name {
							isX = true
						}
					}
					if !isX {
						continue
					}
					switch smp.Name {
					case ifiForwarding:
						v := smp.Value == 1
						fwdG = &v
					case advMisconfiguration:
						for _, l := range smp.Labels {
							if l[0] == "details" && l[1] == "interface_not_forwarding" && smp.Value == 1 {
								mis = true
							}
						}
					}
				}
				rd := st.reads(x.name) - x.reads
				x.reads = st.reads(x.name)
				x.logs = w.logs.count(x.name)
				emitGen(x, "Scrape", nil, nil, &mis, fwdG, rd)
			}
			for _, x := range idle {
				fwdG, mis := c04ScrapeOf(ss, x.name)
				rd := st.reads(x.name) - x.reads
				x.reads = st.reads(x.name)
				emitGen(x, "ScrapeIdle", nil, nil, &mis, fwdG, rd)
			}
		default: // api
			status, body, p := w.get("/_/api/interfaces")
			script = append(script, "api")
			if p != nil || status != 200 {
				out.Emit(verifh.Case{ID: id + "-api", ImplViolation: fmt.Sprintf("API answered %d / panic %v for a static configuration", status, p), Input: map[string]any{"toml": toml}})
				continue
			}
			jb, err := decodeBody(body)
			if err != nil {
				out.Emit(verifh.Case{ID: id + "-api", ImplViolation: "undecodable body: " + err.Error(), Input: map[string]any{"toml": toml}})
				continue
			}
			for _, x := range ifs {
				var ls *int64
				for _, ji := range jb.Interfaces {
					if ji.Interface == x.name && ji.Advertisement != nil {
						v := ji.Advertisement.RouterLifetimeSeconds
						ls = &v
					}
				}
				rd := st.reads(x.name) - x.reads
				x.reads = st.reads(x.name)
				emitGen(x, "Api", nil, ls, nil, nil, rd)
			}
		}
	}
	// tear down whatever still runs (not part of the case)
	for _, x := range ifs {
		if x.started && !x.stopped {
			x.cancel()
			<-x.done
		}
	}
	synctest.Wait()

	tags := []string{fmt.Sprintf("interfaces:%d", len(ifs)), fmt.Sprintf("idle-interfaces:%d", len(idle))}
	if idleAfterAdv {
		tags = append(tags, "idle-listed-after-advertising")
	}
	for _, lt := range lifetimes {
		switch {
		case lt == "absent" || lt == "auto" || lt == "0s":
			tags = append(tags, "default_lifetime:"+lt)
		default:
			tags = append(tags, "default_lifetime:explicit")
		}
	}
	for p, c := range pathCount {
		if c > 0 {
			tags = append(tags, "path:"+p)
		}
	}
	if flips > 0 {
		tags = append(tags, "flips")
	}
	var ft []string
	for tg := range faultTags {
		ft = append(ft, tg)
	}
	sort.Strings(ft)
	tags = append(tags, ft...)
	out.Emit(verifh.Case{
		ID:       id,
		Coq:      verifh.App("mkCase", verifh.List(cfgTerms), verifh.List(fwd0Terms), verifh.List(events), verifh.List(obs)),
		Input:    map[string]any{"toml": toml, "script": script, "flips": flips, "generations": len(events) - flips},
		Observed: trace,
		Tags:     tags,
	})
}

// c04ScrapeOf projects one scrape onto an interface that does not advertise: its forwarding gauge and whether
// ANY corerad_advertiser_misconfiguration series carries its name (whatever the details label and the value).
func c04ScrapeOf(ss []mSample, name string) (fwdG *bool, mis bool) {
	for _, smp := range ss {
		isX := false
		for _, l := range smp.Labels {
			if l[0] == "interface" && l[1] == name {
				isX = true
			}
		}
		if !isX {
			continue
		}
		switch smp.Name {
		case ifiForwarding:
			v := smp.Value == 1
			fwdG = &v
		case advMisconfiguration:
			mis = true
		}
	}
	return fwdG, mis
}
