//go:build verif && go1.25

package corerad

// Real parallelism (no virtual clock, all Ps): what runs side by side in the daemon -- send workers against
// the scheduler's stop, scrapes against scrapes, monitors of different interfaces, listeners sharing one
// Context -- must give every party its own, exact result.  Sequentially identical code with a shared cache,
// pool or unsynchronised fast path shows only here.  Assertions on the implementation; a crash of the test
// binary ("concurrent map writes") is reported by the runner as a failed driver run.

import (
	"context"
	"fmt"
	"io"
	"log"
	"net/netip"
	"os"
	"reflect"
	"runtime"
	"sort"
	"strings"
	"sync"
	"sync/atomic"
	"testing"
	"time"

	"github.com/mdlayher/corerad/internal/config"
	"github.com/mdlayher/corerad/internal/plugin"
	"github.com/mdlayher/corerad/internal/verifh"
	"github.com/mdlayher/metricslite"
	"github.com/mdlayher/ndp"
)

func TestVerifParallel(t *testing.T) {
	out := verifh.Open()
	defer out.Close()
	rounds := 1
	if verifh.Thorough() {
		rounds = 5
	}
	// VERIF_PAR selects the sections (each property runs the one that concerns it); empty = all
	sel := os.Getenv("VERIF_PAR")
	want := func(id, section string) bool {
		return out.Wants(id) && (sel == "" || strings.Contains(sel, section))
	}

	// ---- (a) workers: once stop() has returned nothing is in flight and nothing starts any more
	if want("par-workers", "workers") {
		var viol string
		n := 1500 * rounds
		for r := 0; r < n && viol == ""; r++ {
			var ws workers
			var active, lateStart, starts atomic.Int64
			var stopped atomic.Bool
			var wg sync.WaitGroup
			for g := 0; g < 3; g++ {
				wg.Add(1)
				go func() {
					defer wg.Done()
					for i := 0; i < 400; i++ {
						if !ws.start() {
							return
						}
						if stopped.Load() {
							lateStart.Add(1)
						}
						active.Add(1)
						starts.Add(1)
						active.Add(-1)
						ws.done()
					}
				}()
			}
			// stop while the workers are busy starting and finishing transmissions
			for k := int64(1 + r%40); starts.Load() < k; {
				runtime.Gosched()
			}
			ws.stop()
			if a := active.Load(); a != 0 {
				viol = fmt.Sprintf("round %d: stop() returned while %d transmissions were in flight", r, a)
			}
			stopped.Store(true)
			wg.Wait()
			if l := lateStart.Load(); l != 0 && viol == "" {
				viol = fmt.Sprintf("round %d: %d transmissions started after stop() had returned", r, l)
			}
		}
		out.Emit(verifh.Case{ID: "par-workers", Input: map[string]any{"kind": "parallel-workers", "rounds": n}, Tags: []string{"parallel:workers"}, ImplViolation: viol})
	}

	// ---- (b) several scrapes of one Metrics value at once, cold: each equals the sequential result
	if want("par-scrapes", "scrapes") {
		var viol string
		for r := 0; r < 20*rounds && viol == ""; r++ {
			var ifis []config.Interface
			for i := 0; i < 4; i++ {
				ifi := config.Interface{Name: fmt.Sprintf("v%d", i), Advertise: true, HopLimit: 64, DefaultLifetime: 1800 * time.Second,
					MinInterval: 200 * time.Second, MaxInterval: 600 * time.Second}
				for j := 0; j < 30; j++ {
					ifi.Plugins = append(ifi.Plugins, &plugin.Prefix{Prefix: netip.MustParsePrefix(fmt.Sprintf("2001:db8:%x:%x::/64", r*8+i, j)), OnLink: true,
						Autonomous: true, ValidLifetime: time.Hour, PreferredLifetime: time.Minute})
					ifi.Plugins = append(ifi.Plugins, &plugin.Route{Prefix: netip.MustParsePrefix(fmt.Sprintf("fd00:%x:%x::/48", r*8+i, j)), Preference: ndp.Medium, Lifetime: time.Hour})
				}
				ifis = append(ifis, ifi)
			}
			st := newVState()
			for _, ifi := range ifis {
				st.forwarding[ifi.Name] = true
			}
			mm := NewMetrics(metricslite.NewMemory(), "verif", time.Time{}, st, ifis)
			results := make([]map[string]metricslite.Series, 4)
			var wg sync.WaitGroup
			for g := range results {
				wg.Add(1)
				go func(g int) {
					defer wg.Done()
					results[g], _ = mm.Series()
				}(g)
			}
			wg.Wait()
			ref, _ := mm.Series()
			for g, got := range results {
				if !reflect.DeepEqual(parSamples(got), parSamples(ref)) {
					viol = fmt.Sprintf("round %d: scrape %d of four simultaneous scrapes differs from a scrape taken alone afterwards", r, g)
				}
			}
		}
		out.Emit(verifh.Case{ID: "par-scrapes", Input: map[string]any{"kind": "parallel-scrapes"}, Tags: []string{"parallel:scrapes"}, ImplViolation: viol})
	}

	// ---- (c) monitors of different interfaces at once, each hearing its own prefixes, with a scraper beside them
	if want("par-monitors", "monitors") {
		var viol string
		mem := metricslite.NewMemory()
		mm := NewMetrics(mem, "verif", time.Time{}, nil, nil)
		cctx := NewContext(nil, mm, nil)
		const nm, per, repeat = 3, 6000, 60000
		var wg sync.WaitGroup
		stop := make(chan struct{})
		go func() {
			for {
				select {
				case <-stop:
					return
				default:
					mm.Series()
					time.Sleep(2 * time.Millisecond)
				}
			}
		}()
		for m := 0; m < nm; m++ {
			wg.Add(1)
			go func(m int) {
				defer wg.Done()
				mon := NewMonitor(cctx, fmt.Sprintf("mon%d", m), nil, nil, false)
				for j := 0; j < per; j++ {
					pfx := netip.AddrFrom16([16]byte{0x20, 0x01, 0x0d, 0xb8, byte(m + 1), byte(j >> 8), byte(j)})
					mon.handle(&ndp.RouterAdvertisement{RouterLifetime: 30 * time.Minute, Options: []ndp.Option{
						&ndp.PrefixInformation{PrefixLength: 64, Prefix: pfx, ValidLifetime: time.Hour, PreferredLifetime: time.Minute}}}, fmt.Sprintf("fe80::%x", m+1))
				}
				// ... and then what a link looks like most of the time: its router repeating one and the same prefix
				own := netip.AddrFrom16([16]byte{0x20, 0x01, 0x0d, 0xb8, byte(m + 1), 0xff, 0xff})
				ra := &ndp.RouterAdvertisement{RouterLifetime: 30 * time.Minute, Options: []ndp.Option{
					&ndp.PrefixInformation{PrefixLength: 64, Prefix: own, ValidLifetime: time.Hour, PreferredLifetime: time.Minute}}}
				for j := 0; j < repeat*rounds; j++ {
					mon.handle(ra, fmt.Sprintf("fe80::%x", m+1))
				}
			}(m)
		}
		wg.Wait()
		close(stop)
		snap := v18Snapshot(mem)
		count := map[int]int{}
		for k := range snap {
			if !strings.HasPrefix(k, "corerad_monitor_prefix_valid_expiration_timestamp_seconds|") {
				continue
			}
			for m := 0; m < nm; m++ {
				if strings.Contains(k, fmt.Sprintf("interface=mon%d,", m)) {
					count[m]++
					if !strings.Contains(k, fmt.Sprintf("prefix=2001:db8:%x", (m+1)<<8)) && !strings.Contains(k, fmt.Sprintf("prefix=2001:db8:%x", m+1)) {
						viol = "a monitor's gauge carries a prefix it never received: " + k
					}
				}
			}
		}
		for m := 0; m < nm && viol == ""; m++ {
			if count[m] != per+1 {
				viol = fmt.Sprintf("monitor mon%d received %d distinct prefixes but %d are described", m, per+1, count[m])
			}
		}
		out.Emit(verifh.Case{ID: "par-monitors", Input: map[string]any{"kind": "parallel-monitors"}, Tags: []string{"parallel:monitors"}, ImplViolation: viol})
	}

	// ---- (d) listeners of several interfaces share one Context: floods of invalid messages from distinct hosts on all of
	// them at once, then one valid message each
	if want("par-listeners", "listeners") {
		var viol string
		mem := metricslite.NewMemory()
		mm := NewMetrics(mem, "verif", time.Time{}, nil, nil)
		cctx := NewContext(log.New(io.Discard, "", 0), mm, nil)
		const nl, flood = 3, 20000
		var wg sync.WaitGroup
		delivered := make([]atomic.Int64, nl)
		for l := 0; l < nl; l++ {
			wg.Add(1)
			go func(l int) {
				defer wg.Done()
				conn := newVConn()
				lis := newListener(cctx, fmt.Sprintf("lis%d", l), conn)
				ctx, cancel := context.WithCancel(context.Background())
				done := make(chan error, 1)
				go func() {
					done <- lis.Listen(ctx, func(message) error { delivered[l].Add(1); return nil })
				}()
				for j := 0; j < flood*rounds; j++ {
					from := netip.AddrFrom16([16]byte{0xfe, 0x80, 8: byte(l + 1), 13: byte(j >> 16), 14: byte(j >> 8), 15: byte(j)}).WithZone("v0")
					var m ndp.Message = &ndp.RouterSolicitation{}
					if j%3 == 0 {
						// options, but no link-layer address among them
						m = &ndp.RouterAdvertisement{Options: []ndp.Option{ndp.NewMTU(1500)}}
					}
					conn.readC <- vRead{msg: m, hop: 64, from: from}
				}
				conn.readC <- vRead{msg: &ndp.RouterSolicitation{}, hop: 255, from: netip.MustParseAddr("fe80::99%v0")}
				for i := 0; i < 5000 && delivered[l].Load() == 0; i++ {
					time.Sleep(time.Millisecond)
				}
				cancel()
				select {
				case <-done:
				case <-time.After(5 * time.Second):
				}
			}(l)
		}
		wg.Wait()
		for l := 0; l < nl && viol == ""; l++ {
			if d := delivered[l].Load(); d != 1 {
				viol = fmt.Sprintf("listener lis%d delivered %d messages after a flood of invalid ones, want exactly the one valid message", l, d)
			}
		}
		inv := 0.0
		for name, s := range mem.Series() {
			if name == msgInvalid {
				for _, v := range s.Samples {
					inv += v
				}
			}
		}
		if want := float64(nl * flood * rounds); inv != want && viol == "" {
			viol = fmt.Sprintf("%v invalid messages counted, %v were received", inv, want)
		}
		out.Emit(verifh.Case{ID: "par-listeners", Input: map[string]any{"kind": "parallel-listeners"}, Tags: []string{"parallel:listeners"}, ImplViolation: viol})
	}
}

// parSamples flattens a Series map into sorted "name|labels=value" strings.
func parSamples(m map[string]metricslite.Series) []string {
	var l []string
	for name, s := range m {
		for k, v := range s.Samples {
			l = append(l, fmt.Sprintf("%s|%s=%v", name, k, v))
		}
	}
	sort.Strings(l)
	return l
}
