//go:build verif && go1.25 && linux

package corerad

// Time that passes where the code does not expect it.
//
// TestVerifSlowSink (real clock; inside a synctest bubble a sleeping sink would hold log.Logger's mutex, on which
// other loggers block non-durably, and the bubble's clock would stop): verbose logging into a sink that takes 1.3 s
// per line during every other 3 s window (stderr piped to a journald that stalls and recovers, a serial console, a
// terminal in scroll lock).  Wherever the advertiser logs, the spacing of multicast RAs (C06) and one answer per
// solicitation hold: a log call is not allowed to sit between "compute the instant" and "arm the timer".
//
// TestVerifStall (real clock): the whole process stops for 1.2 s (SIGSTOP/SIGCONT: job control, docker pause, a paused
// VM) while answers are due.  Every solicitation received before the stall is still answered exactly once.

import (
	"errors"
	"fmt"
	"io"
	"net"
	"net/netip"
	"os"
	"os/exec"
	"runtime"
	"strings"
	"sync"
	"syscall"
	"testing"
	"testing/synctest"
	"time"

	"github.com/mdlayher/corerad/internal/config"
	"github.com/mdlayher/corerad/internal/plugin"
	"github.com/mdlayher/corerad/internal/verifh"
	"github.com/mdlayher/ndp"
)

// vSlowSink takes 1.3 s per line during every other 3 s window (a journald that stalls and recovers), on the real clock.
type vSlowSink struct {
	start time.Time
	lines int
	slow  int
}

func (s *vSlowSink) Write(p []byte) (int, error) {
	s.lines++
	if !s.start.IsZero() && int(time.Since(s.start)/(3*time.Second))%2 == 1 {
		s.slow++
		time.Sleep(1300 * time.Millisecond)
	}
	return len(p), nil
}

func vSlowSinkRun(forwarding bool) (viol []string, obs map[string]any) {
	allNodes := netip.MustParseAddr("ff02::1")
	sink := &vSlowSink{}
	vSlowMu.Lock()
	vLogSink = sink
	cfg := config.Interface{Name: "v0", Advertise: true, Verbose: true, MinInterval: 200 * time.Second, MaxInterval: 600 * time.Second,
		HopLimit: 64, DefaultLifetime: 1800 * time.Second, Plugins: []plugin.Plugin{&plugin.LLA{}}}
	v := newVAdvertiser(cfg, func() bool { return false })
	vLogSink = io.Discard
	vSlowMu.Unlock()
	v.state.setForwarding("v0", forwarding)
	cancel, done := v.run()
	select {
	case <-v.ad.Ready():
	case <-time.After(5 * time.Second):
	}
	start := time.Now()
	sink.start = start
	// a solicitation from the unspecified address every 700 ms: the multicast answers are rate limited to one per 3 s
	// for the whole run; five hosts with addresses solicit as well
	hosts := 0
	for k := 0; k < 24; k++ {
		time.Sleep(time.Until(start.Add(time.Duration(k) * 700 * time.Millisecond)))
		v.cur().readC <- rs("::")
		if k%5 == 2 {
			hosts++
			v.cur().readC <- rs(fmt.Sprintf("fe80::%x", 0x200+hosts))
		}
	}
	time.Sleep(6 * time.Second)
	ws := v.cur().snapshot()
	cancel()
	<-done
	var multicasts, unicasts int
	var last int64 = -1
	answered := map[string]int{}
	for _, w := range ws {
		if w.Dst == allNodes {
			multicasts++
			if last >= 0 && w.Begin-last < int64(2700*time.Millisecond) {
				viol = append(viol, fmt.Sprintf("multicast RAs %.3fs apart (at +%.3fs), less than MIN_DELAY_BETWEEN_RAS minus 0.3 s of measurement slack, while the log sink stalls and recovers",
					float64(w.Begin-last)/1e9, float64(w.Begin-vNowAt(start))/1e9))
			}
			last = w.Begin
		} else {
			unicasts++
			answered[w.Dst.WithZone("").String()]++
		}
	}
	for h := 1; h <= hosts; h++ {
		if n := answered[fmt.Sprintf("fe80::%x", 0x200+h)]; n != 1 {
			viol = append(viol, fmt.Sprintf("the solicitation of fe80::%x was answered %d times, want exactly once", 0x200+h, n))
		}
	}
	if multicasts < 4 {
		viol = append(viol, fmt.Sprintf("only %d multicast RAs in 22 s of solicitations from ::", multicasts))
	}
	if len(viol) > 3 {
		viol = viol[:3]
	}
	return viol, map[string]any{"multicast": multicasts, "unicast": unicasts, "log_lines": sink.lines, "slow_lines": sink.slow}
}

var vSlowMu sync.Mutex

func TestVerifSlowSink(t *testing.T) {
	out := verifh.Open()
	defer out.Close()
	if !out.Wants("slowsink") && !out.Wants("slowsink-not-forwarding") {
		return
	}
	type res struct {
		viol []string
		obs  map[string]any
	}
	a, b := make(chan res, 1), make(chan res, 1)
	go func() { v, o := vSlowSinkRun(true); a <- res{v, o} }()
	go func() { v, o := vSlowSinkRun(false); b <- res{v, o} }()
	ra, rb := <-a, <-b
	out.Emit(verifh.Case{ID: "slowsink", Input: map[string]any{"kind": "slow-log-sink", "verbose": true, "forwarding": true},
		Observed: ra.obs, Tags: []string{"stream:slow-log-sink"}, ImplViolation: strings.Join(ra.viol, "; ")})
	// on an interface that is NOT forwarding the advertiser itself logs a warning for every RA it builds -- inside the
	// send worker, after the scheduler has booked the transmission: known finding log_before_write_not_forwarding
	out.Emit(verifh.Case{ID: "slowsink-not-forwarding", Input: map[string]any{"kind": "slow-log-sink", "verbose": true, "forwarding": false},
		Observed: rb.obs, Tags: []string{"stream:slow-log-sink", "forwarding:off"}, ImplViolation: strings.Join(rb.viol, "; "), Class: "log_before_write_not_forwarding"})
}

// vNowAt is the virtual-ns stamp of an instant.
func vNowAt(t time.Time) int64 { return int64(t.Sub(vEpoch)) }

func TestVerifStall(t *testing.T) {
	out := verifh.Open()
	defer out.Close()
	if !out.Wants("stall-sigstop") {
		return
	}
	c := verifh.Case{ID: "stall-sigstop", Input: map[string]any{"kind": "process-stall", "stall": "1.2s"}, Tags: []string{"stream:process-stall"}}
	sh, err := exec.LookPath("sh")
	if err != nil {
		c.Tags = append(c.Tags, "stall:unavailable")
		out.Emit(c)
		return
	}
	const hosts = 40
	cfg := config.Interface{Name: "v0", Advertise: true, MinInterval: 200 * time.Second, MaxInterval: 600 * time.Second,
		HopLimit: 64, DefaultLifetime: 1800 * time.Second, Plugins: []plugin.Plugin{&plugin.LLA{}}}
	v := newVAdvertiser(cfg, func() bool { return false })
	cancel, done := v.run()
	select {
	case <-v.ad.Ready():
	case <-time.After(5 * time.Second):
	}
	time.Sleep(100 * time.Millisecond)
	for h := 0; h < hosts; h++ {
		v.cur().readC <- rs(fmt.Sprintf("fe80::%x", 0x300+h))
	}
	received := func() float64 {
		return metricVal(v.mm, "corerad_advertiser_messages_received_total", "interface=v0,message=router solicitation")
	}
	for i := 0; i < 400 && received() < hosts; i++ {
		time.Sleep(time.Millisecond)
	}
	// every answer is scheduled within the next 500 ms; now the process does not run for 1.2 s
	pid := os.Getpid()
	helper := exec.Command(sh, "-c", fmt.Sprintf("sleep 1.2; kill -CONT %d; sleep 0.5; kill -CONT %d; sleep 2; kill -CONT %d", pid, pid, pid))
	if err := helper.Start(); err != nil {
		cancel()
		<-done
		c.Tags = append(c.Tags, "stall:unavailable")
		out.Emit(c)
		return
	}
	before := time.Now()
	_ = syscall.Kill(pid, syscall.SIGSTOP)
	time.Sleep(10 * time.Millisecond)
	stalled := time.Since(before)
	time.Sleep(1500 * time.Millisecond) // the latest answer was due 500 ms after its solicitation
	ws := v.cur().snapshot()
	uni := metricVal(v.mm, "corerad_advertiser_router_advertisements_total", "interface=v0,type=unicast")
	cancel()
	<-done
	go func() { _ = helper.Wait() }()
	answered := map[string]int{}
	for _, w := range ws {
		if !w.Dst.IsMulticast() {
			answered[w.Dst.WithZone("").String()]++
		}
	}
	var viol []string
	missing := 0
	for h := 0; h < hosts; h++ {
		if n := answered[fmt.Sprintf("fe80::%x", 0x300+h)]; n != 1 {
			missing++
			if len(viol) < 2 {
				viol = append(viol, fmt.Sprintf("the solicitation of fe80::%x, received before the process was stopped for %v, was answered %d times, want exactly once", 0x300+h, stalled.Round(10*time.Millisecond), n))
			}
		}
	}
	if missing > 0 {
		viol = append(viol, fmt.Sprintf("%d of %d solicitations lost; unicast counter %v", missing, hosts, uni))
	} else if uni != hosts {
		viol = append(viol, fmt.Sprintf("unicast RA counter is %v after %d answers", uni, hosts))
	}
	c.Observed = map[string]any{"received": received(), "answered": len(answered), "stalled_for": stalled.String()}
	if stalled < 800*time.Millisecond {
		c.Tags = append(c.Tags, "stall:unavailable") // the stop did not take effect here
	} else {
		c.Tags = append(c.Tags, "stall:available")
		c.ImplViolation = strings.Join(viol, "; ")
	}
	out.Emit(c)
}

// TestVerifC07Crowd (real clock): 10000 (thorough: 70000) hosts solicit within a few milliseconds -- more pending
// answers than any table, queue or threshold one would pick.  Every one of them is answered exactly once, by unicast,
// within MAX_RA_DELAY_TIME (plus slack), and the counters agree.
func TestVerifC07Crowd(t *testing.T) {
	out := verifh.Open()
	defer out.Close()
	if !out.Wants("crowd") {
		return
	}
	hosts := 10000
	if verifh.Thorough() {
		hosts = 70000
	}
	cfg := config.Interface{Name: "v0", Advertise: true, MinInterval: 200 * time.Second, MaxInterval: 600 * time.Second,
		HopLimit: 64, DefaultLifetime: 1800 * time.Second, Plugins: []plugin.Plugin{&plugin.LLA{}}}
	v := newVAdvertiser(cfg, func() bool { return false })
	cancel, done := v.run()
	select {
	case <-v.ad.Ready():
	case <-time.After(5 * time.Second):
	}
	time.Sleep(50 * time.Millisecond)
	t0 := time.Now()
	for h := 0; h < hosts; h++ {
		from := netip.AddrFrom16([16]byte{0xfe, 0x80, 8: 7, 13: byte(h >> 16), 14: byte(h >> 8), 15: byte(h)}).WithZone("v0")
		// solicitations as hosts send them: bare, with their link-layer address, with options a router does not know
		// (a SEND nonce, a vendor option) -- RFC 4861 4.1: unrecognised options are ignored, the solicitation is valid
		rsm := &ndp.RouterSolicitation{}
		switch h % 5 {
		case 1:
			rsm.Options = []ndp.Option{&ndp.LinkLayerAddress{Direction: ndp.Source, Addr: net.HardwareAddr{2, 0, 0, byte(h >> 16), byte(h >> 8), byte(h)}}}
		case 2:
			rsm.Options = []ndp.Option{&ndp.RawOption{Type: 14, Length: 1, Value: []byte{1, 2, 3, 4, 5, 6}}}
		case 3:
			rsm.Options = []ndp.Option{&ndp.LinkLayerAddress{Direction: ndp.Source, Addr: net.HardwareAddr{2, 0, 0, 1, 2, 3}},
				&ndp.RawOption{Type: 200, Length: 2, Value: make([]byte, 14)}}
		case 4:
			rsm.Options = []ndp.Option{&ndp.LinkLayerAddress{Direction: ndp.Target, Addr: net.HardwareAddr{2, 0, 0, 1, 2, 4}}}
		}
		v.cur().readC <- vRead{msg: rsm, hop: ndp.HopLimit, from: from}
	}
	fed := time.Since(t0)
	received := func() float64 {
		return metricVal(v.mm, "corerad_advertiser_messages_received_total", "interface=v0,message=router solicitation")
	}
	for i := 0; i < 1000 && received() < float64(hosts); i++ {
		time.Sleep(5 * time.Millisecond)
	}
	time.Sleep(1200 * time.Millisecond)
	ws := v.cur().snapshot()
	uni := metricVal(v.mm, "corerad_advertiser_router_advertisements_total", "interface=v0,type=unicast")
	multi := metricVal(v.mm, "corerad_advertiser_router_advertisements_total", "interface=v0,type=multicast")
	cancel()
	<-done
	answered := map[netip.Addr]int{}
	multicasts := 0
	for _, w := range ws {
		if w.Dst.IsMulticast() {
			multicasts++
		} else {
			answered[w.Dst.WithZone("")]++
		}
	}
	var viol []string
	missing, twice := 0, 0
	for h := 0; h < hosts; h++ {
		from := netip.AddrFrom16([16]byte{0xfe, 0x80, 8: 7, 13: byte(h >> 16), 14: byte(h >> 8), 15: byte(h)})
		switch n := answered[from]; {
		case n == 0:
			missing++
		case n > 1:
			twice++
		}
	}
	if missing > 0 || twice > 0 {
		viol = append(viol, fmt.Sprintf("%d hosts solicited within %v: %d got no unicast answer, %d got more than one", hosts, fed.Round(time.Millisecond), missing, twice))
	}
	if multicasts != 1 {
		viol = append(viol, fmt.Sprintf("%d multicast RAs went out (the initial one is due; solicitations from specified sources are answered by unicast)", multicasts))
	}
	if uni != float64(hosts) || multi != 0 || received() != float64(hosts) {
		// (the initial RA is not a scheduled transmission and is not counted)
		viol = append(viol, fmt.Sprintf("counters: received %v, unicast %v, scheduled multicast %v; want %d, %d, 0", received(), uni, multi, hosts, hosts))
	}
	out.Emit(verifh.Case{ID: "crowd", Input: map[string]any{"kind": "crowd", "hosts": hosts, "Events": []map[string]any{{"Src": "fe80::7:0:0"}}},
		Observed: map[string]any{"answered": len(answered), "fed_in": fed.String()}, Tags: []string{"stream:crowd"}, ImplViolation: strings.Join(viol, "; ")})
}

// TestVerifC05Redial (virtual clock): the connection dies (a transmission fails with ENETDOWN) while solicitations
// from the unspecified address are in the scheduler's queue.  Whatever the advertiser kept about that queue, the
// next incarnation -- a healthy connection -- sends its unsolicited multicast RAs for ever, like a fresh one (C05).
func TestVerifC05Redial(t *testing.T) {
	out := verifh.Open()
	defer out.Close()
	if !out.Wants("redial-with-queue") {
		return
	}
	defer runtime.GOMAXPROCS(runtime.GOMAXPROCS(1))
	var viol string
	attempts := 24
	for a := 0; a < attempts && viol == ""; a++ {
		synctest.Test(t, func(t *testing.T) {
			time.Sleep(time.Duration(a) * 137 * time.Millisecond)
			cfg := config.Interface{Name: "v0", Advertise: true, MinInterval: 3 * time.Second, MaxInterval: 4 * time.Second,
				HopLimit: 64, DefaultLifetime: 1800 * time.Second, Plugins: []plugin.Plugin{&plugin.LLA{}}}
			v := newVAdvertiser(cfg, func() bool { return false })
			c0 := v.cur()
			writes := 0
			c0.onWrite = func(w *vWrite) error {
				writes++
				if v.cur() == c0 && writes > 1+a%3 {
					// ... and at this very moment another host solicits from the unspecified address
					for k := 0; k < 1+a%2; k++ {
						select {
						case c0.readC <- rs("::"):
						default:
						}
					}
					return &net.OpError{Op: "write", Net: "ip6:ipv6-icmp", Err: os.NewSyscallError("sendmsg", syscall.ENETDOWN)}
				}
				return nil
			}
			cancel, done := v.run()
			time.Sleep(time.Duration(3000+500*(a%5)) * time.Millisecond)
			// a burst of solicitations from the unspecified address, back to back
			for k := 0; k < 2+a%4; k++ {
				select {
				case c0.readC <- rs("::"):
				default:
				}
			}
			time.Sleep(90 * time.Second)
			synctest.Wait()
			cur := v.cur()
			n := 0
			for _, w := range cur.snapshot() {
				if w.Dst.IsMulticast() && w.Err == nil {
					n++
				}
			}
			if cur == c0 {
				// the failure did not lead to a new connection in this attempt: nothing to say
			} else if n < 10 {
				viol = fmt.Sprintf("attempt %d: after the connection died with solicitations from :: in the queue, the next (healthy) connection carried %d multicast RAs in about 85 s, want one every 3..4 s", a, n)
			}
			cancel()
			<-done
		})
	}
	out.Emit(verifh.Case{ID: "redial-with-queue", Input: map[string]any{"kind": "redial-with-queue", "attempts": attempts, "Min": 3e9},
		Tags: []string{"stream:redial-with-queue"}, Observed: "ok", ImplViolation: viol})
}

// TestVerifC10Initial (virtual clock): the policy of C10 applied to the FIRST transmission of a connection, the initial
// RA sent before any other activity starts: a non-permission system call error (the link went down again the moment it
// came up: ENETDOWN, EINVAL while the address is being removed, ENOBUFS) is a recoverable cause -- the task is
// re-established on a new connection and goes on; a permission error or any other error ends it with a reported error.
func TestVerifC10Initial(t *testing.T) {
	out := verifh.Open()
	defer out.Close()
	type tc struct {
		name        string
		err         error
		recoverable bool
	}
	sys := func(op string, e syscall.Errno) error {
		return &net.OpError{Op: "write", Net: "ip6:ipv6-icmp", Err: os.NewSyscallError(op, e)}
	}
	for k, c := range []tc{
		{"ENETDOWN", sys("sendmsg", syscall.ENETDOWN), true},
		{"EINVAL", sys("sendmsg", syscall.EINVAL), true},
		{"ENOBUFS", os.NewSyscallError("sendmsg", syscall.ENOBUFS), true},
		{"EPERM", sys("sendmsg", syscall.EPERM), false},
		{"EACCES", os.NewSyscallError("sendmsg", syscall.EACCES), false},
		{"other", errors.New("verif: opaque transmit failure"), false},
	} {
		id := fmt.Sprintf("c10-initial-%d-%s", k, c.name)
		if !out.Wants(id) {
			continue
		}
		var viol string
		var dials, goodWrites int
		var runErr error
		returned := false
		synctest.Test(t, func(t *testing.T) {
			cfg := config.Interface{Name: "v0", Advertise: true, MinInterval: 200 * time.Second, MaxInterval: 600 * time.Second,
				HopLimit: 64, DefaultLifetime: 1800 * time.Second, Plugins: []plugin.Plugin{&plugin.LLA{}}}
			v := newVAdvertiser(cfg, func() bool { return false })
			c0 := v.cur()
			c0.onWrite = func(w *vWrite) error {
				if v.cur() == c0 {
					return c.err // the initial RA of the first connection cannot be sent
				}
				return nil
			}
			cancel, done := v.run()
			time.Sleep(10 * time.Second)
			synctest.Wait()
			select {
			case runErr = <-done:
				returned = true
			default:
			}
			v.mu.Lock()
			dials = len(v.conns)
			v.mu.Unlock()
			if cur := v.cur(); cur != c0 {
				for _, w := range cur.snapshot() {
					if w.Err == nil {
						goodWrites++
					}
				}
			}
			cancel()
			if !returned {
				<-done
			}
		})
		switch {
		case c.recoverable && returned:
			viol = fmt.Sprintf("the initial RA of a connection failed with %v (a non-permission system call error): the task ended with %v instead of being re-established", c.err, runErr)
		case c.recoverable && (dials < 2 || goodWrites < 1):
			viol = fmt.Sprintf("the initial RA failed with %v: %d dials, %d RAs on the new connection within 10 s, want a re-dial and its initial RA", c.err, dials, goodWrites)
		case !c.recoverable && (!returned || runErr == nil):
			viol = fmt.Sprintf("the initial RA failed with %v (not recoverable): returned=%v error=%v, want the task to end with a reported error", c.err, returned, runErr)
		}
		out.Emit(verifh.Case{ID: id, Input: map[string]any{"kind": "initial-transmit-failure", "error": c.name}, Observed: map[string]any{"dials": dials, "returned": returned, "error": fmt.Sprint(runErr)},
			Tags: []string{"stream:initial-transmit-failure", fmt.Sprintf("recoverable:%v", c.recoverable)}, ImplViolation: viol})
	}
}
