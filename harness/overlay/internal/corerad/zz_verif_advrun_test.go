//go:build verif && go1.25

package corerad

import (
	"fmt"
	"math/rand"
	"net/netip"
	"runtime"
	"sort"
	"testing"
	"testing/synctest"
	"time"

	"github.com/mdlayher/corerad/internal/config"
	"github.com/mdlayher/corerad/internal/netstate"
	"github.com/mdlayher/corerad/internal/plugin"
	"github.com/mdlayher/corerad/internal/verifh"
)

// An advEvent is one router solicitation arriving at a virtual instant (ns after t0).
type advEvent struct {
	At  int64
	Src string // "::" or a unicast address
}

type advScenario struct {
	ID          string
	UnicastOnly bool
	Min, Max    time.Duration
	Offset      int64 // virtual ns before Run starts (varies the PRNG seeds)
	Events      []advEvent
	Horizon     int64 // ns after t0
	ReinitAt    int64 // > 0: a link event reinitializes the advertiser at this instant (ns after t0)
	Burst       bool  // deliver all events back to back on one P: the request channel really fills
	Flips       bool  // forwarding is flipped before every other solicitation
	Tags        []string
}

// advIncarnation is what one incarnation (initial RA .. reinitialization / horizon) looked like.
type advIncarnation struct {
	t0, horizon       int64
	events            []advEvent // At relative to the first incarnation's t0
	obs               []vWrite
	uni, multi, rsCnt float64
	seed              int64
}

// runAdvScenario runs the real Advertiser.Run in a bubble and renders one Corr.AdvRun case per incarnation.
func runAdvScenario(t *testing.T, sc advScenario) []verifh.Case {
	var incs []advIncarnation
	var staleWrites []string
	if sc.Burst {
		defer runtime.GOMAXPROCS(runtime.GOMAXPROCS(1))
	}
	synctest.Test(t, func(t *testing.T) {
		time.Sleep(time.Duration(sc.Offset))
		cfg := config.Interface{Name: "v0", Advertise: true, UnicastOnly: sc.UnicastOnly,
			MinInterval: sc.Min, MaxInterval: sc.Max, HopLimit: 64, DefaultLifetime: 1800 * time.Second,
			Plugins: []plugin.Plugin{&plugin.LLA{}}}
		watchC := make(chan netstate.Change, 1)
		v := newVAdvertiserW(cfg, func() bool { return false }, watchC)
		counters := func() (float64, float64, float64) {
			return metricVal(v.mm, "corerad_advertiser_router_advertisements_total", "interface=v0,type=unicast"),
				metricVal(v.mm, "corerad_advertiser_router_advertisements_total", "interface=v0,type=multicast"),
				metricVal(v.mm, "corerad_advertiser_messages_received_total", "interface=v0,message=router solicitation")
		}
		fwd := true
		t00 := vNow()
		cancel, done := v.run()
		start := time.Now()
		cur := advIncarnation{t0: t00, seed: start.UnixNano()}
		var bu, bm, br float64 // counters at the start of the current incarnation
		closeInc := func(hz int64) {
			synctest.Wait()
			cur.horizon = hz
			cur.obs = v.cur().snapshot()
			u, m, r := counters()
			cur.uni, cur.multi, cur.rsCnt = u-bu, m-bm, r-br
			bu, bm, br = u, m, r
			incs = append(incs, cur)
		}
		for _, e := range sc.Events {
			if sc.ReinitAt > 0 && len(incs) == 0 && e.At >= sc.ReinitAt {
				time.Sleep(time.Until(start.Add(time.Duration(sc.ReinitAt) - 1)))
				closeInc(t00 + sc.ReinitAt)
				time.Sleep(1)
				watchC <- netstate.LinkDown
				synctest.Wait()
				cur = advIncarnation{t0: vNow(), seed: time.Now().UnixNano()}
			}
			time.Sleep(time.Until(start.Add(time.Duration(e.At))))
			if sc.Flips && len(cur.events)%2 == 0 {
				// forwarding is switched off / on under the running advertiser: what the RAs say changes, when and where
				// they go does not
				fwd = !fwd
				v.state.setForwarding("v0", fwd)
			}
			v.cur().readC <- rs(e.Src)
			cur.events = append(cur.events, e)
			if !sc.Burst {
				synctest.Wait()
			}
		}
		if sc.ReinitAt > 0 && len(incs) == 0 {
			time.Sleep(time.Until(start.Add(time.Duration(sc.ReinitAt) - 1)))
			closeInc(t00 + sc.ReinitAt)
			time.Sleep(1)
			watchC <- netstate.LinkDown
			synctest.Wait()
			cur = advIncarnation{t0: vNow(), seed: time.Now().UnixNano()}
		}
		time.Sleep(time.Until(start.Add(time.Duration(sc.Horizon) - 1)))
		closeInc(t00 + sc.Horizon)
		// a reinitialized advertiser must be silent on its previous connection
		if len(incs) > 1 {
			v.mu.Lock()
			old := v.conns[0]
			v.mu.Unlock()
			for _, w := range old.snapshot() {
				if w.Begin >= incs[1].t0 {
					staleWrites = append(staleWrites, fmt.Sprintf("%s at +%.3fs", w.Dst, float64(w.Begin-t00)/1e9))
				}
			}
		}
		cancel()
		if err := <-done; err != nil {
			t.Errorf("%s: Run returned %v", sc.ID, err)
		}
	})

	zs := func(xs []int64) string {
		ss := make([]string, len(xs))
		for i, x := range xs {
			ss[i] = verifh.Z(x)
		}
		return verifh.List(ss)
	}
	t00 := incs[0].t0
	var cases []verifh.Case
	for k, inc := range incs {
		// reproduce the PRNG draws: both generators are seeded with the (virtual) start instant of the incarnation
		var loopDraws []int64
		n := int((inc.horizon-inc.t0)/int64(sc.Min)) + 8
		if !sc.UnicastOnly {
			p := rand.New(rand.NewSource(inc.seed))
			for i := 0; i < n; i++ {
				if sc.Min != sc.Max {
					loopDraws = append(loopDraws, p.Int63n(sc.Max.Nanoseconds()-sc.Min.Nanoseconds()))
				} else {
					loopDraws = append(loopDraws, 0)
				}
			}
		}
		p := rand.New(rand.NewSource(inc.seed))
		var evs []string
		for _, e := range inc.events {
			if e.Src == "::" {
				evs = append(evs, verifh.Pair(verifh.Z(t00+e.At), "ReqMulti"))
			} else {
				evs = append(evs, verifh.Pair(verifh.Z(t00+e.At), verifh.App("ReqUni", verifh.AddrN(netip.MustParseAddr(e.Src)), verifh.Z(p.Int63n(maxRADelay.Nanoseconds())))))
			}
		}
		obs := inc.obs
		sort.SliceStable(obs, func(i, j int) bool { return obs[i].Begin < obs[j].Begin })
		var os []string
		var oj [][2]string
		for _, w := range obs {
			os = append(os, verifh.Pair(verifh.Z(w.Begin), verifh.AddrN(w.Dst)))
			oj = append(oj, [2]string{fmt.Sprintf("%.9f", float64(w.Begin-t00)/1e9), w.Dst.String()})
		}
		id := sc.ID
		tags := append([]string(nil), sc.Tags...)
		if len(incs) > 1 {
			id = fmt.Sprintf("%s#%d", sc.ID, k)
			tags = append(tags, fmt.Sprintf("incarnation:%d", k))
		}
		viol := ""
		if k == 0 && len(staleWrites) > 0 {
			viol = fmt.Sprintf("transmissions on the previous connection after the reinitialization: %v", staleWrites)
		}
		cases = append(cases, verifh.Case{
			ImplViolation: viol,
			ID:            id,
			Coq: verifh.App("mkRun", verifh.B(sc.UnicastOnly), verifh.Z(int64(sc.Min)), verifh.Z(int64(sc.Max)), verifh.Z(inc.t0),
				zs(loopDraws), verifh.List(evs), verifh.Z(inc.horizon), verifh.List(os),
				verifh.Z(int64(inc.uni)), verifh.Z(int64(inc.multi)), verifh.Z(int64(inc.rsCnt))),
			Input:    map[string]any{"scenario": sc, "incarnation": k, "Events": inc.events, "Min": int64(sc.Min)},
			Observed: oj,
			Tags:     tags,
		})
	}
	return cases
}

var advSources = []string{"::", "::", "fe80::2", "fe80::3", "2001:db8::5", "fe80::2"}

// TestVerifAdvRun generates solicitation histories (grid around the 3 s boundary, bursts, random)
// and emits one case per run; C06 and C07 evaluate the same cases with their own checkers.
func TestVerifAdvRun(t *testing.T) {
	out := verifh.Open()
	defer out.Close()
	r := verifh.NewRand(verifh.Seed(), "AdvRun")
	thorough := verifh.Thorough()
	emit := func(sc advScenario) {
		if !out.Wants(sc.ID) && !out.Wants(sc.ID+"#0") && !out.Wants(sc.ID+"#1") {
			return
		}
		for _, c := range runAdvScenario(t, sc) {
			out.Emit(c)
		}
	}

	// (a) bounded-exhaustive: <= 3 (quick) / 4 (thorough) events on a grid of gaps around the 3 s
	// boundary, each either RS from :: or from a unicast source; the periodic loop is far away
	// (min = max = 1800 s) or tight (min = 3 s, max = 4 s).
	grid := []int64{1, 1e9 + 1, 2.9e9 + 1, 3e9, 3e9 + 1, 3.1e9, 5.9e9, 6e9 + 1, 9e9 + 1}
	depth := 3
	if thorough {
		depth = 4
	}
	var rec func(prefix []advEvent, at int64, d int)
	n := 0
	rec = func(prefix []advEvent, at int64, d int) {
		if len(prefix) > 0 {
			for _, iv := range [][2]time.Duration{{1800 * time.Second, 1800 * time.Second}, {3 * time.Second, 4 * time.Second}} {
				n++
				emit(advScenario{ID: fmt.Sprintf("grid-%d", n), Min: iv[0], Max: iv[1], Offset: int64(n) * 7919,
					Events: append([]advEvent(nil), prefix...), Horizon: at + 10e9 + 3,
					Tags: []string{"stream:grid", fmt.Sprintf("events:%d", len(prefix))}})
			}
		}
		if d == 0 {
			return
		}
		for gi, g := range grid {
			src := "::"
			if (gi+d+len(prefix))%4 == 3 {
				src = "fe80::2"
			}
			rec(append(prefix, advEvent{At: at + g, Src: src}), at+g, d-1)
		}
	}
	rec(nil, 0, depth)

	// (b) random bursty histories
	nr := 150
	if thorough {
		nr = 2500
	}
	ivs := [][2]time.Duration{{3 * time.Second, 4 * time.Second}, {3 * time.Second, 6 * time.Second}, {4 * time.Second, 4 * time.Second},
		{5 * time.Second, 20 * time.Second}, {198 * time.Second, 600 * time.Second}, {3500 * time.Millisecond, 7300 * time.Millisecond}}
	for k := 0; k < nr; k++ {
		iv := verifh.Pick(r, ivs)
		hz := int64(20e9) + r.Int63n(100e9)
		if iv[1] > 100*time.Second && r.Chance(50) {
			hz = int64(700e9) + r.Int63n(1500e9)
		}
		var evs []advEvent
		at := int64(0)
		for nev := r.Intn(30); nev > 0; nev-- {
			switch r.Intn(4) {
			case 0: // burst within one instant / a few ms
				at += r.Int63n(5e6)
			case 1:
				at += verifh.Pick(r, grid) + r.Int63n(3)
			default:
				at += r.Int63n(hz/8 + 1)
			}
			if at >= hz-600e6 {
				break
			}
			evs = append(evs, advEvent{At: at + 1, Src: verifh.Pick(r, advSources)})
			at++
		}
		uo := r.Chance(20)
		tags := []string{"stream:random", fmt.Sprintf("unicast_only:%v", uo)}
		flips := k%3 == 1
		if flips {
			tags = append(tags, "forwarding-flips")
		}
		emit(advScenario{ID: fmt.Sprintf("rand-%d", k), UnicastOnly: uo, Min: iv[0], Max: iv[1],
			Offset: r.Int63n(86400e9), Events: evs, Horizon: hz, Tags: tags, Flips: flips})
	}
	// (c) floods: more solicitations in one instant than the request channel holds
	for k := 0; k < 6; k++ {
		var evs []advEvent
		for j := 0; j < 20+10*k; j++ {
			evs = append(evs, advEvent{At: 5e9 + 1, Src: verifh.Pick(r, advSources)}) // all in the same instant, back to back
		}
		emit(advScenario{ID: fmt.Sprintf("flood-%d", k), Min: 3 * time.Second, Max: 4 * time.Second, Offset: int64(k) * 1e9,
			Events: evs, Horizon: 15e9, Burst: true, Tags: []string{"stream:flood"}})
	}
	// (c') storms: hundreds of solicitations in one instant (far more than any plausible per-window budget);
	// each must still be answered once, by unicast, within 500 ms -- also in unicast-only mode
	for k, n := range []int{300, 600} {
		for _, uo := range []bool{false, true} {
			var evs []advEvent
			for j := 0; j < n; j++ {
				// two thirds from hosts of their own (a crowd), the rest from the usual few (repeats, ::)
				src := fmt.Sprintf("fe80::1:%x", j)
				if j%3 == 2 {
					src = verifh.Pick(r, advSources)
				}
				evs = append(evs, advEvent{At: 5e9 + 1, Src: src})
			}
			emit(advScenario{ID: fmt.Sprintf("storm-%d-%v", k, uo), UnicastOnly: uo, Min: 3 * time.Second, Max: 4 * time.Second, Offset: int64(k) * 1e9,
				Events: evs, Horizon: 15e9, Burst: true, Tags: []string{"stream:storm", fmt.Sprintf("unicast_only:%v", uo)}})
		}
	}
	// (c'') a small crowd: 8..16 distinct hosts soliciting within 300 ms, at various distances from the last multicast RA
	for k := 0; k < 8; k++ {
		var evs []advEvent
		at := int64(3500e6) + int64(k)*400e6
		for j := 0; j < 8+k; j++ {
			evs = append(evs, advEvent{At: at + int64(j)*20e6, Src: fmt.Sprintf("fe80::2:%x", j)})
		}
		emit(advScenario{ID: fmt.Sprintf("crowd-%d", k), Min: 3 * time.Second, Max: 4 * time.Second, Offset: int64(k) * 1e9,
			Events: evs, Horizon: 15e9, Tags: []string{"stream:crowd"}})
	}
	// (d) reinitialization (a link event) in the middle of a run: the second incarnation starts over
	// from its own initial RA (rate limit, loop index, PRNG seeds)
	nre := 40
	if thorough {
		nre = 600
	}
	for k := 0; k < nre; k++ {
		iv := verifh.Pick(r, ivs[:4])
		re := int64(4e9) + r.Int63n(20e9)
		hz := re + int64(8e9) + r.Int63n(20e9)
		var evs []advEvent
		at := int64(0)
		for nev := r.Intn(12); nev > 0; nev-- {
			at += verifh.Pick(r, grid) + r.Int63n(4e9)
			if at >= hz-600e6 {
				break
			}
			if at > re-600e6 && at < re+2 {
				continue
			}
			evs = append(evs, advEvent{At: at + 1, Src: verifh.Pick(r, advSources)})
		}
		emit(advScenario{ID: fmt.Sprintf("reinit-%d", k), Min: iv[0], Max: iv[1], Offset: r.Int63n(86400e9), Events: evs,
			Horizon: hz, ReinitAt: re, Tags: []string{"stream:reinit"}})
	}
}
