//go:build verif && linux

package main

// The daemon end to end: the real main() -- flag parsing, configuration file, the wiring of State, Metrics, Context,
// HTTP handler and Server, signal handling -- in a child process inside a private network namespace with a real veth
// pair (root + `ip` only; otherwise tagged unavailable and nothing is asserted).  Everything the other drivers hand
// to the pieces by hand is here what main() hands them.
//
// Observed from outside, at every step: the RAs on the wire of the peer interface, /metrics, /_/api/interfaces, the
// autoconf sysctl, the exit status.  Forwarding is flipped under the running daemon (C04: the wire, the metrics and
// the API follow at once, all of them); the daemon is told to terminate (C08: final RA with router lifetime 0; C11:
// autoconf restored; C20: exit status 0, promptly).

import (
	"encoding/json"
	"fmt"
	"io"
	"net"
	"net/netip"
	"os"
	"os/exec"
	"path/filepath"
	"regexp"
	"runtime"
	"strings"
	"sync"
	"syscall"
	"testing"
	"time"

	"github.com/mdlayher/corerad/internal/verifh"
	"github.com/mdlayher/ndp"
	"golang.org/x/net/ipv6"
)

// TestMain: the test binary doubles as the daemon.
func TestMain(m *testing.M) {
	if cfg := os.Getenv("VERIF_E2E_CONFIG"); cfg != "" {
		os.Args = []string{"corerad", "-c", cfg}
		main()
		os.Exit(0)
	}
	os.Exit(m.Run())
}

type e2eObs struct {
	fwdGauge, misconfigured, apiLifetime, wireLifetime string
}

func (o e2eObs) String() string {
	return fmt.Sprintf("forwarding-gauge=%s misconfiguration-metric=%s api-router-lifetime=%s wire-router-lifetime=%s", o.fwdGauge, o.misconfigured, o.apiLifetime, o.wireLifetime)
}

func TestVerifE2E(t *testing.T) {
	out := verifh.Open()
	defer out.Close()
	if !out.Wants("e2e-daemon") {
		return
	}
	c := verifh.Case{ID: "e2e-daemon", Input: map[string]any{"kind": "e2e-daemon"}, Tags: []string{"stream:e2e"}}
	type result struct {
		unavailable string
		viol        []string
		obs         map[string]any
	}
	resC := make(chan result, 1)
	dir := t.TempDir()
	go func() {
		runtime.LockOSThread() // this thread moves into the new namespace and dies with the goroutine
		res := result{obs: map[string]any{}}
		defer func() { resC <- res }()
		if os.Geteuid() != 0 {
			res.unavailable = "not root"
			return
		}
		if err := syscall.Unshare(syscall.CLONE_NEWNET); err != nil {
			res.unavailable = err.Error()
			return
		}
		ip := func(arg ...string) error {
			bin, err := exec.LookPath("ip")
			if err != nil {
				return err
			}
			if out, err := exec.Command(bin, arg...).CombinedOutput(); err != nil {
				return fmt.Errorf("ip %v: %v: %s", arg, err, out)
			}
			return nil
		}
		sysctl := func(iface, key string) string {
			b, _ := os.ReadFile(filepath.Join("/proc/sys/net/ipv6/conf", iface, key))
			return strings.TrimSpace(string(b))
		}
		setSysctl := func(iface, key, v string) error {
			return os.WriteFile(filepath.Join("/proc/sys/net/ipv6/conf", iface, key), []byte(v), 0o644)
		}
		steps := [][]string{{"link", "set", "lo", "up"}, {"link", "add", "vr0", "type", "veth", "peer", "name", "vp0"},
			{"link", "add", "vd0", "type", "veth", "peer", "name", "vd1"}} // vd0/vd1 are never brought up
		for _, s := range steps {
			if err := ip(s...); err != nil {
				res.unavailable = err.Error()
				return
			}
		}
		for _, n := range []string{"vr0", "vp0"} {
			_ = setSysctl(n, "accept_dad", "0")
			_ = setSysctl(n, "accept_ra", "0")
		}
		if err := setSysctl("vr0", "forwarding", "1"); err != nil {
			res.unavailable = err.Error()
			return
		}
		_ = setSysctl("vr0", "autoconf", "1")
		for _, n := range []string{"vr0", "vp0"} {
			if err := ip("link", "set", "up", n); err != nil {
				res.unavailable = err.Error()
				return
			}
		}
		// the peer: where the hosts of the link are
		var peer *ndp.Conn
		deadline := time.Now().Add(8 * time.Second)
		for peer == nil && time.Now().Before(deadline) {
			if ifp, err := net.InterfaceByName("vp0"); err == nil {
				if pc, _, err := ndp.Listen(ifp, ndp.LinkLocal); err == nil {
					if err := pc.JoinGroup(netip.MustParseAddr("ff02::1")); err == nil {
						peer = pc
						break
					}
					pc.Close()
				}
			}
			time.Sleep(100 * time.Millisecond)
		}
		if peer == nil {
			res.unavailable = "the peer interface did not become usable within 8 s"
			return
		}
		defer peer.Close()

		const addr = "127.0.0.1:9430"
		cfg := filepath.Join(dir, "corerad.toml")
		toml := `
[[interfaces]]
name = "vr0"
advertise = true
max_interval = "4s"
min_interval = "3s"
default_lifetime = "600s"
preference = "high"

  [[interfaces.prefix]]
  prefix = "2001:db8:e2e::/64"

# an interface that exists but stays down while the daemon runs: its advertiser keeps retrying and never reports ready
[[interfaces]]
name = "vd0"
advertise = true
source_lla = false

  [[interfaces.prefix]]
  prefix = "2001:db8:e2f::/64"

[debug]
address = "` + addr + `"
prometheus = true
`
		if err := os.WriteFile(cfg, []byte(toml), 0o644); err != nil {
			res.unavailable = err.Error()
			return
		}
		autoconfBefore := sysctl("vr0", "autoconf")
		// the supervisor's notification socket (systemd Type=notify)
		var nmu sync.Mutex
		var notes []string
		notifyPath := filepath.Join(dir, "notify.sock")
		if nl, err := net.ListenUnixgram("unixgram", &net.UnixAddr{Name: notifyPath, Net: "unixgram"}); err == nil {
			defer nl.Close()
			go func() {
				buf := make([]byte, 4096)
				for {
					n, _, err := nl.ReadFromUnix(buf)
					if err != nil {
						return
					}
					nmu.Lock()
					notes = append(notes, string(buf[:n]))
					nmu.Unlock()
				}
			}()
		} else {
			notifyPath = ""
		}
		notified := func(what string) (bool, int) {
			nmu.Lock()
			defer nmu.Unlock()
			for _, n := range notes {
				for _, l := range strings.Split(n, "\n") {
					if l == what {
						return true, len(notes)
					}
				}
			}
			return false, len(notes)
		}
		start := func(cfgPath string, logs *strings.Builder) (*exec.Cmd, chan error, error) {
			cmd := exec.Command(os.Args[0], "-test.run", "^$")
			cmd.Env = append(os.Environ(), "VERIF_E2E_CONFIG="+cfgPath, "VERIF_OUT=", "NOTIFY_SOCKET="+notifyPath)
			cmd.Stderr, cmd.Stdout = logs, logs
			if err := cmd.Start(); err != nil { // forked from this thread: the daemon lives in the namespace
				return nil, nil, err
			}
			exited := make(chan error, 1)
			go func() { exited <- cmd.Wait() }()
			return cmd, exited, nil
		}
		var logs strings.Builder
		cmd, exited, err := start(cfg, &logs)
		if err != nil {
			res.unavailable = err.Error()
			return
		}
		killed := false
		defer func() {
			if !killed {
				_ = cmd.Process.Kill()
			}
			res.obs["daemon_log"] = logs.String()
		}()

		// nextRA waits for the next router advertisement on the peer (any destination)
		var routerLL netip.Addr
		high := ndp.High
		wantPrf, badPrf := &high, "" // every RA of the first run, the final one included, carries the configured preference
		lastUnicast := false         // the last RA seen was addressed to the peer itself
		_ = peer.SetControlMessage(ipv6.FlagDst|ipv6.FlagHopLimit, true)
		nextRA := func(d time.Duration) *ndp.RouterAdvertisement {
			dl := time.Now().Add(d)
			for {
				_ = peer.SetReadDeadline(dl)
				m, cm, src, err := peer.ReadFrom()
				if err != nil {
					return nil
				}
				if ra, ok := m.(*ndp.RouterAdvertisement); ok {
					routerLL = src
					lastUnicast = cm != nil && cm.Dst != nil && !cm.Dst.IsMulticast()
					if wantPrf != nil && ra.RouterSelectionPreference != *wantPrf && badPrf == "" {
						badPrf = fmt.Sprintf("an RA with router lifetime %v carries preference %v, configured %v", ra.RouterLifetime, ra.RouterSelectionPreference, *wantPrf)
					}
					return ra
				}
			}
		}
		get := func(path string) (int, string) {
			conn, err := net.DialTimeout("tcp4", addr, 2*time.Second)
			if err != nil {
				return 0, err.Error()
			}
			defer conn.Close()
			_ = conn.SetDeadline(time.Now().Add(5 * time.Second))
			fmt.Fprintf(conn, "GET %s HTTP/1.0\r\nHost: %s\r\n\r\n", path, addr)
			b, _ := io.ReadAll(conn)
			head, body, _ := strings.Cut(string(b), "\r\n\r\n")
			var status int
			fmt.Sscanf(head, "HTTP/1.0 %d", &status)
			if status == 0 {
				fmt.Sscanf(head, "HTTP/1.1 %d", &status)
			}
			return status, body
		}
		first := nextRA(15 * time.Second)
		if first == nil {
			select {
			case err := <-exited:
				killed = true
				res.unavailable = fmt.Sprintf("the daemon exited at once (%v): %s", err, logs.String())
			default:
				res.unavailable = "no router advertisement reached the peer within 15 s: " + logs.String()
			}
			return
		}
		res.obs["first_ra"] = fmt.Sprintf("router lifetime %v, %d options", first.RouterLifetime, len(first.Options))
		if first.RouterLifetime != 600*time.Second {
			res.viol = append(res.viol, fmt.Sprintf("the first RA on the wire has router lifetime %v, configured 600s on a forwarding interface", first.RouterLifetime))
		}
		if got := sysctl("vr0", "autoconf"); got != "0" {
			res.viol = append(res.viol, fmt.Sprintf("autoconf of the advertising interface is %q while the daemon advertises on it, want 0", got))
		}
		// the debug server is up by now (it does not depend on the interface)
		for i := 0; i < 50; i++ {
			if st, _ := get("/metrics"); st == 200 {
				break
			}
			time.Sleep(100 * time.Millisecond)
		}
		gaugeRE := regexp.MustCompile(`(?m)^corerad_interface_forwarding\{interface="vr0"\} (\S+)$`)
		misRE := regexp.MustCompile(`(?m)^corerad_advertiser_misconfigurations?\{[^}]*interface_not_forwarding[^}]*\} (\S+)$`)
		observe := func() e2eObs {
			var o e2eObs
			st, body := get("/metrics")
			if st != 200 {
				o.fwdGauge = fmt.Sprintf("HTTP %d", st)
			} else {
				if m := gaugeRE.FindStringSubmatch(body); m != nil {
					o.fwdGauge = m[1]
				} else {
					o.fwdGauge = "absent"
				}
				o.misconfigured = "absent"
				for _, m := range misRE.FindAllStringSubmatch(body, -1) {
					if strings.Contains(m[0], `interface="vr0"`) {
						o.misconfigured = m[1]
					}
				}
			}
			st, body = get("/_/api/interfaces")
			var api struct {
				Interfaces []struct {
					Interface     string `json:"interface"`
					Advertisement *struct {
						RouterLifetimeSeconds *int `json:"router_lifetime_seconds"`
					} `json:"advertisement"`
				} `json:"interfaces"`
			}
			o.apiLifetime = fmt.Sprintf("HTTP %d", st)
			if st == 200 && json.Unmarshal([]byte(body), &api) == nil {
				o.apiLifetime = "absent"
				for _, ifi := range api.Interfaces {
					if ifi.Interface == "vr0" && ifi.Advertisement != nil && ifi.Advertisement.RouterLifetimeSeconds != nil {
						o.apiLifetime = fmt.Sprint(*ifi.Advertisement.RouterLifetimeSeconds)
					}
				}
			}
			// a host solicits: the answer describes the router as it is now
			_ = peer.WriteTo(&ndp.RouterSolicitation{}, nil, netip.MustParseAddr("ff02::2"))
			o.wireLifetime = "none"
			if ra := nextRA(6 * time.Second); ra != nil {
				o.wireLifetime = fmt.Sprint(int(ra.RouterLifetime / time.Second))
			}
			return o
		}
		var trace []string
		for step, fwd := range []bool{true, false, true, false, false, true} {
			v := "0"
			if fwd {
				v = "1"
			}
			if err := setSysctl("vr0", "forwarding", v); err != nil {
				res.unavailable = err.Error()
				return
			}
			// drain RAs sent before the flip
			for nextRA(50*time.Millisecond) != nil {
			}
			got := observe()
			want := e2eObs{fwdGauge: "1", misconfigured: "absent", apiLifetime: "600", wireLifetime: "600"}
			if !fwd {
				want = e2eObs{fwdGauge: "0", misconfigured: "1", apiLifetime: "0", wireLifetime: "0"}
			}
			trace = append(trace, fmt.Sprintf("forwarding=%s: %s", v, got))
			if got != want {
				res.viol = append(res.viol, fmt.Sprintf("step %d, right after net.ipv6.conf.vr0.forwarding was set to %s: the daemon says {%s}, want {%s}", step, v, got, want))
			}
		}
		res.obs["trace"] = trace

		// several scrapers at once (an HA pair of Prometheus servers, an operator's curl): every one of them is served
		{
			var conns []net.Conn
			for i := 0; i < 24; i++ {
				if cn, err := net.DialTimeout("tcp4", addr, 2*time.Second); err == nil {
					conns = append(conns, cn)
				}
			}
			for _, cn := range conns {
				_ = cn.SetDeadline(time.Now().Add(8 * time.Second))
				fmt.Fprintf(cn, "GET /metrics HTTP/1.0\r\nHost: %s\r\n\r\n", addr)
			}
			okN, statuses := 0, map[int]int{}
			for _, cn := range conns {
				b, _ := io.ReadAll(cn)
				cn.Close()
				var st int
				fmt.Sscanf(string(b), "HTTP/1.0 %d", &st)
				if st == 0 {
					fmt.Sscanf(string(b), "HTTP/1.1 %d", &st)
				}
				statuses[st]++
				if st == 200 {
					okN++
				}
			}
			res.obs["overlapping_scrapes"] = fmt.Sprint(statuses)
			if len(conns) > 0 && okN != len(conns) {
				res.viol = append(res.viol, fmt.Sprintf("%d scrapes sent at the same moment: statuses %v, want every one answered 200", len(conns), statuses))
			}
		}
		// a host that knows the router solicits its unicast address (RFC 4861 allows it): answered like any other
		if routerLL.IsValid() {
			for nextRA(50*time.Millisecond) != nil {
			}
			answered := false
			for try := 0; try < 2 && !answered; try++ {
				_ = peer.WriteTo(&ndp.RouterSolicitation{}, nil, routerLL)
				// the answer to a host with an address is unicast (a periodic multicast RA passing by does not count)
				dl := time.Now().Add(2 * time.Second)
				for !answered && time.Now().Before(dl) {
					if nextRA(time.Until(dl)) != nil && lastUnicast {
						answered = true
					}
				}
			}
			res.obs["rs_to_router_address"] = answered
			if !answered {
				res.viol = append(res.viol, fmt.Sprintf("a router solicitation sent to the router's own address %s got no unicast answer within 2 s (twice)", routerLL))
			}
		}
		// one interface (vd0) never came up: the supervisor has been told about the tasks that started, but not READY=1
		if ready, n := notified("READY=1"); n > 0 {
			res.obs["notifications"] = n
			if ready {
				res.viol = append(res.viol, "READY=1 was announced although the advertiser of vd0 never reported ready")
			}
		}

		// ---- terminate, with forwarding switched off a moment before (nothing went out in between): final RA with router
		// lifetime 0, autoconf restored, exit status 0
		_ = setSysctl("vr0", "forwarding", "0")
		for nextRA(50*time.Millisecond) != nil {
		}
		t0 := time.Now()
		_ = cmd.Process.Signal(syscall.SIGTERM)
		final := nextRA(5 * time.Second)
		var exitErr error
		select {
		case exitErr = <-exited:
			killed = true
		case <-time.After(10 * time.Second):
			res.viol = append(res.viol, "the daemon did not exit within 10 s of SIGTERM")
		}
		res.obs["exit"] = fmt.Sprintf("%v after %v", exitErr, time.Since(t0).Round(time.Millisecond))
		switch {
		case final == nil:
			res.viol = append(res.viol, "no final router advertisement reached the link after SIGTERM")
		case final.RouterLifetime != 0:
			res.viol = append(res.viol, fmt.Sprintf("the RA sent on SIGTERM has router lifetime %v, want 0", final.RouterLifetime))
		}
		if killed && exitErr != nil {
			res.viol = append(res.viol, fmt.Sprintf("the daemon exited with %v on SIGTERM, want status 0: %s", exitErr, lastLines(logs.String(), 3)))
		}
		if got := sysctl("vr0", "autoconf"); killed && got != autoconfBefore {
			res.viol = append(res.viol, fmt.Sprintf("autoconf of the interface was %q before the daemon started and is %q after it exited", autoconfBefore, got))
		}
		if badPrf != "" {
			res.viol = append(res.viol, badPrf)
		}
		wantPrf = nil
		if !killed {
			return
		}
		_ = setSysctl("vr0", "forwarding", "1")

		// ---- second run: an interface that cannot be reported (wildcard prefix, never initialised) is listed BEFORE a healthy
		// one.  A scrape then either fails as a whole (the acceptable alternative) or is complete: it never answers 200
		// with the healthy interface missing
		cfgB := filepath.Join(dir, "corerad-b.toml")
		_ = os.WriteFile(cfgB, []byte(`
[[interfaces]]
name = "vd0"
advertise = true
  [[interfaces.prefix]]
  prefix = "::/64"

[[interfaces]]
name = "vr0"
advertise = true
max_interval = "4s"
min_interval = "3s"
  [[interfaces.prefix]]
  prefix = "2001:db8:e2e::/64"

[debug]
address = "`+addr+`"
prometheus = true
`), 0o644)
		var logsB strings.Builder
		cmdB, exitedB, err := start(cfgB, &logsB)
		if err == nil {
			for nextRA(50*time.Millisecond) != nil {
			}
			if nextRA(15*time.Second) != nil {
				st, body := 0, ""
				for i := 0; i < 30 && st == 0; i++ {
					st, body = get("/metrics")
					if st == 0 {
						time.Sleep(100 * time.Millisecond)
					}
				}
				res.obs["partial_scrape_status"] = st
				if st == 200 && !strings.Contains(body, `corerad_advertiser_prefix_autonomous{interface="vr0"`) {
					res.viol = append(res.viol, "/metrics answers 200 while the interface listed first cannot be reported, and the samples of the healthy interface vr0 listed after it are missing: an incomplete scrape passed off as a complete one")
				}
			}
			// the supervisor reloads (SIGHUP): the daemon stops without telling hosts to drop the router (no zero-lifetime
			// RA), puts autoconf back and exits with status 0
			for nextRA(50*time.Millisecond) != nil {
			}
			_ = cmdB.Process.Signal(syscall.SIGHUP)
			zero := false
			dl := time.Now().Add(1500 * time.Millisecond)
			for time.Now().Before(dl) {
				if ra := nextRA(time.Until(dl)); ra != nil && ra.RouterLifetime == 0 {
					zero = true
				}
			}
			var errB error
			exitedOK := false
			select {
			case errB = <-exitedB:
				exitedOK = true
			case <-time.After(10 * time.Second):
				_ = cmdB.Process.Kill()
				res.viol = append(res.viol, "second run: the daemon did not exit within 10 s of SIGHUP")
			}
			res.obs["reload"] = fmt.Sprintf("exited=%v err=%v zero-lifetime-RA=%v autoconf=%s", exitedOK, errB, zero, sysctl("vr0", "autoconf"))
			if exitedOK {
				if errB != nil {
					res.viol = append(res.viol, fmt.Sprintf("second run: the daemon exited with %v on SIGHUP, want status 0", errB))
				}
				if zero {
					res.viol = append(res.viol, "second run: a router advertisement with router lifetime 0 was sent on SIGHUP (a reload must not make hosts drop the router)")
				}
				if got := sysctl("vr0", "autoconf"); got != autoconfBefore {
					res.viol = append(res.viol, fmt.Sprintf("second run: autoconf of vr0 is %q after the daemon stopped on SIGHUP, it was %q before it started", got, autoconfBefore))
				}
			}
			res.obs["daemon_log_b"] = lastLines(logsB.String(), 6)
		}

		// ---- third run (thorough tier): a quiet link.  The daemon is stopped more than 30 s after its last RA; the final RA
		// still goes out
		if verifh.Thorough() {
			cfgC := filepath.Join(dir, "corerad-c.toml")
			_ = os.WriteFile(cfgC, []byte(`
[[interfaces]]
name = "vr0"
advertise = true
max_interval = "1800s"
  [[interfaces.prefix]]
  prefix = "2001:db8:e2e::/64"
`), 0o644)
			var logsC strings.Builder
			cmdC, exitedC, err := start(cfgC, &logsC)
			if err == nil {
				for nextRA(50*time.Millisecond) != nil {
				}
				last := time.Time{}
				// the three initial RAs are at most 16 s apart; then nothing for minutes
				for nextRA(20*time.Second) != nil {
					last = time.Now()
				}
				if !last.IsZero() {
					time.Sleep(time.Until(last.Add(33 * time.Second)))
					_ = cmdC.Process.Signal(syscall.SIGTERM)
					fin := nextRA(5 * time.Second)
					res.obs["quiet_link_final_ra"] = fin != nil
					if fin == nil || fin.RouterLifetime != 0 {
						res.viol = append(res.viol, fmt.Sprintf("stopped %v after its last RA on a quiet link, the daemon sent no final RA with router lifetime 0 (got %v): %s", time.Since(last).Round(time.Second), fin, lastLines(logsC.String(), 3)))
					}
				} else {
					_ = cmdC.Process.Signal(syscall.SIGTERM)
				}
				select {
				case <-exitedC:
				case <-time.After(10 * time.Second):
					_ = cmdC.Process.Kill()
				}
			}
		}
	}()
	res := <-resC
	c.Observed = res.obs
	if res.unavailable != "" {
		c.Tags = append(c.Tags, "e2e:unavailable")
		c.Observed = res.unavailable
	} else {
		c.Tags = append(c.Tags, "e2e:available")
		if len(res.viol) > 4 {
			res.viol = res.viol[:4]
		}
		c.ImplViolation = strings.Join(res.viol, "; ")
	}
	out.Emit(c)
}

func lastLines(s string, n int) string {
	l := strings.Split(strings.TrimSpace(s), "\n")
	if len(l) > n {
		l = l[len(l)-n:]
	}
	return strings.Join(l, " / ")
}
