#!/bin/bash
# Build everything the checks need from files on disk (offline): goextract, the Coq development,
# and a warm Go build cache for the drivers.
set -e
cd "$(dirname "$0")"
export GOFLAGS=-mod=mod GOPROXY=off GOSUMDB=off GOTOOLCHAIN=local CGO_ENABLED=0
mkdir -p bin evidence replays
(cd goextract && go build -o ../bin/goextract .)
# extracted facts of the current /repo tree (checks regenerate them per run in a scratch copy)
S=$(mktemp -d /var/tmp/verif-setup-XXXXXX); trap 'chmod -R u+w "$S" 2>/dev/null; rm -rf "$S"' EXIT
rsync -a --exclude .git "${VERIF_REPO:-/repo}/" "$S/repo/"
./bin/goextract "$S/repo" "$S/gen"
for f in "$S"/gen/*.v; do cmp -s "$f" "coq/gen/$(basename "$f")" || cp "$f" coq/gen/; done
python3 - <<'PY'
import sys; sys.path.insert(0, '.')
from lib import vlib
vlib.ensure_makefile('coq')
PY
(cd coq && timeout 3000 make -j16 2>&1 | tail -5)
# warm the Go caches: compile (not run) the drivers with both toolchains
rsync -a harness/overlay/ "$S/repo/"
(cd "$S/repo" && go test -count=1 -vet=off -tags verif -run '^$' ./... >/dev/null 2>&1 || true)
(cd "$S/repo" && PATH=/opt/veriftools/go1.26.8/bin:$PATH GOROOT=/opt/veriftools/go1.26.8 go test -count=1 -vet=off -tags verif -run '^$' ./internal/corerad/ ./internal/system/ ./internal/netstate/ >/dev/null 2>&1 || true)
# ... and the 32-bit build of the packages whose drivers also run under GOARCH=386
(cd "$S/repo" && GOARCH=386 PATH=/opt/veriftools/go1.26.8/bin:$PATH GOROOT=/opt/veriftools/go1.26.8 go test -count=1 -vet=off -tags verif -run '^$' ./internal/corerad/ ./internal/config/ >/dev/null 2>&1 || true)
(cd "$S/repo" && GOARCH=386 go test -count=1 -vet=off -tags verif -run '^$' ./internal/config/ >/dev/null 2>&1 || true)
echo setup done
