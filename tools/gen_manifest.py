#!/usr/bin/env python3
# Regenerate MANIFEST.json from props/*.py (SPEC dicts) + tools/manifest_base.json.
import importlib, json, os, sys, glob
ROOT = os.path.dirname(os.path.dirname(os.path.abspath(__file__)))
sys.path.insert(0, ROOT)
base = json.load(open(os.path.join(ROOT, "tools", "manifest_base.json")))
props = [json.loads(l)["id"] for l in open(os.path.join(ROOT, "properties.jsonl")) if l.strip()]
checks, claimed = [], set()
for pid in props:
    if not os.path.exists(os.path.join(ROOT, "props", pid + ".py")):
        continue
    m = importlib.import_module("props." + pid)
    s = getattr(m, "SPEC", None) or getattr(m, "META")
    if s.get("disabled"):
        continue
    claimed.add(pid)
    checks.append({
        "property_id": pid,
        "quick_cmd": "./check %s --tier quick" % pid,
        "thorough_cmd": "./check %s --tier thorough" % pid,
        "evidence_file": "/verif/evidence/%s.json" % pid,
        "replay_cmd_template": "./check %s --replay {path}" % pid,
        "engine": "coq-corr",
        "level_claimed": {"category": "proof", "text": s["level_text"], "design_ref": s.get("design_ref", "DESIGN.md section 6 (%s)" % pid)},
        "level_note": s["level_note"],
        "technique": s.get("technique", "Coq (Rocq 8.16) theorems about an executable Gallina model; model tied to the code by goextract + differential correspondence evaluated with vm_compute"),
    })
base["checks"] = checks
na = {e["property_id"]: e for e in base.get("not_applicable", [])}
base["not_applicable"] = [na.get(p, {"property_id": p, "reason": "not yet covered: the model and correspondence for this property are still being built (see DESIGN.md section 9)"})
                          for p in props if p not in claimed]
json.dump(base, open(os.path.join(ROOT, "MANIFEST.json"), "w"), indent=1)
print("claimed:", sorted(claimed))
