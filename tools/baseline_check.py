#!/usr/bin/env python3
# Run the repository's suite on a staged copy (guard off) and compare with BASELINE.json's stable_pass list.
import json, os, subprocess, sys
base = json.load(open("/root/.vp/BASELINE.json"))
want = set(base["stable_pass"])
p = subprocess.run([os.path.join(os.path.dirname(os.path.abspath(__file__)), "baseline.sh"), "-json"],
                   stdout=subprocess.PIPE, stderr=subprocess.STDOUT, text=True)
res = {}
for line in p.stdout.splitlines():
    try:
        e = json.loads(line)
    except ValueError:
        continue
    if e.get("Test") and e.get("Action") in ("pass", "fail", "skip"):
        res[e["Package"] + "::" + e["Test"]] = e["Action"]
bad = sorted(t for t in want if res.get(t) != "pass")
print("stable tests passing: %d / %d" % (len(want) - len(bad), len(want)))
for t in bad:
    print("NOT PASSING:", t, res.get(t))
sys.exit(1 if bad else 0)
