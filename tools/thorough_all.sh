#!/bin/bash
./setup.sh >/dev/null 2>&1
for p in C01 C02 C03 C04 C05 C06 C07 C08 C09 C10 C11 C12 C13 C14 C15 C16 C17 C18 C19 C20; do
  ./check $p --tier thorough 2>&1 | grep -E "^(OK|VIOLATION|KNOWN)" 
done
