#!/bin/bash
# Run the repository's own test suite (guard OFF: no -tags verif, no overlay) on a staged copy of
# /repo's working tree, so that /repo/go.sum is never rewritten by -mod=mod.
S=$(mktemp -d /var/tmp/verif-baseline-XXXXXX); trap 'chmod -R u+w "$S" 2>/dev/null; rm -rf "$S"' EXIT
rsync -a --exclude .git "${VERIF_REPO:-/repo}/" "$S/repo/"
cd "$S/repo" && GOFLAGS=-mod=mod GOPROXY=off GOSUMDB=off GOTOOLCHAIN=local go test -vet=off -count=1 "$@" ./...
