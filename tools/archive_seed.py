#!/usr/bin/env python3
# tools/archive_seed.py <src dir (patch.diff, demo_test.go, README.md)> <seed id> <property> <caught_by csv> <status> <needs...>
import json, os, shutil, sys
src, sid, prop, caught, status = sys.argv[1:6]
needs = " ".join(sys.argv[6:])
dst = os.path.join(os.path.dirname(os.path.dirname(os.path.abspath(__file__))), "seeded", sid)
os.makedirs(dst, exist_ok=True)
for f in ("patch.diff", "demo_test.go", "README.md"):
    if os.path.exists(os.path.join(src, f)):
        shutil.copy(os.path.join(src, f), os.path.join(dst, f))
meta = {"seed": sid, "breaks_property": prop, "needs_to_manifest": needs,
        "confirmed": "tools/try_seed.sh seeded/%s %s : patch applies to /repo, builds, 306/306 stable tests still pass, demo passes on the clean tree and fails with the change" % (sid, " ".join(caught.split(","))),
        "caught_by": [c for c in caught.split(",") if c], "status": status,
        "author": "independent sub-agent given only the property text and a scratch worktree of /repo"}
json.dump(meta, open(os.path.join(dst, "meta.json"), "w"), indent=1)
print("archived", dst)
