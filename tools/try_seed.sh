#!/bin/bash
# tools/try_seed.sh <dir with patch.diff + demo_test.go> <Cxx> [more Cxx...]
# Confirms a seeded change in a scratch clone: applies, builds, repository suite still passes (stable list),
# demo fails with / passes without the change, then runs the given checks against the changed tree.
set -u
H=${VERIF_HOME:-/verif}   # which copy of the machinery runs the checks (a committed snapshot while /verif is being edited)
D=$(realpath "$1"); shift
W=$(mktemp -d /var/tmp/seed-XXXXXX); trap 'chmod -R u+w "$W" 2>/dev/null; rm -rf "$W"' EXIT
export GOFLAGS=-mod=mod GOPROXY=off GOSUMDB=off GOTOOLCHAIN=local
rsync -a --exclude .git /repo/ "$W/clean/"; rsync -a --exclude .git /repo/ "$W/mut/"
(cd "$W/mut" && git init -q . && git apply --whitespace=nowarn "$D/patch.diff") || { echo "SEED: patch does not apply"; exit 2; }
(cd "$W/mut" && go build ./... ) || { echo "SEED: does not build"; exit 2; }
place=$(head -1 "$D/demo_test.go" | sed -n 's#^// place at: *##p')
[ -z "$place" ] && { echo "SEED: demo has no place-at line"; exit 2; }
for t in clean mut; do mkdir -p "$W/$t/$(dirname "$place")"; cp "$D/demo_test.go" "$W/$t/$place"; done
pkg=./$(dirname "$place")
name=$(grep -o 'func Test[A-Za-z0-9_]*' "$D/demo_test.go" | head -1 | sed 's/func //')
(cd "$W/clean" && go test -count=1 -run "^$name\$" $pkg >/dev/null 2>&1) && echo "SEED: demo passes on clean tree" || echo "SEED: demo FAILS on clean tree (bad seed)"
(cd "$W/mut" && go test -count=1 -run "^$name\$" $pkg >/dev/null 2>&1) && echo "SEED: demo passes with change (bad seed)" || echo "SEED: demo fails with change"
rm -f "$W/mut/$place"
VERIF_REPO="$W/mut" "$H/tools/baseline_check.py" | tail -3
for c in "$@"; do
  echo "--- check $c against the changed tree"
  (cd "$H" && VERIF_EVIDENCE_DIR="$W/evidence" VERIF_REPO="$W/mut" ./check "$c" 2>&1 | grep -E "^(VIOLATION|OK|KNOWN)" )
done
