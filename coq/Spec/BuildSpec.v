(* Specification of RA construction (property C01), written from the property text:
   the header fields are the configured ones (router lifetime zeroed on a non-forwarding interface);
   the options are, in plugin order, exactly those each stanza calls for, with its own values.
   Wildcard expansion is delegated to functions of the system state (here: the mirrored
   Prefix.current / Route.current / RDNSS.current of Model/Build.v; their own specifications are
   properties C13-C15); deprecated lifetimes follow the C16 specification.  Definitions only. *)
From CR Require Export Model.Build.
From Coq Require Import String Sorted.
Local Open Scope Z_scope.

(* a deprecated stanza advertises the time left until epoch + L, never below zero *)
Definition spec_lifetime (dep : bool) (s : sys) (L : Z) : Z :=
  if dep then Z.max 0 (s_epoch s + L - s_now s) else L.

(* the options one stanza calls for; Err: the system source it needs is unavailable *)
Definition stanza_opts (p : plugin) (s : sys) : result (list opt) :=
  match p with
  | PPrefix auto a bits onl aut valid preferred dep =>
    let mk := fun x : pfx =>
      OPrefix (snd x) onl aut (spec_lifetime dep s valid) (spec_lifetime dep s preferred) (fst x) in
    if auto then match prefix_current bits s with Err e => Err e | Ok ps => Ok (map mk ps) end
    else Ok [mk (a, bits)]
  | PRoute auto a bits prf lt dep =>
    let mk := fun x : pfx => ORoute (snd x) prf (spec_lifetime dep s lt) (fst x) in
    if auto then match route_current s with Err e => Err e | Ok rs => Ok (map mk rs) end
    else Ok [mk (a, bits)]
  | PRDNSS auto lt servers =>
    if auto then match rdnss_current s with Err e => Err e | Ok a => Ok [ORDNSS lt (a :: servers)] end
    else Ok [ORDNSS lt servers]
  | PDNSSL lt names => Ok [ODNSSL lt names]
  | PMTU m => Ok [OMTU (Z.to_N (m mod 4294967296))]
  | PLLA => Ok (match s_mac s with Some mac => [OSLLA mac] | None => [] end)
  | PCaptive uri => Ok [OCaptive uri]
  | PPref64 v4 a bits lt => Ok [OPref64 v4 a bits lt]
  end.

(* all stanzas, in order; the first unavailable source makes RA generation fail *)
Fixpoint stanzas_opts (ps : list plugin) (s : sys) : result (list opt) :=
  match ps with
  | [] => Ok []
  | p :: t =>
    match stanza_opts p s with
    | Err e => Err e
    | Ok a => match stanzas_opts t s with Err e => Err e | Ok b => Ok (a ++ b) end
    end
  end.

Definition expected_ra (c : iface) (s : sys) : result ra :=
  match stanzas_opts (if_plugins c) s with
  | Err e => Err e
  | Ok os =>
    Ok (mkRA (if_hop c) (if_managed c) (if_other c) (if_pref c)
             (if s_fwd s then if_lifetime c else Z.min 0 (if_lifetime c))
             (if_reachable c) (if_retrans c) os)
  end.

(* ---- documented option order: prefixes, routes, RDNSS, DNSSL, MTU, source link-layer address,
   captive portal, PREF64 *)
Definition opt_rank (o : opt) : N :=
  match o with
  | OPrefix _ _ _ _ _ _ => 0 | ORoute _ _ _ _ => 1 | ORDNSS _ _ => 2 | ODNSSL _ _ => 3
  | OMTU _ => 4 | OSLLA _ => 5 | OCaptive _ => 6 | OPref64 _ _ _ _ => 7 | OOther _ => 8
  end%N.
Definition plugin_rank (p : plugin) : N :=
  match p with
  | PPrefix _ _ _ _ _ _ _ _ => 0 | PRoute _ _ _ _ _ _ => 1 | PRDNSS _ _ _ => 2 | PDNSSL _ _ => 3
  | PMTU _ => 4 | PLLA => 5 | PCaptive _ => 6 | PPref64 _ _ _ _ => 7
  end%N.

(* the Go type name of a plugin kind, and its position in an extracted append order *)
Definition plugin_go_name (p : plugin) : string :=
  match p with
  | PPrefix _ _ _ _ _ _ _ _ => "Prefix" | PRoute _ _ _ _ _ _ => "Route" | PRDNSS _ _ _ => "RDNSS"
  | PDNSSL _ _ => "DNSSL" | PMTU _ => "MTU" | PLLA => "LLA" | PCaptive _ => "CaptivePortal"
  | PPref64 _ _ _ _ => "PREF64"
  end%string.
Fixpoint index_of (x : string) (l : list string) : N :=
  match l with
  | [] => 0
  | y :: t => if String.eqb x y then 0 else N.succ (index_of x t)
  end%N.
Definition rank_in (order : list string) (p : plugin) : N := index_of (plugin_go_name p) order.

(* "the plugin list is ordered by kind as the parser produces it" *)
Definition sorted_by (rank : plugin -> N) (ps : list plugin) : Prop :=
  StronglySorted N.le (map rank ps).

(* ceil(a / b) for b > 0 *)
Definition cdiv (a b : Z) : Z := - ((- a) / b).

(* n-fold rebuild with the configuration threaded through (state-passing) *)
Fixpoint rebuild (n : nat) (c : iface) (s : sys) : result (iface * list ra) :=
  match n with
  | O => Ok (c, [])
  | S n' =>
    match build_st c s with
    | Err e => Err e
    | Ok (c', r) =>
      match rebuild n' c' s with
      | Err e => Err e
      | Ok (c'', rs) => Ok (c'', r :: rs)
      end
    end
  end.
