From CR Require Import Model.Workers.

(* invariant of the atomic system *)
Definition WInv (s : wstate) : Prop :=
  checked s = 0 /\ (1 <= phase s -> stopped s = true) /\ (phase s = 2 -> started s = 0) /\ phase s <= 2.

Lemma winv_init : WInv winit.
Proof. unfold WInv, winit; cbn. repeat split; try lia; intros; lia. Qed.

Lemma winv_step s l s' : WInv s -> wstep true s l = Some s' -> WInv s'.
Proof.
  intros (Hc & Hs & Hq & Hp) H. unfold WInv.
  destruct l; cbn in H.
  - (* WStart *) destruct (stopped s) eqn:Es; cbn in H; [discriminate|]. inversion H; subst; cbn.
    split; [exact Hc|]. split; [|split].
    + intros Hph. specialize (Hs Hph). congruence.
    + intros Hph. assert (1 <= phase s) as H1 by lia. specialize (Hs H1). congruence.
    + exact Hp.
  - (* WRefuse *) destruct (stopped s) eqn:Es; [|discriminate]. inversion H; subst.
    split; [exact Hc|]. split; [intros _; exact Es|]. split; [exact Hq|exact Hp].
  - discriminate.
  - destruct (checked s); discriminate.
  - (* WDone *) destruct (started s) as [|n] eqn:En; [discriminate|]. inversion H; subst; cbn.
    split; [exact Hc|]. split; [exact Hs|]. split; [|exact Hp]. intros Hph. specialize (Hq Hph). lia.
  - (* WSet *) destruct (phase s =? 0) eqn:Ep; [|discriminate]. apply Nat.eqb_eq in Ep. inversion H; subst; cbn.
    split; [exact Hc|]. split; [reflexivity|]. split; [intros; lia|lia].
  - (* WWait *) destruct (phase s =? 1) eqn:Ep; cbn in H; [|discriminate].
    destruct (started s =? 0) eqn:E0; [|discriminate]. apply Nat.eqb_eq in Ep. apply Nat.eqb_eq in E0.
    inversion H; subst; cbn. split; [exact Hc|]. split; [intros _; apply Hs; lia|]. split; [intros _; exact E0|lia].
Qed.

Lemma winv_run ls : forall s s', WInv s -> wrun true s ls = Some s' -> WInv s'.
Proof.
  induction ls as [|l ls IH]; cbn; intros s s' Hi H.
  - inversion H; subst; exact Hi.
  - destruct (wstep true s l) as [s1|] eqn:E; [|discriminate]. eapply IH; [|exact H]. eapply winv_step; eauto.
Qed.

(* once stop() has returned nothing is in flight ... *)
Lemma quiesced ls s : wrun true winit ls = Some s -> phase s = 2 -> started s = 0 /\ checked s = 0.
Proof. intros H Hp. destruct (winv_run ls winit s winv_init H) as (Hc & _ & Hq & _). split; [apply Hq; exact Hp|exact Hc]. Qed.

(* ... and nothing can start any more: the only enabled labels are a refusal *)
Lemma nothing_starts ls s l s' :
  wrun true winit ls = Some s -> phase s = 2 -> wstep true s l = Some s' -> l = WRefuse /\ s' = s.
Proof.
  intros H Hp Hst. destruct (winv_run ls winit s winv_init H) as (Hc & Hs & Hq & _).
  assert (stopped s = true) as Est by (apply Hs; lia). specialize (Hq Hp).
  destruct l; cbn in Hst.
  - rewrite Est in Hst; cbn in Hst; discriminate.
  - rewrite Est in Hst. inversion Hst; auto.
  - discriminate.
  - rewrite Hc in Hst; discriminate.
  - rewrite Hq in Hst; discriminate.
  - rewrite Hp in Hst; discriminate.
  - rewrite Hp in Hst; discriminate.
Qed.

(* stop() always gets to return: while it waits, the count only goes down (no start succeeds), and when it is
   zero Wait is enabled *)
Lemma stop_progress ls s :
  wrun true winit ls = Some s -> phase s = 1 ->
  (started s = 0 /\ exists s', wstep true s WWait = Some s' /\ phase s' = 2) \/
  (0 < started s /\ exists s', wstep true s WDone = Some s' /\ started s' < started s /\ phase s' = 1).
Proof.
  intros H Hp. destruct (started s) as [|n] eqn:En.
  - left. split; [reflexivity|]. eexists. cbn. rewrite Hp, En. cbn. split; reflexivity.
  - right. split; [lia|]. eexists. cbn. rewrite En. split; [reflexivity|]. cbn. split; [lia|exact Hp].
Qed.

Lemma waiting_count_never_grows ls s l s' :
  wrun true winit ls = Some s -> 1 <= phase s -> wstep true s l = Some s' -> started s' <= started s.
Proof.
  intros H Hp Hst. destruct (winv_run ls winit s winv_init H) as (Hc & Hs & _ & _).
  specialize (Hs Hp). destruct l; cbn in Hst.
  - rewrite Hs in Hst; cbn in Hst; discriminate.
  - rewrite Hs in Hst. inversion Hst; subst; lia.
  - discriminate.
  - rewrite Hc in Hst; discriminate.
  - destruct (started s); [discriminate|]. inversion Hst; subst; cbn; lia.
  - destruct (phase s =? 0); [|discriminate]. inversion Hst; subst; cbn; lia.
  - destruct ((phase s =? 1) && (started s =? 0)); [|discriminate]. inversion Hst; subst; cbn; lia.
Qed.

(* the lock-free variant: a worker that has read stopped = false is counted after stop() has returned *)
Definition lockfree_trace : list wlabel := [WCheck; WSet; WWait; WAdd].

Lemma lockfree_overtaken :
  exists s, wrun false winit lockfree_trace = Some s /\ phase s = 2 /\ started s = 1.
Proof. eexists. split; [vm_compute; reflexivity|]. split; reflexivity. Qed.
