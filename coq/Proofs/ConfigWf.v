(* C02 -- every accepted interface is well formed (cfg_wf), and cfg_wfb reflects cfg_wf. *)
From Coq Require Import Lia ZifyBool Btauto Permutation.
From CR Require Import Model.Config.
From CR Require Import Model.ConfigSpec.
From CR Require Import Model.ConfigWf.
From CR Require Import Proofs.ConfigSpec.
Local Open Scope Z_scope.

Ltac unfold_units := unfold infinity, hour, minute, sec, ms, us, ns in *.

(* ---------------------------------------------------------------- reflection *)

Lemma nodupN_b_iff l : nodupN_b l = true <-> NoDup l.
Proof.
  replace (nodupN_b l) with (nodup_b N.eqb l) by (induction l; cbn; congruence). apply nodup_b_iff. apply N.eqb_eq.
Qed.

Lemma plugin_wfb_iff mx p : plugin_wfb mx p = true <-> plugin_wf mx p.
Proof.
  destruct p as [auto a b o s valid preferred dep | auto a b prf lt dep | auto lt servers | lt names | m | | u | v4 a b lt];
    cbn [plugin_wfb plugin_wf].
  - rewrite !andb_true_iff, !orb_true_iff, !negb_true_iff, eqb_true_iff.
    destruct auto, dep, (addr_is_4in6 a); unfold_units; split; intros; repeat split; try lia; try tauto; try congruence.
    all: intuition (try lia; try congruence).
  - rewrite !andb_true_iff, !orb_true_iff, !negb_true_iff, eqb_true_iff.
    destruct auto, dep, (addr_is_4in6 a); unfold_units; split; intros; repeat split; try lia; try tauto; try congruence.
    all: intuition (try lia; try congruence).
  - rewrite !andb_true_iff, !orb_true_iff, !negb_true_iff, nodupN_b_iff.
    rewrite (forallb_Forall_iff _ (fun s => (s < two128)%N /\ addr_is_4in6 s = false))
      by (intros; rewrite andb_true_iff, negb_true_iff, N.ltb_lt; tauto).
    assert (X : existsb (N.eqb 0) servers = false <-> ~ In 0%N servers).
    { split.
      - intros E I. assert (existsb (N.eqb 0) servers = true) by (apply existsb_exists; exists 0%N; auto). congruence.
      - intros H. destruct (existsb (N.eqb 0) servers) eqn:E; [|reflexivity].
        apply existsb_exists in E as [y [Hy E]]. apply N.eqb_eq in E. subst. contradiction. }
    rewrite X. destruct servers; cbn; intuition (try lia; try congruence).
  - rewrite !andb_true_iff, !negb_true_iff, nodupN_b_iff.
    destruct names; cbn; intuition (try lia; try congruence).
  - lia.
  - tauto.
  - rewrite negb_true_iff, N.eqb_neq. tauto.
  - rewrite !andb_true_iff, !negb_true_iff, existsb_exists.
    assert (X : (exists x, In x pref64_lengths /\ N.eqb b x = true) <-> In b pref64_lengths).
    { split; [intros [x [Hx E]]; apply N.eqb_eq in E; subst; exact Hx | intros H; exists b; split; [exact H | apply N.eqb_refl]]. }
    rewrite X. destruct v4, (addr_is_4in6 a); intuition (try lia; try congruence).
Qed.

Lemma pref_eqb_medium p : pref_eqb p Medium = true <-> p = Medium.
Proof. destruct p; cbn; split; congruence. Qed.

Theorem cfg_wfb_iff i : cfg_wfb i = true <-> cfg_wf i.
Proof.
  unfold cfg_wfb, cfg_wf. destruct (if_monitor i).
  - rewrite !andb_true_iff, !negb_true_iff, !Z.eqb_eq, N.eqb_eq, pref_eqb_medium.
    destruct (if_plugins i); intuition congruence.
  - rewrite !andb_true_iff, orb_true_iff, andb_true_iff, (forallb_Forall_iff _ _ _ (plugin_wfb_iff (if_max i))).
    intuition lia.
Qed.

(* ---------------------------------------------------------------- accepted => well formed *)

Lemma ctext_wf_cidr c d :
  ctext_wfb c = true -> canonical_v6 c -> (fst d < two128)%N -> (snd d <= 128)%N ->
  mask (fst d) (snd d) = fst d -> is_4in6 (fst d) = false ->
  let ab := cidr_of c d in
  (fst ab < two128)%N /\ (snd ab <= 128)%N /\ mask (fst ab) (snd ab) = fst ab /\ is_4in6 (fst ab) = false.
Proof.
  intros W C D1 D2 D3 D4. destruct c as [| | |v4 a b]; cbn in *.
  1,2: repeat split; assumption.
  - contradiction.
  - destruct C as [-> [C1 C2]]. apply andb_true_iff in W as [W1 W2]. repeat split; try assumption; lia.
Qed.

Lemma prefix_default_wf mx p :
  ctext_wfb (rp_prefix p) = true -> prefix_ok p -> plugin_wf mx (prefix_default p).
Proof.
  intros W [C [H128 [H0 HL]]]. unfold prefix_default, prefix_cidr in *.
  pose proof (ctext_wf_cidr (rp_prefix p) wild_prefix W C) as X. cbn zeta in X.
  specialize (X ltac:(vm_compute; reflexivity) ltac:(vm_compute; congruence) ltac:(vm_compute; reflexivity) ltac:(vm_compute; reflexivity)).
  destruct (cidr_of (rp_prefix p) wild_prefix) as [a b]. cbn [fst snd] in *.
  destruct X as [X1 [X2 [X3 X4]]].
  unfold prefix_valid, prefix_preferred in *.
  destruct (lifetime_value (rp_valid p) (24 * hour)) as [valid|]; [|contradiction].
  destruct (lifetime_value (rp_preferred p) (4 * hour)) as [preferred|]; [|contradiction].
  cbn in HL. cbn [plugin_wf value_or]. unfold pair_eqb, wild_prefix. cbn [fst snd].
  change (addr_is_4in6 a) with (is_4in6 a).
  destruct HL as (L1 & L2 & L3 & L4). unfold_units.
  destruct (rp_deprecated p); [specialize (L4 eq_refl)|]; repeat split; try assumption; try lia.
  all: try (intros; lia).
  all: rewrite ?andb_true_iff, ?N.eqb_eq; try tauto; try (intros; split; [assumption | auto]).
Qed.

Lemma route_default_wf mx r :
  ctext_wfb (rr_prefix r) = true -> route_ok r -> plugin_wf mx (route_default r).
Proof.
  intros W [C [H0 [_ HL]]]. unfold route_default, route_cidr in *.
  pose proof (ctext_wf_cidr (rr_prefix r) wild_route W C) as X. cbn zeta in X.
  specialize (X ltac:(vm_compute; reflexivity) ltac:(vm_compute; congruence) ltac:(vm_compute; reflexivity) ltac:(vm_compute; reflexivity)).
  destruct (cidr_of (rr_prefix r) wild_route) as [a b]. cbn [fst snd] in *.
  destruct X as [X1 [X2 [X3 X4]]].
  unfold route_lifetime_v in *.
  destruct (lifetime_value (rr_lifetime r) (24 * hour)) as [lt|]; [|contradiction].
  cbn in HL. cbn [plugin_wf value_or]. unfold pair_eqb, wild_route. cbn [fst snd].
  change (addr_is_4in6 a) with (is_4in6 a).
  destruct HL as (L1 & L4). unfold_units.
  destruct (rr_deprecated r); [specialize (L4 eq_refl)|]; repeat split; try assumption; try lia.
  all: try (intros; lia).
  all: rewrite ?andb_true_iff, ?N.eqb_eq; try tauto; try (intros; split; [assumption | auto]).
Qed.

Local Ltac Zify.zify_post_hook ::= Z.div_mod_to_equations.

Lemma pref64_default_wf mx p : 4 * sec <= mx <= 1800 * sec ->
  ctext_wfb (r6_prefix p) = true -> pref64_ok p -> plugin_wf mx (pref64_default mx p).
Proof.
  intros Hm W [C HL]. unfold pref64_default, pref64_cidr in *.
  pose proof (ctext_wf_cidr (r6_prefix p) well_known_pref64 W C) as X. cbn zeta in X.
  specialize (X ltac:(vm_compute; reflexivity) ltac:(vm_compute; congruence) ltac:(vm_compute; reflexivity) ltac:(vm_compute; reflexivity)).
  destruct (cidr_of (r6_prefix p) well_known_pref64) as [a b]. cbn [fst snd] in *.
  destruct X as [X1 [X2 [X3 X4]]].
  cbn [plugin_wf]. change (addr_is_4in6 a) with (is_4in6 a).
  repeat split; try assumption.
  all: unfold pref64_lifetime; unfold_units.
  all: lia.
Qed.

Local Ltac Zify.zify_post_hook ::= idtac.

(* ---- RDNSS: the presented server list *)

Lemma sk_insert_perm x l : Permutation (sk_insert x l) (x :: l).
Proof.
  induction l as [|y t IH]; cbn; [reflexivity|].
  destruct (skey_leb x y); [reflexivity|].
  rewrite IH. apply perm_swap.
Qed.

Lemma sk_sort_perm l : Permutation (sk_sort l) l.
Proof.
  induction l as [|x t IH]; cbn; [reflexivity|].
  rewrite sk_insert_perm. constructor. exact IH.
Qed.

Lemma NoDup_map_inj_on {A B} (f : A -> B) l :
  NoDup l -> (forall x y, In x l -> In y l -> f x = f y -> x = y) -> NoDup (map f l).
Proof.
  induction 1 as [|x t Hn Hd IH]; intros Hinj; cbn; constructor.
  - intros I. apply in_map_iff in I as [y [E Hy]].
    assert (y = x) by (apply Hinj; cbn; auto). subst. contradiction.
  - apply IH. intros a b Ha Hb. apply Hinj; cbn; auto.
Qed.

Definition good_key (k : skey) : Prop := (fst k < two128)%N /\ is_4in6 (fst k) = false /\ snd k = 0%N.

Lemma server_keys_good l : forallb atext_wfb l = true -> Forall good_key (server_keys l).
Proof.
  induction l as [|s t IH]; cbn; intros H; [constructor|].
  apply andb_true_iff in H as [H1 H2]. specialize (IH H2).
  destruct s as [|v4 a z]; cbn; [exact IH|]. destruct v4; [exact IH|].
  destruct (is_4in6 a) eqn:E; [exact IH|]. destruct (N.ltb 0 z) eqn:Ez; [exact IH|]. cbn. constructor; [|exact IH].
  split; [|split]; cbn [fst snd]; [change (N.ltb a two128 = true) in H1; apply N.ltb_lt; exact H1 | exact E | apply N.ltb_ge in Ez; lia].
Qed.

Lemma two128_val : two128 = 340282366920938463463374607431768211456%N.
Proof. reflexivity. Qed.

Lemma skey_enc_inj x y : good_key x -> good_key y -> skey_enc x = skey_enc y -> x = y.
Proof.
  destruct x as [a z], y as [a' z']. unfold good_key, skey_enc. cbn [fst snd]. rewrite two128_val.
  intros [H1 _] [H2 _] E. assert (a = a' /\ z = z') as [-> ->] by lia. reflexivity.
Qed.

Lemma skey_enc_plain k : good_key k -> skey_enc k = fst k.
Proof.
  destruct k as [a z]. unfold good_key, skey_enc. cbn [fst snd]. intros [_ [_ ->]]. lia.
Qed.

Lemma wild_eqb_false k : skey_eqb wild_server k = false <-> k <> wild_server.
Proof.
  pose proof (skey_eqb_eq wild_server k) as H. destruct (skey_eqb wild_server k); split; try congruence.
  - intros N. exfalso. apply N. symmetry. apply H. reflexivity.
  - intros _ E. destruct H as [_ H]. symmetry in E. apply H in E. discriminate.
Qed.

Lemma rdnss_default_wf mx d :
  forallb atext_wfb (rd_servers d) = true -> rdnss_ok mx d -> plugin_wf mx (rdnss_default mx d).
Proof.
  intros W [HL [HS HN]]. unfold rdnss_default, rdnss_lifetime_v in *.
  destruct (lifetime_value (rd_lifetime d) (3 * mx)) as [lt|]; [|contradiction]. cbn in HL.
  pose proof (server_keys_good _ W) as G.
  set (keys := server_keys (rd_servers d)) in *.
  set (ks := filter (fun k => negb (skey_eqb wild_server k)) keys).
  assert (Hin : forall k, In k (sk_sort ks) <-> In k keys /\ k <> wild_server).
  { intros k. split.
    - intros I. apply (Permutation_in _ (sk_sort_perm ks)) in I. apply filter_In in I as [I1 I2].
      split; [exact I1|]. apply wild_eqb_false. apply negb_true_iff. exact I2.
    - intros [I1 I2]. apply (Permutation_in _ (Permutation_sym (sk_sort_perm ks))). apply filter_In.
      split; [exact I1|]. apply negb_true_iff. apply wild_eqb_false. exact I2. }
  assert (Gs : forall k, In k (sk_sort ks) -> good_key k).
  { intros k I. apply Hin in I as [I _]. rewrite Forall_forall in G. apply G. exact I. }
  cbn [plugin_wf value_or]. refine (conj _ (conj _ (conj _ (conj _ _)))).
  - unfold_units. lia.
  - apply NoDup_map_inj_on.
    + apply (Permutation_NoDup (Permutation_sym (sk_sort_perm ks))). apply NoDup_filter. exact HN.
    + intros x y Hx Hy. apply skey_enc_inj; auto.
  - intros I. apply in_map_iff in I as [k [E Hk]].
    pose proof (Gs k Hk) as [Gk _]. apply Hin in Hk as [_ Hk]. apply Hk.
    destruct k as [a z]. unfold skey_enc in E. cbn [fst snd] in *. rewrite two128_val in *.
    assert (a = 0%N /\ z = 0%N) as [-> ->] by lia. reflexivity.
  - destruct (rd_servers d) as [|s t] eqn:Es; [left; reflexivity|].
    destruct (existsb (skey_eqb wild_server) keys) eqn:Ew; [left; reflexivity|]. right.
    (* the first server is not the wildcard, so the presented list is not empty *)
    inversion HS as [|? ? Hs _]; subst.
    destruct (server_key s) as [k|] eqn:Ek; [|congruence].
    assert (Ik : In k keys). { unfold keys. try rewrite Es. unfold server_keys. cbn [flat_map]. rewrite Ek. cbn. auto. }
    assert (Nk : k <> wild_server).
    { intros ->. assert (existsb (skey_eqb wild_server) keys = true).
      { apply existsb_exists. exists wild_server. split; [exact Ik | reflexivity]. }
      congruence. }
    intros E. assert (I : In (skey_enc k) (map skey_enc (sk_sort ks))) by (apply in_map; apply Hin; auto).
    rewrite E in I. exact I.
  - apply Forall_map. apply Forall_forall. intros k Hk. rewrite skey_enc_plain by auto.
    destruct (Gs k Hk) as [G1 [G2 _]]. split; assumption.
Qed.

Lemma dnssl_default_wf mx d : dnssl_ok mx d -> plugin_wf mx (dnssl_default mx d).
Proof.
  intros [HL [H1 H2]]. unfold dnssl_default, dnssl_lifetime_v in *.
  destruct (lifetime_value (rn_lifetime d) (3 * mx)) as [lt|]; [|contradiction]. cbn in HL.
  cbn [plugin_wf value_or]. refine (conj _ (conj _ _)); try assumption; unfold_units; lia.
Qed.

(* ---- interfaces *)

Lemma Forall_map_wf {A} (P : plugin -> Prop) (ok : A -> Prop) (wfb : A -> bool) (d : A -> plugin) l :
  (forall x, wfb x = true -> ok x -> P (d x)) ->
  forallb wfb l = true -> Forall ok l -> Forall P (map d l).
Proof.
  intros H W F. apply Forall_map. induction F as [|x t Hx Ht IH]; constructor.
  - cbn in W. apply andb_true_iff in W as [W1 _]. auto.
  - cbn in W. apply andb_true_iff in W as [_ W2]. auto.
Qed.

Lemma Forall_map_wf' {A} (P : plugin -> Prop) (ok : A -> Prop) (d : A -> plugin) l :
  (forall x, ok x -> P (d x)) -> Forall ok l -> Forall P (map d l).
Proof. intros H F. apply Forall_map. induction F; constructor; auto. Qed.

Local Ltac Zify.zify_post_hook ::= Z.div_mod_to_equations.

Lemma min_interval_default_range t mx : 4 * sec <= mx <= 1800 * sec -> min_interval_ok t mx ->
  2 * sec <= min_interval_default t mx <= mx.
Proof.
  intros Hm H. unfold min_interval_default. destruct t; cbn [min_interval_ok] in H; try contradiction.
  1-3: destruct (mx <? 9 * sec) eqn:E; unfold sec_floor; unfold_units; lia.
  unfold sec_floor in *. unfold_units. lia.
Qed.

Local Ltac Zify.zify_post_hook ::= idtac.

Lemma iface_default_wf st name : iface_lex_wfb st = true -> stanza_ok st -> cfg_wf (iface_default st name).
Proof.
  intros W [_ [_ HA]]. unfold cfg_wf, iface_default.
  destruct (ri_monitor st); cbn [if_monitor].
  - cbn. repeat split; reflexivity.
  - specialize (HA eq_refl). unfold advertising_ok in HA.
    destruct (max_interval_v st) as [mx|]; [|contradiction]. cbn [with_value value_or] in *.
    destruct HA as (Hm & Hmin & Hr & Ht & Hh & Hl & _ & Hpf & _ & Hrt & _ & Hrd & Hdn & Hmtu & Hcp & Hp6).
    unfold iface_lex_wfb in W. apply andb_true_iff in W as [W W4]. apply andb_true_iff in W as [W W3].
    apply andb_true_iff in W as [W1 W2].
    cbn [if_max if_min if_reachable if_retrans if_hop if_lifetime if_plugins].
    refine (conj Hm (conj _ (conj _ (conj _ (conj _ (conj _ _)))))).
    + apply min_interval_default_range; assumption.
    + destruct (reachable_v st); [exact Hr | contradiction].
    + destruct (retrans_v st); [exact Ht | contradiction].
    + lia.
    + destruct (default_lifetime_v mx st); [exact Hl | contradiction].
    + unfold plugins_default. repeat (apply Forall_app; split).
      * eapply Forall_map_wf; [ | exact W1 | exact Hpf]. intros p. apply prefix_default_wf.
      * eapply Forall_map_wf; [ | exact W2 | exact Hrt]. intros r. apply route_default_wf.
      * eapply Forall_map_wf; [ | exact W3 | exact Hrd]. intros d. apply rdnss_default_wf.
      * eapply Forall_map_wf'; [ | exact Hdn]. intros d. apply dnssl_default_wf.
      * destruct (ri_mtu st =? 0) eqn:E; constructor; [|constructor]. cbn. lia.
      * destruct (ri_source_lla st) as [[|]|]; repeat constructor.
      * destruct (ri_captive st) as [| |u]; repeat constructor.
        destruct Hcp as [_ Hcp]. cbn. congruence.
      * eapply Forall_map_wf; [ | exact W4 | exact Hp6]. intros p. apply pref64_default_wf. exact Hm.
Qed.

Theorem accepts_wf raw : lex_wfb raw = true -> Accepts raw -> Forall cfg_wf (fst (defaults raw)).
Proof.
  intros W [_ [_ [HS _]]]. unfold defaults. cbn [fst]. apply Forall_flat_map.
  unfold lex_wfb in W. induction HS as [|st rest Hst Hrest IH]; constructor.
  - cbn in W. apply andb_true_iff in W as [W1 _]. unfold stanza_default. apply Forall_map.
    apply Forall_forall. intros n _. apply iface_default_wf; assumption.
  - cbn in W. apply andb_true_iff in W as [_ W2]. auto.
Qed.
