From CR Require Import Model.Build Model.Wire Model.CfgWfBuild.
