(* Lemmas about the wire codec model and the encodability of built RAs (property C03). *)
From CR Require Import Model.Build Model.Wire Model.CfgWfBuild Spec.BuildSpec Proofs.Lifetimes Proofs.Build.
From Coq Require Import Lia ZifyBool.
Local Open Scope Z_scope.

(* ------------------------------------------------------------------ masks *)
Local Open Scope N_scope.

Lemma mask_div_mul a n : mask a n = a / 2 ^ (128 - n) * 2 ^ (128 - n).
Proof. unfold mask. rewrite N.shiftl_mul_pow2, N.shiftr_div_pow2. reflexivity. Qed.

Lemma pow2_nz k : 2 ^ k <> 0.
Proof. apply N.pow_nonzero. discriminate. Qed.

Lemma mask_idem a n : mask (mask a n) n = mask a n.
Proof. rewrite (mask_div_mul (mask a n)), (mask_div_mul a n). rewrite N.div_mul by apply pow2_nz. reflexivity. Qed.

(* a prefix masked to n bits is unchanged by masking to m >= n bits *)
Lemma mask_le a n m : n <= m -> mask a n = a -> mask a m = a.
Proof.
  intros Hnm Hm. rewrite <- Hm at 2. rewrite <- Hm at 1. rewrite (mask_div_mul a n).
  set (q := a / 2 ^ (128 - n)).
  rewrite mask_div_mul.
  assert (E : 2 ^ (128 - n) = 2 ^ (128 - n - (128 - m)) * 2 ^ (128 - m)).
  { rewrite <- N.pow_add_r. f_equal. lia. }
  rewrite E at 1. rewrite N.mul_assoc, N.div_mul by apply pow2_nz.
  rewrite <- N.mul_assoc, <- E. reflexivity.
Qed.

Lemma mask_128 a : mask a 128 = a.
Proof. rewrite mask_div_mul. change (2 ^ (128 - 128)) with 1. rewrite N.div_1_r, N.mul_1_r. reflexivity. Qed.

(* a /64 network address is never an IPv4-mapped address *)
Lemma mask64_not_4in6 a : is4in6 (mask a 64) = false.
Proof.
  unfold is4in6. rewrite mask_div_mul, N.shiftr_div_pow2.
  change (2 ^ (128 - 64)) with (4294967296 * 4294967296). change (2 ^ 32) with 4294967296.
  rewrite N.mul_assoc, N.div_mul by discriminate.
  apply N.eqb_neq. lia.
Qed.
Local Close Scope N_scope.

(* ------------------------------------------------------------------ duration conversions *)
Lemma sec_val : sec = 1000000000. Proof. reflexivity. Qed.
Lemma ms_val : ms = 1000000. Proof. reflexivity. Qed.

Lemma float_secs_exact d : rounds_up d = false -> float_secs d = d / sec.
Proof. unfold rounds_up. intros H. apply Bool.negb_false_iff, Z.eqb_eq in H. exact H. Qed.

Lemma div_sec_bounds d b : 0 <= d -> d < b * sec -> 0 <= d / sec < b.
Proof.
  intros H0 H1. split; [apply Z.div_pos; [assumption|reflexivity]|].
  apply Z.div_lt_upper_bound; [reflexivity|]. rewrite Z.mul_comm. assumption.
Qed.

Lemma in_secs32_spec d : in_secs32 d = true <-> 0 <= d < two32 * sec.
Proof. unfold in_secs32. rewrite Bool.andb_true_iff, Z.leb_le, Z.ltb_lt. tauto. Qed.

Lemma u32_secs_trunc d :
  in_secs32 d = true -> rounds_up d = false -> of_secs (u32_secs d) = trunc_s d.
Proof.
  intros Hr Hn. apply in_secs32_spec in Hr. unfold of_secs, u32_secs, trunc_s.
  rewrite (float_secs_exact d Hn).
  pose proof (div_sec_bounds d two32 (proj1 Hr) (proj2 Hr)).
  rewrite Z.mod_small by assumption. rewrite Z2N.id by lia. reflexivity.
Qed.

Lemma u16_secs_trunc d :
  0 <= d -> d < two16 * sec -> rounds_up d = false -> of_secs (u16_secs d) = trunc_s d.
Proof.
  intros H0 H1 Hn. unfold of_secs, u16_secs, trunc_s.
  rewrite (float_secs_exact d Hn).
  pose proof (div_sec_bounds d two16 H0 H1).
  rewrite Z.mod_small by assumption. rewrite Z2N.id by lia. reflexivity.
Qed.

Lemma u32_millis_trunc d :
  0 <= d -> d < two32 * ms -> of_millis (u32_millis d) = trunc_ms d.
Proof.
  intros H0 H1. unfold of_millis, u32_millis, trunc_ms.
  rewrite Z.quot_div_nonneg by (try assumption; reflexivity).
  assert (0 <= d / ms < two32).
  { split; [apply Z.div_pos; [assumption|reflexivity]|].
    apply Z.div_lt_upper_bound; [reflexivity|]. rewrite Z.mul_comm. assumption. }
  rewrite Z.mod_small by assumption. rewrite Z2N.id by lia. reflexivity.
Qed.

(* no binary64 round-up below 2^24 s (194 days) ... *)
Lemma small_no_roundup d : 0 <= d < 16777216 * sec -> rounds_up d = false.
Proof.
  intros [H0 H1]. unfold rounds_up. apply Bool.negb_false_iff, Z.eqb_eq.
  unfold float_secs.
  rewrite Z.quot_div_nonneg by (try assumption; reflexivity).
  rewrite Z.rem_mod_nonneg by (try assumption; reflexivity).
  pose proof (div_sec_bounds d 16777216 H0 H1) as Hs.
  pose proof (Z.mod_pos_bound d sec eq_refl) as Hn.
  destruct (Z.ltb_spec 0 (d / sec)) as [Hp|Hp]; [|reflexivity].
  assert (Hk : Z.log2 (d / sec) < 24).
  { apply Z.log2_lt_pow2; [assumption|]. change (2 ^ 24) with 16777216. lia. }
  pose proof (Z.log2_nonneg (d / sec)) as Hk0.
  assert (Hp2 : 2 ^ 21 <= 2 ^ (44 - Z.log2 (d / sec))) by (apply Z.pow_le_mono_r; lia).
  change (2 ^ 21) with 2097152 in Hp2.
  assert (Hprod : 2097152 <= (sec - d mod sec) * 2 ^ (44 - Z.log2 (d / sec))).
  { eapply Z.le_trans; [exact Hp2|].
    rewrite <- (Z.mul_1_l (2 ^ _)) at 1. apply Z.mul_le_mono_nonneg_r; lia. }
  destruct (Z.leb_spec ((sec - d mod sec) * 2 ^ (44 - Z.log2 (d / sec))) 1953125); [lia|].
  rewrite Bool.andb_false_r. reflexivity.
Qed.

(* ... nor for a whole number of seconds below 2^44 s *)
Lemma whole_no_roundup d : 0 <= d -> d mod sec = 0 -> rounds_up d = false.
Proof.
  intros H0 Hm. unfold rounds_up. apply Bool.negb_false_iff, Z.eqb_eq.
  unfold float_secs.
  rewrite Z.quot_div_nonneg by (try assumption; reflexivity).
  rewrite Z.rem_mod_nonneg by (try assumption; reflexivity).
  rewrite Hm, Z.sub_0_r.
  destruct (Z.ltb_spec 0 (d / sec)) as [Hp|Hp]; [|reflexivity].
  destruct (Z.ltb_spec (Z.log2 (d / sec)) 44) as [Hk|Hk]; [|reflexivity].
  assert (1 <= 2 ^ (44 - Z.log2 (d / sec))).
  { change 1 with (2 ^ 0). apply Z.pow_le_mono_r; lia. }
  destruct (Z.leb_spec (sec * 2 ^ (44 - Z.log2 (d / sec))) 1953125); [|reflexivity].
  rewrite sec_val in *. lia.
Qed.

(* ------------------------------------------------------------------ one option through the codec *)
Lemma masked_ok_spec a plen : masked_ok a plen = true -> (plen <= 128)%N /\ mask a plen = a.
Proof. unfold masked_ok. rewrite Bool.andb_true_iff, N.leb_le, N.eqb_eq. tauto. Qed.

Lemma route_iplen_ge plen : (plen <= 128 -> plen <= 64 * route_iplen plen)%N.
Proof.
  intros H. unfold route_iplen. destruct (N.eqb_spec plen 0); [lia|].
  destruct (N.leb_spec plen 64); lia.
Qed.

Lemma pref64_plc_spec bits plc :
  pref64_plc bits = Some plc -> plc_bits plc = Some bits /\ (bits <= 96)%N.
Proof.
  unfold pref64_plc.
  repeat match goal with |- context [N.eqb bits ?k] => destruct (N.eqb_spec bits k); [subst; intros H; injection H as <-; split; [reflexivity|lia]|] end.
  discriminate.
Qed.

Lemma pref64_scaled_exact t :
  0 <= t <= 65528 * sec -> t mod (8 * sec) = 0 ->
  (8191 <? pref64_scaled t)%N = false /\ Z.of_N (pref64_scaled t) * 8 * sec = t.
Proof.
  intros Ht Hm. unfold pref64_scaled.
  rewrite sec_val in *. 
  rewrite Z.quot_div_nonneg by lia.
  assert (E : (2 * t + 8 * 1000000000) / (16 * 1000000000) = t / (8 * 1000000000)).
  { pose proof (Z.div_mod t (8 * 1000000000) ltac:(lia)).
    pose proof (Z.div_mod (2 * t + 8 * 1000000000) (16 * 1000000000) ltac:(lia)).
    pose proof (Z.mod_pos_bound (2 * t + 8 * 1000000000) (16 * 1000000000) ltac:(lia)). lia. }
  rewrite E.
  pose proof (Z.div_mod t (8 * 1000000000) ltac:(lia)) as Hd. rewrite Hm in Hd.
  assert (0 <= t / (8 * 1000000000) <= 8191) by lia.
  unfold two16. rewrite Z.mod_small by lia.
  split; [apply N.ltb_ge; lia|]. rewrite Z2N.id by lia. lia.
Qed.

Ltac split_andb :=
  repeat match goal with
         | H : (_ && _)%bool = true |- _ => apply Bool.andb_true_iff in H; destruct H
         end.

Local Ltac Zify.zify_post_hook ::= Z.div_mod_to_equations.

Lemma rdnss_raw_ok n : (n <> 0 -> 8 + 16 * n <= 248 ->
  raw_ok ((1 + (n * 2) mod 256) mod 256) (8 + 16 * n) = true)%N.
Proof.
  intros H0 H1. unfold raw_ok. apply N.eqb_eq.
  rewrite (N.mod_small (n * 2) 256) by lia.
  rewrite (N.mod_small (1 + n * 2) 256) by lia.
  rewrite N.mod_small by lia. lia.
Qed.

Lemma dnssl_raw_ok x : (round8 x <= 248 -> raw_ok ((round8 x / 8) mod 256) (round8 x) = true)%N.
Proof.
  unfold raw_ok, round8. set (q := ((x + 7) / 8)%N). intros H. apply N.eqb_eq.
  rewrite N.div_mul by discriminate.
  rewrite (N.mod_small q 256) by lia. rewrite N.mod_small by lia. reflexivity.
Qed.

Lemma captive_raw_ok len : (len <> 0 -> round8 (len + 2) <= 248 ->
  let l := round8 (len + 2) - 2 in raw_ok ((((l mod 256) + 2) mod 256) / 8) (l + 2) = true)%N.
Proof.
  unfold raw_ok, round8. set (q := ((len + 2 + 7) / 8)%N). intros H0 H1. cbv zeta. apply N.eqb_eq.
  assert (Hq : (1 <= q)%N).
  { unfold q. apply N.div_le_lower_bound; [discriminate|]. lia. }
  assert (E : (q * 8 - 2 + 2 = q * 8)%N) by lia.
  rewrite (N.mod_small (q * 8 - 2) 256) by lia. rewrite E.
  rewrite (N.mod_small (q * 8) 256) by lia. rewrite N.div_mul by discriminate.
  rewrite N.mod_small by lia. reflexivity.
Qed.

Lemma opt_roundtrip o :
  opt_ok 2040 o = true -> (opt_wire_len o <=? 248)%N = true ->
  existsb rounds_up (opt_lifetimes o) = false ->
  exists w, encode_opt o = Ok w /\ decode_opt false w = Ok (trunc_opt o)
            /\ decode_opt true w = Ok (ndp_view_opt (trunc_opt o)).
Proof.
  intros Hok Hfit Hru. unfold opt_ok in Hok. apply Bool.andb_true_iff in Hok as [_ Hok].
  destruct o as [plen onl aut v p a|plen prf t a|t servers|t names|m|mac|uri|v4 a bits t|code];
    cbn [opt_lifetimes existsb] in Hru; cbn [opt_wire_len] in Hfit; cbn [encode_opt].
  - (* prefix information *)
    split_andb. rewrite !Bool.orb_false_r in Hru. apply Bool.orb_false_iff in Hru as [Hv Hp].
    match goal with H : masked_ok _ _ = true |- _ => rewrite H; apply masked_ok_spec in H as [Hl Hm] end.
    eexists. split; [reflexivity|]. cbn [decode_opt trunc_opt ndp_view_opt].
    match goal with H : negb (is4in6 a) = true |- _ => apply Bool.negb_true_iff in H; rewrite H end.
    assert (E : (128 <? plen)%N = false) by (apply N.ltb_ge; assumption). rewrite E, Hm.
    rewrite !u32_secs_trunc by assumption. split; reflexivity.
  - (* route information *)
    split_andb. rewrite Bool.orb_false_r in Hru.
    match goal with H : masked_ok _ _ = true |- _ => rewrite H; apply masked_ok_spec in H as [Hl Hm] end.
    eexists. split; [reflexivity|]. cbn [decode_opt trunc_opt ndp_view_opt].
    assert (E : (128 <? plen)%N = false) by (apply N.ltb_ge; assumption). rewrite E.
    unfold keep_top. rewrite (mask_le a plen (64 * route_iplen plen) (route_iplen_ge plen Hl) Hm).
    rewrite Hm, u32_secs_trunc by assumption. split; reflexivity.
  - (* RDNSS *)
    split_andb. rewrite Bool.orb_false_r in Hru.
    match goal with H : negb (N.eqb _ 0) = true |- _ => apply Bool.negb_true_iff in H; rename H into Hn end.
    rewrite Hn. apply N.leb_le in Hfit. rewrite rdnss_raw_ok by (try apply N.eqb_neq; assumption).
    eexists. split; [reflexivity|]. cbn [decode_opt trunc_opt ndp_view_opt]. rewrite Hn.
    rewrite u32_secs_trunc by assumption. split; reflexivity.
  - (* DNSSL *)
    split_andb. rewrite Bool.orb_false_r in Hru.
    match goal with H : negb (N.eqb _ 0) = true |- _ => apply Bool.negb_true_iff in H; rename H into Hn end.
    rewrite Hn. apply N.leb_le in Hfit. rewrite dnssl_raw_ok by assumption.
    eexists. split; [reflexivity|]. cbn [decode_opt trunc_opt ndp_view_opt]. rewrite Hn.
    rewrite u32_secs_trunc by assumption. split; reflexivity.
  - (* MTU *)
    apply N.ltb_lt in Hok. rewrite N.mod_small by assumption.
    eexists. split; [reflexivity|]. split; reflexivity.
  - (* source link-layer address *)
    rewrite Hok. eexists. split; [reflexivity|]. split; reflexivity.
  - (* captive portal *)
    apply Bool.negb_true_iff in Hok. rewrite Hok. apply N.leb_le in Hfit.
    rewrite captive_raw_ok by (try apply N.eqb_neq; assumption).
    eexists. split; [reflexivity|]. cbn [decode_opt trunc_opt ndp_view_opt]. rewrite Hok. split; reflexivity.
  - (* PREF64 *)
    split_andb.
    match goal with H : negb v4 = true |- _ => apply Bool.negb_true_iff in H; subst v4 end.
    unfold pref64_bits_ok in *. destruct (pref64_plc bits) as [plc|] eqn:Eplc; [|discriminate].
    destruct (pref64_plc_spec _ _ Eplc) as [Hpb Hb96].
    match goal with H : N.eqb (mask a bits) a = true |- _ => apply N.eqb_eq in H; rename H into Hm end.
    destruct (pref64_scaled_exact t) as [Hs1 Hs2]; [lia|lia|].
    rewrite Hs1. eexists. split; [reflexivity|]. cbn [decode_opt trunc_opt ndp_view_opt].
    rewrite Hpb. unfold keep_top. rewrite Hm. rewrite (mask_le a bits 96 Hb96 Hm), Hm, Hs2.
    split; reflexivity.
  - discriminate.
Qed.

(* ------------------------------------------------------------------ whole RA through the codec *)
Lemma opts_roundtrip os :
  forallb (opt_ok 2040) os = true ->
  existsb (fun o => (248 <? opt_wire_len o)%N) os = false ->
  existsb (fun o => existsb rounds_up (opt_lifetimes o)) os = false ->
  exists ws, encode_opts os = Ok ws /\ decode_opts false ws = Ok (map trunc_opt os)
             /\ decode_opts true ws = Ok (map ndp_view_opt (map trunc_opt os)).
Proof.
  induction os as [|o t IH]; cbn [forallb existsb]; intros Hok Hsz Hru.
  - exists []. repeat split; reflexivity.
  - apply Bool.andb_true_iff in Hok as [Ho Ht].
    apply Bool.orb_false_iff in Hsz as [Hso Hst]. apply Bool.orb_false_iff in Hru as [Hro Hrt].
    apply N.ltb_ge in Hso. apply N.leb_le in Hso.
    destruct (opt_roundtrip o Ho Hso Hro) as (w & Ew & Dw & Dw').
    destruct (IH Ht Hst Hrt) as (ws & Ews & Dws & Dws').
    exists (w :: ws). cbn [encode_opts decode_opts map]. rewrite Ew, Ews, Dw, Dws, Dw', Dws'.
    repeat split; reflexivity.
Qed.

Theorem codec_roundtrip_lemma r :
  wire_okb r = true -> ndp_okb r = true ->
  exists w, encode r = Ok w /\ wire_meaning w = Ok (trunc r) /\ decode w = Ok (ndp_view (trunc r)).
Proof.
  unfold wire_okb, wire_okb_upto, ndp_okb, ra_rounds_up, ra_oversize. intros Hok Hn.
  split_andb.
  match goal with H : negb (_ || _) = true |- _ => apply Bool.negb_true_iff, Bool.orb_false_iff in H; destruct H as [Hrl Hro] end.
  match goal with H : negb (existsb _ _) = true |- _ => apply Bool.negb_true_iff in H; rename H into Hsz end.
  match goal with H : forallb _ _ = true |- _ => rename H into Hopts end.
  destruct (opts_roundtrip (ra_opts r) Hopts Hsz Hro) as (ws & Ews & Dws & Dws').
  unfold encode. rewrite Ews. eexists. split; [reflexivity|].
  unfold wire_meaning, decode, decode_with. cbn [w_opts w_hop w_managed w_other w_pref w_lifetime w_reachable w_retrans].
  rewrite Dws, Dws'.
  match goal with H : (ra_hop r <? 256)%N = true |- _ => apply N.ltb_lt in H; rewrite (N.mod_small _ _ H) end.
  repeat match goal with
         | H : (_ <=? _) = true |- _ => apply Z.leb_le in H
         | H : (_ <? _) = true |- _ => apply Z.ltb_lt in H
         end.
  rewrite u16_secs_trunc by assumption. rewrite !u32_millis_trunc by assumption.
  split; reflexivity.
Qed.

(* ------------------------------------------------------------------ built RAs are wire_ok *)
Lemma insert_pfx_in y x l : In y (insert_pfx x l) -> y = x \/ In y l.
Proof.
  induction l as [|z t IH]; cbn [insert_pfx].
  - intros [<-|[]]. left; reflexivity.
  - destruct (fst x <=? fst z)%N.
    + intros [<-|H]; [left; reflexivity|right; assumption].
    + intros [<-|H]; [right; left; reflexivity|]. destruct (IH H); [left|right; right]; assumption.
Qed.

Lemma sort_pfx_in y l : In y (sort_pfx l) -> In y l.
Proof.
  unfold sort_pfx. induction l as [|x t IH]; cbn [fold_right]; [intros []|].
  intros H. apply insert_pfx_in in H as [->|H]; [left; reflexivity|right; auto].
Qed.

Lemma prefix_scan_in bits l : forall seen x,
  In x (prefix_scan bits l seen) ->
  exists a, In a l /\ prefix_candidate bits a = true /\ x = (mask (ip_addr a) (ip_bits a), ip_bits a).
Proof.
  induction l as [|a t IH]; intros seen x; cbn [prefix_scan]; [intros []|].
  destruct (prefix_candidate bits a) eqn:Ec.
  - destruct (existsb _ seen).
    + intros H. destruct (IH _ _ H) as (b & Hb & Hc & E). exists b. split; [right|]; auto.
    + intros [<-|H].
      * exists a. split; [left; reflexivity|]. split; [assumption|reflexivity].
      * destruct (IH _ _ H) as (b & Hb & Hc & E). exists b. split; [right|]; auto.
  - intros H. destruct (IH _ _ H) as (b & Hb & Hc & E). exists b. split; [right|]; auto.
Qed.

Lemma route_scan_in all l : forall seen x,
  In x (route_scan all l seen) ->
  exists rt, In rt l /\ rt_v4 rt = false /\ x = (rt_addr rt, rt_bits rt).
Proof.
  induction l as [|rt t IH]; intros seen x; cbn [route_scan]; [intros []|].
  destruct (rt_v4 rt) eqn:Ev; cbn [orb].
  - intros H. destruct (IH _ _ H) as (b & Hb & Hc & E). exists b. split; [right|]; auto.
  - destruct (N.eqb (rt_bits rt) 128).
    + intros H. destruct (IH _ _ H) as (b & Hb & Hc & E). exists b. split; [right|]; auto.
    + destruct (existsb _ seen).
      * intros H. destruct (IH _ _ H) as (b & Hb & Hc & E). exists b. split; [right|]; auto.
      * destruct (route_covered all rt).
        -- intros H. destruct (IH _ _ H) as (b & Hb & Hc & E). exists b. split; [right|]; auto.
        -- intros [<-|H].
           ++ exists rt. split; [left; reflexivity|]. split; [assumption|reflexivity].
           ++ destruct (IH _ _ H) as (b & Hb & Hc & E). exists b. split; [right|]; auto.
Qed.

Lemma dur_ok_in_secs32 d : dur_ok d = true -> in_secs32 d = true.
Proof.
  unfold dur_ok, in_secs32, infinity, two32. rewrite sec_val. intros H. lia.
Qed.

Lemma spec_lifetime_in_range (dep : bool) s L :
  dur_ok L = true -> (if dep then (s_epoch s + L - s_now s <? two32 * sec) else true) = true ->
  in_secs32 (spec_lifetime dep s L) = true.
Proof.
  intros Hd Hc. unfold spec_lifetime. destruct dep; [|apply dur_ok_in_secs32; assumption].
  unfold in_secs32, two32 in *. rewrite sec_val in *. lia.
Qed.

Lemma forallb_map {A B} (f : B -> bool) (g : A -> B) l : forallb f (map g l) = forallb (fun x => f (g x)) l.
Proof. induction l as [|x t IH]; cbn; [reflexivity|]. rewrite IH. reflexivity. Qed.

Lemma stanza_opts_ok max p s os :
  0 <= max <= 1800 * sec ->
  plugin_ok max p = true -> plugin_size_ok p = true -> clock_plugin_ok s p = true -> sys_wfb s = true ->
  stanza_opts p s = Ok os -> forallb (opt_ok 2040) os = true.
Proof.
  intros Hmax Hp Hsz Hck Hsys. unfold sys_wfb in Hsys. split_andb.
  destruct p as [auto a bits onl aut valid preferred dep|auto a bits prf lt dep|auto lt servers|lt names|m| |uri|v4 a bits lt];
    cbn [plugin_ok plugin_size_ok stanza_opts] in *.
  - (* prefix *)
    split_andb.
    assert (Hv : in_secs32 (spec_lifetime dep s valid) = true).
    { apply spec_lifetime_in_range; [assumption|]. destruct dep; cbn [clock_plugin_ok] in Hck; [|reflexivity]. unfold two32 in *; rewrite sec_val in *; lia. }
    assert (Hpr : in_secs32 (spec_lifetime dep s preferred) = true).
    { apply spec_lifetime_in_range; [assumption|]. destruct dep; cbn [clock_plugin_ok] in Hck; [|reflexivity]. unfold two32 in *; rewrite sec_val in *; lia. }
    destruct auto.
    + split_andb.
      match goal with H : N.eqb bits 64 = true |- _ => apply N.eqb_eq in H; subst bits end.
      unfold prefix_current. destruct (s_addrs s) as [addrs|]; [|discriminate].
      intros Hinj; injection Hinj as <-. rewrite forallb_map. apply forallb_forall. intros x Hx.
      apply sort_pfx_in, prefix_scan_in in Hx as (ip & _ & Hc & ->). cbn [fst snd].
      unfold prefix_candidate in Hc. split_andb.
      assert (Hb : ip_bits ip = 64%N).
      { destruct (N.eqb_spec (ip_bits ip) 64); [assumption|].
        match goal with H : negb (_ || _ || negb false) = true |- _ => rewrite Bool.orb_true_r in H; discriminate H end. }
      rewrite Hb. unfold opt_ok. cbn [opt_wire_len]. unfold masked_ok.
      rewrite mask_idem, N.eqb_refl, mask64_not_4in6, Hv, Hpr. reflexivity.
    + split_andb. intros Hinj; injection Hinj as <-. cbn [forallb fst snd]. unfold opt_ok. cbn [opt_wire_len].
      repeat match goal with H : _ = true |- _ => rewrite H; clear H end. reflexivity.
  - (* route *)
    split_andb.
    assert (Hl : in_secs32 (spec_lifetime dep s lt) = true).
    { apply spec_lifetime_in_range; [assumption|]. destruct dep; cbn [clock_plugin_ok] in Hck; [|reflexivity]. unfold two32 in *; rewrite sec_val in *; lia. }
    assert (Hlen : forall l, (8 + 8 * route_iplen l <=? 2040)%N = true).
    { intros l. unfold route_iplen. destruct (N.eqb l 0); [reflexivity|]. destruct (l <=? 64)%N; reflexivity. }
    destruct auto.
    + unfold route_current. destruct (s_routes s) as [routes|]; [|discriminate].
      intros Hinj; injection Hinj as <-. rewrite forallb_map. apply forallb_forall. intros x Hx.
      apply sort_pfx_in, route_scan_in in Hx as (rt & Hin & Hv4 & ->). cbn [fst snd].
      match goal with H : forallb _ routes = true |- _ => rewrite forallb_forall in H; specialize (H rt Hin); rewrite Hv4 in H; cbn [orb] in H; rename H into Hm end.
      unfold opt_ok. cbn [opt_wire_len]. rewrite Hlen, Hm, Hl. reflexivity.
    + intros Hinj; injection Hinj as <-. cbn [forallb fst snd]. unfold opt_ok. cbn [opt_wire_len].
      rewrite Hlen, Hl.
      match goal with H : masked_ok a bits = true |- _ => rewrite H end. reflexivity.
  - (* RDNSS *)
    split_andb.
    match goal with H : dur_ok lt = true |- _ => apply dur_ok_in_secs32 in H; rename H into Hl end.
    destruct auto.
    + destruct (rdnss_current s) as [srv|]; [|discriminate]. intros Hinj; injection Hinj as <-.
      cbn [forallb]. unfold opt_ok. cbn [opt_wire_len length]. rewrite Hl.
      rewrite Bool.andb_true_r, Bool.andb_true_iff. split; lia.
    + intros Hinj; injection Hinj as <-. cbn [forallb]. unfold opt_ok. cbn [opt_wire_len]. rewrite Hl.
      cbn [orb] in *. rewrite Bool.andb_true_r, Bool.andb_true_iff. split; lia.
  - (* DNSSL *)
    split_andb. intros Hinj; injection Hinj as <-. cbn [forallb]. unfold opt_ok. cbn [opt_wire_len].
    match goal with H : dur_ok lt = true |- _ => apply dur_ok_in_secs32 in H; rewrite H end.
    repeat match goal with H : _ = true |- _ => rewrite H; clear H end. reflexivity.
  - (* MTU *)
    intros Hinj; injection Hinj as <-. cbn [forallb]. unfold opt_ok. cbn [opt_wire_len].
    rewrite Z.mod_small by lia. rewrite Bool.andb_true_r. cbn [andb N.leb]. lia.
  - (* LLA *)
    intros Hinj; injection Hinj as <-. destruct (s_mac s) as [mac|]; [|reflexivity].
    cbn [forallb]. unfold opt_ok. cbn [opt_wire_len].
    match goal with H : Nat.eqb _ 6 = true |- _ => rewrite H end. reflexivity.
  - (* captive portal *)
    intros Hinj; injection Hinj as <-. cbn [forallb]. unfold opt_ok. cbn [opt_wire_len]. rewrite Hp, Hsz. reflexivity.
  - (* PREF64 *)
    split_andb. intros Hinj; injection Hinj as <-. cbn [forallb]. unfold opt_ok. cbn [opt_wire_len].
    match goal with H : (lt =? _) = true |- _ => apply Z.eqb_eq in H; subst lt end.
    destruct (new_pref64_lifetime_range max Hmax) as [Hr Hm8].
    repeat match goal with H : _ = true |- _ => rewrite H; clear H end.
    cbn [andb N.leb]. lia.
Qed.

Lemma stanzas_opts_ok max s ps : forall os,
  0 <= max <= 1800 * sec ->
  forallb (plugin_ok max) ps = true -> forallb plugin_size_ok ps = true ->
  forallb (clock_plugin_ok s) ps = true -> sys_wfb s = true ->
  stanzas_opts ps s = Ok os -> forallb (opt_ok 2040) os = true.
Proof.
  induction ps as [|p t IH]; intros os Hmax Hp Hsz Hck Hsys; cbn [stanzas_opts forallb] in *.
  - intros H; injection H as <-. reflexivity.
  - apply Bool.andb_true_iff in Hp as [Hp1 Hp2]. apply Bool.andb_true_iff in Hsz as [Hs1 Hs2].
    apply Bool.andb_true_iff in Hck as [Hc1 Hc2].
    destruct (stanza_opts p s) as [a|] eqn:Ea; [|discriminate].
    destruct (stanzas_opts t s) as [b|] eqn:Eb; [|discriminate].
    intros H; injection H as <-. rewrite forallb_app.
    rewrite (stanza_opts_ok max p s a Hmax Hp1 Hs1 Hc1 Hsys Ea).
    rewrite (IH b Hmax Hp2 Hs2 Hc2 Hsys eq_refl). reflexivity.
Qed.

Theorem built_wire_ok c s r :
  cfg_ok c = true -> sizes_ok c = true -> sys_wfb s = true -> clock_okb c s = true ->
  build c s = Ok r -> wire_okb r = true.
Proof.
  unfold cfg_ok, sizes_ok, clock_okb. intros Hc Hsz Hsys Hck. split_andb.
  rewrite build_exact. unfold expected_ra.
  destruct (stanzas_opts (if_plugins c) s) as [os|] eqn:E; [|discriminate].
  intros Hr; injection Hr as <-.
  unfold wire_okb, wire_okb_upto. cbn [ra_hop ra_lifetime ra_reachable ra_retrans ra_opts].
  rewrite (stanzas_opts_ok (if_max c) s (if_plugins c) os) by (try assumption; lia).
  rewrite Bool.andb_true_r.
  unfold two16, two32, hour in *. rewrite sec_val, ms_val in *.
  destruct (s_fwd s); lia.
Qed.

(* a clock that does not read earlier than the epoch satisfies clock_ok for every accepted configuration *)
Lemma clock_ok_after_epoch c s : cfg_ok c = true -> s_epoch s <= s_now s -> clock_okb c s = true.
Proof.
  unfold cfg_ok, clock_okb. intros Hc Hle. split_andb.
  apply forallb_forall. intros p Hp.
  match goal with H : forallb (plugin_ok _) _ = true |- _ => rewrite forallb_forall in H; specialize (H p Hp); rename H into Hok end.
  destruct p as [auto a bits onl aut valid preferred dep|auto a bits prf lt dep| | | | | | ]; try reflexivity;
    destruct dep; try reflexivity; cbn [plugin_ok clock_plugin_ok] in *; split_andb;
    unfold dur_ok, infinity, two32 in *; rewrite sec_val in *; lia.
Qed.

(* ------------------------------------------------------------------ composition *)
Theorem accepted_config_roundtrip c s r :
  cfg_ok c = true -> sizes_ok c = true -> sys_wfb s = true -> clock_okb c s = true ->
  build c s = Ok r -> ndp_okb r = true ->
  exists w, encode r = Ok w /\ wire_meaning w = Ok (trunc r) /\ decode w = Ok (ndp_view (trunc r)).
Proof.
  intros Hc Hsz Hsys Hck Hb Hn. apply codec_roundtrip_lemma; [|assumption].
  eapply built_wire_ok; eassumption.
Qed.

(* ndp v1.1.0's decoder shows every option other than Route Information unchanged, and a Route
   Information prefix unchanged when its length is a whole number of bytes *)
Lemma ndp_view_opt_id o :
  match o with ORoute l _ _ a => (l mod 8 = 0)%N /\ mask a l = a | _ => True end -> ndp_view_opt o = o.
Proof.
  destruct o; try reflexivity. intros [Hm Ha]. cbn [ndp_view_opt]. unfold keep_top.
  assert (E : (8 * (plen / 8) = plen)%N).
  { pose proof (N.div_mod plen 8 ltac:(discriminate)). lia. }
  rewrite E, Ha. reflexivity.
Qed.

(* sufficient conditions for being outside the two known-finding classes *)
Lemma ndp_okb_sufficient r :
  0 <= ra_lifetime r < 16777216 * sec ->
  (forall o d, In o (ra_opts r) -> In d (opt_lifetimes o) -> 0 <= d < 16777216 * sec \/ (0 <= d /\ d mod sec = 0)) ->
  (forall o, In o (ra_opts r) -> (opt_wire_len o <= 248)%N) ->
  ndp_okb r = true.
Proof.
  intros Hl Hd Hs. unfold ndp_okb, ra_rounds_up, ra_oversize.
  rewrite (small_no_roundup _ Hl). cbn [orb].
  apply Bool.andb_true_iff. split; apply Bool.negb_true_iff.
  - apply Bool.not_true_is_false. intros H. apply existsb_exists in H as (o & Ho & H).
    apply existsb_exists in H as (d & Hdin & H).
    destruct (Hd o d Ho Hdin) as [Hsm|[H0 Hw]].
    + rewrite (small_no_roundup _ Hsm) in H. discriminate.
    + rewrite (whole_no_roundup _ H0 Hw) in H. discriminate.
  - apply Bool.not_true_is_false. intros H. apply existsb_exists in H as (o & Ho & H).
    apply N.ltb_lt in H. specialize (Hs o Ho). lia.
Qed.

(* ------------------------------------------------------------------ the two known-finding classes: witnesses *)
Definition wit_sys : sys := mkSys (Some []) (Some []) None (1700000001 * sec) (1700000000 * sec) true.
Definition wit_iface (ps : list plugin) : iface :=
  mkIface 1%N false true false (198 * sec) (600 * sec) false false 0 0 64%N (1800 * sec) false Medium ps.

(* class 1: valid_lifetime = "4294967294.9999999s" is sent as 4294967295 s = infinity *)
Definition wit_roundup : iface :=
  wit_iface [PPrefix false 42540766411282592856903984951653826560%N 64%N true true
                     (4294967294 * sec + 999999900) sec false].
(* class 2: an RDNSS stanza with 16 servers *)
Definition wit_oversize : iface :=
  wit_iface [PRDNSS false (1800 * sec) (map N.of_nat (seq 1 16))].

Lemma roundup_refuted :
  cfg_ok wit_roundup = true /\ sizes_ok wit_roundup = true /\ sys_wfb wit_sys = true /\
  clock_okb wit_roundup wit_sys = true /\
  exists r w, build wit_roundup wit_sys = Ok r /\ wire_okb r = true /\ encode r = Ok w /\
    wire_meaning w <> Ok (trunc r) /\
    exists rest, ra_opts r = [OPrefix 64%N true true (4294967294 * sec + 999999900) sec 42540766411282592856903984951653826560%N]
      /\ wire_meaning w = Ok (mkRA 64%N false false Medium (1800 * sec) 0 0
                               (OPrefix 64%N true true infinity sec 42540766411282592856903984951653826560%N :: rest)).
Proof.
  repeat (split; [vm_compute; reflexivity|]).
  eexists. eexists. split; [vm_compute; reflexivity|].
  split; [vm_compute; reflexivity|]. split; [vm_compute; reflexivity|].
  split; [vm_compute; discriminate|]. exists []. split; vm_compute; reflexivity.
Qed.

Lemma oversize_refuted :
  cfg_ok wit_oversize = true /\ sizes_ok wit_oversize = true /\ sys_wfb wit_sys = true /\
  clock_okb wit_oversize wit_sys = true /\
  exists r, build wit_oversize wit_sys = Ok r /\ wire_okb r = true /\ encode r = Err E_ENC.
Proof.
  repeat (split; [vm_compute; reflexivity|]).
  eexists. split; [vm_compute; reflexivity|]. split; vm_compute; reflexivity.
Qed.

(* ------------------------------------------------------------------ what wire_ok says, in the property's words *)
Lemma pref64_bits_ok_spec bits : pref64_bits_ok bits = true -> In bits [96; 64; 56; 48; 40; 32]%N.
Proof.
  unfold pref64_bits_ok, pref64_plc.
  repeat match goal with |- context [N.eqb bits ?k] => destruct (N.eqb_spec bits k); [subst; intros _; cbn; tauto|] end.
  discriminate.
Qed.

Lemma wire_ok_ranges r :
  wire_okb r = true ->
  0 <= ra_lifetime r < 65536 * sec /\ 0 <= ra_reachable r < 4294967296 * ms /\
  0 <= ra_retrans r < 4294967296 * ms /\
  (forall o d, In o (ra_opts r) -> In d (opt_lifetimes o) -> 0 <= d < 4294967296 * sec) /\
  (forall v4 a bits t, In (OPref64 v4 a bits t) (ra_opts r) ->
     v4 = false /\ In bits [96; 64; 56; 48; 40; 32]%N /\ mask a bits = a /\
     0 <= t <= 65528 * sec /\ t mod (8 * sec) = 0).
Proof.
  unfold wire_okb, wire_okb_upto. intros H. split_andb.
  match goal with H : forallb _ _ = true |- _ => rewrite forallb_forall in H; rename H into Hopts end.
  unfold two16, two32 in *.
  split; [lia|]. split; [lia|]. split; [lia|]. split.
  - intros o d Ho Hd. specialize (Hopts o Ho). unfold opt_ok in Hopts.
    apply Bool.andb_true_iff in Hopts as [_ Hopts].
    destruct o; cbn [opt_lifetimes] in Hd; split_andb;
      repeat match goal with H : in_secs32 _ = true |- _ => apply in_secs32_spec in H; unfold two32 in H end;
      repeat (destruct Hd as [<-|Hd]; [assumption|]); destruct Hd.
  - intros v4 a bits t Ho. specialize (Hopts _ Ho). unfold opt_ok in Hopts.
    apply Bool.andb_true_iff in Hopts as [_ Hopts]. split_andb.
    split; [destruct v4; [discriminate|reflexivity]|].
    split; [apply pref64_bits_ok_spec; assumption|].
    split; [apply N.eqb_eq; assumption|]. lia.
Qed.
