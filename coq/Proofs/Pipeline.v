From Coq Require Import Lia List ZArith.
Import ListNotations.
From CR Require Import Model.Pipeline Proofs.Lifetimes.
Local Open Scope Z_scope.

Definition fresh (p : pipeline) : Prop :=
  build_in_send p = true /\ send_in_worker p = true /\ worker_in_timer p = true.

Lemma fresh_built_at p r f : fresh p -> built_at p r f = f.
Proof. intros (H1 & H2 & H3). unfold built_at. rewrite H1, H2, H3. reflexivity. Qed.

Lemma wire_at_write p epoch L r f : fresh p -> wire_lifetime p epoch L r f = Z.max 0 (epoch + L - f).
Proof. intros H. unfold wire_lifetime. rewrite (fresh_built_at p r f H). apply remaining_spec. Qed.

Lemma wire_zero_after p epoch L r f : fresh p -> epoch + L <= f -> wire_lifetime p epoch L r f = 0.
Proof. intros H Hd. unfold wire_lifetime. rewrite (fresh_built_at p r f H). apply remaining_zero_after; exact Hd. Qed.

Lemma wire_sequence_fresh p epoch L txs :
  fresh p -> wire_sequence p epoch L txs = map (remaining epoch L) (map snd txs).
Proof.
  intros H. unfold wire_sequence. rewrite map_map. apply map_ext. intros [r f]. cbn [fst snd].
  unfold wire_lifetime. rewrite (fresh_built_at p r f H). reflexivity.
Qed.

Lemma wire_never_increases p epoch L txs :
  fresh p -> nondecreasing (map snd txs) -> nonincreasing (wire_sequence p epoch L txs).
Proof. intros H Hn. rewrite (wire_sequence_fresh p epoch L txs H). apply remaining_sequence; exact Hn. Qed.

(* a pipeline that builds at the request: past the deadline the RA on the wire still carries a lifetime, and a
   solicited answer (requested later, sent earlier) overtakes a rate-limited multicast RA (requested earlier,
   sent later), so the later RA carries the larger lifetime *)
Definition stale_pipeline := mkPipeline false true true.

Lemma stale_not_zero : exists epoch L r f,
  r <= f /\ epoch + L <= f /\ wire_lifetime stale_pipeline epoch L r f <> 0.
Proof. exists 0, 10000, 9000, 11000. repeat split; try lia. vm_compute. discriminate. Qed.

Lemma stale_increases : exists epoch L txs,
  nondecreasing (map snd txs) /\ Forall (fun t => fst t <= snd t) txs /\
  ~ nonincreasing (wire_sequence stale_pipeline epoch L txs).
Proof.
  exists 0, 10000, [(100, 600); (0, 3000)]. split; [|split].
  - cbn. constructor; [lia|constructor].
  - repeat constructor; cbn; lia.
  - vm_compute. intros H. inversion H as [| |x y l Hle Hrest]; subst. lia.
Qed.
