(* Proofs about Model/Api.v (C17): packOptions covers every option kind plugin.go can construct, the rendering is
   the per-kind listing of the options with their values, the API never panics, route gating. *)
From Coq Require Import Lia.
From CR Require Import Model.Api.
Local Open Scope Z_scope.

(* ---- tables *)

Lemma str_mem_In : forall s l, str_mem s l = true <-> In s l.
Proof.
  intros s l. unfold str_mem. rewrite existsb_exists. split.
  - intros [x [Hx He]]. apply String.eqb_eq in He. subst. exact Hx.
  - intro H. exists s. split; [exact H | apply String.eqb_refl].
Qed.

(* every ndp option type which an Apply method of plugin.go appends to an RA has a case in crhttp.packOptions *)
Lemma kinds_covered : incl ExtMetrics.plugin_option_kinds ExtMetrics.packOptions_cases.
Proof.
  assert (H : forallb (fun k => str_mem k ExtMetrics.packOptions_cases) ExtMetrics.plugin_option_kinds = true)
    by (vm_compute; reflexivity).
  intros k Hk. rewrite forallb_forall in H. apply str_mem_In. apply H. exact Hk.
Qed.

(* ... and the four kinds which carry metrics are picked by collectMetrics *)
Lemma metric_kinds_picked :
  forallb (fun k => str_mem k ExtMetrics.pick_kinds)
          ["PrefixInformation"; "RouteInformation"; "RecursiveDNSServer"; "DNSSearchList"]%string = true.
Proof. vm_compute. reflexivity. Qed.

(* an option CoreRAD can produce: its Go type is one which plugin.go constructs *)
Definition producible (o : opt) : bool := str_mem (kind_name o) ExtMetrics.plugin_option_kinds.

(* ---- packOptions *)

Lemma pack_options_fold : forall cases os out j,
  pack_options cases out os = Some j -> j = fold_left pack_one os out.
Proof.
  induction os as [|o os IH]; intros out j H; cbn in *.
  - congruence.
  - destruct (str_mem (kind_name o) cases); [|discriminate]. apply IH. exact H.
Qed.

Lemma pack_options_total : forall cases os out,
  Forall (fun o => str_mem (kind_name o) cases = true) os -> exists j, pack_options cases out os = Some j.
Proof.
  induction os as [|o os IH]; intros out H; cbn.
  - eauto.
  - inversion H as [|? ? H1 H2]; subst. rewrite H1. apply IH. exact H2.
Qed.

Lemma pack_options_panics : forall cases os out,
  pack_options cases out os = None <-> exists o, In o os /\ str_mem (kind_name o) cases = false.
Proof.
  induction os as [|o os IH]; intros out; cbn.
  - split; [discriminate | intros [o [[] _]]].
  - destruct (str_mem (kind_name o) cases) eqn:E.
    + rewrite IH. split.
      * intros [o' [Hi Hf]]. eauto.
      * intros [o' [[->|Hi] Hf]]; [congruence | eauto].
    + split; eauto.
Qed.

(* per-kind entries, declaratively *)
Definition e_dnssl (o : opt) := match o with ODNSSL l names => [mkJDnssl (secs l) names] | _ => [] end.
Definition e_prefix (o : opt) := match o with OPrefix bits ol au v p a => [mkJPrefix a bits ol au (secs v) (secs p)] | _ => [] end.
Definition e_rdnss (o : opt) := match o with ORDNSS l servers => [mkJRdnss (secs l) servers] | _ => [] end.
Definition e_route (o : opt) := match o with ORoute bits p l a => [mkJRoute a bits p (secs l)] | _ => [] end.
Definition e_pref64 (o : opt) := match o with OPref64 v4 a bits l => [mkJPref64 v4 a bits (secs l)] | _ => [] end.
Definition s_mtu (acc : Z) (o : opt) := match o with OMTU m => Z.of_N m | _ => acc end.
Definition s_slla (acc : option (list N)) (o : opt) := match o with OSLLA mac => Some mac | _ => acc end.
Definition s_captive (acc : option N) (o : opt) := match o with OCaptive u => Some u | _ => acc end.

Lemma pack_spec : forall os out,
  fold_left pack_one os out =
  mkJOpts (jo_dnssl out ++ flat_map e_dnssl os) (fold_left s_mtu os (jo_mtu out))
          (jo_prefixes out ++ flat_map e_prefix os) (jo_rdnss out ++ flat_map e_rdnss os)
          (jo_routes out ++ flat_map e_route os) (fold_left s_slla os (jo_slla out))
          (fold_left s_captive os (jo_captive out)) (jo_pref64 out ++ flat_map e_pref64 os).
Proof.
  induction os as [|o os IH]; intro out.
  - cbn. rewrite !app_nil_r. destruct out; reflexivity.
  - cbn [fold_left flat_map]. rewrite IH.
    destruct o; cbn [pack_one jo_dnssl jo_mtu jo_prefixes jo_rdnss jo_routes jo_slla jo_captive jo_pref64
                     e_dnssl e_prefix e_rdnss e_route e_pref64 s_mtu s_slla s_captive app];
      rewrite <- ?app_assoc; reflexivity.
Qed.

Definition render_spec (r : ra) : jra :=
  mkJRA (Z.of_N (ra_hop r)) (ra_managed r) (ra_other r) (ra_pref r)
        (secs (ra_lifetime r)) (millis (ra_reachable r)) (millis (ra_retrans r))
        (mkJOpts (flat_map e_dnssl (ra_opts r)) (fold_left s_mtu (ra_opts r) 0) (flat_map e_prefix (ra_opts r))
                 (flat_map e_rdnss (ra_opts r)) (flat_map e_route (ra_opts r)) (fold_left s_slla (ra_opts r) None)
                 (fold_left s_captive (ra_opts r) None) (flat_map e_pref64 (ra_opts r))).

Theorem api_render_spec : forall r j, api_render r = Rendered j -> j = render_spec r.
Proof.
  intros r j H. unfold api_render in H.
  destruct (pack_options _ _ _) as [os|] eqn:E; [|discriminate].
  apply pack_options_fold in E. rewrite pack_spec in E. cbn in E. subst os. inversion H. reflexivity.
Qed.

Theorem api_render_total : forall r,
  Forall (fun o => producible o = true) (ra_opts r) -> exists j, api_render r = Rendered j.
Proof.
  intros r H. unfold api_render.
  destruct (pack_options_total ExtMetrics.packOptions_cases (ra_opts r) jopts_empty) as [j Hj].
  - eapply Forall_impl; [|exact H]. intros o Ho. unfold producible in Ho.
    apply str_mem_In. apply kinds_covered. apply str_mem_In. exact Ho.
  - rewrite Hj. eauto.
Qed.

(* ---- "covers every option": each option of the RA has its entry, with its values *)

Definition covered (o : opt) (jo : jopts) : Prop :=
  match o with
  | OPrefix bits ol au v p a => In (mkJPrefix a bits ol au (secs v) (secs p)) (jo_prefixes jo)
  | ORoute bits p l a => In (mkJRoute a bits p (secs l)) (jo_routes jo)
  | ORDNSS l servers => In (mkJRdnss (secs l) servers) (jo_rdnss jo)
  | ODNSSL l names => In (mkJDnssl (secs l) names) (jo_dnssl jo)
  | OPref64 v4 a bits l => In (mkJPref64 v4 a bits (secs l)) (jo_pref64 jo)
  | OMTU m => jo_mtu jo = Z.of_N m
  | OSLLA mac => jo_slla jo = Some mac
  | OCaptive u => jo_captive jo = Some u
  | OOther _ => True
  end.

(* MTU, source link-layer address and captive portal are scalar JSON fields: the entry shows the last option of the
   kind (CoreRAD's configuration has at most one of each per interface) *)
Definition no_later_same_kind (o : opt) (later : list opt) : bool :=
  forallb (fun o' => negb (String.eqb (kind_name o') (kind_name o))) later.

Lemma fold_keep {A} (step : A -> opt -> A) (k : string) : forall l x,
  (forall a o, String.eqb (kind_name o) k = false -> step a o = a) ->
  forallb (fun o' => negb (String.eqb (kind_name o') k)) l = true ->
  fold_left step l x = x.
Proof.
  induction l as [|o l IH]; intros x Hs H; cbn in *; [reflexivity|].
  apply andb_prop in H. destruct H as [H1 H2].
  rewrite Hs by (destruct (String.eqb (kind_name o) k); [discriminate|reflexivity]).
  apply IH; assumption.
Qed.

Theorem api_covers : forall r j l1 o l2,
  api_render r = Rendered j -> ra_opts r = l1 ++ o :: l2 -> no_later_same_kind o l2 = true ->
  covered o (j_opts j).
Proof.
  intros r j l1 o l2 H Ho Hl. apply api_render_spec in H. subst j.
  unfold render_spec. cbn [j_opts]. rewrite Ho. unfold no_later_same_kind in Hl.
  destruct o; cbn [covered jo_prefixes jo_routes jo_rdnss jo_dnssl jo_pref64 jo_mtu jo_slla jo_captive];
    try (apply in_flat_map; eexists; split; [apply in_or_app; right; left; reflexivity | left; reflexivity]).
  - rewrite fold_left_app. cbn [fold_left s_mtu]. apply (fold_keep s_mtu "MTU"%string); [|exact Hl].
    intros a o Hk. destruct o; try reflexivity. discriminate.
  - rewrite fold_left_app. cbn [fold_left s_slla]. apply (fold_keep s_slla "LinkLayerAddress"%string); [|exact Hl].
    intros a o Hk. destruct o; try reflexivity. discriminate.
  - rewrite fold_left_app. cbn [fold_left s_captive]. apply (fold_keep s_captive "CaptivePortal"%string); [|exact Hl].
    intros a o Hk. destruct o; try reflexivity. discriminate.
  - exact I.
Qed.

(* ---- the handler *)

Lemma api_from_acc_panic : forall ifs acc, api_from ifs acc = APanic <-> api_from ifs [] = APanic.
Proof.
  induction ifs as [|i tl IH]; intro acc; cbn [api_from].
  - split; discriminate.
  - destruct (i_adv i); cbn [negb].
    + destruct (i_fwd i); [|split; discriminate].
      destruct (i_build i); [|split; discriminate].
      destruct (api_render _); [|split; reflexivity].
      rewrite IH. symmetry. apply IH.
    + rewrite IH. symmetry. apply IH.
Qed.

Lemma finalize_opts : forall fwd r, ra_opts (fst (finalize fwd r)) = ra_opts r.
Proof. intros. unfold finalize. destruct ((0 <? ra_lifetime r) && negb fwd); reflexivity. Qed.

Theorem api_no_panic : forall ifs,
  (forall i r, In i ifs -> i_build i = Ok r -> Forall (fun o => producible o = true) (ra_opts r)) ->
  api ifs <> APanic.
Proof.
  unfold api. induction ifs as [|i tl IH]; intro H; cbn [api_from]; [discriminate|].
  assert (Ht : api_from tl [] <> APanic) by (apply IH; intros; eapply H; [right|]; eauto).
  destruct (i_adv i); cbn [negb].
  - destruct (i_fwd i) as [fwd|]; [|discriminate].
    destruct (i_build i) as [r|] eqn:Eb; [|discriminate].
    destruct (api_render_total (fst (finalize fwd r))) as [j Hj].
    + rewrite finalize_opts. eapply H; [left; reflexivity | exact Eb].
    + rewrite Hj. intro Hp. apply api_from_acc_panic in Hp. contradiction.
  - intro Hp. apply api_from_acc_panic in Hp. contradiction.
Qed.

(* the body: one entry per configured interface, in order; advertising ones carry the rendering of the RA which
   would be sent now *)
Definition iface_body (i : ifin) : jiface :=
  mkJIface (i_name i) (i_adv i) (match sent_ra i with Some r => Some (render_spec r) | None => None end).

Lemma api_from_body : forall ifs acc l, api_from ifs acc = ABody l -> l = acc ++ map iface_body ifs.
Proof.
  induction ifs as [|i tl IH]; intros acc l H; cbn [api_from] in H.
  - inversion H. cbn. rewrite app_nil_r. reflexivity.
  - unfold iface_body at 1, sent_ra. cbn [map].
    destruct (i_adv i); cbn [negb] in H.
    + destruct (i_fwd i) as [fwd|]; [|discriminate].
      destruct (i_build i) as [r|]; [|discriminate].
      destruct (api_render _) as [j|] eqn:Ej; [|discriminate].
      apply api_render_spec in Ej. apply IH in H. rewrite H, <- app_assoc. cbn [flag app]. rewrite Ej. reflexivity.
    + apply IH in H. rewrite H, <- app_assoc. reflexivity.
Qed.

Theorem api_mirror : forall ifs l, api ifs = ABody l -> l = map iface_body ifs.
Proof. intros ifs l H. apply api_from_body in H. exact H. Qed.

(* ---- gating *)

Theorem gating : forall prom pprof,
  serves RMetrics prom pprof = prom /\ serves RPprof prom pprof = pprof /\
  serves RRoot prom pprof = true /\ serves RInterfaces prom pprof = true /\ serves RUnknown prom pprof = false.
Proof. intros. repeat split. Qed.
