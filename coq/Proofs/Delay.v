From CR Require Import Model.Delay gen.ExtAdvertise.
From Coq Require Import Lia ZifyBool.
Local Open Scope Z_scope.
Ltac Zify.zify_post_hook ::= Z.div_mod_to_equations.

(* the extracted constants are the RFC 4861 section 10 literals *)
Lemma maxInitialAdv_is : maxInitialAdv = 3.  Proof. reflexivity. Qed.
Lemma maxInitialAdvInterval_is : maxInitialAdvInterval = 16 * sec.  Proof. reflexivity. Qed.

Definition floor_s (d : Z) : Z := d / sec * sec.
Definition ceil_s (d : Z) : Z := (d + sec - 1) / sec * sec.

Lemma round_bounds x : 0 <= x -> floor_s x <= round_dur x sec <= ceil_s x.
Proof.
  intros Hx. unfold round_dur, floor_s, ceil_s, sec.
  destruct (Z.leb_spec 1000000000 0); [lia|].
  destruct (Z.ltb_spec x 0); [lia|].
  destruct (Z.ltb_spec (2 * (x mod 1000000000)) 1000000000); lia.
Qed.

Lemma floor_s_mono a b : a <= b -> floor_s a <= floor_s b.
Proof. unfold floor_s, sec. lia. Qed.
Lemma ceil_s_mono a b : a <= b -> ceil_s a <= ceil_s b.
Proof. unfold ceil_s, sec. lia. Qed.

Lemma Some_inj {A} (a b : A) : Some a = Some b -> a = b.
Proof. intros H; injection H; auto. Qed.

Lemma min_interval_facts e max min :
  4 * sec <= max <= 1800 * sec -> parse_min_interval e max = Some min ->
  2 * sec <= min /\ (min = max \/ min < max) /\ min <= max.
Proof.
  unfold parse_min_interval, default_min, trunc_dur, sec. intros Hmax H.
  destruct e as [m|].
  - destruct (Z.ltb_spec m (3 * 1000000000)); cbn [orb] in H; [discriminate|].
    destruct (Z.ltb_spec (3 * max / 4 - (3 * max / 4) mod 1000000000) m); [discriminate|].
    apply Some_inj in H. subst min. lia.
  - apply Some_inj in H. subst min.
    destruct (Z.leb_spec (9 * 1000000000) max); lia.
Qed.

Lemma uncapped_bounds min max r :
  0 <= min -> min <= max -> (min = max \/ 0 <= r < max - min) ->
  floor_s min <= delay_uncapped min max r <= ceil_s max.
Proof.
  intros Hmin Hle Hr. unfold delay_uncapped.
  destruct (Z.eqb_spec min max) as [->|Hne].
  - apply round_bounds. lia.
  - destruct Hr as [Heq|Hr]; [contradiction|].
    pose proof (round_bounds (min + r) ltac:(lia)) as [H1 H2].
    pose proof (floor_s_mono min (min + r) ltac:(lia)).
    pose proof (ceil_s_mono (min + r) max ltac:(lia)). lia.
Qed.

Lemma delay_cap i min max r :
  multicast_delay i min max r =
  if i <? 3 then Z.min (16 * sec) (delay_uncapped min max r) else delay_uncapped min max r.
Proof.
  unfold multicast_delay. rewrite maxInitialAdv_is, maxInitialAdvInterval_is.
  destruct (Z.ltb_spec i 3); cbn [andb]; [|reflexivity].
  destruct (Z.ltb_spec (16 * sec) (delay_uncapped min max r)); lia.
Qed.

Lemma floor_s_ge2 min : 2 * sec <= min -> 2 * sec <= floor_s min.
Proof. unfold floor_s, sec. lia. Qed.

Lemma delay_all e max min i r :
  4 * sec <= max <= 1800 * sec -> parse_min_interval e max = Some min ->
  (min = max \/ 0 <= r < max - min) ->
  let d := multicast_delay i min max r in
  (3 <= i -> floor_s min <= d <= ceil_s max) /\
  (i < 3 -> d = Z.min (16 * sec) (multicast_delay 3 min max r) /\ d <= 16 * sec) /\
  2 * sec <= d /\ Z.min (16 * sec) (floor_s min) <= d <= ceil_s max.
Proof.
  intros Hmax Hp Hr d. subst d.
  destruct (min_interval_facts _ _ _ Hmax Hp) as (H2 & _ & Hle).
  pose proof (uncapped_bounds min max r ltac:(unfold sec in *; lia) Hle Hr) as [Hlo Hhi].
  pose proof (floor_s_ge2 min H2) as Hf.
  rewrite !delay_cap. change (3 <? 3) with false. cbv iota.
  destruct (Z.ltb_spec i 3); unfold sec in *; repeat split; intros; try lia.
Qed.

Lemma int63n_arg e max min :
  4 * sec <= max <= 1800 * sec -> parse_min_interval e max = Some min -> min <> max -> 0 < max - min.
Proof. intros Hm Hp Hne. destruct (min_interval_facts _ _ _ Hm Hp) as (_ & [?|?] & _); lia. Qed.

(* the loop: every wait it ever chooses, for any run length *)
Definition wait_ok (min max i d : Z) : Prop :=
  (3 <= i -> floor_s min <= d <= ceil_s max) /\ (i < 3 -> d <= 16 * sec) /\ 2 * sec <= d /\ d <= ceil_s max.

Fixpoint waits_ok (min max i : Z) (ws : list Z) : Prop :=
  match ws with [] => True | w :: ws' => wait_ok min max i w /\ waits_ok min max (i + 1) ws' end.

Lemma waits_all e max min draws : forall i,
  4 * sec <= max <= 1800 * sec -> parse_min_interval e max = Some min ->
  Forall (fun r => min = max \/ 0 <= r < max - min) draws ->
  waits_ok min max i (waits i min max draws).
Proof.
  induction draws as [|r ds IH]; intros i Hm Hp Hf; cbn [waits waits_ok]; [exact I|].
  inversion Hf as [|? ? Hr Hrest]; subst. split; [|apply IH; assumption].
  destruct (delay_all e max min i r Hm Hp Hr) as (A & B & C & D). unfold wait_ok.
  repeat split; intros; try lia; try (apply A; assumption); try (apply B; assumption).
Qed.

Lemma request_times_length i t min max draws :
  length (request_times i t min max draws) = S (length draws).
Proof. revert i t; induction draws as [|r ds IH]; intros; cbn [request_times length]; [reflexivity|]. now rewrite IH. Qed.

(* consecutive request instants differ exactly by the chosen waits *)
Fixpoint diffs (l : list Z) : list Z :=
  match l with a :: ((b :: _) as tl) => (b - a) :: diffs tl | _ => [] end.
Lemma diffs_cons2 a b tl : diffs (a :: b :: tl) = (b - a) :: diffs (b :: tl).
Proof. reflexivity. Qed.

Lemma request_times_head i t min max draws :
  exists tl, request_times i t min max draws = t :: tl.
Proof. destruct draws; cbn [request_times]; eauto. Qed.

Lemma request_times_diffs draws : forall i t min max,
  diffs (request_times i t min max draws) = waits i min max draws.
Proof.
  induction draws as [|r ds IH]; intros; [reflexivity|].
  cbn [request_times waits].
  specialize (IH (i + 1) (t + multicast_delay i min max r) min max).
  destruct (request_times_head (i + 1) (t + multicast_delay i min max r) min max ds) as [tl Htl].
  rewrite Htl in *. rewrite diffs_cons2, IH. f_equal. lia.
Qed.
