(* Lemmas about the :: RDNSS wildcard (C14): betterRDNSS is the minimum of a strict total order,
   the fold picks a rank-minimal eligible entry, and parseRDNSS's server list. *)
From CR Require Import Model.Wildcard.
From CR Require Import Proofs.WildcardSort.
From CR Require Import Proofs.Wildcard.
From Coq Require Import Lia Permutation Sorted.
Local Open Scope N_scope.

(* ---- the documented ranking *)

(* 0 unique-local, 1 global unicast, 2 link-local, 3 none of them *)
Definition class (a : N) : N :=
  if go_private a then 0 else if go_global_unicast a then 1 else if go_link_local a then 2 else 3.

(* (not stable, class, address) *)
Definition rank (e : sysip) : N * N * N :=
  (if is_stable e then 0 else 1, class (ip_addr e), ip_addr e).

(* lexicographic order on triples *)
Definition rank_lt (x y : N * N * N) : Prop :=
  let '(s1, c1, a1) := x in let '(s2, c2, a2) := y in
  s1 < s2 \/ (s1 = s2 /\ (c1 < c2 \/ (c1 = c2 /\ a1 < a2))).
Definition rank_le (x y : N * N * N) : Prop := rank_lt x y \/ x = y.

Definition rank_ltb (x y : N * N * N) : bool :=
  let '(s1, c1, a1) := x in let '(s2, c2, a2) := y in
  (s1 <? s2) || ((s1 =? s2) && ((c1 <? c2) || ((c1 =? c2) && (a1 <? a2)))).

Lemma rank_ltb_lt x y : rank_ltb x y = true <-> rank_lt x y.
Proof.
  destruct x as [[s1 c1] a1], y as [[s2 c2] a2]. unfold rank_ltb, rank_lt.
  rewrite !orb_true_iff, !andb_true_iff, !orb_true_iff, !andb_true_iff, !N.ltb_lt, !N.eqb_eq. tauto.
Qed.

(* a strict total order -- proved, not assumed *)
Lemma rank_lt_irrefl x : ~ rank_lt x x.
Proof. destruct x as [[s c] a]. unfold rank_lt. lia. Qed.

Lemma rank_lt_trans x y z : rank_lt x y -> rank_lt y z -> rank_lt x z.
Proof. destruct x as [[s1 c1] a1], y as [[s2 c2] a2], z as [[s3 c3] a3]. unfold rank_lt. lia. Qed.

Lemma rank_lt_total x y : rank_lt x y \/ x = y \/ rank_lt y x.
Proof.
  destruct x as [[s1 c1] a1], y as [[s2 c2] a2]. unfold rank_lt.
  destruct (N.lt_trichotomy s1 s2) as [H|[H|H]]; [lia| |lia].
  destruct (N.lt_trichotomy c1 c2) as [H'|[H'|H']]; [lia| |lia].
  destruct (N.lt_trichotomy a1 a2) as [H''|[H''|H'']]; [lia| |lia].
  right; left. subst. reflexivity.
Qed.

Lemma rank_lt_asym x y : rank_lt x y -> ~ rank_lt y x.
Proof. intros H1 H2. exact (rank_lt_irrefl x (rank_lt_trans _ _ _ H1 H2)). Qed.

Lemma rank_le_refl x : rank_le x x.
Proof. right; reflexivity. Qed.

Lemma rank_le_trans x y z : rank_le x y -> rank_le y z -> rank_le x z.
Proof.
  intros [H1| ->] [H2| ->]; try (left; assumption); try (right; reflexivity).
  left. eapply rank_lt_trans; eassumption.
Qed.

Lemma rank_le_antisym x y : rank_le x y -> rank_le y x -> x = y.
Proof.
  intros [H1|H1] [H2|H2]; try assumption; try (symmetry; assumption).
  exfalso. exact (rank_lt_asym _ _ H1 H2).
Qed.

Lemma rank_not_lt_le x y : ~ rank_lt x y -> rank_le y x.
Proof.
  intros H. destruct (rank_lt_total x y) as [H'|[ ->|H']]; [contradiction | right; reflexivity | left; exact H'].
Qed.

Lemma rank_le_total x y : rank_le x y \/ rank_le y x.
Proof. destruct (rank_lt_total x y) as [H|[ ->|H]]; [left; left; exact H | left; right; reflexivity | right; left; exact H]. Qed.

(* equal ranks name the same address *)
Lemma rank_eq_addr e e' : rank e = rank e' -> ip_addr e = ip_addr e'.
Proof. unfold rank. intros H. inversion H. reflexivity. Qed.

(* ---- betterRDNSS returns the rank-smaller of the two, the incumbent on a tie *)

Lemma better_class_spec c b :
  better_class class_fns c b =
  if (class (ip_addr c) <? class (ip_addr b))
     || ((class (ip_addr c) =? class (ip_addr b)) && (ip_addr c <? ip_addr b))
  then c else b.
Proof.
  unfold class_fns, class. cbn [better_class].
  destruct (go_private (ip_addr c)), (go_private (ip_addr b)),
           (go_global_unicast (ip_addr c)), (go_global_unicast (ip_addr b)),
           (go_link_local (ip_addr c)), (go_link_local (ip_addr b));
    cbn; try reflexivity; destruct (ip_addr c <? ip_addr b); reflexivity.
Qed.

Lemma better_spec b c :
  better (Some b) c = if rank_ltb (rank c) (rank b) then c else b.
Proof.
  unfold better, rank, rank_ltb. rewrite better_class_spec.
  destruct (is_stable c), (is_stable b); cbn; reflexivity.
Qed.

Lemma better_min b c :
  let m := better (Some b) c in
  (m = b \/ m = c) /\ rank_le (rank m) (rank b) /\ rank_le (rank m) (rank c).
Proof.
  cbv zeta. rewrite better_spec. destruct (rank_ltb (rank c) (rank b)) eqn:E.
  - apply rank_ltb_lt in E. split; [right; reflexivity|]. split; [left; exact E | apply rank_le_refl].
  - split; [left; reflexivity|]. split; [apply rank_le_refl|].
    apply rank_not_lt_le. intros H. apply rank_ltb_lt in H. congruence.
Qed.

(* ---- the fold *)

Definition rdnss_ok (a : sysip) : bool := negb (rdnss_skip a).

Lemma rdnss_ok_iff a :
  rdnss_ok a = true <->
  ip_v4 a = false /\ ip_deprecated a = false /\ ip_temporary a = false /\ ip_tentative a = false.
Proof. unfold rdnss_ok, rdnss_skip. rewrite negb_true_iff, !orb_false_iff. tauto. Qed.

Lemma rdnss_fold_none l : forall best,
  rdnss_fold best l = None <-> best = None /\ forall a, In a l -> rdnss_ok a = false.
Proof.
  unfold rdnss_ok. induction l as [|a tl IH]; intros best; cbn [rdnss_fold].
  - split; [intros ->; split; [reflexivity | intros a []] | intros [-> _]; reflexivity].
  - destruct (rdnss_skip a) eqn:E.
    + rewrite IH. split; intros [Hb H]; (split; [exact Hb|]).
      * intros x [<-|Hx]; [rewrite E; reflexivity | apply H, Hx].
      * intros x Hx. apply H. right; exact Hx.
    + rewrite IH. split; [intros [H _]; discriminate|].
      intros [_ H]. specialize (H a (or_introl eq_refl)). rewrite E in H. discriminate.
Qed.

Lemma rdnss_fold_some l : forall best r,
  rdnss_fold best l = Some r ->
  (best = Some r \/ (In r l /\ rdnss_ok r = true))
  /\ (forall b, best = Some b -> rank_le (rank r) (rank b))
  /\ (forall a, In a l -> rdnss_ok a = true -> rank_le (rank r) (rank a)).
Proof.
  unfold rdnss_ok. induction l as [|a tl IH]; intros best r; cbn [rdnss_fold].
  - intros ->. split; [left; reflexivity|]. split.
    + intros b Hb. inversion Hb. apply rank_le_refl.
    + intros a [].
  - destruct (rdnss_skip a) eqn:E.
    + intros H. destruct (IH _ _ H) as [Hin [Hb Hall]]. split; [|split].
      * destruct Hin as [Hin|[Hin Hok]]; [left; exact Hin | right; split; [right; exact Hin | exact Hok]].
      * exact Hb.
      * intros x [<-|Hx] Hok; [rewrite E in Hok; discriminate | apply Hall; assumption].
    + intros H. destruct (IH _ _ H) as [Hin [Hb Hall]].
      assert (Hm : (forall b, best = Some b -> (better best a = b \/ better best a = a)
                       /\ rank_le (rank (better best a)) (rank b))
                   /\ rank_le (rank (better best a)) (rank a)
                   /\ (best = None -> better best a = a)).
      { destruct best as [b|].
        - pose proof (better_min b a) as Hmin. cbv zeta in Hmin. destruct Hmin as [Hor [Hlb Hla]].
          split; [intros b' Hb'; inversion Hb'; subst b'; split; assumption|]. split; [exact Hla | discriminate].
        - cbn [better]. split; [discriminate|]. split; [apply rank_le_refl | reflexivity]. }
      destruct Hm as [Hmb [Hma Hmn]].
      pose proof (Hb _ eq_refl) as Hrm.
      split; [|split].
      * destruct Hin as [Hin|[Hin Hok]].
        -- injection Hin as Hr. destruct best as [b|].
           ++ destruct (proj1 (Hmb b eq_refl)) as [Eb|Ea].
              ** left. rewrite <- Hr, Eb. reflexivity.
              ** right. rewrite Ea in Hr. subst r. split; [left; reflexivity | rewrite E; reflexivity].
           ++ right. rewrite (Hmn eq_refl) in Hr. subst r. split; [left; reflexivity | rewrite E; reflexivity].
        -- right. split; [right; exact Hin | exact Hok].
      * intros b Hbest. eapply rank_le_trans; [exact Hrm | apply (Hmb b Hbest)].
      * intros x [<-|Hx] Hok; [eapply rank_le_trans; [exact Hrm | exact Hma] | apply Hall; assumption].
Qed.

(* the chosen entry: eligible, listed, rank-minimal among the eligible listed entries *)
Lemma rdnss_fold_best l r :
  rdnss_fold None l = Some r ->
  In r l /\ rdnss_ok r = true /\ forall a, In a l -> rdnss_ok a = true -> rank_le (rank r) (rank a).
Proof.
  intros H. destruct (rdnss_fold_some _ _ _ H) as [[Hin|[Hin Hok]] [_ Hall]]; [discriminate|].
  split; [exact Hin|]. split; [exact Hok | exact Hall].
Qed.

Lemma rdnss_current_ok l s :
  rdnss_current (Some l) = Ok s <->
  exists r, ip_addr r = s /\ In r l /\ rdnss_ok r = true
            /\ forall a, In a l -> rdnss_ok a = true -> rank_le (rank r) (rank a).
Proof.
  unfold rdnss_current. split.
  - destruct (rdnss_fold None l) as [r|] eqn:E; [|discriminate].
    intros H. inversion H; subst. exists r. split; [reflexivity|]. apply rdnss_fold_best, E.
  - intros [r [<- [Hin [Hok Hall]]]].
    destruct (rdnss_fold None l) as [r'|] eqn:E.
    + destruct (rdnss_fold_best _ _ E) as [Hin' [Hok' Hall']].
      f_equal. apply rank_eq_addr. apply rank_le_antisym; [apply Hall' | apply Hall]; assumption.
    + apply rdnss_fold_none in E. destruct E as [_ E]. rewrite (E r Hin) in Hok. discriminate.
Qed.

Lemma rdnss_current_err l :
  is_ok (rdnss_current (Some l)) = false <-> forall a, In a l -> rdnss_ok a = false.
Proof.
  unfold rdnss_current. destruct (rdnss_fold None l) as [r|] eqn:E; cbn [is_ok].
  - split; [discriminate|]. intros H. destruct (rdnss_fold_best _ _ E) as [Hin [Hok _]].
    rewrite (H r Hin) in Hok. discriminate.
  - apply rdnss_fold_none in E. split; [intros _; apply E | reflexivity].
Qed.

(* the result depends only on the SET of listed entries *)
Lemma rdnss_current_set_ext l l' :
  (forall a, In a l <-> In a l') -> rdnss_current (Some l) = rdnss_current (Some l').
Proof.
  intros Heq.
  destruct (rdnss_current (Some l)) as [s|e] eqn:E.
  - symmetry. apply rdnss_current_ok. apply rdnss_current_ok in E.
    destruct E as [r [Hs [Hin [Hok Hall]]]]. exists r. split; [exact Hs|]. split; [apply Heq, Hin|].
    split; [exact Hok|]. intros a Ha. apply Hall, Heq, Ha.
  - assert (H : is_ok (rdnss_current (Some l)) = false) by (rewrite E; reflexivity).
    rewrite rdnss_current_err in H.
    assert (H' : is_ok (rdnss_current (Some l')) = false).
    { apply rdnss_current_err. intros a Ha. apply H, Heq, Ha. }
    unfold rdnss_current in *. destruct (rdnss_fold None l); [discriminate|].
    destruct (rdnss_fold None l'); [discriminate|]. symmetry; exact E.
Qed.

(* ---- parseRDNSS *)

Definition raw_v6 (r : raw_server) : Prop := match r with RS6 _ => True | _ => False end.

Lemma parse_servers_spec l : forall auto set auto' set',
  parse_servers auto set l = Ok (auto', set') ->
  NoDup set ->
  NoDup set'
  /\ (forall x, In x set' <-> In x set \/ (In (RS6 x) l /\ x <> 0))
  /\ (auto' = true <-> auto = true \/ In (RS6 0) l)
  /\ Forall raw_v6 l.
Proof.
  induction l as [|r tl IH]; intros auto set auto' set'; cbn [parse_servers].
  - intros H Hnd. inversion H; subst. split; [exact Hnd|]. split; [|split; [|constructor]].
    + intros x. cbn [In]. tauto.
    + cbn [In]. tauto.
  - destruct r as [| | |a]; try discriminate.
    unfold is_unspecified. destruct (N.eqb_spec a 0) as [Ha|Ha].
    + subst a. destruct auto; [discriminate|]. intros H Hnd.
      destruct (IH _ _ _ _ H Hnd) as [Hnd' [Hin [Hauto Hall]]].
      split; [exact Hnd'|]. split; [|split; [|constructor; [exact I | exact Hall]]].
      * intros x. rewrite Hin. cbn [In]. split; [tauto|].
        intros [H1|[[H1|H1] H2]]; [tauto | inversion H1; congruence | tauto].
      * cbn [In]. split; [intros _; right; left; reflexivity | intros _; apply Hauto; left; reflexivity].
    + destruct (memN a set) eqn:Em; [discriminate|]. intros H Hnd.
      assert (Hn : ~ In a set) by (intros Hi; apply memN_In in Hi; congruence).
      destruct (IH _ _ _ _ H (NoDup_cons a Hn Hnd)) as [Hnd' [Hin [Hauto Hall]]].
      split; [exact Hnd'|]. split; [|split; [|constructor; [exact I | exact Hall]]].
      * intros x. rewrite Hin. cbn [In]. split.
        -- intros [[H1|H1]|[H1 H2]]; [right; split; [left; congruence | congruence] | tauto | tauto].
        -- intros [H1|[[H1|H1] H2]]; [tauto | inversion H1; tauto | tauto].
      * rewrite Hauto. cbn [In]. split; [tauto|]. intros [H1|[H1|H1]]; [tauto | inversion H1; congruence | tauto].
Qed.

(* an accepted server list: strictly ascending, exactly the non-:: servers written, Auto iff :: was
   written or the list is empty, and every entry is an IPv6 address *)
Lemma parse_rdnss_spec raw auto servers :
  parse_rdnss raw = Ok (auto, servers) ->
  StronglySorted N.lt servers
  /\ (forall x, In x servers <-> In (RS6 x) raw /\ x <> 0)
  /\ (auto = true <-> raw = [] \/ In (RS6 0) raw)
  /\ Forall raw_v6 raw.
Proof.
  unfold parse_rdnss. destruct raw as [|r tl].
  - intros H. inversion H; subst. split; [constructor|]. split; [|split; [|constructor]].
    + intros x. cbn [In]. tauto.
    + tauto.
  - destruct (parse_servers false [] (r :: tl)) as [[a set]|e] eqn:E; [|discriminate].
    intros H. inversion H; subst.
    destruct (parse_servers_spec _ _ _ _ _ E (NoDup_nil N)) as [Hnd [Hin [Hauto Hall]]].
    split; [apply klt_id_lt, isort_strict, NoDup_map_id, Hnd|].
    split; [|split; [|exact Hall]].
    + intros x. rewrite in_isort, Hin. cbn [In]. tauto.
    + rewrite Hauto. split; [intros [H1|H1]; [discriminate | right; exact H1] | intros [H1|H1]; [discriminate | right; exact H1]].
Qed.

(* Go flattens the set in an unspecified order before sorting: any order gives the same list *)
Lemma parse_rdnss_map_order l auto set set' :
  parse_servers false [] l = Ok (auto, set) -> Permutation set set' ->
  isort (fun x => x) set' = isort (fun x => x) set.
Proof.
  intros H Hp. destruct (parse_servers_spec _ _ _ _ _ H (NoDup_nil N)) as [Hnd _].
  symmetry. apply isort_perm_unique; assumption.
Qed.

(* RDNSS.Apply: the wildcard server first, the static servers after it, one option with the stanza's lifetime *)
Lemma rdnss_Apply_auto lt servers addrs opts :
  rdnss_Apply true lt servers addrs = Ok opts <->
  exists s, rdnss_current addrs = Ok s /\ opts = [ORDNSS lt (s :: servers)].
Proof.
  unfold rdnss_Apply. destruct (rdnss_current addrs) as [s|e].
  - split; [intros H; inversion H; exists s; split; reflexivity | intros [s' [H ->]]; inversion H; reflexivity].
  - split; [discriminate | intros [s' [H _]]; discriminate].
Qed.

(* ---- which server lists are accepted: every entry an IPv6 address, no address (:: included) twice *)

Definition raw_addrs (l : list raw_server) : list N :=
  flat_map (fun r => match r with RS6 a => [a] | _ => [] end) l.

Lemma parse_servers_accepts l : forall auto set,
  is_ok (parse_servers auto set l) = true <->
  Forall raw_v6 l /\ NoDup (raw_addrs l)
  /\ (forall x, In x (raw_addrs l) -> x <> 0 -> ~ In x set)
  /\ (auto = true -> ~ In 0 (raw_addrs l)).
Proof.
  induction l as [|r tl IH]; intros auto set; cbn [parse_servers raw_addrs flat_map].
  - cbn [is_ok]. split; [intros _|reflexivity]. split; [constructor|]. split; [constructor|].
    split; [intros x [] | intros _ []].
  - destruct r as [| | |a]; cbn [is_ok app].
    + split; [discriminate | intros [H _]; inversion H; contradiction].
    + split; [discriminate | intros [H _]; inversion H; contradiction].
    + split; [discriminate | intros [H _]; inversion H; contradiction].
    + fold (raw_addrs tl). unfold is_unspecified. destruct (N.eqb_spec a 0) as [Ha|Ha].
      * subst a. destruct auto; cbn [is_ok].
        -- split; [discriminate|]. intros [_ [_ [_ H]]]. exfalso. apply (H eq_refl). left; reflexivity.
        -- rewrite IH. split.
           ++ intros [Hall [Hnd [Hset Hauto]]]. split; [constructor; [exact I | exact Hall]|].
              split; [constructor; [apply Hauto; reflexivity | exact Hnd]|].
              split; [|discriminate]. intros x [Hx|Hx] Hx0; [congruence | apply Hset; assumption].
           ++ intros [Hall [Hnd [Hset _]]]. inversion Hall; subst. inversion Hnd; subst.
              split; [assumption|]. split; [assumption|]. split; [|intros _; assumption].
              intros x Hx. apply Hset. right; exact Hx.
      * destruct (memN a set) eqn:Em; cbn [is_ok].
        -- apply memN_In in Em. split; [discriminate|]. intros [_ [_ [H _]]]. exfalso.
           apply (H a); [left; reflexivity | exact Ha | exact Em].
        -- assert (Hn : ~ In a set) by (intros Hi; apply memN_In in Hi; congruence).
           rewrite IH. split.
           ++ intros [Hall [Hnd [Hset Hauto]]]. split; [constructor; [exact I | exact Hall]|].
              split; [constructor; [|exact Hnd]|].
              { intros Hin. apply (Hset a Hin Ha). left; reflexivity. }
              split.
              { intros x [Hx|Hx] Hx0; [subst x; exact Hn|]. intros Hs. apply (Hset x Hx Hx0). right; exact Hs. }
              { intros Hau [H0|H0]; [congruence | exact (Hauto Hau H0)]. }
           ++ intros [Hall [Hnd [Hset Hauto]]]. inversion Hall; subst. inversion Hnd; subst.
              split; [assumption|]. split; [assumption|]. split.
              { intros x Hx Hx0 [Hs|Hs]; [subst x; contradiction | apply (Hset x); [right; exact Hx | exact Hx0 | exact Hs]]. }
              { intros Hau H0. apply (Hauto Hau). right; exact H0. }
Qed.

Lemma parse_rdnss_accepts raw :
  is_ok (parse_rdnss raw) = true <-> Forall raw_v6 raw /\ NoDup (raw_addrs raw).
Proof.
  assert (E : is_ok (parse_rdnss raw) = is_ok (parse_servers false [] raw)).
  { unfold parse_rdnss. destruct raw as [|r tl]; [reflexivity|].
    destruct (parse_servers false [] (r :: tl)) as [[a s]|e]; reflexivity. }
  rewrite E, parse_servers_accepts. split; [tauto|]. intros [H1 H2].
  split; [exact H1|]. split; [exact H2|]. split; [intros x _ _ []|discriminate].
Qed.
