(* The C13 specification checker (Corr/C13.v [holds], written from the property text with plain
   arithmetic) accepts the model's output on EVERY input: the checker that is evaluated on the
   implementation's observations is not stricter than what the theorems establish. *)
From CR Require Import Model.Wildcard.
From CR Require Import Corr.C13.
From CR Require Import Proofs.Lifetimes.
From CR Require Import Proofs.WildcardSort.
From CR Require Import Proofs.Wildcard.
From Coq Require Import Lia ZifyBool Sorted.
Local Open Scope N_scope.

Lemma div_eq_range a d k : d <> 0 -> (a / d =? k) = ((k * d <=? a) && (a <? (k + 1) * d)).
Proof.
  intros Hd. apply eq_true_iff_eq. rewrite andb_true_iff, N.eqb_eq, N.leb_le, N.ltb_lt.
  split.
  - intros <-. pose proof (N.mul_div_le a d Hd). pose proof (N.mul_succ_div_gt a d Hd).
    rewrite (N.mul_comm (a / d) d), (N.mul_comm (a / d + 1) d), N.add_1_r. split; assumption.
  - intros [H1 H2].
    assert (a / d < k + 1) by (apply N.div_lt_upper_bound; [exact Hd | rewrite N.mul_comm; exact H2]).
    assert (k <= a / d) by (apply N.div_le_lower_bound; [exact Hd | rewrite N.mul_comm; exact H1]). lia.
Qed.

(* the numeric ranges of the checker are the shift tests of the model *)
Lemma spec_link_local_eq a : spec_link_local a = go_link_local a.
Proof.
  unfold spec_link_local, go_link_local, is_4in6, v4_link_local, v4_of, is_link_local,
    fe80, fec0, mapped_ll_lo, mapped_ll_hi.
  change 4294967295 with (N.ones 32). rewrite N.land_ones, !N.shiftr_div_pow2.
  change (2 ^ 32) with 4294967296. change (2 ^ 16) with 65536.
  change (2 ^ 118) with 332306998946228968225951765070086144.
  rewrite !div_eq_range by discriminate.
  pose proof (N.div_mod a 4294967296 ltac:(discriminate)) as Hdm.
  pose proof (N.mod_lt a 4294967296 ltac:(discriminate)) as Hlt.
  destruct ((65535 * 4294967296 <=? a) && (a <? (65535 + 1) * 4294967296)) eqn:E.
  - assert (a / 4294967296 = 65535) by (apply N.eqb_eq; rewrite div_eq_range by discriminate; exact E).
    lia.
  - lia.
Qed.

Lemma spec_net_eq a bits : spec_net a bits = mask a bits.
Proof. unfold spec_net, mask. cbv zeta. rewrite N.shiftl_mul_pow2, N.shiftr_div_pow2. reflexivity. Qed.

Lemma spec_eligible_eq bits a : spec_eligible bits a = prefix_ok bits a.
Proof.
  unfold spec_eligible, prefix_ok, prefix_skip1, prefix_skip2. rewrite spec_link_local_eq.
  destruct (ip_v4 a), (go_link_local (ip_addr a)), (ip_bits a =? bits), (ip_temporary a), (ip_tentative a); reflexivity.
Qed.

Lemma strictly_ascending_sorted l : StronglySorted N.lt l -> strictly_ascending l = true.
Proof.
  induction 1 as [|x tl Hs IH Hall]; [reflexivity|].
  destruct tl as [|y tl']; [reflexivity|].
  change (strictly_ascending (x :: y :: tl')) with ((x <? y) && strictly_ascending (y :: tl')).
  rewrite IH, andb_true_r. apply N.ltb_lt. inversion Hall; assumption.
Qed.

Theorem C13_checker_accepts_model :
  forall bits onlink autonomous valid preferred deprecated epoch now addrs,
  holds (mkCase bits onlink autonomous valid preferred deprecated epoch now addrs
           (prefix_Apply true 0 bits onlink autonomous valid preferred deprecated epoch now addrs)) = true.
Proof.
  intros bits ol au v p dep epoch now addrs. unfold holds. cbn [c_addrs c_obs].
  destruct addrs as [l|]; [|reflexivity].
  rewrite prefix_Apply_auto. cbn [c_bits c_onlink c_autonomous c_valid c_preferred].
  rewrite map_map. cbn [opt_pfx]. rewrite map_id.
  rewrite !andb_true_iff. split; [split|].
  - apply forallb_forall. intros o Ho. apply in_map_iff in Ho. destruct Ho as [x [<- _]].
    rewrite N.eqb_refl, !eqb_reflx. cbn [andb].
    unfold spec_lifetime, prefix_lifetimes. cbn [c_deprecated c_epoch c_now].
    destruct dep; cbn [fst snd]; rewrite ?remaining_spec, !Z.eqb_refl; reflexivity.
  - apply strictly_ascending_sorted, prefix_list_sorted.
  - split; apply forallb_forall; intros x Hx; apply memN_In.
    + apply prefix_list_in in Hx. destruct Hx as [a [Hin [Hok <-]]].
      apply in_map_iff. exists a. split; [apply spec_net_eq|].
      apply filter_In. split; [exact Hin | rewrite spec_eligible_eq; exact Hok].
    + apply in_map_iff in Hx. destruct Hx as [a [<- Ha]]. apply filter_In in Ha. destruct Ha as [Hin Hok].
      apply prefix_list_in. exists a. split; [exact Hin|]. split; [rewrite <- spec_eligible_eq; exact Hok | symmetry; apply spec_net_eq].
Qed.
