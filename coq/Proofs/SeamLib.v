(* Helpers for the extracted "behind the seams" facts (gen/ExtSeams.v, Properties/Seam*.v). *)
From Coq Require Import List String Bool Arith.
Import ListNotations.
Open Scope string_scope.

Definition ends_with (suf s : string) : bool :=
  (String.length suf <=? String.length s)%nat &&
  String.eqb (substring (String.length s - String.length suf) (String.length suf) s) suf.

Definition in_file (file e : string) : bool := prefix (file ++ ":") e.

Example ends_with_ok : ends_with ":SetReadDeadline" "a.go:f:SetReadDeadline" = true
  /\ ends_with ":SetReadDeadline" "a.go:f:SetWriteDeadline" = false /\ ends_with "abc" "bc" = false.
Proof. repeat split; reflexivity. Qed.

Example in_file_ok : in_file "a/b.go" "a/b.go:f:g" = true /\ in_file "a/b.go" "a/b.go.x:f:g" = false.
Proof. split; reflexivity. Qed.
