(* C12 -- lemmas about Model/Verify.v: the number of problems reported under every label set
   equals the declarative count of Model/VerifySpec.v. *)
From Coq Require Import Lia ZifyBool.
From CR Require Import Model.Verify.
From CR Require Import Model.VerifySpec.
Local Open Scope Z_scope.

(* ------------------------------------------------------------------ equalities *)
Lemma field_eqb_eq : forall a b, field_eqb a b = true <-> a = b.
Proof. destruct a, b; cbn; split; intro H; try reflexivity; discriminate. Qed.
Lemma field_eqb_refl : forall a, field_eqb a a = true.
Proof. destruct a; reflexivity. Qed.
Lemma key_eqb_eq : forall a b, key_eqb a b = true <-> a = b.
Proof.
  intros [a1 a2] [b1 b2]; unfold key_eqb; cbn. rewrite andb_true_iff, !N.eqb_eq.
  split; [intros [-> ->]; reflexivity | intro H; inversion H; auto].
Qed.
Lemma key_eqb_refl : forall a, key_eqb a a = true.
Proof. intro a; apply key_eqb_eq; reflexivity. Qed.
Lemma key_eqb_sym : forall a b, key_eqb a b = key_eqb b a.
Proof. intros [a1 a2] [b1 b2]; unfold key_eqb; cbn. now rewrite (N.eqb_sym a1), (N.eqb_sym a2). Qed.
Lemma details_eqb_eq : forall a b, details_eqb a b = true <-> a = b.
Proof.
  intros [a|] [b|]; cbn; try (split; [discriminate | discriminate]); try tauto.
  rewrite key_eqb_eq. split; [intros ->; reflexivity | intro H; inversion H; reflexivity].
Qed.
Lemma problem_eqb_eq : forall a b, problem_eqb a b = true <-> a = b.
Proof.
  intros [f d] [f' d']; unfold problem_eqb; cbn. rewrite andb_true_iff, field_eqb_eq, details_eqb_eq.
  split; [intros [-> ->]; reflexivity | intro H; inversion H; auto].
Qed.
Lemma problem_eqb_refl : forall a, problem_eqb a a = true.
Proof. intro a; apply problem_eqb_eq; reflexivity. Qed.
Lemma pref_eqb_refl : forall a, pref_eqb a a = true.
Proof. destruct a; reflexivity. Qed.

(* ------------------------------------------------------------------ truncation to wire units *)
Lemma trunc_to_quot : forall m d, m <> 0 -> trunc_to m d = m * Z.quot d m.
Proof. intros m d Hm. unfold trunc_to. pose proof (Z.quot_rem' d m). lia. Qed.

Lemma trunc_to_eqb : forall m d1 d2, m <> 0 ->
  (trunc_to m d1 =? trunc_to m d2) = (units m d1 =? units m d2).
Proof.
  intros m d1 d2 Hm. rewrite !trunc_to_quot by assumption. unfold units.
  destruct (Z.eqb_spec (Z.quot d1 m) (Z.quot d2 m)) as [E|E].
  - rewrite E. apply Z.eqb_refl.
  - apply Z.eqb_neq. intro H. apply E. apply Z.mul_reg_l with m; assumption.
Qed.

Lemma trunc_to_zero : forall m d, m <> 0 -> (trunc_to m d =? 0) = (units m d =? 0).
Proof.
  intros m d Hm. rewrite trunc_to_quot by assumption. unfold units.
  destruct (Z.eqb_spec (Z.quot d m) 0) as [E|E].
  - rewrite E, Z.mul_0_r. reflexivity.
  - apply Z.eqb_neq. intro H. apply E. apply Z.mul_eq_0 in H. tauto.
Qed.

Lemma trunc_to_idem : forall m d, m <> 0 -> trunc_to m (trunc_to m d) = trunc_to m d.
Proof.
  intros m d Hm. rewrite (trunc_to_quot m d) by assumption. unfold trunc_to.
  rewrite Z.mul_comm, Z.rem_mul by assumption. lia.
Qed.

Lemma units_trunc : forall m d, m <> 0 -> units m (trunc_to m d) = units m d.
Proof.
  intros m d Hm. rewrite trunc_to_quot by assumption. unfold units.
  rewrite Z.mul_comm. apply Z.quot_mul. assumption.
Qed.

Lemma ms_nz : ms <> 0. Proof. discriminate. Qed.
Lemma sec_nz : sec <> 0. Proof. discriminate. Qed.

Lemma wire_seconds_differ : forall x y,
  negb (wire_seconds x =? wire_seconds y) = differ_s x y.
Proof. intros. unfold wire_seconds, differ_s. now rewrite trunc_to_eqb by exact sec_nz. Qed.

Lemma check_durations_spec : forall x y, negb (check_durations x y) = timers_conflict x y.
Proof.
  intros. unfold check_durations, timers_conflict, wire_millis.
  rewrite !trunc_to_zero, trunc_to_eqb by exact ms_nz.
  destruct (units ms x =? 0), (units ms y =? 0); reflexivity.
Qed.

(* ------------------------------------------------------------------ counting *)
Fixpoint sum_list {A} (w : A -> nat) (l : list A) : nat :=
  match l with [] => 0%nat | x :: l' => (w x + sum_list w l')%nat end.

Lemma sum_list_app : forall A (w : A -> nat) l1 l2,
  sum_list w (l1 ++ l2) = (sum_list w l1 + sum_list w l2)%nat.
Proof. induction l1; cbn; intros; [reflexivity | rewrite IHl1; lia]. Qed.
Lemma sum_list_map : forall A B (h : A -> B) (w : B -> nat) l,
  sum_list w (map h l) = sum_list (fun x => w (h x)) l.
Proof. induction l; cbn; congruence. Qed.
Lemma sum_list_ext : forall A (w1 w2 : A -> nat) l,
  (forall x, In x l -> w1 x = w2 x) -> sum_list w1 l = sum_list w2 l.
Proof.
  induction l; cbn; intros H; [reflexivity|].
  rewrite (H a) by auto. rewrite IHl by auto. reflexivity.
Qed.
Lemma sum_list_zero : forall A (w : A -> nat) l,
  sum_list w l = 0%nat <-> (forall x, In x l -> w x = 0%nat).
Proof.
  induction l; cbn; [tauto|]. split.
  - intros H x [<-|Hx]; [lia|]. apply IHl; [lia | assumption].
  - intro H. rewrite (H a) by auto. apply IHl. auto.
Qed.
Lemma length_filter_sum : forall A (g : A -> bool) l,
  length (filter g l) = sum_list (fun x => b2n (g x)) l.
Proof. induction l; cbn; [reflexivity|]. destruct (g a); cbn; rewrite IHl; reflexivity. Qed.
Lemma sum_list_prod : forall A B (w : A * B -> nat) la lb,
  sum_list w (list_prod la lb) = sum_list (fun a => sum_list (fun b => w (a, b)) lb) la.
Proof.
  induction la; cbn; intros; [reflexivity|].
  rewrite sum_list_app, sum_list_map, IHla. reflexivity.
Qed.

Arguments count : simpl never.
Lemma count_nil : forall p, count p [] = 0%nat.
Proof. reflexivity. Qed.
Lemma count_app : forall p l1 l2, count p (l1 ++ l2) = (count p l1 + count p l2)%nat.
Proof. intros. unfold count. rewrite filter_app, app_length. reflexivity. Qed.
Lemma count_cons : forall p q l, count p (q :: l) = (b2n (problem_eqb p q) + count p l)%nat.
Proof. intros. unfold count. cbn. destruct (problem_eqb p q); reflexivity. Qed.
Lemma count_push_if : forall p c q, count p (push_if c q) = b2n (c && problem_eqb p q).
Proof. intros. destruct c; unfold push_if; [rewrite count_cons, count_nil; cbn [andb]; lia | reflexivity]. Qed.
Lemma count_flat_map : forall A p (F : A -> list problem) l,
  count p (flat_map F l) = sum_list (fun x => count p (F x)) l.
Proof. induction l; cbn; [reflexivity|]. rewrite count_app, IHl. reflexivity. Qed.
Lemma count_pos_in : forall p l, In p l -> (1 <= count p l)%nat.
Proof.
  induction l; cbn; [tauto|]. intros [->|H]; rewrite count_cons.
  - rewrite problem_eqb_refl. cbn. lia.
  - specialize (IHl H). lia.
Qed.
Lemma count_zero_not_in : forall p l, count p l = 0%nat -> ~ In p l.
Proof. intros p l H Hin. apply count_pos_in in Hin. lia. Qed.
Lemma all_count_zero_nil : forall l, (forall p, count p l = 0%nat) -> l = [].
Proof. destruct l as [|q l]; [reflexivity|]. intro H. specialize (H q). rewrite count_cons, problem_eqb_refl in H. cbn in H. lia. Qed.
Lemma count_field_zero : forall p l,
  (forall q, In q l -> field_eqb (fst p) (fst q) = false) -> count p l = 0%nat.
Proof.
  induction l; cbn; intro H; [reflexivity|]. rewrite count_cons, IHl by auto.
  unfold problem_eqb. rewrite (H a) by auto. reflexivity.
Qed.

(* ------------------------------------------------------------------ option views *)
Definition pi_view (x : pinfo) : (N * N) * (dur * dur) :=
  ((pi_pfx x, pi_len x), (pi_preferred x, pi_valid x)).
Definition ri_view (x : rinfo) : (N * N) * (pref * dur) :=
  ((ri_pfx x, ri_len x), (ri_prf x, ri_lifetime x)).

Lemma prefix_opts_pick : forall a, prefix_opts a = map pi_view (pick_prefixes (ra_opts a)).
Proof.
  intro a. unfold prefix_opts. induction (ra_opts a) as [|o os IH]; [reflexivity|].
  destruct o; cbn [flat_map pick_prefixes map app]; rewrite IH; reflexivity.
Qed.
Lemma route_opts_pick : forall a, route_opts a = map ri_view (pick_routes (ra_opts a)).
Proof.
  intro a. unfold route_opts. induction (ra_opts a) as [|o os IH]; [reflexivity|].
  destruct o; cbn [flat_map pick_routes map app]; rewrite IH; reflexivity.
Qed.
Lemma rdnss_opts_pick : forall a, rdnss_opts a = pick_rdnss (ra_opts a).
Proof.
  intro a. unfold rdnss_opts. induction (ra_opts a) as [|o os IH]; [reflexivity|].
  destruct o; cbn [flat_map pick_rdnss app]; rewrite IH; reflexivity.
Qed.
Lemma dnssl_opts_pick : forall a, dnssl_opts a = pick_dnssl (ra_opts a).
Proof.
  intro a. unfold dnssl_opts. induction (ra_opts a) as [|o os IH]; [reflexivity|].
  destruct o; cbn [flat_map pick_dnssl app]; rewrite IH; reflexivity.
Qed.
Lemma mtu_opts_first : forall a, hd_error (mtu_opts a) = pick_first_mtu (ra_opts a).
Proof.
  intro a. unfold mtu_opts. induction (ra_opts a) as [|o os IH]; [reflexivity|].
  destruct o; cbn [flat_map pick_first_mtu app]; try exact IH; reflexivity.
Qed.
Lemma captive_opts_first : forall a, hd_error (captive_opts a) = pick_first_captive (ra_opts a).
Proof.
  intro a. unfold captive_opts. induction (ra_opts a) as [|o os IH]; [reflexivity|].
  destruct o; cbn [flat_map pick_first_captive app]; try exact IH; reflexivity.
Qed.

(* ------------------------------------------------------------------ the parts of verifyRAs *)
Definition header_field (f : field) : bool :=
  match f with FHopLimit | FManaged | FOther | FReachable | FRetrans => true | _ => false end.

Ltac bool_finish :=
  rewrite ?andb_true_r, ?andb_false_r; cbn [b2n Nat.add];
  repeat match goal with
         | |- context [b2n ?c] => destruct c; cbn [b2n Nat.add negb xorb andb]
         end; try reflexivity; try lia.

Lemma negb_eqb_xorb : forall x y, negb (Bool.eqb x y) = xorb x y.
Proof. destruct x, y; reflexivity. Qed.

Lemma count_check_ras : forall a b p,
  count p (check_ras a b) = if header_field (fst p) then expected_count a b p else 0%nat.
Proof.
  intros a b [f d]. unfold check_ras.
  rewrite !count_app, !count_push_if, !check_durations_spec, !negb_eqb_xorb.
  destruct f, d; cbn [fst header_field expected_count problem_eqb field_eqb details_eqb snd andb];
    bool_finish.
Qed.

Lemma count_check_mtus : forall a b p,
  count p (check_mtus (ra_opts a) (ra_opts b)) =
  if field_eqb (fst p) FMTU then expected_count a b p else 0%nat.
Proof.
  intros a b [f d]. unfold check_mtus.
  destruct f, d; cbn [fst field_eqb expected_count];
    try (unfold firsts_differ; rewrite !mtu_opts_first);
    destruct (pick_first_mtu (ra_opts a)), (pick_first_mtu (ra_opts b));
    try match goal with |- context [N.eqb ?x ?y] => destruct (N.eqb x y) end;
    reflexivity.
Qed.

Lemma count_check_captive : forall a b p,
  count p (check_captive (ra_opts a) (ra_opts b)) =
  if field_eqb (fst p) FCaptive then expected_count a b p else 0%nat.
Proof.
  intros a b [f d]. unfold check_captive.
  destruct f, d; cbn [fst field_eqb expected_count];
    try (unfold firsts_differ; rewrite !captive_opts_first);
    destruct (pick_first_captive (ra_opts a)), (pick_first_captive (ra_opts b));
    try match goal with |- context [N.eqb ?x ?y] => destruct (N.eqb x y) end;
    reflexivity.
Qed.

(* ------------------------------------------------------------------ prefixes and routes: pairs *)
Lemma flat_map_nil_inner : forall A B (l : list A), flat_map (fun _ : A => @nil B) l = [].
Proof. induction l; cbn; auto. Qed.

Lemma sum_list_const0 : forall A (l : list A), sum_list (fun _ => 0%nat) l = 0%nat.
Proof. induction l; cbn; auto. Qed.

Lemma count_pairs_sum : forall A B (g : A -> B -> bool) la lb,
  count_pairs g la lb = sum_list (fun a => sum_list (fun b => b2n (g a b)) lb) la.
Proof. intros. unfold count_pairs. rewrite length_filter_sum, sum_list_prod. reflexivity. Qed.

Lemma check_prefixes_flat : forall oa ob,
  check_prefixes oa ob =
  flat_map (fun a => flat_map (fun b => check_prefix_pair a b) (pick_prefixes ob)) (pick_prefixes oa).
Proof.
  intros. unfold check_prefixes. destruct (pick_prefixes oa) as [|x xs]; [reflexivity|].
  destruct (pick_prefixes ob) as [|y ys]; [|reflexivity].
  cbn [is_nil orb]. symmetry. apply (flat_map_nil_inner _ _ (x :: xs)).
Qed.
Lemma check_routes_flat : forall oa ob,
  check_routes oa ob =
  flat_map (fun a => flat_map (fun b => check_route_pair a b) (pick_routes ob)) (pick_routes oa).
Proof.
  intros. unfold check_routes. destruct (pick_routes oa) as [|x xs]; [reflexivity|].
  destruct (pick_routes ob) as [|y ys]; [|reflexivity].
  cbn [is_nil orb]. symmetry. apply (flat_map_nil_inner _ _ (x :: xs)).
Qed.

Lemma keys_meet : forall kx ky k (D : bool),
  b2n ((if key_eqb kx ky then D else false) && details_eqb (Some k) (Some kx)) =
  b2n (key_eqb kx k && key_eqb ky k && D).
Proof.
  intros. cbn [details_eqb].
  destruct (key_eqb kx ky) eqn:E1, (key_eqb kx k) eqn:E2, (key_eqb ky k) eqn:E3, D;
    rewrite ?(key_eqb_sym k kx), ?E2; cbn; try reflexivity; exfalso;
    repeat match goal with
           | H : key_eqb _ _ = true |- _ => apply key_eqb_eq in H
           end; subst;
    repeat match goal with
           | H : key_eqb ?a ?a = false |- _ => rewrite key_eqb_refl in H; discriminate
           end.
Qed.

Lemma pair_keys_eqb : forall x1 l1 x2 l2,
  negb (N.eqb x1 x2) || negb (N.eqb l1 l2) = negb (key_eqb (x1, l1) (x2, l2)).
Proof. intros. unfold key_eqb. cbn. destruct (N.eqb x1 x2), (N.eqb l1 l2); reflexivity. Qed.

Definition prefix_pair_count (x y : pinfo) (p : problem) : nat :=
  match p with
  | (FPrefixPreferred, Some k) =>
      b2n (key_eqb (fst (pi_view x)) k && key_eqb (fst (pi_view y)) k &&
           differ_s (fst (snd (pi_view x))) (fst (snd (pi_view y))))
  | (FPrefixValid, Some k) =>
      b2n (key_eqb (fst (pi_view x)) k && key_eqb (fst (pi_view y)) k &&
           differ_s (snd (snd (pi_view x))) (snd (snd (pi_view y))))
  | _ => 0%nat
  end.

Lemma count_prefix_pair : forall x y p, count p (check_prefix_pair x y) = prefix_pair_count x y p.
Proof.
  intros x y [f d]. unfold check_prefix_pair. rewrite pair_keys_eqb.
  destruct (key_eqb (pi_pfx x, pi_len x) (pi_pfx y, pi_len y)) eqn:E; cbn [negb].
  - rewrite count_app, !count_push_if, !wire_seconds_differ.
    destruct f, d as [k|]; cbn [prefix_pair_count problem_eqb fst snd field_eqb details_eqb andb pi_view];
      rewrite ?andb_false_r; cbn [b2n Nat.add]; try reflexivity.
    + rewrite Nat.add_0_r. rewrite <- (keys_meet _ (pi_pfx y, pi_len y)). rewrite E. reflexivity.
    + rewrite <- (keys_meet _ (pi_pfx y, pi_len y)). rewrite E. reflexivity.
  - rewrite count_nil.
    destruct f, d as [k|]; cbn [prefix_pair_count pi_view fst snd]; try reflexivity.
    + rewrite <- (keys_meet _ (pi_pfx y, pi_len y)). rewrite E. reflexivity.
    + rewrite <- (keys_meet _ (pi_pfx y, pi_len y)). rewrite E. reflexivity.
Qed.

Definition prefix_field (f : field) : bool :=
  match f with FPrefixPreferred | FPrefixValid => true | _ => false end.

Lemma count_check_prefixes : forall a b p,
  count p (check_prefixes (ra_opts a) (ra_opts b)) =
  if prefix_field (fst p) then expected_count a b p else 0%nat.
Proof.
  intros a b p. rewrite check_prefixes_flat, count_flat_map.
  erewrite sum_list_ext by (intros; rewrite count_flat_map; reflexivity).
  erewrite sum_list_ext
    by (intros; apply sum_list_ext; intros; apply count_prefix_pair).
  destruct p as [f d].
  destruct f, d as [k|]; cbn [fst prefix_field expected_count prefix_pair_count];
    try (erewrite sum_list_ext by (intros; apply sum_list_const0); apply sum_list_const0).
  - rewrite count_pairs_sum, !prefix_opts_pick, sum_list_map.
    apply sum_list_ext; intros. rewrite sum_list_map. reflexivity.
  - rewrite count_pairs_sum, !prefix_opts_pick, sum_list_map.
    apply sum_list_ext; intros. rewrite sum_list_map. reflexivity.
Qed.

Definition route_pair_count (x y : rinfo) (p : problem) : nat :=
  match p with
  | (FRouteLifetime, Some k) =>
      b2n (key_eqb (fst (ri_view x)) k && key_eqb (fst (ri_view y)) k &&
           pref_eqb (fst (snd (ri_view x))) (fst (snd (ri_view y))) &&
           differ_s (snd (snd (ri_view x))) (snd (snd (ri_view y))))
  | _ => 0%nat
  end.

Lemma count_route_pair : forall x y p, count p (check_route_pair x y) = route_pair_count x y p.
Proof.
  intros x y [f d]. unfold check_route_pair. rewrite pair_keys_eqb.
  destruct (key_eqb (ri_pfx x, ri_len x) (ri_pfx y, ri_len y)) eqn:E; cbn [negb].
  - rewrite count_push_if, wire_seconds_differ.
    destruct f, d as [k|]; cbn [route_pair_count problem_eqb fst snd field_eqb details_eqb andb ri_view];
      rewrite ?andb_false_r; cbn [b2n]; try reflexivity.
    rewrite <- (andb_assoc (key_eqb (ri_pfx x, ri_len x) k && key_eqb (ri_pfx y, ri_len y) k)).
    rewrite <- (keys_meet _ (ri_pfx y, ri_len y)). rewrite E. reflexivity.
  - rewrite count_nil.
    destruct f, d as [k|]; cbn [route_pair_count ri_view fst snd]; try reflexivity.
    rewrite <- (andb_assoc (key_eqb (ri_pfx x, ri_len x) k && key_eqb (ri_pfx y, ri_len y) k)).
    rewrite <- (keys_meet _ (ri_pfx y, ri_len y)). rewrite E. reflexivity.
Qed.

Lemma count_check_routes : forall a b p,
  count p (check_routes (ra_opts a) (ra_opts b)) =
  if field_eqb (fst p) FRouteLifetime then expected_count a b p else 0%nat.
Proof.
  intros a b p. rewrite check_routes_flat, count_flat_map.
  erewrite sum_list_ext by (intros; rewrite count_flat_map; reflexivity).
  erewrite sum_list_ext
    by (intros; apply sum_list_ext; intros; apply count_route_pair).
  destruct p as [f d].
  destruct f, d as [k|]; cbn [fst field_eqb expected_count route_pair_count];
    try (erewrite sum_list_ext by (intros; apply sum_list_const0); apply sum_list_const0).
  rewrite count_pairs_sum, !route_opts_pick, sum_list_map.
  apply sum_list_ext; intros. rewrite sum_list_map. reflexivity.
Qed.

(* ------------------------------------------------------------------ RDNSS / DNSSL *)
Lemma list_eqb_length : forall a b : list N, list_eqb N.eqb a b = true -> length a = length b.
Proof.
  induction a; destruct b; cbn; intro H; try discriminate; [reflexivity|].
  apply andb_true_iff in H. f_equal. apply IHa. tauto.
Qed.
Lemma items_equal_spec : forall a b : list N,
  length a = length b -> items_equal a b = list_eqb N.eqb a b.
Proof.
  induction a; destruct b; cbn; intro H; try discriminate; [reflexivity|].
  destruct (N.eqb a n); cbn; [apply IHa; lia | reflexivity].
Qed.
Lemma list_eqb_refl : forall a : list N, list_eqb N.eqb a a = true.
Proof. induction a; cbn; [reflexivity|]. rewrite N.eqb_refl, IHa. reflexivity. Qed.

Lemma count_items_check : forall fitems p (a b : dur * list N),
  count p (if negb (Nat.eqb (length (snd a)) (length (snd b))) then [(fitems, None)]
           else push_if (negb (items_equal (snd a) (snd b))) (fitems, None)) =
  b2n (negb (list_eqb N.eqb (snd a) (snd b)) && problem_eqb p (fitems, None)).
Proof.
  intros. destruct (Nat.eqb_spec (length (snd a)) (length (snd b))) as [E|E]; cbn [negb].
  - rewrite count_push_if, items_equal_spec by assumption. reflexivity.
  - rewrite count_cons, count_nil.
    destruct (list_eqb N.eqb (snd a) (snd b)) eqn:L; [apply list_eqb_length in L; contradiction|].
    cbn [negb andb]. lia.
Qed.

Definition life_differs (ab : (dur * list N) * (dur * list N)) : bool :=
  differ_s (fst (fst ab)) (fst (snd ab)).
Definition items_differ (ab : (dur * list N) * (dur * list N)) : bool :=
  negb (list_eqb N.eqb (snd (fst ab)) (snd (snd ab))).

Lemma count_dns_loop : forall flife fitems A B p,
  count p (check_dns_loop flife fitems A B) =
  (b2n (problem_eqb p (flife, None)) * length (filter life_differs (combine A B)) +
   b2n (problem_eqb p (fitems, None)) * length (filter items_differ (combine A B)))%nat.
Proof.
  induction A as [|a A IH]; intros [|b B] p; cbn [check_dns_loop combine filter length];
    rewrite ?count_nil; try lia.
  rewrite count_app, IH. unfold check_dns_pair.
  rewrite count_app, count_push_if, count_items_check, wire_seconds_differ.
  unfold life_differs at 2, items_differ at 2. cbn [fst snd].
  destruct (differ_s (fst a) (fst b)), (list_eqb N.eqb (snd a) (snd b)),
    (problem_eqb p (flife, None)), (problem_eqb p (fitems, None)); cbn [negb andb b2n length]; lia.
Qed.

Lemma count_check_dns : forall fc fl fi A B p,
  count p (check_dns fc fl fi A B) =
  (b2n (problem_eqb p (fc, None)) * b2n (dns_count_differs A B) +
   b2n (problem_eqb p (fl, None)) *
     (if dns_comparable A B then length (filter life_differs (combine A B)) else 0) +
   b2n (problem_eqb p (fi, None)) *
     (if dns_comparable A B then length (filter items_differ (combine A B)) else 0))%nat.
Proof.
  intros. unfold check_dns, dns_count_differs, dns_comparable.
  destruct (is_nil A || is_nil B) eqn:E.
  - rewrite count_nil. destruct (is_nil A), (is_nil B); try discriminate; cbn; lia.
  - apply orb_false_iff in E. destruct E as [-> ->]. cbn [negb andb].
    destruct (Nat.eqb (length A) (length B)); cbn [negb].
    + rewrite count_dns_loop. cbn [b2n]. lia.
    + rewrite count_cons, count_nil. cbn [b2n]. lia.
Qed.

Definition rdnss_field (f : field) : bool :=
  match f with FRdnssCount | FRdnssLifetime | FRdnssServers => true | _ => false end.
Definition dnssl_field (f : field) : bool :=
  match f with FDnsslCount | FDnsslLifetime | FDnsslNames => true | _ => false end.

Lemma count_check_rdnss : forall a b p,
  count p (check_rdnss (ra_opts a) (ra_opts b)) =
  if rdnss_field (fst p) then expected_count a b p else 0%nat.
Proof.
  intros a b [f d]. unfold check_rdnss. rewrite count_check_dns, <- !rdnss_opts_pick.
  destruct f, d; cbn [fst rdnss_field expected_count problem_eqb field_eqb details_eqb snd andb b2n];
    unfold dns_index_count; fold life_differs; fold items_differ; lia.
Qed.
Lemma count_check_dnssl : forall a b p,
  count p (check_dnssl (ra_opts a) (ra_opts b)) =
  if dnssl_field (fst p) then expected_count a b p else 0%nat.
Proof.
  intros a b [f d]. unfold check_dnssl. rewrite count_check_dns, <- !dnssl_opts_pick.
  destruct f, d; cbn [fst dnssl_field expected_count problem_eqb field_eqb details_eqb snd andb b2n];
    unfold dns_index_count; fold life_differs; fold items_differ; lia.
Qed.

(* ------------------------------------------------------------------ the main theorem *)
Theorem verify_count : forall a b p, count p (verify a b) = expected_count a b p.
Proof.
  intros a b p. unfold verify.
  rewrite !count_app, count_check_ras, count_check_mtus, count_check_prefixes, count_check_routes,
    count_check_rdnss, count_check_dnssl, count_check_captive.
  destruct p as [f d]. destruct f; cbn [fst header_field field_eqb prefix_field rdnss_field dnssl_field]; try lia.
  destruct d; reflexivity.
Qed.

(* ------------------------------------------------------------------ consequences *)
Lemma verify_nil_iff : forall a b, verify a b = [] <-> (forall p, expected_count a b p = 0%nat).
Proof.
  intros a b. split.
  - intros H p. rewrite <- verify_count, H. reflexivity.
  - intro H. apply all_count_zero_nil. intro p. rewrite verify_count. apply H.
Qed.

Lemma verify_in_expected : forall a b p, In p (verify a b) -> (1 <= expected_count a b p)%nat.
Proof. intros a b p H. rewrite <- verify_count. apply count_pos_in. assumption. Qed.

Lemma b2n_zero : forall c, b2n c = 0%nat <-> c = false.
Proof. destruct c; cbn; split; intro; try reflexivity; discriminate. Qed.

Lemma count_pairs_zero : forall A B (g : A -> B -> bool) la lb,
  count_pairs g la lb = 0%nat <-> (forall x y, In x la -> In y lb -> g x y = false).
Proof.
  intros. rewrite count_pairs_sum, sum_list_zero. split.
  - intros H x y Hx Hy. specialize (H x Hx). rewrite sum_list_zero in H.
    apply b2n_zero. apply H. assumption.
  - intros H x Hx. apply sum_list_zero. intros y Hy. apply b2n_zero. auto.
Qed.

Lemma filter_combine_diag : forall A (g : A * A -> bool) (l : list A),
  (forall x, g (x, x) = false) -> filter g (combine l l) = [].
Proof. induction l; cbn; intro H; [reflexivity|]. rewrite H. auto. Qed.

Lemma dns_index_count_diag : forall f A, (forall x, f x x = false) -> dns_index_count f A A = 0%nat.
Proof.
  intros. unfold dns_index_count. destruct (dns_comparable A A); [|reflexivity].
  rewrite filter_combine_diag; [reflexivity|]. intro x. cbn. auto.
Qed.
Lemma dns_count_differs_diag : forall A, dns_count_differs A A = false.
Proof. intro A. unfold dns_count_differs. rewrite Nat.eqb_refl. cbn. apply andb_false_r. Qed.
Lemma differ_s_refl : forall x, differ_s x x = false.
Proof. intro. unfold differ_s. now rewrite Z.eqb_refl. Qed.
Lemma timers_conflict_refl : forall x, timers_conflict x x = false.
Proof. intro. unfold timers_conflict. rewrite Z.eqb_refl. cbn. apply andb_false_r. Qed.
Lemma firsts_differ_refl : forall l, firsts_differ l l = false.
Proof. intro. unfold firsts_differ. destruct (hd_error l); [now rewrite N.eqb_refl | reflexivity]. Qed.

Definition prefix_pair_ok (x y : (N * N) * (dur * dur)) : bool :=
  negb (key_eqb (fst x) (fst y)) ||
  (negb (differ_s (fst (snd x)) (fst (snd y))) && negb (differ_s (snd (snd x)) (snd (snd y)))).
Definition route_pair_ok (x y : (N * N) * (pref * dur)) : bool :=
  negb (key_eqb (fst x) (fst y)) || negb (pref_eqb (fst (snd x)) (fst (snd y))) ||
  negb (differ_s (snd (snd x)) (snd (snd y))).

Lemma self_consistent_spec : forall a,
  self_consistent a = true <->
  (forall x y, In x (prefix_opts a) -> In y (prefix_opts a) -> prefix_pair_ok x y = true) /\
  (forall x y, In x (route_opts a) -> In y (route_opts a) -> route_pair_ok x y = true).
Proof.
  intro a. unfold self_consistent. rewrite andb_true_iff, !forallb_forall.
  split; intros [H1 H2]; split; intros x.
  - intros y Hx Hy. specialize (H1 x Hx). rewrite forallb_forall in H1. exact (H1 y Hy).
  - intros y Hx Hy. specialize (H2 x Hx). rewrite forallb_forall in H2. exact (H2 y Hy).
  - intro Hx. apply forallb_forall. intros y Hy. exact (H1 x y Hx Hy).
  - intro Hx. apply forallb_forall. intros y Hy. exact (H2 x y Hx Hy).
Qed.

Lemma expected_self_zero : forall a p, self_consistent a = true -> expected_count a a p = 0%nat.
Proof.
  intros a [f d] H. apply self_consistent_spec in H. destruct H as [HP HR].
  destruct f, d as [k|]; cbn [expected_count]; try reflexivity;
    rewrite ?N.eqb_refl, ?xorb_nilpotent, ?timers_conflict_refl, ?firsts_differ_refl,
      ?dns_count_differs_diag; try reflexivity;
    try (apply dns_index_count_diag; intro x; rewrite ?differ_s_refl, ?list_eqb_refl; reflexivity).
  - apply count_pairs_zero. intros x y Hx Hy. specialize (HP x y Hx Hy). unfold prefix_pair_ok in HP.
    destruct (key_eqb (fst x) k) eqn:E1, (key_eqb (fst y) k) eqn:E2; cbn [andb]; try reflexivity.
    apply key_eqb_eq in E1, E2. rewrite E1, E2, key_eqb_refl in HP. cbn in HP.
    apply andb_true_iff in HP. destruct HP as [HP _]. now destruct (differ_s _ _).
  - apply count_pairs_zero. intros x y Hx Hy. specialize (HP x y Hx Hy). unfold prefix_pair_ok in HP.
    destruct (key_eqb (fst x) k) eqn:E1, (key_eqb (fst y) k) eqn:E2; cbn [andb]; try reflexivity.
    apply key_eqb_eq in E1, E2. rewrite E1, E2, key_eqb_refl in HP. cbn in HP.
    apply andb_true_iff in HP. destruct HP as [_ HP]. now destruct (differ_s _ _).
  - apply count_pairs_zero. intros x y Hx Hy. specialize (HR x y Hx Hy). unfold route_pair_ok in HR.
    destruct (key_eqb (fst x) k) eqn:E1, (key_eqb (fst y) k) eqn:E2; cbn [andb]; try reflexivity.
    apply key_eqb_eq in E1, E2. rewrite E1, E2, key_eqb_refl in HR. cbn in HR.
    destruct (pref_eqb _ _), (differ_s _ _); cbn in *; try reflexivity; discriminate.
Qed.

Lemma expected_self_zero_conv : forall a,
  (forall p, expected_count a a p = 0%nat) -> self_consistent a = true.
Proof.
  intros a H. apply self_consistent_spec. split; intros x y Hx Hy.
  - unfold prefix_pair_ok. destruct (key_eqb (fst x) (fst y)) eqn:E; [|reflexivity]. cbn [negb orb].
    pose proof (H (FPrefixPreferred, Some (fst x))) as H1.
    pose proof (H (FPrefixValid, Some (fst x))) as H2. cbn [expected_count] in H1, H2.
    rewrite count_pairs_zero in H1, H2. specialize (H1 x y Hx Hy). specialize (H2 x y Hx Hy).
    cbn beta in H1, H2. rewrite key_eqb_refl, (key_eqb_sym (fst y)), E in H1, H2. cbn [andb] in H1, H2.
    rewrite H1, H2. reflexivity.
  - unfold route_pair_ok. destruct (key_eqb (fst x) (fst y)) eqn:E; [|reflexivity]. cbn [negb orb].
    pose proof (H (FRouteLifetime, Some (fst x))) as H1. cbn [expected_count] in H1.
    rewrite count_pairs_zero in H1. specialize (H1 x y Hx Hy).
    cbn beta in H1. rewrite key_eqb_refl, (key_eqb_sym (fst y)), E in H1. cbn [andb] in H1.
    destruct (pref_eqb _ _), (differ_s _ _); cbn in *; try reflexivity; discriminate.
Qed.

Theorem verify_self_iff : forall a, verify a a = [] <-> self_consistent a = true.
Proof.
  intro a. rewrite verify_nil_iff. split.
  - apply expected_self_zero_conv.
  - intros H p. apply expected_self_zero. assumption.
Qed.

(* ------------------------------------------------------------------ the wire image *)
Lemma wire_seconds_idem : forall d, wire_seconds (wire_seconds d) = wire_seconds d.
Proof. intro. apply trunc_to_idem. exact sec_nz. Qed.
Lemma wire_millis_idem : forall d, wire_millis (wire_millis d) = wire_millis d.
Proof. intro. apply trunc_to_idem. exact ms_nz. Qed.

Lemma check_durations_wire_r : forall x y, check_durations x (wire_millis y) = check_durations x y.
Proof. intros. unfold check_durations. rewrite wire_millis_idem. reflexivity. Qed.
Lemma check_durations_wire_l : forall x y, check_durations (wire_millis x) y = check_durations x y.
Proof. intros. unfold check_durations. rewrite wire_millis_idem. reflexivity. Qed.

Definition wire_pi (x : pinfo) : pinfo :=
  mkPI (pi_pfx x) (pi_len x) (wire_seconds (pi_preferred x)) (wire_seconds (pi_valid x)).
Definition wire_ri (x : rinfo) : rinfo :=
  mkRI (ri_pfx x) (ri_len x) (ri_prf x) (wire_seconds (ri_lifetime x)).
Definition wire_dns (x : dur * list N) : dur * list N := (wire_seconds (fst x), snd x).

Lemma pick_prefixes_wire : forall os, pick_prefixes (map wire_opt os) = map wire_pi (pick_prefixes os).
Proof. induction os as [|o os IH]; [reflexivity|]. destruct o; cbn; rewrite IH; reflexivity. Qed.
Lemma pick_routes_wire : forall os, pick_routes (map wire_opt os) = map wire_ri (pick_routes os).
Proof. induction os as [|o os IH]; [reflexivity|]. destruct o; cbn; rewrite IH; reflexivity. Qed.
Lemma pick_rdnss_wire : forall os, pick_rdnss (map wire_opt os) = map wire_dns (pick_rdnss os).
Proof. induction os as [|o os IH]; [reflexivity|]. destruct o; cbn; rewrite IH; reflexivity. Qed.
Lemma pick_dnssl_wire : forall os, pick_dnssl (map wire_opt os) = map wire_dns (pick_dnssl os).
Proof. induction os as [|o os IH]; [reflexivity|]. destruct o; cbn; rewrite IH; reflexivity. Qed.
Lemma pick_first_mtu_wire : forall os, pick_first_mtu (map wire_opt os) = pick_first_mtu os.
Proof. induction os as [|o os IH]; [reflexivity|]. destruct o; cbn; auto. Qed.
Lemma pick_first_captive_wire : forall os, pick_first_captive (map wire_opt os) = pick_first_captive os.
Proof. induction os as [|o os IH]; [reflexivity|]. destruct o; cbn; auto. Qed.

Lemma is_nil_map : forall A B (h : A -> B) l, is_nil (map h l) = is_nil l.
Proof. destruct l; reflexivity. Qed.
Lemma flat_map_map : forall A B C (h : A -> B) (F : B -> list C) l,
  flat_map F (map h l) = flat_map (fun x => F (h x)) l.
Proof. induction l; cbn; congruence. Qed.
Lemma flat_map_ext' : forall A B (F G : A -> list B) l, (forall x, F x = G x) -> flat_map F l = flat_map G l.
Proof. induction l; cbn; intro H; [reflexivity|]. rewrite H, IHl by assumption. reflexivity. Qed.

Lemma check_prefix_pair_wire_r : forall x y, check_prefix_pair x (wire_pi y) = check_prefix_pair x y.
Proof. intros. unfold check_prefix_pair, wire_pi. cbn. rewrite !wire_seconds_idem. reflexivity. Qed.
Lemma check_prefix_pair_wire_l : forall x y, check_prefix_pair (wire_pi x) y = check_prefix_pair x y.
Proof. intros. unfold check_prefix_pair, wire_pi. cbn. rewrite !wire_seconds_idem. reflexivity. Qed.
Lemma check_route_pair_wire_r : forall x y, check_route_pair x (wire_ri y) = check_route_pair x y.
Proof. intros. unfold check_route_pair, wire_ri. cbn. rewrite !wire_seconds_idem. reflexivity. Qed.
Lemma check_route_pair_wire_l : forall x y, check_route_pair (wire_ri x) y = check_route_pair x y.
Proof. intros. unfold check_route_pair, wire_ri. cbn. rewrite !wire_seconds_idem. reflexivity. Qed.
Lemma check_dns_pair_wire_r : forall fl fi x y, check_dns_pair fl fi x (wire_dns y) = check_dns_pair fl fi x y.
Proof. intros. unfold check_dns_pair, wire_dns. cbn. rewrite !wire_seconds_idem. reflexivity. Qed.
Lemma check_dns_pair_wire_l : forall fl fi x y, check_dns_pair fl fi (wire_dns x) y = check_dns_pair fl fi x y.
Proof. intros. unfold check_dns_pair, wire_dns. cbn. rewrite !wire_seconds_idem. reflexivity. Qed.

Lemma check_dns_loop_wire_r : forall fl fi A B,
  check_dns_loop fl fi A (map wire_dns B) = check_dns_loop fl fi A B.
Proof.
  induction A as [|a A IH]; intros [|b B]; cbn [map check_dns_loop]; try reflexivity.
  rewrite check_dns_pair_wire_r, IH. reflexivity.
Qed.
Lemma check_dns_loop_wire_l : forall fl fi A B,
  check_dns_loop fl fi (map wire_dns A) B = check_dns_loop fl fi A B.
Proof.
  induction A as [|a A IH]; intros [|b B]; cbn [map check_dns_loop]; try reflexivity.
  rewrite check_dns_pair_wire_l, IH. reflexivity.
Qed.
Lemma check_dns_wire_r : forall fc fl fi A B,
  check_dns fc fl fi A (map wire_dns B) = check_dns fc fl fi A B.
Proof. intros. unfold check_dns. rewrite is_nil_map, map_length, check_dns_loop_wire_r. reflexivity. Qed.
Lemma check_dns_wire_l : forall fc fl fi A B,
  check_dns fc fl fi (map wire_dns A) B = check_dns fc fl fi A B.
Proof. intros. unfold check_dns. rewrite is_nil_map, map_length, check_dns_loop_wire_l. reflexivity. Qed.

(* what verifyRAs reports depends only on the wire image of the received RA ... *)
Theorem verify_wire_r : forall a b, verify a (wire_ra b) = verify a b.
Proof.
  intros a b. unfold verify. f_equal; [|f_equal; [|f_equal; [|f_equal; [|f_equal; [|f_equal]]]]].
  - unfold check_ras. cbn [wire_ra ra_hop ra_managed ra_other ra_reachable ra_retrans].
    rewrite !check_durations_wire_r. reflexivity.
  - unfold check_mtus. cbn [wire_ra ra_opts]. rewrite pick_first_mtu_wire. reflexivity.
  - unfold check_prefixes. cbn [wire_ra ra_opts]. rewrite pick_prefixes_wire, is_nil_map.
    destruct (is_nil (pick_prefixes (ra_opts a)) || is_nil (pick_prefixes (ra_opts b))); [reflexivity|].
    apply flat_map_ext'. intro x. rewrite flat_map_map. apply flat_map_ext'. intro y.
    apply check_prefix_pair_wire_r.
  - unfold check_routes. cbn [wire_ra ra_opts]. rewrite pick_routes_wire, is_nil_map.
    destruct (is_nil (pick_routes (ra_opts a)) || is_nil (pick_routes (ra_opts b))); [reflexivity|].
    apply flat_map_ext'. intro x. rewrite flat_map_map. apply flat_map_ext'. intro y.
    apply check_route_pair_wire_r.
  - unfold check_rdnss. cbn [wire_ra ra_opts]. rewrite pick_rdnss_wire. apply check_dns_wire_r.
  - unfold check_dnssl. cbn [wire_ra ra_opts]. rewrite pick_dnssl_wire. apply check_dns_wire_r.
  - unfold check_captive. cbn [wire_ra ra_opts]. rewrite pick_first_captive_wire. reflexivity.
Qed.

(* ... and of the own RA (the labels are those of the own options, which the wire keeps) *)
Lemma check_prefix_pair_details_l : forall x, (pi_pfx (wire_pi x), pi_len (wire_pi x)) = (pi_pfx x, pi_len x).
Proof. reflexivity. Qed.

Theorem verify_wire_l : forall a b, verify (wire_ra a) b = verify a b.
Proof.
  intros a b. unfold verify. f_equal; [|f_equal; [|f_equal; [|f_equal; [|f_equal; [|f_equal]]]]].
  - unfold check_ras. cbn [wire_ra ra_hop ra_managed ra_other ra_reachable ra_retrans].
    rewrite !check_durations_wire_l. reflexivity.
  - unfold check_mtus. cbn [wire_ra ra_opts]. rewrite pick_first_mtu_wire. reflexivity.
  - unfold check_prefixes. cbn [wire_ra ra_opts]. rewrite pick_prefixes_wire, is_nil_map.
    destruct (is_nil (pick_prefixes (ra_opts a)) || is_nil (pick_prefixes (ra_opts b))); [reflexivity|].
    rewrite flat_map_map. apply flat_map_ext'. intro x. apply flat_map_ext'. intro y.
    apply check_prefix_pair_wire_l.
  - unfold check_routes. cbn [wire_ra ra_opts]. rewrite pick_routes_wire, is_nil_map.
    destruct (is_nil (pick_routes (ra_opts a)) || is_nil (pick_routes (ra_opts b))); [reflexivity|].
    rewrite flat_map_map. apply flat_map_ext'. intro x. apply flat_map_ext'. intro y.
    apply check_route_pair_wire_l.
  - unfold check_rdnss. cbn [wire_ra ra_opts]. rewrite pick_rdnss_wire. apply check_dns_wire_l.
  - unfold check_dnssl. cbn [wire_ra ra_opts]. rewrite pick_dnssl_wire. apply check_dns_wire_l.
  - unfold check_captive. cbn [wire_ra ra_opts]. rewrite pick_first_captive_wire. reflexivity.
Qed.

Theorem verify_self_wire_iff : forall a, verify a (wire_ra a) = [] <-> self_consistent a = true.
Proof. intro a. rewrite verify_wire_r. apply verify_self_iff. Qed.

(* an RA whose durations are whole wire units is its own wire image, as far as durations go *)
Lemma trunc_to_whole : forall m d, m <> 0 -> Z.rem d m = 0 -> trunc_to m d = d.
Proof. intros. unfold trunc_to. lia. Qed.

(* ------------------------------------------------------------------ Advertiser.handle *)
Lemma handle_counted : forall a b, h_counted (handle_ra (Ok a) b) = verify a b.
Proof. intros. unfold handle_ra. destruct (verify a b); reflexivity. Qed.
Lemma handle_hook : forall a b,
  h_hook (handle_ra (Ok a) b) = (if is_nil (verify a b) then 0 else 1)%N.
Proof. intros. unfold handle_ra. destruct (verify a b); reflexivity. Qed.
Lemma handle_hook_iff : forall a b, h_hook (handle_ra (Ok a) b) = 1%N <-> verify a b <> [].
Proof.
  intros. rewrite handle_hook. destruct (verify a b); cbn; split; intro H; try discriminate; try reflexivity.
  contradiction.
Qed.
Lemma handle_hook_le1 : forall o b, (h_hook (handle_ra o b) <= 1)%N.
Proof. intros [a|c] b; cbn; [|lia]. destruct (is_nil (verify a b)); cbn; lia. Qed.
Lemma handle_logged : forall a b,
  h_logged (handle_ra (Ok a) b) =
  (if is_nil (verify a b) then 0 else N.of_nat (S (length (verify a b))))%N.
Proof. intros. unfold handle_ra. destruct (verify a b); reflexivity. Qed.
Lemma handle_never_fails : forall a b, h_failed (handle_ra (Ok a) b) = false.
Proof. intros. unfold handle_ra. destruct (is_nil (verify a b)); reflexivity. Qed.
Lemma handle_build_error : forall c b, handle_ra (Err c) b = mkHandleOut [] 0 0 true.
Proof. reflexivity. Qed.
