(* The C15 specification checker (Corr/C15.v [holds]) accepts the model's output on EVERY input. *)
From CR Require Import Model.Wildcard.
From CR Require Import Corr.C15.
From CR Require Import Proofs.Lifetimes.
From CR Require Import Proofs.WildcardSort.
From CR Require Import Proofs.Wildcard.
From Coq Require Import Lia ZifyBool Sorted.
Local Open Scope N_scope.

Lemma pow2_nz s : 2 ^ s <> 0.
Proof. apply N.pow_nonzero. discriminate. Qed.

Lemma mask_eqb_top x y b : (mask x b =? mask y b) = (spec_top x b =? spec_top y b).
Proof.
  unfold mask, spec_top. cbv zeta. rewrite !N.shiftl_mul_pow2, !N.shiftr_div_pow2.
  apply eq_true_iff_eq. rewrite !N.eqb_eq. split; [|intros ->; reflexivity].
  apply N.mul_cancel_r, pow2_nz.
Qed.

Lemma spec_inside_eq q r : spec_inside q (rt_addr r) (rt_bits r) = route_covers q r.
Proof.
  unfold spec_inside, route_covers, contains. rewrite mask_eqb_top.
  destruct (rt_v4 q), (rt_bits q <? rt_bits r); reflexivity.
Qed.

Lemma existsb_ext' {A} (f g : A -> bool) l : (forall x, f x = g x) -> existsb f l = existsb g l.
Proof. intros H. induction l as [|x tl IH]; cbn [existsb]; [reflexivity | rewrite H, IH; reflexivity]. Qed.

Lemma spec_wanted_eq l r : spec_wanted l r = route_ok l r.
Proof.
  unfold spec_wanted, route_ok, route_skip, route_covered.
  rewrite (existsb_ext' (fun q => spec_inside q (rt_addr r) (rt_bits r)) (fun q => route_covers q r))
    by (intros q; apply spec_inside_eq).
  destruct (rt_v4 r), (rt_bits r =? 128); reflexivity.
Qed.

Lemma spec_overlap_eq x y : spec_overlap x y = overlaps (fst x) (snd x) (fst y) (snd y).
Proof. unfold spec_overlap, overlaps. cbv zeta. symmetry. apply mask_eqb_top. Qed.

Lemma spec_canonical_imp l : spec_canonical l = true -> canonicalb l = true.
Proof.
  unfold spec_canonical, canonicalb. rewrite !forallb_forall. intros H r Hr. specialize (H r Hr).
  destruct (rt_v4 r); [reflexivity|]. cbn [orb] in *. apply N.eqb_eq in H. apply N.eqb_eq.
  unfold mask. cbv zeta. rewrite N.shiftl_mul_pow2, N.shiftr_div_pow2.
  rewrite N.mul_comm. symmetry. apply N.div_exact; [apply pow2_nz | exact H].
Qed.

Lemma ascending_sorted l : StronglySorted (fun x y : N * N => fst x < fst y) l -> ascending l = true.
Proof.
  induction 1 as [|x tl Hs IH Hall]; [reflexivity|].
  destruct tl as [|y tl']; [reflexivity|].
  change (ascending (x :: y :: tl')) with ((fst x <? fst y) && ascending (y :: tl')).
  rewrite IH, andb_true_r. apply N.ltb_lt. inversion Hall; assumption.
Qed.

Lemma pairwise_intro {A} (f : A -> A -> bool) l :
  NoDup l -> (forall x y, In x l -> In y l -> x <> y -> f x y = true) -> pairwise f l = true.
Proof.
  induction 1 as [|x tl Hnotin Hnd IH]; intros H; [reflexivity|]. cbn [pairwise].
  apply andb_true_iff. split.
  - apply forallb_forall. intros y Hy. apply H; [left; reflexivity | right; exact Hy|].
    intros ->. exact (Hnotin Hy).
  - apply IH. intros a b Ha Hb. apply H; right; assumption.
Qed.

Theorem C15_checker_accepts_model :
  forall prf lifetime deprecated epoch now routes,
  holds (mkCase prf lifetime deprecated epoch now routes
           (route_Apply true 0 0 prf lifetime deprecated epoch now routes)) = true.
Proof.
  intros prf lt dep epoch now routes. unfold holds. cbn [c_routes c_obs].
  destruct routes as [l|]; [|reflexivity].
  rewrite route_Apply_auto. cbn [c_prf].
  rewrite map_map. cbn [opt_route].
  assert (Hid : map (fun x : N * N => (fst x, snd x)) (route_list l) = route_list l).
  { erewrite map_ext; [apply map_id|]. intros [a b]; reflexivity. }
  rewrite Hid. clear Hid.
  rewrite !andb_true_iff. repeat split.
  - apply forallb_forall. intros o Ho. apply in_map_iff in Ho. destruct Ho as [x [<- _]].
    unfold spec_lifetime, route_lifetime. cbn [c_deprecated c_epoch c_now c_lifetime].
    destruct prf, dep; cbn [pref_eqb andb]; rewrite ?remaining_spec; apply Z.eqb_refl.
  - apply ascending_sorted, route_list_sorted.
  - apply forallb_forall. intros x Hx. apply memNN_In.
    apply route_list_in in Hx. destruct Hx as [r [Hin [Hok <-]]].
    apply in_map_iff. exists r. split; [reflexivity|].
    apply filter_In. split; [exact Hin | rewrite spec_wanted_eq; exact Hok].
  - apply forallb_forall. intros x Hx. apply memNN_In.
    apply in_map_iff in Hx. destruct Hx as [r [<- Hr]]. apply filter_In in Hr. destruct Hr as [Hin Hok].
    apply route_list_in. exists r. split; [exact Hin|]. split; [rewrite <- spec_wanted_eq; exact Hok | reflexivity].
  - apply pairwise_intro; [apply route_list_nodup|]. intros x y _ _ Hne.
    apply negb_true_iff, not_true_false. intros E. apply pair_eqb_eq in E. exact (Hne E).
  - destruct (spec_canonical l) eqn:Ec; [|reflexivity].
    apply pairwise_intro; [apply route_list_nodup|]. intros x y Hx Hy Hne.
    rewrite spec_overlap_eq. apply negb_true_iff.
    apply route_list_no_overlap with (l := l); try assumption. apply spec_canonical_imp, Ec.
Qed.
