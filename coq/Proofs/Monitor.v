(* C18 -- lemmas about Model/Monitor.v: the operations of one Monitor.handle call, and the series
   state after any history of messages. *)
From Coq Require Import Lia ZifyBool.
From CR Require Import Model.Monitor.
Local Open Scope Z_scope.

(* ------------------------------------------------------------------ equalities *)
Lemma metric_eqb_eq : forall a b, metric_eqb a b = true <-> a = b.
Proof. destruct a, b; cbn; split; intro H; try reflexivity; discriminate. Qed.
Lemma host_eqb_eq : forall a b, host_eqb a b = true <-> a = b.
Proof.
  intros [a1 a2] [b1 b2]. unfold host_eqb. cbn. rewrite andb_true_iff, !N.eqb_eq.
  split; [intros [-> ->]; reflexivity | intro H; inversion H; auto].
Qed.
Lemma plabel_eqb_eq : forall a b, plabel_eqb a b = true <-> a = b.
Proof.
  intros [x l|] [x' l'|]; cbn; try (split; [discriminate | discriminate]); try tauto.
  rewrite andb_true_iff, !N.eqb_eq. split; [intros [-> ->]; reflexivity | intro H; inversion H; auto].
Qed.
Lemma option_eqb_eq : forall A (eqb : A -> A -> bool),
  (forall x y, eqb x y = true <-> x = y) -> forall a b, option_eqb eqb a b = true <-> a = b.
Proof.
  intros A eqb H [a|] [b|]; cbn; try (split; [discriminate | discriminate]); try tauto.
  rewrite H. split; [intros ->; reflexivity | intro E; inversion E; reflexivity].
Qed.
Lemma labels_eqb_eq : forall a b, labels_eqb a b = true <-> a = b.
Proof.
  intros [i h p m] [i' h' p' m']. unfold labels_eqb. cbn.
  rewrite !andb_true_iff, N.eqb_eq, host_eqb_eq, (option_eqb_eq _ _ plabel_eqb_eq), (option_eqb_eq _ _ N.eqb_eq).
  split; [intros [[[-> ->] ->] ->]; reflexivity | intro H; inversion H; auto].
Qed.
Lemma key_eqb_eq : forall a b, key_eqb a b = true <-> a = b.
Proof.
  intros [m l] [m' l']. unfold key_eqb. cbn. rewrite andb_true_iff, metric_eqb_eq, labels_eqb_eq.
  split; [intros [-> ->]; reflexivity | intro H; inversion H; auto].
Qed.
Lemma key_eqb_refl : forall a, key_eqb a a = true.
Proof. intro. apply key_eqb_eq. reflexivity. Qed.
Lemma key_eqb_neq : forall a b, key_eqb a b = false <-> a <> b.
Proof.
  intros. split.
  - intros H E. subst. rewrite key_eqb_refl in H. discriminate.
  - intro H. destruct (key_eqb a b) eqn:E; [apply key_eqb_eq in E; contradiction | reflexivity].
Qed.

(* ------------------------------------------------------------------ one call of Monitor.handle *)
Definition is_add (op : metric_op) : bool := match op with MAdd _ _ _ => true | MSet _ _ _ => false end.
Definition op_metric (op : metric_op) : metric := match op with MAdd m _ _ | MSet m _ _ => m end.
Definition op_labels (op : metric_op) : labels := match op with MAdd _ l _ | MSet _ l _ => l end.
Definition op_key (op : metric_op) : key := (op_metric op, op_labels op).

(* the gauges of one prefix information option, declaratively *)
Definition prefix_gauges (iface : N) (h : host) (now : Z) (o : opt) : list metric_op :=
  match o with
  | OPrefix len onlink autonomous valid preferred pfx =>
      let lb := mkLabels iface h (Some (cidr pfx len)) None in
      [ MSet MPrefixAutonomous lb (if autonomous then 1 else 0);
        MSet MPrefixOnLink lb (if onlink then 1 else 0);
        MSet MPrefixPreferred lb ((now + preferred) / 1000000000);
        MSet MPrefixValid lb ((now + valid) / 1000000000) ]
  | _ => []
  end.

Lemma prefix_ops_gauges : forall iface h now os,
  flat_map (prefix_ops iface h now) (pick_prefix_infos os) = flat_map (prefix_gauges iface h now) os.
Proof.
  induction os as [|o os IH]; [reflexivity|].
  destruct o; cbn [pick_prefix_infos flat_map prefix_gauges app]; rewrite ?IH; reflexivity.
Qed.

Lemma handle_other : forall iface h now t,
  monitor_handle iface h now (MsgOther t) = [MAdd MReceived (mkLabels iface h None (Some t)) 1].
Proof. reflexivity. Qed.

Lemma handle_ra : forall iface h now r,
  monitor_handle iface h now (MsgRA r) =
  MAdd MReceived (mkLabels iface h None (Some 134%N)) 1 ::
  MSet MFlagManaged (mkLabels iface h None None) (if ra_managed r then 1 else 0) ::
  MSet MFlagOther (mkLabels iface h None None) (if ra_other r then 1 else 0) ::
  (if ra_lifetime r =? 0 then []
   else [MSet MDefaultRoute (mkLabels iface h None None) ((now + ra_lifetime r) / 1000000000)]) ++
  flat_map (prefix_gauges iface h now) (ra_opts r).
Proof. intros. unfold monitor_handle. rewrite prefix_ops_gauges. reflexivity. Qed.

Lemma prefix_gauges_sets : forall iface h now os op,
  In op (flat_map (prefix_gauges iface h now) os) -> is_add op = false /\ op_metric op <> MReceived.
Proof.
  intros iface h now os op H. apply in_flat_map in H. destruct H as (o & _ & H).
  destruct o; cbn in H; try contradiction.
  repeat (destruct H as [<-|H]; [split; [reflexivity | discriminate]|]). contradiction.
Qed.

(* exactly one Add, of 1, on received_total{interface, host, message type} *)
Lemma handle_adds : forall iface h now m,
  filter is_add (monitor_handle iface h now m) =
  [MAdd MReceived (mkLabels iface h None (Some (msg_type m))) 1].
Proof.
  intros. destruct m as [r|t]; [|reflexivity]. rewrite handle_ra. cbn [filter is_add msg_type]. f_equal.
  rewrite filter_app.
  replace (filter is_add (flat_map (prefix_gauges iface h now) (ra_opts r))) with (@nil metric_op).
  - destruct (ra_lifetime r =? 0); reflexivity.
  - symmetry. induction (ra_opts r) as [|o os IH]; [reflexivity|]. cbn [flat_map]. rewrite filter_app, <- IH.
    destruct o; reflexivity.
Qed.

(* the counter is touched by the Add only *)
Lemma handle_received_ops : forall iface h now m,
  filter (fun op => metric_eqb (op_metric op) MReceived) (monitor_handle iface h now m) =
  [MAdd MReceived (mkLabels iface h None (Some (msg_type m))) 1].
Proof.
  intros. destruct m as [r|t]; [|reflexivity]. rewrite handle_ra. cbn [filter op_metric metric_eqb msg_type]. f_equal.
  rewrite filter_app.
  replace (filter (fun op => metric_eqb (op_metric op) MReceived) (flat_map (prefix_gauges iface h now) (ra_opts r)))
    with (@nil metric_op).
  - destruct (ra_lifetime r =? 0); reflexivity.
  - symmetry. induction (ra_opts r) as [|o os IH]; [reflexivity|]. cbn [flat_map]. rewrite filter_app, <- IH.
    destruct o; reflexivity.
Qed.

(* options other than prefix information (unknown ones included) contribute nothing *)
Definition is_prefix_opt (o : opt) : bool := match o with OPrefix _ _ _ _ _ _ => true | _ => false end.
Lemma handle_ignores_other_options : forall iface h now r,
  monitor_handle iface h now (MsgRA r) =
  monitor_handle iface h now
    (MsgRA (mkRA (ra_hop r) (ra_managed r) (ra_other r) (ra_pref r) (ra_lifetime r) (ra_reachable r)
                 (ra_retrans r) (filter is_prefix_opt (ra_opts r)))).
Proof.
  intros. rewrite !handle_ra. cbn [ra_managed ra_other ra_lifetime ra_opts]. do 4 f_equal.
  induction (ra_opts r) as [|o os IH]; [reflexivity|].
  destruct o; cbn [filter is_prefix_opt flat_map prefix_gauges app]; rewrite ?IH; reflexivity.
Qed.

(* every operation carries the interface and the sender it was called with *)
Lemma handle_labels : forall iface h now m op,
  In op (monitor_handle iface h now m) -> l_iface (op_labels op) = iface /\ l_host (op_labels op) = h.
Proof.
  intros iface h now m op H. destruct m as [r|t].
  - rewrite handle_ra in H. destruct H as [<-|[<-|[<-|H]]]; try (split; reflexivity).
    apply in_app_or in H. destruct H as [H|H].
    + destruct (ra_lifetime r =? 0); [contradiction|]. destruct H as [<-|[]]. split; reflexivity.
    + apply in_flat_map in H. destruct H as (o & _ & H). destruct o; cbn in H; try contradiction.
      repeat (destruct H as [<-|H]; [split; reflexivity|]). contradiction.
  - destruct H as [<-|[]]. split; reflexivity.
Qed.

(* the listener strips the zone: whatever the socket reports, the labels carry no zone *)
Lemma receive_no_zone : forall iface a z now m op,
  In op (monitor_receive iface (a, z) now m) -> l_host (op_labels op) = (a, 0%N).
Proof. intros. unfold monitor_receive in H. apply handle_labels in H. tauto. Qed.
Lemma receive_zone_irrelevant : forall iface a z z' now m,
  monitor_receive iface (a, z) now m = monitor_receive iface (a, z') now m.
Proof. reflexivity. Qed.

(* floor: the gauge is the UNIX second containing now + d, also before 1970 *)
Lemma unix_of_floor : forall now d,
  unix_of now d = (now + d) / 1000000000 /\
  1000000000 * unix_of now d <= now + d < 1000000000 * (unix_of now d + 1).
Proof.
  intros. unfold unix_of, sec. split; [reflexivity|].
  pose proof (Z.div_mod (now + d) 1000000000 ltac:(discriminate)).
  pose proof (Z.mod_pos_bound (now + d) 1000000000 ltac:(reflexivity)). lia.
Qed.

(* ------------------------------------------------------------------ series state *)
Lemma lookup_store : forall s k v k',
  lookup (store s k v) k' = if key_eqb k k' then Some v else lookup s k'.
Proof.
  induction s as [|[k1 v1] s IH]; intros k v k'; cbn [store lookup].
  - destruct (key_eqb k k'); reflexivity.
  - destruct (key_eqb k1 k) eqn:E; cbn [lookup].
    + apply key_eqb_eq in E. subst k1. destruct (key_eqb k k'); reflexivity.
    + rewrite IH. destruct (key_eqb k1 k') eqn:E'; [|reflexivity].
      apply key_eqb_eq in E'. subst k'. apply key_eqb_neq in E.
      destruct (key_eqb k k1) eqn:E2; [apply key_eqb_eq in E2; subst; contradiction | reflexivity].
Qed.

(* the effect of one operation on the sample with key k: Set overwrites, Add accumulates *)
Definition op_effect (k : key) (o : option Z) (op : metric_op) : option Z :=
  match op with
  | MSet m l v => if key_eqb (m, l) k then Some v else o
  | MAdd m l v => if key_eqb (m, l) k then Some (value_or_zero o + v) else o
  end.

Lemma lookup_apply_op : forall s op k, lookup (apply_op s op) k = op_effect k (lookup s k) op.
Proof.
  intros s [m l v|m l v] k; cbn [apply_op op_effect]; rewrite lookup_store; [|reflexivity].
  destruct (key_eqb (m, l) k) eqn:E; [|reflexivity]. apply key_eqb_eq in E. subst k. reflexivity.
Qed.

Lemma lookup_apply_ops : forall ops s k,
  lookup (apply_ops s ops) k = fold_left (op_effect k) ops (lookup s k).
Proof.
  unfold apply_ops. induction ops as [|op ops IH]; intros s k; cbn [fold_left]; [reflexivity|].
  rewrite IH, lookup_apply_op. reflexivity.
Qed.

(* the series after a history = the fold of all operations, in order *)
Definition rx_ops (iface : N) (rx : reception) : list metric_op :=
  monitor_receive iface (rx_host rx) (rx_now rx) (rx_msg rx).

Lemma monitor_run_fold : forall iface hist s k,
  lookup (monitor_run iface hist s) k =
  fold_left (fun o rx => fold_left (op_effect k) (rx_ops iface rx) o) hist (lookup s k).
Proof.
  unfold monitor_run. induction hist as [|rx hist IH]; intros s k; cbn [fold_left]; [reflexivity|].
  rewrite IH, lookup_apply_ops. reflexivity.
Qed.

Lemma monitor_run_app : forall iface h1 h2 s,
  monitor_run iface (h1 ++ h2) s = monitor_run iface h2 (monitor_run iface h1 s).
Proof. intros. unfold monitor_run. apply fold_left_app. Qed.

(* ---- a key no operation of the list touches keeps its value *)
Lemma fold_untouched : forall k ops o,
  (forall op, In op ops -> key_eqb (op_key op) k = false) -> fold_left (op_effect k) ops o = o.
Proof.
  induction ops as [|op ops IH]; intros o H; cbn [fold_left]; [reflexivity|].
  rewrite IH by (intros; apply H; right; assumption).
  specialize (H op (or_introl eq_refl)). destruct op; unfold op_key in H; cbn [op_metric op_labels] in H; cbn [op_effect]; rewrite H; reflexivity.
Qed.

(* ---- counters: a key of received_total is touched by the first operation only *)
Lemma handle_fold_counter : forall iface h now m lb o,
  fold_left (op_effect (MReceived, lb)) (monitor_handle iface h now m) o =
  if labels_eqb (mkLabels iface h None (Some (msg_type m))) lb then Some (value_or_zero o + 1) else o.
Proof.
  intros. assert (Htail : forall ops o', (forall op, In op ops -> op_metric op <> MReceived) ->
                          fold_left (op_effect (MReceived, lb)) ops o' = o').
  { intros ops o' H. apply fold_untouched. intros op Hop. specialize (H op Hop).
    unfold key_eqb, op_key. cbn [fst]. destruct (metric_eqb (op_metric op) MReceived) eqn:E; [|reflexivity].
    apply metric_eqb_eq in E. contradiction. }
  destruct m as [r|t].
  - rewrite handle_ra. cbn [fold_left msg_type]. rewrite Htail.
    + cbn [op_effect key_eqb fst snd metric_eqb andb]. reflexivity.
    + intros op H. apply in_app_or in H. destruct H as [H|H].
      * destruct (ra_lifetime r =? 0); [contradiction|]. destruct H as [<-|[]]. discriminate.
      * apply prefix_gauges_sets in H. tauto.
  - cbn [monitor_handle fold_left op_effect key_eqb fst snd metric_eqb andb msg_type]. reflexivity.
Qed.

(* number of messages of the history from address [a] (any zone) and of type [t] *)
Definition matches (a t : N) (rx : reception) : bool :=
  N.eqb (fst (rx_host rx)) a && N.eqb (msg_type (rx_msg rx)) t.
Definition received (a t : N) (hist : list reception) : nat := length (filter (matches a t) hist).

Lemma counter_fold : forall iface a t hist o,
  fold_left (fun o rx => fold_left (op_effect (MReceived, mkLabels iface (a, 0%N) None (Some t))) (rx_ops iface rx) o) hist o =
  if Nat.eqb (received a t hist) 0 then o else Some (value_or_zero o + Z.of_nat (received a t hist)).
Proof.
  intros iface a t. unfold received. induction hist as [|rx hist IH]; intro o; cbn [fold_left filter]; [reflexivity|].
  rewrite IH. unfold rx_ops, monitor_receive. rewrite handle_fold_counter.
  assert (E : labels_eqb (mkLabels iface (strip_zone (rx_host rx)) None (Some (msg_type (rx_msg rx))))
                         (mkLabels iface (a, 0%N) None (Some t)) = matches a t rx).
  { unfold labels_eqb, matches, strip_zone, host_eqb. cbn. rewrite N.eqb_refl. cbn.
    destruct (fst (rx_host rx) =? a)%N, (msg_type (rx_msg rx) =? t)%N; reflexivity. }
  rewrite E. destruct (matches a t rx); cbn [length].
  - destruct (length (filter (matches a t) hist)) eqn:L; cbn [Nat.eqb value_or_zero]; f_equal; lia.
  - reflexivity.
Qed.

(* the counter after any history (from an empty registry): the number of matching messages *)
Theorem history_counter : forall iface a t hist,
  lookup (monitor_run iface hist []) (MReceived, mkLabels iface (a, 0%N) None (Some t)) =
  if Nat.eqb (received a t hist) 0 then None else Some (Z.of_nat (received a t hist)).
Proof. intros. rewrite monitor_run_fold, counter_fold. cbn [lookup value_or_zero]. reflexivity. Qed.

(* ---- gauges: the value written by the last operation that set the key *)
Definition last_write (k : key) (ops : list metric_op) : option Z :=
  fold_left (fun acc op => match op with
                           | MSet m l v => if key_eqb (m, l) k then Some v else acc
                           | MAdd _ _ _ => acc
                           end) ops None.

Lemma fold_gauge_gen : forall k ops o acc,
  (forall op, In op ops -> is_add op = true -> key_eqb (op_key op) k = false) ->
  fold_left (op_effect k) ops (match acc with Some v => Some v | None => o end) =
  match fold_left (fun acc op => match op with
                                 | MSet m l v => if key_eqb (m, l) k then Some v else acc
                                 | MAdd _ _ _ => acc
                                 end) ops acc with
  | Some v => Some v
  | None => o
  end.
Proof.
  induction ops as [|op ops IH]; intros o acc H; cbn [fold_left]; [reflexivity|].
  assert (H' : forall op', In op' ops -> is_add op' = true -> key_eqb (op_key op') k = false)
    by (intros; apply H; [right|]; assumption).
  destruct op as [m l v|m l v]; cbn [op_effect].
  - specialize (H _ (or_introl eq_refl) eq_refl). unfold op_key in H. cbn in H. rewrite H. apply IH. assumption.
  - destruct (key_eqb (m, l) k).
    + apply (IH o (Some v)). assumption.
    + apply IH. assumption.
Qed.

Lemma fold_gauge : forall k ops o,
  (forall op, In op ops -> is_add op = true -> key_eqb (op_key op) k = false) ->
  fold_left (op_effect k) ops o = match last_write k ops with Some v => Some v | None => o end.
Proof. intros. apply (fold_gauge_gen k ops o None). assumption. Qed.

(* all operations of a history, in order *)
Definition history_ops (iface : N) (hist : list reception) : list metric_op := flat_map (rx_ops iface) hist.

Lemma monitor_run_ops : forall iface hist s k,
  lookup (monitor_run iface hist s) k = fold_left (op_effect k) (history_ops iface hist) (lookup s k).
Proof.
  intros. rewrite monitor_run_fold. unfold history_ops. generalize (lookup s k) as o.
  induction hist as [|rx hist IH]; intro o; cbn [fold_left flat_map]; [reflexivity|].
  rewrite fold_left_app. apply IH.
Qed.

(* gauges after any history: the last value written, nothing if never written *)
Theorem history_gauge : forall iface hist k,
  fst k <> MReceived ->
  lookup (monitor_run iface hist []) k = last_write k (history_ops iface hist).
Proof.
  intros iface hist k Hk. rewrite monitor_run_ops, fold_gauge.
  - cbn [lookup]. destruct (last_write k (history_ops iface hist)); reflexivity.
  - intros op Hin Hadd. unfold history_ops in Hin. apply in_flat_map in Hin. destruct Hin as (rx & _ & Hin).
    unfold rx_ops, monitor_receive in Hin.
    assert (Hf : In op (filter is_add (monitor_handle iface (strip_zone (rx_host rx)) (rx_now rx) (rx_msg rx))))
      by (apply filter_In; split; assumption).
    rewrite handle_adds in Hf. destruct Hf as [<-|[]].
    unfold key_eqb, op_key. cbn [fst op_metric]. destruct k as [mk lk]. cbn [fst] in *.
    destruct mk; try reflexivity. contradiction.
Qed.

(* ---- gauges, message by message: the last message that wrote the gauge decides *)
Definition written_by (iface : N) (k : key) (rx : reception) : option Z := last_write k (rx_ops iface rx).

Theorem history_gauge_last : forall iface hist k,
  fst k <> MReceived ->
  lookup (monitor_run iface hist []) k =
  fold_left (fun acc rx => match written_by iface k rx with Some v => Some v | None => acc end) hist None.
Proof.
  intros iface hist k Hk. rewrite monitor_run_fold. cbn [lookup]. generalize (@None Z) as o.
  induction hist as [|rx hist IH]; intro o; cbn [fold_left]; [reflexivity|].
  rewrite IH. f_equal. unfold written_by. apply fold_gauge.
  intros op Hin Hadd. unfold rx_ops, monitor_receive in Hin.
  assert (Hf : In op (filter is_add (monitor_handle iface (strip_zone (rx_host rx)) (rx_now rx) (rx_msg rx))))
    by (apply filter_In; split; assumption).
  rewrite handle_adds in Hf. destruct Hf as [<-|[]].
  unfold key_eqb, op_key. cbn [fst op_metric]. destruct k as [mk lk]. cbn [fst] in *.
  destruct mk; try reflexivity. contradiction.
Qed.

Definition lw_step (k : key) (acc : option Z) (op : metric_op) : option Z :=
  match op with
  | MSet m l v => if key_eqb (m, l) k then Some v else acc
  | MAdd _ _ _ => acc
  end.
Lemma last_write_unfold : forall k ops, last_write k ops = fold_left (lw_step k) ops None.
Proof. reflexivity. Qed.

Lemma lw_other_metric : forall k ops acc,
  (forall op, In op ops -> op_metric op <> fst k) -> fold_left (lw_step k) ops acc = acc.
Proof.
  induction ops as [|op ops IH]; intros acc H; cbn [fold_left]; [reflexivity|].
  rewrite IH by (intros; apply H; right; assumption).
  specialize (H op (or_introl eq_refl)). destruct op as [m l v|m l v]; cbn [lw_step op_metric] in *; [reflexivity|].
  unfold key_eqb. cbn [fst]. destruct (metric_eqb m (fst k)) eqn:E; [apply metric_eqb_eq in E; contradiction | reflexivity].
Qed.

Lemma prefix_gauges_metrics : forall iface h now os op,
  In op (flat_map (prefix_gauges iface h now) os) ->
  op_metric op = MPrefixAutonomous \/ op_metric op = MPrefixOnLink \/
  op_metric op = MPrefixPreferred \/ op_metric op = MPrefixValid.
Proof.
  intros iface h now os op H. apply in_flat_map in H. destruct H as (o & _ & H).
  destruct o; cbn in H; try contradiction.
  destruct H as [<-|[<-|[<-|[<-|[]]]]]; cbn; tauto.
Qed.

Definition from (a : N) (rx : reception) : bool := N.eqb (fst (rx_host rx)) a.

(* flag gauges: written by every RA of that router *)
Lemma written_flag_managed : forall iface a rx,
  written_by iface (MFlagManaged, mkLabels iface (a, 0%N) None None) rx =
  match rx_msg rx with
  | MsgRA r => if from a rx then Some (if ra_managed r then 1 else 0) else None
  | MsgOther _ => None
  end.
Proof.
  intros. unfold written_by, rx_ops, monitor_receive, from. rewrite last_write_unfold.
  destruct (rx_msg rx) as [r|t]; [|reflexivity]. rewrite handle_ra. cbn [fold_left lw_step].
  rewrite lw_other_metric.
  - unfold key_eqb, labels_eqb, strip_zone, host_eqb. cbn. rewrite N.eqb_refl. cbn.
    destruct (fst (rx_host rx) =? a)%N; reflexivity.
  - intros op H. apply in_app_or in H. destruct H as [H|H].
    + destruct (ra_lifetime r =? 0); [contradiction|]. destruct H as [<-|[]]. discriminate.
    + apply prefix_gauges_metrics in H. cbn [fst]. intuition congruence.
Qed.

Lemma written_flag_other : forall iface a rx,
  written_by iface (MFlagOther, mkLabels iface (a, 0%N) None None) rx =
  match rx_msg rx with
  | MsgRA r => if from a rx then Some (if ra_other r then 1 else 0) else None
  | MsgOther _ => None
  end.
Proof.
  intros. unfold written_by, rx_ops, monitor_receive, from. rewrite last_write_unfold.
  destruct (rx_msg rx) as [r|t]; [|reflexivity]. rewrite handle_ra. cbn [fold_left lw_step].
  rewrite lw_other_metric.
  - unfold key_eqb, labels_eqb, strip_zone, host_eqb. cbn. rewrite N.eqb_refl. cbn.
    destruct (fst (rx_host rx) =? a)%N; reflexivity.
  - intros op H. apply in_app_or in H. destruct H as [H|H].
    + destruct (ra_lifetime r =? 0); [contradiction|]. destruct H as [<-|[]]. discriminate.
    + apply prefix_gauges_metrics in H. cbn [fst]. intuition congruence.
Qed.

(* default-route gauge: written only by RAs with a non-zero router lifetime *)
Lemma written_default_route : forall iface a rx,
  written_by iface (MDefaultRoute, mkLabels iface (a, 0%N) None None) rx =
  match rx_msg rx with
  | MsgRA r => if from a rx && negb (ra_lifetime r =? 0)
               then Some ((rx_now rx + ra_lifetime r) / 1000000000) else None
  | MsgOther _ => None
  end.
Proof.
  intros. unfold written_by, rx_ops, monitor_receive, from. rewrite last_write_unfold.
  destruct (rx_msg rx) as [r|t]; [|reflexivity]. rewrite handle_ra. cbn [fold_left lw_step].
  rewrite fold_left_app, (lw_other_metric _ (flat_map _ _)).
  - unfold key_eqb, labels_eqb, strip_zone, host_eqb. cbn [fst snd metric_eqb andb].
    destruct (ra_lifetime r =? 0); cbn [fold_left lw_step negb]; [now rewrite andb_false_r|].
    unfold key_eqb, labels_eqb, host_eqb. cbn. rewrite N.eqb_refl. cbn.
    destruct (fst (rx_host rx) =? a)%N; reflexivity.
  - intros op H. apply prefix_gauges_metrics in H. cbn [fst]. intuition congruence.
Qed.

(* prefix gauges: the last option of the RA carrying that (prefix, length) label decides *)
Definition last_prefix_value (proj : opt -> Z) (pl : plabel) (os : list opt) : option Z :=
  fold_left (fun acc o => match o with
                          | OPrefix l _ _ _ _ x => if plabel_eqb (cidr x l) pl then Some (proj o) else acc
                          | _ => acc
                          end) os None.

Definition valid_expiry (now : Z) (o : opt) : Z :=
  match o with OPrefix _ _ _ v _ _ => (now + v) / 1000000000 | _ => 0 end.
Definition preferred_expiry (now : Z) (o : opt) : Z :=
  match o with OPrefix _ _ _ _ p _ => (now + p) / 1000000000 | _ => 0 end.
Definition autonomous_flag (o : opt) : Z :=
  match o with OPrefix _ _ au _ _ _ => if au then 1 else 0 | _ => 0 end.
Definition onlink_flag (o : opt) : Z :=
  match o with OPrefix _ ol _ _ _ _ => if ol then 1 else 0 | _ => 0 end.

Definition prefix_metric_value (mt : metric) (now : Z) : opt -> Z :=
  match mt with
  | MPrefixAutonomous => autonomous_flag
  | MPrefixOnLink => onlink_flag
  | MPrefixPreferred => preferred_expiry now
  | _ => valid_expiry now
  end.
Definition is_prefix_metric (mt : metric) : bool :=
  match mt with MPrefixAutonomous | MPrefixOnLink | MPrefixPreferred | MPrefixValid => true | _ => false end.

Lemma lw_prefix_gauges : forall mt iface h now pl os acc,
  is_prefix_metric mt = true ->
  fold_left (lw_step (mt, mkLabels iface h (Some pl) None)) (flat_map (prefix_gauges iface h now) os) acc =
  fold_left (fun acc o => match o with
                          | OPrefix l _ _ _ _ x =>
                              if plabel_eqb (cidr x l) pl then Some (prefix_metric_value mt now o) else acc
                          | _ => acc
                          end) os acc.
Proof.
  intros mt iface h now pl os. induction os as [|o os IH]; intros acc Hm; [reflexivity|].
  cbn [flat_map]. rewrite fold_left_app, IH by assumption. cbn [fold_left]. f_equal.
  destruct o; try reflexivity. cbn [prefix_gauges fold_left lw_step].
  unfold key_eqb, labels_eqb, host_eqb. cbn [fst snd l_iface l_host l_prefix l_msg option_eqb].
  rewrite !N.eqb_refl. cbn [andb].
  destruct mt; try discriminate; cbn [metric_eqb andb prefix_metric_value autonomous_flag onlink_flag
    preferred_expiry valid_expiry]; rewrite ?andb_true_r;
    destruct (plabel_eqb (cidr pfx plen) pl); reflexivity.
Qed.

Lemma lw_other_host : forall k ops acc,
  (forall op, In op ops -> l_host (op_labels op) <> l_host (snd k)) -> fold_left (lw_step k) ops acc = acc.
Proof.
  induction ops as [|op ops IH]; intros acc H; cbn [fold_left]; [reflexivity|].
  rewrite IH by (intros; apply H; right; assumption).
  specialize (H op (or_introl eq_refl)). destruct op as [m l v|m l v]; cbn [lw_step op_labels] in *; [reflexivity|].
  destruct (key_eqb (m, l) k) eqn:E; [|reflexivity]. apply key_eqb_eq in E. subst k. cbn in H. contradiction.
Qed.

Lemma written_prefix_gauge : forall mt iface a pl rx,
  is_prefix_metric mt = true ->
  written_by iface (mt, mkLabels iface (a, 0%N) (Some pl) None) rx =
  match rx_msg rx with
  | MsgRA r => if from a rx then last_prefix_value (prefix_metric_value mt (rx_now rx)) pl (ra_opts r) else None
  | MsgOther _ => None
  end.
Proof.
  intros mt iface a pl rx Hm. unfold written_by, rx_ops, monitor_receive, from. rewrite last_write_unfold.
  destruct (rx_msg rx) as [r|t]; [|reflexivity].
  destruct (N.eqb_spec (fst (rx_host rx)) a) as [E|E].
  - unfold strip_zone. rewrite E, handle_ra.
    assert (Hhead : forall tl,
      fold_left (lw_step (mt, mkLabels iface (a, 0%N) (Some pl) None))
        (MAdd MReceived (mkLabels iface (a, 0%N) None (Some 134%N)) 1
         :: MSet MFlagManaged (mkLabels iface (a, 0%N) None None) (if ra_managed r then 1 else 0)
         :: MSet MFlagOther (mkLabels iface (a, 0%N) None None) (if ra_other r then 1 else 0)
         :: (if ra_lifetime r =? 0 then []
             else [MSet MDefaultRoute (mkLabels iface (a, 0%N) None None) ((rx_now rx + ra_lifetime r) / 1000000000)]) ++ tl)
        None = fold_left (lw_step (mt, mkLabels iface (a, 0%N) (Some pl) None)) tl None).
    { intro tl. destruct mt; try discriminate;
        cbn [fold_left lw_step key_eqb fst snd metric_eqb andb]; rewrite fold_left_app;
        destruct (ra_lifetime r =? 0); reflexivity. }
    rewrite Hhead, lw_prefix_gauges by assumption. reflexivity.
  - apply lw_other_host. intros op Hop. apply handle_labels in Hop. destruct Hop as [_ Hh]. rewrite Hh.
    cbn. unfold strip_zone. intro H. inversion H. contradiction.
Qed.
