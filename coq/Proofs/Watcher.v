(* Lemmas about Model.Watcher (C19). *)
From Coq Require Import Lia String.
From CR Require Import Model.Watcher.
From CR Require Import Proofs.WatcherSpec.
From Coq Require Import List.
Import ListNotations.
Local Open Scope nat_scope.

(* ------------------------------------------------------------------ ties to the extracted facts *)
Lemma change_bits_literal :
  change_bits = [("LinkUp"%string, 1%Z); ("LinkDown"%string, 2%Z); ("LinkTesting"%string, 4%Z);
                 ("LinkUnknown"%string, 8%Z); ("LinkDormant"%string, 16%Z);
                 ("LinkNotPresent"%string, 32%Z); ("LinkLowerLayerDown"%string, 64%Z);
                 ("LinkAny"%string, 127%Z)].
Proof. reflexivity. Qed.

Lemma link_states_literal : link_states = [1; 2; 4; 8; 16; 32; 64]%N.
Proof. reflexivity. Qed.

Lemma link_any_is_union : LinkAny = fold_left N.lor link_states 0%N /\ LinkAny = 127%N.
Proof. split; reflexivity. Qed.

Lemma link_down_literal : LinkDown = 2%N.
Proof. reflexivity. Qed.

Lemma chan_cap_8 : chan_cap = 8%nat.
Proof. reflexivity. Qed.

Lemma oper_table_literal :
  oper_state_table =
  [("OperStateUnknown", "LinkUnknown"); ("OperStateNotPresent", "LinkNotPresent");
   ("OperStateDown", "LinkDown"); ("OperStateLowerLayerDown", "LinkLowerLayerDown");
   ("OperStateTesting", "LinkTesting"); ("OperStateDormant", "LinkDormant");
   ("OperStateUp", "LinkUp")]%string /\ oper_state_default_rejects = true.
Proof. split; reflexivity. Qed.

(* RFC 2863 ifOperStatus -> Change, for every value *)
Lemma oper_state_change_spec : forall code,
  oper_state_change code =
  match code with
  | 0 => Some LinkUnknown | 1 => Some LinkNotPresent | 2 => Some LinkDown
  | 3 => Some LinkLowerLayerDown | 4 => Some LinkTesting | 5 => Some LinkDormant
  | 6 => Some LinkUp | _ => None
  end%N.
Proof.
  intro code.
  destruct (N.ltb code 7) eqn:H.
  - apply N.ltb_lt in H.
    assert (code = 0 \/ code = 1 \/ code = 2 \/ code = 3 \/ code = 4 \/ code = 5 \/ code = 6)%N as D by lia.
    repeat (destruct D as [D | D]; [subst; reflexivity |]). subst; reflexivity.
  - apply N.ltb_ge in H.
    assert (forall k, (k < 7)%N -> N.eqb k code = false) as E by (intros; apply N.eqb_neq; lia).
    unfold oper_state_change. rewrite (proj1 oper_table_literal), (proj2 oper_table_literal).
    cbn [oper_lookup oper_code String.eqb Ascii.eqb Bool.eqb].
    rewrite !E by lia.
    destruct code as [| p]; [lia |].
    do 3 (destruct p as [p | p |]; try lia; try reflexivity).
Qed.

(* ------------------------------------------------------------------ list helpers *)
Lemma map_opt_nth : forall {A B} (f : A -> option B) l l',
  map_opt f l = Some l' ->
  length l' = length l /\
  forall i a, nth_error l i = Some a -> exists b, f a = Some b /\ nth_error l' i = Some b.
Proof.
  induction l as [| a l IH]; intros l' H; cbn in H.
  - inversion H; subst. split; [reflexivity |]. intros [|i] x Hx; discriminate.
  - destruct (f a) as [b|] eqn:Fa; [| discriminate].
    destruct (map_opt f l) as [r'|] eqn:Fr; [| discriminate].
    inversion H; subst. destruct (IH r' eq_refl) as [L N]. split; [cbn; lia |].
    intros [|i] x Hx; cbn in *.
    + inversion Hx; subst. eauto.
    + eauto.
Qed.

Lemma map_opt_total : forall {A B} (f : A -> option B) l,
  (forall a, In a l -> exists b, f a = Some b) -> exists l', map_opt f l = Some l'.
Proof.
  induction l as [| a l IH]; intros H; cbn.
  - eauto.
  - destruct (H a (or_introl eq_refl)) as [b Hb]. rewrite Hb.
    destruct IH as [l' Hl']; [intros; apply H; right; assumption |]. rewrite Hl'. eauto.
Qed.

Lemma map_opt_Forall : forall {A B} (f : A -> option B) (P : A -> Prop) (Q : B -> Prop) l l',
  (forall a b, P a -> f a = Some b -> Q b) -> Forall P l -> map_opt f l = Some l' -> Forall Q l'.
Proof.
  induction l as [| a l IH]; intros l' HPQ HP H; cbn in H.
  - inversion H; constructor.
  - destruct (f a) as [b|] eqn:Fa; [| discriminate].
    destruct (map_opt f l) as [r'|] eqn:Fr; [| discriminate].
    inversion H; subst. inversion HP; subst. constructor; eauto.
Qed.

Lemma upd_nth_length : forall {A} (f : A -> A) l i, length (upd_nth i f l) = length l.
Proof. induction l as [| a l IH]; intros [|i]; cbn; auto. Qed.

Lemma upd_nth_nth : forall {A} (f : A -> A) l i j,
  nth_error (upd_nth i f l) j =
  if Nat.eqb j i then option_map f (nth_error l j) else nth_error l j.
Proof.
  induction l as [| a l IH]; intros [|i] [|j]; cbn; auto;
    try (destruct (Nat.eqb j i); reflexivity).
Qed.

Lemma upd_nth_Forall : forall {A} (P : A -> Prop) (f : A -> A) l i,
  (forall a, P a -> P (f a)) -> Forall P l -> Forall P (upd_nth i f l).
Proof.
  induction l as [| a l IH]; intros [|i] Hf H; cbn; inversion H; subst; constructor; auto.
Qed.

(* ------------------------------------------------------------------ one subscriber's view *)
Definition qd (s : sub) : list N * list N := (s_queue s, s_drained s).

Lemma offer_view : forall iface c s s',
  offer iface c s = Some s' ->
  s_iface s' = s_iface s /\ s_mask s' = s_mask s /\
  qd s' = if N.eqb (s_iface s) iface && negb (N.eqb (N.land (s_mask s) c) 0)
          then fifo_step (qd s) (PArr c) else qd s.
Proof.
  intros iface c s s' H. unfold offer, wants in H.
  destruct (N.eqb (s_iface s) iface && negb (N.eqb (N.land (s_mask s) c) 0)) eqn:W.
  - destruct (s_closed s); [discriminate |].
    rewrite chan_cap_8 in H. unfold fifo_step, qd; cbn [fst snd].
    destruct (Nat.ltb (length (s_queue s)) 8); inversion H; subst; cbn; auto.
  - inversion H; subst; auto.
Qed.

Lemma notify_changes_view : forall iface changes ss ss' i s,
  notify_changes iface changes ss = Some ss' -> nth_error ss i = Some s ->
  exists s', nth_error ss' i = Some s' /\ s_iface s' = s_iface s /\ s_mask s' = s_mask s /\
    qd s' = fifo_run (map PArr (if N.eqb (s_iface s) iface
                                 then filter (fun c => negb (N.eqb (N.land (s_mask s) c) 0)) changes
                                 else [])) (qd s).
Proof.
  induction changes as [| c r IH]; intros ss ss' i s H Hn; cbn in H.
  - inversion H; subst. exists s. destruct (N.eqb (s_iface s) iface); cbn; auto.
  - destruct (map_opt (offer iface c) ss) as [ss1|] eqn:M; [| discriminate].
    destruct (map_opt_nth _ _ _ M) as [_ Nth].
    destruct (Nth i s Hn) as [s1 [Of N1]].
    destruct (offer_view _ _ _ _ Of) as [I1 [M1 Q1]].
    destruct (IH ss1 ss' i s1 H N1) as [s' [N' [I' [M' Q']]]].
    exists s'. rewrite I', M', I1, M1. repeat split; auto.
    rewrite Q', I1, M1, Q1.
    destruct (N.eqb (s_iface s) iface); cbn [andb filter].
    + destruct (negb (N.eqb (N.land (s_mask s) c) 0)); cbn; reflexivity.
    + reflexivity.
Qed.

Lemma fifo_run_app : forall a b x, fifo_run (a ++ b) x = fifo_run b (fifo_run a x).
Proof. intros. unfold fifo_run. apply fold_left_app. Qed.

Lemma notify_view : forall changed ss ss' i s,
  notify changed ss = Some ss' -> nth_error ss i = Some s ->
  exists s', nth_error ss' i = Some s' /\ s_iface s' = s_iface s /\ s_mask s' = s_mask s /\
    qd s' = fifo_run (map PArr (rel_changes (s_iface s) (s_mask s) changed)) (qd s).
Proof.
  induction changed as [| [iface changes] r IH]; intros ss ss' i s H Hn; cbn in H.
  - inversion H; subst. exists s; cbn; auto.
  - destruct (notify_changes iface changes ss) as [ss1|] eqn:M; [| discriminate].
    destruct (notify_changes_view _ _ _ _ _ _ M Hn) as [s1 [N1 [I1 [M1 Q1]]]].
    destruct (IH ss1 ss' i s1 H N1) as [s' [N' [I' [M' Q']]]].
    exists s'. rewrite I', M', I1, M1. repeat split; auto.
    rewrite Q', I1, M1, Q1. cbn [rel_changes flat_map fst snd].
    rewrite map_app, fifo_run_app. reflexivity.
Qed.

Lemma close_sub_view : forall s s', close_sub s = Some s' ->
  s_iface s' = s_iface s /\ s_mask s' = s_mask s /\ qd s' = qd s.
Proof.
  intros s s' H. unfold close_sub in H. destruct (s_closed s); [discriminate |].
  inversion H; subst; auto.
Qed.

Lemma step_view : forall st e st1 o i s,
  step st e = Some (st1, o) -> nth_error (subs st) i = Some s ->
  exists s1, nth_error (subs st1) i = Some s1 /\ s_iface s1 = s_iface s /\ s_mask s1 = s_mask s /\
    qd s1 = fifo_run (project1 i (s_iface s) (s_mask s) e) (qd s).
Proof.
  intros st e st1 o i s H Hn. destruct e as [iface mask | | changed | j n |]; cbn in H.
  - inversion H; subst; cbn. exists s. rewrite nth_error_app1; [auto |].
    apply nth_error_Some. congruence.
  - destruct (watching st); inversion H; subst; cbn; eauto.
  - destruct (notify changed (subs st)) as [ss|] eqn:M; [| discriminate].
    inversion H; subst; cbn [subs project1].
    eapply notify_view; eauto.
  - destruct (nth_error (subs st) j) as [sj|] eqn:Nj.
    + inversion H; subst; cbn [subs project1]. rewrite upd_nth_nth.
      destruct (Nat.eqb i j) eqn:E.
      * apply Nat.eqb_eq in E; subst j. rewrite Hn. cbn. eexists; repeat split.
        rewrite Nat.eqb_refl. reflexivity.
      * rewrite Nat.eqb_sym, E. exists s; cbn; auto.
    + inversion H; subst. destruct (Nat.eqb j i) eqn:E.
      * apply Nat.eqb_eq in E; subst. congruence.
      * exists s; cbn; rewrite E; auto.
  - destruct (watching st && negb (ended st)).
    + destruct (map_opt close_sub (subs st)) as [ss|] eqn:M; [| discriminate].
      inversion H; subst; cbn [subs project1].
      destruct (map_opt_nth _ _ _ M) as [_ Nth]. destruct (Nth i s Hn) as [s1 [C N1]].
      destruct (close_sub_view _ _ C) as [I1 [M1 Q1]]. exists s1; cbn; auto.
    + inversion H; subst. exists s; cbn; auto.
Qed.

Lemma run_cons : forall st e r,
  run st (e :: r) =
  match step st e with
  | None => ([], None)
  | Some (st', o) => let (os, fin) := run st' r in (o ++ os, fin)
  end.
Proof. reflexivity. Qed.

(* the model's subscriber i evolves exactly like a bounded FIFO fed with its projection *)
Lemma run_view : forall evs st outs st' i s,
  run st evs = (outs, Some st') -> nth_error (subs st) i = Some s ->
  exists s', nth_error (subs st') i = Some s' /\ s_iface s' = s_iface s /\ s_mask s' = s_mask s /\
    qd s' = fifo_run (project i (s_iface s) (s_mask s) evs) (qd s).
Proof.
  induction evs as [| e r IH]; intros st outs st' i s H Hn.
  - cbn in H. inversion H; subst. exists s; cbn; auto.
  - rewrite run_cons in H. destruct (step st e) as [[st1 o]|] eqn:S; [| discriminate].
    destruct (run st1 r) as [os fin] eqn:R. inversion H; subst.
    destruct (step_view _ _ _ _ _ _ S Hn) as [s1 [N1 [I1 [M1 Q1]]]].
    destruct (IH st1 os st' i s1 R N1) as [s' [N' [I' [M' Q']]]].
    exists s'. rewrite I', M', I1, M1. repeat split; auto.
    rewrite Q', I1, M1, Q1. cbn [project flat_map]. rewrite fifo_run_app. reflexivity.
Qed.

(* ------------------------------------------------------------------ the bounded FIFO *)
Lemma fifo_received : forall pevs q d,
  length q <= 8 ->
  snd (fifo_run pevs (q, d)) ++ fst (fifo_run pevs (q, d)) = d ++ q ++ kept (annotate (length q) pevs)
  /\ length (fst (fifo_run pevs (q, d))) <= 8.
Proof.
  induction pevs as [| p r IH]; intros q d L.
  - cbn. rewrite app_nil_r. auto.
  - destruct p as [c | n]; cbn [fifo_run fold_left fifo_step fst snd annotate].
    + destruct (Nat.ltb (length q) 8) eqn:E.
      * apply Nat.ltb_lt in E.
        destruct (IH (q ++ [c]) d) as [A B]; [rewrite app_length; cbn; lia |].
        unfold fifo_run in *. rewrite A. split; [| exact B].
        rewrite app_length; cbn [length]. unfold kept; cbn [filter snd].
        replace (length q + 1) with (S (length q)) by lia.
        apply Nat.ltb_lt in E. rewrite E. cbn [map fst]. rewrite <- !app_assoc. reflexivity.
      * destruct (IH q d L) as [A B]. unfold fifo_run in *. rewrite A. split; [| exact B].
        unfold kept; cbn [filter snd]. rewrite E. reflexivity.
    + destruct (IH (skipn n q) (d ++ firstn n q)) as [A B]; [rewrite skipn_length; lia |].
      unfold fifo_run in *. rewrite A. split; [| exact B].
      rewrite skipn_length. rewrite <- !app_assoc.
      rewrite (app_assoc (firstn n q)), firstn_skipn. reflexivity.
Qed.

Lemma annotate_fst : forall pevs occ,
  map fst (annotate occ pevs) = flat_map (fun p => match p with PArr c => [c] | PTake _ => [] end) pevs.
Proof.
  induction pevs as [| [c|n] r IH]; intros occ; cbn; auto. f_equal. apply IH.
Qed.

Lemma project_relevant : forall i iface mask evs,
  flat_map (fun p => match p with PArr c => [c] | PTake _ => [] end) (project i iface mask evs)
  = relevant iface mask evs.
Proof.
  intros i iface mask. induction evs as [| e r IH]; cbn; auto.
  unfold project in *. rewrite flat_map_app, IH. f_equal.
  destruct e; cbn; auto.
  - induction (rel_changes iface mask changed); cbn; congruence.
  - destruct (Nat.eqb i0 i); reflexivity.
Qed.

Lemma arrivals_are_relevant : forall i iface mask evs,
  map fst (arrivals i iface mask evs) = relevant iface mask evs.
Proof. intros. unfold arrivals. rewrite annotate_fst. apply project_relevant. Qed.

Lemma kept_subseq : forall l, subseq (kept l) (map fst l).
Proof.
  induction l as [| [c o] r IH]; unfold kept in *; cbn [filter map snd fst].
  - constructor.
  - destruct (Nat.ltb o 8); cbn [map fst]; constructor; exact IH.
Qed.

Lemma kept_all : forall l, (forall p, In p l -> snd p < 8) -> kept l = map fst l.
Proof.
  induction l as [| [c o] r IH]; intros H; unfold kept in *; cbn [filter map snd fst]; auto.
  assert (o < 8) as L by (apply (H (c, o)); left; reflexivity).
  apply Nat.ltb_lt in L. rewrite L. cbn [map fst]. f_equal. apply IH. intros; apply H; right; assumption.
Qed.

Definition count_arr (pevs : list pev) : nat :=
  length (filter (fun p => match p with PArr _ => true | _ => false end) pevs).

Lemma annotate_bound : forall pevs occ b,
  occ + count_arr pevs <= b -> forall p, In p (annotate occ pevs) -> snd p < b.
Proof.
  induction pevs as [| [c|n] r IH]; intros occ b H p Hp; unfold count_arr in *;
    cbn [annotate filter length In] in *.
  - contradiction.
  - destruct Hp as [<- | Hp]; [cbn [snd]; lia |].
    eapply IH; [| exact Hp]. destruct (Nat.ltb occ 8); lia.
  - eapply IH; [| exact Hp]. lia.
Qed.

Lemma count_arr_relevant : forall i iface mask evs,
  count_arr (project i iface mask evs) = length (relevant iface mask evs).
Proof.
  intros. rewrite <- project_relevant with (i := i). unfold count_arr.
  induction (project i iface mask evs) as [| [c|n] r IH]; cbn; auto.
Qed.

(* ------------------------------------------------------------------ C19_iff and corollaries *)
Lemma subscribe_then : forall st0 iface mask post outs st,
  run st0 (Subscribe iface mask :: post) = (outs, Some st) ->
  Forall (fun s => length (s_queue s) <= 8) (subs st0) ->
  exists s, nth_error (subs st) (length (subs st0)) = Some s /\ s_iface s = iface /\ s_mask s = mask /\
    received s = kept (arrivals (length (subs st0)) iface mask post) /\ length (s_queue s) <= 8.
Proof.
  intros st0 iface mask post outs st H _. rewrite run_cons in H. cbn [step] in H.
  destruct (run _ post) as [os fin] eqn:R. inversion H; subst.
  set (s0 := mkSub iface mask [] false [] 0).
  assert (nth_error (subs st0 ++ [s0]) (length (subs st0)) = Some s0) as N0.
  { rewrite nth_error_app2 by lia. rewrite Nat.sub_diag. reflexivity. }
  destruct (run_view post _ _ _ _ _ R N0) as [s [Ns [I [M Q]]]].
  exists s. cbn in I, M. repeat split; auto.
  - unfold received. unfold qd in Q; cbn in Q.
    destruct (fifo_received (project (length (subs st0)) iface mask post) [] []) as [A _]; [cbn; lia |].
    rewrite <- Q in A. cbn in A. exact A.
  - unfold qd in Q; cbn in Q.
    destruct (fifo_received (project (length (subs st0)) iface mask post) [] []) as [_ B]; [cbn; lia |].
    rewrite <- Q in B. exact B.
Qed.

(* ------------------------------------------------------------------ C19_bounded *)
Definition bounded (s : sub) : Prop := length (s_queue s) <= 8.

Lemma offer_bounded : forall iface c s s', bounded s -> offer iface c s = Some s' -> bounded s'.
Proof.
  intros iface c s s' B H. unfold offer in H. destruct (wants s iface c); [| inversion H; subst; auto].
  destruct (s_closed s); [discriminate |]. rewrite chan_cap_8 in H.
  destruct (Nat.ltb (length (s_queue s)) 8) eqn:E; inversion H; subst; auto.
  apply Nat.ltb_lt in E. unfold bounded; cbn. rewrite app_length; cbn; lia.
Qed.

Lemma notify_changes_bounded : forall iface changes ss ss',
  Forall bounded ss -> notify_changes iface changes ss = Some ss' -> Forall bounded ss'.
Proof.
  induction changes as [| c r IH]; intros ss ss' B H; cbn in H.
  - inversion H; subst; auto.
  - destruct (map_opt (offer iface c) ss) as [ss1|] eqn:M; [| discriminate].
    eapply IH; [| exact H]. eapply map_opt_Forall; [| exact B | exact M].
    intros; eapply offer_bounded; eauto.
Qed.

Lemma notify_bounded : forall changed ss ss',
  Forall bounded ss -> notify changed ss = Some ss' -> Forall bounded ss'.
Proof.
  induction changed as [| [iface changes] r IH]; intros ss ss' B H; cbn in H.
  - inversion H; subst; auto.
  - destruct (notify_changes iface changes ss) as [ss1|] eqn:M; [| discriminate].
    eapply IH; [| exact H]. eapply notify_changes_bounded; eauto.
Qed.

Lemma step_bounded : forall st e st1 o,
  Forall bounded (subs st) -> step st e = Some (st1, o) -> Forall bounded (subs st1).
Proof.
  intros st e st1 o B H. destruct e as [iface mask | | changed | j n |]; cbn in H.
  - inversion H; subst; cbn. apply Forall_app; split; auto. constructor; [unfold bounded; cbn; lia | constructor].
  - destruct (watching st); inversion H; subst; auto.
  - destruct (notify changed (subs st)) as [ss|] eqn:M; [| discriminate]. inversion H; subst; cbn.
    eapply notify_bounded; eauto.
  - destruct (nth_error (subs st) j); inversion H; subst; cbn; auto.
    apply upd_nth_Forall; auto. intros a Ba. unfold bounded, drain_sub in *; cbn. rewrite skipn_length. lia.
  - destruct (watching st && negb (ended st)); [| inversion H; subst; auto].
    destruct (map_opt close_sub (subs st)) as [ss|] eqn:M; [| discriminate]. inversion H; subst; cbn.
    eapply map_opt_Forall; [| exact B | exact M]. intros a b Ba C. unfold close_sub in C.
    destruct (s_closed a); [discriminate |]. inversion C; subst. exact Ba.
Qed.

Lemma run_bounded : forall evs st outs st',
  Forall bounded (subs st) -> run st evs = (outs, Some st') -> Forall bounded (subs st').
Proof.
  induction evs as [| e r IH]; intros st outs st' B H.
  - cbn in H. inversion H; subst; auto.
  - rewrite run_cons in H. destruct (step st e) as [[st1 o]|] eqn:S; [| discriminate].
    destruct (run st1 r) as [os fin] eqn:R. inversion H; subst.
    eapply IH; [| exact R]. eapply step_bounded; eauto.
Qed.

(* ------------------------------------------------------------------ C19_close, never panics *)
Lemma offer_open : forall iface c s, s_closed s = false /\ s_closes s = 0 ->
  exists s', offer iface c s = Some s' /\ (s_closed s' = false /\ s_closes s' = 0).
Proof.
  intros iface c s [C K]. unfold offer. destruct (wants s iface c); [| eauto].
  rewrite C. destruct (Nat.ltb (length (s_queue s)) chan_cap); eauto.
Qed.

Lemma map_offer_open : forall iface c ss, all_open ss ->
  exists ss', map_opt (offer iface c) ss = Some ss' /\ all_open ss' /\ length ss' = length ss.
Proof.
  intros iface c ss O.
  destruct (map_opt_total (offer iface c) ss) as [ss' M].
  { intros a Ha. unfold all_open in O. rewrite Forall_forall in O.
    destruct (offer_open iface c a (O a Ha)) as [b [Hb _]]. eauto. }
  exists ss'. split; [exact M |]. split.
  - eapply map_opt_Forall; [| exact O | exact M]. intros a b Pa Fa.
    destruct (offer_open iface c a Pa) as [b' [Hb' Q]]. congruence.
  - apply (map_opt_nth _ _ _ M).
Qed.

Lemma notify_changes_open : forall iface changes ss, all_open ss ->
  exists ss', notify_changes iface changes ss = Some ss' /\ all_open ss' /\ length ss' = length ss.
Proof.
  induction changes as [| c r IH]; intros ss O; cbn.
  - eauto.
  - destruct (map_offer_open iface c ss O) as [ss1 [M [O1 L1]]]. rewrite M.
    destruct (IH ss1 O1) as [ss' [H [O' L']]]. exists ss'. repeat split; auto. congruence.
Qed.

Lemma notify_open : forall changed ss, all_open ss ->
  exists ss', notify changed ss = Some ss' /\ all_open ss' /\ length ss' = length ss.
Proof.
  induction changed as [| [iface changes] r IH]; intros ss O; cbn.
  - eauto.
  - destruct (notify_changes_open iface changes ss O) as [ss1 [M [O1 L1]]]. rewrite M.
    destruct (IH ss1 O1) as [ss' [H [O' L']]]. exists ss'. repeat split; auto. congruence.
Qed.

Lemma close_all_open : forall ss, all_open ss ->
  exists ss', map_opt close_sub ss = Some ss' /\ closed_upto (length ss) ss' /\ length ss' = length ss.
Proof.
  intros ss O.
  destruct (map_opt_total close_sub ss) as [ss' M].
  { intros a Ha. unfold all_open in O. rewrite Forall_forall in O. destruct (O a Ha) as [C _].
    unfold close_sub. rewrite C. eauto. }
  exists ss'. destruct (map_opt_nth _ _ _ M) as [L Nth]. repeat split; auto.
  intros i s' Hs'.
  assert (i < length ss) as Li by (rewrite <- L; apply nth_error_Some; congruence).
  apply Nat.ltb_lt in Li. rewrite Li.
  destruct (nth_error ss i) as [a|] eqn:Na; [| apply nth_error_None in Na; apply Nat.ltb_lt in Li; lia].
  destruct (Nth i a Na) as [b [Cb Nb]]. rewrite Hs' in Nb. inversion Nb; subst b.
  unfold all_open in O. rewrite Forall_forall in O. destruct (O a (nth_error_In _ _ Na)) as [C K].
  unfold close_sub in Cb. rewrite C in Cb. inversion Cb; subst; cbn. rewrite K. auto.
Qed.

Lemma valid_after_end_no_end : forall a b w f, valid_from w true (a ++ EndWatch f :: b) = false.
Proof.
  induction a as [| e r IH]; intros b w f; cbn.
  - destruct w; reflexivity.
  - destruct e; auto; destruct w; reflexivity.
Qed.

Lemma drain_closed_upto : forall k ss j n, closed_upto k ss -> closed_upto k (upd_nth j (drain_sub n) ss).
Proof.
  intros k ss j n C i s H. rewrite upd_nth_nth in H. destruct (Nat.eqb i j).
  - destruct (nth_error ss i) as [a|] eqn:Na; [| discriminate]. cbn in H. inversion H; subst.
    specialize (C i a Na). destruct (Nat.ltb i k); exact C.
  - exact (C i s H).
Qed.

(* after the end of the watch: nothing is closed any more, later subscriptions stay open *)
Lemma after_end : forall evs st k,
  ended st = true -> watching st = true -> valid_from true true evs = true ->
  closed_upto k (subs st) -> k <= length (subs st) ->
  exists outs st', run st evs = (outs, Some st') /\ closed_upto k (subs st') /\
                   length (subs st') = length (subs st) + count_subscribe evs.
Proof.
  induction evs as [| e r IH]; intros st k E W V C L.
  - exists [], st. cbn. repeat split; auto.
  - rewrite run_cons. destruct e as [iface mask | | changed | j n |]; cbn in V; try discriminate.
    + cbn [step].
      destruct (IH (mkSt (subs st ++ [mkSub iface mask [] false [] 0]) (watching st) (ended st)) k) as [os [st' [R [C' L']]]];
        auto; cbn [subs]; try (rewrite app_length; cbn; lia).
      * intros i s H. destruct (Nat.lt_ge_cases i (length (subs st))) as [Lt | Ge].
        -- rewrite nth_error_app1 in H by exact Lt. exact (C i s H).
        -- rewrite nth_error_app2 in H by exact Ge.
           destruct (i - length (subs st)) as [| m] eqn:D; cbn in H; [| destruct m; discriminate].
           inversion H; subst; cbn [s_closed s_closes]. assert (Nat.ltb i k = false) as F by (apply Nat.ltb_ge; lia).
           rewrite F. auto.
      * rewrite R. eexists _, st'. repeat split; eauto.
        cbn [subs] in L'. rewrite L', app_length. unfold count_subscribe; cbn. lia.
    + cbn [step]. rewrite W.
      destruct (IH st k E W V C L) as [os [st' [R [C' L']]]]. rewrite R.
      eexists _, st'. repeat split; eauto.
    + cbn [step]. destruct (nth_error (subs st) j) as [sj|] eqn:Nj.
      * destruct (IH (mkSt (upd_nth j (drain_sub n) (subs st)) (watching st) (ended st)) k) as [os [st' [R [C' L']]]];
          auto; cbn [subs]; try (rewrite upd_nth_length; assumption).
        -- apply drain_closed_upto; assumption.
        -- rewrite R. eexists _, st'. repeat split; eauto. cbn [subs] in L'. rewrite L', upd_nth_length. reflexivity.
      * destruct (IH st k E W V C L) as [os [st' [R [C' L']]]]. rewrite R.
        eexists _, st'. repeat split; eauto.
Qed.

Lemma open_drain : forall ss j n, all_open ss -> all_open (upd_nth j (drain_sub n) ss).
Proof. intros. apply upd_nth_Forall; auto. Qed.

(* a valid history whose first (hence only) EndWatch sits after [pre] *)
Ltac close_fin C I :=
  split; [exact C | first [exact I | apply in_or_app; right; exact I | right; exact I]].

Lemma close_lemma : forall pre post f st,
  ended st = false -> all_open (subs st) ->
  valid_from (watching st) false (pre ++ EndWatch f :: post) = true ->
  exists outs st', run st (pre ++ EndWatch f :: post) = (outs, Some st') /\
    closed_upto (length (subs st) + count_subscribe pre) (subs st') /\
    In (OEnd f) outs.      (* Watch returns what the watch function returned *)
Proof.
  induction pre as [| e r IH]; intros post f st E O V.
  - cbn [app] in *. cbn in V. apply andb_prop in V. destruct V as [V1 V2].
    apply andb_prop in V1. destruct V1 as [W _]. rewrite W in V2.
    rewrite run_cons. cbn [step]. rewrite W, E. cbn [negb andb].
    destruct (close_all_open (subs st) O) as [ss [M [C L]]]. rewrite M.
    destruct (after_end post (mkSt ss true true) (length (subs st))) as [os [st' [R [C' _]]]]; auto; cbn [subs]; try lia.
    rewrite R. eexists _, st'. split; [reflexivity |]. unfold count_subscribe; cbn. rewrite Nat.add_0_r.
    split; [exact C' | left; reflexivity].
  - rewrite <- app_comm_cons in *. rewrite run_cons.
    destruct e as [iface mask | | changed | j n | f']; cbn in V.
    + cbn [step].
      destruct (IH post f (mkSt (subs st ++ [mkSub iface mask [] false [] 0]) (watching st) (ended st))) as [os [st' [R [C I]]]];
        auto; cbn [subs].
      * unfold all_open. apply Forall_app. split; [exact O | repeat constructor].
      * rewrite R. eexists _, st'. split; [reflexivity |].
        cbn [subs] in C. rewrite app_length in C. unfold count_subscribe in *; cbn in *.
        replace (length (subs st) + S (length (filter _ r))) with (length (subs st) + 1 + length (filter (fun e => match e with Subscribe _ _ => true | _ => false end) r)) by lia.
        close_fin C I.
    + cbn [step]. destruct (watching st) eqn:W.
      * destruct (IH post f st E O) as [os [st' [R [C I]]]]; [rewrite W; exact V |].
        rewrite R. eexists _, st'. split; [reflexivity |]. close_fin C I.
      * destruct (IH post f (mkSt (subs st) true (ended st)) E O) as [os [st' [R [C I]]]]; [exact V |].
        rewrite R. eexists _, st'. split; [reflexivity |]. close_fin C I.
    + apply andb_prop in V. destruct V as [_ V]. cbn [step].
      destruct (notify_open changed (subs st) O) as [ss [M [O' L]]]. rewrite M.
      destruct (IH post f (mkSt ss (watching st) (ended st))) as [os [st' [R [C I]]]]; auto.
      rewrite R. eexists _, st'. split; [reflexivity |]. cbn [subs] in C. rewrite L in C. close_fin C I.
    + cbn [step]. destruct (nth_error (subs st) j) as [sj|] eqn:Nj.
      * destruct (IH post f (mkSt (upd_nth j (drain_sub n) (subs st)) (watching st) (ended st))) as [os [st' [R [C I]]]]; auto.
        { apply open_drain; assumption. }
        rewrite R. eexists _, st'. split; [reflexivity |]. cbn [subs] in C. rewrite upd_nth_length in C. close_fin C I.
      * destruct (IH post f st E O V) as [os [st' [R [C I]]]]. rewrite R. eexists _, st'. split; [reflexivity |]. close_fin C I.
    + apply andb_prop in V. destruct V as [_ V]. rewrite valid_after_end_no_end in V. discriminate.
Qed.

(* no EndWatch at all: nothing is ever closed *)
Lemma no_end_lemma : forall evs st,
  ended st = false -> all_open (subs st) ->
  valid_from (watching st) false evs = true ->
  (forall e f, In e evs -> e <> EndWatch f) ->
  exists outs st', run st evs = (outs, Some st') /\ all_open (subs st') /\ ended st' = false.
Proof.
  induction evs as [| e r IH]; intros st E O V NE.
  - exists [], st; cbn; auto.
  - rewrite run_cons.
    assert (forall e f, In e r -> e <> EndWatch f) as NE' by (intros; apply NE; right; assumption).
    destruct e as [iface mask | | changed | j n | f']; cbn in V.
    + cbn [step].
      destruct (IH (mkSt (subs st ++ [mkSub iface mask [] false [] 0]) (watching st) (ended st))) as [os [st' [R C]]]; auto.
      { cbn [subs]. unfold all_open. apply Forall_app. split; [exact O | repeat constructor]. }
      rewrite R. eexists _, st'. split; [reflexivity | exact C].
    + cbn [step]. destruct (watching st) eqn:W.
      * destruct (IH st E O) as [os [st' [R C]]]; auto; [rewrite W; exact V |].
        rewrite R. eexists _, st'. split; [reflexivity | exact C].
      * destruct (IH (mkSt (subs st) true (ended st)) E O) as [os [st' [R C]]]; auto.
        rewrite R. eexists _, st'. split; [reflexivity | exact C].
    + apply andb_prop in V. destruct V as [_ V]. cbn [step].
      destruct (notify_open changed (subs st) O) as [ss [M [O' L]]]. rewrite M.
      destruct (IH (mkSt ss (watching st) (ended st))) as [os [st' [R C]]]; auto.
      rewrite R. eexists _, st'. split; [reflexivity | exact C].
    + cbn [step]. destruct (nth_error (subs st) j) as [sj|] eqn:Nj.
      * destruct (IH (mkSt (upd_nth j (drain_sub n) (subs st)) (watching st) (ended st))) as [os [st' [R C]]]; auto.
        { apply open_drain; assumption. }
        rewrite R. eexists _, st'. split; [reflexivity | exact C].
      * destruct (IH st E O V NE') as [os [st' [R C]]]. rewrite R. eexists _, st'. split; [reflexivity | exact C].
    + exfalso. apply (NE (EndWatch f') f'); [left; reflexivity | reflexivity].
Qed.

Lemma split_first_end : forall evs,
  (forall e f, In e evs -> e <> EndWatch f) \/
  exists pre post f, evs = pre ++ EndWatch f :: post /\ (forall e f', In e pre -> e <> EndWatch f').
Proof.
  induction evs as [| e r IH].
  - left. intros e f [].
  - destruct e; try (destruct IH as [N | [pre [post [f [Eq N]]]]];
      [left; intros x f [<- | Hx]; [discriminate | auto]
      | right; eexists (_ :: pre), post, f; split; [rewrite Eq; reflexivity | intros x f' [<- | Hx]; [discriminate | auto]]]).
    right. exists [], r, failed. split; [reflexivity | intros x f' []].
Qed.

Lemma never_panics : forall evs, valid evs = true -> exists outs st, run init evs = (outs, Some st).
Proof.
  intros evs V. destruct (split_first_end evs) as [N | [pre [post [f [Eq _]]]]].
  - destruct (no_end_lemma evs init) as [os [st [R _]]]; auto; [constructor |]. eauto.
  - subst. destruct (close_lemma pre post f init) as [os [st [R _]]]; auto; [constructor |]. eauto.
Qed.

(* a send on a closed channel is what would happen if notify were called after the end *)
Lemma notify_after_close_panics : forall f,
  fst (run init [Subscribe 1 2; WatchStart; EndWatch f; Notify [(1%N, [2%N])]]) = [OWatch false; OEnd f] /\
  snd (run init [Subscribe 1 2; WatchStart; EndWatch f; Notify [(1%N, [2%N])]]) = None.
Proof. intros f. split; reflexivity. Qed.

(* ------------------------------------------------------------------ single events, exhaustively *)
Definition single_trace (mask c ifc : N) (f : bool) : list event :=
  [Subscribe 1 mask; WatchStart; Notify [(ifc, [c])]; Drain 0 9; EndWatch f; Drain 0 9].

Definition single_expected (mask c ifc : N) (f : bool) : list out :=
  [OWatch false;
   ODrain (if N.eqb ifc 1 && negb (N.eqb (N.land mask c) 0) then [c] else []) false;
   OEnd f;
   ODrain [] true].

Definition out_eqb (a b : out) : bool :=
  match a, b with
  | OWatch p, OWatch q => Bool.eqb p q
  | ODrain v c, ODrain v' c' => (if list_eq_dec N.eq_dec v v' then true else false) && Bool.eqb c c'
  | OEnd p, OEnd q => Bool.eqb p q
  | _, _ => false
  end.

Lemma out_eqb_eq : forall a b, out_eqb a b = true -> a = b.
Proof.
  intros [p | v c | p] [q | v' c' | q]; cbn; try discriminate.
  - intros H. apply Bool.eqb_prop in H. congruence.
  - destruct (list_eq_dec N.eq_dec v v'); cbn; [| discriminate]. intros H. apply Bool.eqb_prop in H. congruence.
  - intros H. apply Bool.eqb_prop in H. congruence.
Qed.

Fixpoint outs_eqb (a b : list out) : bool :=
  match a, b with
  | [], [] => true
  | x :: a', y :: b' => out_eqb x y && outs_eqb a' b'
  | _, _ => false
  end.

Lemma outs_eqb_eq : forall a b, outs_eqb a b = true -> a = b.
Proof.
  induction a as [| x a IH]; intros [| y b]; cbn; try discriminate; auto.
  intros H. apply andb_prop in H. destruct H as [H1 H2]. f_equal; [apply out_eqb_eq | apply IH]; assumption.
Qed.

Definition masks127 : list N := map N.of_nat (seq 1 127).

Lemma single_event_table :
  forallb (fun mask => forallb (fun c => forallb (fun ifc =>
    forallb (fun f => outs_eqb (fst (run init (single_trace mask c ifc f))) (single_expected mask c ifc f))
    [false; true]) [1%N; 2%N]) link_states) masks127 = true.
Proof. vm_compute. reflexivity. Qed.

Lemma in_masks127 : forall m, (1 <= m <= 127)%N -> In m masks127.
Proof.
  intros m H. unfold masks127. apply in_map_iff. exists (N.to_nat m). split; [apply N2Nat.id |].
  apply in_seq. lia.
Qed.

Lemma single_event : forall mask c ifc f,
  (1 <= mask <= 127)%N -> In c [1; 2; 4; 8; 16; 32; 64]%N -> In ifc [1%N; 2%N] ->
  fst (run init (single_trace mask c ifc f)) = single_expected mask c ifc f.
Proof.
  intros mask c ifc f Hm Hc Hi.
  pose proof single_event_table as T. rewrite forallb_forall in T.
  specialize (T mask (in_masks127 _ Hm)). rewrite forallb_forall in T.
  rewrite <- link_states_literal in Hc. specialize (T c Hc). rewrite forallb_forall in T.
  specialize (T ifc Hi). rewrite forallb_forall in T.
  apply outs_eqb_eq. apply T. destruct f; cbn; auto.
Qed.

(* Watch twice *)
Lemma watch_twice_panics : forall st, watching st = true -> step st WatchStart = Some (st, [OWatch true]).
Proof. intros st W. cbn. rewrite W. reflexivity. Qed.
