From CR Require Import Model.Watcher.
