(* The stable insertion sort of Model/Wildcard.v (model of slices.SortStableFunc by address):
   permutation, sortedness, stability, and uniqueness of strictly ascending lists. *)
From CR Require Import Model.Wildcard.
From Coq Require Import Lia Permutation Sorted.
Local Open Scope N_scope.

Section Sort.
Context {A : Type} (key : A -> N).

Definition kle (x y : A) : Prop := key x <= key y.
Definition klt (x y : A) : Prop := key x < key y.

Lemma insert_perm x l : Permutation (insert_by key x l) (x :: l).
Proof.
  induction l as [|y tl IH]; cbn [insert_by].
  - apply Permutation_refl.
  - destruct (key x <=? key y).
    + apply Permutation_refl.
    + eapply perm_trans; [apply perm_skip, IH | apply perm_swap].
Qed.

Lemma isort_perm l : Permutation (isort key l) l.
Proof.
  induction l as [|x tl IH]; cbn [isort].
  - constructor.
  - eapply perm_trans; [apply insert_perm | apply perm_skip, IH].
Qed.

Lemma in_isort x l : In x (isort key l) <-> In x l.
Proof.
  split; apply Permutation_in; [apply isort_perm | apply Permutation_sym, isort_perm].
Qed.

Lemma insert_sorted x l : StronglySorted kle l -> StronglySorted kle (insert_by key x l).
Proof.
  induction 1 as [|y tl Hs IH Hall]; cbn [insert_by].
  - constructor; constructor.
  - destruct (N.leb_spec (key x) (key y)) as [Hle|Hgt].
    + constructor; [constructor; assumption|].
      constructor; [exact Hle|].
      eapply Forall_impl; [|exact Hall]. unfold kle. intros z Hz. lia.
    + constructor; [exact IH|].
      assert (Hp : Permutation (insert_by key x tl) (x :: tl)) by apply insert_perm.
      apply Forall_forall. intros z Hz.
      apply (Permutation_in _ Hp) in Hz. destruct Hz as [<-|Hz].
      * unfold kle. lia.
      * rewrite Forall_forall in Hall. apply Hall, Hz.
Qed.

Lemma isort_sorted l : StronglySorted kle (isort key l).
Proof.
  induction l as [|x tl IH]; cbn [isort]; [constructor | apply insert_sorted, IH].
Qed.

(* with distinct keys, ascending is strictly ascending *)
Lemma sorted_strict l : StronglySorted kle l -> NoDup (map key l) -> StronglySorted klt l.
Proof.
  induction 1 as [|y tl Hs IH Hall]; intros Hnd; [constructor|].
  cbn [map] in Hnd. inversion Hnd as [|k ks Hnotin Hnd' Heq]; subst.
  constructor; [apply IH, Hnd'|].
  rewrite Forall_forall in Hall |- *. intros z Hz.
  specialize (Hall z Hz). unfold kle in Hall. unfold klt.
  assert (key z <> key y).
  { intros E. apply Hnotin. rewrite <- E. apply in_map, Hz. }
  lia.
Qed.

Lemma isort_strict l : NoDup (map key l) -> StronglySorted klt (isort key l).
Proof.
  intros Hnd. apply sorted_strict; [apply isort_sorted|].
  eapply Permutation_NoDup; [|exact Hnd].
  apply Permutation_map, Permutation_sym, isort_perm.
Qed.

(* stability: elements with the same key keep their relative order *)
Lemma insert_filter k x l :
  filter (fun y => key y =? k) (insert_by key x l) = filter (fun y => key y =? k) (x :: l).
Proof.
  induction l as [|y tl IH]; cbn [insert_by]; [reflexivity|].
  destruct (N.leb_spec (key x) (key y)) as [Hle|Hgt]; [reflexivity|].
  cbn [filter] in IH |- *. rewrite IH.
  destruct (N.eqb_spec (key x) k) as [Hx|Hx]; [|reflexivity].
  destruct (N.eqb_spec (key y) k) as [Hy|Hy]; [lia|reflexivity].
Qed.

Lemma isort_stable k l :
  filter (fun y => key y =? k) (isort key l) = filter (fun y => key y =? k) l.
Proof.
  induction l as [|x tl IH]; cbn [isort]; [reflexivity|].
  rewrite insert_filter. cbn [filter]. rewrite IH. reflexivity.
Qed.

(* a strictly ascending list is determined by its set of elements *)
Lemma strict_notin x l : Forall (klt x) l -> ~ In x l.
Proof.
  rewrite Forall_forall. intros H Hin. specialize (H x Hin). unfold klt in H. lia.
Qed.

Lemma strict_unique l1 : forall l2,
  StronglySorted klt l1 -> StronglySorted klt l2 -> (forall x, In x l1 <-> In x l2) -> l1 = l2.
Proof.
  induction l1 as [|x1 t1 IH]; intros l2 H1 H2 Heq.
  - destruct l2 as [|x2 t2]; [reflexivity|]. exfalso. apply (proj2 (Heq x2)). left; reflexivity.
  - destruct l2 as [|x2 t2]; [exfalso; apply (proj1 (Heq x1)); left; reflexivity|].
    inversion H1 as [|? ? Hs1 Hall1]; subst. inversion H2 as [|? ? Hs2 Hall2]; subst.
    assert (Ex : x1 = x2).
    { destruct (proj1 (Heq x1) (or_introl eq_refl)) as [E|Hin1]; [symmetry; exact E|].
      destruct (proj2 (Heq x2) (or_introl eq_refl)) as [E|Hin2]; [exact E|].
      rewrite Forall_forall in Hall1, Hall2.
      specialize (Hall1 _ Hin2). specialize (Hall2 _ Hin1). unfold klt in *. lia. }
    subst x2. f_equal. apply IH; [assumption|assumption|].
    intros z. split; intros Hz.
    + destruct (proj1 (Heq z) (or_intror Hz)) as [E|Hin]; [|exact Hin].
      subst z. exfalso. exact (strict_notin _ _ Hall1 Hz).
    + destruct (proj2 (Heq z) (or_intror Hz)) as [E|Hin]; [|exact Hin].
      subst z. exfalso. exact (strict_notin _ _ Hall2 Hz).
Qed.

(* the sort of a list with distinct keys depends only on the set of its elements *)
Theorem isort_set_ext l1 l2 :
  NoDup (map key l1) -> NoDup (map key l2) -> (forall x, In x l1 <-> In x l2) ->
  isort key l1 = isort key l2.
Proof.
  intros H1 H2 Heq. apply strict_unique; try (apply isort_strict; assumption).
  intros x. rewrite !in_isort. apply Heq.
Qed.

Lemma strict_nodup l : StronglySorted klt l -> NoDup l.
Proof.
  induction 1 as [|x tl Hs IH Hall]; constructor; [apply strict_notin, Hall | exact IH].
Qed.

End Sort.

(* for keys that are the elements themselves *)
Lemma klt_id_lt (l : list N) : StronglySorted (klt (fun x => x)) l <-> StronglySorted N.lt l.
Proof. split; intros H; exact H. Qed.

Lemma NoDup_map_id (l : list N) : NoDup l -> NoDup (map (fun x => x) l).
Proof. rewrite map_id. exact (fun H => H). Qed.

(* in particular any reordering of a duplicate-free list sorts to the same list (Go's map iteration order) *)
Lemma isort_perm_unique (l1 l2 : list N) :
  NoDup l1 -> Permutation l1 l2 -> isort (fun x => x) l1 = isort (fun x => x) l2.
Proof.
  intros Hnd Hp. apply isort_set_ext.
  - apply NoDup_map_id, Hnd.
  - apply NoDup_map_id. eapply Permutation_NoDup; eassumption.
  - intros x. split; apply Permutation_in; [exact Hp | apply Permutation_sym, Hp].
Qed.

Lemma NoDup_map_inj_in {A B} (f : A -> B) (l : list A) :
  NoDup l -> (forall x y, In x l -> In y l -> f x = f y -> x = y) -> NoDup (map f l).
Proof.
  induction 1 as [|x tl Hnotin Hnd IH]; intros Hinj; cbn [map]; constructor.
  - intros Hin. apply in_map_iff in Hin. destruct Hin as [y [Hy Hiny]].
    assert (y = x) by (apply Hinj; [right; exact Hiny | left; reflexivity | exact Hy]).
    subst y. exact (Hnotin Hiny).
  - apply IH. intros a b Ha Hb. apply Hinj; right; assumption.
Qed.

Lemma existsb_set_ext {A} (f : A -> bool) (l1 l2 : list A) :
  (forall x, In x l1 <-> In x l2) -> existsb f l1 = existsb f l2.
Proof.
  intros Heq. apply eq_true_iff_eq. rewrite !existsb_exists.
  split; intros [x [Hin Hf]]; exists x; (split; [apply Heq, Hin | exact Hf]).
Qed.
