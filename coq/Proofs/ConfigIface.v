(* C02 -- parseInterface(s), the uniqueness loop of Parse, and the whole parser. *)
From Coq Require Import Lia ZifyBool Btauto.
From CR Require Import Model.Config.
From CR Require Import Model.ConfigSpec.
From CR Require Import Proofs.Config.
From CR Require Import Proofs.ConfigPlugins.
Local Open Scope Z_scope.

Lemma parse_min_interval_spec t mx : 4 * sec <= mx <= 1800 * sec ->
  spec_res (parse_min_interval t mx) (min_interval_ok_b t mx) (min_interval_default t mx).
Proof.
  intros Hm. unfold parse_min_interval, min_interval_ok_b, min_interval_default, in_range_b.
  assert (H33 : 0 <= mul_033 mx).
  { unfold mul_033. apply Z.div_pos; unfold_units; lia. }
  assert (H75 : 0 <= mul_075 mx).
  { unfold mul_075. apply Z.div_pos; unfold_units; lia. }
  rewrite !truncate_s_floor by assumption. unfold mul_033, mul_075.
  destruct t; cbn; auto.
  1-3: case_ifs; cbn; auto; exfalso; unfold_units; lia.
  set (u := sec_floor (3 * mx / 4)) in *. case_ifs; cbn; auto; unfold_units; lia.
Qed.

Lemma parse_default_lifetime_spec t mx : 4 * sec <= mx <= 1800 * sec ->
  spec_res (parse_default_lifetime t mx)
    (with_value_b (lifetime_value t (3 * mx)) (fun lt => (lt =? 0) || in_range_b mx lt (9000 * sec)))
    (value_or (lifetime_value t (3 * mx))).
Proof.
  intros Hm. unfold parse_default_lifetime.
  rewrite parse_duration_eq by (unfold_units; lia).
  destruct (lifetime_value t (3 * mx)) as [lt|]; cbn [with_value_b value_or bind]; [|reflexivity].
  unfold in_range_b. repeat (case_if; cbn [bind]); fin.
Qed.

Definition header_ok_b (st : raw_iface) (mx : Z) : bool :=
  in_range_b (4 * sec) mx (1800 * sec) &&
  min_interval_ok_b (ri_min st) mx &&
  with_value_b (reachable_v st) (fun r => in_range_b 0 r hour) &&
  with_value_b (retrans_v st) (fun r => in_range_b 0 r hour) &&
  in_range_b 0 (hop_v st) 255 &&
  with_value_b (default_lifetime_v mx st) (fun lt => (lt =? 0) || in_range_b mx lt (9000 * sec)) &&
  pref_ok_b (ri_pref st).

Lemma advertising_ok_b_split st :
  advertising_ok_b st =
  with_value_b (max_interval_v st) (fun mx => header_ok_b st mx && plugins_ok_b st mx).
Proof.
  unfold advertising_ok_b, header_ok_b, plugins_ok_b.
  destruct (max_interval_v st) as [mx|]; cbn [with_value_b]; [|reflexivity]. btauto.
Qed.

Definition iface_ok_b (st : raw_iface) : bool :=
  negb (ri_monitor st && ri_advertise st) && (ri_monitor st || advertising_ok_b st).

Lemma parse_interface_spec st name :
  spec_res (parse_interface st name) (iface_ok_b st) (iface_default st name).
Proof.
  unfold parse_interface, iface_ok_b, iface_default, monitor_iface, reject_if.
  destruct (ri_monitor st) eqn:Emon; destruct (ri_advertise st) eqn:Eadv; cbn [andb orb negb bind];
    [ reflexivity | split; reflexivity | | ].
  all: rewrite advertising_ok_b_split; unfold header_ok_b, max_interval_v, reachable_v, retrans_v, default_lifetime_v, hop_v.
  all: rewrite !parse_plain_duration_eq.
  all: destruct (interval_value (ri_max st) (600 * sec)) as [mx|]; cbn [with_value_b value_or bind]; [|reflexivity].
  all: unfold in_range_b at 1.
  all: destruct ((mx <? 4 * sec) || (1800 * sec <? mx)) eqn:Emx; cbn [bind];
    [ replace ((4 * sec <=? mx) && (mx <=? 1800 * sec)) with false by lia; reflexivity
    | replace ((4 * sec <=? mx) && (mx <=? 1800 * sec)) with true by lia; cbn [andb] ].
  all: assert (Hm : 4 * sec <= mx <= 1800 * sec) by lia.
  all: pose proof (parse_min_interval_spec (ri_min st) mx Hm) as H1; step H1.
  all: destruct (interval_value (ri_reachable st) 0) as [reach|]; cbn [with_value_b value_or bind]; [|reflexivity].
  all: unfold in_range_b at 1.
  all: destruct ((reach <? 0) || (hour <? reach)) eqn:Er; cbn [bind];
    [ replace ((0 <=? reach) && (reach <=? hour)) with false by lia; reflexivity
    | replace ((0 <=? reach) && (reach <=? hour)) with true by lia; cbn [andb] ].
  all: destruct (interval_value (ri_retrans st) 0) as [retr|]; cbn [with_value_b value_or bind]; [|reflexivity].
  all: unfold in_range_b at 1.
  all: destruct ((retr <? 0) || (hour <? retr)) eqn:Et; cbn [bind];
    [ replace ((0 <=? retr) && (retr <=? hour)) with false by lia; reflexivity
    | replace ((0 <=? retr) && (retr <=? hour)) with true by lia; cbn [andb] ].
  all: set (hop := match ri_hop st with Some h => h | None => 64 end).
  all: unfold in_range_b at 1.
  all: destruct ((hop <? 0) || (255 <? hop)) eqn:Eh; cbn [bind];
    [ replace ((0 <=? hop) && (hop <=? 255)) with false by lia; reflexivity
    | replace ((0 <=? hop) && (hop <=? 255)) with true by lia; cbn [andb] ].
  all: pose proof (parse_default_lifetime_spec (ri_lifetime st) mx Hm) as H2; step H2.
  all: pose proof (parse_preference_spec (ri_pref st)) as H3; step H3.
  all: pose proof (parse_plugins_spec st mx Hm) as H4; step H4.
  all: auto.
Qed.

Lemma forallb_const {A} (b : bool) (l : list A) : l <> [] -> forallb (fun _ => b) l = b.
Proof.
  destruct l as [|x t]; [congruence|]. intros _. destruct b; [|reflexivity].
  induction (x :: t); cbn; auto.
Qed.

Lemma parse_interfaces_spec st :
  spec_res (parse_interfaces st) (stanza_ok_b st) (stanza_default st).
Proof.
  unfold parse_interfaces, stanza_ok_b, stanza_default, stanza_names.
  rewrite <- andb_assoc. fold (iface_ok_b st).
  destruct (N.eqb (ri_name st) 0) eqn:En; destruct (ri_names st) as [|n ns] eqn:Es; cbn [negb xorb andb app]; try reflexivity.
  - pose proof (mapM_spec (parse_interface st) (fun _ => iface_ok_b st) (iface_default st) (n :: ns)
                  (parse_interface_spec st)) as H.
    rewrite forallb_const in H by congruence. exact H.
  - pose proof (mapM_spec (parse_interface st) (fun _ => iface_ok_b st) (iface_default st) [ri_name st]
                  (parse_interface_spec st)) as H.
    rewrite forallb_const in H by congruence. exact H.
Qed.

Lemma existsb_rev {A} (f : A -> bool) l : existsb f (rev l) = existsb f l.
Proof. induction l; cbn; [reflexivity|]. rewrite existsb_app, IHl. cbn. btauto. Qed.

Lemma add_seen_spec names : forall seen,
  spec_res (add_seen names seen) (fresh_p N.eqb (fun x => existsb (N.eqb x) seen) names) (rev names ++ seen).
Proof.
  induction names as [|n t IH]; intros seen; cbn [add_seen fresh_p]; [cbn; auto|].
  destruct (existsb (N.eqb n) seen); cbn [negb andb]; [reflexivity|].
  eapply spec_res_ext; [apply IH| |].
  - apply fresh_p_ext. intros x. cbn. rewrite (N.eqb_sym x n). btauto.
  - cbn. rewrite <- app_assoc. reflexivity.
Qed.

Lemma stanza_default_names st : map if_name (stanza_default st) = stanza_names st.
Proof.
  unfold stanza_default. rewrite map_map. rewrite <- (map_id (stanza_names st)) at 2.
  apply map_ext. intros n. unfold iface_default. destruct (ri_monitor st); reflexivity.
Qed.

Lemma parse_stanzas_spec sts : forall seen acc,
  spec_res (parse_stanzas sts seen acc)
    (forallb stanza_ok_b sts && fresh_p N.eqb (fun x => existsb (N.eqb x) seen) (flat_map stanza_names sts))
    (acc ++ flat_map stanza_default sts).
Proof.
  induction sts as [|st rest IH]; intros seen acc; cbn [parse_stanzas forallb flat_map].
  - cbn. rewrite app_nil_r. auto.
  - pose proof (parse_interfaces_spec st) as H. step H.
    rewrite stanza_default_names, fresh_p_app.
    pose proof (add_seen_spec (stanza_names st) seen) as H2.
    destruct (add_seen (stanza_names st) seen) as [seen'|e]; cbn [bind spec_res] in H2 |- *.
    + destruct H2 as [H2 ->]. rewrite H2. cbn [andb].
      eapply spec_res_ext; [apply IH| |].
      * f_equal. apply fresh_p_ext. intros x. rewrite existsb_app, existsb_rev.
        rewrite (existsb_ext (N.eqb x) (fun k => N.eqb k x)) by (intros k; apply N.eqb_sym). btauto.
      * rewrite <- app_assoc. reflexivity.
    + rewrite H2. cbn [andb]. rewrite andb_false_r. reflexivity.
Qed.

(* ---------------------------------------------------------------- the main lemma *)

Lemma parse_spec raw : spec_res (parse raw) (Accepts_b raw) (defaults raw).
Proof.
  unfold parse, Accepts_b, defaults, debug_ok_b, debug_default, reject_if.
  destruct (rc_ifaces raw) as [|st rest] eqn:Ei; cbn [bind negb andb]; [reflexivity|]. rewrite <- Ei. clear Ei.
  destruct (N.eqb (rdbg_address (rc_debug raw)) 0); cbn [negb orb bind andb].
  2: destruct (rdbg_resolves (rc_debug raw)); cbn [bind andb]; [|reflexivity].
  all: pose proof (parse_stanzas_spec (rc_ifaces raw) [] []) as H;
       rewrite (fresh_p_ext N.eqb _ (fun _ => false)) in H by reflexivity;
       rewrite fresh_p_empty in H by apply Neqb_sym;
       destruct (parse_stanzas (rc_ifaces raw) [] []); cbn [bind spec_res app] in H |- *;
       [ destruct H as [H ->]; auto | exact H ].
Qed.

Theorem parse_ok_iff raw c : parse raw = Ok c <-> Accepts_b raw = true /\ c = defaults raw.
Proof.
  pose proof (parse_spec raw) as H. split.
  - intros E. rewrite E in H. exact H.
  - intros [Ha ->]. apply (spec_res_true _ _ _ H Ha).
Qed.
