From CR Require Import Model.Listener gen.ExtAdvertise.
From Coq Require Import Lia.
Local Open Scope Z_scope.

Lemma rxRetries_is : rxRetries = 5.  Proof. reflexivity. Qed.
Lemma rxBackoffUnit_is : rxBackoffUnit = 50 * ms.  Proof. reflexivity. Qed.

Definition is_valid (r : read) : bool := match r with RdMsg _ hop _ => (hop =? 255)%N | _ => false end.
Definition is_badhop (r : read) : Prop := match r with RdMsg _ hop _ => hop <> 255%N | _ => False end.

Definition valid_msgs (s : list read) : list (N * N) :=
  flat_map (fun r => match r with RdMsg ty hop src => if (hop =? 255)%N then [(ty, src)] else [] | _ => [] end) s.
Definition badhop_types (s : list read) : list N :=
  flat_map (fun r => match r with RdMsg ty hop src => if (hop =? 255)%N then [] else [ty] | _ => [] end) s.

(* while the listener keeps running it delivers exactly the hop-limit-255 messages, in order, and
   counts exactly the others as invalid *)
Lemma listen_filter s : forall i, out (listen i s) = Pending ->
  delivered (listen i s) = valid_msgs s /\ invalid (listen i s) = badhop_types s.
Proof.
  induction s as [|r s IH]; intros i; cbn [listen]; [auto|].
  destruct r as [ty hop src| |]; cbn [valid_msgs badhop_types flat_map].
  - destruct (hop =? 255)%N; cbn [cons_d cons_i out delivered invalid]; intros H;
      destruct (IH 0 H) as [-> ->]; auto.
  - cbn [cons_w out delivered invalid]. destruct (i + 1 <? rxRetries); cbn [out]; [|discriminate].
    intros H. exact (IH _ H).
  - discriminate.
Qed.

(* in general what is delivered is a prefix of the valid messages: nothing invalid is ever delivered *)
Lemma listen_prefix s : forall i, exists tl, valid_msgs s = delivered (listen i s) ++ tl.
Proof.
  induction s as [|r s IH]; intros i; cbn [listen]; [exists []; reflexivity|].
  destruct r as [ty hop src| |]; cbn [valid_msgs flat_map].
  - destruct (hop =? 255)%N; cbn [cons_d cons_i delivered]; destruct (IH 0) as [tl Htl];
      exists tl; cbn [app]; [f_equal|]; exact Htl.
  - cbn [cons_w delivered app]. destruct (i + 1 <? rxRetries); [apply IH|exists (valid_msgs s); reflexivity].
  - eexists; reflexivity.
Qed.

(* any run of bad-hop-limit messages, of ANY length, is transparent: afterwards the listener is in the
   same state as if they had not been sent, except for the invalid counter *)
Lemma listen_badhops bads : Forall is_badhop bads -> bads <> [] -> forall i rest,
  delivered (listen i (bads ++ rest)) = delivered (listen 0 rest) /\
  out (listen i (bads ++ rest)) = out (listen 0 rest) /\
  waits (listen i (bads ++ rest)) = waits (listen 0 rest) /\
  invalid (listen i (bads ++ rest)) = badhop_types bads ++ invalid (listen 0 rest).
Proof.
  induction 1 as [|b bads Hb Hf IH]; [congruence|]. intros _ i rest.
  destruct b as [ty hop src| |]; cbn in Hb; try contradiction.
  cbn [app listen badhop_types flat_map]. destruct (N.eqb_spec hop 255); [contradiction|].
  cbn [cons_i delivered out waits invalid app].
  destruct bads as [|b' bads'].
  - cbn [app flat_map]. auto.
  - destruct (IH ltac:(discriminate) 0 rest) as (A & B & C & D). rewrite A, B, C, D. auto.
Qed.

(* a valid message that follows any number of bad-hop-limit messages is delivered *)
Lemma no_disrupt bads ty src rest i : Forall is_badhop bads ->
  exists tl, delivered (listen i (bads ++ RdMsg ty 255 src :: rest)) = (ty, src) :: tl /\
             out (listen i (bads ++ RdMsg ty 255 src :: rest)) = out (listen 0 rest).
Proof.
  intros Hf. destruct bads as [|b bads'].
  - cbn [app listen]. rewrite N.eqb_refl. cbn [cons_d delivered out]. eauto.
  - destruct (listen_badhops (b :: bads') Hf ltac:(discriminate) i (RdMsg ty 255 src :: rest)) as (A & B & _).
    rewrite A, B. cbn [listen]. rewrite N.eqb_refl. cbn [cons_d delivered out]. eauto.
Qed.

(* receive retry policy: k consecutive timeouts wait 0, 50, ..., and the 5th is an error *)
Fixpoint timeouts (k : nat) : list read := match k with O => [] | S k' => RdTimeout :: timeouts k' end.
Fixpoint backoffs (i : Z) (k : nat) : list Z := match k with O => [] | S k' => i * (50 * ms) :: backoffs (i + 1) k' end.

Lemma listen_timeouts k : forall i rest, 0 <= i -> i + Z.of_nat k < 5 ->
  waits (listen i (timeouts k ++ rest)) = backoffs i k ++ waits (listen (i + Z.of_nat k) rest) /\
  delivered (listen i (timeouts k ++ rest)) = delivered (listen (i + Z.of_nat k) rest) /\
  out (listen i (timeouts k ++ rest)) = out (listen (i + Z.of_nat k) rest).
Proof.
  induction k as [|k IH]; intros i rest Hi Hk.
  - cbn [timeouts app backoffs Z.of_nat]. rewrite Z.add_0_r. auto.
  - cbn [timeouts app listen backoffs]. rewrite rxRetries_is, rxBackoffUnit_is.
    destruct (Z.ltb_spec (i + 1) 5); [|lia]. cbn [cons_w waits delivered out].
    destruct (IH (i + 1) rest ltac:(lia) ltac:(lia)) as (A & B & C).
    replace (i + 1 + Z.of_nat k) with (i + Z.of_nat (S k)) in * by lia.
    rewrite A, B, C. auto.
Qed.

Lemma listen_exhausted rest : out (listen 0 (timeouts 5 ++ rest)) = Exhausted /\
  waits (listen 0 (timeouts 5 ++ rest)) = [0; 50 * ms; 100 * ms; 150 * ms; 200 * ms] /\
  delivered (listen 0 (timeouts 5 ++ rest)) = [].
Proof. repeat split; reflexivity. Qed.

(* a received message (valid or not) resets the count *)
Lemma listen_reset ty hop src rest i :
  out (listen i (RdMsg ty hop src :: rest)) = out (listen 0 rest) /\
  waits (listen i (RdMsg ty hop src :: rest)) = waits (listen 0 rest).
Proof. cbn [listen]. destruct (hop =? 255)%N; cbn; auto. Qed.

(* advertiser: only router solicitations cause a transmission; other types only touch counters *)
Lemma adv_targets_only_rs r d : In d (adv_unicast_targets r) ->
  In (tRS, d) (delivered r) /\ d <> 0%N.
Proof.
  unfold adv_unicast_targets. rewrite in_flat_map. intros [[ty src] [Hin Hd]].
  unfold adv_handle in Hd. destruct (N.eqb_spec ty tRS) as [->|].
  - destruct (N.eqb_spec src 0); [destruct Hd|]. destruct Hd as [<-|[]]. auto.
  - destruct (ty =? tRA)%N; destruct Hd.
Qed.
