(* Lemmas about RA construction (property C01). *)
From CR Require Import Model.Build Spec.BuildSpec Proofs.Lifetimes gen.ExtPlugins.
From Coq Require Import Lia String Sorted.
Local Close Scope string_scope.
Local Open Scope Z_scope.

(* ---- NewPREF64 *)
Lemma pref64_constants :
  maxPref64Lifetime = 65528 * sec /\ pref64Unit = 8 * sec /\ pref64Factor = 3.
Proof. repeat split; reflexivity. Qed.

Lemma new_pref64_lifetime_spec max :
  0 <= max -> new_pref64_lifetime max = Z.min (65528 * sec) (8 * sec * cdiv (3 * max) (8 * sec)).
Proof.
  intros Hmax. unfold new_pref64_lifetime, cdiv.
  destruct pref64_constants as (-> & -> & ->).
  change (65528 * sec) with 65528000000000. change (8 * sec) with 8000000000.
  rewrite Z.quot_div_nonneg by lia.
  destruct (Z.ltb_spec (3 * max) 65528000000000) as [H|H].
  - assert (E : (3 * max + 8000000000 - 1) / 8000000000 = - (- (3 * max) / 8000000000)).
    { pose proof (Z.div_mod (3 * max + 8000000000 - 1) 8000000000 ltac:(lia)).
      pose proof (Z.mod_pos_bound (3 * max + 8000000000 - 1) 8000000000 ltac:(lia)).
      pose proof (Z.div_mod (- (3 * max)) 8000000000 ltac:(lia)).
      pose proof (Z.mod_pos_bound (- (3 * max)) 8000000000 ltac:(lia)). lia. }
    rewrite E.
    pose proof (Z.div_mod (- (3 * max)) 8000000000 ltac:(lia)).
    pose proof (Z.mod_pos_bound (- (3 * max)) 8000000000 ltac:(lia)). lia.
  - pose proof (Z.div_mod (- (3 * max)) 8000000000 ltac:(lia)).
    pose proof (Z.mod_pos_bound (- (3 * max)) 8000000000 ltac:(lia)). lia.
Qed.

(* within the accepted range of MaxRtrAdvInterval the cap is never reached: a multiple of 8 s in [0, 5408 s] *)
Lemma new_pref64_lifetime_range max :
  0 <= max <= 1800 * sec ->
  0 <= new_pref64_lifetime max <= 65528 * sec /\ new_pref64_lifetime max mod (8 * sec) = 0.
Proof.
  intros Hmax. unfold new_pref64_lifetime.
  destruct pref64_constants as (-> & -> & ->).
  change (65528 * sec) with 65528000000000. change (8 * sec) with 8000000000.
  change (1800 * sec) with 1800000000000 in Hmax.
  rewrite Z.quot_div_nonneg by lia.
  destruct (Z.ltb_spec (3 * max) 65528000000000) as [H|H]; [|lia].
  split; [|apply Z.mod_mul; lia].
  pose proof (Z.div_mod (3 * max + 8000000000 - 1) 8000000000 ltac:(lia)).
  pose proof (Z.mod_pos_bound (3 * max + 8000000000 - 1) 8000000000 ltac:(lia)). lia.
Qed.

(* ---- one plugin: the model's Apply contributes exactly what the stanza calls for *)
Lemma prefix_lifetimes_spec dep s valid preferred :
  prefix_lifetimes dep (s_epoch s) valid preferred (s_now s)
  = (spec_lifetime dep s valid, spec_lifetime dep s preferred).
Proof. unfold prefix_lifetimes, spec_lifetime. destruct dep; [rewrite !remaining_spec|]; reflexivity. Qed.

Lemma route_lifetime_spec dep s lt :
  route_lifetime dep (s_epoch s) lt (s_now s) = spec_lifetime dep s lt.
Proof. unfold route_lifetime, spec_lifetime. destruct dep; [rewrite remaining_spec|]; reflexivity. Qed.

Lemma plugin_opts_spec p s : plugin_opts p s = stanza_opts p s.
Proof.
  destruct p; cbn [plugin_opts stanza_opts].
  - rewrite prefix_lifetimes_spec. reflexivity.
  - rewrite route_lifetime_spec. reflexivity.
  - reflexivity.
  - reflexivity.
  - reflexivity.
  - destruct (s_mac s); reflexivity.
  - reflexivity.
  - reflexivity.
Qed.

Lemma add_opts_nil r : add_opts r [] = r.
Proof. destruct r. unfold add_opts. cbn. rewrite app_nil_r. reflexivity. Qed.
Lemma add_opts_app r a b : add_opts (add_opts r a) b = add_opts r (a ++ b).
Proof. unfold add_opts. cbn. rewrite app_assoc. reflexivity. Qed.

Lemma apply_plugin_spec p s r :
  apply_plugin p s r = match stanza_opts p s with Err e => Err e | Ok os => Ok (add_opts r os) end.
Proof. unfold apply_plugin, apply_plugin_st. rewrite plugin_opts_spec. destruct (stanza_opts p s); reflexivity. Qed.

Lemma apply_all_spec ps s : forall r,
  apply_all ps s r = match stanzas_opts ps s with Err e => Err e | Ok os => Ok (add_opts r os) end.
Proof.
  induction ps as [|p t IH]; intros r; cbn [apply_all stanzas_opts].
  - rewrite add_opts_nil. reflexivity.
  - rewrite apply_plugin_spec. destruct (stanza_opts p s) as [a|e]; [|reflexivity].
    rewrite IH. destruct (stanzas_opts t s) as [b|e]; [|reflexivity].
    rewrite add_opts_app. reflexivity.
Qed.

Lemma forwarding_rule_spec fwd r :
  forwarding_rule fwd r =
  mkRA (ra_hop r) (ra_managed r) (ra_other r) (ra_pref r)
       (if fwd then ra_lifetime r else Z.min 0 (ra_lifetime r)) (ra_reachable r) (ra_retrans r) (ra_opts r).
Proof.
  unfold forwarding_rule. destruct r as [h m o p l re rt os]; cbn.
  destruct fwd; cbn [negb andb].
  - rewrite Bool.andb_false_r. reflexivity.
  - rewrite Bool.andb_true_r. destruct (Z.ltb_spec 0 l); f_equal; lia.
Qed.

Theorem build_exact c s : build c s = expected_ra c s.
Proof.
  unfold build, expected_ra. rewrite apply_all_spec.
  destruct (stanzas_opts (if_plugins c) s) as [os|e]; [|reflexivity].
  rewrite forwarding_rule_spec. reflexivity.
Qed.

(* ---- header / forwarding *)
Lemma build_header c s r :
  build c s = Ok r ->
  ra_hop r = if_hop c /\ ra_managed r = if_managed c /\ ra_other r = if_other c /\ ra_pref r = if_pref c /\
  ra_reachable r = if_reachable c /\ ra_retrans r = if_retrans c /\
  ra_lifetime r = (if s_fwd s then if_lifetime c else Z.min 0 (if_lifetime c)).
Proof.
  rewrite build_exact. unfold expected_ra.
  destruct (stanzas_opts (if_plugins c) s); [|discriminate].
  intros H; injection H as <-. cbn. repeat split; reflexivity.
Qed.

Definition with_fwd (s : sys) (f : bool) : sys :=
  mkSys (s_addrs s) (s_routes s) (s_mac s) (s_now s) (s_epoch s) f.
Definition with_lifetime (r : ra) (l : Z) : ra :=
  mkRA (ra_hop r) (ra_managed r) (ra_other r) (ra_pref r) l (ra_reachable r) (ra_retrans r) (ra_opts r).

Lemma stanza_opts_fwd p s f : stanza_opts p (with_fwd s f) = stanza_opts p s.
Proof. destruct p; reflexivity. Qed.
Lemma stanzas_opts_fwd ps s f : stanzas_opts ps (with_fwd s f) = stanzas_opts ps s.
Proof. induction ps as [|p t IH]; cbn; [reflexivity|]. rewrite stanza_opts_fwd, IH. reflexivity. Qed.

(* the forwarding state changes nothing but the router lifetime, which is zeroed iff the interface is
   not forwarding and the configured lifetime is positive *)
Lemma build_forwarding c s r :
  build c (with_fwd s true) = Ok r ->
  ra_lifetime r = if_lifetime c /\
  build c (with_fwd s false) = Ok (if 0 <? if_lifetime c then with_lifetime r 0 else r).
Proof.
  rewrite !build_exact. unfold expected_ra. rewrite !stanzas_opts_fwd.
  destruct (stanzas_opts (if_plugins c) s); [|discriminate].
  intros H; injection H as <-. cbn. split; [reflexivity|].
  unfold with_lifetime; cbn. destruct (Z.ltb_spec 0 (if_lifetime c)); do 2 f_equal; lia.
Qed.

(* ---- state-passing: Apply returns the plugin unchanged; rebuilding changes nothing *)
Lemma apply_plugin_st_same p s r p' r' : apply_plugin_st p s r = Ok (p', r') -> p' = p.
Proof. unfold apply_plugin_st. destruct (plugin_opts p s); [|discriminate]. intros H; injection H; auto. Qed.

Lemma apply_all_st_spec ps s : forall r,
  apply_all_st ps s r = match apply_all ps s r with Err e => Err e | Ok r' => Ok (ps, r') end.
Proof.
  induction ps as [|p t IH]; intros r; cbn [apply_all_st apply_all]; [reflexivity|].
  unfold apply_plugin. destruct (apply_plugin_st p s r) as [[p' r']|e] eqn:E; [|reflexivity].
  apply apply_plugin_st_same in E as ->. rewrite IH. destruct (apply_all t s r'); reflexivity.
Qed.

Lemma build_st_spec c s :
  build_st c s = match build c s with Err e => Err e | Ok r => Ok (c, r) end.
Proof.
  unfold build_st, build. rewrite apply_all_st_spec.
  destruct (apply_all (if_plugins c) s (header c)); [|reflexivity].
  destruct c; reflexivity.
Qed.

Lemma rebuild_spec n : forall c s c' rs,
  rebuild n c s = Ok (c', rs) ->
  c' = c /\ List.length rs = n /\ forall r, In r rs -> build c s = Ok r.
Proof.
  induction n as [|n IH]; intros c s c' rs; cbn [rebuild].
  - intros H; injection H as <- <-. split; [reflexivity|]. split; [reflexivity|]. intros r [].
  - rewrite build_st_spec. destruct (build c s) as [r0|e] eqn:B; [|discriminate].
    destruct (rebuild n c s) as [[c'' rs']|e] eqn:R; [|discriminate].
    intros H; injection H as <- <-. destruct (IH _ _ _ _ R) as (-> & Hl & Hin).
    split; [reflexivity|]. split; [cbn; lia|]. intros r [<-|Hr]; [reflexivity|]. rewrite <- B. apply Hin. assumption.
Qed.

Lemma rebuild_total n c s r : build c s = Ok r -> rebuild n c s = Ok (c, repeat r n).
Proof.
  intros B. induction n as [|n IH]; cbn [rebuild repeat]; [reflexivity|].
  rewrite build_st_spec, B, IH. reflexivity.
Qed.

(* ---- option order *)
Lemma stanza_opts_rank p s os o :
  stanza_opts p s = Ok os -> In o os -> opt_rank o = plugin_rank p.
Proof.
  destruct p; cbn [stanza_opts plugin_rank].
  - destruct auto.
    + destruct (prefix_current bits s); [|discriminate]. intros H; injection H as <-.
      rewrite in_map_iff. intros (x & <- & _). reflexivity.
    + intros H; injection H as <-. intros [<-|[]]. reflexivity.
  - destruct auto.
    + destruct (route_current s); [|discriminate]. intros H; injection H as <-.
      rewrite in_map_iff. intros (x & <- & _). reflexivity.
    + intros H; injection H as <-. intros [<-|[]]. reflexivity.
  - destruct auto.
    + destruct (rdnss_current s); [|discriminate]. intros H; injection H as <-. intros [<-|[]]. reflexivity.
    + intros H; injection H as <-. intros [<-|[]]. reflexivity.
  - intros H; injection H as <-. intros [<-|[]]. reflexivity.
  - intros H; injection H as <-. intros [<-|[]]. reflexivity.
  - intros H; injection H as <-. destruct (s_mac s); [intros [<-|[]]; reflexivity|intros []].
  - intros H; injection H as <-. intros [<-|[]]. reflexivity.
  - intros H; injection H as <-. intros [<-|[]]. reflexivity.
Qed.

Lemma stanzas_opts_ranks ps s : forall os,
  stanzas_opts ps s = Ok os ->
  forall o, In o os -> exists p, In p ps /\ opt_rank o = plugin_rank p.
Proof.
  induction ps as [|p t IH]; intros os; cbn [stanzas_opts].
  - intros H; injection H as <-. intros o [].
  - destruct (stanza_opts p s) as [a|] eqn:Ea; [|discriminate].
    destruct (stanzas_opts t s) as [b|]; [|discriminate].
    intros H; injection H as <-. intros o Ho. apply in_app_or in Ho as [Ho|Ho].
    + exists p. split; [left; reflexivity|]. eapply stanza_opts_rank; eauto.
    + destruct (IH b eq_refl o Ho) as (q & Hq & E). exists q. split; [right|]; assumption.
Qed.

Lemma strongly_sorted_block k (a : list N) b :
  (forall x, In x a -> x = k) -> (forall y, In y b -> (k <= y)%N) -> StronglySorted N.le b ->
  StronglySorted N.le (a ++ b).
Proof.
  intros Ha Hb Sb. induction a as [|x a IH]; cbn; [assumption|].
  constructor.
  - apply IH. intros y Hy. apply Ha. right; assumption.
  - apply Forall_forall. intros y Hy. rewrite (Ha x (or_introl eq_refl)).
    apply in_app_or in Hy as [Hy|Hy].
    + rewrite (Ha y (or_intror Hy)). apply N.le_refl.
    + apply Hb; assumption.
Qed.

Lemma stanzas_opts_sorted ps s : forall os,
  sorted_by plugin_rank ps -> stanzas_opts ps s = Ok os -> StronglySorted N.le (map opt_rank os).
Proof.
  unfold sorted_by. induction ps as [|p t IH]; intros os Hs; cbn [stanzas_opts].
  - intros H; injection H as <-. constructor.
  - destruct (stanza_opts p s) as [a|] eqn:Ea; [|discriminate].
    destruct (stanzas_opts t s) as [b|] eqn:Eb; [|discriminate].
    intros H; injection H as <-. cbn [map] in Hs. inversion Hs as [|x l Hs' Hall]; subst.
    rewrite map_app. apply strongly_sorted_block with (k := plugin_rank p).
    + intros x Hx. apply in_map_iff in Hx as (o & <- & Ho). eapply stanza_opts_rank; eauto.
    + intros y Hy. apply in_map_iff in Hy as (o & <- & Ho).
      destruct (stanzas_opts_ranks t s b Eb o Ho) as (q & Hq & ->).
      rewrite Forall_forall in Hall. apply Hall. apply in_map. assumption.
    + apply IH; [assumption|reflexivity].
Qed.

(* the order in which parsePlugins appends plugin kinds (extracted from the source) is the documented one *)
Lemma plugin_order_documented :
  plugin_order = ["Prefix"; "Route"; "RDNSS"; "DNSSL"; "MTU"; "LLA"; "CaptivePortal"; "PREF64"]%string.
Proof. reflexivity. Qed.

Lemma rank_in_plugin_order p : rank_in plugin_order p = plugin_rank p.
Proof. destruct p; reflexivity. Qed.

(* every plugin kind constructs exactly one kind of ndp option (extracted from the Apply methods) *)
Lemma apply_options_documented :
  apply_options =
  [("CaptivePortal", ["CaptivePortal"]); ("DNSSL", ["DNSSearchList"]); ("LLA", ["LinkLayerAddress"]);
   ("MTU", ["MTU"]); ("PREF64", ["PREF64"]); ("Prefix", ["PrefixInformation"]);
   ("RDNSS", ["RecursiveDNSServer"]); ("Route", ["RouteInformation"])]%string.
Proof. reflexivity. Qed.

Lemma sorted_by_ext (f g : plugin -> N) ps : (forall p, f p = g p) -> sorted_by f ps -> sorted_by g ps.
Proof. intros E. unfold sorted_by. rewrite (map_ext f g E). auto. Qed.

Theorem build_kind_order c s r :
  sorted_by (rank_in plugin_order) (if_plugins c) -> build c s = Ok r ->
  StronglySorted N.le (map opt_rank (ra_opts r)).
Proof.
  intros Hs. apply (sorted_by_ext _ _ _ rank_in_plugin_order) in Hs.
  rewrite build_exact. unfold expected_ra.
  destruct (stanzas_opts (if_plugins c) s) as [os|] eqn:E; [|discriminate].
  intros H; injection H as <-. cbn. eapply stanzas_opts_sorted; eauto.
Qed.
