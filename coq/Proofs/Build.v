From CR Require Import Model.Build.
