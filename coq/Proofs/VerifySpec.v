(* C12 -- the boolean checker used on the implementation's output (Corr/C12.v, reports_ok)
   decides exactly the declarative specification; "absent" corollaries. *)
From Coq Require Import Lia ZifyBool.
From CR Require Import Model.Verify.
From CR Require Import Model.VerifySpec.
From CR Require Import Proofs.Verify.
Local Open Scope Z_scope.

Lemma count_not_in : forall p l, ~ In p l -> count p l = 0%nat.
Proof.
  induction l; intro H; [reflexivity|]. rewrite count_cons, IHl.
  - destruct (problem_eqb p a) eqn:E; [|reflexivity]. apply problem_eqb_eq in E. subst. exfalso. apply H. left. reflexivity.
  - intro Hin. apply H. right. assumption.
Qed.

Lemma count_pairs_pos : forall A B (g : A -> B -> bool) la lb,
  (1 <= count_pairs g la lb)%nat -> exists x y, In x la /\ In y lb /\ g x y = true.
Proof.
  intros A B g la lb H. unfold count_pairs in H.
  destruct (filter (fun ab => g (fst ab) (snd ab)) (list_prod la lb)) as [|[x y] r] eqn:E; [cbn in H; lia|].
  assert (Hin : In (x, y) (filter (fun ab => g (fst ab) (snd ab)) (list_prod la lb))) by (rewrite E; left; reflexivity).
  apply filter_In in Hin. destruct Hin as [Hin Hg]. apply in_prod_iff in Hin. exists x, y. tauto.
Qed.

Lemma expected_pos_candidate : forall a b p, (1 <= expected_count a b p)%nat -> In p (candidates a b).
Proof.
  intros a b [f d] H. unfold candidates.
  destruct f, d as [k|]; cbn [expected_count] in H; try lia;
    try (apply in_or_app; left; cbn; tauto).
  - apply count_pairs_pos in H. destruct H as (x & y & Hx & _ & Hg).
    apply in_or_app; right. apply in_or_app; left. apply in_flat_map. exists (fst x). split.
    + apply in_map. assumption.
    + apply andb_true_iff in Hg. destruct Hg as [Hg _]. apply andb_true_iff in Hg. destruct Hg as [Hg _].
      apply key_eqb_eq in Hg. subst. left. reflexivity.
  - apply count_pairs_pos in H. destruct H as (x & y & Hx & _ & Hg).
    apply in_or_app; right. apply in_or_app; left. apply in_flat_map. exists (fst x). split.
    + apply in_map. assumption.
    + apply andb_true_iff in Hg. destruct Hg as [Hg _]. apply andb_true_iff in Hg. destruct Hg as [Hg _].
      apply key_eqb_eq in Hg. subst. right. left. reflexivity.
  - apply count_pairs_pos in H. destruct H as (x & y & Hx & _ & Hg).
    apply in_or_app; right. apply in_or_app; right.
    apply andb_true_iff in Hg. destruct Hg as [Hg _]. apply andb_true_iff in Hg. destruct Hg as [Hg _].
    apply andb_true_iff in Hg. destruct Hg as [Hg _]. apply key_eqb_eq in Hg. subst.
    apply (in_map (fun k : N * N => (FRouteLifetime, Some k))). apply in_map. assumption.
Qed.

(* the checker evaluated on the implementation's output decides the specification *)
Theorem reports_ok_spec : forall a b l,
  reports_ok a b l = true <-> (forall p, count p l = expected_count a b p).
Proof.
  intros a b l. unfold reports_ok. rewrite forallb_forall. split.
  - intros H p. destruct (existsb (problem_eqb p) (candidates a b ++ l)) eqn:E.
    + apply existsb_exists in E. destruct E as (q & Hq & Epq). apply problem_eqb_eq in Epq. subst q.
      apply Nat.eqb_eq. apply H. assumption.
    + assert (Hn : ~ In p (candidates a b ++ l)).
      { intro Hin. assert (existsb (problem_eqb p) (candidates a b ++ l) = true).
        { apply existsb_exists. exists p. split; [assumption | apply problem_eqb_refl]. }
        congruence. }
      rewrite count_not_in by (intro Hin; apply Hn; apply in_or_app; right; assumption).
      destruct (expected_count a b p) eqn:Ex; [reflexivity|]. exfalso. apply Hn. apply in_or_app. left.
      apply expected_pos_candidate. lia.
  - intros H p _. apply Nat.eqb_eq. apply H.
Qed.

(* hence: the implementation's report passes the checker iff it is a permutation of the model's *)
Corollary reports_ok_verify : forall a b, reports_ok a b (verify a b) = true.
Proof. intros. apply reports_ok_spec. intro p. apply verify_count. Qed.

(* ---- absent on either side: nothing *)
Lemma count_pairs_nil_l : forall A B (g : A -> B -> bool) lb, count_pairs g [] lb = 0%nat.
Proof. reflexivity. Qed.
Lemma count_pairs_nil_r : forall A B (g : A -> B -> bool) la, count_pairs g la [] = 0%nat.
Proof. intros. apply count_pairs_zero. intros x y _ []. Qed.

Lemma dns_absent : forall f A B, A = [] \/ B = [] ->
  dns_count_differs A B = false /\ dns_index_count f A B = 0%nat.
Proof.
  intros f A B [->| ->]; unfold dns_count_differs, dns_index_count, dns_comparable; cbn.
  - split; reflexivity.
  - destruct A; cbn; split; reflexivity.
Qed.

Lemma firsts_differ_absent : forall la lb, la = [] \/ lb = [] -> firsts_differ la lb = false.
Proof. intros la lb [->| ->]; unfold firsts_differ; cbn; [reflexivity | destruct (hd_error la); reflexivity]. Qed.

Lemma timers_conflict_absent : forall x y, units ms x = 0 \/ units ms y = 0 -> timers_conflict x y = false.
Proof. intros x y [H|H]; unfold timers_conflict; rewrite H; cbn; [reflexivity | now rewrite andb_false_r]. Qed.

Lemma absent_mtu : forall a b d, mtu_opts a = [] \/ mtu_opts b = [] -> count (FMTU, d) (verify a b) = 0%nat.
Proof.
  intros a b d H. rewrite verify_count. destruct d; cbn [expected_count]; [reflexivity|].
  rewrite firsts_differ_absent by assumption. reflexivity.
Qed.
Lemma absent_captive : forall a b d,
  captive_opts a = [] \/ captive_opts b = [] -> count (FCaptive, d) (verify a b) = 0%nat.
Proof.
  intros a b d H. rewrite verify_count. destruct d; cbn [expected_count]; [reflexivity|].
  rewrite firsts_differ_absent by assumption. reflexivity.
Qed.
Lemma absent_prefixes : forall a b d, prefix_opts a = [] \/ prefix_opts b = [] ->
  count (FPrefixPreferred, d) (verify a b) = 0%nat /\ count (FPrefixValid, d) (verify a b) = 0%nat.
Proof.
  intros a b d H. rewrite !verify_count. destruct d; cbn [expected_count]; [|split; reflexivity].
  destruct H as [-> | ->]; rewrite ?count_pairs_nil_l, ?count_pairs_nil_r; split; reflexivity.
Qed.
Lemma absent_routes : forall a b d, route_opts a = [] \/ route_opts b = [] ->
  count (FRouteLifetime, d) (verify a b) = 0%nat.
Proof.
  intros a b d H. rewrite !verify_count. destruct d; cbn [expected_count]; [|reflexivity].
  destruct H as [-> | ->]; rewrite ?count_pairs_nil_l, ?count_pairs_nil_r; reflexivity.
Qed.
(* a particular prefix / route advertised by one side only *)
Lemma absent_prefix_key : forall a b k,
  ~ In k (map fst (prefix_opts a)) \/ ~ In k (map fst (prefix_opts b)) ->
  count (FPrefixPreferred, Some k) (verify a b) = 0%nat /\ count (FPrefixValid, Some k) (verify a b) = 0%nat.
Proof.
  intros a b k H. rewrite !verify_count. cbn [expected_count].
  split; apply count_pairs_zero; intros x y Hx Hy;
    destruct (key_eqb (fst x) k) eqn:E1, (key_eqb (fst y) k) eqn:E2; cbn [andb]; try reflexivity;
    apply key_eqb_eq in E1, E2; exfalso;
    (destruct H as [H|H]; apply H; [rewrite <- E1 | rewrite <- E2]; apply in_map; assumption).
Qed.
Lemma absent_route_key : forall a b k,
  ~ In k (map fst (route_opts a)) \/ ~ In k (map fst (route_opts b)) ->
  count (FRouteLifetime, Some k) (verify a b) = 0%nat.
Proof.
  intros a b k H. rewrite !verify_count. cbn [expected_count].
  apply count_pairs_zero; intros x y Hx Hy;
    destruct (key_eqb (fst x) k) eqn:E1, (key_eqb (fst y) k) eqn:E2; cbn [andb]; try reflexivity;
    apply key_eqb_eq in E1, E2; exfalso;
    (destruct H as [H|H]; apply H; [rewrite <- E1 | rewrite <- E2]; apply in_map; assumption).
Qed.
Lemma absent_rdnss : forall a b d, rdnss_opts a = [] \/ rdnss_opts b = [] ->
  count (FRdnssCount, d) (verify a b) = 0%nat /\ count (FRdnssLifetime, d) (verify a b) = 0%nat /\
  count (FRdnssServers, d) (verify a b) = 0%nat.
Proof.
  intros a b d H. rewrite !verify_count. destruct d; cbn [expected_count]; [repeat split; reflexivity|].
  pose proof (dns_absent (fun x y => differ_s (fst x) (fst y)) _ _ H) as [H1 H2].
  pose proof (dns_absent (fun x y => negb (list_eqb N.eqb (snd x) (snd y))) _ _ H) as [_ H3].
  rewrite H1, H2, H3. repeat split; reflexivity.
Qed.
Lemma absent_dnssl : forall a b d, dnssl_opts a = [] \/ dnssl_opts b = [] ->
  count (FDnsslCount, d) (verify a b) = 0%nat /\ count (FDnsslLifetime, d) (verify a b) = 0%nat /\
  count (FDnsslNames, d) (verify a b) = 0%nat.
Proof.
  intros a b d H. rewrite !verify_count. destruct d; cbn [expected_count]; [repeat split; reflexivity|].
  pose proof (dns_absent (fun x y => differ_s (fst x) (fst y)) _ _ H) as [H1 H2].
  pose proof (dns_absent (fun x y => negb (list_eqb N.eqb (snd x) (snd y))) _ _ H) as [_ H3].
  rewrite H1, H2, H3. repeat split; reflexivity.
Qed.
Lemma absent_timers : forall a b d,
  (units ms (ra_reachable a) = 0 \/ units ms (ra_reachable b) = 0 -> count (FReachable, d) (verify a b) = 0%nat) /\
  (units ms (ra_retrans a) = 0 \/ units ms (ra_retrans b) = 0 -> count (FRetrans, d) (verify a b) = 0%nat).
Proof.
  intros a b d. split; intro H; rewrite verify_count; destruct d; cbn [expected_count]; try reflexivity;
    rewrite timers_conflict_absent by assumption; reflexivity.
Qed.

Lemma nothing_else : forall a b p,
  In p (verify a b) -> In p (candidates a b) /\ (1 <= expected_count a b p)%nat.
Proof.
  intros a b p H. apply verify_in_expected in H. split; [apply expected_pos_candidate|]; assumption.
Qed.
