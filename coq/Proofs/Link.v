(* Proofs about Model/Link.v (checkInterface / lookupInterface: what "link not ready" means). *)
From Coq Require Import ZArith Lia ZifyN ZifyBool.
Ltac Zify.zify_post_hook ::= Z.div_mod_to_equations.
From CR Require Import Base.IP Model.Dialer Model.Link.
Local Open Scope N_scope.

(* RFC 4291 2.4: link-local unicast = fe80::/10, written with literals *)
Definition v6_link_local (ip : N) : Prop := ip / 2 ^ 118 = 1018.

Definition usable (a : laddr) : Prop :=
  la_ipnet a = true /\ la_len a = 16 /\ v6_link_local (la_ip a).

Definition ready (up : bool) (l : list laddr) : Prop := up = true /\ exists a, In a l /\ usable a.

Lemma is_link_local_spec ip : is_link_local ip = true <-> v6_link_local ip.
Proof.
  unfold is_link_local, v6_link_local. rewrite N.eqb_eq, N.shiftr_div_pow2. reflexivity.
Qed.

(* an IPv4-mapped address is never in fe80::/10 *)
Lemma mapped_not_ll ip : is_4in6 ip = true -> is_link_local ip = false.
Proof.
  unfold is_4in6, is_link_local. rewrite N.eqb_eq, !N.shiftr_div_pow2. intro H.
  apply N.eqb_neq. intro H2.
  change (2 ^ 32) with 4294967296 in H.
  change (2 ^ 118) with 332306998946228968225951765070086144 in H2.
  lia.
Qed.

Lemma found_ll_spec a : found_ll a = true <-> usable a.
Proof.
  unfold found_ll, usable, from_slice_ok, netip_is4in6, netip_is6, netip_is_llu, netip_is4in6, netip_is6.
  destruct (la_ipnet a); cbn [andb]; [|split; [discriminate|intros [H _]; discriminate]].
  destruct (N.eqb_spec (la_len a) 16) as [H16|H16].
  - rewrite H16. cbn [N.eqb Pos.eqb orb andb].
    destruct (is_4in6 (la_ip a)) eqn:H4; cbn [negb andb].
    + split; [discriminate|]. intros (_ & _ & Hll). apply is_link_local_spec in Hll.
      rewrite (mapped_not_ll _ H4) in Hll. discriminate.
    + rewrite is_link_local_spec. split; [intro H; repeat split; assumption|intros (_ & _ & H); exact H].
  - rewrite Bool.orb_false_r, Bool.andb_false_r. cbn [andb].
    split; [discriminate|intros (_ & H & _); contradiction].
Qed.

Lemma existsb_found l : existsb found_ll l = true <-> exists a, In a l /\ usable a.
Proof.
  rewrite existsb_exists. split; intros (a & Hi & H); exists a; split; try exact Hi; apply found_ll_spec; exact H.
Qed.

Lemma check_ready up l : check_interface up (AList l) = (None, true) <-> ready up l.
Proof.
  unfold check_interface, check_interface_gen, ready. destruct up; cbn [negb].
  - destruct (existsb found_ll l) eqn:E.
    + split; [intros _; split; [reflexivity|apply existsb_found; exact E]|reflexivity].
    + split; [discriminate|]. intros (_ & H). apply existsb_found in H. congruence.
  - split; [discriminate|intros (H & _); discriminate].
Qed.

Lemma check_not_ready up l : ~ ready up l -> fst (check_interface up (AList l)) = Some ELinkNotReady.
Proof.
  unfold check_interface, check_interface_gen, ready. intro Hn. destruct up; cbn [negb]; [|reflexivity].
  destruct (existsb found_ll l) eqn:E; [|reflexivity].
  exfalso; apply Hn; split; [reflexivity|apply existsb_found; exact E].
Qed.

Lemma check_total up r :
  match fst (check_interface up r) with
  | None => exists l, r = AList l /\ ready up l
  | Some e => e = ELinkNotReady \/ (up = true /\ r = AErr e)
  end.
Proof.
  unfold check_interface, check_interface_gen. destruct up; cbn [negb fst]; [|left; reflexivity].
  destruct r as [e|l]; cbn [fst]; [right; split; reflexivity|].
  destruct (existsb found_ll l) eqn:E; [|left; reflexivity].
  exists l; split; [reflexivity|]. split; [reflexivity|apply existsb_found; exact E].
Qed.

Lemma down_not_asked r : check_interface false r = (Some ELinkNotReady, false).
Proof. reflexivity. Qed.

Lemma addr_error_kept e : check_interface true (AErr e) = (Some e, true).
Proof. reflexivity. Qed.

(* the defect repaired in /repo 21ddb53: with the old condition an interface whose only address
   is the IPv4 link-local 169.254.7.9 (16-byte IPv4-mapped form, as package net returns it) is
   reported ready *)
Definition v4ll_only : list laddr := [mkLA true 16 281473533740809].    (* ::ffff:169.254.7.9 *)
Lemma legacy_refuted : fst (check_interface_legacy true (AList v4ll_only)) = None /\ ~ ready true v4ll_only.
Proof.
  split; [vm_compute; reflexivity|].
  intros (_ & a & Hi & (_ & _ & H)). destruct Hi as [<-|[]]. vm_compute in H. discriminate.
Qed.

(* lookupInterface *)
Lemma lookup_spec r :
  lookup_interface r =
  match r with
  | None => None
  | Some e => if le_operr e && le_route e && le_ipnet e && le_text e then Some ELinkNotReady else Some EOpaque
  end.
Proof. destruct r as [[[] [] [] []]|]; reflexivity. Qed.

(* composition with Dialer.dial: an interface that is missing, down, or without an IPv6
   link-local address makes the dial attempt fail with the recoverable class, before any
   connection is opened and without touching the world *)
Definition not_ready (i : ifstate) : Prop :=
  if_lookup i = Some by_name_missing \/
  (if_lookup i = None /\ exists l, if_addrs i = AList l /\ ~ ready (if_up i) l) \/
  (if_lookup i = None /\ if_up i = false).

Lemma not_ready_dial m i rest w : not_ready i ->
  exists evs, do_real m (link_steps i rest) w = (evs, w, DFail ELinkNotReady) /\
              (forall k, ~ In (OpenConn k) evs) /\ recoverable ELinkNotReady = true.
Proof.
  intros [H|[(H & l & Ha & Hn)|(H & Hd)]]; unfold do_real, link_steps; cbn [s_lookup s_check]; rewrite H; cbn [lookup_interface].
  - cbn. eexists; split; [reflexivity|]. split; [|reflexivity]. intros k [Hk|[]]; discriminate.
  - rewrite Ha, (check_not_ready _ _ Hn). eexists; split; [reflexivity|]. split; [|reflexivity].
    intros k [Hk|[Hk|[]]]; discriminate.
  - rewrite Hd. cbn [check_interface check_interface_gen negb fst]. eexists; split; [reflexivity|].
    split; [|reflexivity]. intros k [Hk|[Hk|[]]]; discriminate.
Qed.

Lemma ready_dial_passes i rest l : if_lookup i = None -> if_addrs i = AList l -> ready (if_up i) l ->
  s_lookup (link_steps i rest) = None /\ s_check (link_steps i rest) = None.
Proof.
  intros H Ha Hr. unfold link_steps; cbn [s_lookup s_check]. rewrite H, Ha.
  split; [reflexivity|]. apply check_ready in Hr. rewrite Hr. reflexivity.
Qed.

Lemma sysctl_bool_spec c : sysctl_bool c = true <-> c = [49; 10].
Proof.
  unfold sysctl_bool. destruct c as [|a [|b [|x c]]]; try (split; discriminate).
  rewrite Bool.andb_true_iff, !N.eqb_eq. split; [intros [-> ->]; reflexivity|intro H; injection H; auto].
Qed.
