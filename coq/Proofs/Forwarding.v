(* Proofs about Model/Forwarding.v (C04). *)
From Coq Require Import Lia.
From CR Require Import Model.Forwarding.
Local Open Scope Z_scope.

(* ---- one generation *)

Lemma gen_iface : forall i p base fwd, o_iface (gen i p base fwd) = i /\ o_path (gen i p base fwd) = p.
Proof. intros. unfold gen. destruct (finalize _ _). split; reflexivity. Qed.

Lemma gen_reads : forall i p base fwd, o_reads (gen i p base fwd) = 1%N.
Proof. intros. unfold gen. destruct (finalize _ _). reflexivity. Qed.

(* the RA is the configured one with only the lifetime field replaced *)
Lemma gen_ra : forall i p base fwd,
  o_ra (gen i p base fwd) =
  set_lifetime base (if (0 <? path_lifetime p (ra_lifetime base)) && negb fwd then 0 else path_lifetime p (ra_lifetime base)).
Proof.
  intros. unfold gen, finalize. cbn [ra_lifetime set_lifetime].
  destruct ((0 <? path_lifetime p (ra_lifetime base)) && negb fwd); reflexivity.
Qed.

Lemma gen_lifetime : forall i p base fwd, 0 <= ra_lifetime base ->
  ra_lifetime (o_ra (gen i p base fwd)) = if fwd then path_lifetime p (ra_lifetime base) else 0.
Proof.
  intros i p base fwd H. rewrite gen_ra. cbn [set_lifetime ra_lifetime].
  assert (0 <= path_lifetime p (ra_lifetime base)) by (destruct p; cbn; lia).
  destruct fwd; cbn [negb]; rewrite ?andb_true_r, ?andb_false_r; [reflexivity|].
  destruct (0 <? path_lifetime p (ra_lifetime base)) eqn:E; [reflexivity|].
  apply Z.ltb_ge in E. lia.
Qed.

Lemma gen_rest : forall i p base fwd,
  o_ra (gen i p base fwd) = set_lifetime (o_ra (gen i p base true)) (ra_lifetime (o_ra (gen i p base fwd))).
Proof.
  intros. rewrite !gen_ra. cbn [negb]. rewrite andb_false_r. cbn [set_lifetime ra_lifetime ra_hop ra_managed ra_other ra_pref ra_reachable ra_retrans ra_opts].
  reflexivity.
Qed.

Lemma gen_misconf : forall i p base fwd,
  o_misconf (gen i p base fwd) = negb fwd && (0 <? path_lifetime p (ra_lifetime base)).
Proof.
  intros. unfold gen, finalize. cbn [ra_lifetime set_lifetime].
  destruct (0 <? path_lifetime p (ra_lifetime base)); destruct fwd; reflexivity.
Qed.

Lemma gen_surface : forall i p base fwd,
  o_logged (gen i p base fwd) = (match path_surface p with SLog => o_misconf (gen i p base fwd) | _ => false end) /\
  o_gauge (gen i p base fwd) = (match path_surface p with SGauge => Some (o_misconf (gen i p base fwd)) | _ => None end) /\
  o_fwd_gauge (gen i p base fwd) = (match p with Scrape | ScrapeIdle => Some fwd | _ => None end).
Proof. intros. unfold gen. destruct (finalize _ _). repeat split. Qed.

(* ---- histories *)

(* the value of interface i's flag after the events [before]: the last SetFwd i, or the initial value *)
Fixpoint last_set (i : N) (evs : list event) : option bool :=
  match evs with
  | [] => None
  | SetFwd j b :: tl =>
      match last_set i tl with
      | Some x => Some x
      | None => if N.eqb i j then Some b else None
      end
  | Gen _ _ :: tl | GenFail _ _ :: tl => last_set i tl
  end.

Definition flag_at (f0 : N -> bool) (before : list event) (i : N) : bool :=
  match last_set i before with Some b => b | None => f0 i end.

Lemma flag_at_set : forall f0 j b l i, flag_at f0 (SetFwd j b :: l) i = flag_at (upd f0 j b) l i.
Proof. intros. unfold flag_at, upd. cbn. destruct (last_set i l); [reflexivity|]. destruct (N.eqb i j); reflexivity. Qed.

Lemma flag_at_gen : forall f0 j p l i, flag_at f0 (Gen j p :: l) i = flag_at f0 l i.
Proof. reflexivity. Qed.

Lemma flag_at_genfail : forall f0 j p l i, flag_at f0 (GenFail j p :: l) i = flag_at f0 l i.
Proof. reflexivity. Qed.

(* the k-th event, if it is a generation, is computed from the flag in force at that moment *)
Theorem run_nth : forall cfg evs f0 k i p,
  nth_error evs k = Some (Gen i p) ->
  nth_error (run cfg f0 evs) k = Some (Some (gen i p (cfg i) (flag_at f0 (firstn k evs) i))).
Proof.
  induction evs as [|e tl IH]; intros f0 k i p H.
  - destruct k; discriminate.
  - destruct k as [|k].
    + cbn in H. inversion H; subst. reflexivity.
    + cbn [nth_error] in H. cbn [firstn]. destruct e as [j b|j q|j q]; cbn [run nth_error].
      * rewrite flag_at_set. apply IH. exact H.
      * rewrite flag_at_gen. apply IH. exact H.
      * rewrite flag_at_genfail. apply IH. exact H.
Qed.

Lemma run_length : forall cfg evs f0, length (run cfg f0 evs) = length evs.
Proof. induction evs as [|[j b|j q|j q] tl IH]; intro f0; cbn; auto. Qed.

(* a generation whose State read fails yields nothing, on every path, whatever the flag is *)
Lemma run_nth_fail : forall cfg evs f0 k i p,
  nth_error evs k = Some (GenFail i p) -> nth_error (run cfg f0 evs) k = Some None.
Proof.
  induction evs as [|e tl IH]; intros f0 k i p H.
  - destruct k; discriminate.
  - destruct k as [|k].
    + cbn in H. inversion H; subst. reflexivity.
    + cbn [nth_error] in H. destruct e; cbn [run nth_error]; eapply IH; exact H.
Qed.

Lemma run_nth_set : forall cfg evs f0 k i b,
  nth_error evs k = Some (SetFwd i b) -> nth_error (run cfg f0 evs) k = Some None.
Proof.
  induction evs as [|e tl IH]; intros f0 k i b H.
  - destruct k; discriminate.
  - destruct k as [|k].
    + cbn in H. inversion H; subst. reflexivity.
    + cbn [nth_error] in H. destruct e; cbn [run nth_error]; eapply IH; exact H.
Qed.

(* ---- independence of interfaces *)

Definition concerns (B : N) (e : event) : bool :=
  match e with SetFwd i _ => N.eqb i B | Gen i _ | GenFail i _ => N.eqb i B end.

Definition outs_of (B : N) (l : list (option out)) : list out :=
  flat_map (fun x => match x with Some o => if N.eqb (o_iface o) B then [o] else [] | None => [] end) l.

Lemma outs_filter : forall cfg B evs f f',
  f B = f' B -> outs_of B (run cfg f evs) = outs_of B (run cfg f' (filter (concerns B) evs)).
Proof.
  induction evs as [|e tl IH]; intros f f' H; [reflexivity|].
  destruct e as [i b|i p|i p]; cbn [run filter concerns]; cycle 2.
  - destruct (N.eqb i B) eqn:E; cbn [run outs_of flat_map app]; apply IH; exact H.
  - destruct (N.eqb i B) eqn:E; cbn [run outs_of flat_map app].
    + apply IH. unfold upd. rewrite N.eqb_sym, E. reflexivity.
    + change (outs_of B (run cfg (upd f i b) tl) = outs_of B (run cfg f' (filter (concerns B) tl))).
      apply IH. unfold upd. rewrite N.eqb_sym, E. exact H.
  - destruct (N.eqb i B) eqn:E; cbn [run outs_of flat_map].
    + destruct (gen_iface i p (cfg i) (f i)) as [Hi _]. destruct (gen_iface i p (cfg i) (f' i)) as [Hi' _].
      rewrite Hi, Hi', E. apply N.eqb_eq in E. subst i. rewrite H. f_equal. apply IH. exact H.
    + destruct (gen_iface i p (cfg i) (f i)) as [Hi _]. rewrite Hi, E. cbn [app]. apply IH. exact H.
Qed.

(* whatever happens to the other interfaces (their flips, their generations, their initial flags) does not change a
   single output of interface B *)
Theorem independence : forall cfg B evs evs' f f',
  f B = f' B -> filter (concerns B) evs = filter (concerns B) evs' ->
  outs_of B (run cfg f evs) = outs_of B (run cfg f' evs').
Proof.
  intros cfg B evs evs' f f' Hf He.
  rewrite (outs_filter cfg B evs f f' Hf), He. symmetry. apply outs_filter. reflexivity.
Qed.

(* ---- flag_at is "the last flip, else the initial value" *)

Lemma last_set_app : forall i l1 l2,
  last_set i (l1 ++ l2) = match last_set i l2 with Some b => Some b | None => last_set i l1 end.
Proof.
  induction l1 as [|e l1 IH]; intro l2; cbn.
  - destruct (last_set i l2); reflexivity.
  - destruct e as [j b|j p|j p]; rewrite ?IH; [|reflexivity|reflexivity].
    destruct (last_set i l2); [reflexivity|]. reflexivity.
Qed.

Lemma flag_at_snoc_set_same : forall f0 l i b, flag_at f0 (l ++ [SetFwd i b]) i = b.
Proof. intros. unfold flag_at. rewrite last_set_app. cbn. rewrite N.eqb_refl. reflexivity. Qed.

Lemma flag_at_snoc_set_other : forall f0 l i j b, i <> j -> flag_at f0 (l ++ [SetFwd j b]) i = flag_at f0 l i.
Proof.
  intros. unfold flag_at. rewrite last_set_app. cbn.
  destruct (N.eqb i j) eqn:E; [apply N.eqb_eq in E; contradiction | reflexivity].
Qed.

Lemma flag_at_snoc_gen : forall f0 l i j p, flag_at f0 (l ++ [Gen j p]) i = flag_at f0 l i.
Proof. intros. unfold flag_at. rewrite last_set_app. reflexivity. Qed.

Lemma flag_at_snoc_genfail : forall f0 l i j p, flag_at f0 (l ++ [GenFail j p]) i = flag_at f0 l i.
Proof. intros. unfold flag_at. rewrite last_set_app. reflexivity. Qed.

(* ---- everything about the k-th generation at once *)

Theorem run_nth_props : forall cfg evs f0 k i p,
  0 <= ra_lifetime (cfg i) ->
  nth_error evs k = Some (Gen i p) ->
  let fwd := flag_at f0 (firstn k evs) i in
  let configured := path_lifetime p (ra_lifetime (cfg i)) in
  exists o, nth_error (run cfg f0 evs) k = Some (Some o) /\
    o_iface o = i /\ o_path o = p /\
    ra_lifetime (o_ra o) = (if fwd then configured else 0) /\
    o_ra o = set_lifetime (cfg i) (ra_lifetime (o_ra o)) /\
    o_misconf o = negb fwd && (0 <? configured) /\
    o_logged o = (match path_surface p with SLog => o_misconf o | _ => false end) /\
    o_gauge o = (match path_surface p with SGauge => Some (o_misconf o) | _ => None end) /\
    o_fwd_gauge o = (match p with Scrape | ScrapeIdle => Some fwd | _ => None end) /\
    o_reads o = 1%N.
Proof.
  intros cfg evs f0 k i p Hl Hn fwd configured.
  eexists. split; [apply run_nth; exact Hn|].
  fold fwd.
  destruct (gen_iface i p (cfg i) fwd) as [H1 H2].
  destruct (gen_surface i p (cfg i) fwd) as [H3 [H4 H5]].
  repeat split; try assumption.
  - apply gen_lifetime. exact Hl.
  - rewrite gen_ra. cbn [ra_lifetime set_lifetime]. reflexivity.
  - apply gen_misconf.
  - apply gen_reads.
Qed.
