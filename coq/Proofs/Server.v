From CR Require Import Model.Server.
