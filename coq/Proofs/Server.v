(* Lemmas about Model.Server (C20). *)
From Coq Require Import Lia String.
From CR Require Import Model.Server.
From Coq Require Import List.
Import ListNotations.
Local Open Scope nat_scope.

(* ------------------------------------------------------------------ ties to the extracted facts *)
Lemma signals_literal :
  signals = ["os.Interrupt"; "syscall.SIGTERM"; "syscall.SIGHUP"]%string /\
  handled_signals = [Some SIGINT; Some SIGTERM; Some SIGHUP].
Proof. split; reflexivity. Qed.

Lemma is_terminal_spec : forall s, is_terminal s = true <-> s <> SIGHUP.
Proof. intros []; vm_compute; split; intros; try congruence; try discriminate. Qed.

Lemma select_shape : signal_select_shape = true.
Proof. reflexivity. Qed.

Lemma serve_attempts_40 : serve_attempts = 40.
Proof. reflexivity. Qed.

Definition mem (a : string) (l : list string) : bool := existsb (String.eqb a) l.

(* in the source order of signalTask.Run, whenever cancel has been called set has been called *)
Definition set_before_cancel (order : list string) : bool :=
  forallb (fun k => implb (mem "cancel" (firstn k order)) (mem "set" (firstn k order)))
          (seq 0 (S (length order))).

Lemma order_ok : set_before_cancel signal_run_order = true.
Proof. vm_compute. reflexivity. Qed.

Lemma order_literal : signal_run_order = ["set"; "print"; "notify"; "cancel"; "stop"]%string.
Proof. reflexivity. Qed.

Lemma order_has_cancel : mem "cancel" signal_run_order = true.
Proof. reflexivity. Qed.

Lemma order_prefix : forall k,
  mem "cancel" (firstn k signal_run_order) = true -> mem "set" (firstn k signal_run_order) = true.
Proof.
  intros k H. pose proof order_ok as O. unfold set_before_cancel in O. rewrite forallb_forall in O.
  destruct (Nat.le_gt_cases k (length signal_run_order)) as [L | G].
  - specialize (O k). rewrite H in O. cbn [implb] in O. apply O. apply in_seq. lia.
  - rewrite firstn_all2 in * by lia.
    specialize (O (length signal_run_order)). rewrite firstn_all in O. rewrite H in O. apply O. apply in_seq. lia.
Qed.

(* ------------------------------------------------------------------ BuildTasks *)
Definition active (i : ifcfg) : bool := ic_advertise i || ic_monitor i.
Definition task_of (i : ifcfg) : task_kind :=
  if ic_advertise i then TAdvertiser (ic_name i) else TMonitor (ic_name i).

Lemma iface_tasks_alt : forall i, iface_tasks i = if active i then [task_of i] else [].
Proof.
  intros i. unfold iface_tasks, active, task_of. destruct (ic_advertise i), (ic_monitor i); reflexivity.
Qed.

Lemma iface_part : forall ifs,
  flat_map iface_tasks ifs = map task_of (filter active ifs).
Proof.
  induction ifs as [| i r IH]; cbn [flat_map filter]; auto.
  rewrite iface_tasks_alt, IH. destruct (active i); reflexivity.
Qed.

Lemma build_tasks_shape : forall c,
  build_tasks true c =
  map task_of (filter active (c_ifaces c)) ++ (if c_debug c then [THTTP] else []) ++ [TWatcher].
Proof. intros. unfold build_tasks. rewrite iface_part. reflexivity. Qed.

Lemma in_iface_part_adv : forall ifs n,
  In (TAdvertiser n) (map task_of (filter active ifs)) <->
  exists i, In i ifs /\ ic_name i = n /\ ic_advertise i = true.
Proof.
  intros ifs n. rewrite in_map_iff. split.
  - intros [i [T F]]. apply filter_In in F. destruct F as [I A]. exists i. unfold task_of in T.
    destruct (ic_advertise i); inversion T; auto.
  - intros [i [I [N A]]]. exists i. unfold task_of. rewrite A, N. split; auto.
    apply filter_In. split; auto. unfold active. rewrite A. reflexivity.
Qed.

Lemma in_iface_part_mon : forall ifs n,
  In (TMonitor n) (map task_of (filter active ifs)) <->
  exists i, In i ifs /\ ic_name i = n /\ ic_advertise i = false /\ ic_monitor i = true.
Proof.
  intros ifs n. rewrite in_map_iff. split.
  - intros [i [T F]]. apply filter_In in F. destruct F as [I A]. exists i. unfold task_of, active in *.
    destruct (ic_advertise i); inversion T; cbn in A; auto.
  - intros [i [I [N [A M]]]]. exists i. unfold task_of. rewrite A, N. split; auto.
    apply filter_In. split; auto. unfold active. rewrite A, M. reflexivity.
Qed.

Lemma iface_part_kinds : forall ifs t,
  In t (map task_of (filter active ifs)) -> t <> THTTP /\ t <> TWatcher.
Proof.
  intros ifs t H. apply in_map_iff in H. destruct H as [i [T _]]. unfold task_of in T.
  destruct (ic_advertise i); subst; split; discriminate.
Qed.

(* ------------------------------------------------------------------ the LTS: basics *)
Definition reach (n : nat) (tr : list label) (st : state) : Prop := run (init n) tr = Some st.

Lemma run_app : forall a b st,
  run st (a ++ b) = match run st a with Some st' => run st' b | None => None end.
Proof.
  induction a as [| l a IH]; intros b st; cbn; auto. destruct (step st l); auto.
Qed.

Lemma reach_ind : forall n (P : list label -> state -> Prop),
  P [] (init n) ->
  (forall tr st l st', reach n tr st -> P tr st -> step st l = Some st' -> P (tr ++ [l]) st') ->
  forall tr st, reach n tr st -> P tr st.
Proof.
  intros n P H0 HS tr. induction tr as [| l tr IH] using rev_ind; intros st R.
  - unfold reach in R. cbn in R. inversion R; subst. exact H0.
  - unfold reach in R. rewrite run_app in R. destruct (run (init n) tr) as [st0|] eqn:R0; [| discriminate].
    cbn in R. destruct (step st0 l) as [st1|] eqn:S; [| discriminate]. inversion R; subst.
    eapply HS; eauto.
Qed.

Lemma reach_split : forall n a b st, reach n (a ++ b) st ->
  exists sa, reach n a sa /\ run sa b = Some st.
Proof.
  intros n a b st R. unfold reach in *. rewrite run_app in R.
  destruct (run (init n) a) as [sa|]; [| discriminate]. eauto.
Qed.

Lemma upd_length : forall {A} (f : A -> A) l i, length (upd i f l) = length l.
Proof. induction l as [| a l IH]; intros [|i]; cbn; auto. Qed.

Lemma upd_nth : forall {A} (f : A -> A) l i j,
  nth_error (upd i f l) j = if Nat.eqb j i then option_map f (nth_error l j) else nth_error l j.
Proof.
  induction l as [| a l IH]; intros [|i] [|j]; cbn; auto;
    try (destruct (Nat.eqb j i); reflexivity).
Qed.

(* case analysis of one step *)
Ltac step_inv H :=
  unfold step, set_tasks, act_effect in H;
  repeat match type of H with
         | context [match ?x with _ => _ end] => destruct x eqn:?; try discriminate
         end;
  try (inversion H; subst; clear H).

Definition no_failure (tr : list label) : Prop := forall j e, ~ In (LRet j (Some e)) tr.

Lemma no_failure_snoc : forall tr l, no_failure (tr ++ [l]) ->
  no_failure tr /\ (forall j e, l <> LRet j (Some e)).
Proof.
  intros tr l H. split.
  - intros j e I. apply (H j e). apply in_or_app. left. exact I.
  - intros j e E. apply (H j e). apply in_or_app. right. left. exact E.
Qed.

(* ------------------------------------------------------------------ invariants *)

(* number of tasks never changes *)
Lemma inv_length : forall n tr st, reach n tr st -> length (tasks st) = n.
Proof.
  intros n. apply reach_ind.
  - cbn. apply repeat_length.
  - intros tr st l st' _ IH S. destruct l; step_inv S; cbn [tasks]; rewrite ?upd_length; auto.
Qed.

(* errgroup: the recorded error is the first failure of the trace; no failure, no error *)
Lemma inv_first_err : forall n tr st, reach n tr st ->
  match first_err st with
  | None => no_failure tr
  | Some e => exists p1 i p2, tr = p1 ++ LRet i (Some e) :: p2 /\ no_failure p1
  end.
Proof.
  intros n. apply reach_ind.
  - cbn. intros j e [].
  - intros tr st l st' _ IH S.
    assert (forall x, (forall j e, l <> LRet j (Some e)) -> first_err st' = first_err st ->
            match first_err st with
            | None => no_failure tr
            | Some e => exists p1 i p2, tr = p1 ++ LRet i (Some e) :: p2 /\ no_failure p1
            end ->
            x = first_err st' ->
            match x with
            | None => no_failure (tr ++ [l])
            | Some e => exists p1 i p2, tr ++ [l] = p1 ++ LRet i (Some e) :: p2 /\ no_failure p1
            end) as Keep.
    { intros x NL E I X. subst x. rewrite E. destruct (first_err st) as [e|].
      - destruct I as [p1 [i [p2 [T NF]]]]. exists p1, i, (p2 ++ [l]). split; auto.
        rewrite T, <- app_assoc. reflexivity.
      - intros j e I'. apply in_app_or in I'. destruct I' as [I' | [I' | []]]; [exact (I j e I') | exact (NL j e I')]. }
    destruct l; try (step_inv S; cbn [first_err] in *; eapply Keep; eauto; intros; discriminate).
    (* LRet *)
    step_inv S; cbn [first_err] in *.
    + (* an error was already recorded *)
      destruct IH as [p1 [i' [p2 [T NF]]]]. eexists p1, i', (p2 ++ [_]).
      split; [rewrite T, <- app_assoc; reflexivity | exact NF].
    + (* recorded now *)
      exists tr, i, []. split; auto.
    + (* returns nil *)
      destruct (first_err st) as [e|].
      * destruct IH as [p1 [i' [p2 [T NF]]]]. exists p1, i', (p2 ++ [LRet i None]). split; auto.
        rewrite T, <- app_assoc. reflexivity.
      * intros j e I'. apply in_app_or in I'. destruct I' as [I' | [I' | []]]; [exact (IH j e I') | discriminate].
Qed.

(* a recorded error means a cancelled context *)
Lemma inv_cancel : forall n tr st, reach n tr st -> first_err st <> None -> cancelled st = true.
Proof.
  intros n. apply (reach_ind n (fun tr st => first_err st <> None -> cancelled st = true)).
  - cbn. congruence.
  - intros tr st l st' _ IH S. destruct l; step_inv S; cbn [first_err cancelled] in *; auto;
      try (intros _; apply IH; congruence).
Qed.

Lemma firstn_S_nth : forall {A} (l : list A) k a,
  nth_error l k = Some a -> firstn (S k) l = firstn k l ++ [a].
Proof.
  induction l as [| x l IH]; intros [|k] a H; cbn in *; try discriminate.
  - inversion H; reflexivity.
  - f_equal. apply IH. exact H.
Qed.

Lemma mem_snoc : forall x l a, mem x (l ++ [a]) = mem x l || String.eqb x a.
Proof. intros. unfold mem. rewrite existsb_app. cbn. rewrite orb_false_r. reflexivity. Qed.

(* the signal task *)
Definition isig (tr : list label) (st : state) : Prop :=
  (first_err st = None -> cancelled st = true ->
     exists s k, sigtask st = SAct s k /\ mem "cancel" (firstn k signal_run_order) = true) /\
  (forall s k, sigtask st = SAct s k -> mem "set" (firstn k signal_run_order) = true ->
     term st = is_terminal s) /\
  (sigtask st = SDone -> first_err st <> None) /\
  (forall s k, sigtask st = SAct s k -> In (LTake s) tr).

Lemma isig_keep : forall tr st st' l,
  isig tr st ->
  cancelled st' = cancelled st -> first_err st' = first_err st -> term st' = term st ->
  sigtask st' = sigtask st -> isig (tr ++ [l]) st'.
Proof.
  intros tr st st' l [A [B [C D]]] E1 E2 E3 E4. unfold isig. rewrite E1, E2, E3, E4.
  repeat split; auto. intros s k H. apply in_or_app. left. eapply D; eauto.
Qed.

Lemma sig_eqb_eq : forall a b, sig_eqb a b = true -> a = b.
Proof. intros [] []; cbn; congruence. Qed.

Lemma inv_sig : forall n tr st, reach n tr st -> isig tr st.
Proof.
  intros n. apply (reach_ind n isig).
  - unfold isig; cbn. repeat split; intros; discriminate.
  - intros tr st l st' _ IH S.
    destruct l; try (step_inv S; eapply isig_keep; eauto; reflexivity).
    + (* LRet *)
      step_inv S; try (eapply isig_keep; eauto; reflexivity).
      destruct IH as [A [B [C D]]]. unfold isig; cbn [first_err cancelled term sigtask].
      repeat split; try discriminate; auto.
      intros s k H. apply in_or_app. left. eapply D; eauto.
    + (* LTake *)
      step_inv S. destruct IH as [A [B [C D]]]. unfold isig; cbn [first_err cancelled term sigtask].
      repeat split.
      * intros F Cn. destruct (A F Cn) as [sx [kx [X _]]]. congruence.
      * intros sx kx X M. inversion X; subst. cbn in M. discriminate.
      * discriminate.
      * intros sx kx X. inversion X; subst. apply in_or_app. right. left. reflexivity.
    + (* LAct *)
      unfold step in S. destruct (sigtask st) as [| s k |] eqn:ST; try discriminate.
      destruct (nth_error signal_run_order k) as [a|] eqn:NA; [| discriminate].
      inversion S; subst; clear S. destruct IH as [A [B [C D]]].
      pose proof (firstn_S_nth _ _ _ NA) as FS.
      unfold act_effect. destruct (String.eqb a "set") eqn:Eset; [| destruct (String.eqb a "cancel") eqn:Ecan];
        unfold isig; cbn [first_err cancelled term sigtask]; repeat split; try discriminate.
      * intros F Cn. destruct (A F Cn) as [s0 [k0 [X M]]]. rewrite ST in X. inversion X; subst. exists s0, (S k0). split; auto.
        rewrite FS, mem_snoc, M. reflexivity.
      * intros s0 k0 X _. inversion X; subst. reflexivity.
      * intros s0 k0 X. inversion X; subst. apply in_or_app. left. eapply D; eauto.
      * intros F _. exists s, (S k). split; auto. rewrite FS, mem_snoc.
        apply String.eqb_eq in Ecan. subst a. cbn. apply orb_true_r.
      * intros s0 k0 X M. inversion X; subst. rewrite FS, mem_snoc in M.
        rewrite String.eqb_sym, Eset, orb_false_r in M. eapply B; eauto.
      * intros s0 k0 X. inversion X; subst. apply in_or_app. left. eapply D; eauto.
      * intros F Cn. destruct (A F Cn) as [s0 [k0 [X M]]]. rewrite ST in X. inversion X; subst. exists s0, (S k0). split; auto.
        rewrite FS, mem_snoc, M. reflexivity.
      * intros s0 k0 X M. inversion X; subst. rewrite FS, mem_snoc in M.
        rewrite String.eqb_sym, Eset, orb_false_r in M. eapply B; eauto.
      * intros s0 k0 X. inversion X; subst. apply in_or_app. left. eapply D; eauto.
    + (* LDone *)
      step_inv S. destruct IH as [A [B [C D]]]. unfold isig; cbn [first_err cancelled term sigtask].
      apply andb_prop in Heqb. destruct Heqb as [Cn _].
      repeat split; try discriminate.
      * intros F _. destruct (A F Cn) as [s0 [k0 [X _]]]. congruence.
      * intros _ F. destruct (A F Cn) as [s0 [k0 [X _]]]. congruence.
Qed.

(* tasks: a returned task has its LRet in the trace, a ready task its LReady *)
Definition itasks (tr : list label) (st : state) : Prop :=
  forall i t, nth_error (tasks st) i = Some t ->
    (is_returned t = true -> exists r, In (LRet i r) tr) /\
    (t_ready t = true -> In (LReady i) tr).

Lemma itasks_keep : forall tr st st' l, itasks tr st -> tasks st' = tasks st -> itasks (tr ++ [l]) st'.
Proof.
  intros tr st st' l I E i t H. rewrite E in H. destruct (I i t H) as [A B]. split.
  - intros R. destruct (A R) as [r Hr]. exists r. apply in_or_app. left. exact Hr.
  - intros R. apply in_or_app. left. exact (B R).
Qed.

Lemma itasks_upd : forall tr st i0 t0 f l,
  itasks tr st -> nth_error (tasks st) i0 = Some t0 ->
  (is_returned (f t0) = true -> is_returned t0 = true \/ exists r, l = LRet i0 r) ->
  (t_ready (f t0) = true -> t_ready t0 = true \/ l = LReady i0) ->
  forall i t, nth_error (upd i0 f (tasks st)) i = Some t ->
    (is_returned t = true -> exists r, In (LRet i r) (tr ++ [l])) /\
    (t_ready t = true -> In (LReady i) (tr ++ [l])).
Proof.
  intros tr st i0 t0 f l I N0 HR HY i t H. rewrite upd_nth in H.
  destruct (Nat.eqb i i0) eqn:E.
  - apply Nat.eqb_eq in E. subst i0. rewrite N0 in H. cbn in H. inversion H; subst t.
    destruct (I i t0 N0) as [A B]. split.
    + intros R. destruct (HR R) as [R0 | [r ->]].
      * destruct (A R0) as [r Hr]. exists r. apply in_or_app. left. exact Hr.
      * exists r. apply in_or_app. right. left. reflexivity.
    + intros R. destruct (HY R) as [R0 | ->].
      * apply in_or_app. left. exact (B R0).
      * apply in_or_app. right. left. reflexivity.
  - destruct (I i t H) as [A B]. split.
    + intros R. destruct (A R) as [r Hr]. exists r. apply in_or_app. left. exact Hr.
    + intros R. apply in_or_app. left. exact (B R).
Qed.

Lemma inv_tasks : forall n tr st, reach n tr st -> itasks tr st.
Proof.
  intros n. apply (reach_ind n itasks).
  - intros i t H. cbn in H. apply nth_error_In in H. apply repeat_spec in H. subst. cbn. split; discriminate.
  - intros tr st l st' _ IH S.
    destruct l; step_inv S; try (eapply itasks_keep; eauto; reflexivity);
      unfold itasks; cbn [tasks]; eapply itasks_upd; eauto; cbn; intros; eauto;
      try (left; assumption); try (right; reflexivity); try discriminate.
Qed.

(* ------------------------------------------------------------------ the theorems, trace form *)
Lemma step_serve_guard : forall st r st', step st (LServe r) = Some st' ->
  served st = None /\ forallb is_returned (tasks st) = true /\ sig_returned st = true /\ r = first_err st.
Proof.
  intros st r st' S. unfold step in S. destruct (served st); [discriminate |].
  destruct (forallb is_returned (tasks st) && sig_returned st && _) eqn:G; [| discriminate].
  apply andb_prop in G. destruct G as [G G3]. apply andb_prop in G. destruct G as [G1 G2].
  repeat split; auto.
  destruct r as [a|], (first_err st) as [b|]; try discriminate; auto.
  apply N.eqb_eq in G3. congruence.
Qed.

Lemma all_returned : forall n tr st, reach n tr st -> forallb is_returned (tasks st) = true ->
  forall j, j < n -> exists r, In (LRet j r) tr.
Proof.
  intros n tr st R F j Hj. pose proof (inv_length _ _ _ R) as L.
  destruct (nth_error (tasks st) j) as [t|] eqn:N; [| apply nth_error_None in N; lia].
  rewrite forallb_forall in F. destruct (inv_tasks _ _ _ R j t N) as [A _].
  apply A. apply F. eapply nth_error_In; eauto.
Qed.

Lemma first_error_thm : forall n pre e post st,
  reach n (pre ++ LServe (Some e) :: post) st ->
  (exists p1 i p2, pre = p1 ++ LRet i (Some e) :: p2 /\ no_failure p1) /\
  (forall j, j < n -> exists r, In (LRet j r) pre).
Proof.
  intros n pre e post st R. destruct (reach_split _ _ _ _ R) as [sa [Ra Rb]].
  cbn [run] in Rb. destruct (step sa (LServe (Some e))) as [s1|] eqn:S; [| discriminate].
  destruct (step_serve_guard _ _ _ S) as [_ [G1 [_ G3]]]. split.
  - pose proof (inv_first_err _ _ _ Ra) as I. rewrite <- G3 in I. exact I.
  - eapply all_returned; eauto.
Qed.

Lemma cancelled_after_failure : forall n tr st,
  reach n tr st -> (exists j e, In (LRet j (Some e)) tr) -> cancelled st = true.
Proof.
  intros n tr st R [j [e I]]. eapply inv_cancel; eauto.
  pose proof (inv_first_err _ _ _ R) as F. destruct (first_err st); [discriminate |].
  exfalso. exact (F j e I).
Qed.

Lemma no_failure_no_error : forall n tr st, reach n tr st -> no_failure tr -> first_err st = None.
Proof.
  intros n tr st R NF. pose proof (inv_first_err _ _ _ R) as F.
  destruct (first_err st) as [e|]; auto. destruct F as [p1 [i [p2 [T _]]]]. exfalso.
  apply (NF i e). rewrite T. apply in_or_app. right. left. reflexivity.
Qed.

Lemma signal_thm : forall n pre r post st,
  reach n (pre ++ LServe r :: post) st -> no_failure pre ->
  r = None /\ (exists s, In (LTake s) pre) /\ (forall j, j < n -> exists r', In (LRet j r') pre).
Proof.
  intros n pre r post st R NF. destruct (reach_split _ _ _ _ R) as [sa [Ra Rb]].
  cbn [run] in Rb. destruct (step sa (LServe r)) as [s1|] eqn:S; [| discriminate].
  destruct (step_serve_guard _ _ _ S) as [_ [G1 [G2 G3]]].
  pose proof (no_failure_no_error _ _ _ Ra NF) as FE. repeat split.
  - congruence.
  - destruct (inv_sig _ _ _ Ra) as [_ [_ [C D]]]. unfold sig_returned in G2.
    destruct (sigtask sa) as [| s k |] eqn:ST; [discriminate | | exfalso; apply C; auto].
    exists s. eapply D; eauto.
  - eapply all_returned; eauto.
Qed.

Lemma term_before_cancel_thm : forall n pre i b post st,
  reach n (pre ++ LSee i b :: post) st -> no_failure pre ->
  exists s, In (LTake s) pre /\ b = is_terminal s.
Proof.
  intros n pre i b post st R NF. destruct (reach_split _ _ _ _ R) as [sa [Ra Rb]].
  cbn [run] in Rb. destruct (step sa (LSee i b)) as [s1|] eqn:S; [| discriminate].
  pose proof (no_failure_no_error _ _ _ Ra NF) as FE.
  unfold step in S. destruct (nth_error (tasks sa) i) as [t|]; [| discriminate].
  destruct (t_status t); try discriminate.
  destruct (cancelled sa && Bool.eqb b (term sa)) eqn:G; [| discriminate].
  apply andb_prop in G. destruct G as [Cn Eb]. apply Bool.eqb_prop in Eb.
  destruct (inv_sig _ _ _ Ra) as [A [B [_ D]]].
  destruct (A FE Cn) as [s [k [ST M]]]. exists s. split; [eapply D; eauto |].
  rewrite Eb. eapply B; eauto. apply order_prefix. exact M.
Qed.

Lemma ready_thm : forall n pre post st,
  reach n (pre ++ LNotifyReady :: post) st -> forall j, j < n -> In (LReady j) pre.
Proof.
  intros n pre post st R j Hj. destruct (reach_split _ _ _ _ R) as [sa [Ra Rb]].
  cbn [run] in Rb. destruct (step sa LNotifyReady) as [s1|] eqn:S; [| discriminate].
  unfold step in S. destruct (negb (notified sa) && forallb t_ready (tasks sa)) eqn:G; [| discriminate].
  apply andb_prop in G. destruct G as [_ F]. rewrite forallb_forall in F.
  pose proof (inv_length _ _ _ Ra) as L.
  destruct (nth_error (tasks sa) j) as [t|] eqn:N; [| apply nth_error_None in N; lia].
  destruct (inv_tasks _ _ _ Ra j t N) as [_ B]. apply B. apply F. eapply nth_error_In; eauto.
Qed.

(* ------------------------------------------------------------------ progress (partial liveness) *)
Lemma act_run : forall m st s k,
  sigtask st = SAct s k -> k + m = length signal_run_order ->
  exists st', run st (repeat LAct m) = Some st' /\ sigtask st' = SAct s (length signal_run_order) /\
    tasks st' = tasks st /\ first_err st' = first_err st /\ served st' = served st /\
    (mem "cancel" (skipn k signal_run_order) = true \/ cancelled st = true -> cancelled st' = true).
Proof.
  induction m as [| m IH]; intros st s k ST L.
  - exists st. cbn. rewrite Nat.add_0_r in L. subst k. repeat split; auto.
    intros [M | C]; auto. rewrite skipn_all in M. discriminate.
  - assert (k < length signal_run_order) as Lt by lia.
    destruct (nth_error signal_run_order k) as [a|] eqn:NA; [| apply nth_error_None in NA; lia].
    cbn [repeat run]. unfold step at 1. rewrite ST, NA.
    assert (skipn k signal_run_order = a :: skipn (S k) signal_run_order) as SK.
    { clear -NA. revert k NA. induction signal_run_order as [| x l IHl]; intros [|k] NA; cbn in *; try discriminate.
      - inversion NA; reflexivity.
      - apply IHl. exact NA. }
    destruct (IH (act_effect a s st k) s (S k)) as [st' [R [S1 [S2 [S3 [S4 S5]]]]]].
    { unfold act_effect. destruct (String.eqb a "set"); [| destruct (String.eqb a "cancel")]; reflexivity. }
    { lia. }
    exists st'. split; [exact R |]. split; [exact S1 |].
    unfold act_effect in *. destruct (String.eqb a "set") eqn:E1; [| destruct (String.eqb a "cancel") eqn:E2];
      cbn [tasks first_err served cancelled] in *;
      (split; [exact S2 |]); (split; [exact S3 |]); (split; [exact S4 |]).
    + intros [M | C]; apply S5; [left | right; exact C].
      rewrite SK in M. apply String.eqb_eq in E1. subst a. cbn in M. exact M.
    + intros _. apply S5. right. reflexivity.
    + intros [M | C]; apply S5; [left | right; exact C].
      rewrite SK in M. unfold mem in M. cbn [existsb] in M. rewrite String.eqb_sym, E2 in M. exact M.
Qed.

(* once every task has returned, a pending signal makes Serve return nil *)
Lemma signal_completes : forall st s,
  pending st = Some s -> sigtask st = SWait -> served st = None -> first_err st = None ->
  forallb is_returned (tasks st) = true ->
  exists st', run st (LTake s :: repeat LAct (length signal_run_order) ++ [LServe None]) = Some st' /\
              served st' = Some None /\ cancelled st' = true.
Proof.
  intros st s P W Sv FE F. cbn [run]. unfold step at 1. rewrite W, P.
  assert (sig_eqb s s = true) as E by (destruct s; reflexivity). rewrite E.
  set (st1 := mkSt (tasks st) (cancelled st) (first_err st) (term st) None (SAct s 0) (notified st) (served st)).
  destruct (act_run (length signal_run_order) st1 s 0) as [st2 [R [S1 [S2 [S3 [S4 S5]]]]]]; auto.
  rewrite run_app, R. cbn [run]. unfold step. subst st1. cbn [tasks first_err served cancelled] in *.
  rewrite S4, Sv, S2, F, S3, FE. unfold sig_returned. rewrite S1, Nat.leb_refl. cbn.
  eexists. split; [reflexivity |]. cbn [served cancelled]. split; [reflexivity |].
  apply S5. left. exact order_has_cancel.
Qed.

(* a running task can always return (task behaviour is unconstrained) *)
Lemma task_can_return : forall st i t r,
  nth_error (tasks st) i = Some t -> t_status t = Running -> exists st', step st (LRet i r) = Some st'.
Proof.
  intros st i t r N R. unfold step. rewrite N, R. destruct r, (first_err st); eauto.
Qed.

(* ------------------------------------------------------------------ serve(): attempts *)
Lemma serve_loop_calls : forall fuel first delay now c oracle,
  length (snd (serve_loop fuel first delay now c oracle)) <= fuel /\
  (fst (serve_loop fuel first delay now c oracle) = SRTimeout ->
   length (snd (serve_loop fuel first delay now c oracle)) = fuel).
Proof.
  induction fuel as [| fuel IH]; intros first delay now c oracle; cbn [serve_loop].
  - cbn. auto.
  - match goal with |- context [if ?x then (SRNil, []) else _] => destruct x end; [cbn; split; [lia | discriminate] |].
    match goal with |- context [if ?x then (SRNil, []) else _] => destruct x end; [cbn; split; [lia | discriminate] |].
    destruct oracle as [| [res d] rest].
    + specialize (IH false delay ((if first then now else (now + delay)%Z) + 0)%Z c []).
      destruct (serve_loop fuel false delay _ c []) as [r calls]. cbn in *. destruct IH as [A B]. split; [lia | auto].
    + destruct res; try (cbn; split; [lia | discriminate]).
      specialize (IH false delay ((if first then now else (now + delay)%Z) + d)%Z c rest).
      destruct (serve_loop fuel false delay _ c rest) as [r calls]. cbn in *. destruct IH as [A B]. split; [lia | auto].
Qed.

(* ------------------------------------------------------------------ Serve returns *)
(* Labels that matter for termination: everything except the delivery of a further signal (LSig,
   always possible, changes at most `pending`) and a task's observation of the cancellation (LSee,
   repeatable, changes only what that task has seen). *)
Definition quiet_label (l : label) : bool :=
  match l with LSig _ | LSee _ _ => false | _ => true end.

Definition task_rank (t : task) : nat :=
  match t_status t with
  | NotStarted => 3
  | Running => if t_ready t then 1 else 2
  | Returned _ => 0
  end.
Definition tasks_rank (l : list task) : nat := fold_right (fun t a => task_rank t + a) 0 l.
Definition sig_rank (s : sigst) : nat :=
  match s with
  | SWait => Datatypes.S (Datatypes.S (length signal_run_order))
  | SAct _ k => Datatypes.S (length signal_run_order) - k
  | SDone => 0
  end.
Definition serve_measure (st : state) : nat :=
  tasks_rank (tasks st) + sig_rank (sigtask st) + (if notified st then 0 else 1) +
  (match served st with Some _ => 0 | None => 1 end).

Lemma tasks_rank_upd : forall l i t f, nth_error l i = Some t ->
  tasks_rank (upd i f l) + task_rank t = tasks_rank l + task_rank (f t).
Proof.
  induction l as [|a l IH]; intros i t f H; [destruct i; discriminate|].
  destruct i; cbn [nth_error] in H; cbn [upd tasks_rank fold_right].
  - injection H as ->. lia.
  - specialize (IH i t f H). unfold tasks_rank in IH. lia.
Qed.

Lemma quiet_step_decreases : forall st l st', quiet_label l = true -> step st l = Some st' ->
  serve_measure st' < serve_measure st.
Proof.
  intros st l st' Hq H. destruct l; try discriminate; cbn [step] in H.
  - (* LStart *)
    destruct (nth_error (tasks st) i) as [t|] eqn:E; [|discriminate].
    destruct (t_status t) eqn:Es; try discriminate. injection H as <-.
    unfold serve_measure, set_tasks; cbn [tasks sigtask notified served].
    pose proof (tasks_rank_upd (tasks st) i t (fun t => mkTask Running (t_ready t) (t_seen t)) E) as Hu.
    unfold task_rank in Hu. cbn [t_status t_ready] in Hu. rewrite ?Es in Hu.
    destruct (t_ready t); lia.
  - (* LReady *)
    destruct (nth_error (tasks st) i) as [t|] eqn:E; [|discriminate].
    destruct (t_status t) eqn:Es; try discriminate. destruct (t_ready t) eqn:Er; [discriminate|]. injection H as <-.
    unfold serve_measure, set_tasks; cbn [tasks sigtask notified served].
    pose proof (tasks_rank_upd (tasks st) i t (fun t => mkTask (t_status t) true (t_seen t)) E) as Hu.
    unfold task_rank in Hu. cbn [t_status t_ready] in Hu. rewrite ?Es, ?Er in Hu. lia.
  - (* LRet *)
    destruct (nth_error (tasks st) i) as [t|] eqn:E; [|discriminate].
    destruct (t_status t) eqn:Es; try discriminate.
    pose proof (tasks_rank_upd (tasks st) i t (fun t => mkTask (Returned r) (t_ready t) (t_seen t)) E) as Hu.
    unfold task_rank in Hu. cbn [t_status t_ready] in Hu. rewrite ?Es in Hu.
    assert (Hpos : 1 <= (if t_ready t then 1 else 2)) by (destruct (t_ready t); lia).
    destruct r as [e|]; [destruct (first_err st)|]; injection H as <-;
      unfold serve_measure, set_tasks; cbn [tasks sigtask notified served]; lia.
  - (* LTake *)
    destruct (sigtask st) eqn:Es; try discriminate. destruct (pending st) as [s'|]; [|discriminate].
    destruct (sig_eqb s s'); [|discriminate]. injection H as <-.
    unfold serve_measure; cbn [tasks sigtask notified served]. rewrite Es. cbn [sig_rank]. lia.
  - (* LAct *)
    destruct (sigtask st) as [|s k|] eqn:Es; try discriminate.
    destruct (nth_error signal_run_order k) as [a|] eqn:En; [|discriminate]. injection H as <-.
    assert (Hk : k < length signal_run_order) by (apply nth_error_Some; rewrite En; discriminate).
    unfold serve_measure, act_effect.
    destruct (String.eqb a "set"); [|destruct (String.eqb a "cancel")]; cbn [tasks sigtask notified served]; rewrite Es; cbn [sig_rank]; lia.
  - (* LDone *)
    destruct (sigtask st) eqn:Es; try discriminate.
    destruct (cancelled st && signal_select_shape); [|discriminate]. injection H as <-.
    unfold serve_measure; cbn [tasks sigtask notified served]. rewrite Es. cbn [sig_rank]. lia.
  - (* LNotifyReady *)
    destruct (notified st) eqn:En; cbn [negb andb] in H; [discriminate|].
    destruct (forallb t_ready (tasks st)); [|discriminate]. injection H as <-.
    unfold serve_measure; cbn [tasks sigtask notified served]. rewrite En. lia.
  - (* LServe *)
    destruct (served st) eqn:Esv; [discriminate|].
    match type of H with (if ?c then _ else _) = _ => destruct c end; [|discriminate]. injection H as <-.
    unfold serve_measure; cbn [tasks sigtask notified served]. rewrite Esv. lia.
Qed.

Fixpoint all_quiet (tr : list label) : bool :=
  match tr with [] => true | l :: r => quiet_label l && all_quiet r end.

Lemma quiet_run_bounded : forall tr st st', all_quiet tr = true -> run st tr = Some st' ->
  length tr + serve_measure st' <= serve_measure st.
Proof.
  induction tr as [|l tr IH]; intros st st' Hq H; cbn [run] in H.
  - injection H as <-. cbn. lia.
  - cbn [all_quiet] in Hq. apply andb_prop in Hq. destruct Hq as [Hl Hr].
    destruct (step st l) as [st1|] eqn:E; [|discriminate].
    pose proof (quiet_step_decreases st l st1 Hl E). specialize (IH st1 st' Hr H). cbn [length]. lia.
Qed.

Lemma exists_not_returned : forall l, forallb is_returned l = false ->
  exists i t, nth_error l i = Some t /\ is_returned t = false.
Proof.
  induction l as [|a l IH]; cbn [forallb]; [discriminate|].
  destruct (is_returned a) eqn:E; cbn [andb].
  - intro H. destruct (IH H) as (i & t & Hi & Ht). exists (Datatypes.S i), t. split; assumption.
  - intros _. exists 0, a. split; [reflexivity|exact E].
Qed.

Lemma serve_enabled : forall st, served st = None -> forallb is_returned (tasks st) = true ->
  sig_returned st = true -> exists st', step st (LServe (first_err st)) = Some st'.
Proof.
  intros st Hs Hall Hsig. cbn [step]. rewrite Hs, Hall, Hsig. cbn [andb].
  destruct (first_err st) as [e|]; [rewrite N.eqb_refl|]; eexists; reflexivity.
Qed.

(* PROGRESS: once the shared context is cancelled -- a signal was acted upon or a task failed --
   Serve cannot get stuck before it has returned: some quiet label is always enabled *)
Lemma serve_progress : forall st, cancelled st = true -> served st = None ->
  exists l st', quiet_label l = true /\ step st l = Some st'.
Proof.
  intros st Hc Hs.
  destruct (forallb is_returned (tasks st)) eqn:Hall.
  - destruct (sigtask st) as [|s k|] eqn:Esg.
    + exists LDone. eexists. split; [reflexivity|]. cbn [step]. rewrite Esg, Hc, select_shape. reflexivity.
    + destruct (nth_error signal_run_order k) as [a|] eqn:En.
      * exists LAct. eexists. split; [reflexivity|]. cbn [step]. rewrite Esg, En. reflexivity.
      * assert (Hsig : sig_returned st = true).
        { unfold sig_returned. rewrite Esg. apply nth_error_None in En. apply Nat.leb_le. exact En. }
        destruct (serve_enabled st Hs Hall Hsig) as [st' H]. exists (LServe (first_err st)), st'. split; [reflexivity|exact H].
    + assert (Hsig : sig_returned st = true) by (unfold sig_returned; rewrite Esg; reflexivity).
      destruct (serve_enabled st Hs Hall Hsig) as [st' H]. exists (LServe (first_err st)), st'. split; [reflexivity|exact H].
  - destruct (exists_not_returned _ Hall) as (i & t & Hi & Ht).
    unfold is_returned in Ht. destruct (t_status t) eqn:Es; try discriminate.
    + exists (LStart i). eexists. split; [reflexivity|]. cbn [step]. rewrite Hi, Es. reflexivity.
    + exists (LRet i None). eexists. split; [reflexivity|]. cbn [step]. rewrite Hi, Es. reflexivity.
Qed.
