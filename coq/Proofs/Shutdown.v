From CR Require Import Model.Shutdown.
From Coq Require Import Lia.
Local Open Scope N_scope.

(* ordinary transmissions and the cancellation only *)
Definition normal (l : label) : Prop :=
  match l with LBegin _ false | LEnd _ | LCancel => True | _ => False end.

(* in-flight bookkeeping over a prefix of ordinary events: None = an End without a Begin *)
Fixpoint flight (fl : list N) (pre : list label) : option (list N) :=
  match pre with
  | [] => Some fl
  | LBegin s false :: pre' => flight (s :: fl) pre'
  | LEnd s :: pre' => match remove1 s fl with Some fl' => flight fl' pre' | None => None end
  | LCancel :: pre' => flight fl pre'
  | _ :: _ => None
  end.

Lemma run_final_done w tr st : run w (FinalDone, []) tr = Some st -> fst st = Returned ->
  tr = [LReturn true] /\ st = (Returned, []).
Proof.
  destruct tr as [|l tr]; cbn [run]; [intros H; injection H as <-; discriminate|].
  destruct l as [s f|s| |ok]; cbn [step]; try discriminate. destruct ok; [|discriminate].
  destruct tr as [|l' tr]; cbn [run]; [intros H _; injection H as <-; auto|].
  destruct l' as [? []| | |[]]; cbn [step]; discriminate.
Qed.

Lemma run_final_started w s tr st : run w (FinalStarted s, []) tr = Some st -> fst st = Returned ->
  tr = [LEnd s; LReturn true] /\ st = (Returned, []).
Proof.
  destruct tr as [|l tr]; cbn [run]; [intros H; injection H as <-; discriminate|].
  destruct l as [s' f|s'| |ok]; cbn [step]; try discriminate.
  destruct (N.eqb_spec s s') as [<-|]; [|discriminate].
  intros H Hr. destruct (run_final_done w tr st H Hr) as [-> ->]. auto.
Qed.

(* from the Cancelled phase: a prefix of ordinary events that leaves nothing in flight, then
   either [final begin; final end; return] (terminating) or [return] (reloading / unicast-only) *)
Lemma run_cancelled w tr : forall fl st,
  run w (Cancelled, fl) tr = Some st -> fst st = Returned ->
  st = (Returned, []) /\
  exists pre, Forall normal pre /\ flight fl pre = Some [] /\
    if w then exists s, tr = pre ++ [LBegin s true; LEnd s; LReturn true]
    else tr = pre ++ [LReturn true].
Proof.
  induction tr as [|l tr IH]; intros fl st; cbn [run]; [intros H; injection H as <-; discriminate|].
  destruct l as [s f|s| |ok]; cbn [step].
  - destruct f.
    + destruct fl; [|discriminate]. destruct w; [|discriminate].
      intros H Hr. destruct (run_final_started true s tr st H Hr) as [-> ->].
      split; [reflexivity|]. exists []. repeat split; [constructor|]. exists s. reflexivity.
    + intros H Hr. destruct (IH (s :: fl) st H Hr) as (-> & pre & Hn & Hf & Hs).
      split; [reflexivity|]. exists (LBegin s false :: pre). split; [constructor; [exact I|exact Hn]|].
      split; [exact Hf|]. destruct w; [destruct Hs as [s' ->]; exists s'; reflexivity|rewrite Hs; reflexivity].
  - destruct (remove1 s fl) as [fl'|] eqn:Er; [|discriminate].
    intros H' Hr.
    destruct (IH fl' st H' Hr) as (-> & pre & Hn & Hf & Hs).
    split; [reflexivity|]. exists (LEnd s :: pre). split; [constructor; [exact I|exact Hn]|].
    split; [cbn [flight]; rewrite Er; exact Hf|].
    destruct w; [destruct Hs as [s' ->]; exists s'; reflexivity|rewrite Hs; reflexivity].
  - discriminate.
  - destruct ok; [|discriminate]. destruct fl; [|discriminate].
    destruct w; [discriminate|].
    destruct tr as [|l' tr']; cbn [run].
    + intros H _. injection H as <-. split; [reflexivity|]. exists []. repeat split. constructor.
    + destruct l' as [? []| | |[]]; cbn [step]; discriminate.
Qed.

Lemma run_running w tr : forall fl st,
  run w (Running, fl) tr = Some st -> fst st = Returned ->
  st = (Returned, []) /\
  exists pre, Forall normal pre /\ In LCancel pre /\ flight fl pre = Some [] /\
    if w then exists s, tr = pre ++ [LBegin s true; LEnd s; LReturn true]
    else tr = pre ++ [LReturn true].
Proof.
  induction tr as [|l tr IH]; intros fl st; cbn [run]; [intros H; injection H as <-; discriminate|].
  destruct l as [s f|s| |ok]; cbn [step].
  - destruct f; [discriminate|]. intros H Hr.
    destruct (IH (s :: fl) st H Hr) as (-> & pre & Hn & Hc & Hf & Hs).
    split; [reflexivity|]. exists (LBegin s false :: pre). split; [constructor; [exact I|exact Hn]|].
    split; [right; exact Hc|]. split; [exact Hf|].
    destruct w; [destruct Hs as [s' ->]; exists s'; reflexivity|rewrite Hs; reflexivity].
  - destruct (remove1 s fl) as [fl'|] eqn:Er; [|discriminate]. intros H Hr.
    destruct (IH fl' st H Hr) as (-> & pre & Hn & Hc & Hf & Hs).
    split; [reflexivity|]. exists (LEnd s :: pre). split; [constructor; [exact I|exact Hn]|].
    split; [right; exact Hc|]. split; [cbn [flight]; rewrite Er; exact Hf|].
    destruct w; [destruct Hs as [s' ->]; exists s'; reflexivity|rewrite Hs; reflexivity].
  - intros H Hr. destruct (run_cancelled w tr fl st H Hr) as (-> & pre & Hn & Hf & Hs).
    split; [reflexivity|]. exists (LCancel :: pre). split; [constructor; [exact I|exact Hn]|].
    split; [left; reflexivity|]. split; [exact Hf|].
    destruct w; [destruct Hs as [s' ->]; exists s'; reflexivity|rewrite Hs; reflexivity].
  - discriminate.
Qed.

Lemma accepts_shape w tr : accepts w tr = true ->
  exists pre, Forall normal pre /\ In LCancel pre /\ flight [] pre = Some [] /\
    if w then exists s, tr = pre ++ [LBegin s true; LEnd s; LReturn true]
    else tr = pre ++ [LReturn true].
Proof.
  unfold accepts. destruct (run w init tr) as [[p fl]|] eqn:E; [|discriminate].
  destruct p; try discriminate. destruct fl; [|discriminate]. intros _.
  destruct (run_running w tr [] _ E eq_refl) as (_ & pre & H). exists pre. exact H.
Qed.

(* nothing can follow the return *)
Lemma run_returned w fl tr st : run w (Returned, fl) tr = Some st -> tr = [].
Proof. destruct tr as [|l tr]; [reflexivity|]. cbn [run step]. discriminate. Qed.

(* possibility of return: from any state after the cancellation the run can complete *)
Lemma flight_ends fl : flight fl (map LEnd fl) = Some [].
Proof. induction fl as [|x fl IH]; [reflexivity|]. cbn [map flight remove1]. rewrite N.eqb_refl. exact IH. Qed.

Lemma run_app w tr1 : forall st tr2, run w st (tr1 ++ tr2) =
  match run w st tr1 with Some st' => run w st' tr2 | None => None end.
Proof. induction tr1 as [|l tr1 IH]; intros; cbn [app run]; [reflexivity|]. destruct (step w st l); [apply IH|reflexivity]. Qed.

Lemma run_ends w fl : run w (Cancelled, fl) (map LEnd fl) = Some (Cancelled, []).
Proof. induction fl as [|x fl IH]; [reflexivity|]. cbn [map run step remove1]. rewrite N.eqb_refl. exact IH. Qed.

Lemma can_return w fl : exists tr, run w (Cancelled, fl) tr = Some (Returned, []).
Proof.
  exists (map LEnd fl ++ (if w then [LBegin 0 true; LEnd 0; LReturn true] else [LReturn true])).
  rewrite run_app, run_ends. destruct w; reflexivity.
Qed.

Definition is_final (l : label) : bool := match l with LBegin _ true => true | _ => false end.
Lemma normal_not_final pre : Forall normal pre -> filter is_final pre = [].
Proof. induction 1 as [|l pre Hl _ IH]; [reflexivity|]. cbn [filter]. destruct l as [? []| | |]; cbn in *; try contradiction; exact IH. Qed.

Lemma accepts_finals w tr : accepts w tr = true ->
  length (filter is_final tr) = if w then 1%nat else 0%nat.
Proof.
  intros H. destruct (accepts_shape w tr H) as (pre & Hn & _ & _ & Hs).
  destruct w; [destruct Hs as [s ->]|rewrite Hs]; rewrite filter_app, (normal_not_final pre Hn); reflexivity.
Qed.
