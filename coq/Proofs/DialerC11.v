(* C11: every trace of the model (with the real dial()) is accepted by the specification monitor
   of Model/DialerSpec.v. *)
From Coq Require Import Lia ZifyBool.
From CR Require Import Model.Dialer.
From CR Require Import Model.DialerSpec.
From CR Require Import gen.ExtDialer.
Local Open Scope Z_scope.

Lemma crun_app : forall m a0 a b s,
  crun m a0 s (a ++ b) = match crun m a0 s a with Some s' => crun m a0 s' b | None => None end.
Proof.
  intros m a0 a; induction a as [|e a IH]; intros b s; [reflexivity|].
  cbn [app crun]. destruct (cstep m a0 s e); auto.
Qed.

Lemma crun_mark : forall m a0 s c w, crun m a0 s (mark c w) = Some s.
Proof. intros; unfold mark; destruct (c && negb (w_cancelled w)); reflexivity. Qed.


(* nothing is held *)
Definition rest (a0 : bool) (s : cst) (w : world) : Prop :=
  exists rd dn fl lr, s = mkC None (w_next w) (w_autoconf w) rd None dn fl lr /\
    (fl = false -> w_autoconf w = a0).

(* connection k is held *)
Definition holding (m : mode) (a0 : bool) (s : cst) (w : world) (k : N) (kind : conn_kind) : Prop :=
  exists rd dn fl lr pd, s = mkC (Some k) (k + 1)%N (w_autoconf w) rd pd dn fl lr /\
    w_next w = (k + 1)%N /\
    match m, kind with
    | Advertise, KReal (Some prev) =>
        pd = Some prev /\ (dn = true \/ w_autoconf w = false) /\ (fl = false -> prev = a0)
    | Monitor, KReal None => pd = None /\ (fl = false -> w_autoconf w = a0)
    | _, _ => False
    end.

Ltac go := repeat (progress (rewrite ?N.eqb_refl, ?Bool.eqb_reflx; cbn)).

Lemma do_real_ok : forall m a0 st w s ev w1 o,
  rest a0 s w -> do_real m st w = (ev, w1, o) ->
  exists s', crun m a0 s ev = Some s' /\
    w_cancelled w1 = w_cancelled w /\ w_dials w1 = w_dials w /\
    match o with
    | DFail _ => rest a0 s' w1
    | DConn k kind => holding m a0 s' w1 k kind
    end.
Proof.
  intros m a0 [lk ck op g stt lv cl] w s ev w1 o (rd & dn & fl & lr & -> & Hfl); unfold do_real; cbn.
  destruct lk. { intro H; inversion H; subst. eexists; split; [reflexivity|]. repeat split; auto. exists rd, dn, fl, lr; auto. }
  destruct ck. { intro H; inversion H; subst. eexists; split; [reflexivity|]. repeat split; auto. exists rd, dn, fl, lr; auto. }
  destruct op. { intro H; inversion H; subst. eexists; split; [reflexivity|]. repeat split; auto. exists rd, dn, fl, lr; auto. }
  destruct m.
  - (* Advertise *)
    destruct g.
    + destruct stt; intro H; inversion H; subst; clear H; go.
      * eexists; split; [reflexivity|]. repeat split; auto.
        do 5 eexists; split; [reflexivity|]. cbn. repeat split; auto.
      * eexists; split; [reflexivity|]. repeat split; auto.
        do 5 eexists; split; [reflexivity|]. cbn. repeat split; auto. intro; discriminate.
      * eexists; split; [reflexivity|]. repeat split; auto.
        do 4 eexists; split; [reflexivity|]. intro; discriminate.
      * eexists; split; [reflexivity|]. repeat split; auto.
        do 4 eexists; split; [reflexivity|]. intro; discriminate.
    + intro H; inversion H; subst; clear H; go.
      eexists; split; [reflexivity|]. repeat split; auto. do 4 eexists; split; [reflexivity|]. exact Hfl.
    + intro H; inversion H; subst; clear H; go.
      eexists; split; [reflexivity|]. repeat split; auto. do 4 eexists; split; [reflexivity|]. exact Hfl.
    + intro H; inversion H; subst; clear H; go.
      eexists; split; [reflexivity|]. repeat split; auto. do 4 eexists; split; [reflexivity|]. exact Hfl.
  - (* Monitor *)
    intro H; inversion H; subst; clear H; go.
    eexists; split; [reflexivity|]. repeat split; auto.
    do 5 eexists; split; [reflexivity|]. cbn. repeat split; auto.
Qed.

Definition is_real (d : dial_ev) : bool := match d with DReal _ _ => true | _ => false end.
Definition all_real (w : world) : Prop := Forall (fun d => is_real d = true) (w_dials w).

Lemma rest_ok_of_rest : forall a0 s w, rest a0 s w -> rest_ok a0 s = true.
Proof.
  intros a0 s w (rd & dn & fl & lr & -> & Hfl). unfold rest_ok; cbn.
  destruct fl; [reflexivity|]. rewrite Hfl by reflexivity. apply Bool.eqb_reflx.
Qed.

Lemma rest_same : forall a0 s w w', w_next w' = w_next w -> w_autoconf w' = w_autoconf w ->
  rest a0 s w -> rest a0 s w'.
Proof. intros a0 s w w' Hn Ha (rd & dn & fl & lr & -> & Hfl). exists rd, dn, fl, lr. rewrite Hn, Ha. auto. Qed.

Lemma holding_same : forall m a0 s w w' k kind, w_next w' = w_next w -> w_autoconf w' = w_autoconf w ->
  holding m a0 s w k kind -> holding m a0 s w' k kind.
Proof.
  intros m a0 s w w' k kind Hn Ha (rd & dn & fl & lr & pd & -> & Hk & Hm).
  exists rd, dn, fl, lr, pd. rewrite Hn, Ha. auto.
Qed.

Lemma cancel_if_next : forall c w, w_next (cancel_if c w) = w_next w.
Proof. destruct c; reflexivity. Qed.
Lemma cancel_if_autoconf : forall c w, w_autoconf (cancel_if c w) = w_autoconf w.
Proof. destruct c; reflexivity. Qed.
Lemma cancel_if_dials : forall c w, w_dials (cancel_if c w) = w_dials w.
Proof. destruct c; reflexivity. Qed.

Definition dial_post (m : mode) (a0 : bool) (s : cst) (w : world) (o : dial_out) : Prop :=
  match o with
  | DFail _ => rest a0 s w
  | DConn k kind => holding m a0 s w k kind
  end.

Lemma dial_attempt_step : forall m a0 s w o,
  dial_post m a0 s w o ->
  cstep m a0 s (DialAttempt (match o with DConn _ _ => None | DFail e => Some e end)) = Some s.
Proof.
  intros m a0 s w [k kind | e] H; cbn in H.
  - destruct H as (rd & dn & fl & lr & pd & -> & Hk & Hm). cbn.
    destruct m; [|reflexivity]. destruct kind as [|[prev|]]; try contradiction.
    destruct Hm as (-> & Hd & _). cbn. destruct Hd as [-> | ->]; [reflexivity|]. rewrite Bool.orb_true_r; reflexivity.
  - cbn. rewrite (rest_ok_of_rest _ _ _ H). reflexivity.
Qed.

Lemma do_dial_ok : forall m a0 w s ev w1 o,
  rest a0 s w -> all_real w -> do_dial m true w = (ev, w1, o) ->
  exists s', crun m a0 s ev = Some s' /\ all_real w1 /\ dial_post m a0 s' w1 o.
Proof.
  intros m a0 w s ev w1 o Hr Ha; unfold do_dial.
  assert (Hd : exists st c, hd (default_dial true) (w_dials w) = DReal st c).
  { unfold all_real in Ha. destruct (w_dials w) as [|d tl]; cbn; [eauto|].
    inversion Ha; subst. destruct d; cbn in *; [discriminate|eauto]. }
  destruct Hd as (st & c & ->).
  assert (Ha' : Forall (fun d => is_real d = true) (tl (w_dials w))).
  { unfold all_real in Ha. destruct (w_dials w); cbn; [constructor|]. inversion Ha; auto. }
  destruct (do_real m st (set_dials w (tl (w_dials w)))) as [[ev1 w2] o1] eqn:Er.
  eapply do_real_ok in Er; [|eapply rest_same; [| |exact Hr]; reflexivity].
  destruct Er as (s1 & Hc & _ & Hdl & Hp).
  intro H; inversion H; subst; clear H.
  exists s1. split.
  - rewrite crun_app, Hc. cbn [app crun]. rewrite (dial_attempt_step m a0 s1 w2 o Hp). apply crun_mark.
  - split.
    + unfold all_real. rewrite cancel_if_dials, Hdl. exact Ha'.
    + destruct o; cbn in *.
      * eapply holding_same; [apply cancel_if_next|apply cancel_if_autoconf|exact Hp].
      * eapply rest_same; [apply cancel_if_next|apply cancel_if_autoconf|exact Hp].
Qed.

Definition init_post11 (m : mode) (a0 : bool) (s : cst) (w : world) (o : init_out) : Prop :=
  match o with
  | IConn k kind => holding m a0 s w k kind
  | _ => rest a0 s w
  end.

Lemma retry_ok : forall m a0 n i delay w s ev w1 o,
  rest a0 s w -> all_real w -> retry m true n i delay w = (ev, w1, o) ->
  exists s', crun m a0 s ev = Some s' /\ all_real w1 /\ init_post11 m a0 s' w1 o.
Proof.
  intros m a0 n; induction n as [|n IH]; intros i delay w s ev w1 o Hr Ha H.
  - cbn in H; inversion H; subst. exists s; repeat split; auto.
  - cbn [retry] in H.
    assert (Hgo : forall pre w0 ev w1 o, crun m a0 s pre = Some s -> rest a0 s w0 -> all_real w0 ->
      (let '(ev, w1, o) := do_dial m true w0 in
       match o with
       | DConn k kind => (pre ++ ev, w1, IConn k kind)
       | DFail _ =>
           let '(ev2, w2, o2) := retry m true n (i + 1) (backoff i) w1 in
           (pre ++ ev ++ ev2, w2, o2)
       end) = (ev, w1, o) ->
      exists s', crun m a0 s ev = Some s' /\ all_real w1 /\ init_post11 m a0 s' w1 o).
    { clear H. intros pre w0 ev0 w10 o0 Hpre Hr0 Ha0 H.
      destruct (do_dial m true w0) as [[evd wd] od] eqn:Ed.
      eapply do_dial_ok in Ed; eauto. destruct Ed as (s1 & Hc1 & Ha1 & Hp1).
      destruct od as [k kind | e].
      - inversion H; subst. exists s1. rewrite crun_app, Hpre. auto.
      - destruct (retry m true n (i + 1) (backoff i) wd) as [[ev2 w2] o2] eqn:Er.
        eapply IH in Er; eauto. destruct Er as (s2 & Hc2 & Ha2 & Hp2).
        inversion H; subst. exists s2. rewrite crun_app, Hpre, crun_app, Hc1. auto. }
    destruct (w_cancelled w).
    + destruct (delay <=? 0).
      * unfold pop_bit in H. destruct (hd false (w_bits w)).
        -- eapply Hgo; [| | |exact H]; auto; try (eapply rest_same; [| |exact Hr]; reflexivity).
        -- inversion H; subst. exists s; repeat split; auto; try (eapply rest_same; [| |exact Hr]; reflexivity).
      * inversion H; subst. exists s; repeat split; auto.
    + destruct (0 <? delay).
      * unfold pop_wait in H. destruct (hd false (w_waits w)).
        -- inversion H; subst. exists s; repeat split; auto; try (eapply rest_same; [| |exact Hr]; reflexivity).
        -- eapply Hgo; [| | |exact H]; auto; try (eapply rest_same; [| |exact Hr]; reflexivity).
      * eapply Hgo; [| | |exact H]; auto.
Qed.

Lemma init_ok : forall m a0 cause w s ev w1 o,
  rest a0 s w -> all_real w -> init m true cause w = (ev, w1, o) ->
  exists s', crun m a0 s ev = Some s' /\ all_real w1 /\ init_post11 m a0 s' w1 o.
Proof.
  intros m a0 cause w s ev w1 o Hr Ha; unfold init. destruct cause as [e|].
  - destruct (recoverable e).
    + intro H; eapply retry_ok; eauto.
    + intro H; inversion H; subst. exists s; repeat split; auto.
  - destruct (do_dial m true w) as [[evd wd] od] eqn:Ed.
    eapply do_dial_ok in Ed; eauto. destruct Ed as (s1 & Hc1 & Ha1 & Hp1).
    destruct od as [k kind | e].
    + intro H; inversion H; subst. exists s1; auto.
    + destruct (recoverable e).
      * destruct (retry m true (Z.to_nat dialAttempts) dialLoopStart 0 wd) as [[ev2 w2] o2] eqn:Er.
        eapply retry_ok in Er; eauto. destruct Er as (s2 & Hc2 & Ha2 & Hp2).
        intro H; inversion H; subst. exists s2. rewrite crun_app, Hc1. auto.
      * intro H; inversion H; subst. exists s1; auto.
Qed.

Lemma round_ok : forall m a0 k kind te w s ev w1 ro,
  holding m a0 s w k kind -> round k kind te w = (ev, w1, ro) ->
  exists s', crun m a0 s ev = Some s' /\ rest a0 s' w1 /\ w_dials w1 = w_dials w.
Proof.
  intros m a0 k kind te w s ev w1 ro (rd & dn & fl & lr & pd & -> & Hk & Hm); unfold round, do_cleanup.
  destruct m; destruct kind as [|[prev|]]; try contradiction.
  - (* Advertise *)
    destruct Hm as (-> & Hd & Hfl).
    assert (Hdn : dn || negb (w_autoconf w) = true).
    { destruct Hd as [-> | ->]; [reflexivity|]. apply Bool.orb_true_r. }
    destruct fl; [|specialize (Hfl eq_refl); subst prev];
    (destruct (t_restore te); intro H; inversion H; subst; clear H;
      rewrite crun_app, crun_mark; cbn [app crun];
      repeat (progress (rewrite ?N.eqb_refl, ?Bool.eqb_reflx, ?Hdn, ?crun_mark; cbn));
      (eexists; split; [reflexivity|]);
      (split;
      [ do 4 eexists; rewrite ?cancel_if_next, ?cancel_if_autoconf; cbn;
        rewrite ?cancel_if_next, ?cancel_if_autoconf, Hk; (split; [reflexivity|]); try (intro; discriminate); auto
      | rewrite ?cancel_if_dials; cbn; rewrite ?cancel_if_dials; reflexivity ])).
  - (* Monitor *)
    destruct Hm as (-> & Hfl).
    assert (He : fl || Bool.eqb (w_autoconf w) a0 = true).
    { destruct fl; [reflexivity|]. rewrite Hfl by reflexivity. apply Bool.eqb_reflx. }
    intro H; inversion H; subst; clear H.
    rewrite crun_app, crun_mark; cbn [app crun].
    repeat (progress (rewrite ?N.eqb_refl, ?Bool.eqb_reflx, ?He, ?crun_mark; cbn)).
    eexists; split; [reflexivity|]. split.
    + do 4 eexists; rewrite ?cancel_if_next, ?cancel_if_autoconf, Hk; split; [reflexivity|]. exact Hfl.
    + rewrite ?cancel_if_dials; reflexivity.
Qed.

Lemma return_step : forall m a0 s w v, rest a0 s w -> crun m a0 s [Return v] = Some s.
Proof. intros m a0 s w v H. cbn. rewrite (rest_ok_of_rest _ _ _ H). reflexivity. Qed.

Lemma loop_ok : forall m a0 tasks cause w s,
  rest a0 s w -> all_real w ->
  exists s' w', crun m a0 s (loop m true tasks cause w) = Some s' /\ rest a0 s' w'.
Proof.
  intros m a0 tasks; induction tasks as [|te tl IH]; intros cause w s Hr Ha; cbn [loop];
    destruct (init m true cause w) as [[ev w1] o] eqn:Ei;
    (eapply init_ok in Ei; eauto); destruct Ei as (s1 & Hc1 & Ha1 & Hp1);
    rewrite crun_app, Hc1.
  - destruct o; cbn in Hp1; try (do 2 eexists; split; [eapply return_step; eassumption|eassumption]).
    cbn [hd]. destruct (round k kind default_task w1) as [[ev2 w2] ro] eqn:Er.
    eapply round_ok in Er; eauto. destruct Er as (s2 & Hc2 & Hr2 & Hd2).
    rewrite crun_app, Hc2. destruct ro; do 2 eexists; (split; [eapply return_step; eassumption|eassumption]).
  - destruct o; cbn in Hp1; try (do 2 eexists; split; [eapply return_step; eassumption|eassumption]).
    cbn [hd]. destruct (round k kind te w1) as [[ev2 w2] ro] eqn:Er.
    eapply round_ok in Er; eauto. destruct Er as (s2 & Hc2 & Hr2 & Hd2).
    rewrite crun_app, Hc2. destruct ro; [do 2 eexists; (split; [eapply return_step; eassumption|eassumption])|].
    apply IH; auto. unfold all_real in *. rewrite Hd2. exact Ha1.
Qed.

Definition real_script (sc : script) : Prop :=
  sc_real sc = true /\ Forall (fun d => is_real d = true) (sc_dials sc).

(* every trace of the model with the real dial() is accepted by the C11 monitor *)
Lemma c11_run : forall sc, real_script sc ->
  exists s' w', crun (sc_mode sc) (sc_autoconf0 sc) (c_init (sc_autoconf0 sc)) (dial_loop sc) = Some s' /\
    rest (sc_autoconf0 sc) s' w'.
Proof.
  intros sc (Hreal & Hd). unfold dial_loop. rewrite Hreal.
  assert (Hr : rest (sc_autoconf0 sc) (c_init (sc_autoconf0 sc)) (init_world sc)).
  { exists None, false, false, None. split; reflexivity. }
  destruct (loop_ok (sc_mode sc) (sc_autoconf0 sc) (sc_tasks sc) None (init_world sc) _ Hr Hd) as (s' & w' & Hs & Hr').
  exists s', w'. split; [|exact Hr'].
  rewrite crun_app. destruct (sc_pre sc); cbn [crun cstep]; exact Hs.
Qed.

(* every trace of the model with the real dial() is accepted by the C11 monitor *)
Theorem c11_accepts : forall sc, real_script sc ->
  c11_ok (sc_mode sc) (sc_autoconf0 sc) (dial_loop sc) = true.
Proof.
  intros sc H. destruct (c11_run sc H) as (s' & w' & Hs & _). unfold c11_ok. rewrite Hs. reflexivity.
Qed.

(* ------------------------------------------------------------------ consequences of acceptance *)

Definition touches_sysctl (e : event) : bool :=
  match e with GetAuto _ | SetAuto _ _ | Restore _ _ => true | _ => false end.

(* a monitor never touches the sysctl: the acceptor rejects any such call in Monitor mode *)
Lemma monitor_no_sysctl : forall a0 l s s',
  crun Monitor a0 s l = Some s' -> forallb (fun e => negb (touches_sysctl e)) l = true.
Proof.
  intros a0 l; induction l as [|e l IH]; intros s s' H; [reflexivity|].
  cbn [crun] in H. destruct (cstep Monitor a0 s e) as [s1|] eqn:Es; [|discriminate].
  cbn [forallb]. rewrite (IH _ _ H), Bool.andb_true_r.
  destruct e; try reflexivity; cbn in Es; try discriminate.
Qed.

(* restore answers: permission / not-exist are tolerated, anything else is reported *)
Lemma cleanup_tolerated : forall k prev te w,
  snd (do_cleanup k (KReal (Some prev)) te w) =
  match t_restore te with SOther => false | _ => true end.
Proof. intros; unfold do_cleanup; destruct (t_restore te); reflexivity. Qed.

Lemma cleanup_restores_read_value : forall k prev te w,
  exists r, In (Restore prev r) (fst (fst (do_cleanup k (KReal (Some prev)) te w))).
Proof.
  intros; unfold do_cleanup; destruct (t_restore te); eexists; cbn; right; right; left; reflexivity.
Qed.

Ltac crush_step H :=
  repeat match type of H with
  | context [match ?x with _ => _ end] => destruct x eqn:?; try discriminate
  end; try (inversion H; subst; clear H).

Definition held (s : cst) : list N := match c_open s with Some k => [k] | None => [] end.
Fixpoint opens (l : list event) : list N :=
  match l with [] => [] | OpenConn k :: tl => k :: opens tl | _ :: tl => opens tl end.
Fixpoint closes (l : list event) : list N :=
  match l with [] => [] | CloseConn k _ :: tl => k :: closes tl | _ :: tl => closes tl end.

(* one step of an accepted log: a connection is opened only when none is held, closed only when
   it is the one held; no other event changes what is held *)
Lemma cstep_held : forall m a0 s e s', cstep m a0 s e = Some s' ->
  held s ++ opens [e] = closes [e] ++ held s'.
Proof.
  intros m a0 s e s' H. destruct s as [op fr sy rd pd dn fl lr].
  destruct e; cbn in H; unfold held, opt_N_eqb, is_none in *; cbn in *;
    crush_step H; cbn; rewrite ?app_nil_r; try reflexivity;
    try (apply N.eqb_eq in Heqb; subst; reflexivity).
  - destruct op; [discriminate|reflexivity].
  - destruct op as [k0|]; [|discriminate]. apply N.eqb_eq in Heqb. subst; reflexivity.
Qed.

Lemma app_opens : forall a b, opens (a ++ b) = opens a ++ opens b.
Proof. induction a as [|e a IH]; intro b; [reflexivity|]. destruct e; cbn; rewrite ?IH; reflexivity. Qed.
Lemma app_closes : forall a b, closes (a ++ b) = closes a ++ closes b.
Proof. induction a as [|e a IH]; intro b; [reflexivity|]. destruct e; cbn; rewrite ?IH; reflexivity. Qed.

(* along an accepted log: at every point, the connections opened so far are exactly the ones
   closed so far plus the one held (at most one), in the same order *)
Lemma crun_held : forall m a0 l s s', crun m a0 s l = Some s' ->
  held s ++ opens l = closes l ++ held s'.
Proof.
  intros m a0 l; induction l as [|e l IH]; intros s s' H.
  - cbn in H; inversion H; subst. cbn. rewrite app_nil_r; reflexivity.
  - cbn [crun] in H. destruct (cstep m a0 s e) as [s1|] eqn:Es; [|discriminate].
    apply cstep_held in Es. apply IH in H.
    change (e :: l) with ([e] ++ l). rewrite app_opens, app_closes, app_assoc, Es, <- app_assoc, H, app_assoc.
    reflexivity.
Qed.


(* C11 "exactly once, before the next one is opened or the task returns" on the model's traces *)
Theorem once_model : forall sc, real_script sc ->
  opens (dial_loop sc) = closes (dial_loop sc) /\
  (forall pre k post, dial_loop sc = pre ++ OpenConn k :: post -> opens pre = closes pre).
Proof.
  intros sc H. destruct (c11_run sc H) as (s' & w' & Hs & Hr). split.
  - apply crun_held in Hs. destruct Hr as (rd & dn & fl & lr & -> & _). cbn in Hs. rewrite app_nil_r in Hs. exact Hs.
  - intros pre k post E. rewrite E, crun_app in Hs.
    destruct (crun (sc_mode sc) (sc_autoconf0 sc) (c_init (sc_autoconf0 sc)) pre) as [s1|] eqn:E1; [|discriminate].
    apply crun_held in E1. cbn [crun] in Hs.
    destruct (cstep (sc_mode sc) (sc_autoconf0 sc) s1 (OpenConn k)) as [s2|] eqn:E2; [|discriminate].
    cbn in E2. destruct s1 as [op fr sy rd1 pd dn1 fl1 lr1]; cbn in *.
    destruct op; [discriminate|]. cbn in E1. rewrite app_nil_r in E1. exact E1.
Qed.
